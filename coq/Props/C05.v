(* C05 -- Configuration checking completes, preserves and polices every parameter.
   Statements only; proofs are in Proofs/CheckerP.v (generic) and Proofs/SchemasP.v (the
   per-run obligations on the schemas regenerated from /repo, Gen/Schemas.v). *)
From Coq Require Import List Bool ZArith QArith String.
From Pandora Require Import Model.Json Model.Checker Spec.Domains Gen.Schemas
  Proofs.CheckerP Proofs.SchemasP.
Import ListNotations.
Open Scope list_scope.

(* POLICES.  For every built-in class, under every registry name, the documented table has
   an entry; the class's schema and the table have the same keys (each once); and for every
   key other than the method name, for EVERY JSON value v (all integers, all rationals,
   nan, +-inf, strings, booleans, null, lists, dictionaries):
       (value tests of the prologue on v) && (json-checker accepts v)  =  v is in the documented domain.
   The method key accepts each registered name (an unknown name never reaches a class:
   C05_unknown_method_rejected). *)
Theorem C05_schema_iff_domain : Forall class_agrees classes.
Proof. exact all_classes_agree. Qed.

(* Every default written by a built-in check_conf is the documented one, and every documented
   default is written (the five O1 entries of Spec/Domains.v excepted, see C05_o1_observation) *)
Theorem C05_defaults_match : forallb defaults_ok classes = true.
Proof. vm_compute. reflexivity. Qed.

(* the defaults the property text lists (window_size 5, subpix 1, cbca 30.0/5, invalid_disparity
   -9999, filter_size 3, sigma 2.0/6.0, eta 0.7/0.01, cross_checking_threshold 1.0, num_scales 2,
   scale_factor 2, marge 1) are the defaults of the code *)
Theorem C05_property_defaults : property_defaults_ok classes = true.
Proof. vm_compute. reflexivity. Qed.

(* generated obligations used by the two theorems below *)
Theorem C05_prologues_wf :
  forallb (fun c => ops_clean (c_prologue c) && prologue_wf (c_prologue c)) classes = true
  /\ kinds_consistent classes = true.
Proof. split; vm_compute; reflexivity. Qed.

(* COMPLETES and PRESERVES.  When a built-in check_conf accepts a step configuration (whose
   "NaN" strings have been converted, as update_conf does), the result is the user's
   configuration -- same keys, same values, same positions -- followed by defaults; what is
   appended is exactly one default for each defaulted parameter the user omitted. *)
Theorem C05_complete_keeps_user_keys : forall c g cfg cfg',
  In c classes -> clean cfg = true ->
  class_check no_oracle g c cfg = Some cfg' ->
  cfg' = cfg ++ appended (c_prologue c) cfg
  /\ (forall k v, In (k, v) (appended (c_prologue c) cfg) ->
        has_key k cfg = false /\ exists op, In op (c_prologue c) /\ op_default op = Some (k, v))
  /\ (forall k v op, In op (c_prologue c) -> op_default op = Some (k, v) ->
        has_key k cfg = true \/ has_key k (appended (c_prologue c) cfg) = true).
Proof.
  intros c g cfg cfg' I C H.
  destruct C05_prologues_wf as [W _]. rewrite forallb_forall in W.
  specialize (W c I). apply andb_prop in W as [W1 W2].
  split; [exact (class_check_appends g c cfg cfg' C W1 H)|].
  split; [intros k v; apply appended_in | intros k v op; apply appended_complete].
Qed.

(* IDEMPOTENT.  Checking the returned configuration again returns it unchanged. *)
Theorem C05_complete_idempotent : forall c g cfg cfg',
  In c classes -> clean cfg = true ->
  class_check no_oracle g c cfg = Some cfg' ->
  class_check no_oracle g c cfg' = Some cfg'.
Proof.
  intros c g cfg cfg' I C H.
  destruct C05_prologues_wf as [W _]. rewrite forallb_forall in W.
  specialize (W c I). apply andb_prop in W as [W1 W2].
  exact (class_check_idempotent g c cfg cfg' C W1 W2 H).
Qed.

(* UNKNOWN METHOD.  A step whose method value is missing, not a string, or not a registered
   name of its kind is rejected, whatever else it contains. *)
Theorem C05_unknown_method_rejected : forall g kind cfg,
  (forall c, In c classes -> c_kind c = kind ->
     match lookup (c_method_key c) cfg with
     | Some (JStr m) => mem_str m (c_names c) = false
     | _ => True
     end) ->
  step_check no_oracle classes g kind cfg = None.
Proof. intros g kind cfg. exact (unknown_method_rejected classes g kind cfg (proj2 C05_prologues_wf)). Qed.

(* Full composition, kept visible.  PARTIAL: proved above are (i) the per-key equality for every
   value, (ii) the equality of the key sets, (iii) the completion; NOT proved is the glue lemma
   that json-checker's traversal (schema keys looked up in the configuration + no extra key)
   and the specification's traversal (configuration keys looked up in the table + no missing
   key) of a duplicate-free association list agree.  The correspondence run compares the two
   traversals (extracted [acceptable] against the real code) on every generated case. *)
Definition C05_accept_iff_documented_full : Prop :=
  forall c m ps cfg, In c classes -> In m (c_names c) ->
    find_doc (c_kind c) m documented = Some ps ->
    clean cfg = true -> nodup_str (keys cfg) = true ->
    lookup (c_method_key c) cfg = Some (JStr m) ->
    let full := cfg ++ appended (c_prologue c) cfg in
    class_check no_oracle false c cfg = (if acceptable ps full then Some full else None).

(* Non-vacuity: a concrete user configuration, its completion, and a rejected neighbour. *)
Example C05_example :
  let user := [("window_size", JInt 7); ("matching_cost_method", JStr "sad")]%string in
  step_check no_oracle classes false "matching_cost" user
  = Some (user ++ [("subpix", JInt 1); ("band", JNull); ("step", JInt 1)]%string)
  /\ step_check no_oracle classes false "matching_cost"
       [("window_size", JInt 8); ("matching_cost_method", JStr "sad")]%string = None
  /\ clean user = true.
Proof. vm_compute. repeat split. Qed.

(* O1 (observation, DESIGN.md section 4): the five listed defaults really differ between the
   user guide and the code; none is in the property's list. *)
Example C05_o1_observation : o1_differs classes = true.
Proof. vm_compute. reflexivity. Qed.

Print Assumptions C05_schema_iff_domain.
Print Assumptions C05_defaults_match.
Print Assumptions C05_property_defaults.
Print Assumptions C05_prologues_wf.
Print Assumptions C05_complete_keeps_user_keys.
Print Assumptions C05_complete_idempotent.
Print Assumptions C05_unknown_method_rejected.
