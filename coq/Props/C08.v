(* C08 -- Right-image products equal the left products of the mirrored problem.
   Statements only; proofs are `exact <lemma>` from Proofs/MirrorP.v, instantiated
   with the call structure of the run callbacks regenerated from /repo
   (Gen/Callbacks.v).  The step functions F are ARBITRARY. *)
From Coq Require Import List Bool.
From Pandora Require Import Model.Mirror Proofs.MirrorP Gen.Callbacks.
From Coq Require Import ZArith QArith.
From Pandora Require Import Model.MatchingCost Model.Refine Model.CrossCheck Model.Interp Spec.CrossCheck
     Model.Criteria Model.PipelineRun Proofs.PipelineRunP Gen.Flags Gen.RefineConsts Gen.Constants.
From Pandora Require Import Model.Multiscale Model.ScaleArith Gen.ScaleArith Proofs.ScaleArithGenP.
Import ListNotations.

(* Per-run obligations on the regenerated callbacks (finite, complete computations):
   - every built-in callback is, segment by segment, "left block; right block =
     the left block with every slot exchanged L<->R", the two blocks touching
     disjoint data; validation_run has exactly the documented shape;
   - the left blocks only read/write left data (and the right image), the
     guarded right blocks never write them;
   - without the guard, the right cost volume / disparity dataset are never written. *)
Theorem C08_callbacks_mirrored : callbacks_ok gen_callback = true.
Proof. vm_compute. reflexivity. Qed.
Theorem C08_callbacks_lclosed : callbacks_lclosed gen_callback = true.
Proof. vm_compute. reflexivity. Qed.
Theorem C08_callbacks_rquiet : callbacks_rquiet gen_callback = true.
Proof. vm_compute. reflexivity. Qed.

Section C08.
  (* any value domain, any step functions *)
  Variable V : Type.
  Variable F : fname -> list V -> list V.
  (* what C07 / C14 establish about the two validation functions: cross-checking
     returns the checked dataset, reads the other dataset only through its
     disparity map and does not change the disparity map it checks;
     interpolation acts on one dataset *)
  Variable D : Type.
  Variable disp_of : V -> D.
  Variables (chk : V -> V -> V) (itp : V -> V).
  Hypothesis F_chk : forall a b, F FCrossCheck [a; b] = [chk a b].
  Hypothesis F_itp : forall a, F FInterpolate [a] = [itp a].
  Hypothesis chk_other : forall a b b', disp_of b = disp_of b' -> chk a b = chk a b'.
  Hypothesis chk_disp : forall a b, disp_of (chk a b) = disp_of a.
  (* interval arithmetic of run_prepare *)
  Variables (neg dv pyr first rest : V -> V) (e : V).
  Hypothesis neg_invol : forall x, neg (neg x) = x.
  Hypothesis dv_neg : forall x, dv (neg x) = neg (dv x).

  (* For every sequence of callback executions (any legal pipeline over the
     built-in step kinds, any number of scales: C01 gives the sequence) with a
     validation step (right products computed), every input pair and interval:
     each slot of the run on (R, L, [-max, -min]) holds what the exchanged slot
     of the run on (L, R, [min, max]) holds -- its left products are the
     original right products and conversely. *)
  Theorem C08_mirror_single_scale : forall pl L R imin imax, no_seg pl ->
    let s  := exec_run V F gen_callback true pl (prepare_single V neg e L R imin imax) in
    let s' := exec_run V F gen_callback true pl (prepare_single V neg e R L (neg imax) (neg imin)) in
    forall x, s' x = s (swap_slot x).
  Proof.
    exact (mirror_single V F D disp_of chk itp F_chk F_itp chk_other chk_disp neg e neg_invol
                         gen_callback C08_callbacks_mirrored).
  Qed.

  Theorem C08_mirror_multi_scale : forall pl L R imin imax, no_seg pl ->
    let s  := exec_run V F gen_callback true pl (prepare_multi V neg dv pyr first rest e L R imin imax) in
    let s' := exec_run V F gen_callback true pl
                       (prepare_multi V neg dv pyr first rest e R L (neg imax) (neg imin)) in
    forall x, s' x = s (swap_slot x).
  Proof.
    exact (mirror_multi V F D disp_of chk itp F_chk F_itp chk_other chk_disp neg dv pyr first rest e
                        neg_invol dv_neg gen_callback C08_callbacks_mirrored).
  Qed.

  (* without a validation step the right dataset stays what run_prepare made it (empty) *)
  Theorem C08_no_validation_right_empty : forall pl, only_lclosed pl -> forall s,
    exec_run V F gen_callback false pl s Rdisp = s Rdisp
    /\ exec_run V F gen_callback false pl s Rcv = s Rcv.
  Proof. exact (fun pl => right_untouched_without_validation V F gen_callback pl C08_callbacks_rquiet). Qed.

  (* the left products do not depend on whether right products are computed ... *)
  Theorem C08_left_indep_of_right : forall pl, only_lclosed pl -> forall s t,
    agree V lside s t ->
    agree V lside (exec_run V F gen_callback true pl s) (exec_run V F gen_callback false pl t).
  Proof. exact (fun pl => left_indep_of_right V F gen_callback pl C08_callbacks_lclosed). Qed.

  (* ... hence adding a cross-checking step without filling changes nothing in
     the left disparity map *)
  Theorem C08_xcheck_keeps_left_disparity : forall pl s, only_lclosed pl ->
    disp_of (exec_run V F gen_callback true (pl ++ [(CbVal, false)]) s Ldisp)
    = disp_of (exec_run V F gen_callback false pl s Ldisp).
  Proof.
    exact (fun pl s => xcheck_keeps_left_disparity V F D disp_of chk itp F_chk F_itp chk_other chk_disp
                         gen_callback pl s C08_callbacks_mirrored C08_callbacks_lclosed).
  Qed.
End C08.

(* Non-vacuity: a concrete interpretation (values = lists of tags recording
   which function produced them from what) and a concrete pipeline
   matching_cost, aggregation, disparity, filter, validation(+interpolation). *)
Definition ex_pl : list (cbname * bool) :=
  [(CbMcPrepare, false); (CbMcRun, false); (CbAgg, false); (CbDsp, false); (CbFlt, false); (CbVal, true)].
Example C08_example_hyps : no_seg ex_pl /\ length ex_pl = 6%nat.
Proof. split; [|reflexivity]. intros cb H. simpl in H. intuition (subst; discriminate). Qed.

(* ====================================================================================================
   The same statements for the CONCRETE step models composed as the run callbacks compose them
   (Model/PipelineRun.v: matching_cost sad/ssd/census, disparity wta, filter median, refinement vfit/quadratic,
   validation cross_checking_accurate with/without mc-cnn/sgm interpolation; single scale, scalar interval).
   No abstract step function and no hypothesis about the steps is left: the facts the abstract theorem assumes
   about cross-checking and interpolation are proved for Model/CrossCheck.v / Model/Interp.v below.
   [penv] = the constants of the tree under test (any values: the statements hold for all of them);
   quantifiers: every constants record E, every image pair and interval g (any sizes, masks or not), every
   list of steps p (any length, any order, repeated steps). *)

(* the hypotheses of Section C08 above, for the concrete validation step: cross-checking is a function of its two
   arguments that returns the checked dataset, reads the other dataset only through its disparity map and returns
   the disparity map it received; interpolation acts on one dataset *)
Theorem C08_pipeline_validation_hypotheses : forall E thr om,
  (forall a b, F_step E (SVal thr om) FCrossCheck [a; b] = [chk_val thr a b]) /\
  (forall a, F_step E (SVal thr om) FInterpolate [a] = [itp_val om a]) /\
  (forall a b b', disp_of_val b = disp_of_val b' -> chk_val thr a b = chk_val thr a b') /\
  (forall a b, disp_of_val (chk_val thr a b) = disp_of_val a) /\
  (forall me other other', ds_disp other = ds_disp other' -> chk thr me other = chk thr me other') /\
  (forall me other, ds_disp (chk thr me other) = ds_disp me).
Proof.
  exact (fun E thr om => conj (fun a b => eq_refl) (conj (fun a => eq_refl)
          (conj (chk_val_other thr) (conj (chk_val_disp thr) (conj (chk_other thr) (chk_disp thr)))))).
Qed.

(* one callback of the composed model IS the callback regenerated from state_machine.py run with the concrete
   step models (re-proved against Gen/Callbacks.v at every run: an argument swapped in the source breaks it) *)
Theorem C08_pipeline_step_is_generated_callback : forall E rdm s st,
  seq pval (exec_step E gen_callback rdm s (to_slots st)) (to_slots (run_step E rdm s st)).
Proof. exact bridge. Qed.

(* ... and a whole run is the generated callbacks executed on the slots run_prepare fills *)
Theorem C08_pipeline_is_generated_wiring : forall E g p,
  seq pval (to_slots (run_pipeline E g p))
      (fold_left (fun sl s => exec_step E gen_callback (has_validation p) s sl) p
                 (prepare_single pval neg_val PVNone (PVImg (g_left g)) (PVImg (g_right g))
                                 (PVZ (g_dmin g)) (PVZ (g_dmax g)))).
Proof. exact pipeline_is_generated_wiring. Qed.

(* (a) with a validation step: the whole final state of the run on (R, L, [-max, -min]) is the state of the run on
   (L, R, [min, max]) with left and right exchanged -- in particular right products = mirrored left products and
   conversely (disparity map, validity mask, confidence bands, interval, offset: the whole dataset; and the cost
   volumes).  Proved by instantiating generic_cb_swap / val_swap of Proofs/MirrorP.v with F_step. *)
Theorem C08_pipeline_mirror_state : forall E g p, has_validation p = true ->
  run_pipeline E (mirror_images g) p = swap_st (run_pipeline E g p).
Proof. exact pipeline_mirror. Qed.

Theorem C08_pipeline_right_is_mirrored_left : forall E g p, has_validation p = true ->
  st_ld (run_pipeline E (mirror_images g) p) = st_rd (run_pipeline E g p) /\
  st_rd (run_pipeline E (mirror_images g) p) = st_ld (run_pipeline E g p) /\
  st_lcv (run_pipeline E (mirror_images g) p) = st_rcv (run_pipeline E g p) /\
  st_rcv (run_pipeline E (mirror_images g) p) = st_lcv (run_pipeline E g p).
Proof. exact pipeline_right_is_mirrored_left. Qed.

(* (b) without a validation step the right cost volume and the right dataset are never written *)
Theorem C08_pipeline_no_validation_right_empty : forall E g p, has_validation p = false ->
  st_rcv (run_pipeline E g p) = None /\ st_rd (run_pipeline E g p) = None.
Proof. exact pipeline_no_validation_right_empty. Qed.

(* (c) adding a cross-checking step without interpolation at the end of a pipeline without validation: same left
   cost volume; the left dataset keeps its disparity map, shape, interval and offset, gains one band, and a flag
   can only gain bit 8 or bit 9 (a border pixel of a window > 1 holds bit 0 alone)  [xcheck_only_flags] *)
Theorem C08_pipeline_xcheck_keeps_left_disparity : forall E g p thr, has_validation p = false ->
  let s0 := run_pipeline E g p in
  let s1 := run_pipeline E g (p ++ [SVal thr None]) in
  st_lcv s1 = st_lcv s0 /\
  match st_ld s0, st_ld s1 with
  | Some d0, Some d1 =>
    ds_disp d1 = ds_disp d0 /\ ds_nr d1 = ds_nr d0 /\ ds_nc d1 = ds_nc d0 /\
    ds_dmin d1 = ds_dmin d0 /\ ds_dmax d1 = ds_dmax d0 /\ ds_offset d1 = ds_offset d0 /\
    (d1 = d0 \/ exists band, ds_bands d1 = ds_bands d0 ++ [band]) /\
    (ds_nc d0 <= 2 ^ 63 -> forall r c, 0 <= r < ds_nr d0 -> 0 <= c < ds_nc d0 ->
       if is_border (ds_nr d0) (ds_nc d0) (ds_offset d0) r c
       then ds_mask d1 r c = ds_mask d0 r c \/ (0 < ds_offset d0 /\ ds_mask d1 r c = 1)
       else exists v, ds_mask d1 r c = Z.lor (ds_mask d0 r c) (verdict_bit v))%Z
  | None, None => True
  | _, _ => False
  end.
Proof. exact pipeline_xcheck_keeps_left. Qed.

(* the left data of a pipeline without validation step do not depend on whether right products are computed *)
Theorem C08_pipeline_left_indep_of_right : forall E p, has_validation p = false -> forall a b, left_eq a b ->
  left_eq (run_steps E true p a) (run_steps E false p b).
Proof. exact run_steps_left. Qed.

(* the glue itself: in every run (any steps, validation or not) each product is computed on the image of its own
   side and on the interval of its own side -- [min, max] for the left cost volume / dataset, [-max, -min] for the
   right ones (a callback that hands the left interval or the left cost volume to the right pass breaks the
   bridge theorem above; this is what the composed model then computes) *)
Theorem C08_pipeline_intervals_and_shapes : forall E g p,
  let st := run_pipeline E g p in
  st_L st = g_left g /\ st_R st = g_right g /\
  st_lmin st = g_dmin g /\ st_lmax st = g_dmax g /\ st_rmin st = (- g_dmax g)%Z /\ st_rmax st = (- g_dmin g)%Z /\
  (forall cv, st_lcv st = Some cv ->
     cv_dmin cv = g_dmin g /\ cv_dmax cv = g_dmax g /\ cv_ny cv = im_ny (g_left g) /\ cv_nx cv = im_nx (g_left g)) /\
  (forall cv, st_rcv st = Some cv ->
     cv_dmin cv = (- g_dmax g)%Z /\ cv_dmax cv = (- g_dmin g)%Z /\
     cv_ny cv = im_ny (g_right g) /\ cv_nx cv = im_nx (g_right g)) /\
  (forall d, st_ld st = Some d ->
     ds_dmin d = g_dmin g /\ ds_dmax d = g_dmax g /\ ds_nr d = im_ny (g_left g) /\ ds_nc d = im_nx (g_left g)) /\
  (forall d, st_rd st = Some d ->
     ds_dmin d = (- g_dmax g)%Z /\ ds_dmax d = (- g_dmin g)%Z /\
     ds_nr d = im_ny (g_right g) /\ ds_nc d = im_nx (g_right g)).
Proof. exact pipeline_intervals_and_shapes. Qed.

(* Non-vacuity of the concrete statements: a 3 x 6 pair (mask on the right image), interval [-1, 1], the pipeline
   sad / wta / median / vfit / cross-checking + sgm interpolation, with the constants of the tree under test.  The
   right and left products differ, the right products are the left products of the mirrored run (computed). *)
Definition ex_E : penv :=
  mkPenv (mkEnv Gen.Flags.consts flag_sites) (mkK msk_invalid msk_stopped) msk_pixel_invalid
         wta_argmin_block median_block 0 1.
Definition rows_img (l : list (list Z)) : MatchingCost.img :=
  fun r c => if ((r <? 0) || (c <? 0))%Z then 0%Z else nth (Z.to_nat c) (nth (Z.to_nat r) l []) 0%Z.
Definition ex_L := mkImage 3 6 (rows_img [[1;5;9;2;7;3];[4;4;8;1;6;2];[3;9;1;5;2;8]]%Z) None.
Definition ex_R := mkImage 3 6 (rows_img [[5;9;2;7;3;1];[4;8;1;6;2;4];[9;1;5;2;8;3]]%Z)
                           (Some (rows_img [[0;0;0;0;0;0];[0;0;1;0;0;0];[0;0;0;0;0;0]]%Z)).
Definition ex_g := mkImages ex_L ex_R (-1) 1.
Definition ex_p := [SMc Sad 1 1; SDisp None; SFilter 3; SRefine Vfit; SVal 1 (Some Sgm)].
Definition show_d (o : option dataset) : list (list (option Q * Z)) :=
  match o with
  | Some d => map (fun r => map (fun c => (ds_disp d r c, ds_mask d r c)) [0;1;2;3;4;5]%Z) [0;1;2]%Z
  | None => []
  end.
Example C08_pipeline_example :
  has_validation ex_p = true /\
  show_d (st_rd (run_pipeline ex_E ex_g ex_p)) = show_d (st_ld (run_pipeline ex_E (mirror_images ex_g) ex_p)) /\
  nth 1 (show_d (st_rd (run_pipeline ex_E ex_g ex_p))) [] =
    [(Some 0%Q, 12); (Some (2 # 2)%Q, 8); (None, 3); (Some (2 # 2)%Q, 8); (Some 1%Q, 8); (Some 1%Q, 28)]%Z /\
  nth 1 (show_d (st_ld (run_pipeline ex_E ex_g ex_p))) [] =
    [(Some 0%Q, 12); (Some (-1)%Q, 8); (Some (-1)%Q, 8); (Some (-1)%Q, 16); (Some (-1)%Q, 8); (Some (-1)%Q, 12)]%Z /\
  st_rd (run_pipeline ex_E ex_g [SMc Sad 1 1; SDisp None; SFilter 3]) = None.
Proof. vm_compute. repeat split. Qed.

(* ====================================================================================================
   run_prepare on the text of the code.  Gen/ScaleArith.v is regenerated at every run from
   pandora/state_machine.py run_prepare (both branches: arithmetic of the intervals, and where the images,
   pyramids and output datasets come from) by translator/gen_scale_arith.py (ast, fail closed).  The
   hand-written prepare_single / prepare_multi of Proofs/MirrorP.v -- the initial states of the mirror theorems
   above -- are proved to BE the generated preparation (re-proved at every run), their two hypotheses about the
   interval arithmetic are proved for the generated arithmetic, and the mirror theorems are restated for runs
   that start from the generated preparation.  Values: rationals (a bound at one pixel; every operation of
   run_prepare on the arrays is pixel-wise) and image-like values of an arbitrary type A. *)

(* where the non-numeric attributes come from: left/right image (or first level of its pyramid, the rest staying
   in the pyramid attribute), empty output datasets, right_disp_map from the configuration; the table is symmetric *)
Theorem C08_gen_prepare_wiring :
  wiring_same run_prepare_multi_wiring model_multi_wiring = true /\
  wiring_same run_prepare_mono_wiring model_mono_wiring = true /\
  wiring_mirrored run_prepare_multi_wiring = true /\ wiring_mirrored run_prepare_mono_wiring = true.
Proof. exact gen_wiring_is_model. Qed.

(* single scale: the interval as given, the right interval as given in the input or (-max, -min) *)
Theorem C08_gen_prepare_mono_is_model : forall sn ssf lmin lmax rd,
  run_prepare_mono sn ssf lmin lmax rd = model_prepare_mono lmin lmax rd /\
  (rd = None -> (po_right_disp_min (run_prepare_mono sn ssf lmin lmax rd),
                 po_right_disp_max (run_prepare_mono sn ssf lmin lmax rd)) = ((- lmax)%Q, (- lmin)%Q)) /\
  (forall r, rd = Some r -> (po_right_disp_min (run_prepare_mono sn ssf lmin lmax rd),
                             po_right_disp_max (run_prepare_mono sn ssf lmin lmax rd)) = r).
Proof.
  intros sn ssf lmin lmax rd. split; [exact (gen_prepare_mono_is_model sn ssf lmin lmax rd)|].
  split; [intros ->; reflexivity | intros [a b] ->; reflexivity].
Qed.

(* several scales: the right interval and the right user interval are the negated, swapped left ones *)
Theorem C08_gen_right_interval_negated : forall pn psf sn ssf lmin lmax,
  let o := run_prepare_multi pn psf sn ssf lmin lmax in
  (pm_right_disp_min o, pm_right_disp_max o) = ((- pm_disp_max o)%Q, (- pm_disp_min o)%Q) /\
  (pm_dmin_user_right o, pm_dmax_user_right o) = ((- pm_dmax_user o)%Q, (- pm_dmin_user o)%Q).
Proof. intros. split; reflexivity. Qed.

Section C08gen.
  Variable A : Type.
  Variables (pyrA firstA restA : A -> A) (emptyA cfgA noneA : A).
  Let V := gv A.
  Let st_multi := gen_multi_state A pyrA firstA restA emptyA cfgA noneA.
  Let st_mono := gen_mono_state A pyrA firstA restA emptyA cfgA noneA.

  (* the initial states of C08_mirror_single_scale / C08_mirror_multi_scale are the generated preparation *)
  Theorem C08_gen_prepare_single_is_model : forall sn ssf L R lmin lmax x,
    st_mono sn ssf L R lmin lmax None x
    = prepare_single V (gneg A) (GA A emptyA) (GA A L) (GA A R) (GQ A lmin) (GQ A lmax) x.
  Proof. exact (gen_mono_state_is_model A pyrA firstA restA emptyA cfgA noneA). Qed.

  Theorem C08_gen_prepare_multi_is_model : forall n sf L R lmin lmax x,
    st_multi n sf n sf L R lmin lmax x
    = prepare_multi V (gneg A) (gdv A (sf ^ n)) (gpyr A pyrA) (gfirst A firstA) (grest A restA) (GA A emptyA)
                    (GA A L) (GA A R) (GQ A lmin) (GQ A lmax) x.
  Proof. exact (gen_multi_state_is_model A pyrA firstA restA emptyA cfgA noneA). Qed.

  (* a right interval given in the input only changes the two right bounds *)
  Theorem C08_gen_prepare_single_given_right : forall sn ssf L R lmin lmax rmin rmax,
    st_mono sn ssf L R lmin lmax (Some (rmin, rmax)) Rmin = GQ A rmin /\
    st_mono sn ssf L R lmin lmax (Some (rmin, rmax)) Rmax = GQ A rmax /\
    forall x, x <> Rmin -> x <> Rmax ->
              st_mono sn ssf L R lmin lmax (Some (rmin, rmax)) x = st_mono sn ssf L R lmin lmax None x.
  Proof. exact (gen_mono_given_right A pyrA firstA restA emptyA cfgA noneA). Qed.

  (* neg_invol / dv_neg of Section C08 for the generated arithmetic (unary minus; / scale_factor ** num_scales) *)
  Theorem C08_gen_interval_hypotheses : forall d v,
    gneg A (gneg A v) = v /\ gdv A d (gneg A v) = gneg A (gdv A d v).
  Proof. intros d v. split; [exact (gneg_invol A v) | exact (gdv_gneg A d v)]. Qed.

  (* the mirrored problem (images exchanged, interval negated and swapped) is prepared into the exchanged state *)
  Theorem C08_gen_prepare_single_mirror : forall sn ssf L R lmin lmax x,
    st_mono sn ssf R L (- lmax)%Q (- lmin)%Q None x = st_mono sn ssf L R lmin lmax None (swap_slot x).
  Proof. exact (gen_prepare_mono_mirror A pyrA firstA restA emptyA cfgA noneA). Qed.

  Theorem C08_gen_prepare_multi_mirror : forall n sf L R lmin lmax x,
    st_multi n sf n sf R L (- lmax)%Q (- lmin)%Q x = st_multi n sf n sf L R lmin lmax (swap_slot x).
  Proof. exact (gen_prepare_multi_mirror A pyrA firstA restA emptyA cfgA noneA). Qed.

  (* the mirror theorems for runs of the regenerated callbacks from the regenerated preparation: any step
     functions F (with the two facts about cross-checking / interpolation), any callback sequence *)
  Variable F : fname -> list V -> list V.
  Variable D : Type.
  Variable disp_of : V -> D.
  Variables (chk : V -> V -> V) (itp : V -> V).
  Hypothesis F_chk : forall a b, F FCrossCheck [a; b] = [chk a b].
  Hypothesis F_itp : forall a, F FInterpolate [a] = [itp a].
  Hypothesis chk_other : forall a b b', disp_of b = disp_of b' -> chk a b = chk a b'.
  Hypothesis chk_disp : forall a b, disp_of (chk a b) = disp_of a.

  Theorem C08_gen_mirror_single_scale : forall pl sn ssf L R lmin lmax, no_seg pl ->
    let s  := exec_run V F gen_callback true pl (st_mono sn ssf L R lmin lmax None) in
    let s' := exec_run V F gen_callback true pl (st_mono sn ssf R L (- lmax)%Q (- lmin)%Q None) in
    forall x, s' x = s (swap_slot x).
  Proof.
    exact (gen_mirror_single A pyrA firstA restA emptyA cfgA noneA F D disp_of chk itp F_chk F_itp chk_other chk_disp
                             gen_callback C08_callbacks_mirrored).
  Qed.

  Theorem C08_gen_mirror_multi_scale : forall pl n sf L R lmin lmax, no_seg pl ->
    let s  := exec_run V F gen_callback true pl (st_multi n sf n sf L R lmin lmax) in
    let s' := exec_run V F gen_callback true pl (st_multi n sf n sf R L (- lmax)%Q (- lmin)%Q) in
    forall x, s' x = s (swap_slot x).
  Proof.
    exact (gen_mirror_multi A pyrA firstA restA emptyA cfgA noneA F D disp_of chk itp F_chk F_itp chk_other chk_disp
                            gen_callback C08_callbacks_mirrored).
  Qed.
End C08gen.

(* non-vacuity: the generated preparation of disp [-7, 4], scale_factor 3, 2 scales on images named 1 and 2
   (pyramid / first level / rest as tagging functions): the interval / 9, the right one negated and swapped *)
Example C08_gen_example :
  let st := gen_multi_state Z (fun a => 10 * a)%Z (fun a => a + 1)%Z (fun a => a + 2)%Z 0%Z 7%Z 8%Z 2 3 2 3 1%Z 2%Z (-7 # 1) (4 # 1) in
  st Limg = GA Z 11%Z /\ st Rimg = GA Z 21%Z /\ st Lpyr = GA Z 12%Z /\ st Rpyr = GA Z 22%Z /\ st Ldisp = GA Z 0%Z /\
  match st Lmin, st Rmin, st Rumax with
  | GQ _ a, GQ _ b, GQ _ c => Qred a = (-7 # 9)%Q /\ Qred b = (-4 # 9)%Q /\ Qred c = (7 # 9)%Q
  | _, _, _ => False
  end.
Proof. vm_compute. repeat split. Qed.

Print Assumptions C08_callbacks_mirrored.
Print Assumptions C08_callbacks_lclosed.
Print Assumptions C08_callbacks_rquiet.
Print Assumptions C08_mirror_single_scale.
Print Assumptions C08_mirror_multi_scale.
Print Assumptions C08_no_validation_right_empty.
Print Assumptions C08_left_indep_of_right.
Print Assumptions C08_xcheck_keeps_left_disparity.
Print Assumptions C08_pipeline_validation_hypotheses.
Print Assumptions C08_pipeline_step_is_generated_callback.
Print Assumptions C08_pipeline_is_generated_wiring.
Print Assumptions C08_pipeline_mirror_state.
Print Assumptions C08_pipeline_right_is_mirrored_left.
Print Assumptions C08_pipeline_no_validation_right_empty.
Print Assumptions C08_pipeline_xcheck_keeps_left_disparity.
Print Assumptions C08_pipeline_left_indep_of_right.
Print Assumptions C08_pipeline_intervals_and_shapes.
Print Assumptions C08_gen_prepare_wiring.
Print Assumptions C08_gen_prepare_mono_is_model.
Print Assumptions C08_gen_right_interval_negated.
Print Assumptions C08_gen_prepare_single_is_model.
Print Assumptions C08_gen_prepare_multi_is_model.
Print Assumptions C08_gen_prepare_single_given_right.
Print Assumptions C08_gen_interval_hypotheses.
Print Assumptions C08_gen_prepare_single_mirror.
Print Assumptions C08_gen_prepare_multi_mirror.
Print Assumptions C08_gen_mirror_single_scale.
Print Assumptions C08_gen_mirror_multi_scale.
