(* C08 -- Right-image products equal the left products of the mirrored problem.
   Statements only; proofs are `exact <lemma>` from Proofs/MirrorP.v, instantiated
   with the call structure of the run callbacks regenerated from /repo
   (Gen/Callbacks.v).  The step functions F are ARBITRARY. *)
From Coq Require Import List Bool.
From Pandora Require Import Model.Mirror Proofs.MirrorP Gen.Callbacks.
Import ListNotations.

(* Per-run obligations on the regenerated callbacks (finite, complete computations):
   - every built-in callback is, segment by segment, "left block; right block =
     the left block with every slot exchanged L<->R", the two blocks touching
     disjoint data; validation_run has exactly the documented shape;
   - the left blocks only read/write left data (and the right image), the
     guarded right blocks never write them;
   - without the guard, the right cost volume / disparity dataset are never written. *)
Theorem C08_callbacks_mirrored : callbacks_ok gen_callback = true.
Proof. vm_compute. reflexivity. Qed.
Theorem C08_callbacks_lclosed : callbacks_lclosed gen_callback = true.
Proof. vm_compute. reflexivity. Qed.
Theorem C08_callbacks_rquiet : callbacks_rquiet gen_callback = true.
Proof. vm_compute. reflexivity. Qed.

Section C08.
  (* any value domain, any step functions *)
  Variable V : Type.
  Variable F : fname -> list V -> list V.
  (* what C07 / C14 establish about the two validation functions: cross-checking
     returns the checked dataset, reads the other dataset only through its
     disparity map and does not change the disparity map it checks;
     interpolation acts on one dataset *)
  Variable D : Type.
  Variable disp_of : V -> D.
  Variables (chk : V -> V -> V) (itp : V -> V).
  Hypothesis F_chk : forall a b, F FCrossCheck [a; b] = [chk a b].
  Hypothesis F_itp : forall a, F FInterpolate [a] = [itp a].
  Hypothesis chk_other : forall a b b', disp_of b = disp_of b' -> chk a b = chk a b'.
  Hypothesis chk_disp : forall a b, disp_of (chk a b) = disp_of a.
  (* interval arithmetic of run_prepare *)
  Variables (neg dv pyr first rest : V -> V) (e : V).
  Hypothesis neg_invol : forall x, neg (neg x) = x.
  Hypothesis dv_neg : forall x, dv (neg x) = neg (dv x).

  (* For every sequence of callback executions (any legal pipeline over the
     built-in step kinds, any number of scales: C01 gives the sequence) with a
     validation step (right products computed), every input pair and interval:
     each slot of the run on (R, L, [-max, -min]) holds what the exchanged slot
     of the run on (L, R, [min, max]) holds -- its left products are the
     original right products and conversely. *)
  Theorem C08_mirror_single_scale : forall pl L R imin imax, no_seg pl ->
    let s  := exec_run V F gen_callback true pl (prepare_single V neg e L R imin imax) in
    let s' := exec_run V F gen_callback true pl (prepare_single V neg e R L (neg imax) (neg imin)) in
    forall x, s' x = s (swap_slot x).
  Proof.
    exact (mirror_single V F D disp_of chk itp F_chk F_itp chk_other chk_disp neg e neg_invol
                         gen_callback C08_callbacks_mirrored).
  Qed.

  Theorem C08_mirror_multi_scale : forall pl L R imin imax, no_seg pl ->
    let s  := exec_run V F gen_callback true pl (prepare_multi V neg dv pyr first rest e L R imin imax) in
    let s' := exec_run V F gen_callback true pl
                       (prepare_multi V neg dv pyr first rest e R L (neg imax) (neg imin)) in
    forall x, s' x = s (swap_slot x).
  Proof.
    exact (mirror_multi V F D disp_of chk itp F_chk F_itp chk_other chk_disp neg dv pyr first rest e
                        neg_invol dv_neg gen_callback C08_callbacks_mirrored).
  Qed.

  (* without a validation step the right dataset stays what run_prepare made it (empty) *)
  Theorem C08_no_validation_right_empty : forall pl, only_lclosed pl -> forall s,
    exec_run V F gen_callback false pl s Rdisp = s Rdisp
    /\ exec_run V F gen_callback false pl s Rcv = s Rcv.
  Proof. exact (fun pl => right_untouched_without_validation V F gen_callback pl C08_callbacks_rquiet). Qed.

  (* the left products do not depend on whether right products are computed ... *)
  Theorem C08_left_indep_of_right : forall pl, only_lclosed pl -> forall s t,
    agree V lside s t ->
    agree V lside (exec_run V F gen_callback true pl s) (exec_run V F gen_callback false pl t).
  Proof. exact (fun pl => left_indep_of_right V F gen_callback pl C08_callbacks_lclosed). Qed.

  (* ... hence adding a cross-checking step without filling changes nothing in
     the left disparity map *)
  Theorem C08_xcheck_keeps_left_disparity : forall pl s, only_lclosed pl ->
    disp_of (exec_run V F gen_callback true (pl ++ [(CbVal, false)]) s Ldisp)
    = disp_of (exec_run V F gen_callback false pl s Ldisp).
  Proof.
    exact (fun pl s => xcheck_keeps_left_disparity V F D disp_of chk itp F_chk F_itp chk_other chk_disp
                         gen_callback pl s C08_callbacks_mirrored C08_callbacks_lclosed).
  Qed.
End C08.

(* Non-vacuity: a concrete interpretation (values = lists of tags recording
   which function produced them from what) and a concrete pipeline
   matching_cost, aggregation, disparity, filter, validation(+interpolation). *)
Definition ex_pl : list (cbname * bool) :=
  [(CbMcPrepare, false); (CbMcRun, false); (CbAgg, false); (CbDsp, false); (CbFlt, false); (CbVal, true)].
Example C08_example_hyps : no_seg ex_pl /\ length ex_pl = 6%nat.
Proof. split; [|reflexivity]. intros cb H. simpl in H. intuition (subst; discriminate). Qed.

Print Assumptions C08_callbacks_mirrored.
Print Assumptions C08_callbacks_lclosed.
Print Assumptions C08_callbacks_rquiet.
Print Assumptions C08_mirror_single_scale.
Print Assumptions C08_mirror_multi_scale.
Print Assumptions C08_no_validation_right_empty.
Print Assumptions C08_left_indep_of_right.
Print Assumptions C08_xcheck_keeps_left_disparity.
