(* C03 -- Winner-takes-all picks each pixel's best cost inside its disparity interval.
   Statements only; every proof is `exact <lemma>` from Proofs/WtaP.v.  The theorems hold for
   EVERY block size B >= 1; C03_wta_eq_spec_at_code_blocks instantiates the main one at the
   constants found in the source by translator/gen_constants.py (Gen/Constants.v). *)
From Coq Require Import ZArith QArith List Bool.
From Pandora Require Import Lib.Ext Lib.Blocks Model.Wta Spec.Wta Proofs.WtaP Gen.Constants.
From Pandora Require Lib.BlockSkeleton Proofs.SkelWtaP Gen.BlockLoops.
Import ListNotations.

(* per-run obligation on the regenerated constants *)
Theorem C03_block_sizes_wf : (1 <= wta_argmin_block)%Z /\ (1 <= wta_argmax_block)%Z.
Proof. vm_compute. split; discriminate. Qed.

(* per-run obligation on the regenerated SKELETON of the two block loops (Gen/BlockLoops.v, read
   from argmin_split / argmax_split by translator/gen_block_loops.py): each is the canonical double
   block loop that Blocks.loop2 models (Lib/BlockSkeleton.v: where every running offset is
   initialised and advanced and by what, the slice bounds of the write, the axes, one block size
   >= 1, the kernel applied to the inner chunk, output freshly allocated and not the storage the
   chunks view), with offsets starting at 0, an np.zeros output, arg-min resp. arg-max as kernel,
   and its block size is the constant of Gen/Constants.v *)
Theorem C03_block_loop_skeleton :
  BlockSkeleton.skeleton_wf BlockLoops.argmin_split = true
  /\ BlockSkeleton.skeleton_wf BlockLoops.argmax_split = true
  /\ BlockSkeleton.wta_skeleton_ok false BlockLoops.argmin_split = true
  /\ BlockSkeleton.wta_skeleton_ok true BlockLoops.argmax_split = true
  /\ BlockSkeleton.sk_B BlockLoops.argmin_split = wta_argmin_block
  /\ BlockSkeleton.sk_B BlockLoops.argmax_split = wta_argmax_block.
Proof. vm_compute. repeat split; reflexivity. Qed.

(* the skeleton as a program (BlockSkeleton.exec: running offsets in an environment, statements
   in source order, Python-clamped array_split chunks): for EVERY well-formed skeleton, kernel,
   extents, np.arange stop values and initial state, executing it is loop2 at the skeleton's own
   block size and start offsets *)
Theorem C03_wf_skeleton_is_loop2 :
  forall (A : Type) (F : BlockSkeleton.kernel -> Z -> Z -> A) win my mx tgt sk k ny nx env0 out0 r c,
  BlockSkeleton.skeleton_wf sk = true -> (0 <= my)%Z -> (0 <= mx)%Z ->
  BlockSkeleton.last_kernel tgt (BlockSkeleton.sk_writes sk) = Some k ->
  snd (BlockSkeleton.exec F win my mx tgt sk ny nx (env0, out0)) r c
  = loop2 (F k) (BlockSkeleton.sk_B sk) ny nx my mx (BlockSkeleton.sk_oy win sk) (BlockSkeleton.sk_ox win sk) out0 r c.
Proof. exact BlockSkeleton.exec_wf_loop2. Qed.

(* the block decomposition itself: for every B >= 1 and every n (even unrelated to the extent m
   of the split array) the blocks tile [0, m) in order *)
Theorem C03_blocks_tile : forall B n m, (1 <= B)%Z -> (0 <= m)%Z -> tiles 0 m (blocks B n m).
Proof. exact blocks_tile. Qed.

Section C03.
  (* any measure type, shape, sampled disparities, invalid_disparity (None = NaN), volume
     (costs: None = NaN, Some (Fin q), Some PInf, Some MInf), bands and flags *)
  Variables (mx : bool) (nr nc : Z) (disps : list Q) (invalid : option Q).
  Variables (cv : Z -> Z -> list cost) (conf : Z -> Z -> list (option Q)) (mask : Z -> Z -> Z).

  Definition out (B : Z) : wta_out := to_disp mx B nr nc disps invalid cv conf mask.

  (* every pixel of every shape, every block size: the disparity map is the Spec's per-pixel
     answer (least index among the extrema of the non-NaN costs, else invalid_disparity).
     Guard [no_subst_inf]: the pixel holds no cost equal to the infinity substituted for NaN. *)
  Theorem C03_wta_eq_spec : forall B r c,
    (1 <= B)%Z -> (0 <= r < nr)%Z -> (0 <= c < nc)%Z -> cv r c <> [] -> no_subst_inf mx (cv r c) ->
    o_disp (out B) r c = wta_pixel mx disps invalid (cv r c).
  Proof. intros; apply wta_eq_spec_all; assumption. Qed.

  Theorem C03_wta_eq_spec_at_code_blocks : forall r c,
    (0 <= r < nr)%Z -> (0 <= c < nc)%Z -> cv r c <> [] -> no_subst_inf mx (cv r c) ->
    o_disp (out (if mx then wta_argmax_block else wta_argmin_block)) r c
    = wta_pixel mx disps invalid (cv r c).
  Proof.
    intros; apply wta_eq_spec_all; try assumption.
    destruct mx; [exact (proj2 C03_block_sizes_wf) | exact (proj1 C03_block_sizes_wf)].
  Qed.

  (* the loop of the model IS the loop read in the source: for every volume, shape, measure, every
     np.arange stop values (ny, nx) and initial environment, the disparity map of the model at the
     code's block size is, pixel by pixel, what executing the GENERATED skeleton of argmin_split /
     argmax_split writes into its np.zeros output (all-NaN pixels then get invalid_disparity) *)
  Theorem C03_model_loop_is_generated_skeleton : forall ny nx env0 r c, (0 <= nr)%Z -> (0 <= nc)%Z ->
    let sk := if mx then BlockLoops.argmax_split else BlockLoops.argmin_split in
    o_disp (out (if mx then wta_argmax_block else wta_argmin_block)) r c
    = if forallb (fun b : bool => b) (map is_nan (cv r c)) then invalid
      else Some (snd (BlockSkeleton.exec (SkelWtaP.wta_kernel disps cv) 0 nr nc (BlockSkeleton.sk_target 0 sk) sk
                                         ny nx (env0, fun _ _ => 0%Q)) r c).
  Proof.
    intros ny nx env0 r c Hnr Hnc. unfold out.
    destruct C03_block_loop_skeleton as (_ & _ & Hmin & Hmax & Bmin & Bmax).
    destruct mx; cbv zeta; [rewrite <- Bmax | rewrite <- Bmin]; apply SkelWtaP.wta_loop_is_skeleton_at; assumption.
  Qed.

  (* pixels with no computable cost receive exactly invalid_disparity *)
  Theorem C03_wta_invalid_when_no_cost : forall B r c,
    (1 <= B)%Z -> (0 <= r < nr)%Z -> (0 <= c < nc)%Z -> cv r c <> [] -> no_subst_inf mx (cv r c) ->
    no_computable (cv r c) -> o_disp (out B) r c = invalid.
  Proof. intros; apply wta_invalid_all; assumption. Qed.

  (* a pixel with a computable cost receives one of the sampled disparities *)
  Theorem C03_wta_is_sample : forall B r c j0 e0,
    (1 <= B)%Z -> (0 <= r < nr)%Z -> (0 <= c < nc)%Z -> cv r c <> [] -> no_subst_inf mx (cv r c) ->
    computable (cv r c) j0 e0 -> length disps = length (cv r c) ->
    exists d, In d disps /\ o_disp (out B) r c = Some d.
  Proof. intros; eapply wta_is_sample_all; eassumption. Qed.

  (* ... whose cost is computable and is the minimum (maximum for max-type measures) of the
     pixel's computable costs ... *)
  Theorem C03_wta_cost_is_extremum : forall B r c j0 e0,
    (1 <= B)%Z -> (0 <= r < nr)%Z -> (0 <= c < nc)%Z -> cv r c <> [] -> no_subst_inf mx (cv r c) ->
    computable (cv r c) j0 e0 ->
    exists k e, (k < length (cv r c))%nat /\ computable (cv r c) k e
      /\ o_disp (out B) r c = Some (nth k disps 0%Q)
      /\ (forall j e', computable (cv r c) j e' -> le_dir mx e e' = true).
  Proof.
    intros B r c j0 e0 HB Hr Hc Hne Hg H0.
    destruct (wta_winner_all mx B nr nc disps invalid cv conf mask r c HB Hr Hc Hne Hg j0 e0 H0)
      as (k & e & H1 & H2 & H3 & H4 & _).
    exists k, e. auto.
  Qed.

  (* ... ties going to the lowest disparity (least index of the increasing disparity axis) *)
  Theorem C03_wta_ties_lowest : forall B r c j0 e0,
    (1 <= B)%Z -> (0 <= r < nr)%Z -> (0 <= c < nc)%Z -> cv r c <> [] -> no_subst_inf mx (cv r c) ->
    computable (cv r c) j0 e0 ->
    exists k e, computable (cv r c) k e /\ o_disp (out B) r c = Some (nth k disps 0%Q)
      /\ (forall j e', computable (cv r c) j e' -> le_dir mx e' e = true -> (k <= j)%nat).
  Proof.
    intros B r c j0 e0 HB Hr Hc Hne Hg H0.
    destruct (wta_winner_all mx B nr nc disps invalid cv conf mask r c HB Hr Hc Hne Hg j0 e0 H0)
      as (k & e & H1 & H2 & H3 & _ & H5).
    exists k, e. auto.
  Qed.

  (* the result does not depend on the block size: any two B, B' >= 1, every pixel, no guard *)
  Theorem C03_wta_block_independent : forall B B' r c,
    (1 <= B)%Z -> (1 <= B')%Z -> (0 <= nr)%Z -> (0 <= nc)%Z ->
    o_disp (out B) r c = o_disp (out B') r c.
  Proof. intros; apply wta_block_independent_all; assumption. Qed.

  (* inside the pixel's requested interval [lo, hi], given C02's masking as a named hypothesis *)
  Definition cv_masked_outside_is_nan (r c : Z) (lo hi : Q) : Prop :=
    forall k, (k < length (cv r c))%nat -> ~ (lo <= nth k disps 0 /\ nth k disps 0 <= hi)%Q ->
              nth_error (cv r c) k = Some None.

  Theorem C03_wta_within_pixel_interval : forall B r c lo hi j0 e0,
    (1 <= B)%Z -> (0 <= r < nr)%Z -> (0 <= c < nc)%Z -> cv r c <> [] -> no_subst_inf mx (cv r c) ->
    cv_masked_outside_is_nan r c lo hi -> computable (cv r c) j0 e0 ->
    exists d, o_disp (out B) r c = Some d /\ (lo <= d)%Q /\ (d <= hi)%Q.
  Proof. intros; eapply wta_within_interval_all; eassumption. Qed.

  (* the step leaves the cost volume values unchanged: EVERY volume (also those that already
     contain +-inf: only the positions that were NaN are substituted and restored), every
     pixel, every B *)
  Theorem C03_wta_cv_unchanged : forall B r c, o_cv (out B) r c = cv r c.
  Proof. intros; apply wta_cv_unchanged_all. Qed.

  (* confidence bands and validity flags are carried over unaltered; disp_indices is the map *)
  Theorem C03_wta_carries_flags_and_bands : forall B r c,
    o_conf (out B) r c = conf r c /\ o_mask (out B) r c = mask r c
    /\ o_disp_indices (out B) r c = o_disp (out B) r c.
  Proof. intros; repeat split. Qed.
End C03.

(* the guard of C03_wta_eq_spec is needed: a volume holding the substituted infinity *)
Theorem C03_subst_inf_witness :
  let cv := fun (_ _ : Z) => [None; Some PInf] in
  o_disp (to_disp false 100 1 1 [0%Q; 1%Q] None cv (fun _ _ => []) (fun _ _ => 0%Z)) 0%Z 0%Z = Some 0%Q
  /\ wta_pixel false [0%Q; 1%Q] None (cv 0%Z 0%Z) = Some 1%Q.
Proof. exact subst_inf_witness. Qed.

(* Non-vacuity: a 1 x 3 max-type volume with a tie, a NaN and an all-NaN pixel satisfies the
   hypotheses; block size 1 puts every pixel in its own block. *)
Definition ex_cv : Z -> Z -> list cost := fun _ c =>
  if (c =? 0)%Z then [Some (Fin 1); Some (Fin 3); Some (Fin 3)]
  else if (c =? 1)%Z then [None; Some (Fin (-2)); None]
  else [None; None; None].
Example C03_example_hyps :
  (forall c, (0 <= c < 3)%Z -> ex_cv 0 c <> [] /\ no_subst_inf true (ex_cv 0 c))
  /\ map (fun c => o_disp (to_disp true 1 1 3 [(-1)%Q; 0%Q; 1%Q] (Some (7#2)) ex_cv (fun _ _ => []) (fun _ _ => 0%Z)) 0%Z c)
         [0%Z; 1%Z; 2%Z] = [Some 0%Q; Some 0%Q; Some (7#2)].
Proof.
  split; [|vm_compute; reflexivity].
  intros c Hc. assert (H : c = 0%Z \/ c = 1%Z \/ c = 2%Z) by (destruct Hc; abstract (Lia.lia)).
  destruct H as [-> | [-> | ->]]; (split; [discriminate | intros x Hin; cbn in Hin; intuition (subst; discriminate)]).
Qed.

Print Assumptions C03_block_sizes_wf.
Print Assumptions C03_block_loop_skeleton.
Print Assumptions C03_wf_skeleton_is_loop2.
Print Assumptions C03_blocks_tile.
Print Assumptions C03_wta_eq_spec.
Print Assumptions C03_wta_eq_spec_at_code_blocks.
Print Assumptions C03_model_loop_is_generated_skeleton.
Print Assumptions C03_wta_invalid_when_no_cost.
Print Assumptions C03_wta_is_sample.
Print Assumptions C03_wta_cost_is_extremum.
Print Assumptions C03_wta_ties_lowest.
Print Assumptions C03_wta_block_independent.
Print Assumptions C03_wta_within_pixel_interval.
Print Assumptions C03_wta_cv_unchanged.
Print Assumptions C03_wta_carries_flags_and_bands.
Print Assumptions C03_subst_inf_witness.
