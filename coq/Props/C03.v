From Coq Require Import ZArith.
From Pandora Require Import Gen.Constants.
Open Scope Z_scope.
Theorem C03_block_sizes_wf : 1 <= wta_argmin_block /\ 1 <= wta_argmax_block.
Proof. vm_compute. split; discriminate. Qed.
Print Assumptions C03_block_sizes_wf.
