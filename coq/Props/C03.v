(* C03 -- Winner-takes-all picks each pixel's best cost inside its disparity interval.
   Statements only; every proof is `exact <lemma>` from Proofs/WtaP.v.  The theorems hold for
   EVERY block size B >= 1; C03_wta_eq_spec_at_code_blocks instantiates the main one at the
   constants found in the source by translator/gen_constants.py (Gen/Constants.v). *)
From Coq Require Import ZArith QArith List Bool.
From Pandora Require Import Lib.Ext Lib.Blocks Model.Wta Spec.Wta Proofs.WtaP Gen.Constants.
From Pandora Require Lib.BlockSkeleton Proofs.SkelWtaP Gen.BlockLoops.
From Pandora Require Import Lib.NpNd Lib.NpNd3 Proofs.NpNdP Proofs.NpNd3P Model.WtaNp Gen.WtaFns Proofs.WtaGenP.
Import ListNotations.

(* per-run obligation on the regenerated constants *)
Theorem C03_block_sizes_wf : (1 <= wta_argmin_block)%Z /\ (1 <= wta_argmax_block)%Z.
Proof. vm_compute. split; discriminate. Qed.

(* per-run obligation on the regenerated SKELETON of the two block loops (Gen/BlockLoops.v, read
   from argmin_split / argmax_split by translator/gen_block_loops.py): each is the canonical double
   block loop that Blocks.loop2 models (Lib/BlockSkeleton.v: where every running offset is
   initialised and advanced and by what, the slice bounds of the write, the axes, one block size
   >= 1, the kernel applied to the inner chunk, output freshly allocated and not the storage the
   chunks view), with offsets starting at 0, an np.zeros output, arg-min resp. arg-max as kernel,
   and its block size is the constant of Gen/Constants.v *)
Theorem C03_block_loop_skeleton :
  BlockSkeleton.skeleton_wf BlockLoops.argmin_split = true
  /\ BlockSkeleton.skeleton_wf BlockLoops.argmax_split = true
  /\ BlockSkeleton.wta_skeleton_ok false BlockLoops.argmin_split = true
  /\ BlockSkeleton.wta_skeleton_ok true BlockLoops.argmax_split = true
  /\ BlockSkeleton.sk_B BlockLoops.argmin_split = wta_argmin_block
  /\ BlockSkeleton.sk_B BlockLoops.argmax_split = wta_argmax_block.
Proof. vm_compute. repeat split; reflexivity. Qed.

(* the skeleton as a program (BlockSkeleton.exec: running offsets in an environment, statements
   in source order, Python-clamped array_split chunks): for EVERY well-formed skeleton, kernel,
   extents, np.arange stop values and initial state, executing it is loop2 at the skeleton's own
   block size and start offsets *)
Theorem C03_wf_skeleton_is_loop2 :
  forall (A : Type) (F : BlockSkeleton.kernel -> Z -> Z -> A) win my mx tgt sk k ny nx env0 out0 r c,
  BlockSkeleton.skeleton_wf sk = true -> (0 <= my)%Z -> (0 <= mx)%Z ->
  BlockSkeleton.last_kernel tgt (BlockSkeleton.sk_writes sk) = Some k ->
  snd (BlockSkeleton.exec F win my mx tgt sk ny nx (env0, out0)) r c
  = loop2 (F k) (BlockSkeleton.sk_B sk) ny nx my mx (BlockSkeleton.sk_oy win sk) (BlockSkeleton.sk_ox win sk) out0 r c.
Proof. exact BlockSkeleton.exec_wf_loop2. Qed.

(* the block decomposition itself: for every B >= 1 and every n (even unrelated to the extent m
   of the split array) the blocks tile [0, m) in order *)
Theorem C03_blocks_tile : forall B n m, (1 <= B)%Z -> (0 <= m)%Z -> tiles 0 m (blocks B n m).
Proof. exact blocks_tile. Qed.

Section C03.
  (* any measure type, shape, sampled disparities, invalid_disparity (None = NaN), volume
     (costs: None = NaN, Some (Fin q), Some PInf, Some MInf), bands and flags *)
  Variables (mx : bool) (nr nc : Z) (disps : list Q) (invalid : option Q).
  Variables (cv : Z -> Z -> list cost) (conf : Z -> Z -> list (option Q)) (mask : Z -> Z -> Z).

  Definition out (B : Z) : wta_out := to_disp mx B nr nc disps invalid cv conf mask.

  (* every pixel of every shape, every block size: the disparity map is the Spec's per-pixel
     answer (least index among the extrema of the non-NaN costs, else invalid_disparity).
     Guard [no_subst_inf]: the pixel holds no cost equal to the infinity substituted for NaN. *)
  Theorem C03_wta_eq_spec : forall B r c,
    (1 <= B)%Z -> (0 <= r < nr)%Z -> (0 <= c < nc)%Z -> cv r c <> [] -> no_subst_inf mx (cv r c) ->
    o_disp (out B) r c = wta_pixel mx disps invalid (cv r c).
  Proof. intros; apply wta_eq_spec_all; assumption. Qed.

  Theorem C03_wta_eq_spec_at_code_blocks : forall r c,
    (0 <= r < nr)%Z -> (0 <= c < nc)%Z -> cv r c <> [] -> no_subst_inf mx (cv r c) ->
    o_disp (out (if mx then wta_argmax_block else wta_argmin_block)) r c
    = wta_pixel mx disps invalid (cv r c).
  Proof.
    intros; apply wta_eq_spec_all; try assumption.
    destruct mx; [exact (proj2 C03_block_sizes_wf) | exact (proj1 C03_block_sizes_wf)].
  Qed.

  (* the loop of the model IS the loop read in the source: for every volume, shape, measure, every
     np.arange stop values (ny, nx) and initial environment, the disparity map of the model at the
     code's block size is, pixel by pixel, what executing the GENERATED skeleton of argmin_split /
     argmax_split writes into its np.zeros output (all-NaN pixels then get invalid_disparity) *)
  Theorem C03_model_loop_is_generated_skeleton : forall ny nx env0 r c, (0 <= nr)%Z -> (0 <= nc)%Z ->
    let sk := if mx then BlockLoops.argmax_split else BlockLoops.argmin_split in
    o_disp (out (if mx then wta_argmax_block else wta_argmin_block)) r c
    = if forallb (fun b : bool => b) (map is_nan (cv r c)) then invalid
      else Some (snd (BlockSkeleton.exec (SkelWtaP.wta_kernel disps cv) 0 nr nc (BlockSkeleton.sk_target 0 sk) sk
                                         ny nx (env0, fun _ _ => 0%Q)) r c).
  Proof.
    intros ny nx env0 r c Hnr Hnc. unfold out.
    destruct C03_block_loop_skeleton as (_ & _ & Hmin & Hmax & Bmin & Bmax).
    destruct mx; cbv zeta; [rewrite <- Bmax | rewrite <- Bmin]; apply SkelWtaP.wta_loop_is_skeleton_at; assumption.
  Qed.

  (* pixels with no computable cost receive exactly invalid_disparity *)
  Theorem C03_wta_invalid_when_no_cost : forall B r c,
    (1 <= B)%Z -> (0 <= r < nr)%Z -> (0 <= c < nc)%Z -> cv r c <> [] -> no_subst_inf mx (cv r c) ->
    no_computable (cv r c) -> o_disp (out B) r c = invalid.
  Proof. intros; apply wta_invalid_all; assumption. Qed.

  (* a pixel with a computable cost receives one of the sampled disparities *)
  Theorem C03_wta_is_sample : forall B r c j0 e0,
    (1 <= B)%Z -> (0 <= r < nr)%Z -> (0 <= c < nc)%Z -> cv r c <> [] -> no_subst_inf mx (cv r c) ->
    computable (cv r c) j0 e0 -> length disps = length (cv r c) ->
    exists d, In d disps /\ o_disp (out B) r c = Some d.
  Proof. intros; eapply wta_is_sample_all; eassumption. Qed.

  (* ... whose cost is computable and is the minimum (maximum for max-type measures) of the
     pixel's computable costs ... *)
  Theorem C03_wta_cost_is_extremum : forall B r c j0 e0,
    (1 <= B)%Z -> (0 <= r < nr)%Z -> (0 <= c < nc)%Z -> cv r c <> [] -> no_subst_inf mx (cv r c) ->
    computable (cv r c) j0 e0 ->
    exists k e, (k < length (cv r c))%nat /\ computable (cv r c) k e
      /\ o_disp (out B) r c = Some (nth k disps 0%Q)
      /\ (forall j e', computable (cv r c) j e' -> le_dir mx e e' = true).
  Proof.
    intros B r c j0 e0 HB Hr Hc Hne Hg H0.
    destruct (wta_winner_all mx B nr nc disps invalid cv conf mask r c HB Hr Hc Hne Hg j0 e0 H0)
      as (k & e & H1 & H2 & H3 & H4 & _).
    exists k, e. auto.
  Qed.

  (* ... ties going to the lowest disparity (least index of the increasing disparity axis) *)
  Theorem C03_wta_ties_lowest : forall B r c j0 e0,
    (1 <= B)%Z -> (0 <= r < nr)%Z -> (0 <= c < nc)%Z -> cv r c <> [] -> no_subst_inf mx (cv r c) ->
    computable (cv r c) j0 e0 ->
    exists k e, computable (cv r c) k e /\ o_disp (out B) r c = Some (nth k disps 0%Q)
      /\ (forall j e', computable (cv r c) j e' -> le_dir mx e' e = true -> (k <= j)%nat).
  Proof.
    intros B r c j0 e0 HB Hr Hc Hne Hg H0.
    destruct (wta_winner_all mx B nr nc disps invalid cv conf mask r c HB Hr Hc Hne Hg j0 e0 H0)
      as (k & e & H1 & H2 & H3 & _ & H5).
    exists k, e. auto.
  Qed.

  (* the result does not depend on the block size: any two B, B' >= 1, every pixel, no guard *)
  Theorem C03_wta_block_independent : forall B B' r c,
    (1 <= B)%Z -> (1 <= B')%Z -> (0 <= nr)%Z -> (0 <= nc)%Z ->
    o_disp (out B) r c = o_disp (out B') r c.
  Proof. intros; apply wta_block_independent_all; assumption. Qed.

  (* inside the pixel's requested interval [lo, hi], given C02's masking as a named hypothesis *)
  Definition cv_masked_outside_is_nan (r c : Z) (lo hi : Q) : Prop :=
    forall k, (k < length (cv r c))%nat -> ~ (lo <= nth k disps 0 /\ nth k disps 0 <= hi)%Q ->
              nth_error (cv r c) k = Some None.

  Theorem C03_wta_within_pixel_interval : forall B r c lo hi j0 e0,
    (1 <= B)%Z -> (0 <= r < nr)%Z -> (0 <= c < nc)%Z -> cv r c <> [] -> no_subst_inf mx (cv r c) ->
    cv_masked_outside_is_nan r c lo hi -> computable (cv r c) j0 e0 ->
    exists d, o_disp (out B) r c = Some d /\ (lo <= d)%Q /\ (d <= hi)%Q.
  Proof. intros; eapply wta_within_interval_all; eassumption. Qed.

  (* the step leaves the cost volume values unchanged: EVERY volume (also those that already
     contain +-inf: only the positions that were NaN are substituted and restored), every
     pixel, every B *)
  Theorem C03_wta_cv_unchanged : forall B r c, o_cv (out B) r c = cv r c.
  Proof. intros; apply wta_cv_unchanged_all. Qed.

  (* confidence bands and validity flags are carried over unaltered; disp_indices is the map *)
  Theorem C03_wta_carries_flags_and_bands : forall B r c,
    o_conf (out B) r c = conf r c /\ o_mask (out B) r c = mask r c
    /\ o_disp_indices (out B) r c = o_disp (out B) r c.
  Proof. intros; repeat split. Qed.
End C03.

(* the guard of C03_wta_eq_spec is needed: a volume holding the substituted infinity *)
Theorem C03_subst_inf_witness :
  let cv := fun (_ _ : Z) => [None; Some PInf] in
  o_disp (to_disp false 100 1 1 [0%Q; 1%Q] None cv (fun _ _ => []) (fun _ _ => 0%Z)) 0%Z 0%Z = Some 0%Q
  /\ wta_pixel false [0%Q; 1%Q] None (cv 0%Z 0%Z) = Some 1%Q.
Proof. exact subst_inf_witness. Qed.

(* Non-vacuity: a 1 x 3 max-type volume with a tie, a NaN and an all-NaN pixel satisfies the
   hypotheses; block size 1 puts every pixel in its own block. *)
Definition ex_cv : Z -> Z -> list cost := fun _ c =>
  if (c =? 0)%Z then [Some (Fin 1); Some (Fin 3); Some (Fin 3)]
  else if (c =? 1)%Z then [None; Some (Fin (-2)); None]
  else [None; None; None].
Example C03_example_hyps :
  (forall c, (0 <= c < 3)%Z -> ex_cv 0 c <> [] /\ no_subst_inf true (ex_cv 0 c))
  /\ map (fun c => o_disp (to_disp true 1 1 3 [(-1)%Q; 0%Q; 1%Q] (Some (7#2)) ex_cv (fun _ _ => []) (fun _ _ => 0%Z)) 0%Z c)
         [0%Z; 1%Z; 2%Z] = [Some 0%Q; Some 0%Q; Some (7#2)].
Proof.
  split; [|vm_compute; reflexivity].
  intros c Hc. assert (H : c = 0%Z \/ c = 1%Z \/ c = 2%Z) by (destruct Hc; abstract (Lia.lia)).
  destruct H as [-> | [-> | ->]]; (split; [discriminate | intros x Hin; cbn in Hin; intuition (subst; discriminate)]).
Qed.

(* ================================================================== the GENERATED to_disp (Gen/WtaFns.v)
   WinnerTakesAll.to_disp, argmin_split, argmax_split and extract_disparity_interval_from_cost_volume are
   regenerated at every run, statement by statement, by translator/gen_wta_fns.py over the numpy combinators of
   Lib/NpNd.v / Lib/NpNd3.v; the block loops of the split functions are the generated skeletons of
   Gen/BlockLoops.v run by BlockSkeleton.exec (Model/WtaNp.skel_block_loop3).  [cv_rep CV nr nc n cv disps]: the
   dataset CV holds a well-formed nr x nc x n volume whose pixel (r, c) is the cost list cv r c, the n sampled
   disparities disps, nr row and nc column coordinates (Proofs/WtaGenP.v). *)

From Coq Require Import String.

(* to_disp as the code has it: both split functions over their own generated block loop *)
Definition code_to_disp (inv : oq) (CV : cvds) : cvds * dmds :=
  g_to_disp (skel_block_loop3 BlockLoops.argmin_split) (skel_block_loop3 BlockLoops.argmax_split) inv CV.
(* the block size the measure type selects *)
Definition code_block (mx : bool) : Z := if mx then wta_argmax_block else wta_argmin_block.

(* per-run obligation: generated = model.  For every cost volume dataset of every shape with a non-empty disparity
   axis, every invalid_disparity (None = NaN), either measure type: the disparity map of the generated to_disp is a
   well-formed nr x nc array (nothing in the generated code raises: shapes agree, every looked-up position is inside
   the disparity axis) equal pixel by pixel to the model's, the cost volume afterwards is the model's, disp_indices
   is the model's; bands, flags, attributes, coordinates are the SAME arrays; disparity_interval is (first, last)
   sampled disparity *)
Theorem C03_gen_to_disp_is_model : forall inv CV nr nc n cv disps conf mask,
  cv_rep CV nr nc n cv disps -> (0 < n)%Z -> (0 <= nr)%Z -> (0 <= nc)%Z ->
  let mx := mx_of CV in
  let o := to_disp mx (code_block mx) nr nc disps inv cv conf mask in
  let CV' := fst (code_to_disp inv CV) in
  let DM := snd (code_to_disp inv CV) in
  is2 (dm_disp DM) nr nc (o_disp o)
  /\ is3 (cv_cost CV') nr nc n (fun r c k => nth (Z.to_nat k) (o_cv o r c) None)
  /\ (exists X, cv_disp_indices CV' = Some X /\ is2 X nr nc (o_disp_indices o))
  /\ dm_conf DM = cv_conf CV /\ dm_mask DM = Some (cv_mask CV) /\ dm_attrs DM = Some (cv_attrs CV)
  /\ dm_row DM = cv_row CV /\ dm_col DM = cv_col CV
  /\ cv_disp CV' = cv_disp CV /\ cv_conf CV' = cv_conf CV /\ cv_mask CV' = cv_mask CV
  /\ cv_attrs CV' = cv_attrs CV /\ cv_row CV' = cv_row CV /\ cv_col CV' = cv_col CV
  /\ (exists I, dm_interval DM = Some I
                /\ is1 I 2 (fun i => Some (nth (if (i =? 0)%Z then O else Z.to_nat (n - 1)) disps 0%Q))).
Proof.
  intros inv CV nr nc n cv disps conf mask Hrep Hn Hnr Hnc.
  destruct C03_block_loop_skeleton as (_ & _ & Hmin & Hmax & Bmin & Bmax).
  pose proof (gen_to_disp_is_model _ _ Hmin Hmax inv CV nr nc n cv disps conf mask Hrep Hn Hnr Hnc) as H.
  unfold code_block. rewrite <- Bmin, <- Bmax. unfold sk_of in H. destruct (mx_of CV); exact H.
Qed.

(* C03_wta_eq_spec on the generated function: every pixel of every dataset receives the Spec's answer (least index
   among the extrema of the non-NaN costs, else invalid_disparity); guard as in C03_wta_eq_spec *)
Theorem C03_gen_wta_eq_spec : forall inv CV nr nc n cv disps,
  cv_rep CV nr nc n cv disps -> (0 < n)%Z -> (0 <= nr)%Z -> (0 <= nc)%Z ->
  let DM := snd (code_to_disp inv CV) in
  err (dm_disp DM) = false /\ shp (dm_disp DM) = [nr; nc] /\
  forall r c, (0 <= r < nr)%Z -> (0 <= c < nc)%Z -> no_subst_inf (mx_of CV) (cv r c) ->
    elt (dm_disp DM) [r; c] = wta_pixel (mx_of CV) disps inv (cv r c).
Proof.
  intros inv CV nr nc n cv disps Hrep Hn Hnr Hnc. destruct C03_block_loop_skeleton as (_ & _ & Hmin & Hmax & _).
  exact (gen_wta_eq_spec _ _ Hmin Hmax inv CV nr nc n cv disps Hrep Hn Hnr Hnc).
Qed.

(* pixels with no computable cost receive exactly invalid_disparity (generated function) *)
Theorem C03_gen_wta_invalid_when_no_cost : forall inv CV nr nc n cv disps r c,
  cv_rep CV nr nc n cv disps -> (0 < n)%Z -> (0 <= nr)%Z -> (0 <= nc)%Z -> (0 <= r < nr)%Z -> (0 <= c < nc)%Z ->
  no_subst_inf (mx_of CV) (cv r c) -> no_computable (cv r c) ->
  elt (dm_disp (snd (code_to_disp inv CV))) [r; c] = inv.
Proof.
  intros inv CV nr nc n cv disps r c Hrep Hn Hnr Hnc Hr Hc Hg Hno.
  destruct (C03_gen_to_disp_is_model inv CV nr nc n cv disps (fun _ _ => []) (fun _ _ => 0%Z) Hrep Hn Hnr Hnc) as ((_ & _ & E) & _).
  rewrite E by assumption. apply wta_invalid_all; try assumption.
  - unfold code_block. destruct (mx_of CV); [exact (proj2 C03_block_sizes_wf) | exact (proj1 C03_block_sizes_wf)].
  - destruct Hrep as (_ & Hlen & _). intros E0. specialize (Hlen r c Hr Hc). rewrite E0 in Hlen. cbn in Hlen. Lia.lia.
Qed.

(* the step leaves the cost volume values unchanged (generated function): EVERY volume, also those holding +-inf;
   the dataset afterwards holds the same volume, disparity axis, coordinates, attributes, bands and flags *)
Theorem C03_gen_wta_cv_unchanged : forall inv CV nr nc n cv disps,
  cv_rep CV nr nc n cv disps -> (0 < n)%Z -> (0 <= nr)%Z -> (0 <= nc)%Z ->
  let CV' := fst (code_to_disp inv CV) in
  cv_rep CV' nr nc n cv disps
  /\ cv_disp CV' = cv_disp CV /\ cv_conf CV' = cv_conf CV /\ cv_mask CV' = cv_mask CV
  /\ cv_attrs CV' = cv_attrs CV /\ cv_row CV' = cv_row CV /\ cv_col CV' = cv_col CV.
Proof.
  intros inv CV nr nc n cv disps Hrep Hn Hnr Hnc. destruct C03_block_loop_skeleton as (_ & _ & Hmin & Hmax & _).
  exact (gen_wta_cv_unchanged _ _ Hmin Hmax inv CV nr nc n cv disps Hrep Hn Hnr Hnc).
Qed.

(* confidence bands and validity flags are carried over unaltered (generated function): the result holds the
   confidence DataArray of the volume (None when there is none) and the validity mask, the attributes and
   coordinates; disp_indices holds the values of the disparity map *)
Theorem C03_gen_wta_carries_flags_and_bands : forall inv CV nr nc n cv disps,
  cv_rep CV nr nc n cv disps -> (0 < n)%Z -> (0 <= nr)%Z -> (0 <= nc)%Z ->
  let CV' := fst (code_to_disp inv CV) in
  let DM := snd (code_to_disp inv CV) in
  dm_conf DM = cv_conf CV /\ dm_mask DM = Some (cv_mask CV) /\ dm_attrs DM = Some (cv_attrs CV)
  /\ dm_row DM = cv_row CV /\ dm_col DM = cv_col CV
  /\ (exists X, cv_disp_indices CV' = Some X /\ err X = false /\ shp X = [nr; nc]
                /\ forall r c, (0 <= r < nr)%Z -> (0 <= c < nc)%Z -> elt X [r; c] = elt (dm_disp DM) [r; c])
  /\ (exists I, dm_interval DM = Some I
                /\ is1 I 2 (fun i => Some (nth (if (i =? 0)%Z then O else Z.to_nat (n - 1)) disps 0%Q))).
Proof.
  intros inv CV nr nc n cv disps Hrep Hn Hnr Hnc. destruct C03_block_loop_skeleton as (_ & _ & Hmin & Hmax & _).
  exact (gen_wta_carries _ _ Hmin Hmax inv CV nr nc n cv disps Hrep Hn Hnr Hnc).
Qed.

(* the generated to_disp does not depend on the block sizes: with ANY other pair of skeletons accepted by
   wta_skeleton_ok (any block sizes >= 1) in place of the generated ones, the same disparity at every pixel *)
Theorem C03_gen_wta_block_independent : forall skmin skmax inv CV nr nc n cv disps r c,
  BlockSkeleton.wta_skeleton_ok false skmin = true -> BlockSkeleton.wta_skeleton_ok true skmax = true ->
  cv_rep CV nr nc n cv disps -> (0 < n)%Z -> (0 <= nr)%Z -> (0 <= nc)%Z -> (0 <= r < nr)%Z -> (0 <= c < nc)%Z ->
  elt (dm_disp (snd (code_to_disp inv CV))) [r; c]
  = elt (dm_disp (snd (g_to_disp (skel_block_loop3 skmin) (skel_block_loop3 skmax) inv CV))) [r; c].
Proof.
  intros skmin skmax inv CV nr nc n cv disps r c H1 H2 Hrep Hn Hnr Hnc Hr Hc.
  destruct C03_block_loop_skeleton as (_ & _ & Hmin & Hmax & _).
  exact (gen_wta_block_independent _ _ _ _ inv CV nr nc n cv disps r c Hmin Hmax H1 H2 Hrep Hn Hnr Hnc Hr Hc).
Qed.

(* per-run obligation on the storage the translator tracked: when to_disp returns, the disparity map, the validity
   mask and the disparity interval of the result are fresh arrays (no variable of the cost volume dataset shares
   their storage: a later in-place change of the result cannot reach the cost volume, nor the reverse) *)
Theorem C03_gen_result_storage_fresh :
  forallb (fresh_in g_to_disp_shares) ["disparity_map"%string; "validity_mask"%string; "disparity_interval"%string] = true.
Proof. vm_compute. reflexivity. Qed.

(* Non-vacuity of the generated statements: a 1 x 3 max-type dataset (tie, NaN, all-NaN pixel) satisfies cv_rep;
   the generated to_disp, its block loop run by BlockSkeleton.exec, computes the expected map and leaves the
   volume as it was *)
Definition ex_CV : cvds :=
  mkCv (mkNd false [1; 3; 3]%Z (fun idx => match idx with [r; c; k] => nth (Z.to_nat k) (ex_cv r c) None | _ => None end))
       (mkNd false [3]%Z (fun idx => match idx with [k] => Some (nth (Z.to_nat k) [(-1)%Q; 0%Q; 1%Q] 0%Q) | _ => None end))
       [0%Z] [0%Z; 1%Z; 2%Z] (mkWAttrs "max" 0) None (nd2 1 3 (fun _ _ => 0%Z)) None.
Example C03_gen_example :
  cv_rep ex_CV 1 3 3 ex_cv [(-1)%Q; 0%Q; 1%Q]
  /\ map (fun c => elt (dm_disp (snd (code_to_disp (Some (7#2)) ex_CV))) [0%Z; c]) [0%Z; 1%Z; 2%Z] = [Some 0%Q; Some 0%Q; Some (7#2)]
  /\ map (fun c => axis2_list (cv_cost (fst (code_to_disp (Some (7#2)) ex_CV))) 3 0 c) [0%Z; 1%Z; 2%Z] = map (ex_cv 0%Z) [0%Z; 1%Z; 2%Z]
  /\ err (dm_disp (snd (code_to_disp (Some (7#2)) ex_CV))) = false.
Proof.
  split; [|vm_compute; repeat split; reflexivity].
  unfold cv_rep, is3, is1, ex_CV. cbn [cv_cost cv_disp cv_row cv_col err shp elt]. repeat split; try reflexivity.
  intros r c Hr Hc. assert (r = 0%Z) by Lia.lia. assert (H1 : c = 0%Z \/ c = 1%Z \/ c = 2%Z) by Lia.lia. subst r.
  destruct H1 as [-> | [-> | ->]]; reflexivity.
Qed.

Print Assumptions C03_block_sizes_wf.
Print Assumptions C03_block_loop_skeleton.
Print Assumptions C03_wf_skeleton_is_loop2.
Print Assumptions C03_blocks_tile.
Print Assumptions C03_wta_eq_spec.
Print Assumptions C03_wta_eq_spec_at_code_blocks.
Print Assumptions C03_model_loop_is_generated_skeleton.
Print Assumptions C03_wta_invalid_when_no_cost.
Print Assumptions C03_wta_is_sample.
Print Assumptions C03_wta_cost_is_extremum.
Print Assumptions C03_wta_ties_lowest.
Print Assumptions C03_wta_block_independent.
Print Assumptions C03_wta_within_pixel_interval.
Print Assumptions C03_wta_cv_unchanged.
Print Assumptions C03_wta_carries_flags_and_bands.
Print Assumptions C03_subst_inf_witness.
Print Assumptions C03_gen_to_disp_is_model.
Print Assumptions C03_gen_wta_eq_spec.
Print Assumptions C03_gen_wta_invalid_when_no_cost.
Print Assumptions C03_gen_wta_cv_unchanged.
Print Assumptions C03_gen_wta_carries_flags_and_bands.
Print Assumptions C03_gen_wta_block_independent.
Print Assumptions C03_gen_result_storage_fresh.
