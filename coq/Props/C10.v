(* C10 -- stub, being written *)
From Coq Require Import ZArith.
From Pandora Require Import Gen.Constants.
Theorem C10_block_sizes_wf : (1 <= median_block)%Z /\ (1 <= bilateral_block)%Z.
Proof. split; vm_compute; discriminate. Qed.
Print Assumptions C10_block_sizes_wf.
