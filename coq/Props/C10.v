(* C10 -- filters change only valid pixels, to an average of their valid neighbours.
   Statements only; proofs are `exact <lemma>` (or a two-line composition) from Proofs/FiltersP.v.

   Models (Model/Filters.v): [median_filter_disparity], [bilateral_filter_disparity],
   [mfi_filter_disparity] mirror MedianFilter / BilateralFilter / MedianForIntervalsFilter
   .filter_disparity of the tree under test (NaN masking, sliding windows, the block loop of
   Lib/Blocks.v with the radius start offset and trailing empty blocks, np.nanmedian as
   insertion sort, write-back on finite pixels, |= bit 11), with the `fix:` commit "median
   filter on an image smaller than filter_size - 1 ..." in ([median_filter_before] = as found).
   Spec (Spec/Filters.v): per pixel, per window; no blocks.

   Every theorem holds for EVERY block size B >= 1; the block sizes found in the source
   (Gen/Constants.v, regenerated at every run) only have to pass C10_block_sizes_wf. *)
From Coq Require Import ZArith QArith List Bool Lia.
From Pandora Require Import Lib.Blocks Model.Filters Spec.Filters Proofs.FiltersP Gen.Constants.
From Pandora Require Lib.BlockSkeleton Proofs.SkelFiltersP Gen.BlockLoops.
From Pandora Require Import Lib.NpNd Model.FiltersNp Proofs.NpNdP Proofs.FiltersGenP Gen.FilterKernels.
Import ListNotations.
Open Scope Z_scope.

(* ------------------------------------------------------------------ per-run obligations on
   the regenerated constants *)
Theorem C10_block_sizes_wf : 1 <= median_block /\ 1 <= bilateral_block.
Proof. split; vm_compute; discriminate. Qed.

(* per-run obligations on the regenerated SKELETONS of the two block loops (Gen/BlockLoops.v, read
   from MedianFilter.median_filter / BilateralFilter.filter_bilateral by
   translator/gen_block_loops.py): each is the canonical double block loop that Blocks.loop2 models
   (Lib/BlockSkeleton.v: where each running offset is initialised and advanced and by what, the
   slice bounds of the write, the axes, one block size >= 1, the kernel applied to the inner
   chunk), both offsets start at int(W / 2) for the very W of the sliding_window, the written array
   is np.copy(a) while the chunks are windows of that same a (NOT of the array being written), and
   the block size is the constant of Gen/Constants.v *)
Theorem C10_median_block_loop_skeleton :
  BlockSkeleton.skeleton_wf BlockLoops.median_filter = true
  /\ BlockSkeleton.filter_skeleton_ok BlockSkeleton.KNanMedian BlockLoops.median_filter = true
  /\ BlockSkeleton.sk_B BlockLoops.median_filter = median_block.
Proof. vm_compute. repeat split; reflexivity. Qed.

Theorem C10_bilateral_block_loop_skeleton :
  BlockSkeleton.skeleton_wf BlockLoops.filter_bilateral = true
  /\ BlockSkeleton.filter_skeleton_ok BlockSkeleton.KBilateral BlockLoops.filter_bilateral = true
  /\ BlockSkeleton.sk_B BlockLoops.filter_bilateral = bilateral_block.
Proof. vm_compute. repeat split; reflexivity. Qed.

(* the loops of the model ARE the loops read in the source: for every map, filter size w >= 0,
   image at least as large as the filter, every np.arange stop values and initial environment,
   median_filter at the code's block size is, pixel by pixel, the re-NaN-ing of what executing the
   GENERATED skeleton (BlockSkeleton.exec) writes over the copy of the data, the kernel at window
   (i, j) being the model's nanmedian of that window of the ORIGINAL data *)
Theorem C10_median_model_loop_is_generated_skeleton : forall w ny nx (data : map2) sy sx env0 r c,
  0 <= w -> w <= ny -> w <= nx ->
  median_filter median_block w ny nx data r c
  = if is_none (data r c) then None
    else snd (BlockSkeleton.exec (SkelFiltersP.median_kernel data w) w (ny - w + 1) (nx - w + 1)
                (BlockSkeleton.sk_target 0 BlockLoops.median_filter) BlockLoops.median_filter sy sx (env0, data)) r c.
Proof.
  intros. destruct C10_median_block_loop_skeleton as (_ & Hok & <-).
  apply SkelFiltersP.median_loop_is_skeleton_at; assumption.
Qed.

Theorem C10_bilateral_model_loop_is_generated_skeleton : forall ny nx sigma gk rk (data : map2) sy sx env0 r c,
  let win := win_width ny nx sigma in
  0 <= win ->
  filter_bilateral bilateral_block ny nx sigma gk rk data r c
  = if is_none (data r c) then None
    else snd (BlockSkeleton.exec (SkelFiltersP.bilateral_kernel gk rk data win) win (ny - win + 1) (nx - win + 1)
                (BlockSkeleton.sk_target 0 BlockLoops.filter_bilateral) BlockLoops.filter_bilateral sy sx
                (env0, data)) r c.
Proof.
  intros. destruct C10_bilateral_block_loop_skeleton as (_ & Hok & <-).
  apply SkelFiltersP.bilateral_loop_is_skeleton_at; assumption.
Qed.

Theorem C10_constants :
  msk_pixel_interval_regularized = 2 ^ 11 /\
  msk_pixel_invalid = 2 ^ 0 + 2 ^ 1 + 2 ^ 6 + 2 ^ 7 + 2 ^ 8 + 2 ^ 9.
Proof. split; reflexivity. Qed.

(* ------------------------------------------------------------------ the Spec's window is the
   neighbourhood: exactly the pixels at most lo up/left and hi down/right, each once *)
Theorem C10_window_is_the_neighbourhood : forall lo hi r c,
  NoDup (win_px lo hi r c) /\
  forall r' c', In (r', c') (win_px lo hi r c) <-> (r - lo <= r' <= r + hi /\ c - lo <= c' <= c + hi).
Proof. intros. split; [apply NoDup_win_px | intros; apply In_win_px]. Qed.

(* the averages of the Spec are well defined: a list has at most one median (whatever sorted
   arrangement is taken), a list of (weight, value) pairs at most one weighted mean *)
Theorem C10_spec_averages_well_defined :
  (forall m m' l, is_median m l -> is_median m' l -> (m == m')%Q) /\
  (forall m m' terms, is_wmean m terms -> is_wmean m' terms -> (m == m')%Q).
Proof. split; [exact is_median_unique | exact is_wmean_unique]. Qed.

(* an order-free reading of the Spec's median: at least half of the values are <= m and at
   least half are >= m (so the sort in [is_median] is only a way to say "the middle") *)
Theorem C10_median_splits_the_values : forall m l, is_median m l ->
  (length l <= 2 * length (filter (fun x => Qle_bool x m) l))%nat /\
  (length l <= 2 * length (filter (fun x => Qle_bool m x) l))%nat.
Proof. exact median_splits. Qed.

(* ================================================================== median *)

(* For every map, mask, image size (also smaller than the filter), odd filter size 2*rad+1,
   block size B >= 1, value of the invalid-bits constant:
     - the mask is unchanged;
     - a pixel that is invalid (or whose disparity is NaN) keeps its disparity;
     - a pixel closer to an image edge than rad keeps its disparity;
     - every other valid pixel becomes the median of the valid disparities of its window. *)
Theorem C10_median_eq_spec : forall inv B rad ny nx disp mask, 1 <= B -> 0 <= rad ->
  let out := median_filter_disparity inv B (2 * rad + 1) ny nx disp mask in
  (forall r c, snd out r c = mask r c) /\
  (forall r c, valid_disp inv disp mask r c = None -> fst out r c = disp r c) /\
  (forall r c, ~ fits rad rad ny nx r c -> fst out r c = disp r c) /\
  (forall r c, fits rad rad ny nx r c -> forall v, valid_disp inv disp mask r c = Some v ->
     exists m, fst out r c = Some m /\ is_median m (win_vals (valid_disp inv disp mask) rad rad r c)).
Proof. exact median_eq_spec. Qed.

(* the same, at the constants of the code under test *)
Theorem C10_median_eq_spec_at_code_constants : forall rad ny nx disp mask, 0 <= rad ->
  let out := median_filter_disparity msk_pixel_invalid median_block (2 * rad + 1) ny nx disp mask in
  median_step_spec msk_pixel_invalid rad ny nx disp mask (fst out) (snd out).
Proof. intros. apply median_eq_spec; [exact (proj1 C10_block_sizes_wf) | assumption]. Qed.

(* hence between the smallest and the largest valid disparity of the window (both attained) *)
Theorem C10_median_between_min_max : forall inv B rad ny nx disp mask r c v, 1 <= B -> 0 <= rad ->
  fits rad rad ny nx r c -> valid_disp inv disp mask r c = Some v ->
  exists m, fst (median_filter_disparity inv B (2 * rad + 1) ny nx disp mask) r c = Some m /\
    exists a b, In a (win_vals (valid_disp inv disp mask) rad rad r c) /\
                In b (win_vals (valid_disp inv disp mask) rad rad r c) /\
                (forall x, In x (win_vals (valid_disp inv disp mask) rad rad r c) -> (a <= x <= b)%Q) /\
                (a <= m <= b)%Q.
Proof. exact median_between_min_max. Qed.

(* independent of the processing blocks: any two block sizes, every pixel, no guard *)
Theorem C10_median_block_independent : forall inv B B' rad ny nx disp mask r c,
  1 <= B -> 1 <= B' -> 0 <= rad ->
  fst (median_filter_disparity inv B (2 * rad + 1) ny nx disp mask) r c
  = fst (median_filter_disparity inv B' (2 * rad + 1) ny nx disp mask) r c.
Proof. exact median_block_independent. Qed.

(* in-range side condition: the result on the image depends on the pixels of the image only
   (the total functions of the model are never read outside [0,ny) x [0,nx)) *)
Theorem C10_median_reads_image_only : forall inv B rad ny nx disp disp' mask mask', 1 <= B -> 0 <= rad ->
  (forall r c, 0 <= r < ny -> 0 <= c < nx -> disp r c = disp' r c /\ mask r c = mask' r c) ->
  forall r c, 0 <= r < ny -> 0 <= c < nx ->
  fst (median_filter_disparity inv B (2 * rad + 1) ny nx disp mask) r c
  = fst (median_filter_disparity inv B (2 * rad + 1) ny nx disp' mask') r c.
Proof. exact median_reads_image_only. Qed.

(* the array-level median_filter (what median_for_intervals and cbca call) on a map whose NaN
   are the invalid pixels *)
Theorem C10_median_filter_map_spec : forall B rad ny nx data, 1 <= B -> 0 <= rad ->
  forall r c,
    (data r c = None -> median_filter B (2 * rad + 1) ny nx data r c = None) /\
    (~ fits rad rad ny nx r c -> median_filter B (2 * rad + 1) ny nx data r c = data r c) /\
    (fits rad rad ny nx r c -> forall v, data r c = Some v ->
       exists m, median_filter B (2 * rad + 1) ny nx data r c = Some m /\
                 is_median m (win_vals data rad rad r c)).
Proof. exact median_filter_map_spec. Qed.

(* ================================================================== bilateral *)

(* window width min(ny, nx, int(3 sigma_space + 1)): never empty for sigma_space >= 0, never
   larger than the image; it reaches lo = win/2 pixels up/left and hi = win-1-lo down/right
   (hi = lo for an odd width; hi = lo - 1 for an even width, as the code centres an even
   window on index win/2) *)
Theorem C10_bilateral_window : forall ny nx sigma, 1 <= ny -> 1 <= nx -> (0 <= sigma)%Q ->
  let win := win_width ny nx sigma in
  let lo := win / 2 in let hi := win - 1 - lo in
  1 <= win /\ win <= ny /\ win <= nx /\ 0 <= lo /\ 0 <= hi /\ lo + hi + 1 = win /\
  (win mod 2 = 1 -> hi = lo) /\ (win mod 2 = 0 -> hi = lo - 1).
Proof.
  intros ny nx sigma Hy Hx Hs win lo hi.
  pose proof (win_width_pos ny nx sigma Hy Hx Hs) as Hw.
  destruct (win_width_le ny nx sigma). destruct (window_reach win Hw) as (? & ? & ? & ? & ?).
  repeat split; assumption.
Qed.

(* For every map, mask, size, sigma_space, block size B >= 1 and every weight kernel that is
   nowhere negative and weighs a pixel on itself (spatial kernel [sk] indexed from the window
   corner as in the code, range kernel [rk]):
     - mask unchanged; invalid (or NaN) pixels unchanged; pixels whose window does not fit in
       the image unchanged;
     - every other valid pixel becomes the weighted mean  sum(w v) / sum(w)  over the valid
       pixels of its window, w = spatial(displacement) * range(v - own value), sum(w) > 0. *)
Theorem C10_bilateral_eq_weighted_mean : forall inv B ny nx sigma sk rk disp mask, 1 <= B ->
  let win := win_width ny nx sigma in
  let lo := win / 2 in
  let hi := win - 1 - lo in
  1 <= win -> kernel_ok (sp_of sk lo) rk lo hi ->
  let out := bilateral_filter_disparity inv B ny nx sigma sk rk disp mask in
  (forall r c, snd out r c = mask r c) /\
  (forall r c, valid_disp inv disp mask r c = None -> fst out r c = disp r c) /\
  (forall r c, ~ fits lo hi ny nx r c -> fst out r c = disp r c) /\
  (forall r c, fits lo hi ny nx r c -> forall cv, valid_disp inv disp mask r c = Some cv ->
     exists m, fst out r c = Some m /\
               is_wmean m (win_terms (sp_of sk lo) rk (valid_disp inv disp mask) lo hi r c cv)).
Proof. exact bilateral_eq_spec. Qed.

(* the statement of the property text: EVERY strictly positive kernel, at the block size and
   invalid-bits constant of the code under test *)
Theorem C10_bilateral_eq_weighted_mean_positive_kernel_at_code_constants :
  forall ny nx sigma sk rk disp mask,
  let win := win_width ny nx sigma in
  let lo := win / 2 in
  let hi := win - 1 - lo in
  1 <= win -> kernel_pos (sp_of sk lo) rk lo hi ->
  let out := bilateral_filter_disparity msk_pixel_invalid bilateral_block ny nx sigma sk rk disp mask in
  bilateral_step_spec msk_pixel_invalid lo hi ny nx (sp_of sk lo) rk disp mask (fst out) (snd out).
Proof. intros. apply bilateral_eq_spec_pos; [exact (proj2 C10_block_sizes_wf) | assumption | assumption]. Qed.

(* convexity in Q: between the smallest and the largest valid disparity of the window *)
Theorem C10_bilateral_between_min_max : forall inv B ny nx sigma sk rk disp mask r c cv, 1 <= B ->
  let win := win_width ny nx sigma in
  let lo := win / 2 in
  let hi := win - 1 - lo in
  1 <= win -> kernel_ok (sp_of sk lo) rk lo hi ->
  fits lo hi ny nx r c -> valid_disp inv disp mask r c = Some cv ->
  exists m, fst (bilateral_filter_disparity inv B ny nx sigma sk rk disp mask) r c = Some m /\
    exists a b, In a (win_vals (valid_disp inv disp mask) lo hi r c) /\
                In b (win_vals (valid_disp inv disp mask) lo hi r c) /\
                (forall x, In x (win_vals (valid_disp inv disp mask) lo hi r c) -> (a <= x <= b)%Q) /\
                (a <= m <= b)%Q.
Proof. exact bilateral_between_min_max. Qed.

Theorem C10_bilateral_block_independent : forall inv B B' ny nx sigma sk rk disp mask r c,
  1 <= B -> 1 <= B' -> 1 <= win_width ny nx sigma ->
  fst (bilateral_filter_disparity inv B ny nx sigma sk rk disp mask) r c
  = fst (bilateral_filter_disparity inv B' ny nx sigma sk rk disp mask) r c.
Proof. exact bilateral_block_independent. Qed.

Theorem C10_bilateral_reads_image_only : forall inv B ny nx sigma sk rk disp disp' mask mask', 1 <= B ->
  1 <= win_width ny nx sigma ->
  (forall r c, 0 <= r < ny -> 0 <= c < nx -> disp r c = disp' r c /\ mask r c = mask' r c) ->
  forall r c, 0 <= r < ny -> 0 <= c < nx ->
  fst (bilateral_filter_disparity inv B ny nx sigma sk rk disp mask) r c
  = fst (bilateral_filter_disparity inv B ny nx sigma sk rk disp' mask') r c.
Proof. exact bilateral_reads_image_only. Qed.

(* ================================================================== median_for_intervals *)

(* without regularisation: disparity map and validity mask come out as they went in; each
   interval-bound band gets the SAME median (median_filter, C10_median_filter_map_spec) with
   the band's own NaN as invalid pixels *)
Theorem C10_mfi_same_median_on_bands : forall bit11 B rad ny nx disp binf bsup mask, 1 <= B -> 0 <= rad ->
  let o := mfi_filter_disparity bit11 B (2 * rad + 1) ny nx None disp binf bsup mask in
  f_disp o = disp /\ f_mask o = mask /\
  median_map_spec rad ny nx binf (f_inf o) /\ median_map_spec rad ny nx bsup (f_sup o).
Proof.
  intros bit11 B rad ny nx disp binf bsup mask HB Hrad o.
  destruct (mfi_plain bit11 B (2 * rad + 1) ny nx disp binf bsup mask) as (H1 & H2 & H3 & H4).
  fold o in H1, H2, H3, H4. rewrite H3, H4.
  repeat split; try assumption; apply median_filter_map_spec; assumption.
Qed.

(* with regularisation (interval_regularization = an ARBITRARY function of the filtered bands):
   the disparity map is untouched, the regularisation receives the median-filtered bands,
   only bit 11 of the mask may change, it is never cleared, and it is raised exactly on the
   regularisation mask *)
Theorem C10_mfi_only_bit11 : forall B w ny nx oracle disp binf bsup mask,
  let o := mfi_filter_disparity msk_pixel_interval_regularized B w ny nx (Some oracle) disp binf bsup mask in
  let res := oracle (median_filter B w ny nx binf) (median_filter B w ny nx bsup) in
  f_disp o = disp /\ f_inf o = fst (fst res) /\ f_sup o = snd (fst res) /\
  forall r c,
    (forall k, k <> 11 -> Z.testbit (f_mask o r c) k = Z.testbit (mask r c) k) /\
    (Z.testbit (mask r c) 11 = true -> Z.testbit (f_mask o r c) 11 = true) /\
    f_mask o r c = (if snd res r c then Z.lor (mask r c) (2 ^ 11) else mask r c).
Proof.
  intros B w ny nx oracle disp binf bsup mask.
  destruct (mfi_regularized B w ny nx oracle disp binf bsup mask) as (H1 & H2 & H3 & H4).
  split; [exact H1|]. split; [exact H2|]. split; [exact H3|].
  intros r c. destruct (H4 r c) as [[Ha Hb] Hc]. repeat split; assumption.
Qed.

(* ================================================================== the GENERATED filter code
   Gen/FilterKernels.v is regenerated at every run by translator/gen_filter_kernels.py (Python ast,
   fail closed) from bilateral.py (normalized_gaussian, gauss_spatial_kernel, bilateral_kernel,
   filter_bilateral, filter_disparity), median.py (median_filter, filter_disparity) and
   median_for_intervals.py (filter_disparity): every statement a `let` over the numpy combinators of
   Lib/NpNd.v (broadcasting, transposition, indexing, nansum, boolean-mask assignment), the double
   block loop a hole filled with BlockSkeleton.exec of the generated skeleton (Gen/BlockLoops.v).
   The theorems below are about THOSE definitions: they stop compiling when the code changes what is
   computed.  [is2 X ny nx f]: X is a well-formed ny x nx array (no numpy error) whose element
   (r, c) is f r c for every pixel of the image. *)

(* pandora.common.sliding_window as generated (shape tuple (H - w0 + 1,) + (W - w1 + 1,) + shape,
   strides = base.strides + base.strides, as_strided): on a C-contiguous H x W array, every window
   size that fits: no error, and element (i, j, a, b) of the view is element (i + a, j + b) of the
   array (so every offset of the view is inside the array's memory) *)
Theorem C10_gen_sliding_window : forall (X : nd oq) h w g w0 w1, is2 X h w g ->
  0 <= w0 <= h -> 0 <= w1 <= w ->
  is4 (g_sliding_window X [w0; w1]) (h - w0 + 1) (w - w1 + 1) w0 w1 (fun i j a b => g (i + a) (j + b)).
Proof. exact gen_sliding_window_is. Qed.

(* the body of normalized_gaussian is the Gaussian formula exp(-((x / sigma)^2) * 0.5) / (sigma *
   sqrt(2 pi)) (exp, sqrt and pi never reach Coq as numbers), which is strictly positive whatever
   positive exponential / square root / pi interprets it *)
Theorem C10_gen_normalized_gaussian_is_the_gaussian :
  g_normalized_gaussian = gaussian_formula /\
  forall ex sq pi x sigma,
    (forall y, 0 < ex y)%Q -> (forall y, 0 < y -> 0 < sq y)%Q -> (0 < pi)%Q -> (0 < sigma)%Q ->
    (0 < geval ex sq pi x sigma g_normalized_gaussian)%Q.
Proof. split; [reflexivity | exact gaussian_formula_pos]. Qed.

(* WHICH table entry multiplies WHICH pixel (gauss_spatial_kernel): the weight of the neighbour at
   displacement (dr, dc) from the pixel is the Gaussian datum of dr^2 + dc^2 -- the table is centred
   on index kernel_size // 2, which is the centre index int(win_width / 2) filter_bilateral uses *)
Theorem C10_gen_spatial_weight_is_radial : forall ngs ss win dr dc, 0 <= win ->
  is2 (g_gauss_spatial_kernel ngs win ss) win win (fun a b => Some (gen_sk ngs ss win a b)) /\
  sp_of (gen_sk ngs ss win) (win / 2) dr dc = ngs ss (dr * dr + dc * dc).
Proof. intros. split; [apply gauss_spatial_kernel_is; assumption | apply gen_spatial_weight_radial]. Qed.

(* the vectorised bilateral_kernel (two transpositions, a[:, :, off, off], three broadcasts, two
   nansum): for EVERY batch of n0 x n1 windows of size w (every chunk of every block layout), every
   w x w table and centre index 0 <= off < w: no broadcasting error, an n0 x n1 result, and element
   (i, j) is nansum(window * weights) / nansum(weights) of window (i, j) ALONE, with
   weights[a, b] = table[a, b] * gaussian(window[a, b] - window[off, off]) *)
Theorem C10_gen_bilateral_kernel_per_window : forall ng W G sc off n0 n1 w gW gG,
  is4 W n0 n1 w w gW -> is2 G w w gG -> 0 <= off < w ->
  is2 (g_bilateral_kernel ng W G sc off) n0 n1 (fun i j => bil_formula (ng sc) (gW i j) gG w off).
Proof. exact gen_bilateral_kernel_is. Qed.

(* ... and that formula is the model's (= the Spec's) weighted mean over the non-NaN pixels of the
   window: NaN when the centre is NaN; NaN (0 / 0 or x / 0 in numpy) when the weights sum to 0;
   otherwise sum(w v) / sum(w) *)
Theorem C10_gen_bilateral_kernel_eq_model_weighted_mean : forall sk rk (data : map2) w off i j,
  let F := bil_formula rk (fun a b => data (i + a) (j + b)) (fun a b => Some (sk a b)) w off in
  match data (i + off) (j + off) with
  | None => F = None
  | Some cv =>
      let terms := bil_terms sk rk data w i j cv in
      if Qeq_bool (sumq (map fst terms)) 0 then F = None
      else exists x, F = Some x /\ (x == wmean terms)%Q
  end.
Proof. exact bil_formula_model. Qed.

(* the expressions the two block loops write are pointwise in the first two axes: the value for
   element (i, j) does not depend on the chunk W[y0:y1, x0:x1] that holds it (independence of the
   block layout at the level of the CODE of the kernel, for every chunk shape) *)
Theorem C10_gen_kernels_chunk_independent :
  (forall ng W G sc off my mx w gW gG y0 y1 x0 x1 i j,
     is4 W my mx w w gW -> is2 G w w gG -> 0 <= off < w ->
     0 <= y0 -> y1 <= my -> 0 <= x0 -> x1 <= mx -> y0 <= i < y1 -> x0 <= j < x1 ->
     let K := fun X => g_bilateral_kernel ng X G sc off in
     err (K (np_slice01 W y0 y1 x0 x1)) = false /\ shp (K (np_slice01 W y0 y1 x0 x1)) = [y1 - y0; x1 - x0] /\
     elt (K (np_slice01 W y0 y1 x0 x1)) [i - y0; j - x0] = kernel_at K W i j /\
     kernel_at K W i j = bil_formula (ng sc) (gW i j) gG w off) /\
  (forall W my mx w gW y0 y1 x0 x1 i j,
     is4 W my mx w w gW ->
     0 <= y0 -> y1 <= my -> 0 <= x0 -> x1 <= mx -> y0 <= i < y1 -> x0 <= j < x1 ->
     let K := fun X => np_nanmedian_23 X in
     err (K (np_slice01 W y0 y1 x0 x1)) = false /\ shp (K (np_slice01 W y0 y1 x0 x1)) = [y1 - y0; x1 - x0] /\
     elt (K (np_slice01 W y0 y1 x0 x1)) [i - y0; j - x0] = kernel_at K W i j /\
     kernel_at K W i j = nanmedian (win_list w w (gW i j))).
Proof. split; [exact gen_bilateral_kernel_chunk | exact gen_nanmedian_chunk]. Qed.

(* generated MedianFilter.median_filter (copy, isnan, early return for a small image, sliding
   windows, the GENERATED block loop writing np.nanmedian(chunk, axis=(2, 3)), re-NaN) = the model,
   at every pixel, for every image and filter size >= 0 *)
Theorem C10_gen_median_filter_eq_model : forall w D ny nx data, 0 <= w -> is2 D ny nx data ->
  is2 (g_median_filter (skel_block_loop BlockLoops.median_filter) w D) ny nx (median_filter median_block w ny nx data).
Proof.
  intros w D ny nx data Hw HD. destruct C10_median_block_loop_skeleton as (_ & Hok & <-).
  apply gen_median_filter_is_model; assumption.
Qed.

(* generated BilateralFilter.filter_bilateral (win_width = min(ny, nx, int(3 sigma + 1)), offset =
   int(win_width / 2), sliding windows, gauss_spatial_kernel(win_width, sigma_space), the GENERATED
   block loop writing bilateral_kernel(chunk, table, sigma_color, offset), re-NaN) = the model with the
   generated spatial table and range kernel, per pixel, as rationals, whenever the weights of the
   pixel's window do not sum to 0 *)
Theorem C10_gen_filter_bilateral_eq_model : forall ng ngs D ny nx data ss sc,
  (0 <= ss)%Q -> 1 <= win_width ny nx ss -> is2 D ny nx data ->
  let win := win_width ny nx ss in
  let R := g_filter_bilateral ng ngs (skel_block_loop BlockLoops.filter_bilateral) D ss sc in
  err R = false /\ shp R = [ny; nx] /\
  forall r c, 0 <= r < ny -> 0 <= c < nx ->
    (forall cv, data r c = Some cv ->
       ~ (sumq (map fst (bil_terms (gen_sk ngs ss win) (ng sc) data win (r - win / 2) (c - win / 2) cv)) == 0)%Q) ->
    oq_eq (elt R [r; c]) (filter_bilateral bilateral_block ny nx ss (gen_sk ngs ss win) (ng sc) data r c).
Proof.
  intros ng ngs D ny nx data ss sc Hss Hwin HD. destruct C10_bilateral_block_loop_skeleton as (_ & Hok & <-).
  apply gen_filter_bilateral_is_model; assumption.
Qed.

(* C10_median_eq_spec restated on the generated code: MedianFilter.filter_disparity (NaN masking of
   the pixels with a bit of PANDORA_MSK_PIXEL_INVALID, isfinite, write-back on the finite pixels only)
   over the generated median_filter over the generated block loop, on ANY dataset: validity mask and
   confidence bands are the very same arrays, the disparity map is well formed and pixel by pixel the
   model's output, which satisfies the Spec of the median step *)
Theorem C10_gen_median_eq_spec : forall rad ds ny nx disp mask, 0 <= rad ->
  is2 (ds_disp ds) ny nx disp -> is2 (ds_mask ds) ny nx mask ->
  let ds' := g_median_filter_disparity (g_median_filter (skel_block_loop BlockLoops.median_filter)) (2 * rad + 1) ds in
  let out := median_filter_disparity msk_pixel_invalid median_block (2 * rad + 1) ny nx disp mask in
  ds_mask ds' = ds_mask ds /\ ds_band ds' = ds_band ds /\ is2 (ds_disp ds') ny nx (fst out) /\
  median_step_spec msk_pixel_invalid rad ny nx disp mask (fst out) (snd out).
Proof.
  intros rad ds ny nx disp mask Hrad Hd Hm. destruct C10_median_block_loop_skeleton as (_ & Hok & <-).
  apply gen_median_eq_spec; assumption.
Qed.

(* C10_bilateral_eq_weighted_mean restated on the generated code, for EVERY Gaussian data ng / ngs
   whose kernel is nowhere negative and weighs a pixel on itself: mask and bands are the very same
   arrays; the disparity map is well formed, and (extended outside the image by the write-back
   formula) satisfies the Spec of the bilateral step: invalid pixels and pixels whose window does
   not fit unchanged, every other valid pixel the weighted mean of the valid pixels of its window,
   the weight of the neighbour at (dr, dc) being ngs sigma_space (dr^2 + dc^2) * ng sigma_color (v - own) *)
Theorem C10_gen_bilateral_eq_weighted_mean : forall ng ngs ss sc ds ny nx disp mask, (0 <= ss)%Q ->
  let win := win_width ny nx ss in
  let lo := win / 2 in
  let hi := win - 1 - lo in
  1 <= win ->
  kernel_ok (sp_of (gen_sk ngs ss win) lo) (ng sc) lo hi ->
  is2 (ds_disp ds) ny nx disp -> is2 (ds_mask ds) ny nx mask ->
  let ds' := g_bilateral_filter_disparity (g_filter_bilateral ng ngs (skel_block_loop BlockLoops.filter_bilateral)) ss sc ds in
  let disp' := writeback msk_pixel_invalid disp mask (gen_bil_px ng ngs ss sc ny nx) in
  ds_mask ds' = ds_mask ds /\ ds_band ds' = ds_band ds /\ is2 (ds_disp ds') ny nx disp' /\
  bilateral_step_spec msk_pixel_invalid lo hi ny nx (sp_of (gen_sk ngs ss win) lo) (ng sc) disp mask disp' mask.
Proof.
  intros ng ngs ss sc ds ny nx disp mask Hss win lo hi Hwin Hk Hd Hm.
  destruct C10_bilateral_block_loop_skeleton as (_ & Hok & _).
  apply gen_bilateral_eq_weighted_mean; assumption.
Qed.

(* hence between the smallest and the largest valid disparity of the window, on the generated code *)
Theorem C10_gen_bilateral_between_min_max : forall ng ngs ss sc ds ny nx disp mask r c cv, (0 <= ss)%Q ->
  let win := win_width ny nx ss in
  let lo := win / 2 in
  let hi := win - 1 - lo in
  1 <= win ->
  kernel_ok (sp_of (gen_sk ngs ss win) lo) (ng sc) lo hi ->
  is2 (ds_disp ds) ny nx disp -> is2 (ds_mask ds) ny nx mask ->
  fits lo hi ny nx r c -> valid_disp msk_pixel_invalid disp mask r c = Some cv ->
  0 <= r < ny -> 0 <= c < nx ->
  let ds' := g_bilateral_filter_disparity (g_filter_bilateral ng ngs (skel_block_loop BlockLoops.filter_bilateral)) ss sc ds in
  exists m, elt (ds_disp ds') [r; c] = Some m /\
            between_min_max m (win_vals (valid_disp msk_pixel_invalid disp mask) lo hi r c).
Proof.
  intros ng ngs ss sc ds ny nx disp mask r c cv Hss win lo hi Hwin Hk Hd Hm Hf Hv Hr Hc ds'.
  destruct (C10_gen_bilateral_eq_weighted_mean ng ngs ss sc ds ny nx disp mask Hss Hwin Hk Hd Hm) as (_ & _ & (_ & _ & Hg) & Hspec).
  destruct (window_reach win Hwin) as (Hlo & Hhi & _).
  destruct (bilateral_spec_between _ _ _ _ _ _ _ _ _ _ _ r c cv Hlo Hhi Hk Hspec Hf Hv) as (m & Hm' & Hb).
  exists m. split; [|exact Hb]. unfold ds'. rewrite Hg by assumption. exact Hm'.
Qed.

(* the generated filters give every pixel of the image the same value whichever accepted block loop
   (any block size >= 1, Lib/BlockSkeleton.filter_skeleton_ok) runs them *)
Theorem C10_gen_block_independent : forall sk sk' rad D ny nx data ng ngs ss sc,
  is2 D ny nx data -> 0 <= rad ->
  (BlockSkeleton.filter_skeleton_ok BlockSkeleton.KNanMedian sk = true ->
   BlockSkeleton.filter_skeleton_ok BlockSkeleton.KNanMedian sk' = true ->
   forall r c, 0 <= r < ny -> 0 <= c < nx ->
     elt (g_median_filter (skel_block_loop sk) (2 * rad + 1) D) [r; c]
     = elt (g_median_filter (skel_block_loop sk') (2 * rad + 1) D) [r; c]) /\
  (BlockSkeleton.filter_skeleton_ok BlockSkeleton.KBilateral sk = true ->
   BlockSkeleton.filter_skeleton_ok BlockSkeleton.KBilateral sk' = true ->
   (0 <= ss)%Q -> 1 <= win_width ny nx ss ->
   forall r c, 0 <= r < ny -> 0 <= c < nx ->
     elt (g_filter_bilateral ng ngs (skel_block_loop sk) D ss sc) [r; c]
     = elt (g_filter_bilateral ng ngs (skel_block_loop sk') D ss sc) [r; c]).
Proof. exact gen_block_independent. Qed.

(* median_for_intervals.filter_disparity as generated: the disparity map is never touched; each
   interval-bound band is replaced by the SAME generated median_filter of a copy of that band (= the
   model's, satisfying the Spec of the array-level median); without regularisation the mask is the
   very same array; with regularisation (interval_regularization an arbitrary function fed with the
   filtered bands and the ambiguity band) the bands become its outputs and the mask gets
   mask[mask_regularization] |= PANDORA_MSK_PIXEL_INTERVAL_REGULARIZED: only bit 11 may change, it is
   never cleared, and it is raised exactly on the regularisation mask *)
Theorem C10_gen_mfi_same_median_only_bit11 : forall hreg rad reg ds ny nx disp binf bsup mask, 0 <= rad ->
  is2 (ds_disp ds) ny nx disp -> is2 (ds_mask ds) ny nx mask ->
  is2 (ds_band ds KInf) ny nx binf -> is2 (ds_band ds KSup) ny nx bsup ->
  let h := g_median_filter (skel_block_loop BlockLoops.median_filter) in
  let w := 2 * rad + 1 in
  let ds' := g_mfi_filter_disparity h hreg w reg ds in
  let i1 := h w (ds_band ds KInf) in
  let s1 := h w (ds_band ds KSup) in
  ds_disp ds' = ds_disp ds /\
  is2 i1 ny nx (median_filter median_block w ny nx binf) /\
  is2 s1 ny nx (median_filter median_block w ny nx bsup) /\
  median_map_spec rad ny nx binf (median_filter median_block w ny nx binf) /\
  median_map_spec rad ny nx bsup (median_filter median_block w ny nx bsup) /\
  (reg = false -> ds_mask ds' = ds_mask ds /\ ds_band ds' KInf = i1 /\ ds_band ds' KSup = s1) /\
  (reg = true ->
     let res := hreg i1 s1 (ds_band ds KAmb) in
     ds_band ds' KInf = fst (fst res) /\ ds_band ds' KSup = snd (fst res) /\
     forall m, is2 (snd res) ny nx m ->
       is2 (ds_mask ds') ny nx (fun r c => if m r c then Z.lor (mask r c) (2 ^ 11) else mask r c) /\
       forall r c, 0 <= r < ny -> 0 <= c < nx -> only_bit11_raised (mask r c) (elt (ds_mask ds') [r; c])).
Proof.
  intros hreg rad reg ds ny nx disp binf bsup mask Hrad Hd Hm Hi Hs. destruct C10_median_block_loop_skeleton as (_ & Hok & <-).
  eapply gen_mfi_spec; eassumption.
Qed.

(* ================================================================== examples / regressions *)

(* Non-vacuity: a 3 x 4 map, filter size 3, one invalid pixel (flag 2) inside the window of
   (1,1), one NaN disparity: pixel (1,1) becomes the median 5/2 of {1,2,2,2,3,5,7,8} -- the mean
   of the two middle values --, pixel (1,2) the median 4 of its 7 valid values {2,2,2,4,5,8,9},
   the invalid pixel and the border are untouched; block size 1 puts every window in its own block. *)
Definition ex_disp : map2 :=
  Lib.Arr.of_rows None [[Some 1; Some 5; Some 2; Some 9];
                        [Some 7; Some 2; Some 8; None];
                        [Some 3; Some 100; Some 2; Some 4]]%Q.
Definition ex_mask : Z -> Z -> Z := Lib.Arr.of_rows 0 [[0; 0; 0; 0]; [0; 4; 0; 0]; [0; 2; 0; 0]].
Example C10_example_hyps :
  fits 1 1 3 4 1 1 /\ valid_disp msk_pixel_invalid ex_disp ex_mask 1 1 = Some 2%Q /\
  valid_disp msk_pixel_invalid ex_disp ex_mask 2 1 = None /\
  Lib.Arr.to_rows 3 4 (fst (median_filter_disparity msk_pixel_invalid 1 3 3 4 ex_disp ex_mask))
  = [[Some 1; Some 5; Some 2; Some 9];
     [Some 7; Some (5 # 2); Some 4; None];
     [Some 3; Some 100; Some 2; Some 4]]%Q.
Proof. vm_compute. repeat split; discriminate. Qed.

(* Regression of the repaired defect: as found, a 3-row map with filter size 7 made
   sliding_window raise ValueError (None); now the map comes back untouched, as the property
   demands of pixels closer to the edge than the radius. *)
Example C10_small_image_regression :
  median_filter_before 100 7 3 4 ex_disp = None /\
  Lib.Arr.to_rows 3 4 (fst (median_filter_disparity msk_pixel_invalid 100 7 3 4 ex_disp (fun _ _ => 0)))
  = Lib.Arr.to_rows 3 4 ex_disp.
Proof. vm_compute. split; reflexivity. Qed.

(* bilateral on the same map with sigma_space = 2/3 (window 3) and the constant kernel 1: the
   hypotheses of the bilateral theorems are satisfiable and pixel (1,1) becomes the plain mean
   15/4 of its 8 valid window values *)
Example C10_example_bilateral :
  win_width 3 4 (2 # 3) = 3 /\ kernel_pos (sp_of (fun _ _ => 1%Q) 1) (fun _ => 1%Q) 1 1 /\
  match fst (bilateral_filter_disparity msk_pixel_invalid 50 3 4 (2 # 3) (fun _ _ => 1%Q) (fun _ => 1%Q)
                                        ex_disp ex_mask) 1 1 with
  | Some m => (m == 15 # 4)%Q
  | None => False
  end.
Proof. split; [reflexivity|]. split; [split; intros; reflexivity | vm_compute; reflexivity]. Qed.

(* the hypotheses of the C10_gen_* theorems are satisfiable and the generated code RUNS: the
   generated filter_disparity / median_filter / block loop executed on the 3 x 4 example gives the
   map of C10_example_hyps, and the generated bilateral chain with the constant Gaussian data 1
   gives the plain mean 15/4 at pixel (1, 1) *)
Definition ex_ds : dataset := mkDs (nd2 3 4 ex_disp) (nd2 3 4 ex_mask) (fun _ => nd2 3 4 ex_disp).
Example C10_gen_example :
  is2 (ds_disp ex_ds) 3 4 ex_disp /\ is2 (ds_mask ex_ds) 3 4 ex_mask /\
  (let ds' := g_median_filter_disparity (g_median_filter (skel_block_loop BlockLoops.median_filter)) 3 ex_ds in
   err (ds_disp ds') = false /\ shp (ds_disp ds') = [3; 4] /\
   Lib.Arr.to_rows 3 4 (fun2 (ds_disp ds'))
   = [[Some 1; Some 5; Some 2; Some 9];
      [Some 7; Some (5 # 2); Some 4; None];
      [Some 3; Some 100; Some 2; Some 4]]%Q) /\
  (let ds' := g_bilateral_filter_disparity
                (g_filter_bilateral (fun _ _ => 1%Q) (fun _ _ => 1%Q) (skel_block_loop BlockLoops.filter_bilateral))
                (2 # 3) 1 ex_ds in
   err (ds_disp ds') = false /\
   match fun2 (ds_disp ds') 1 1 with Some m => (m == 15 # 4)%Q | None => False end).
Proof.
  split; [apply nd2_2|]. split; [apply nd2_2|]. split; vm_compute; repeat split; reflexivity.
Qed.

Print Assumptions C10_block_sizes_wf.
Print Assumptions C10_median_block_loop_skeleton.
Print Assumptions C10_bilateral_block_loop_skeleton.
Print Assumptions C10_median_model_loop_is_generated_skeleton.
Print Assumptions C10_bilateral_model_loop_is_generated_skeleton.
Print Assumptions C10_constants.
Print Assumptions C10_window_is_the_neighbourhood.
Print Assumptions C10_spec_averages_well_defined.
Print Assumptions C10_median_splits_the_values.
Print Assumptions C10_median_eq_spec.
Print Assumptions C10_median_eq_spec_at_code_constants.
Print Assumptions C10_median_between_min_max.
Print Assumptions C10_median_block_independent.
Print Assumptions C10_median_reads_image_only.
Print Assumptions C10_median_filter_map_spec.
Print Assumptions C10_bilateral_window.
Print Assumptions C10_bilateral_eq_weighted_mean.
Print Assumptions C10_bilateral_eq_weighted_mean_positive_kernel_at_code_constants.
Print Assumptions C10_bilateral_between_min_max.
Print Assumptions C10_bilateral_block_independent.
Print Assumptions C10_bilateral_reads_image_only.
Print Assumptions C10_mfi_same_median_on_bands.
Print Assumptions C10_mfi_only_bit11.
Print Assumptions C10_gen_sliding_window.
Print Assumptions C10_gen_normalized_gaussian_is_the_gaussian.
Print Assumptions C10_gen_spatial_weight_is_radial.
Print Assumptions C10_gen_bilateral_kernel_per_window.
Print Assumptions C10_gen_bilateral_kernel_eq_model_weighted_mean.
Print Assumptions C10_gen_kernels_chunk_independent.
Print Assumptions C10_gen_median_filter_eq_model.
Print Assumptions C10_gen_filter_bilateral_eq_model.
Print Assumptions C10_gen_median_eq_spec.
Print Assumptions C10_gen_bilateral_eq_weighted_mean.
Print Assumptions C10_gen_bilateral_between_min_max.
Print Assumptions C10_gen_block_independent.
Print Assumptions C10_gen_mfi_same_median_only_bit11.
