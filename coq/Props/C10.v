(* C10 -- filters change only valid pixels, to an average of their valid neighbours.
   Statements only; proofs are `exact <lemma>` (or a two-line composition) from Proofs/FiltersP.v.

   Models (Model/Filters.v): [median_filter_disparity], [bilateral_filter_disparity],
   [mfi_filter_disparity] mirror MedianFilter / BilateralFilter / MedianForIntervalsFilter
   .filter_disparity of the tree under test (NaN masking, sliding windows, the block loop of
   Lib/Blocks.v with the radius start offset and trailing empty blocks, np.nanmedian as
   insertion sort, write-back on finite pixels, |= bit 11), with the `fix:` commit "median
   filter on an image smaller than filter_size - 1 ..." in ([median_filter_before] = as found).
   Spec (Spec/Filters.v): per pixel, per window; no blocks.

   Every theorem holds for EVERY block size B >= 1; the block sizes found in the source
   (Gen/Constants.v, regenerated at every run) only have to pass C10_block_sizes_wf. *)
From Coq Require Import ZArith QArith List Bool Lia.
From Pandora Require Import Lib.Blocks Model.Filters Spec.Filters Proofs.FiltersP Gen.Constants.
From Pandora Require Lib.BlockSkeleton Proofs.SkelFiltersP Gen.BlockLoops.
Import ListNotations.
Open Scope Z_scope.

(* ------------------------------------------------------------------ per-run obligations on
   the regenerated constants *)
Theorem C10_block_sizes_wf : 1 <= median_block /\ 1 <= bilateral_block.
Proof. split; vm_compute; discriminate. Qed.

(* per-run obligations on the regenerated SKELETONS of the two block loops (Gen/BlockLoops.v, read
   from MedianFilter.median_filter / BilateralFilter.filter_bilateral by
   translator/gen_block_loops.py): each is the canonical double block loop that Blocks.loop2 models
   (Lib/BlockSkeleton.v: where each running offset is initialised and advanced and by what, the
   slice bounds of the write, the axes, one block size >= 1, the kernel applied to the inner
   chunk), both offsets start at int(W / 2) for the very W of the sliding_window, the written array
   is np.copy(a) while the chunks are windows of that same a (NOT of the array being written), and
   the block size is the constant of Gen/Constants.v *)
Theorem C10_median_block_loop_skeleton :
  BlockSkeleton.skeleton_wf BlockLoops.median_filter = true
  /\ BlockSkeleton.filter_skeleton_ok BlockSkeleton.KNanMedian BlockLoops.median_filter = true
  /\ BlockSkeleton.sk_B BlockLoops.median_filter = median_block.
Proof. vm_compute. repeat split; reflexivity. Qed.

Theorem C10_bilateral_block_loop_skeleton :
  BlockSkeleton.skeleton_wf BlockLoops.filter_bilateral = true
  /\ BlockSkeleton.filter_skeleton_ok BlockSkeleton.KBilateral BlockLoops.filter_bilateral = true
  /\ BlockSkeleton.sk_B BlockLoops.filter_bilateral = bilateral_block.
Proof. vm_compute. repeat split; reflexivity. Qed.

(* the loops of the model ARE the loops read in the source: for every map, filter size w >= 0,
   image at least as large as the filter, every np.arange stop values and initial environment,
   median_filter at the code's block size is, pixel by pixel, the re-NaN-ing of what executing the
   GENERATED skeleton (BlockSkeleton.exec) writes over the copy of the data, the kernel at window
   (i, j) being the model's nanmedian of that window of the ORIGINAL data *)
Theorem C10_median_model_loop_is_generated_skeleton : forall w ny nx (data : map2) sy sx env0 r c,
  0 <= w -> w <= ny -> w <= nx ->
  median_filter median_block w ny nx data r c
  = if is_none (data r c) then None
    else snd (BlockSkeleton.exec (SkelFiltersP.median_kernel data w) w (ny - w + 1) (nx - w + 1)
                (BlockSkeleton.sk_target 0 BlockLoops.median_filter) BlockLoops.median_filter sy sx (env0, data)) r c.
Proof.
  intros. destruct C10_median_block_loop_skeleton as (_ & Hok & <-).
  apply SkelFiltersP.median_loop_is_skeleton_at; assumption.
Qed.

Theorem C10_bilateral_model_loop_is_generated_skeleton : forall ny nx sigma gk rk (data : map2) sy sx env0 r c,
  let win := win_width ny nx sigma in
  0 <= win ->
  filter_bilateral bilateral_block ny nx sigma gk rk data r c
  = if is_none (data r c) then None
    else snd (BlockSkeleton.exec (SkelFiltersP.bilateral_kernel gk rk data win) win (ny - win + 1) (nx - win + 1)
                (BlockSkeleton.sk_target 0 BlockLoops.filter_bilateral) BlockLoops.filter_bilateral sy sx
                (env0, data)) r c.
Proof.
  intros. destruct C10_bilateral_block_loop_skeleton as (_ & Hok & <-).
  apply SkelFiltersP.bilateral_loop_is_skeleton_at; assumption.
Qed.

Theorem C10_constants :
  msk_pixel_interval_regularized = 2 ^ 11 /\
  msk_pixel_invalid = 2 ^ 0 + 2 ^ 1 + 2 ^ 6 + 2 ^ 7 + 2 ^ 8 + 2 ^ 9.
Proof. split; reflexivity. Qed.

(* ------------------------------------------------------------------ the Spec's window is the
   neighbourhood: exactly the pixels at most lo up/left and hi down/right, each once *)
Theorem C10_window_is_the_neighbourhood : forall lo hi r c,
  NoDup (win_px lo hi r c) /\
  forall r' c', In (r', c') (win_px lo hi r c) <-> (r - lo <= r' <= r + hi /\ c - lo <= c' <= c + hi).
Proof. intros. split; [apply NoDup_win_px | intros; apply In_win_px]. Qed.

(* the averages of the Spec are well defined: a list has at most one median (whatever sorted
   arrangement is taken), a list of (weight, value) pairs at most one weighted mean *)
Theorem C10_spec_averages_well_defined :
  (forall m m' l, is_median m l -> is_median m' l -> (m == m')%Q) /\
  (forall m m' terms, is_wmean m terms -> is_wmean m' terms -> (m == m')%Q).
Proof. split; [exact is_median_unique | exact is_wmean_unique]. Qed.

(* an order-free reading of the Spec's median: at least half of the values are <= m and at
   least half are >= m (so the sort in [is_median] is only a way to say "the middle") *)
Theorem C10_median_splits_the_values : forall m l, is_median m l ->
  (length l <= 2 * length (filter (fun x => Qle_bool x m) l))%nat /\
  (length l <= 2 * length (filter (fun x => Qle_bool m x) l))%nat.
Proof. exact median_splits. Qed.

(* ================================================================== median *)

(* For every map, mask, image size (also smaller than the filter), odd filter size 2*rad+1,
   block size B >= 1, value of the invalid-bits constant:
     - the mask is unchanged;
     - a pixel that is invalid (or whose disparity is NaN) keeps its disparity;
     - a pixel closer to an image edge than rad keeps its disparity;
     - every other valid pixel becomes the median of the valid disparities of its window. *)
Theorem C10_median_eq_spec : forall inv B rad ny nx disp mask, 1 <= B -> 0 <= rad ->
  let out := median_filter_disparity inv B (2 * rad + 1) ny nx disp mask in
  (forall r c, snd out r c = mask r c) /\
  (forall r c, valid_disp inv disp mask r c = None -> fst out r c = disp r c) /\
  (forall r c, ~ fits rad rad ny nx r c -> fst out r c = disp r c) /\
  (forall r c, fits rad rad ny nx r c -> forall v, valid_disp inv disp mask r c = Some v ->
     exists m, fst out r c = Some m /\ is_median m (win_vals (valid_disp inv disp mask) rad rad r c)).
Proof. exact median_eq_spec. Qed.

(* the same, at the constants of the code under test *)
Theorem C10_median_eq_spec_at_code_constants : forall rad ny nx disp mask, 0 <= rad ->
  let out := median_filter_disparity msk_pixel_invalid median_block (2 * rad + 1) ny nx disp mask in
  median_step_spec msk_pixel_invalid rad ny nx disp mask (fst out) (snd out).
Proof. intros. apply median_eq_spec; [exact (proj1 C10_block_sizes_wf) | assumption]. Qed.

(* hence between the smallest and the largest valid disparity of the window (both attained) *)
Theorem C10_median_between_min_max : forall inv B rad ny nx disp mask r c v, 1 <= B -> 0 <= rad ->
  fits rad rad ny nx r c -> valid_disp inv disp mask r c = Some v ->
  exists m, fst (median_filter_disparity inv B (2 * rad + 1) ny nx disp mask) r c = Some m /\
    exists a b, In a (win_vals (valid_disp inv disp mask) rad rad r c) /\
                In b (win_vals (valid_disp inv disp mask) rad rad r c) /\
                (forall x, In x (win_vals (valid_disp inv disp mask) rad rad r c) -> (a <= x <= b)%Q) /\
                (a <= m <= b)%Q.
Proof. exact median_between_min_max. Qed.

(* independent of the processing blocks: any two block sizes, every pixel, no guard *)
Theorem C10_median_block_independent : forall inv B B' rad ny nx disp mask r c,
  1 <= B -> 1 <= B' -> 0 <= rad ->
  fst (median_filter_disparity inv B (2 * rad + 1) ny nx disp mask) r c
  = fst (median_filter_disparity inv B' (2 * rad + 1) ny nx disp mask) r c.
Proof. exact median_block_independent. Qed.

(* in-range side condition: the result on the image depends on the pixels of the image only
   (the total functions of the model are never read outside [0,ny) x [0,nx)) *)
Theorem C10_median_reads_image_only : forall inv B rad ny nx disp disp' mask mask', 1 <= B -> 0 <= rad ->
  (forall r c, 0 <= r < ny -> 0 <= c < nx -> disp r c = disp' r c /\ mask r c = mask' r c) ->
  forall r c, 0 <= r < ny -> 0 <= c < nx ->
  fst (median_filter_disparity inv B (2 * rad + 1) ny nx disp mask) r c
  = fst (median_filter_disparity inv B (2 * rad + 1) ny nx disp' mask') r c.
Proof. exact median_reads_image_only. Qed.

(* the array-level median_filter (what median_for_intervals and cbca call) on a map whose NaN
   are the invalid pixels *)
Theorem C10_median_filter_map_spec : forall B rad ny nx data, 1 <= B -> 0 <= rad ->
  forall r c,
    (data r c = None -> median_filter B (2 * rad + 1) ny nx data r c = None) /\
    (~ fits rad rad ny nx r c -> median_filter B (2 * rad + 1) ny nx data r c = data r c) /\
    (fits rad rad ny nx r c -> forall v, data r c = Some v ->
       exists m, median_filter B (2 * rad + 1) ny nx data r c = Some m /\
                 is_median m (win_vals data rad rad r c)).
Proof. exact median_filter_map_spec. Qed.

(* ================================================================== bilateral *)

(* window width min(ny, nx, int(3 sigma_space + 1)): never empty for sigma_space >= 0, never
   larger than the image; it reaches lo = win/2 pixels up/left and hi = win-1-lo down/right
   (hi = lo for an odd width; hi = lo - 1 for an even width, as the code centres an even
   window on index win/2) *)
Theorem C10_bilateral_window : forall ny nx sigma, 1 <= ny -> 1 <= nx -> (0 <= sigma)%Q ->
  let win := win_width ny nx sigma in
  let lo := win / 2 in let hi := win - 1 - lo in
  1 <= win /\ win <= ny /\ win <= nx /\ 0 <= lo /\ 0 <= hi /\ lo + hi + 1 = win /\
  (win mod 2 = 1 -> hi = lo) /\ (win mod 2 = 0 -> hi = lo - 1).
Proof.
  intros ny nx sigma Hy Hx Hs win lo hi.
  pose proof (win_width_pos ny nx sigma Hy Hx Hs) as Hw.
  destruct (win_width_le ny nx sigma). destruct (window_reach win Hw) as (? & ? & ? & ? & ?).
  repeat split; assumption.
Qed.

(* For every map, mask, size, sigma_space, block size B >= 1 and every weight kernel that is
   nowhere negative and weighs a pixel on itself (spatial kernel [sk] indexed from the window
   corner as in the code, range kernel [rk]):
     - mask unchanged; invalid (or NaN) pixels unchanged; pixels whose window does not fit in
       the image unchanged;
     - every other valid pixel becomes the weighted mean  sum(w v) / sum(w)  over the valid
       pixels of its window, w = spatial(displacement) * range(v - own value), sum(w) > 0. *)
Theorem C10_bilateral_eq_weighted_mean : forall inv B ny nx sigma sk rk disp mask, 1 <= B ->
  let win := win_width ny nx sigma in
  let lo := win / 2 in
  let hi := win - 1 - lo in
  1 <= win -> kernel_ok (sp_of sk lo) rk lo hi ->
  let out := bilateral_filter_disparity inv B ny nx sigma sk rk disp mask in
  (forall r c, snd out r c = mask r c) /\
  (forall r c, valid_disp inv disp mask r c = None -> fst out r c = disp r c) /\
  (forall r c, ~ fits lo hi ny nx r c -> fst out r c = disp r c) /\
  (forall r c, fits lo hi ny nx r c -> forall cv, valid_disp inv disp mask r c = Some cv ->
     exists m, fst out r c = Some m /\
               is_wmean m (win_terms (sp_of sk lo) rk (valid_disp inv disp mask) lo hi r c cv)).
Proof. exact bilateral_eq_spec. Qed.

(* the statement of the property text: EVERY strictly positive kernel, at the block size and
   invalid-bits constant of the code under test *)
Theorem C10_bilateral_eq_weighted_mean_positive_kernel_at_code_constants :
  forall ny nx sigma sk rk disp mask,
  let win := win_width ny nx sigma in
  let lo := win / 2 in
  let hi := win - 1 - lo in
  1 <= win -> kernel_pos (sp_of sk lo) rk lo hi ->
  let out := bilateral_filter_disparity msk_pixel_invalid bilateral_block ny nx sigma sk rk disp mask in
  bilateral_step_spec msk_pixel_invalid lo hi ny nx (sp_of sk lo) rk disp mask (fst out) (snd out).
Proof. intros. apply bilateral_eq_spec_pos; [exact (proj2 C10_block_sizes_wf) | assumption | assumption]. Qed.

(* convexity in Q: between the smallest and the largest valid disparity of the window *)
Theorem C10_bilateral_between_min_max : forall inv B ny nx sigma sk rk disp mask r c cv, 1 <= B ->
  let win := win_width ny nx sigma in
  let lo := win / 2 in
  let hi := win - 1 - lo in
  1 <= win -> kernel_ok (sp_of sk lo) rk lo hi ->
  fits lo hi ny nx r c -> valid_disp inv disp mask r c = Some cv ->
  exists m, fst (bilateral_filter_disparity inv B ny nx sigma sk rk disp mask) r c = Some m /\
    exists a b, In a (win_vals (valid_disp inv disp mask) lo hi r c) /\
                In b (win_vals (valid_disp inv disp mask) lo hi r c) /\
                (forall x, In x (win_vals (valid_disp inv disp mask) lo hi r c) -> (a <= x <= b)%Q) /\
                (a <= m <= b)%Q.
Proof. exact bilateral_between_min_max. Qed.

Theorem C10_bilateral_block_independent : forall inv B B' ny nx sigma sk rk disp mask r c,
  1 <= B -> 1 <= B' -> 1 <= win_width ny nx sigma ->
  fst (bilateral_filter_disparity inv B ny nx sigma sk rk disp mask) r c
  = fst (bilateral_filter_disparity inv B' ny nx sigma sk rk disp mask) r c.
Proof. exact bilateral_block_independent. Qed.

Theorem C10_bilateral_reads_image_only : forall inv B ny nx sigma sk rk disp disp' mask mask', 1 <= B ->
  1 <= win_width ny nx sigma ->
  (forall r c, 0 <= r < ny -> 0 <= c < nx -> disp r c = disp' r c /\ mask r c = mask' r c) ->
  forall r c, 0 <= r < ny -> 0 <= c < nx ->
  fst (bilateral_filter_disparity inv B ny nx sigma sk rk disp mask) r c
  = fst (bilateral_filter_disparity inv B ny nx sigma sk rk disp' mask') r c.
Proof. exact bilateral_reads_image_only. Qed.

(* ================================================================== median_for_intervals *)

(* without regularisation: disparity map and validity mask come out as they went in; each
   interval-bound band gets the SAME median (median_filter, C10_median_filter_map_spec) with
   the band's own NaN as invalid pixels *)
Theorem C10_mfi_same_median_on_bands : forall bit11 B rad ny nx disp binf bsup mask, 1 <= B -> 0 <= rad ->
  let o := mfi_filter_disparity bit11 B (2 * rad + 1) ny nx None disp binf bsup mask in
  f_disp o = disp /\ f_mask o = mask /\
  median_map_spec rad ny nx binf (f_inf o) /\ median_map_spec rad ny nx bsup (f_sup o).
Proof.
  intros bit11 B rad ny nx disp binf bsup mask HB Hrad o.
  destruct (mfi_plain bit11 B (2 * rad + 1) ny nx disp binf bsup mask) as (H1 & H2 & H3 & H4).
  fold o in H1, H2, H3, H4. rewrite H3, H4.
  repeat split; try assumption; apply median_filter_map_spec; assumption.
Qed.

(* with regularisation (interval_regularization = an ARBITRARY function of the filtered bands):
   the disparity map is untouched, the regularisation receives the median-filtered bands,
   only bit 11 of the mask may change, it is never cleared, and it is raised exactly on the
   regularisation mask *)
Theorem C10_mfi_only_bit11 : forall B w ny nx oracle disp binf bsup mask,
  let o := mfi_filter_disparity msk_pixel_interval_regularized B w ny nx (Some oracle) disp binf bsup mask in
  let res := oracle (median_filter B w ny nx binf) (median_filter B w ny nx bsup) in
  f_disp o = disp /\ f_inf o = fst (fst res) /\ f_sup o = snd (fst res) /\
  forall r c,
    (forall k, k <> 11 -> Z.testbit (f_mask o r c) k = Z.testbit (mask r c) k) /\
    (Z.testbit (mask r c) 11 = true -> Z.testbit (f_mask o r c) 11 = true) /\
    f_mask o r c = (if snd res r c then Z.lor (mask r c) (2 ^ 11) else mask r c).
Proof.
  intros B w ny nx oracle disp binf bsup mask.
  destruct (mfi_regularized B w ny nx oracle disp binf bsup mask) as (H1 & H2 & H3 & H4).
  split; [exact H1|]. split; [exact H2|]. split; [exact H3|].
  intros r c. destruct (H4 r c) as [[Ha Hb] Hc]. repeat split; assumption.
Qed.

(* ================================================================== examples / regressions *)

(* Non-vacuity: a 3 x 4 map, filter size 3, one invalid pixel (flag 2) inside the window of
   (1,1), one NaN disparity: pixel (1,1) becomes the median 5/2 of {1,2,2,2,3,5,7,8} -- the mean
   of the two middle values --, pixel (1,2) the median 4 of its 7 valid values {2,2,2,4,5,8,9},
   the invalid pixel and the border are untouched; block size 1 puts every window in its own block. *)
Definition ex_disp : map2 :=
  Lib.Arr.of_rows None [[Some 1; Some 5; Some 2; Some 9];
                        [Some 7; Some 2; Some 8; None];
                        [Some 3; Some 100; Some 2; Some 4]]%Q.
Definition ex_mask : Z -> Z -> Z := Lib.Arr.of_rows 0 [[0; 0; 0; 0]; [0; 4; 0; 0]; [0; 2; 0; 0]].
Example C10_example_hyps :
  fits 1 1 3 4 1 1 /\ valid_disp msk_pixel_invalid ex_disp ex_mask 1 1 = Some 2%Q /\
  valid_disp msk_pixel_invalid ex_disp ex_mask 2 1 = None /\
  Lib.Arr.to_rows 3 4 (fst (median_filter_disparity msk_pixel_invalid 1 3 3 4 ex_disp ex_mask))
  = [[Some 1; Some 5; Some 2; Some 9];
     [Some 7; Some (5 # 2); Some 4; None];
     [Some 3; Some 100; Some 2; Some 4]]%Q.
Proof. vm_compute. repeat split; discriminate. Qed.

(* Regression of the repaired defect: as found, a 3-row map with filter size 7 made
   sliding_window raise ValueError (None); now the map comes back untouched, as the property
   demands of pixels closer to the edge than the radius. *)
Example C10_small_image_regression :
  median_filter_before 100 7 3 4 ex_disp = None /\
  Lib.Arr.to_rows 3 4 (fst (median_filter_disparity msk_pixel_invalid 100 7 3 4 ex_disp (fun _ _ => 0)))
  = Lib.Arr.to_rows 3 4 ex_disp.
Proof. vm_compute. split; reflexivity. Qed.

(* bilateral on the same map with sigma_space = 2/3 (window 3) and the constant kernel 1: the
   hypotheses of the bilateral theorems are satisfiable and pixel (1,1) becomes the plain mean
   15/4 of its 8 valid window values *)
Example C10_example_bilateral :
  win_width 3 4 (2 # 3) = 3 /\ kernel_pos (sp_of (fun _ _ => 1%Q) 1) (fun _ => 1%Q) 1 1 /\
  match fst (bilateral_filter_disparity msk_pixel_invalid 50 3 4 (2 # 3) (fun _ _ => 1%Q) (fun _ => 1%Q)
                                        ex_disp ex_mask) 1 1 with
  | Some m => (m == 15 # 4)%Q
  | None => False
  end.
Proof. split; [reflexivity|]. split; [split; intros; reflexivity | vm_compute; reflexivity]. Qed.

Print Assumptions C10_block_sizes_wf.
Print Assumptions C10_median_block_loop_skeleton.
Print Assumptions C10_bilateral_block_loop_skeleton.
Print Assumptions C10_median_model_loop_is_generated_skeleton.
Print Assumptions C10_bilateral_model_loop_is_generated_skeleton.
Print Assumptions C10_constants.
Print Assumptions C10_window_is_the_neighbourhood.
Print Assumptions C10_spec_averages_well_defined.
Print Assumptions C10_median_splits_the_values.
Print Assumptions C10_median_eq_spec.
Print Assumptions C10_median_eq_spec_at_code_constants.
Print Assumptions C10_median_between_min_max.
Print Assumptions C10_median_block_independent.
Print Assumptions C10_median_reads_image_only.
Print Assumptions C10_median_filter_map_spec.
Print Assumptions C10_bilateral_window.
Print Assumptions C10_bilateral_eq_weighted_mean.
Print Assumptions C10_bilateral_eq_weighted_mean_positive_kernel_at_code_constants.
Print Assumptions C10_bilateral_between_min_max.
Print Assumptions C10_bilateral_block_independent.
Print Assumptions C10_bilateral_reads_image_only.
Print Assumptions C10_mfi_same_median_on_bands.
Print Assumptions C10_mfi_only_bit11.
