(* C14 -- occlusion/mismatch filling touches only flagged pixels, fills from valid ones.
   Statements only; proofs are `exact <lemma>` from Proofs/InterpP.v.
   [interp m nr nc off disp mask] is the model (Model/Interp.v) of
   AbstractInterpolation(interpolated_disparity = m).interpolated_disparity of the tree under
   test (the four numba kernels with the `fix:` commits cf902ea, 7f012f4, 2df98b7, e4c6aae in,
   find_valid_neighbors, the final mask_border of mc-cnn); [interp_before] is the model of the
   code as found.  Rows/columns: disp r c, mask r c, 0 <= r < nr, 0 <= c < nc; None = NaN.
   The Spec (Spec/Interp.v) is relational and pixel-wise; all theorems hold for every size,
   every map, every mask.

   Tie to the source (T-gen, second half of this file): Gen/InterpKernels.v is regenerated on every run
   from the Python source of the four kernels, of find_valid_neighbors and of the two
   interpolated_disparity methods (translator/gen_interp_kernels.py, Python ast, fail closed; constructs
   interpreted by Model/InterpPrims.v).  C14_gen_occ_mc_eq, C14_gen_mis_mc_eq, C14_gen_fvn_eq,
   C14_gen_occ_sgm_eq, C14_gen_mis_sgm_eq, C14_gen_plans are the per-run obligations "what the code says
   now computes, on every pixel of every map, what the model computes"; the C14_gen_* theorems after them
   restate the headline theorems on [ginterp] = the generated pixel bodies run by the generated call
   plans (Model/InterpGen.v). *)
From Coq Require Import List Bool ZArith QArith Qabs Lia.
From Pandora Require Import Model.CrossCheck Spec.CrossCheck Proofs.CrossCheckP
     Model.Interp Spec.Interp Proofs.InterpP Gen.ValConst Model.Mirror Gen.Callbacks
     Lib.FloatQ Model.InterpPrims Model.InterpGen Proofs.InterpGenP.
Import ListNotations.
Open Scope Z_scope.

(* Per-run obligations: the constants of the regenerated Gen/ValConst.v (pandora/constants.py)
   are the ones the model and the proofs use ... *)
Theorem C14_constants_match :
  [PANDORA_MSK_PIXEL_INVALID; PANDORA_MSK_PIXEL_LEFT_NODATA_OR_BORDER; PANDORA_MSK_PIXEL_OCCLUSION;
   PANDORA_MSK_PIXEL_MISMATCH; PANDORA_MSK_PIXEL_FILLED_OCCLUSION; PANDORA_MSK_PIXEL_FILLED_MISMATCH]
  = [MSK_INVALID; MSK_BORDER; MSK_OCCLUSION; MSK_MISMATCH; MSK_FILLED_OCCLUSION; MSK_FILLED_MISMATCH].
Proof. reflexivity. Qed.

(* ... and the regenerated call structure of PandoraMachine.validation_run (Gen/Callbacks.v,
   by ast from state_machine.py) is the one [validation_interp_run] models: cross-check of the
   left map, then under the right_disp_map guard cross-check of the right map against the
   checked left one and, when interpolated_disparity is configured, interpolation of the left
   and of the right dataset, each from its own dataset only. *)
Theorem C14_validation_run_calls :
  gen_callback CbVal =
  [ mkSeg [ mkCall FCrossCheck [Ldisp; Rdisp] [Ldisp] ]
          [ mkCall FCrossCheck [Rdisp; Ldisp] [Rdisp]; mkCall FCfgCond [] [];
            mkCall FInterpolate [Ldisp] []; mkCall FInterpolate [Rdisp] [] ]
          true ].
Proof. reflexivity. Qed.

(* the flag tests of the kernels are the bit tests of the Spec *)
Theorem C14_flag_tests : forall v,
  has v MSK_OCCLUSION = Z.testbit v 8 /\ has v MSK_MISMATCH = Z.testbit v 9 /\ okpix v = spec_valid v.
Proof. intro v. split. apply has_occ. split. apply has_mis. apply okpix_spec. Qed.

(* ---------------------------------------------------------------- model meets Spec *)

(* mc-cnn, any map: occlusions take the first valid pixel to the left (else to the right) of
   their row, then mismatches the median of the first valid pixels of the 16 half-step
   directions (filled occlusions count as valid), a pixel with nothing valid in sight is left
   exactly as it was, flags swap 8->4 / 9->5 bit for bit, border re-marked when offset > 0 *)
Theorem C14_mc_cnn_meets_spec : forall nr nc off disp mask,
  mc_cnn_spec nr nc off disp mask (fst (interp McCnn nr nc off disp mask)) (snd (interp McCnn nr nc off disp mask)).
Proof. exact interp_mc_meets_spec. Qed.

(* sgm, any map on which no pixel carries both bit 8 and bit 9 (C07_xcheck_never_both and
   C14_never_both_preserved): mismatches touching an occlusion become occlusions (9 -> 8),
   the others take the median of the first valid pixels of 8 directions; then occlusions take
   the second lowest |d| of the first valid pixels of 8 directions when at least two exist *)
Theorem C14_sgm_meets_spec : forall nr nc off disp mask, never_both nr nc mask ->
  sgm_spec nr nc disp mask (fst (interp Sgm nr nc off disp mask)) (snd (interp Sgm nr nc off disp mask)).
Proof. exact interp_sgm_meets_spec. Qed.

(* the arithmetic of the kernels (v -= bit; v |= filled bit / v += bit) is a pure bit swap
   under the invariant "the bit removed is set" (and, for +=, "the bit added is clear") *)
Theorem C14_flag_arithmetic : forall v,
  (Z.testbit v 8 = true -> swapped 8 4 v (Z.lor (v - MSK_OCCLUSION) MSK_FILLED_OCCLUSION)) /\
  (Z.testbit v 9 = true -> swapped 9 5 v (Z.lor (v - MSK_MISMATCH) MSK_FILLED_MISMATCH)) /\
  (Z.testbit v 9 = true -> Z.testbit v 8 = false -> swapped 9 8 v (v - MSK_MISMATCH + MSK_OCCLUSION)).
Proof.
  intro v. split. exact (swap_occ' v). split. exact (swap_mis v). exact (swap_mis_occ v).
Qed.

(* np.nanmedian / argsort(|.|)[1] as modelled (insertion sort) are the median and the second
   lowest absolute value of the finite entries *)
Theorem C14_nanmedian_is_median : forall l, finite l <> [] ->
  exists m, nanmedian l = Some m /\ is_median (finite l) m.
Proof. exact nanmedian_is_median. Qed.

Theorem C14_second_lowest : forall nb,
  match second_lowest_abs nb with
  | Some x => (2 <= length (finite nb))%nat /\ is_second_lowest_abs (finite nb) x
  | None => (length (finite nb) < 2)%nat
  end.
Proof. exact second_lowest_spec. Qed.

(* ---------------------------------------------------------------- the clauses of the property *)
Section C14.
  Variable m : method.                    (* mc-cnn or sgm *)
  Variables nr nc off : Z.                (* shape, attrs["offset_row_col"] *)
  Variable disp : Z -> Z -> option Q.
  Variable mask : Z -> Z -> Z.
  Hypothesis NB : never_both nr nc mask.  (* as left by the cross-check *)

  Local Notation disp' := (fst (interp m nr nc off disp mask)).
  Local Notation mask' := (snd (interp m nr nc off disp mask)).

  (* only pixels flagged 8 or 9 can change: every other pixel keeps its disparity and its
     flags bit for bit (a border pixel re-marked by mc-cnn's mask_border ends with 1, which is
     what it held after the cross-check: C14_after_cross_check) *)
  Theorem C14_only_flagged_change : forall r c, 0 <= r < nr -> 0 <= c < nc ->
    flagged (mask r c) = false ->
    disp' r c = disp r c /\ mask' r c = if remarked_by m nr nc off r c then 1 else mask r c.
  Proof. exact (interp_only_flagged_change m nr nc off disp mask NB). Qed.

  (* a flagged pixel: untouched (mask and disparity), or bit 8 replaced by 4 / bit 9 by 5;
     sgm may turn a mismatch into an occlusion (9 -> 8, disparity untouched) and then fill it
     (9 -> 4 overall).  [swapped a b] fixes every other bit. *)
  Theorem C14_flag_swap : forall r c, 0 <= r < nr -> 0 <= c < nc -> remarked_by m nr nc off r c = false ->
    (Z.testbit (mask r c) 8 = true ->
       (mask' r c = mask r c /\ disp' r c = disp r c) \/ swapped 8 4 (mask r c) (mask' r c)) /\
    (Z.testbit (mask r c) 9 = true ->
       (mask' r c = mask r c /\ disp' r c = disp r c) \/ swapped 9 5 (mask r c) (mask' r c) \/
       (m = Sgm /\ swapped 9 8 (mask r c) (mask' r c) /\ disp' r c = disp r c) \/
       (m = Sgm /\ swapped 9 4 (mask r c) (mask' r c))).
  Proof. exact (interp_flag_swap m nr nc off disp mask NB). Qed.

  (* no bit other than 4, 5, 8, 9 of any pixel ever moves *)
  Theorem C14_other_bits_untouched : forall r c, 0 <= r < nr -> 0 <= c < nc ->
    remarked_by m nr nc off r c = false ->
    forall n, 0 <= n -> n <> 4 -> n <> 5 -> n <> 8 -> n <> 9 ->
      Z.testbit (mask' r c) n = Z.testbit (mask r c) n.
  Proof. exact (interp_other_bits m nr nc off disp mask NB). Qed.

  (* a flagged pixel is either filled (ends with neither bit 8 nor 9) or stays flagged
     invalid with its disparity untouched *)
  Theorem C14_filled_or_stays_flagged : forall r c, 0 <= r < nr -> 0 <= c < nc ->
    remarked_by m nr nc off r c = false -> flagged (mask r c) = true ->
    filled (mask r c) (mask' r c) \/ (flagged (mask' r c) = true /\ disp' r c = disp r c).
  Proof. exact (interp_filled_or_stays m nr nc off disp mask NB). Qed.

  (* a filled pixel holds a finite disparity between the smallest and the largest valid
     disparity of the map (valid pixels holding finite disparities, as C04 states) *)
  Theorem C14_filled_between_min_max_valid : forall lo hi, valid_range nr nc disp mask lo hi ->
    forall r c, 0 <= r < nr -> 0 <= c < nc -> remarked_by m nr nc off r c = false ->
    filled (mask r c) (mask' r c) -> exists q, disp' r c = Some q /\ (lo <= q <= hi)%Q.
  Proof. exact (interp_filled_range m nr nc off disp mask NB). Qed.

  (* a pixel is filled only when the map holds a valid pixel to fill it from (which pixels
     exactly -- the first valid one of the row, the first valid ones of the 8 / 16 scan
     directions -- is what the Spec met in C14_mc_cnn_meets_spec / C14_sgm_meets_spec says) *)
  Theorem C14_filled_is_from_valid : forall r c, 0 <= r < nr -> 0 <= c < nc ->
    remarked_by m nr nc off r c = false -> filled (mask r c) (mask' r c) ->
    exists r' c', 0 <= r' < nr /\ 0 <= c' < nc /\ spec_valid (mask r' c') = true.
  Proof. exact (interp_filled_needs_valid m nr nc off disp mask NB). Qed.

  (* a flagged pixel with no valid pixel in sight stays exactly as it was (flagged invalid, same
     disparity): every pixel of the map lying on one of the documented scan directions (16
     half-step directions for mc-cnn -- they include the row, 8 for sgm) is plainly invalid,
     i.e. neither valid nor an occlusion / mismatch that could itself get filled *)
  Theorem C14_nothing_in_sight_stays_flagged : forall r c, 0 <= r < nr -> 0 <= c < nc ->
    remarked_by m nr nc off r c = false ->
    match m with
    | McCnn => nothing_in_sight halfstep dirs16_rc nr nc mask r c
    | Sgm => nothing_in_sight straight dirs8_rc nr nc mask r c
    end ->
    disp' r c = disp r c /\ mask' r c = mask r c.
  Proof. exact (interp_nothing_in_sight m nr nc off disp mask NB). Qed.

  (* a map without any valid pixel: no disparity changes and no flagged pixel loses its flag
     (the per-pixel statement "nothing valid along the scan directions => untouched" is part
     of the Spec met in C14_mc_cnn_meets_spec / C14_sgm_meets_spec) *)
  Theorem C14_unfillable_stays_invalid :
    (forall r c, 0 <= r < nr -> 0 <= c < nc -> spec_valid (mask r c) = false) ->
    forall r c, 0 <= r < nr -> 0 <= c < nc ->
      disp' r c = disp r c /\
      (remarked_by m nr nc off r c = false -> flagged (mask r c) = true -> flagged (mask' r c) = true).
  Proof. exact (interp_no_valid_pixel m nr nc off disp mask NB). Qed.

  (* border: mc-cnn re-marks it (bit 0 only) when offset > 0; with either method a pixel that
     enters with bit 0 only leaves with bit 0 only *)
  Theorem C14_border_bit0 : forall r c, 0 <= r < nr -> 0 <= c < nc ->
    (m = McCnn -> 0 < off -> is_border nr nc off r c = true -> mask' r c = 1) /\
    (mask r c = 1 -> mask' r c = 1).
  Proof. exact (interp_border_bit0 m nr nc off disp mask NB). Qed.

  (* the -= / |= / += on uint16 never wrap *)
  Theorem C14_no_wrap : forall r c, 0 <= r < nr -> 0 <= c < nc ->
    0 <= mask r c < 65536 -> 0 <= mask' r c < 65536.
  Proof. exact (interp_no_wrap m nr nc off disp mask NB). Qed.

  (* the invariant "never both bits" survives the step (so it holds along repeated validation
     steps: C14_cross_check_never_both for the cross-check) *)
  Theorem C14_never_both_preserved : never_both nr nc mask'.
  Proof. exact (interp_never_both m nr nc off disp mask NB). Qed.
End C14.

(* the outputs on the map depend only on the values on the map: no theorem above rests on a
   default returned by an out-of-range read of the (total) model functions *)
Theorem C14_reads_only_the_map : forall m nr nc off disp mask disp2 mask2,
  (forall r c, 0 <= r < nr -> 0 <= c < nc -> disp r c = disp2 r c) ->
  (forall r c, 0 <= r < nr -> 0 <= c < nc -> mask r c = mask2 r c) ->
  forall r c, 0 <= r < nr -> 0 <= c < nc ->
    fst (interp m nr nc off disp mask) r c = fst (interp m nr nc off disp2 mask2) r c /\
    snd (interp m nr nc off disp mask) r c = snd (interp m nr nc off disp2 mask2) r c.
Proof. exact interp_ext. Qed.

(* ---------------------------------------------------------------- in the state machine *)

Theorem C14_cross_check_never_both : forall thr me other, ds_nc me <= 2 ^ 63 ->
  never_both (ds_nr me) (ds_nc me) (ds_mask me) ->
  never_both (ds_nr me) (ds_nc me) (ds_mask (xcheck thr me other)).
Proof. exact xcheck_never_both_all. Qed.

Theorem C14_validation_run : forall thr m L R,
  validation_interp_run thr m L R
  = (interp_ds m (xcheck thr L R), interp_ds m (xcheck thr R (xcheck thr L R))).
Proof. exact validation_interp_run_eq. Qed.

(* interpolation right after the cross-check (both datasets of C14_validation_run): border
   pixels end with bit 0 only with BOTH methods; a pixel the cross-check did not flag keeps the
   disparity it had before the validation step and the flags the cross-check gave it; masks
   stay uint16 *)
Theorem C14_after_cross_check : forall thr m me other, ds_nc me <= 2 ^ 63 ->
  never_both (ds_nr me) (ds_nc me) (ds_mask me) ->
  forall r c, in_ds me r c ->
    (0 < ds_offset me -> border_at me r c = true -> ds_mask (interp_ds m (xcheck thr me other)) r c = 1) /\
    (flagged (ds_mask (xcheck thr me other) r c) = false ->
       ds_disp (interp_ds m (xcheck thr me other)) r c = ds_disp me r c /\
       ds_mask (interp_ds m (xcheck thr me other)) r c = ds_mask (xcheck thr me other) r c) /\
    (0 <= ds_mask me r c < 65536 -> 0 <= ds_mask (interp_ds m (xcheck thr me other)) r c < 65536).
Proof. exact interp_after_xcheck. Qed.

(* ================================================================== the kernels regenerated from the source
   G.occ_mc_pixel, G.mis_mc_pixel, G.occ_sgm_pixel, G.mis_sgm_pixel: the body of the (col, row) loop nest of each
   kernel on one pixel; G.find_valid_neighbors; G.mc_cnn_plan, G.sgm_plan: the kernel calls of the two
   interpolated_disparity methods, in order, and whether mask_border follows (Gen/InterpKernels.v).
   Array indexing follows Python (negative scalar indices wrap, slice bounds are clipped: Model/InterpPrims.v). *)

(* Per-run obligations: on every pixel of the map the generated pixel body computes what the model's pixel
   function computes -- every shape, every map (NaN included), every mask. *)
Theorem C14_gen_occ_mc_eq : forall ncol nrow disp valid col row, 0 <= col < ncol -> 0 <= row < nrow ->
  G.occ_mc_pixel ncol nrow disp valid col row = occ_mc_pixel true nrow disp valid col row.
Proof. exact gen_occ_mc_eq. Qed.

Theorem C14_gen_mis_mc_eq : forall ncol nrow disp valid col row, 0 <= col < ncol -> 0 <= row < nrow ->
  G.mis_mc_pixel ncol nrow disp valid col row = mis_mc_pixel true ncol nrow disp valid col row.
Proof. exact gen_mis_mc_eq. Qed.

(* find_valid_neighbors, called with the direction table either sgm kernel defines *)
Theorem C14_gen_fvn_eq : forall ncol nrow disp valid col row, 0 <= col < ncol -> 0 <= row < nrow ->
  G.occ_sgm_pixel_dirs = dirs8 /\ G.mis_sgm_pixel_dirs = dirs8 /\
  G.find_valid_neighbors dirs8 ncol nrow disp valid row col = find_valid_neighbors ncol nrow disp valid row col.
Proof. exact gen_fvn_eq'. Qed.

Theorem C14_gen_occ_sgm_eq : forall ncol nrow disp valid col row, 0 <= col < ncol -> 0 <= row < nrow ->
  G.occ_sgm_pixel ncol nrow disp valid col row = occ_sgm_pixel true ncol nrow disp valid col row.
Proof. exact gen_occ_sgm_eq. Qed.

Theorem C14_gen_mis_sgm_eq : forall ncol nrow disp valid col row, 0 <= col < ncol -> 0 <= row < nrow ->
  G.mis_sgm_pixel ncol nrow disp valid col row = mis_sgm_pixel true ncol nrow disp valid col row.
Proof. exact gen_mis_sgm_eq. Qed.

(* mc-cnn: occlusions then mismatches then mask_border; sgm: mismatches then occlusions, no mask_border *)
Theorem C14_gen_plans : G.mc_cnn_plan = ([KOccMc; KMisMc], true) /\ G.sgm_plan = ([KMisSgm; KOccSgm], false).
Proof. exact gen_plans. Qed.

(* np.argsort(np.abs(v)) then v[...[1]], as the source of interpolate_occlusion_sgm writes it, is the model's
   second lowest |d| (on the 8 values find_valid_neighbors returns; any list of at least two values) *)
Theorem C14_gen_argsort_second : forall l : list (option Q), (2 <= length l)%nat ->
  py_nth None l (py_nth 0 (argsort (map fabs l)) 1) = second_lowest_abs l.
Proof. exact second_of_argsort. Qed.

(* hence the method assembled from the generated plan and the generated pixel bodies is the model *)
Theorem C14_gen_interp_eq : forall m nr nc off disp mask, ginterp m nr nc off disp mask = interp m nr nc off disp mask.
Proof. exact ginterp_eq. Qed.

(* a generated pixel body leaves a pixel carrying neither bit 8 nor bit 9 exactly as it is *)
Theorem C14_gen_pixel_unflagged : forall k ncol nrow disp valid col row, 0 <= col < ncol -> 0 <= row < nrow ->
  flagged (valid col row) = false ->
  gpixel k ncol nrow disp valid col row = (disp col row, valid col row).
Proof. exact gen_pixel_unflagged. Qed.

Theorem C14_gen_mc_cnn_meets_spec : forall nr nc off disp mask,
  mc_cnn_spec nr nc off disp mask (fst (ginterp McCnn nr nc off disp mask)) (snd (ginterp McCnn nr nc off disp mask)).
Proof. exact gen_mc_meets_spec. Qed.

Theorem C14_gen_sgm_meets_spec : forall nr nc off disp mask, never_both nr nc mask ->
  sgm_spec nr nc disp mask (fst (ginterp Sgm nr nc off disp mask)) (snd (ginterp Sgm nr nc off disp mask)).
Proof. exact gen_sgm_meets_spec. Qed.

(* the clauses of the property, on the generated definitions (same statements as in Section C14) *)
Section C14_gen.
  Variable m : method.
  Variables nr nc off : Z.
  Variable disp : Z -> Z -> option Q.
  Variable mask : Z -> Z -> Z.
  Hypothesis NB : never_both nr nc mask.

  Local Notation disp' := (fst (ginterp m nr nc off disp mask)).
  Local Notation mask' := (snd (ginterp m nr nc off disp mask)).

  Theorem C14_gen_only_flagged_change : forall r c, 0 <= r < nr -> 0 <= c < nc ->
    flagged (mask r c) = false ->
    disp' r c = disp r c /\ mask' r c = if remarked_by m nr nc off r c then 1 else mask r c.
  Proof. exact (gen_only_flagged_change m nr nc off disp mask NB). Qed.

  Theorem C14_gen_flag_swap : forall r c, 0 <= r < nr -> 0 <= c < nc -> remarked_by m nr nc off r c = false ->
    (Z.testbit (mask r c) 8 = true ->
       (mask' r c = mask r c /\ disp' r c = disp r c) \/ swapped 8 4 (mask r c) (mask' r c)) /\
    (Z.testbit (mask r c) 9 = true ->
       (mask' r c = mask r c /\ disp' r c = disp r c) \/ swapped 9 5 (mask r c) (mask' r c) \/
       (m = Sgm /\ swapped 9 8 (mask r c) (mask' r c) /\ disp' r c = disp r c) \/
       (m = Sgm /\ swapped 9 4 (mask r c) (mask' r c))).
  Proof. exact (gen_flag_swap m nr nc off disp mask NB). Qed.

  Theorem C14_gen_other_bits_untouched : forall r c, 0 <= r < nr -> 0 <= c < nc ->
    remarked_by m nr nc off r c = false ->
    forall n, 0 <= n -> n <> 4 -> n <> 5 -> n <> 8 -> n <> 9 ->
      Z.testbit (mask' r c) n = Z.testbit (mask r c) n.
  Proof. exact (gen_other_bits m nr nc off disp mask NB). Qed.

  Theorem C14_gen_filled_or_stays_flagged : forall r c, 0 <= r < nr -> 0 <= c < nc ->
    remarked_by m nr nc off r c = false -> flagged (mask r c) = true ->
    filled (mask r c) (mask' r c) \/ (flagged (mask' r c) = true /\ disp' r c = disp r c).
  Proof. exact (gen_filled_or_stays m nr nc off disp mask NB). Qed.

  Theorem C14_gen_filled_between_min_max_valid : forall lo hi, valid_range nr nc disp mask lo hi ->
    forall r c, 0 <= r < nr -> 0 <= c < nc -> remarked_by m nr nc off r c = false ->
    filled (mask r c) (mask' r c) -> exists q, disp' r c = Some q /\ (lo <= q <= hi)%Q.
  Proof. exact (gen_filled_range m nr nc off disp mask NB). Qed.

  Theorem C14_gen_filled_is_from_valid : forall r c, 0 <= r < nr -> 0 <= c < nc ->
    remarked_by m nr nc off r c = false -> filled (mask r c) (mask' r c) ->
    exists r' c', 0 <= r' < nr /\ 0 <= c' < nc /\ spec_valid (mask r' c') = true.
  Proof. exact (gen_filled_needs_valid m nr nc off disp mask NB). Qed.

  Theorem C14_gen_nothing_in_sight_stays_flagged : forall r c, 0 <= r < nr -> 0 <= c < nc ->
    remarked_by m nr nc off r c = false ->
    match m with
    | McCnn => nothing_in_sight halfstep dirs16_rc nr nc mask r c
    | Sgm => nothing_in_sight straight dirs8_rc nr nc mask r c
    end ->
    disp' r c = disp r c /\ mask' r c = mask r c.
  Proof. exact (gen_nothing_in_sight m nr nc off disp mask NB). Qed.

  Theorem C14_gen_unfillable_stays_invalid :
    (forall r c, 0 <= r < nr -> 0 <= c < nc -> spec_valid (mask r c) = false) ->
    forall r c, 0 <= r < nr -> 0 <= c < nc ->
      disp' r c = disp r c /\
      (remarked_by m nr nc off r c = false -> flagged (mask r c) = true -> flagged (mask' r c) = true).
  Proof. exact (gen_no_valid_pixel m nr nc off disp mask NB). Qed.

  Theorem C14_gen_border_bit0 : forall r c, 0 <= r < nr -> 0 <= c < nc ->
    (m = McCnn -> 0 < off -> is_border nr nc off r c = true -> mask' r c = 1) /\
    (mask r c = 1 -> mask' r c = 1).
  Proof. exact (gen_border_bit0 m nr nc off disp mask NB). Qed.

  Theorem C14_gen_no_wrap : forall r c, 0 <= r < nr -> 0 <= c < nc ->
    0 <= mask r c < 65536 -> 0 <= mask' r c < 65536.
  Proof. exact (gen_no_wrap m nr nc off disp mask NB). Qed.

  Theorem C14_gen_never_both_preserved : never_both nr nc mask'.
  Proof. exact (gen_never_both m nr nc off disp mask NB). Qed.
End C14_gen.

(* ---------------------------------------------------------------- witnesses *)

Definition grid {A} (d : A) (rows : list (list A)) : Z -> Z -> A :=
  fun r c => if (r <? 0) || (c <? 0) then d else nth (Z.to_nat c) (nth (Z.to_nat r) rows []) d.
Definition q (z : Z) : option Q := Some (inject_Z z).
Definition show {A} (nr nc : Z) (f : Z -> Z -> A) : list (list A) :=
  map (fun r => map (fun c => f r c) (zrange 0 nc)) (zrange 0 nr).

(* Non-vacuity: a 3x5 map with an occlusion at (1,1) and a mismatch at (1,2) that touches it,
   an invalid pixel, informational bits; the hypotheses of the theorems hold (never_both,
   valid_range with lo = 1, hi = 5) and both methods fill both pixels. *)
Definition ex_disp := grid None [[q 1; q 2; q 3; q 4; q 5]; [q 1; None; q 7; q 4; q 2]; [q 3; q 3; q 3; q 3; q 3]].
Definition ex_mask := grid 0 [[0; 0; 0; 0; 0]; [0; 256; 512; 0; 0]; [0; 2; 0; 0; 4]].

Example C14_example_hyps : never_both 3 5 ex_mask /\ valid_range 3 5 ex_disp ex_mask 1 5.
Proof.
  split.
  - intros r c Hr Hc.
    assert (Er : r = 0 \/ r = 1 \/ r = 2) by lia. assert (Ec : c = 0 \/ c = 1 \/ c = 2 \/ c = 3 \/ c = 4) by lia.
    destruct Er as [->|[->| ->]]; destruct Ec as [->|[->|[->|[->| ->]]]]; reflexivity.
  - intros r c Hr Hc Hv.
    assert (Er : r = 0 \/ r = 1 \/ r = 2) by lia. assert (Ec : c = 0 \/ c = 1 \/ c = 2 \/ c = 3 \/ c = 4) by lia.
    destruct Er as [->|[->| ->]]; destruct Ec as [->|[->|[->|[->| ->]]]];
      try (vm_compute in Hv; discriminate Hv);
      (eexists; split; [reflexivity | split; vm_compute; discriminate]).
Qed.

Example C14_example_outputs :
  show 3 5 (fst (interp McCnn 3 5 0 ex_disp ex_mask))
    = [[q 1; q 2; q 3; q 4; q 5]; [q 1; q 1; q 3; q 4; q 2]; [q 3; q 3; q 3; q 3; q 3]] /\
  show 3 5 (snd (interp McCnn 3 5 0 ex_disp ex_mask)) = [[0; 0; 0; 0; 0]; [0; 16; 32; 0; 0]; [0; 2; 0; 0; 4]] /\
  show 3 5 (fst (interp Sgm 3 5 0 ex_disp ex_mask))
    = [[q 1; q 2; q 3; q 4; q 5]; [q 1; q 1; q 2; q 4; q 2]; [q 3; q 3; q 3; q 3; q 3]] /\
  show 3 5 (snd (interp Sgm 3 5 0 ex_disp ex_mask)) = [[0; 0; 0; 0; 0]; [0; 16; 16; 0; 0]; [0; 2; 0; 0; 4]] /\
  show 3 5 (snd (interp McCnn 3 5 1 ex_disp ex_mask)) = [[1; 1; 1; 1; 1]; [1; 16; 32; 0; 1]; [1; 1; 1; 1; 1]].
Proof. vm_compute. repeat split. Qed.

(* the generated pixel bodies, run by the generated plans, on the same map *)
Example C14_gen_example_outputs :
  show 3 5 (fst (ginterp McCnn 3 5 0 ex_disp ex_mask))
    = [[q 1; q 2; q 3; q 4; q 5]; [q 1; q 1; q 3; q 4; q 2]; [q 3; q 3; q 3; q 3; q 3]] /\
  show 3 5 (snd (ginterp McCnn 3 5 0 ex_disp ex_mask)) = [[0; 0; 0; 0; 0]; [0; 16; 32; 0; 0]; [0; 2; 0; 0; 4]] /\
  show 3 5 (fst (ginterp Sgm 3 5 0 ex_disp ex_mask))
    = [[q 1; q 2; q 3; q 4; q 5]; [q 1; q 1; q 2; q 4; q 2]; [q 3; q 3; q 3; q 3; q 3]] /\
  show 3 5 (snd (ginterp Sgm 3 5 0 ex_disp ex_mask)) = [[0; 0; 0; 0; 0]; [0; 16; 16; 0; 0]; [0; 2; 0; 0; 4]] /\
  show 3 5 (snd (ginterp McCnn 3 5 1 ex_disp ex_mask)) = [[1; 1; 1; 1; 1]; [1; 16; 32; 0; 1]; [1; 1; 1; 1; 1]].
Proof. vm_compute. repeat split. Qed.

(* D5 (DESIGN.md section 4), corpus cases of the check: 3x3, centre flagged, every other pixel
   invalid.  The code as found "filled" the centre (NaN, flag 32 / 16; 0 on the 4x1 corpus case below); the repaired code
   leaves it flagged with its disparity. *)
Definition d5_disp := grid None [[q (-9999); q (-9999); q (-9999)]; [q (-9999); Some (5 # 4)%Q; q (-9999)];
                                 [q (-9999); q (-9999); q (-9999)]].
Definition d5_mask (flag : Z) := grid 0 [[2; 2; 2]; [2; flag; 2]; [2; 2; 2]].
Example C14_D5_regression :
  (fst (interp_before McCnn 3 3 0 d5_disp (d5_mask 512)) 1 1, snd (interp_before McCnn 3 3 0 d5_disp (d5_mask 512)) 1 1)
    = (None, 32) /\
  (fst (interp_before Sgm 3 3 0 d5_disp (d5_mask 512)) 1 1, snd (interp_before Sgm 3 3 0 d5_disp (d5_mask 512)) 1 1)
    = (None, 32) /\
  (fst (interp_before Sgm 3 3 0 d5_disp (d5_mask 256)) 1 1, snd (interp_before Sgm 3 3 0 d5_disp (d5_mask 256)) 1 1)
    = (None, 16) /\
  (fst (interp McCnn 3 3 0 d5_disp (d5_mask 512)) 1 1, snd (interp McCnn 3 3 0 d5_disp (d5_mask 512)) 1 1)
    = (Some (5 # 4)%Q, 512) /\
  (fst (interp Sgm 3 3 0 d5_disp (d5_mask 512)) 1 1, snd (interp Sgm 3 3 0 d5_disp (d5_mask 512)) 1 1)
    = (Some (5 # 4)%Q, 512) /\
  (fst (interp Sgm 3 3 0 d5_disp (d5_mask 256)) 1 1, snd (interp Sgm 3 3 0 d5_disp (d5_mask 256)) 1 1)
    = (Some (5 # 4)%Q, 256).
Proof. vm_compute. repeat split. Qed.

(* the hypothesis of C14_nothing_in_sight_stays_flagged holds at the centre of the D5 map *)
Ltac Zify.zify_post_hook ::= Z.to_euclidean_division_equations.   (* lia on Z.quot *)
Example C14_D5_nothing_in_sight :
  nothing_in_sight halfstep dirs16_rc 3 3 (d5_mask 512) 1 1 /\ nothing_in_sight straight dirs8_rc 3 3 (d5_mask 256) 1 1.
Proof.
  split; intros d i Hd Hi [H1 H2]; unfold dirs16_rc, dirs8_rc in Hd; cbn [In] in Hd;
    repeat (destruct Hd as [<-|Hd]; [unfold halfstep, straight in *; cbn [fst snd] in *;
      assert (i = 1) by lia; subst i; split; reflexivity|]); destruct Hd.
Qed.

(* mc-cnn mismatch as found: the zero of np.zeros left by a path that neither left the map
   nor met a valid pixel within max(nrow, ncol) - 1 steps was taken for a disparity
   (1x4 map [mismatch; invalid; invalid; invalid]: "filled" with 0); repaired: left flagged *)
Example C14_D5_zero_regression :
  (fst (interp_before McCnn 1 4 0 (grid None [[q 1; q (-9999); q (-9999); q (-9999)]]) (grid 0 [[512; 2; 2; 2]])) 0 0,
   snd (interp_before McCnn 1 4 0 (grid None [[q 1; q (-9999); q (-9999); q (-9999)]]) (grid 0 [[512; 2; 2; 2]])) 0 0)
    = (Some 0%Q, 32) /\
  (fst (interp McCnn 1 4 0 (grid None [[q 1; q (-9999); q (-9999); q (-9999)]]) (grid 0 [[512; 2; 2; 2]])) 0 0,
   snd (interp McCnn 1 4 0 (grid None [[q 1; q (-9999); q (-9999); q (-9999)]]) (grid 0 [[512; 2; 2; 2]])) 0 0)
    = (q 1, 512).
Proof. vm_compute. split; reflexivity. Qed.

(* refill (fix e4c6aae): a pixel already carrying bit 4 that is flagged occlusion again *)
Example C14_refill_regression :
  snd (interp_before McCnn 1 3 0 (grid None [[q 1; q 2; q 3]]) (grid 0 [[0; 272; 0]])) 0 1 = 32 /\
  snd (interp McCnn 1 3 0 (grid None [[q 1; q 2; q 3]]) (grid 0 [[0; 272; 0]])) 0 1 = 16.
Proof. vm_compute. split; reflexivity. Qed.

(* why never_both is a hypothesis of the sgm theorems: on a pixel carrying both bits (never
   produced by the cross-check) `-= 512; += 256` carries into bit 9: 768 -> 512, bit 8 is lost
   although the Spec says 9 -> 8.  Outside the property's quantifier (masks after cross-checking). *)
Example C14_sgm_both_bits_carry :
  snd (interp Sgm 1 1 0 (grid None [[q 1]]) (grid 0 [[768]])) 0 0 = 512 /\
  ~ swapped 9 8 768 512.
Proof.
  split. vm_compute. reflexivity.
  intro H. specialize (H 8 ltac:(lia)). vm_compute in H. discriminate H.
Qed.

Print Assumptions C14_constants_match.
Print Assumptions C14_validation_run_calls.
Print Assumptions C14_flag_tests.
Print Assumptions C14_mc_cnn_meets_spec.
Print Assumptions C14_sgm_meets_spec.
Print Assumptions C14_flag_arithmetic.
Print Assumptions C14_nanmedian_is_median.
Print Assumptions C14_second_lowest.
Print Assumptions C14_only_flagged_change.
Print Assumptions C14_flag_swap.
Print Assumptions C14_other_bits_untouched.
Print Assumptions C14_filled_or_stays_flagged.
Print Assumptions C14_filled_between_min_max_valid.
Print Assumptions C14_filled_is_from_valid.
Print Assumptions C14_nothing_in_sight_stays_flagged.
Print Assumptions C14_unfillable_stays_invalid.
Print Assumptions C14_border_bit0.
Print Assumptions C14_no_wrap.
Print Assumptions C14_never_both_preserved.
Print Assumptions C14_reads_only_the_map.
Print Assumptions C14_cross_check_never_both.
Print Assumptions C14_validation_run.
Print Assumptions C14_after_cross_check.
Print Assumptions C14_gen_occ_mc_eq.
Print Assumptions C14_gen_mis_mc_eq.
Print Assumptions C14_gen_fvn_eq.
Print Assumptions C14_gen_occ_sgm_eq.
Print Assumptions C14_gen_mis_sgm_eq.
Print Assumptions C14_gen_plans.
Print Assumptions C14_gen_argsort_second.
Print Assumptions C14_gen_interp_eq.
Print Assumptions C14_gen_pixel_unflagged.
Print Assumptions C14_gen_mc_cnn_meets_spec.
Print Assumptions C14_gen_sgm_meets_spec.
Print Assumptions C14_gen_only_flagged_change.
Print Assumptions C14_gen_flag_swap.
Print Assumptions C14_gen_other_bits_untouched.
Print Assumptions C14_gen_filled_or_stays_flagged.
Print Assumptions C14_gen_filled_between_min_max_valid.
Print Assumptions C14_gen_filled_is_from_valid.
Print Assumptions C14_gen_nothing_in_sight_stays_flagged.
Print Assumptions C14_gen_unfillable_stays_invalid.
Print Assumptions C14_gen_border_bit0.
Print Assumptions C14_gen_no_wrap.
Print Assumptions C14_gen_never_both_preserved.
