(* C14 -- occlusion/mismatch filling touches only flagged pixels, fills from valid ones. *)
From Coq Require Import List Bool ZArith QArith.
From Pandora Require Import Model.CrossCheck Model.Interp Gen.ValConst.
Import ListNotations.

Theorem C14_constants_match :
  [PANDORA_MSK_PIXEL_INVALID; PANDORA_MSK_PIXEL_LEFT_NODATA_OR_BORDER; PANDORA_MSK_PIXEL_OCCLUSION;
   PANDORA_MSK_PIXEL_MISMATCH; PANDORA_MSK_PIXEL_FILLED_OCCLUSION; PANDORA_MSK_PIXEL_FILLED_MISMATCH]
  = [MSK_INVALID; MSK_BORDER; MSK_OCCLUSION; MSK_MISMATCH; MSK_FILLED_OCCLUSION; MSK_FILLED_MISMATCH].
Proof. reflexivity. Qed.

Print Assumptions C14_constants_match.
