(* C06 -- Refinement moves a disparity by at most half a sample, never for the worse.
   Statements only; every proof is `exact <lemma>` from Proofs/RefineP.v.
   Model: Model/Refine.v (mirrors pandora/refinement/{refinement,vfit,quadratic}.py);
   Spec: Spec/Refine.v (written from the property text and the user guide). *)
From Coq Require Import ZArith QArith Qabs List Bool.
From Pandora Require Import Model.Refine Spec.Refine Proofs.RefineP Gen.RefineConsts.
Import ListNotations.
Open Scope Q_scope.

(* the constants regenerated from pandora/constants.py *)
Definition K : consts := mkK msk_invalid msk_stopped.

(* Per-run obligation on the regenerated constants: "stopped" is bit 3 and is not an invalid bit. *)
Theorem C06_consts_wf : consts_wf K = true.
Proof. vm_compute. reflexivity. Qed.

(* ------------------------------------------------------------------ the two fits, every triple *)

(* whatever the three costs (NaN holes included), whatever the measure: |shift| <= 1/2 *)
Theorem C06_vfit_shift_half : forall m oc0 c1 oc2 sh co fl,
  vfit K m oc0 c1 oc2 = MOk sh co fl -> Qabs sh <= 1 # 2.
Proof. exact (vfit_shift_half K). Qed.

Theorem C06_quad_shift_half : forall m oc0 c1 oc2 sh co fl,
  quadratic K m oc0 c1 oc2 = MOk sh co fl -> Qabs sh <= 1 # 2.
Proof. exact (quad_shift_half K). Qed.

(* the stored coefficient is never worse than the sample's cost (<= for min, >= for max) ... *)
Theorem C06_vfit_cost_not_worse : forall m oc0 c1 oc2 sh co fl,
  vfit K m oc0 c1 oc2 = MOk sh co fl -> not_worse (kind_of m) co c1.
Proof. exact (vfit_cost_not_worse K). Qed.

Theorem C06_quad_cost_not_worse : forall m oc0 c1 oc2 sh co fl,
  quadratic K m oc0 c1 oc2 = MOk sh co fl -> not_worse (kind_of m) co c1.
Proof. exact (quad_cost_not_worse K). Qed.

(* ... and, when the centre is an extremum of its neighbours, shift and cost are the closed forms of
   the user guide.  V-fit keeps the pixel in place (shift 0, cost c1, no flag) when the slope is
   inside the code's 1e-15 guard band. *)
Theorem C06_vfit_closed_form : forall m c0 c1 c2,
  is_extremum (kind_of m) c0 c1 c2 ->
  (eps15 <= Qabs (vfit_slope (kind_of m) c0 c1 c2) ->
     exists sh co, vfit K m (Some c0) c1 (Some c2) = MOk sh co 0
                   /\ sh == vfit_x (kind_of m) c0 c1 c2 /\ co == vfit_y (kind_of m) c0 c1 c2)
  /\ (Qabs (vfit_slope (kind_of m) c0 c1 c2) < eps15 ->
      vfit K m (Some c0) c1 (Some c2) = MOk 0 c1 0).
Proof. exact (vfit_closed_form K). Qed.

Theorem C06_quad_closed_form : forall m c0 c1 c2,
  is_extremum (kind_of m) c0 c1 c2 -> ~ quad_a c0 c1 c2 == 0 ->
  exists sh co, quadratic K m (Some c0) c1 (Some c2) = MOk sh co 0
                /\ sh == quad_x c0 c1 c2 /\ co == quad_y c0 c1 c2.
Proof. exact (quad_closed_form K). Qed.

(* the closed forms ARE the optimum of the symmetric V / of the parabola through the three points
   (a minimum for a cost, a maximum for a similarity), and that optimum is unique *)
Theorem C06_vfit_closed_form_is_optimum : forall k c0 c1 c2,
  is_extremum k c0 c1 c2 -> ~ vfit_slope k c0 c1 c2 == 0 ->
  is_vfit_optimum k c0 c1 c2 (vfit_x k c0 c1 c2) (vfit_y k c0 c1 c2).
Proof. exact vfit_closed_form_is_optimum. Qed.

Theorem C06_vfit_optimum_unique : forall k c0 c1 c2 x y,
  is_vfit_optimum k c0 c1 c2 x y -> x == vfit_x k c0 c1 c2 /\ y == vfit_y k c0 c1 c2.
Proof. exact vfit_optimum_unique. Qed.

Theorem C06_vfit_apex_optimal : forall k p x y t,
  match k with Cost => 0 < p | Similarity => p < 0 end -> not_worse k y (V p x y t).
Proof. exact V_apex_optimal. Qed.

Theorem C06_quad_closed_form_is_optimum : forall k c0 c1 c2,
  is_extremum k c0 c1 c2 -> ~ quad_a c0 c1 c2 == 0 ->
  is_parabola_optimum k c0 c1 c2 (quad_x c0 c1 c2) (quad_y c0 c1 c2).
Proof. exact quad_closed_form_is_optimum. Qed.

Theorem C06_parabola_optimum_unique : forall k c0 c1 c2 x y,
  ~ quad_a c0 c1 c2 == 0 ->
  is_parabola_optimum k c0 c1 c2 x y -> x == quad_x c0 c1 c2 /\ y == quad_y c0 c1 c2.
Proof. exact parabola_optimum_unique. Qed.

(* Non-vacuity: the first pixel of tests/test_refinement.py (costs 32.5, 28, 34.5, sad). *)
Example C06_example_fits :
  is_extremum Cost (65 # 2) 28 (69 # 2)
  /\ (exists sh co, vfit K MMin (Some (65 # 2)) 28 (Some (69 # 2)) = MOk sh co 0
                    /\ Qred sh = -2 # 13 /\ Qred co = 27)
  /\ (exists sh co, quadratic K MMin (Some (65 # 2)) 28 (Some (69 # 2)) = MOk sh co 0
                    /\ Qred sh = -1 # 11 /\ Qred co = 615 # 22).
Proof.
  split; [split; unfold not_worse; discriminate|].
  split; eexists; eexists; (split; [reflexivity|split; reflexivity]).
Qed.

Print Assumptions C06_consts_wf.
Print Assumptions C06_vfit_shift_half.
Print Assumptions C06_quad_shift_half.
Print Assumptions C06_vfit_cost_not_worse.
Print Assumptions C06_quad_cost_not_worse.
Print Assumptions C06_vfit_closed_form.
Print Assumptions C06_quad_closed_form.
Print Assumptions C06_vfit_closed_form_is_optimum.
Print Assumptions C06_vfit_optimum_unique.
Print Assumptions C06_vfit_apex_optimal.
Print Assumptions C06_quad_closed_form_is_optimum.
Print Assumptions C06_parabola_optimum_unique.
