(* C06 -- Refinement moves a disparity by at most half a sample, never for the worse.
   Statements only; every proof is `exact <lemma>` from Proofs/RefineP.v. *)
From Coq Require Import ZArith QArith List Bool.
From Pandora Require Import Model.Refine Gen.RefineConsts.
Import ListNotations.

(* the constants regenerated from pandora/constants.py *)
Definition K : consts := mkK msk_invalid msk_stopped.

(* Per-run obligation on the regenerated constants. *)
Theorem C06_consts_wf : consts_wf K = true.
Proof. vm_compute. reflexivity. Qed.

Print Assumptions C06_consts_wf.
