(* C06 -- Refinement moves a disparity by at most half a sample, never for the worse.
   Statements only; every proof is `exact <lemma>` from Proofs/RefineP.v.
   Model: Model/Refine.v (mirrors pandora/refinement/{refinement,vfit,quadratic}.py of the tree under
   test, i.e. WITH the three `fix:` commits of this property: `mask |= valid`, the |alpha| < 1e-15
   guard of quadratic, the whole-sample room test of loop_refinement);
   Spec: Spec/Refine.v (written from the property text and the user guide).
   The witnesses of the three defects, on the models of the code as found, are the regression
   Examples D3_before/after, D4_before/after, D13_before/after_dmin/dmax at the end of Proofs/RefineP.v.

   How the clauses of the property map to the theorems (per pixel, hence for every image size):
   * "differs from the disparity it received by at most half a sample", "stays inside the interval",
     "coefficient never worse than the sample's cost"            : C06_pixel_props
   * "equals the V-fit / parabola optimum of the three costs"    : C06_pixel_bit3_iff (second half: the
     shift and cost are those of run_method on the three costs) + C06_vfit_closed_form,
     C06_quad_closed_form (they are the closed forms) + C06_*_is_optimum, C06_*_unique
   * "pixels flagged invalid are left untouched"                 : C06_pixel_invalid_untouched
   * "left where it was, with bit 3 raised, exactly when ..."    : C06_pixel_bit3_iff
   * "stays inside the PIXEL's interval" (per-pixel grids, sample received): C06_pixel_moved_costed
   * "no other bit changes"                                      : C06_pixel_other_bits (any input),
     C06_steps_total_and_flags (any number of steps)
   * "the step is total"                                         : C06_vfit_total, C06_quad_total,
     C06_pixel_total, C06_steps_total_and_flags.
   Tie to the source (T-gen, second half of this file): Gen/RefineKernels.v is regenerated on every run
   from the Python text of Vfit.refinement_method, Quadratic.refinement_method and of the pixel body of
   AbstractRefinement.loop_refinement (translator/gen_refine_kernels.py, float semantics Lib/FloatQ.v).
   C06_gen_vfit_eq, C06_gen_quadratic_eq, C06_gen_pixel_eq are the per-run obligations "what the code
   says now computes what the model computes, for all inputs"; the C06_gen_* theorems after them restate
   the headline theorems on the generated definitions (G.vfit, G.quadratic, gstep = G.loop_pixel called
   with the generated method).
   "Reachable by a legal pipeline" is over-approximated by the invariant [pixel_ok]: one cost per
   sample of [dmin,dmax], and a VALID pixel carries a number of [dmin,dmax] -- any rational, on or off
   the sampling grid (winner-takes-all sample, filtered, interpolated, already refined). *)
From Coq Require Import ZArith QArith Qabs List Bool.
From Pandora Require Import Lib.FloatQ Model.Refine Model.RefineGen Spec.Refine Proofs.RefineP Proofs.RefineGenP
     Gen.RefineConsts.
Import ListNotations.
Open Scope Q_scope.

(* the constants regenerated from pandora/constants.py *)
Definition K : consts := mkK msk_invalid msk_stopped.

(* Per-run obligation on the regenerated constants: "stopped" is bit 3 and is not an invalid bit. *)
Theorem C06_consts_wf : consts_wf K = true.
Proof. vm_compute. reflexivity. Qed.

(* ------------------------------------------------------------------ the two fits, every triple *)

(* whatever the three costs (NaN holes included), whatever the measure: |shift| <= 1/2 *)
Theorem C06_vfit_shift_half : forall m oc0 c1 oc2 sh co fl,
  vfit K m oc0 c1 oc2 = MOk sh co fl -> Qabs sh <= 1 # 2.
Proof. exact (vfit_shift_half K). Qed.

Theorem C06_quad_shift_half : forall m oc0 c1 oc2 sh co fl,
  quadratic K m oc0 c1 oc2 = MOk sh co fl -> Qabs sh <= 1 # 2.
Proof. exact (quad_shift_half K). Qed.

(* the stored coefficient is never worse than the sample's cost (<= for min, >= for max) ... *)
Theorem C06_vfit_cost_not_worse : forall m oc0 c1 oc2 sh co fl,
  vfit K m oc0 c1 oc2 = MOk sh co fl -> not_worse (kind_of m) co c1.
Proof. exact (vfit_cost_not_worse K). Qed.

Theorem C06_quad_cost_not_worse : forall m oc0 c1 oc2 sh co fl,
  quadratic K m oc0 c1 oc2 = MOk sh co fl -> not_worse (kind_of m) co c1.
Proof. exact (quad_cost_not_worse K). Qed.

(* ... and, when the centre is an extremum of its neighbours, shift and cost are the closed forms of
   the user guide.  V-fit keeps the pixel in place (shift 0, cost c1, no flag) when the slope is
   inside the code's 1e-15 guard band. *)
Theorem C06_vfit_closed_form : forall m c0 c1 c2,
  is_extremum (kind_of m) c0 c1 c2 ->
  (eps15 <= Qabs (vfit_slope (kind_of m) c0 c1 c2) ->
     exists sh co, vfit K m (Some c0) c1 (Some c2) = MOk sh co 0
                   /\ sh == vfit_x (kind_of m) c0 c1 c2 /\ co == vfit_y (kind_of m) c0 c1 c2)
  /\ (Qabs (vfit_slope (kind_of m) c0 c1 c2) < eps15 ->
      vfit K m (Some c0) c1 (Some c2) = MOk 0 c1 0).
Proof. exact (vfit_closed_form K). Qed.

Theorem C06_quad_closed_form : forall m c0 c1 c2,
  is_extremum (kind_of m) c0 c1 c2 ->
  (eps15 <= Qabs (quad_a c0 c1 c2) ->
     exists sh co, quadratic K m (Some c0) c1 (Some c2) = MOk sh co 0
                   /\ sh == quad_x c0 c1 c2 /\ co == quad_y c0 c1 c2)
  /\ (Qabs (quad_a c0 c1 c2) < eps15 -> quadratic K m (Some c0) c1 (Some c2) = MOk 0 c1 0).
Proof. exact (quad_closed_form K). Qed.

(* neither method raises, whatever the triple (flat, tied, NaN-holed) and the measure: the only
   division of each is behind its 1e-15 guard *)
Theorem C06_vfit_total : forall m oc0 c1 oc2, vfit K m oc0 c1 oc2 <> MRaise.
Proof. exact (vfit_total K). Qed.

Theorem C06_quad_total : forall m oc0 c1 oc2, quadratic K m oc0 c1 oc2 <> MRaise.
Proof. exact (quad_total K). Qed.

(* a method answers "stopped" (shift 0, cost of the sample, flag bit 3) as soon as a neighbour is NaN
   or the centre is not an extremum; otherwise its flag is 0 *)
Theorem C06_method_stop : forall me m oc0 c1 oc2,
  (oc0 = None \/ oc2 = None
   \/ exists c0 c2, oc0 = Some c0 /\ oc2 = Some c2 /\ ~ is_extremum (kind_of m) c0 c1 c2) ->
  run_method K me m oc0 c1 oc2 = MOk 0 c1 (k_stopped K).
Proof. exact (run_method_stop K). Qed.

Theorem C06_method_go : forall me m c0 c1 c2,
  is_extremum (kind_of m) c0 c1 c2 -> exists sh co, run_method K me m (Some c0) c1 (Some c2) = MOk sh co 0.
Proof. exact (run_method_go K). Qed.

(* the closed forms ARE the optimum of the symmetric V / of the parabola through the three points
   (a minimum for a cost, a maximum for a similarity), and that optimum is unique *)
Theorem C06_vfit_closed_form_is_optimum : forall k c0 c1 c2,
  is_extremum k c0 c1 c2 -> ~ vfit_slope k c0 c1 c2 == 0 ->
  is_vfit_optimum k c0 c1 c2 (vfit_x k c0 c1 c2) (vfit_y k c0 c1 c2).
Proof. exact vfit_closed_form_is_optimum. Qed.

Theorem C06_vfit_optimum_unique : forall k c0 c1 c2 x y,
  is_vfit_optimum k c0 c1 c2 x y -> x == vfit_x k c0 c1 c2 /\ y == vfit_y k c0 c1 c2.
Proof. exact vfit_optimum_unique. Qed.

Theorem C06_vfit_apex_optimal : forall k p x y t,
  match k with Cost => 0 < p | Similarity => p < 0 end -> not_worse k y (V p x y t).
Proof. exact V_apex_optimal. Qed.

Theorem C06_quad_closed_form_is_optimum : forall k c0 c1 c2,
  is_extremum k c0 c1 c2 -> ~ quad_a c0 c1 c2 == 0 ->
  is_parabola_optimum k c0 c1 c2 (quad_x c0 c1 c2) (quad_y c0 c1 c2).
Proof. exact quad_closed_form_is_optimum. Qed.

Theorem C06_parabola_optimum_unique : forall k c0 c1 c2 x y,
  ~ quad_a c0 c1 c2 == 0 ->
  is_parabola_optimum k c0 c1 c2 x y -> x == quad_x c0 c1 c2 /\ y == quad_y c0 c1 c2.
Proof. exact parabola_optimum_unique. Qed.

(* ------------------------------------------------------------------ one pixel of loop_refinement *)

Section Pixel.
  Variables (me : method) (m : measure) (dmin dmax : Q) (s : Z).
  Hypothesis Hs : (0 < s)%Z.                      (* subpix: 1, 2, 4 -- any positive integer *)
  Let valid := is_valid K.
  Let fits := cv_fits dmin dmax s.
  Let inside := in_interval dmin dmax.
  Let step := loop_pixel K me m dmin dmax s.

  (* invalid pixels: disparity and flags untouched, coefficient NaN -- whatever they carry (NaN,
     invalid_disparity, any cost row) *)
  Theorem C06_pixel_invalid_untouched : forall cv disp mask,
    ~ valid mask -> step cv disp mask = POk disp None mask.
  Proof. exact (pixel_invalid K me m dmin dmax s). Qed.

  (* a valid pixel holding ANY disparity of the interval: the step returns (no exception, no read
     outside the cost row); the new disparity is in the interval, at most half a sample from the one
     received; the mask is the old one or the old one with bit 3; the stored coefficient is never worse
     than the cost of the pixel's sample; a pixel whose sample has a NaN cost is left as it is *)
  Theorem C06_pixel_props : forall cv d mask r,
    valid mask -> fits cv -> inside d -> step cv (Some d) mask = r ->
    exists d' c' mask', r = POk (Some d') c' mask'
      /\ inside d'
      /\ Qabs (d' - d) * inject_Z s <= 1 # 2
      /\ (mask' = mask \/ mask' = Z.lor mask bit3)
      /\ (forall c1, cost_at cv (sample_index dmin s d) = Some c1 ->
            exists co, c' = Some co /\ not_worse (kind_of m) co c1)
      /\ (cost_at cv (sample_index dmin s d) = None -> d' = d /\ c' = None /\ mask' = mask).
  Proof. exact (pixel_props K C06_consts_wf me m dmin dmax s Hs). Qed.

  Theorem C06_pixel_total : forall cv disp mask,
    fits cv -> (valid mask -> exists d, disp = Some d /\ inside d) ->
    exists d' c' mask', step cv disp mask = POk d' c' mask'.
  Proof. exact (pixel_total K C06_consts_wf me m dmin dmax s Hs). Qed.

  (* the bit-3 clause, both directions.  must_stop (Spec/Refine.v) = less than a whole sample between
     the disparity and an end of the interval, or a NaN neighbour, or the sample is not an extremum of
     its neighbours.  For a disparity that is itself a sample "less than a whole sample" is "d = dmin or
     d = dmax" (C06_near_end_on_grid). *)
  Theorem C06_pixel_bit3_iff : forall cv d mask c1,
    valid mask -> fits cv -> inside d ->
    let k := sample_index dmin s d in
    cost_at cv k = Some c1 ->
    (must_stop (kind_of m) dmin dmax s cv d c1 ->
       exists d' c', step cv (Some d) mask = POk (Some d') (Some c') (Z.lor mask bit3) /\ d' == d /\ c' == c1)
    /\ (~ must_stop (kind_of m) dmin dmax s cv d c1 ->
        exists c0 c2 sh co, cost_at cv (k - 1) = Some c0 /\ cost_at cv (k + 1) = Some c2
          /\ is_extremum (kind_of m) c0 c1 c2
          /\ run_method K me m (Some c0) c1 (Some c2) = MOk sh co 0
          /\ step cv (Some d) mask = POk (Some (Qred (d + sh / inject_Z s))) (Some (Qred co)) mask).
  Proof. exact (pixel_bit3_iff K C06_consts_wf me m dmin dmax s Hs). Qed.

  (* flags, for EVERY input on which the step returns (reachable or not): the mask is the old one or
     the old one with bit 3 -- so no other bit changes, bit 3 is never cleared (a pixel already
     carrying bit 3 keeps exactly its mask), and validity is unchanged *)
  Theorem C06_pixel_other_bits : forall cv disp mask d' c' mask',
    step cv disp mask = POk d' c' mask' ->
    other_bits mask' = other_bits mask
    /\ (Z.testbit mask 3 = true -> Z.testbit mask' 3 = true)
    /\ Z.land mask' (k_invalid K) = Z.land mask (k_invalid K).
  Proof.
    intros cv disp mask d' c' mask' H.
    exact (bits_of_step K C06_consts_wf mask mask' (pixel_bits K C06_consts_wf me m dmin dmax s _ _ _ _ _ _ H)).
  Qed.

  (* a pixel that moves: its sample is an extremum of two NUMERIC neighbouring costs, there is a whole
     sample on each side, its mask is unchanged.  With per-pixel disparity grids the costs outside a
     pixel's own interval are NaN (C02/C09): for a received disparity that is a sample, the refined one
     therefore lies between two samples of the pixel's own interval. *)
  Theorem C06_pixel_moved_costed : forall cv d mask d' c' mask',
    valid mask -> fits cv -> inside d ->
    step cv (Some d) mask = POk (Some d') c' mask' -> ~ d' == d ->
    exists c0 c1 c2, cost_at cv (sample_index dmin s d - 1) = Some c0
                     /\ cost_at cv (sample_index dmin s d) = Some c1
                     /\ cost_at cv (sample_index dmin s d + 1) = Some c2
                     /\ is_extremum (kind_of m) c0 c1 c2
                     /\ ~ near_end dmin dmax s d
                     /\ mask' = mask.
  Proof. exact (pixel_moved_costed K C06_consts_wf me m dmin dmax s Hs). Qed.

  (* on the sampling grid the end test is the one the property names: the sample IS an end *)
  Theorem C06_near_end_on_grid : forall k, inject_Z k == (dmax - dmin) * inject_Z s ->
    forall i, (0 <= i <= k)%Z ->
    (near_end dmin dmax s (dmin + inject_Z i / inject_Z s) <-> (i = 0 \/ i = k)%Z).
  Proof. exact (near_end_on_grid dmin dmax s Hs). Qed.
End Pixel.

(* ------------------------------------------------------------------ whole maps, repeated refinement *)

(* Any segment refinement, refinement.1, ... (methods mixed at will, any length) applied to any map
   of pixels satisfying the invariant: the model never raises and never reads outside a cost row; the
   flags of every pixel differ from the initial ones at most by bit 3 being raised (never 8 -> 16),
   validity is unchanged, and the final map satisfies the invariant again. *)
Theorem C06_steps_total_and_flags : forall m dmin dmax s, (0 < s)%Z ->
  forall mes px last, Forall (pixel_ok K dmin dmax s) px ->
  exists l, refine_steps K mes m dmin dmax s px last = IOk l
    /\ ((mes = [] /\ l = last)
        \/ (Forall2 (fun p t => flags_kept K (px_mask p) (out_mask t)) px l
            /\ Forall (pixel_ok K dmin dmax s) (reload px l))).
Proof. exact (refine_steps_ok K C06_consts_wf). Qed.

(* Non-vacuity: the first pixel of tests/test_refinement.py (costs 32.5, 28, 34.5, sad). *)
Example C06_example_fits :
  is_extremum Cost (65 # 2) 28 (69 # 2)
  /\ (exists sh co, vfit K MMin (Some (65 # 2)) 28 (Some (69 # 2)) = MOk sh co 0
                    /\ Qred sh = -2 # 13 /\ Qred co = 27)
  /\ (exists sh co, quadratic K MMin (Some (65 # 2)) 28 (Some (69 # 2)) = MOk sh co 0
                    /\ Qred sh = -1 # 11 /\ Qred co = 615 # 22).
Proof.
  split; [split; unfold not_worse; discriminate|].
  split; eexists; eexists; (split; [reflexivity|split; reflexivity]).
Qed.

(* Non-vacuity of the pixel theorems: interval [-2,2], subpix 2, nine costs, an off-grid disparity 3/8
   (as a bilateral filter leaves it) whose sample is index 4 (disparity 0): valid, fits, inside, refined
   by 1/16 = (1/8)/subpix. *)
Example C06_example_pixel :
  let cv := map (fun z => Some (inject_Z z)) [9; 8; 7; 6; 2; 5; 7; 8; 9]%Z in
  is_valid K 4 /\ cv_fits (-2) 2 2 cv /\ in_interval (-2) 2 (3 # 8)
  /\ sample_index (-2) 2 (3 # 8) = 4%Z /\ ~ near_end (-2) 2 2 (3 # 8)
  /\ loop_pixel K Vfit MMin (-2) 2 2 cv (Some (3 # 8)) 4 = POk (Some (7 # 16)) (Some (3 # 2)) 4.
Proof.
  cbv zeta. split; [reflexivity|]. split; [reflexivity|]. split; [split; discriminate|].
  split; [reflexivity|]. split; [intros [H|H]; discriminate H|]. vm_compute. reflexivity.
Qed.

(* ================================================================== the kernels regenerated from the source

   G.vfit, G.quadratic : consts -> cost[0] -> cost[1] -> cost[2] -> disp -> measure -> fres
   G.loop_pixel        : the body of the (row, col) loop nest of loop_refinement on one pixel
   (Gen/RefineKernels.v, rewritten from pandora/refinement/*.py at every run; fl = option Q, NaN = None).
   gmethod K me = the generated method of the class registered as me; gstep = G.loop_pixel called with it
   (Model/RefineGen.v). *)

(* Per-run obligations: the generated kernels compute what the hand-written model computes, whatever
   the inputs (component-wise rational equality; NaN and exceptions matched exactly). *)
Theorem C06_gen_vfit_eq : forall m oc0 c1 oc2 d,
  fres_eq (G.vfit K oc0 (Some c1) oc2 d m) (lift (vfit K m oc0 c1 oc2)).
Proof. exact (gen_vfit_eq K). Qed.

Theorem C06_gen_quadratic_eq : forall m oc0 c1 oc2 d,
  fres_eq (G.quadratic K oc0 (Some c1) oc2 d m) (lift (quadratic K m oc0 c1 oc2)).
Proof. exact (gen_quadratic_eq K). Qed.

Theorem C06_gen_pixel_eq : forall me m dmin dmax s cv disp mask, (0 < s)%Z ->
  pres_eq (gstep K me m dmin dmax s cv disp mask) (loop_pixel K me m dmin dmax s cv disp mask).
Proof. exact (gen_loop_pixel_eq K). Qed.

(* The two generated methods, every triple with a numeric centre (NaN neighbours included), every
   measure: a result is a pair of NUMBERS, the shift is at most 1/2, the cost is not worse than the
   centre's; no exception. *)
Theorem C06_gen_vfit_shift_half : forall m oc0 c1 oc2 d sh co fl,
  G.vfit K oc0 (Some c1) oc2 d m = FRet sh co fl ->
  exists q c, sh = Some q /\ co = Some c /\ Qabs q <= 1 # 2 /\ not_worse (kind_of m) c c1.
Proof. exact (gen_method_ret K Vfit). Qed.

Theorem C06_gen_quad_shift_half : forall m oc0 c1 oc2 d sh co fl,
  G.quadratic K oc0 (Some c1) oc2 d m = FRet sh co fl ->
  exists q c, sh = Some q /\ co = Some c /\ Qabs q <= 1 # 2 /\ not_worse (kind_of m) c c1.
Proof. exact (gen_method_ret K Quadratic). Qed.

Theorem C06_gen_vfit_total : forall m oc0 c1 oc2 d, G.vfit K oc0 (Some c1) oc2 d m <> FRaise.
Proof. exact (gen_method_total K Vfit). Qed.

Theorem C06_gen_quad_total : forall m oc0 c1 oc2 d, G.quadratic K oc0 (Some c1) oc2 d m <> FRaise.
Proof. exact (gen_method_total K Quadratic). Qed.

(* closed forms of the user guide outside the 1e-15 guard band, the sample kept inside it *)
Theorem C06_gen_vfit_closed_form : forall m c0 c1 c2 d,
  is_extremum (kind_of m) c0 c1 c2 ->
  (eps15 <= Qabs (vfit_slope (kind_of m) c0 c1 c2) ->
     exists sh co, G.vfit K (Some c0) (Some c1) (Some c2) d m = FRet (Some sh) (Some co) 0
                   /\ sh == vfit_x (kind_of m) c0 c1 c2 /\ co == vfit_y (kind_of m) c0 c1 c2)
  /\ (Qabs (vfit_slope (kind_of m) c0 c1 c2) < eps15 ->
      exists sh co, G.vfit K (Some c0) (Some c1) (Some c2) d m = FRet (Some sh) (Some co) 0
                    /\ sh == 0 /\ co == c1).
Proof. exact (gen_vfit_closed_form K). Qed.

Theorem C06_gen_quad_closed_form : forall m c0 c1 c2 d,
  is_extremum (kind_of m) c0 c1 c2 ->
  (eps15 <= Qabs (quad_a c0 c1 c2) ->
     exists sh co, G.quadratic K (Some c0) (Some c1) (Some c2) d m = FRet (Some sh) (Some co) 0
                   /\ sh == quad_x c0 c1 c2 /\ co == quad_y c0 c1 c2)
  /\ (Qabs (quad_a c0 c1 c2) < eps15 ->
      exists sh co, G.quadratic K (Some c0) (Some c1) (Some c2) d m = FRet (Some sh) (Some co) 0
                    /\ sh == 0 /\ co == c1).
Proof. exact (gen_quad_closed_form K). Qed.

(* "stopped" (shift 0, cost of the sample, bit 3) as soon as a neighbour is NaN or the centre is not an
   extremum; flag 0 otherwise *)
Theorem C06_gen_method_stop : forall me m oc0 c1 oc2 d,
  (oc0 = None \/ oc2 = None
   \/ exists c0 c2, oc0 = Some c0 /\ oc2 = Some c2 /\ ~ is_extremum (kind_of m) c0 c1 c2) ->
  exists sh co, gmethod K me oc0 (Some c1) oc2 d m = FRet (Some sh) (Some co) (k_stopped K)
                /\ sh == 0 /\ co == c1.
Proof. exact (gen_method_stop K). Qed.

Theorem C06_gen_method_go : forall me m c0 c1 c2 d,
  is_extremum (kind_of m) c0 c1 c2 ->
  exists sh co, gmethod K me (Some c0) (Some c1) (Some c2) d m = FRet (Some sh) (Some co) 0.
Proof. exact (gen_method_go K). Qed.

Section GenPixel.
  Variables (me : method) (m : measure) (dmin dmax : Q) (s : Z).
  Hypothesis Hs : (0 < s)%Z.
  Let valid := is_valid K.
  Let fits := cv_fits dmin dmax s.
  Let inside := in_interval dmin dmax.
  Let step := gstep K me m dmin dmax s.

  Theorem C06_gen_pixel_invalid_untouched : forall cv disp mask,
    ~ valid mask -> exists d', step cv disp mask = POk d' None mask /\ oq_eq d' disp.
  Proof. exact (gen_pixel_invalid K me m dmin dmax s Hs). Qed.

  (* C06_pixel_props on the generated pixel body *)
  Theorem C06_gen_pixel_props : forall cv d mask r,
    valid mask -> fits cv -> inside d -> step cv (Some d) mask = r ->
    exists d' c' mask', r = POk (Some d') c' mask'
      /\ inside d'
      /\ Qabs (d' - d) * inject_Z s <= 1 # 2
      /\ (mask' = mask \/ mask' = Z.lor mask bit3)
      /\ (forall c1, cost_at cv (sample_index dmin s d) = Some c1 ->
            exists co, c' = Some co /\ not_worse (kind_of m) co c1)
      /\ (cost_at cv (sample_index dmin s d) = None -> d' == d /\ c' = None /\ mask' = mask).
  Proof. exact (gen_pixel_props K C06_consts_wf me m dmin dmax s Hs). Qed.

  Theorem C06_gen_pixel_total : forall cv disp mask,
    fits cv -> (valid mask -> exists d, disp = Some d /\ inside d) ->
    exists d' c' mask', step cv disp mask = POk d' c' mask'.
  Proof. exact (gen_pixel_total K C06_consts_wf me m dmin dmax s Hs). Qed.

  (* C06_pixel_bit3_iff on the generated pixel body and the generated method *)
  Theorem C06_gen_pixel_bit3_iff : forall cv d mask c1,
    valid mask -> fits cv -> inside d ->
    let k := sample_index dmin s d in
    cost_at cv k = Some c1 ->
    (must_stop (kind_of m) dmin dmax s cv d c1 ->
       exists d' c', step cv (Some d) mask = POk (Some d') (Some c') (Z.lor mask bit3) /\ d' == d /\ c' == c1)
    /\ (~ must_stop (kind_of m) dmin dmax s cv d c1 ->
        exists c0 c2 sh co d' c', cost_at cv (k - 1) = Some c0 /\ cost_at cv (k + 1) = Some c2
          /\ is_extremum (kind_of m) c0 c1 c2
          /\ gmethod K me (Some c0) (Some c1) (Some c2) (Some d) m = FRet (Some sh) (Some co) 0
          /\ step cv (Some d) mask = POk (Some d') (Some c') mask
          /\ d' == d + sh / inject_Z s /\ c' == co).
  Proof. exact (gen_pixel_bit3_iff K C06_consts_wf me m dmin dmax s Hs). Qed.

  Theorem C06_gen_pixel_other_bits : forall cv disp mask d' c' mask',
    step cv disp mask = POk d' c' mask' ->
    other_bits mask' = other_bits mask
    /\ (Z.testbit mask 3 = true -> Z.testbit mask' 3 = true)
    /\ Z.land mask' (k_invalid K) = Z.land mask (k_invalid K).
  Proof.
    intros cv disp mask d' c' mask' H.
    exact (bits_of_step K C06_consts_wf mask mask' (gen_pixel_bits K C06_consts_wf me m dmin dmax s Hs _ _ _ _ _ _ H)).
  Qed.

  Theorem C06_gen_pixel_moved_costed : forall cv d mask d' c' mask',
    valid mask -> fits cv -> inside d ->
    step cv (Some d) mask = POk (Some d') c' mask' -> ~ d' == d ->
    exists c0 c1 c2, cost_at cv (sample_index dmin s d - 1) = Some c0
                     /\ cost_at cv (sample_index dmin s d) = Some c1
                     /\ cost_at cv (sample_index dmin s d + 1) = Some c2
                     /\ is_extremum (kind_of m) c0 c1 c2
                     /\ ~ near_end dmin dmax s d
                     /\ mask' = mask.
  Proof. exact (gen_pixel_moved_costed K C06_consts_wf me m dmin dmax s Hs). Qed.
End GenPixel.

(* C06_steps_total_and_flags with the generated pixel body in every step *)
Theorem C06_gen_steps_total_and_flags : forall m dmin dmax s, (0 < s)%Z ->
  forall mes px last, Forall (pixel_ok K dmin dmax s) px ->
  exists l, grefine_steps K mes m dmin dmax s px last = IOk l
    /\ ((mes = [] /\ l = last)
        \/ (Forall2 (fun p t => flags_kept K (px_mask p) (out_mask t)) px l
            /\ Forall (pixel_ok K dmin dmax s) (reload px l))).
Proof. exact (grefine_steps_ok K C06_consts_wf). Qed.

(* Non-vacuity on the generated kernels: the same inputs as C06_example_fits / C06_example_pixel *)
Example C06_example_gen :
  fres_eq (G.vfit K (Some (65 # 2)) (Some 28) (Some (69 # 2)) (Some 0) MMin) (FRet (Some (-2 # 13)) (Some 27) 0)
  /\ fres_eq (G.quadratic K (Some (65 # 2)) (Some 28) (Some (69 # 2)) (Some 0) MMin)
             (FRet (Some (-1 # 11)) (Some (615 # 22)) 0)
  /\ (let cv := map (fun z => Some (inject_Z z)) [9; 8; 7; 6; 2; 5; 7; 8; 9]%Z in
      pres_eq (gstep K Vfit MMin (-2) 2 2 cv (Some (3 # 8)) 4) (POk (Some (7 # 16)) (Some (3 # 2)) 4)).
Proof. split; [|split]; vm_compute; repeat split; reflexivity. Qed.

Print Assumptions C06_consts_wf.
Print Assumptions C06_vfit_shift_half.
Print Assumptions C06_quad_shift_half.
Print Assumptions C06_vfit_cost_not_worse.
Print Assumptions C06_quad_cost_not_worse.
Print Assumptions C06_vfit_closed_form.
Print Assumptions C06_quad_closed_form.
Print Assumptions C06_vfit_closed_form_is_optimum.
Print Assumptions C06_vfit_optimum_unique.
Print Assumptions C06_vfit_apex_optimal.
Print Assumptions C06_quad_closed_form_is_optimum.
Print Assumptions C06_parabola_optimum_unique.
Print Assumptions C06_vfit_total.
Print Assumptions C06_quad_total.
Print Assumptions C06_method_stop.
Print Assumptions C06_method_go.
Print Assumptions C06_pixel_invalid_untouched.
Print Assumptions C06_pixel_props.
Print Assumptions C06_pixel_total.
Print Assumptions C06_pixel_bit3_iff.
Print Assumptions C06_pixel_other_bits.
Print Assumptions C06_pixel_moved_costed.
Print Assumptions C06_near_end_on_grid.
Print Assumptions C06_steps_total_and_flags.
Print Assumptions C06_gen_vfit_eq.
Print Assumptions C06_gen_quadratic_eq.
Print Assumptions C06_gen_pixel_eq.
Print Assumptions C06_gen_vfit_shift_half.
Print Assumptions C06_gen_quad_shift_half.
Print Assumptions C06_gen_vfit_total.
Print Assumptions C06_gen_quad_total.
Print Assumptions C06_gen_vfit_closed_form.
Print Assumptions C06_gen_quad_closed_form.
Print Assumptions C06_gen_method_stop.
Print Assumptions C06_gen_method_go.
Print Assumptions C06_gen_pixel_invalid_untouched.
Print Assumptions C06_gen_pixel_props.
Print Assumptions C06_gen_pixel_total.
Print Assumptions C06_gen_pixel_bit3_iff.
Print Assumptions C06_gen_pixel_other_bits.
Print Assumptions C06_gen_pixel_moved_costed.
Print Assumptions C06_gen_steps_total_and_flags.
