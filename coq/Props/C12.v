(* C12 -- Confidence bands follow their definitions, bracket the winner, only add bands.
   Statements only; proofs are `exact <lemma>` from Proofs/ConfidenceP.v.
   Model: Model/Confidence.v (tied to the code by the correspondence check harness/props/c12.py and, for the four
   numba kernels and normalize_with_percentile, by T-gen: Gen/ConfKernels.v regenerated from the Python source at
   every run and proved equal to the model: second half of this file, theorems C12_gen_...);
   Spec : Spec/Confidence.v.  Costs are [option Q] (None = NaN); the eta samples, the threshold,
   the disparity axis, the percentile are arbitrary data: every statement is for ALL of them,
   all curve lengths, all volumes. *)
From Coq Require Import String Ascii.
From Coq Require Import ZArith QArith Qabs List Bool.
From Pandora Require Import Lib.Ext Model.Confidence Spec.Confidence Proofs.ConfidenceP.
From Pandora Require Import Model.Wta Model.ConfPipeline Proofs.StdP Proofs.ConfidenceRegP Proofs.ConfPipelineP.
From Pandora Require Import Lib.NpVec Model.ConfGen Proofs.ConfGenP.
Import ListNotations.
Open Scope Z_scope.

(* ---- bands only appended.  A confidence step appends its own bands, named
   "confidence_from_" ++ method name ++ suffix, in call order, to the cost volume dataset and to a
   disparity dataset that already has bands (one without bands adopts the cost volume's); every
   existing band keeps name, value and position.  (The model's step does not take the cost
   volume or the mask as something it could return changed: that they are untouched on the real
   code is checked by the correspondence on every run.) *)
Theorem C12_bands_append_only : forall (B : Type) step m (news : list B) disp cv,
  let added := pref (combine (method_names m (suffix_of_step step)) news) in
  conf_step step m news (Some (Some disp), Some (Some cv)) = (Some (Some (disp ++ added)), Some (Some (cv ++ added)))
  /\ conf_step step m news (None, Some (Some cv)) = (None, Some (Some (cv ++ added)))
  /\ (news <> [] ->
      conf_step step m news (None, Some None) = (None, Some (Some added))
      /\ conf_step step m news (Some None, Some (Some cv)) = (Some (Some (cv ++ added)), Some (Some (cv ++ added)))
      /\ conf_step step m news (Some None, Some None) = (Some (Some added), Some (Some added))
      /\ conf_step step m news (Some (Some disp), Some None) = (Some (Some (disp ++ added)), Some (Some added))).
Proof. exact @bands_append_only. Qed.

(* the indicator suffix: none for "kind", ".s" for "kind.s", none again for "kind.s.t" *)
Theorem C12_suffix_rule : forall kind s t,
  (forall x, In x kind -> x <> 46) -> (forall x, In x s -> x <> 46) -> (forall x, In x t -> x <> 46) ->
  suffix_of_step kind = [] /\ suffix_of_step (kind ++ 46 :: s) = 46 :: s
  /\ suffix_of_step (kind ++ 46 :: s ++ 46 :: t) = [].
Proof. exact suffix_rule. Qed.

(* ---- deleting the confidence steps of a pipeline leaves everything but the bands equal.
   Abstract steps: a confidence step writes bands only; the core result (cost volume, disparity
   map, validity mask) of any other step does not depend on the bands.  On the real code this is
   checked by impl-vs-impl pipeline runs (harness, pipeline stream). *)
Theorem C12_confidence_steps_transparent : forall (Core Conf : Type) (p : list (pstep Core Conf)) c b b',
  fst (exec Core Conf p (c, b)) = fst (exec Core Conf (filter (not_conf Core Conf) p) (c, b')).
Proof. exact confidence_steps_transparent. Qed.

(* ---- ambiguity: the kernel's flattened comparison is sum_eta Card{d | cost within eta of the
   pixel's best cost}; an all-NaN curve gets the maximum *)
Theorem C12_ambiguity_def : forall mn mx etas c,
  match nanmin c with
  | Some m => is_best_min c m /\
              amb_pixel mn mx etas c = spec_amb (norm mn mx m) etas (ncurve mn mx c)
  | None => (forall x, ~ In (Some x) c) /\
            amb_pixel mn mx etas c = Z.of_nat (length etas) * Z.of_nat (length c)
  end.
Proof. exact ambiguity_def. Qed.

(* for a similarity measure the kernels run on the opposite costs: the reference cost is the
   opposite of the curve's largest cost (the pixel's best) *)
Theorem C12_ambiguity_best_for_max_measures : forall (c : curve) m,
  nanmin (map (option_map Qopp) c) = Some m ->
  exists b, In (Some b) c /\ (m == - b)%Q /\ forall x, In (Some x) c -> (x <= b)%Q.
Proof. exact orient_max_best. Qed.

(* normalised ambiguity confidence: every value finite and in [0,1], for EVERY volume
   (the tree carries the zero-range guard: guarded = true) *)
Theorem C12_ambiguity_normalised_in_01 : forall is_min p etas v,
  all_in01 (amb_confidence true true is_min p etas v).
Proof. intros. apply amb_confidence_in01. left. reflexivity. Qed.

(* the un-guarded division (the code before the repair) satisfies it exactly when the clipped
   map is not constant ... *)
Theorem C12_ambiguity_normalised_in_01_unguarded : forall is_min p etas v,
  match clipped p (map (map inject_Z) (amb_map etas (orient is_min v))) with
  | Some cl => scale_guard cl | None => True end ->
  all_in01 (amb_confidence false true is_min p etas v).
Proof. intros. apply amb_confidence_in01. right. assumption. Qed.

(* ... and fails on the D12 witness, the 1-pixel volume [[[1,2,3]]] (regression example) *)
Definition d12_witness : volume := [[[Some 1%Q; Some 2%Q; Some 3%Q]]].
Theorem C12_ambiguity_unguarded_refuted :
  amb_confidence false true true 1 [0%Q; (1#8)%Q] d12_witness = [[None]]
  /\ match amb_confidence true true true 1 [0%Q; (1#8)%Q] d12_witness with
     | [[Some y]] => (y == 1)%Q | _ => False end.
Proof. split; vm_compute; reflexivity. Qed.

(* ---- risk: per eta, sampled ambiguity = number of retained disparities, spread = greatest - least *)
Theorem C12_risk_def : forall ref eta nc,
  samp_amb ref nc eta = spec_card ref eta nc /\
  match spread (kept_from 0 (ref + eta)%Q nc) with
  | Some s => spec_spread ref eta nc s
  | None => forall d, ~ retained ref eta nc d
  end.
Proof. exact risk_def. Qed.

(* 0 <= risk_min <= risk_max (both NaN only together) for every curve, eta list, normalisation *)
Theorem C12_risk_order : forall mn mx etas c,
  match risk_pixel mn mx etas c with
  | (Some rmax, Some rmin) => (0 <= rmin /\ rmin <= rmax)%Q
  | (None, None) => True
  | _ => False
  end.
Proof. exact risk_order. Qed.

(* and both are finite for every curve with a finite cost *)
Theorem C12_risk_finite : forall mn mx etas c x,
  In (Some x) c -> etas <> [] -> Forall (fun e => 0 <= e)%Q etas ->
  exists rmax rmin, risk_pixel mn mx etas c = (Some rmax, Some rmin).
Proof. exact risk_finite. Qed.

(* ---- interval bounds: possibility formula of the user guide ... *)
Theorem C12_possibility_def : forall mn mx (is_min : bool) (c : curve) j x,
  (mn < mx)%Q -> nth_error c j = Some (Some x) ->
  exists best p,
    (if is_min then is_best_min c best else In (Some best) c /\ forall y, In (Some y) c -> (y <= best)%Q)
    /\ nth_error (possibility (type_factor is_min) (ncurve mn mx c)) j = Some (Some p)
    /\ (p == 1 - (if is_min then norm mn mx x - norm mn mx best else norm mn mx best - norm mn mx x))%Q.
Proof. exact possibility_def. Qed.

(* ... extreme disparities reaching the threshold, moved one sample outwards when their possibility is 1 *)
Theorem C12_bounds_def : forall mn mx tf thr c,
  let ps := possibility tf (ncurve mn mx c) in
  match bounds_idx mn mx tf thr c with
  | Some (lo', hi') =>
    exists lo hi, least (selected thr ps) lo /\ greatest (selected thr ps) hi
      /\ lo' = (if is_one (znth_error ps lo) then Z.max 0 (lo - 1) else lo)
      /\ hi' = (if is_one (znth_error ps hi) then Z.min (Z.of_nat (length c) - 1) (hi + 1) else hi)
  | None => forall d, ~ selected thr ps d
  end.
Proof. exact bounds_def. Qed.

(* inf <= winner-takes-all disparity <= sup for every valid pixel (a curve with a finite cost has
   a winner: C12_wta_exists), min and max measures, every threshold <= 1; d_wta is the winner of
   the volume the confidence step saw *)
Theorem C12_wta_exists : forall is_min c x, In (Some x) c -> exists w, wta is_min c = Some w.
Proof. exact wta_some. Qed.

Theorem C12_bounds_bracket_wta : forall mn mx is_min thr disps c w,
  (mn < mx)%Q -> (thr <= 1)%Q -> length disps = length c -> increasing disps ->
  wta is_min c = Some w ->
  exists dinf dw dsup,
    bounds_pixel mn mx (type_factor is_min) thr disps c = (Some dinf, Some dsup)
    /\ znth_error disps w = Some dw /\ (dinf <= dw)%Q /\ (dw <= dsup)%Q.
Proof. exact bounds_bracket_wta. Qed.

(* a volume with two distinct finite costs has min < max, and its maps are the pixel kernels
   applied everywhere with that min and max (so the pixel theorems above apply to every pixel) *)
Theorem C12_maps_are_pixelwise : forall (v : volume) a b etas tf thr disps,
  In (Some a) (concat (concat v)) -> In (Some b) (concat (concat v)) -> ~ (a == b)%Q ->
  exists mn mx, vol_min v = Some mn /\ vol_max v = Some mx /\ (mn < mx)%Q
    /\ amb_map etas v = map (map (amb_pixel mn mx etas)) v
    /\ risk_map etas v = map (map (risk_pixel mn mx etas)) v
    /\ bounds_map tf thr disps v = map (map (bounds_pixel mn mx tf thr disps)) v.
Proof. exact maps_are_pixelwise. Qed.

(* ---- regularisation with quantile 1 can only widen: at every pixel whose old bound is finite the new
   inf is finite and <= the old one, the new sup finite and >= the old one (every ambiguity map,
   threshold, kernel size, depth) *)
Theorem C12_regularisation_q1_widens : forall inf sup amb thr k depth q r c,
    (q == 1)%Q ->
    let res := regularize inf sup amb thr k depth q in
    (forall x, cell inf r c = Some (Some x) -> exists y, cell (fst res) r c = Some (Some y) /\ (y <= x)%Q)
    /\ (forall x, cell sup r c = Some (Some x) -> exists y, cell (snd res) r c = Some (Some y) /\ (x <= y)%Q).
Proof. exact regularisation_q1_widens. Qed.

(* ---- std_intensity.  [window w img r c] (Spec) is the w x w window of top-left corner (r, c), row by
   row; [window_variance] its mean of squares minus squared mean.
   (i) each 1-D pass of compute_mean_raster (window differences of the cumulative sums preceded by a
   zero) is the direct sliding-window sum: every window size, list, position *)
Theorem C12_std_one_pass_def :
  forall w l i, (i + w <= length l)%nat ->
    exists y, nth_error (winsum w l) i = Some y /\ (y == qsum (firstn w (skipn i l)))%Q.
Proof. exact std_def_1d. Qed.

(* (ii) the two passes through the transposition: the model's variance raster, computed like
   compute_mean_raster / compute_std_raster, is at EVERY window position of EVERY rectangular image the
   variance of the w x w window (every window size > 0) *)
Theorem C12_std_var_raster_def :
  forall (w : nat) img r c, (0 < w)%nat ->
    (forall row, In row img -> length row = length (hd [] img)) ->
    (r + w <= length img)%nat -> (c + w <= length (hd [] img))%nat ->
    exists v, cell (var_raster (Z.of_nat w) img) r c = Some v /\
      (v == window_variance w (window w img r c))%Q.
Proof. exact std_var_raster. Qed.

(* (iii) the band of StdIntensity.confidence_prediction (model [std_band]: the band holds the variance,
   the square root is not rational), for every odd window that fits in the image, every image
   (NaN pixels count as 0, as np.nancumsum makes them), every pixel (r, c) of the image:
   - when the window centred on (r, c) lies inside the image the band is finite and is the variance of
     that window, except that a variance below eps * |mean of squares| is replaced by 0 (the code's
     "avoid very small values", eps = 10**-15 as data);
   - everywhere else (the border of width (w-1)/2) the band is NaN. *)
Theorem C12_std_def :
  forall (eps : Q) (w : nat) (img : list (list oq)) (r c : nat),
    Nat.odd w = true ->
    (forall row, In row img -> length row = length (hd [] img)) ->
    (w <= length img)%nat -> (w <= length (hd [] img))%nat ->
    (r < length img)%nat -> (c < length (hd [] img))%nat ->
    let off := ((w - 1) / 2)%nat in
    if in_interior off (length img) (length (hd [] img)) r c
    then
      exists v, cell (std_band eps (Z.of_nat w) img) r c = Some (Some v) /\
        let win := window w (map (map nan0) img) (r - off) (c - off) in
        let vw := window_variance w win in
        let mp2 := (qsum (map (fun x => x * x) win) / inject_Z (Z.of_nat (w * w)))%Q in
        ((eps * Qabs mp2 <= vw)%Q -> (v == vw)%Q) /\ ((vw < eps * Qabs mp2)%Q -> (v == 0)%Q)
    else cell (std_band eps (Z.of_nat w) img) r c = Some None.
Proof. exact std_def. Qed.

(* [in_interior] is the plain test "the window centred on (r, c) fits" *)
Theorem C12_std_interior_test : forall off nr nc r c,
  in_interior off nr nc r c = true <-> (off <= r /\ r + off < nr /\ off <= c /\ c + off < nc)%nat.
Proof.
  intros. unfold in_interior. rewrite !andb_true_iff, !Nat.leb_le, !Nat.ltb_lt. tauto.
Qed.

(* ---- interval bounds WITH regularisation still bracket the winner when quantile_regularization is
   exactly 1 (C12_bounds_bracket_wta + C12_regularisation_q1_widens): every volume with two distinct
   finite costs, min and max measures, threshold <= 1, every ambiguity band / threshold / kernel /
   depth, every valid pixel (its curve has a winner).  [regularized_bounds] = bounds_map then regularize,
   what the step writes (X12 fid 10). *)
Theorem C12_bounds_regularised_q1_bracket_wta :
  forall (v : volume) a b is_min thr disps amb athr k depth q r c cur w,
    In (Some a) (concat (concat v)) -> In (Some b) (concat (concat v)) -> ~ (a == b)%Q ->
    (thr <= 1)%Q -> increasing disps ->
    (q == 1)%Q ->
    cell v r c = Some cur -> length disps = length cur -> wta is_min cur = Some w ->
    let res := regularized_bounds is_min thr disps v amb athr k depth q in
    exists yinf dw ysup,
      cell (fst res) r c = Some (Some yinf) /\ cell (snd res) r c = Some (Some ysup)
      /\ znth_error disps w = Some dw /\ (yinf <= dw)%Q /\ (dw <= ysup)%Q.
Proof. exact regularized_bracket. Qed.

(* ---- transparency for the built-in steps that have a model (Model/ConfPipeline.v).
   WinnerTakesAll.to_disp (Model/Wta.v, tied to the code by C03's correspondence) is handed the bands of
   the cost volume: disparity map, validity mask, cost volume and disp_indices do not depend on them,
   and the bands are given to the disparity dataset unchanged *)
Theorem C12_wta_ignores_bands :
  forall mx B nr nc disps invalid cv (conf conf' : Z -> Z -> list (option Q)) mask,
    let o := to_disp mx B nr nc disps invalid cv conf mask in
    let o' := to_disp mx B nr nc disps invalid cv conf' mask in
    o_disp o = o_disp o' /\ o_mask o = o_mask o' /\ o_cv o = o_cv o' /\ o_disp_indices o = o_disp_indices o'
    /\ o_conf o = conf.
Proof. exact wta_ignores_bands. Qed.

(* each built-in step (wta disparity, cbca aggregation, refinement), run on the WHOLE state: its core
   result (cost volume, disparity map, validity mask, raised or not) is the same whatever bands it is given *)
Theorem C12_builtin_steps_ignore_bands : forall s, is_builtin s = true -> forall c b b',
  fst (bexec1 (c, b) s) = fst (bexec1 (c, b') s).
Proof. exact builtin_core_indep. Qed.

(* the abstract theorem instantiated: for EVERY sequence (any length, any order, repetitions) of
   confidence steps (ambiguity, risk, interval bounds with or without regularisation, std_intensity,
   any parameters, any step names) and built-in steps (any parameters), deleting the confidence steps
   leaves the core -- cost volume, disparity map, validity mask -- equal, from any initial bands *)
Theorem C12_confidence_transparent_builtin :
  forall (p : list bstep) (c : option core) (b b' : option conf),
    fst (bexec p (c, b)) = fst (bexec (filter is_builtin p) (c, b')).
Proof. exact transparent_builtin. Qed.

(* read on runs that do not raise (a confidence step raises when the ambiguity band its regularisation
   asks for is missing; refinement raises without a disparity map or on a division by zero) *)
Theorem C12_confidence_transparent_builtin_run :
  forall (p : list bstep) (k : core) (b b' : conf) (k1 : core) (b1 : conf),
    bexec p (Some k, Some b) = (Some k1, Some b1) ->
    exists bo, bexec (filter is_builtin p) (Some k, Some b') = (Some k1, bo).
Proof. exact transparent_builtin_run. Qed.

(* a [None] component means "a step has raised"; it is final, so what the model's later steps do after
   a raise never shows in a result *)
Theorem C12_raised_is_final : forall p st, raised st -> raised (bexec p st).
Proof. exact raised_sticky_run. Qed.

(* Non-vacuity: a volume with two distinct finite costs, a NaN hole and a tie; hypotheses of the
   bracket theorem hold and the concrete values are the expected ones. *)
Definition ex_curve : curve := [Some 3%Q; None; Some 1%Q; Some 1%Q; Some 5%Q].
Example C12_example_hyps :
  wta true ex_curve = Some 2
  /\ bounds_pixel 1 5 (type_factor true) (9 # 10) [(-2)%Q; (-1)%Q; 0%Q; 1%Q; 2%Q] ex_curve = (Some (-1)%Q, Some 2%Q)
  /\ amb_pixel 1 5 [0%Q; (1#2)%Q] ex_curve = 7
  /\ risk_pixel 1 5 [0%Q; (1#2)%Q] ex_curve = (Some ((2 + 3) / 2)%Q, Some ((0 + 0) / 2)%Q).
Proof. repeat split; vm_compute; reflexivity. Qed.

(* Non-vacuity of C12_std_def: a 3 x 4 image with a NaN pixel, window 3: two interior pixels (finite
   variance of the window, the NaN pixel counted as 0), NaN everywhere else; the hypotheses hold. *)
Definition ex_img : list (list oq) :=
  [[Some 1%Q; Some 2%Q; Some 3%Q; Some 4%Q]; [Some 5%Q; None; Some 7%Q; Some 8%Q]; [Some 9%Q; Some 10%Q; Some 11%Q; Some 13%Q]].
Example C12_example_std :
  Nat.odd 3 = true /\ (forall row, In row ex_img -> length row = length (hd [] ex_img))
  /\ map (map (option_map Qred)) (std_band (1 # 1000000000000000) 3 ex_img)
     = [[None; None; None; None]; [None; Some (134 # 9)%Q; Some (1424 # 81)%Q; None]; [None; None; None; None]]
  /\ Qred (window_variance 3 (window 3 (map (map nan0) ex_img) 0 1)) = (1424 # 81)%Q.
Proof.
  split; [reflexivity|]. split; [|split; vm_compute; reflexivity].
  intros row [H|[H|[H|[]]]]; subst; reflexivity.
Qed.

(* Non-vacuity of the built-in transparency: a 1 x 2 cost volume with 3 disparities, pipeline
   ambiguity, interval_bounds.b (regularised with the ambiguity band), wta, std_intensity.s, refinement:
   the run does not raise, the bands are the expected ones in both datasets, and the disparity map and
   mask equal those of the pipeline wta, refinement started WITHOUT bands *)
Definition ex_core : core :=
  mkCore 1 2 false 1 [(-1)%Q; 0%Q; 1%Q]
         (fun r c => if (c =? 0)%Z then [Some (Fin 3%Q); Some (Fin 1%Q); Some (Fin 2%Q)]
                     else [Some (Fin 5%Q); None; Some (Fin 4%Q)])
         (fun _ _ => 0%Z) None.
Definition ex_pipeline : list bstep :=
  [SConf (codes "cost_volume_confidence") (MAmb false 1 [0%Q; (1#4)%Q]);
   SConf (codes "cost_volume_confidence.b") (MBounds (9#10) (Some (codes "confidence_from_ambiguity", (1#2)%Q, 3%Z, 1%Z, 1%Q)));
   SWta 100 None;
   SConf (codes "cost_volume_confidence.s") (MStd (1 # 1000000000000000) 1 [[Some 7%Q; Some 9%Q]]);
   SRefine (Refine.mkK 3 8) Refine.Vfit].
Definition names_of_ds (d : dsbands band) : option (list name) :=
  match d with Some (Some l) => Some (map fst l) | Some None => Some [] | None => None end.
Definition show (st : state) :=
  match st with
  | (Some k, Some (bd, bc)) =>
    Some (match k_disp k with
          | Some (d, m) => Some (map (fun c => (d 0%Z c, m 0%Z c)) [0%Z; 1%Z])
          | None => None end, names_of_ds bd, names_of_ds bc)
  | _ => None
  end.
Example C12_example_builtin_pipeline :
  show (bexec ex_pipeline (Some ex_core, Some (None, Some None)))
  = Some (Some [(Some (1 # 4)%Q, 0%Z); (Some 1%Q, 8%Z)],
          Some (map codes ["confidence_from_ambiguity"; "confidence_from_interval_bounds_inf.b";
                           "confidence_from_interval_bounds_sup.b"; "confidence_from_intensity_std.s"]%string),
          Some (map codes ["confidence_from_ambiguity"; "confidence_from_interval_bounds_inf.b";
                           "confidence_from_interval_bounds_sup.b"; "confidence_from_intensity_std.s"]%string))
  /\ match show (bexec (filter is_builtin ex_pipeline) (Some ex_core, Some (None, Some None))) with
     | Some (dm, _, _) => dm = Some [(Some (1 # 4)%Q, 0%Z); (Some 1%Q, 8%Z)]
     | None => False end.
Proof. split; vm_compute; reflexivity. Qed.

(* ================================================================================================
   T-gen: the numba kernels regenerated from the Python source (Gen/ConfKernels.v, written at every run by
   translator/gen_conf_kernels.py from ambiguity.py / risk.py / interval_bounds.py; numpy semantics of
   Lib/NpVec.v; glue Model/ConfGen.v).  G.<kernel>_pixel is the body of the (row, col) loop nest,
   G.<kernel> the whole kernel (prelude, then the body on every pixel).  The theorems below are the
   per-run obligations "what the code says now computes what the model computes, for ALL inputs, and no
   numpy operation of the body fails (shapes, indices)", then the headline theorems restated on the
   generated definitions.  [xeq] is equality of floats up to the representation of the rational.
   The eta samples are data (any list); np.argsort is any function returning the indices of its argument
   (argsort_ok; satisfiable: C12_gen_argsort_contract_satisfiable). *)

(* compute_ambiguity, pixel body = amb_pixel *)
Theorem C12_gen_amb_pixel_eq : forall mn mx etas c, ~ (mn == mx)%Q ->
  exists r, gamb_pixel mn mx etas c = Some r /\ xeq r (xofz (amb_pixel mn mx etas c)).
Proof. exact gen_amb_pixel_eq. Qed.

(* compute_ambiguity_and_sampled_ambiguity, pixel body = (amb_pixel, per eta the number of costs within eta) *)
Theorem C12_gen_samp_pixel_eq : forall mn mx etas c, ~ (mn == mx)%Q ->
  exists r, gsamp_pixel mn mx etas c = Some (r, v_ofz (samp_pixel mn mx etas c))
            /\ xeq r (xofz (amb_pixel mn mx etas c)).
Proof. exact gen_samp_pixel_eq. Qed.

(* compute_risk fed by the generated sampled ambiguity, pixel body = risk_pixel *)
Theorem C12_gen_risk_pixel_eq : forall mn mx etas c, ~ (mn == mx)%Q ->
  exists a b, grisk_pixel mn mx etas c = Some (a, b)
              /\ xeq a (of_oq (fst (risk_pixel mn mx etas c))) /\ xeq b (of_oq (snd (risk_pixel mn mx etas c))).
Proof. exact gen_risk_pixel_eq. Qed.

(* compute_interval_bounds, pixel body = bounds_pixel, whatever permutation argsort returns *)
Theorem C12_gen_bounds_pixel_eq : forall argsort mn mx tf thr disps c, argsort_ok argsort -> ~ (mn == mx)%Q ->
  length disps = length c ->
  gbounds_pixel argsort mn mx tf thr disps c
  = Some (of_oq (fst (bounds_pixel mn mx tf thr disps c)), of_oq (snd (bounds_pixel mn mx tf thr disps c))).
Proof. exact gen_bounds_pixel_eq. Qed.

(* the prelude variable two_dim_etas (np.repeat(etas, nb_disps).reshape((-1, nb_disps)).T.flatten()) is the
   eta samples tiled nb_disps times, the value the pixel theorems above give it *)
Theorem C12_gen_two_dim_etas : forall etas nd, (0 < nd)%nat ->
  exists m, v_reshape_m1 (np_repeat (xetas etas) (Z.of_nat nd)) (Z.of_nat nd) = Some m
            /\ m_flatten (m_T m) = two_dim nd etas.
Proof. exact gen_two_dim_etas. Qed.

(* the whole kernels (prelude: np.nanmin / np.nanmax of the volume, cv.shape, two_dim_etas, result arrays; then
   the loop nest) on EVERY volume with nd >= 1 disparities (and at least one pixel, from which cv.shape is read):
   the property's domain (two distinct finite costs) and the degenerate volumes (no finite cost, or all finite
   costs equal: 0/0 everywhere) alike *)
Theorem C12_gen_amb_kernel_eq : forall (v : volume) nd, vol_shape nd v -> forall etas, (0 < nd)%nat ->
  exists m, G.compute_ambiguity (xvolume v) (xetas etas) = Some m
            /\ Forall2 (Forall2 xeq) m (map (map xofz) (amb_map etas v)).
Proof. exact gen_amb_map_eq_all. Qed.

Theorem C12_gen_risk_kernel_eq : forall (v : volume) nd, vol_shape nd v -> forall etas, (0 < nd)%nat ->
  exists m, grisk_map v etas = Some m /\ Forall2 (Forall2 xeq2) m (map (map xpair) (risk_map etas v)).
Proof. exact gen_risk_map_eq_all. Qed.

Theorem C12_gen_bounds_kernel_eq : forall (v : volume) nd, vol_shape nd v ->
  forall argsort tf thr disps, argsort_ok argsort -> length disps = nd ->
  G.compute_interval_bounds argsort (xvolume v) (xetas disps) (XFin thr) (XFin tf)
  = Some (map (map xpair) (bounds_map tf thr disps v)).
Proof. exact gen_bounds_map_eq_all. Qed.

(* normalize_with_percentile (plain numpy on the whole map, translated the same way; np.percentile is any function
   that interpolates linearly between the order statistics, percentile_ok, satisfiable: C12_gen_percentile_contract_satisfiable):
   generated = normalize_percentile of the model WITH the zero-range guard, for every non-empty ambiguity map *)
Theorem C12_gen_normalize_eq : forall pctl p (amb : list (list Q)), percentile_ok pctl -> concat amb <> [] ->
  exists r, G.normalize_with_percentile pctl (XFin p) (map (map XFin) amb) = Some r
            /\ Forall2 (Forall2 xeq) r (map (map of_oq) (normalize_percentile true p amb)).
Proof. exact gen_normalize_eq. Qed.

(* C12_ambiguity_normalised_in_01 on the generated normalisation: finite values of [0, 1] for EVERY non-empty map
   (the D12 witness included: a constant map is sent to 0) *)
Theorem C12_gen_normalised_in_01 : forall pctl p (amb : list (list Q)), percentile_ok pctl -> concat amb <> [] ->
  exists r, G.normalize_with_percentile pctl (XFin p) (map (map XFin) amb) = Some r /\
    forall row y, In row r -> In y row -> exists q, y = XFin q /\ (0 <= q <= 1)%Q.
Proof. exact gen_normalize_in01. Qed.

Theorem C12_gen_percentile_contract_satisfiable : percentile_ok pctl_lin.
Proof. exact pctl_lin_ok. Qed.

(* ---- the headline theorems on the generated kernels *)

(* C12_ambiguity_def: the generated pixel body returns the count formula *)
Theorem C12_gen_ambiguity_def : forall mn mx etas c, ~ (mn == mx)%Q ->
  exists r, gamb_pixel mn mx etas c = Some (XFin r) /\
    match nanmin c with
    | Some m => is_best_min c m /\ (r == inject_Z (spec_amb (norm mn mx m) etas (ncurve mn mx c)))%Q
    | None => (forall x, ~ In (Some x) c) /\ (r == inject_Z (Z.of_nat (length etas) * Z.of_nat (length c)))%Q
    end.
Proof. exact gen_ambiguity_def. Qed.

(* C12_risk_order: 0 <= risk_min <= risk_max on the generated kernels (both NaN only together) *)
Theorem C12_gen_risk_order : forall mn mx etas c, ~ (mn == mx)%Q ->
  exists a b, grisk_pixel mn mx etas c = Some (a, b) /\
    match a, b with
    | XFin rmax, XFin rmin => (0 <= rmin /\ rmin <= rmax)%Q
    | XNaN, XNaN => True
    | _, _ => False
    end.
Proof. exact gen_risk_order. Qed.

Theorem C12_gen_risk_finite : forall mn mx etas c x, ~ (mn == mx)%Q ->
  In (Some x) c -> etas <> [] -> Forall (fun e => 0 <= e)%Q etas ->
  exists rmax rmin, grisk_pixel mn mx etas c = Some (XFin rmax, XFin rmin).
Proof. exact gen_risk_finite. Qed.

(* C12_bounds_bracket_wta: inf <= winner-takes-all disparity <= sup on the generated kernel *)
Theorem C12_gen_bounds_bracket_wta : forall argsort mn mx is_min thr disps c w, argsort_ok argsort ->
  (mn < mx)%Q -> (thr <= 1)%Q -> length disps = length c -> increasing disps ->
  wta is_min c = Some w ->
  exists dinf dw dsup,
    gbounds_pixel argsort mn mx (type_factor is_min) thr disps c = Some (XFin dinf, XFin dsup)
    /\ znth_error disps w = Some dw /\ (dinf <= dw)%Q /\ (dw <= dsup)%Q.
Proof. exact gen_bounds_bracket_wta. Qed.

Theorem C12_gen_argsort_contract_satisfiable : argsort_ok argsort_id /\ argsort_ok argsort_rev.
Proof. split; [exact argsort_id_ok|exact argsort_rev_ok]. Qed.

(* Non-vacuity / sanity: the generated kernels run on the example curve of C12_example_hyps (NaN hole, tie) and on
   a 1 x 2 volume give the values of the model; the reversed permutation gives the same bounds *)
Example C12_example_gen :
  gamb_pixel 1 5 [0%Q; (1#2)%Q] ex_curve = Some (XFin (0 + inject_Z 7))
  /\ match gsamp_pixel 1 5 [0%Q; (1#2)%Q] ex_curve with Some (_, s) => s = v_ofz [3; 4] | None => False end
  /\ match grisk_pixel 1 5 [0%Q; (1#2)%Q] ex_curve with
     | Some (XFin a, XFin b) => Qred a = (5 # 2)%Q /\ Qred b = 0%Q | _ => False end
  /\ gbounds_pixel argsort_id 1 5 (type_factor true) (9 # 10) [(-2)%Q; (-1)%Q; 0%Q; 1%Q; 2%Q] ex_curve = Some (XFin (-1), XFin 2)
  /\ gbounds_pixel argsort_rev 1 5 (type_factor true) (9 # 10) [(-2)%Q; (-1)%Q; 0%Q; 1%Q; 2%Q] ex_curve = Some (XFin (-1), XFin 2)
  /\ match G.compute_interval_bounds argsort_rev (xvolume [[ex_curve; [Some 2%Q; Some 4%Q; None; None; Some 4%Q]]])
             (xetas [(-2)%Q; (-1)%Q; 0%Q; 1%Q; 2%Q]) (XFin (9 # 10)) (XFin (-1)) with
     | Some [[(XFin a, XFin b); (XFin a', XFin b')]] => (a, b, a', b') = ((-1)%Q, 2%Q, (-2)%Q, (-1)%Q) | _ => False end.
Proof.
  vm_compute.
  repeat split.
Qed.

(* the generated normalisation on the D12 witness (constant map: 0 everywhere, not NaN) and on a 1 x 3 map *)
Example C12_example_gen_normalize :
  match G.normalize_with_percentile pctl_lin (XFin 1) [[XFin 6]] with Some [[XFin a]] => Qred a = 0%Q | _ => False end
  /\ match G.normalize_with_percentile pctl_lin (XFin 50) [[XFin 2; XFin 6; XFin 4]] with
     | Some [[XFin a; XFin b; XFin c]] => True | _ => False end
  /\ match G.normalize_with_percentile pctl_lin (XFin 0) [[XFin 2; XFin 6; XFin 4]] with
     | Some [[XFin a; XFin b; XFin c]] => (Qred a, Qred b, Qred c) = (0%Q, 1%Q, (1 # 2)%Q) | _ => False end.
Proof.
  vm_compute.
  repeat split.
Qed.

Print Assumptions C12_bands_append_only.
Print Assumptions C12_suffix_rule.
Print Assumptions C12_confidence_steps_transparent.
Print Assumptions C12_ambiguity_def.
Print Assumptions C12_ambiguity_best_for_max_measures.
Print Assumptions C12_ambiguity_normalised_in_01.
Print Assumptions C12_ambiguity_normalised_in_01_unguarded.
Print Assumptions C12_ambiguity_unguarded_refuted.
Print Assumptions C12_risk_def.
Print Assumptions C12_risk_order.
Print Assumptions C12_risk_finite.
Print Assumptions C12_possibility_def.
Print Assumptions C12_bounds_def.
Print Assumptions C12_wta_exists.
Print Assumptions C12_bounds_bracket_wta.
Print Assumptions C12_maps_are_pixelwise.
Print Assumptions C12_regularisation_q1_widens.
Print Assumptions C12_std_one_pass_def.
Print Assumptions C12_std_var_raster_def.
Print Assumptions C12_std_def.
Print Assumptions C12_std_interior_test.
Print Assumptions C12_bounds_regularised_q1_bracket_wta.
Print Assumptions C12_wta_ignores_bands.
Print Assumptions C12_builtin_steps_ignore_bands.
Print Assumptions C12_confidence_transparent_builtin.
Print Assumptions C12_confidence_transparent_builtin_run.
Print Assumptions C12_raised_is_final.
Print Assumptions C12_gen_amb_pixel_eq.
Print Assumptions C12_gen_samp_pixel_eq.
Print Assumptions C12_gen_risk_pixel_eq.
Print Assumptions C12_gen_bounds_pixel_eq.
Print Assumptions C12_gen_two_dim_etas.
Print Assumptions C12_gen_amb_kernel_eq.
Print Assumptions C12_gen_risk_kernel_eq.
Print Assumptions C12_gen_bounds_kernel_eq.
Print Assumptions C12_gen_ambiguity_def.
Print Assumptions C12_gen_risk_order.
Print Assumptions C12_gen_risk_finite.
Print Assumptions C12_gen_bounds_bracket_wta.
Print Assumptions C12_gen_argsort_contract_satisfiable.
Print Assumptions C12_gen_normalize_eq.
Print Assumptions C12_gen_normalised_in_01.
Print Assumptions C12_gen_percentile_contract_satisfiable.
