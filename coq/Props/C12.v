(* C12 -- placeholder while the harness is brought up; replaced below. *)
From Coq Require Import List ZArith.
From Pandora Require Import Model.Confidence.
Import ListNotations.
Theorem C12_suffix_example : suffix_of_step (codes "cost_volume_confidence.amb") = codes ".amb".
Proof. vm_compute. reflexivity. Qed.
Print Assumptions C12_suffix_example.
