(* C12 -- Confidence bands follow their definitions, bracket the winner, only add bands.
   Statements only; proofs are `exact <lemma>` from Proofs/ConfidenceP.v.
   Model: Model/Confidence.v (tied to the code by the correspondence check harness/props/c12.py);
   Spec : Spec/Confidence.v.  Costs are [option Q] (None = NaN); the eta samples, the threshold,
   the disparity axis, the percentile are arbitrary data: every statement is for ALL of them,
   all curve lengths, all volumes. *)
From Coq Require Import String Ascii.
From Coq Require Import ZArith QArith List Bool.
From Pandora Require Import Model.Confidence Spec.Confidence Proofs.ConfidenceP.
Import ListNotations.
Open Scope Z_scope.

(* ---- bands only appended.  A confidence step appends its own bands, named
   "confidence_from_" ++ method name ++ suffix, in call order, to the cost volume dataset and to a
   disparity dataset that already has bands (one without bands adopts the cost volume's); every
   existing band keeps name, value and position.  (The model's step does not take the cost
   volume or the mask as something it could return changed: that they are untouched on the real
   code is checked by the correspondence on every run.) *)
Theorem C12_bands_append_only : forall (B : Type) step m (news : list B) disp cv,
  let added := pref (combine (method_names m (suffix_of_step step)) news) in
  conf_step step m news (Some (Some disp), Some (Some cv)) = (Some (Some (disp ++ added)), Some (Some (cv ++ added)))
  /\ conf_step step m news (None, Some (Some cv)) = (None, Some (Some (cv ++ added)))
  /\ (news <> [] ->
      conf_step step m news (None, Some None) = (None, Some (Some added))
      /\ conf_step step m news (Some None, Some (Some cv)) = (Some (Some (cv ++ added)), Some (Some (cv ++ added)))
      /\ conf_step step m news (Some None, Some None) = (Some (Some added), Some (Some added))
      /\ conf_step step m news (Some (Some disp), Some None) = (Some (Some (disp ++ added)), Some (Some added))).
Proof. exact @bands_append_only. Qed.

(* the indicator suffix: none for "kind", ".s" for "kind.s", none again for "kind.s.t" *)
Theorem C12_suffix_rule : forall kind s t,
  (forall x, In x kind -> x <> 46) -> (forall x, In x s -> x <> 46) -> (forall x, In x t -> x <> 46) ->
  suffix_of_step kind = [] /\ suffix_of_step (kind ++ 46 :: s) = 46 :: s
  /\ suffix_of_step (kind ++ 46 :: s ++ 46 :: t) = [].
Proof. exact suffix_rule. Qed.

(* ---- deleting the confidence steps of a pipeline leaves everything but the bands equal.
   Abstract steps: a confidence step writes bands only; the core result (cost volume, disparity
   map, validity mask) of any other step does not depend on the bands.  On the real code this is
   checked by impl-vs-impl pipeline runs (harness, pipeline stream). *)
Theorem C12_confidence_steps_transparent : forall (Core Conf : Type) (p : list (pstep Core Conf)) c b b',
  fst (exec Core Conf p (c, b)) = fst (exec Core Conf (filter (not_conf Core Conf) p) (c, b')).
Proof. exact confidence_steps_transparent. Qed.

(* ---- ambiguity: the kernel's flattened comparison is sum_eta Card{d | cost within eta of the
   pixel's best cost}; an all-NaN curve gets the maximum *)
Theorem C12_ambiguity_def : forall mn mx etas c,
  match nanmin c with
  | Some m => is_best_min c m /\
              amb_pixel mn mx etas c = spec_amb (norm mn mx m) etas (ncurve mn mx c)
  | None => (forall x, ~ In (Some x) c) /\
            amb_pixel mn mx etas c = Z.of_nat (length etas) * Z.of_nat (length c)
  end.
Proof. exact ambiguity_def. Qed.

(* for a similarity measure the kernels run on the opposite costs: the reference cost is the
   opposite of the curve's largest cost (the pixel's best) *)
Theorem C12_ambiguity_best_for_max_measures : forall (c : curve) m,
  nanmin (map (option_map Qopp) c) = Some m ->
  exists b, In (Some b) c /\ (m == - b)%Q /\ forall x, In (Some x) c -> (x <= b)%Q.
Proof. exact orient_max_best. Qed.

(* normalised ambiguity confidence: every value finite and in [0,1], for EVERY volume
   (the tree carries the zero-range guard: guarded = true) *)
Theorem C12_ambiguity_normalised_in_01 : forall is_min p etas v,
  all_in01 (amb_confidence true true is_min p etas v).
Proof. intros. apply amb_confidence_in01. left. reflexivity. Qed.

(* the un-guarded division (the code before the repair) satisfies it exactly when the clipped
   map is not constant ... *)
Theorem C12_ambiguity_normalised_in_01_unguarded : forall is_min p etas v,
  match clipped p (map (map inject_Z) (amb_map etas (orient is_min v))) with
  | Some cl => scale_guard cl | None => True end ->
  all_in01 (amb_confidence false true is_min p etas v).
Proof. intros. apply amb_confidence_in01. right. assumption. Qed.

(* ... and fails on the D12 witness, the 1-pixel volume [[[1,2,3]]] (regression example) *)
Definition d12_witness : volume := [[[Some 1%Q; Some 2%Q; Some 3%Q]]].
Theorem C12_ambiguity_unguarded_refuted :
  amb_confidence false true true 1 [0%Q; (1#8)%Q] d12_witness = [[None]]
  /\ match amb_confidence true true true 1 [0%Q; (1#8)%Q] d12_witness with
     | [[Some y]] => (y == 1)%Q | _ => False end.
Proof. split; vm_compute; reflexivity. Qed.

(* ---- risk: per eta, sampled ambiguity = number of retained disparities, spread = greatest - least *)
Theorem C12_risk_def : forall ref eta nc,
  samp_amb ref nc eta = spec_card ref eta nc /\
  match spread (kept_from 0 (ref + eta)%Q nc) with
  | Some s => spec_spread ref eta nc s
  | None => forall d, ~ retained ref eta nc d
  end.
Proof. exact risk_def. Qed.

(* 0 <= risk_min <= risk_max (both NaN only together) for every curve, eta list, normalisation *)
Theorem C12_risk_order : forall mn mx etas c,
  match risk_pixel mn mx etas c with
  | (Some rmax, Some rmin) => (0 <= rmin /\ rmin <= rmax)%Q
  | (None, None) => True
  | _ => False
  end.
Proof. exact risk_order. Qed.

(* and both are finite for every curve with a finite cost *)
Theorem C12_risk_finite : forall mn mx etas c x,
  In (Some x) c -> etas <> [] -> Forall (fun e => 0 <= e)%Q etas ->
  exists rmax rmin, risk_pixel mn mx etas c = (Some rmax, Some rmin).
Proof. exact risk_finite. Qed.

(* ---- interval bounds: possibility formula of the user guide ... *)
Theorem C12_possibility_def : forall mn mx (is_min : bool) (c : curve) j x,
  (mn < mx)%Q -> nth_error c j = Some (Some x) ->
  exists best p,
    (if is_min then is_best_min c best else In (Some best) c /\ forall y, In (Some y) c -> (y <= best)%Q)
    /\ nth_error (possibility (type_factor is_min) (ncurve mn mx c)) j = Some (Some p)
    /\ (p == 1 - (if is_min then norm mn mx x - norm mn mx best else norm mn mx best - norm mn mx x))%Q.
Proof. exact possibility_def. Qed.

(* ... extreme disparities reaching the threshold, moved one sample outwards when their possibility is 1 *)
Theorem C12_bounds_def : forall mn mx tf thr c,
  let ps := possibility tf (ncurve mn mx c) in
  match bounds_idx mn mx tf thr c with
  | Some (lo', hi') =>
    exists lo hi, least (selected thr ps) lo /\ greatest (selected thr ps) hi
      /\ lo' = (if is_one (znth_error ps lo) then Z.max 0 (lo - 1) else lo)
      /\ hi' = (if is_one (znth_error ps hi) then Z.min (Z.of_nat (length c) - 1) (hi + 1) else hi)
  | None => forall d, ~ selected thr ps d
  end.
Proof. exact bounds_def. Qed.

(* inf <= winner-takes-all disparity <= sup for every valid pixel (a curve with a finite cost has
   a winner: C12_wta_exists), min and max measures, every threshold <= 1; d_wta is the winner of
   the volume the confidence step saw *)
Theorem C12_wta_exists : forall is_min c x, In (Some x) c -> exists w, wta is_min c = Some w.
Proof. exact wta_some. Qed.

Theorem C12_bounds_bracket_wta : forall mn mx is_min thr disps c w,
  (mn < mx)%Q -> (thr <= 1)%Q -> length disps = length c -> increasing disps ->
  wta is_min c = Some w ->
  exists dinf dw dsup,
    bounds_pixel mn mx (type_factor is_min) thr disps c = (Some dinf, Some dsup)
    /\ znth_error disps w = Some dw /\ (dinf <= dw)%Q /\ (dw <= dsup)%Q.
Proof. exact bounds_bracket_wta. Qed.

(* a volume with two distinct finite costs has min < max, and its maps are the pixel kernels
   applied everywhere with that min and max (so the pixel theorems above apply to every pixel) *)
Theorem C12_maps_are_pixelwise : forall (v : volume) a b etas tf thr disps,
  In (Some a) (concat (concat v)) -> In (Some b) (concat (concat v)) -> ~ (a == b)%Q ->
  exists mn mx, vol_min v = Some mn /\ vol_max v = Some mx /\ (mn < mx)%Q
    /\ amb_map etas v = map (map (amb_pixel mn mx etas)) v
    /\ risk_map etas v = map (map (risk_pixel mn mx etas)) v
    /\ bounds_map tf thr disps v = map (map (bounds_pixel mn mx tf thr disps)) v.
Proof. exact maps_are_pixelwise. Qed.

(* ---- regularisation with quantile 1 can only widen: at every pixel whose old bound is finite the new
   inf is finite and <= the old one, the new sup finite and >= the old one (every ambiguity map,
   threshold, kernel size, depth) *)
Theorem C12_regularisation_q1_widens : forall inf sup amb thr k depth q r c,
    (q == 1)%Q ->
    let res := regularize inf sup amb thr k depth q in
    (forall x, cell inf r c = Some (Some x) -> exists y, cell (fst res) r c = Some (Some y) /\ (y <= x)%Q)
    /\ (forall x, cell sup r c = Some (Some x) -> exists y, cell (snd res) r c = Some (Some y) /\ (x <= y)%Q).
Proof. exact regularisation_q1_widens. Qed.

(* std_intensity.  Full statement (NOT proved): the model's variance raster, computed like
   compute_mean_raster / compute_std_raster with two passes of cumulative sums, is at every window
   position the mean of the squares minus the squared mean of the w x w left window. *)
Definition window (w : nat) (img : list (list Q)) (r c : nat) : list Q :=
  concat (map (fun row => firstn w (skipn c row)) (firstn w (skipn r img))).
Definition C12_std_def_full : Prop :=
  forall (w : nat) img r c, (0 < w)%nat ->
    (forall row, In row img -> length row = length (hd [] img)) ->
    (r + w <= length img)%nat -> (c + w <= length (hd [] img))%nat ->
    exists v, cell (var_raster (Z.of_nat w) img) r c = Some v /\
      let n := inject_Z (Z.of_nat (w * w)) in
      (v == qsum (map (fun x => x * x) (window w img r c)) / n
            - (qsum (window w img r c) / n) * (qsum (window w img r c) / n))%Q.
(* Proved part: each 1-D pass (window differences of the cumulative sums preceded by a zero) is the
   direct sliding-window sum, for every window size, every list, every position.  Missing: the
   composition of the two passes through the transposition (a lemma on [transpose]) and the division;
   the 2-D result is covered by the correspondence (model variance vs band^2) and by the oracle
   (numpy std of each window) on every run. *)
Theorem C12_std_def_partial :
  forall w l i, (i + w <= length l)%nat ->
    exists y, nth_error (winsum w l) i = Some y /\ (y == qsum (firstn w (skipn i l)))%Q.
Proof. exact std_def_1d. Qed.

(* Non-vacuity: a volume with two distinct finite costs, a NaN hole and a tie; hypotheses of the
   bracket theorem hold and the concrete values are the expected ones. *)
Definition ex_curve : curve := [Some 3%Q; None; Some 1%Q; Some 1%Q; Some 5%Q].
Example C12_example_hyps :
  wta true ex_curve = Some 2
  /\ bounds_pixel 1 5 (type_factor true) (9 # 10) [(-2)%Q; (-1)%Q; 0%Q; 1%Q; 2%Q] ex_curve = (Some (-1)%Q, Some 2%Q)
  /\ amb_pixel 1 5 [0%Q; (1#2)%Q] ex_curve = 7
  /\ risk_pixel 1 5 [0%Q; (1#2)%Q] ex_curve = (Some ((2 + 3) / 2)%Q, Some ((0 + 0) / 2)%Q).
Proof. repeat split; vm_compute; reflexivity. Qed.

Print Assumptions C12_bands_append_only.
Print Assumptions C12_suffix_rule.
Print Assumptions C12_confidence_steps_transparent.
Print Assumptions C12_ambiguity_def.
Print Assumptions C12_ambiguity_best_for_max_measures.
Print Assumptions C12_ambiguity_normalised_in_01.
Print Assumptions C12_ambiguity_normalised_in_01_unguarded.
Print Assumptions C12_ambiguity_unguarded_refuted.
Print Assumptions C12_risk_def.
Print Assumptions C12_risk_order.
Print Assumptions C12_risk_finite.
Print Assumptions C12_possibility_def.
Print Assumptions C12_bounds_def.
Print Assumptions C12_wta_exists.
Print Assumptions C12_bounds_bracket_wta.
Print Assumptions C12_maps_are_pixelwise.
Print Assumptions C12_regularisation_q1_widens.
Print Assumptions C12_std_def_partial.
