(* C20 -- Reported margins are a pure, monotone function of the checked pipeline.
   Statements only; proofs are `exact <lemma>` from Proofs/MarginsP.v, instantiated
   with the margin tables regenerated from /repo (Gen/Margins.v). *)
From Coq Require Import List Bool ZArith QArith.
From Pandora Require Import Model.Machine Model.Margins Spec.Language Spec.Margins
     Proofs.MachineP Proofs.MarginsP Gen.Margins.
Import ListNotations.
Open Scope Z_scope.

(* Per-run obligation on the regenerated tables: which callback registers
   under which map, and the margin expression of every class, equal the
   documented table (decidable comparison over 10 kinds and 3 filter methods). *)
Theorem C20_tables_ok : tables_ok gen_margin_tables = true.
Proof. vm_compute. reflexivity. Qed.

(* After checking an accepted pipeline on a fresh machine (empty margins,
   step 1), for every image size and every parameter value of the documented
   domains: the cumulative and non-cumulative maps list exactly the
   margin-bearing steps, in pipeline order, with their documented values. *)
Theorem C20_margins_eq_spec : forall rows cols p,
  pipeline_shape p -> all_params_ok rows cols p = true ->
  check_margins gen_margin_tables (rows, cols) (rows, cols) 1 g0 p =
    Some (mkG (spec_cum rows cols (pipeline_step p) p) (spec_non rows cols (pipeline_step p) p)).
Proof. exact (fun rows cols p => check_margins_spec gen_margin_tables rows cols p C20_tables_ok). Qed.

(* Per-run obligation read from the source of PandoraMachine.check_conf: the first round starts
   with `self.margins = GlobalMargins()`. *)
Theorem C20_check_resets_margins : gen_check_resets_margins = true.
Proof. vm_compute. reflexivity. Qed.

(* The same on ANY machine object: whatever margins [g] an earlier check of ANY pipeline left on
   it and whatever `step` it holds, checking an accepted pipeline yields exactly the documented
   entries of THIS pipeline -- in particular what a fresh machine yields (margins are a function
   of the checked pipeline, not of the machine's past). *)
Theorem C20_margins_any_history : forall rows cols p st0 g,
  pipeline_shape p -> all_params_ok rows cols p = true ->
  machine_check_margins gen_check_resets_margins gen_margin_tables (rows, cols) (rows, cols) st0 g p =
    Some (mkG (spec_cum rows cols (pipeline_step p) p) (spec_non rows cols (pipeline_step p) p)).
Proof.
  rewrite C20_check_resets_margins.
  exact (fun rows cols p st0 g => check_margins_any_machine gen_margin_tables rows cols p st0 g C20_tables_ok).
Qed.

Corollary C20_margins_same_as_fresh : forall rows cols p st0 g,
  pipeline_shape p -> all_params_ok rows cols p = true ->
  machine_check_margins gen_check_resets_margins gen_margin_tables (rows, cols) (rows, cols) st0 g p =
  check_margins gen_margin_tables (rows, cols) (rows, cols) 1 g0 p.
Proof.
  intros rows cols p st0 g Hs Ho. rewrite (C20_margins_any_history rows cols p st0 g Hs Ho).
  symmetry. exact (C20_margins_eq_spec rows cols p Hs Ho).
Qed.

(* Regression witness of the repaired defect (margins were never reset): without the reset,
   checking B = [matching_cost; disparity] after A = [matching_cost; disparity; filter(median 3)]
   on the same machine reports A's filter margin for B. *)
Definition ex_A : list mstep :=
  [ mkMs 0 MC FMedian 5 3 (1#1) 1; mkMs 1 Dsp FMedian 5 3 (1#1) 1; mkMs 2 Flt FMedian 5 3 (1#1) 1 ].
Definition ex_B : list mstep := [ mkMs 0 MC FMedian 5 3 (1#1) 1; mkMs 1 Dsp FMedian 5 3 (1#1) 1 ].
Theorem C20_stale_margins_before_fix :
  exists gA, check_margins gen_margin_tables (9, 20) (9, 20) 1 g0 ex_A = Some gA /\
    option_map g_non (machine_check_margins false gen_margin_tables (9, 20) (9, 20) 1 gA ex_B)
      = Some [(2, mkMg 3 3 3 3)] /\
    option_map g_non (machine_check_margins true gen_margin_tables (9, 20) (9, 20) 1 gA ex_B) = Some [].
Proof. eexists. split; [vm_compute; reflexivity|]. split; vm_compute; reflexivity. Qed.

(* the shape hypothesis is what C01's accepted language gives *)
Theorem C20_accepted_has_shape : forall p d,
  path_ok Begin (map to_step p) = Some d -> NoDup (map ms_id p) -> pipeline_shape p.
Proof. exact accepted_pipeline_shape. Qed.

(* the second (right/left) checking round a validation step triggers changes nothing *)
Theorem C20_second_round_noop : forall rows cols p,
  pipeline_shape p -> all_params_ok rows cols p = true ->
  check_margins gen_margin_tables (rows, cols) (rows, cols) 1 g0 p =
    option_map fst (check_round_margins gen_margin_tables rows cols 1 g0 p).
Proof. exact (fun rows cols p => second_round_noop gen_margin_tables rows cols p C20_tables_ok). Qed.

(* global margins: per side, the larger of the sum of the cumulative margins
   and each non-cumulative one -- for every content of the two maps *)
Theorem C20_global_formula : forall f g, is_side f ->
  let G := f (global_margins g) in
  side_sum f (g_cum g) <= G
  /\ (forall k v, In (k, v) (g_non g) -> f v <= G)
  /\ (G = side_sum f (g_cum g) \/ exists k v, In (k, v) (g_non g) /\ G = f v).
Proof. exact global_formula. Qed.

Theorem C20_margins_nonneg : forall rows cols p f, is_side f ->
  all_params_ok rows cols p = true ->
  let st := pipeline_step p in
  let g := mkG (spec_cum rows cols st p) (spec_non rows cols st p) in
  dict_nonneg f (g_cum g) /\ dict_nonneg f (g_non g) /\ 0 <= f (global_margins g).
Proof. exact margins_nonneg. Qed.

(* adding a step (anywhere after the matching-cost step) never decreases a side *)
Theorem C20_margins_monotone : forall rows cols s0 a s b f, is_side f ->
  all_params_ok rows cols (s0 :: a ++ s :: b) = true ->
  let st := ms_mcstep s0 in
  let g  := mkG (spec_cum rows cols st (s0 :: a ++ b)) (spec_non rows cols st (s0 :: a ++ b)) in
  let g' := mkG (spec_cum rows cols st (s0 :: a ++ s :: b)) (spec_non rows cols st (s0 :: a ++ s :: b)) in
  f (global_margins g) <= f (global_margins g').
Proof. exact margins_monotone. Qed.

(* "half the matching window" *)
Theorem C20_half_window : forall w, 1 <= w -> Z.odd w = true -> 2 * ((w - 1) / 2) + 1 = w.
Proof. exact half_window. Qed.

(* Non-vacuity: a concrete accepted pipeline with a bilateral filter whose
   window is larger than the image, a validation step and step = 2. *)
Definition ex_p : list mstep :=
  [ mkMs 0 MC FMedian 11 3 (1#1) 2; mkMs 1 Opt FMedian 5 3 (1#1) 1; mkMs 2 Dsp FMedian 5 3 (1#1) 1;
    mkMs 3 Flt FBilateral 5 3 (7#2) 1; mkMs 4 Val FMedian 5 3 (1#1) 1; mkMs 5 Flt FMedian 5 7 (1#1) 1 ].
Example C20_example :
  pipeline_shape ex_p /\ all_params_ok 9 20 ex_p = true
  /\ option_map global_margins (check_margins gen_margin_tables (9, 20) (9, 20) 1 g0 ex_p)
     = Some (mkMg 45 45 45 45).
Proof.
  split; [|split; vm_compute; reflexivity].
  split; [split; reflexivity|]. repeat constructor; simpl; intuition discriminate.
Qed.

Print Assumptions C20_tables_ok.
Print Assumptions C20_margins_eq_spec.
Print Assumptions C20_check_resets_margins.
Print Assumptions C20_margins_any_history.
Print Assumptions C20_margins_same_as_fresh.
Print Assumptions C20_stale_margins_before_fix.
Print Assumptions C20_accepted_has_shape.
Print Assumptions C20_second_round_noop.
Print Assumptions C20_global_formula.
Print Assumptions C20_margins_nonneg.
Print Assumptions C20_margins_monotone.
Print Assumptions C20_half_window.
