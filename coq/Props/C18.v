(* C18 -- runs are reproducible and side-effect free whatever the threading.
   Statements only; proofs are `exact <lemma>` from Proofs/PrangeP.v and Proofs/HistoryP.v,
   instantiated with the data regenerated from /repo on every run:
     Gen/Prange.v   (array accesses of every numba prange loop, translator/gen_prange.py)
     Gen/History.v  (attribute reads/writes of the run callbacks, shared schema dictionaries,
                     translator/gen_history.py)
     Gen/Tables.v   (transition tables, C01).

   What is proved: the LOGIC -- (a) a parallel loop whose iterations have disjoint footprints
   gives, under every interleaving of the atomic reads and writes of its iterations (every
   thread count, chunking, permutation), the memory of the sequential loop; the generated
   access lists of all prange loops of Pandora have that shape; (b) the products of a run are
   a function of (pipeline, inputs) for every history of check/run calls.
   What is NOT proved (sampled by harness/props/c18.py): that numba's compiled code and
   threading layer implement these semantics, float evaluation inside one iteration, in-place
   writes through numpy views into the caller's datasets. *)
From Coq Require Import List Bool ZArith String Permutation.
From Pandora Require Import Model.Prange Proofs.PrangeP Gen.Prange Spec.Reproducible.
From Pandora Require Import Model.Machine Spec.Language Proofs.MachineP Gen.Tables.
From Pandora Require Import Model.History Proofs.HistoryP Gen.History.
Import ListNotations.
Open Scope Z_scope.

(* ------------------------------------------------------------------ threading *)

(* Semantics: every schedule of a loop with disjoint footprints = the sequential loop.
   R i / W i: cells iteration i may read / write; K: cells that only ever receive one fixed
   value and are never read (idempotent stores). *)
Theorem C18_par_for_schedule_independent :
  forall (val : Type) (R W : nat -> cell -> bool) (K : cell -> option val),
    disjoint_fp val R W K ->
    forall (n : nat) (P : nat -> prog val) (m0 : mem val),
      (forall i, fp_ok val (R i) (W i) K (P i)) -> (forall i, (n <= i)%nat -> P i = Done) ->
      forall (s : list nat) pool' m', run_sched val s P m0 = (pool', m') ->
        (forall i, pool' i = Done) ->
        forall c, m' c = seq_run val n P m0 c.
Proof. exact par_for_schedule_independent. Qed.

(* whole iterations in any order (a permutation; chunks given to threads that run in turn) *)
Theorem C18_par_for_permutation_independent :
  forall (val : Type) (R W : nat -> cell -> bool) (K : cell -> option val),
    disjoint_fp val R W K ->
    forall (n : nat) (P : nat -> prog val) (m0 : mem val),
      (forall i, fp_ok val (R i) (W i) K (P i)) ->
      forall l, Permutation l (seq 0 n) -> forall c, run_list val l P m0 c = seq_run val n P m0 c.
Proof. exact par_for_permutation_independent. Qed.

(* Per-run obligation on the regenerated access lists: every array a prange body stores into
   is indexed by the loop variable at one fixed position in ALL its stores and loads (or only
   receives one literal, or is addressed through read-only index tables), no scalar is
   carried across iterations, no order-dependent reduction sits in a parallel function. *)
Theorem C18_prange_race_free : forallb race_free_b prange_nests = true.
Proof. vm_compute. reflexivity. Qed.

(* every parallel kernel is under the documented PANDORA_NUMBA_PARALLEL switch *)
Theorem C18_parallel_switch : forallb n_switch prange_nests = true.
Proof. vm_compute. reflexivity. Qed.

(* the only stores that rely on a precondition on the DATA (pairwise disjoint segments, rule
   IND) are the two regularised bounds of interval_tools.graph_regularization *)
Theorem C18_data_precondition_arrays :
  flat_map (fun N => map (fun a => (n_fun N, a)) (ind_arrays N)) prange_nests
  = [("graph_regularization", "interval_inf_reg"); ("graph_regularization", "interval_sup_reg")]%string.
Proof. vm_compute. reflexivity. Qed.

(* Hence, for every prange loop of Pandora and every family of iteration bodies that
   performs only the listed accesses ([conforms]; [own] = which iteration's table row
   designates a cell, for rule IND): every interleaving that lets all iterations finish
   leaves exactly the memory of the sequential loop -- all cells, written or not. *)
Theorem C18_kernels_schedule_independent :
  forall N, In N prange_nests ->
  forall (val : Type) (cst : Z -> val) (own : cell -> option nat)
         (n : nat) (P : nat -> prog val) (m0 : mem val),
    (forall i, conforms val cst own N i (P i)) -> (forall i, (n <= i)%nat -> P i = Done) ->
    forall s pool' m', run_sched val s P m0 = (pool', m') -> (forall i, pool' i = Done) ->
      forall c, m' c = seq_run val n P m0 c.
Proof.
  intros N HN val cst own. apply race_free_sound.
  exact (proj1 (forallb_forall _ _) C18_prange_race_free N HN).
Qed.

(* in the words of the property (Spec/Reproducible.v) *)
Theorem C18_no_result_depends_on_schedule :
  forall N, In N prange_nests ->
  forall (val : Type) (cst : Z -> val) (own : cell -> option nat) (n : nat) (P : nat -> prog val),
    (forall i, conforms val cst own N i (P i)) -> (forall i, (n <= i)%nat -> P i = Done) ->
    same_as_sequential val n P /\ schedule_free val P.
Proof.
  intros N HN val cst own n P Hc Hd.
  assert (S : same_as_sequential val n P).
  { intros m0 s pool' m'. exact (C18_kernels_schedule_independent N HN val cst own n P m0 Hc Hd s pool' m'). }
  split; [exact S|].
  intros m0 s1 s2 pool1 m1 pool2 m2 E1 D1 E2 D2 c.
  rewrite (S m0 s1 pool1 m1 E1 D1 c). symmetry. exact (S m0 s2 pool2 m2 E2 D2 c).
Qed.

Theorem C18_kernels_permutation_independent :
  forall N, In N prange_nests ->
  forall (val : Type) (cst : Z -> val) (own : cell -> option nat)
         (n : nat) (P : nat -> prog val) (m0 : mem val),
    (forall i, conforms val cst own N i (P i)) ->
    forall l, Permutation l (seq 0 n) -> forall c, run_list val l P m0 c = seq_run val n P m0 c.
Proof.
  intros N HN val cst own. apply race_free_sound_perm.
  exact (proj1 (forallb_forall _ _) C18_prange_race_free N HN).
Qed.


(* ------------------------------------------------------------------ histories *)

(* the obligations of C01 on the regenerated transition tables, needed here *)
Lemma C01_check_table_wf_C18 : check_tbl_wf check_table = true.
Proof. vm_compute. reflexivity. Qed.
Lemma C01_run_table_wf_C18 : run_tbl_wf run_table = true.
Proof. vm_compute. reflexivity. Qed.

(* Per-run obligations on the regenerated attribute read/write sets of PandoraMachine, for the
   four values of (multiscale?, right products?): run_prepare reads no attribute but the
   persistent `step`, assigns both products and right_disp_map on every path (the callbacks all read
   right_disp_map: a run_prepare that keeps the request of an earlier pipeline fails this
   obligation); matching_cost_prepare and
   matching_cost_run read only what run_prepare or they themselves assigned; every other run
   callback reads only that (run_multiscale is exempt when there is no multiscale). *)
Definition skip_of (multi : bool) : list string := if multi then [] else multiscale_callbacks.
Theorem C18_run_attrs_covered :
  forallb (fun mr : bool * bool =>
             covered (prepare_info (fst mr)) (callback_info (snd mr)) first_callbacks (skip_of (fst mr))
             && persist_only_prepared (prepare_info (fst mr)) (callback_info (snd mr))
             && table_ok trigger_callbacks (callback_info (snd mr)) first_callbacks multiscale_callbacks)
          [(false, false); (false, true); (true, false); (true, true)] = true.
Proof. vm_compute. reflexivity. Qed.

(* the only attribute a run reads without recomputing it is `step` (assigned by
   matching_cost_check_conf, initialised by __init__); right_disp_map is reassigned by
   run_prepare on every path *)
Theorem C18_persistent_attributes :
  persist = ["step"]%string /\ subset_s persist attrs_init = true /\
  mem_s "right_disp_map" (cb_must (prepare_info false)) = true /\
  mem_s "right_disp_map" (cb_must (prepare_info true)) = true /\
  returned_attrs = products.       (* pandora.run returns exactly the two product attributes *)
Proof. split; [reflexivity|repeat split; vm_compute; reflexivity]. Qed.

(* class-level / module-level dictionaries written by check/run code: every writer overwrites
   the same keys before validating *)
Theorem C18_shared_dicts_wf : forallb shared_wf shared_dicts = true.
Proof. vm_compute. reflexivity. Qed.

Section C18_history.
  Variable value : Type.                                  (* whatever an attribute holds *)
  Variable sem : string -> Z -> store value -> store value. (* meaning of each run callback (name, configured step) *)
  Variable prep_sem : store value -> store value.         (* meaning of run_prepare for the given cfg and inputs *)

  (* The products of pandora.run are a function of (pipeline, inputs, step):
     two machines in ARBITRARY states that agree on `step` -- a fresh one and one
     that went through any calls -- return the same left and right products, for every
     accepted pipeline, number of scales, and every meaning of the callbacks that respects the
     regenerated frames (reads / assigns / may assign; attributes read may be mutated in place). *)
  Theorem C18_run_products_history_free :
    forall (p : list step) (d : state) (n : nat) (rdm : bool),
      respects value (prepare_info (1 <? n)%nat) prep_sem ->
      (forall c id, In c (callback_info rdm) -> respects value c (sem (cb_name c) id)) ->
      path_ok Begin p = Some d -> p <> [] -> (n >= 1)%nat ->
      forall s1 s2, agree value persist s1 s2 ->
        agree value products
          (run_data value sem prep_sem trigger_callbacks p n rdm s1)
          (run_data value sem prep_sem trigger_callbacks p n rdm s2).
  Proof.
    intros p d n rdm Hprep Hsem Hp Hne Hn.
    pose proof (proj1 (forallb_forall _ _) C18_run_attrs_covered ((1 <? n)%nat, rdm)) as H.
    assert (Hin : In ((1 <? n)%nat, rdm) [(false, false); (false, true); (true, false); (true, true)]).
    { destruct (1 <? n)%nat, rdm; cbn; tauto. }
    specialize (H Hin). cbn [fst snd] in H.
    apply andb_true_iff in H. destruct H as [H Ht]. apply andb_true_iff in H. destruct H as [Hc _].
    apply (run_data_history_free value sem prep_sem trigger_callbacks
             (prepare_info (1 <? n)%nat) (callback_info rdm) first_callbacks multiscale_callbacks p d n rdm);
      auto.
  Qed.

  Theorem C18_no_result_depends_on_leftovers :
    forall (p : list step) (d : state) (n : nat) (rdm : bool),
      respects value (prepare_info (1 <? n)%nat) prep_sem ->
      (forall c id, In c (callback_info rdm) -> respects value c (sem (cb_name c) id)) ->
      path_ok Begin p = Some d -> p <> [] -> (n >= 1)%nat ->
      leftover_free value (run_data value sem prep_sem trigger_callbacks p n rdm).
  Proof.
    intros p d n rdm H1 H2 H3 H4 H5 s1 s2. exact (C18_run_products_history_free p d n rdm H1 H2 H3 H4 H5 s1 s2).
  Qed.
End C18_history.

Section C18_calls.
  Variable step_ok : step -> bool -> bool.   (* parameter validity of each step (C05) *)

  (* Every history of check / run calls of one accepted pipeline on one machine -- fresh, or
     left clean by ANY earlier successful checks / runs of ANY pipelines (with or without a
     validation step: check_conf and run_prepare reassign right_disp_map) --: every run has the
     same callback trace and its callbacks read the same persistent pair: right_disp_map set iff
     a validation step is configured in THIS pipeline, step = 1.
     Hypothesis [mc_step = 1]: the `step` parameter of the matching-cost step is 1 (anything
     else is refused by AbstractMatchingCost.check_conf unless pandora2d is loaded). *)
  Theorem C18_rerun_same_trace_and_persistent_pair : forall n p d h m,
    clean m ->
    path_ok Begin p = Some d -> accept_b step_ok p = true ->
    (n >= 1)%nat -> ((n > 1)%nat -> has_kind Msc p = true) ->
    hhistory check_table run_table step_ok 1 n p (m, 1%Z) h = map (hexpected n p) h.
  Proof.
    intros n p d h m Hm Hp Ha Hn Hms.
    exact (hhistory_spec check_table run_table step_ok C01_check_table_wf_C18 C01_run_table_wf_C18 1
             n p d h m 1%Z Hm eq_refl eq_refl Hp Ha Hn Hms).
  Qed.

  (* The same with calls on OTHER machine objects of the process interleaved arbitrarily (any
     pipelines, accepted or refused, any number of scales, any `step` parameters there): the
     calls made on object a, all with the accepted pipeline p, return what they return when
     nothing is interleaved. *)
  Variable mc_step_of : list step -> Z.
  Theorem C18_rerun_same_result_any_interleaving : forall a n p d ops (w : world),
    (forall o, In o ops -> w_mid o = a -> w_n o = n /\ w_p o = p) ->
    clean (fst (w a)) -> snd (w a) = 1%Z ->
    mc_step_of p = 1%Z ->
    path_ok Begin p = Some d -> accept_b step_ok p = true ->
    (n >= 1)%nat -> ((n > 1)%nat -> has_kind Msc p = true) ->
    whistory check_table run_table step_ok mc_step_of a w ops
    = map (hexpected n p) (map w_call (filter (fun o => Z.eqb (w_mid o) a) ops)).
  Proof.
    exact (whistory_spec check_table run_table step_ok C01_check_table_wf_C18 C01_run_table_wf_C18 mc_step_of).
  Qed.
End C18_calls.

(* Without the hypothesis on `step` the statement is false of the model: a machine that checked
   a pipeline whose matching-cost step is 2 runs filter_run with step = 2, a fresh machine with
   step = 1 (run_prepare never assigns `step`), and filter_run reads it.  (Not reachable in
   Pandora alone: step <> 1 is refused unless pandora2d is loaded; and the built-in filters use
   `step` only in their margins, not in filter_disparity.  Recorded as an observation.) *)
Theorem C18_step_leaks_from_check_witness :
  exists p h,
    path_ok Begin p = Some DispMap /\
    hhistory check_table run_table (fun _ _ => true) 2 1 p (machine0, 1%Z) h
    = [HRan (expected_trace p 1 false) false 1%Z; HAccepted; HRan (expected_trace p 1 false) false 2%Z] /\
    existsb (fun c => String.eqb (cb_name c) "filter_run" && mem_s "step" (cb_reads c)) (callback_info false) = true /\
    mem_s "step" (cb_may (prepare_info false)) = false.
Proof.
  exists [mkStep 0 (Some MC); mkStep 1 (Some Dsp); mkStep 2 (Some Flt)], [HRun; HCheck; HRun].
  vm_compute. repeat split.
Qed.

(* The dictionary a matching-cost class (or check_input_section variant) validates with is the
   literal overwritten by its own keys, whatever classes / variants were used before, in this
   or in other machine objects of the process. *)
Theorem C18_shared_dict_history_free :
  forall (V : Type) (d : shared), In d shared_dicts ->
  forall (h : list (list (string * V))) (mine : list (string * V)) (base : dict V),
    (forall kvs, In kvs h -> exists w, In w (sd_writers d) /\ map fst kvs = snd w) ->
    (exists w, In w (sd_writers d) /\ map fst mine = snd w) ->
    forall k, lookup V k (write_all V mine (after_history V h base)) = lookup V k (write_all V mine base).
Proof.
  intros V d Hd h mine base Hh Hm.
  pose proof (proj1 (forallb_forall _ _) C18_shared_dicts_wf d Hd) as Hwf.
  destruct Hm as (w & Hw & Em). destruct w as [w0 ks0].
  apply (shared_wf_sound V d Hwf h mine base w0 ks0 Hw Hh). exists (w0, ks0). auto.
Qed.

(* ---------------------------------------------------------------- witnesses *)
Open Scope string_scope.

(* Non-vacuity: a 3-iteration loop  a[i] = a[i] + b[i]  conforms to its access list, the
   obligation holds, an interleaved schedule completes and gives the sequential memory. *)
Definition ex_nest : nest :=
  mkNest "example" 0 "i" true
    [mkAcc "a" false [IVar "i"] VLoad; mkAcc "a" true [IVar "i"] VOther] [] [].
Definition ex_body (i : nat) : prog Z :=
  if Nat.ltb i 3 then
    Read ("b", [Z.of_nat i]) (fun x => Read ("a", [Z.of_nat i]) (fun y => Write ("a", [Z.of_nat i]) (x + y) Done))
  else Done.
Definition ex_mem : mem Z := fun c => if String.eqb (fst c) "b" then 10 * (hd 0 (snd c) + 1) else hd 0 (snd c).
Definition ex_sched : list nat := [2; 0; 1; 1; 0; 2; 2; 1; 0]%nat.

Example C18_example_hyps :
  race_free_b ex_nest = true /\
  (forall i, conforms Z (fun z => z) (fun _ => None) ex_nest i (ex_body i)) /\
  (forall i, (3 <= i)%nat -> ex_body i = Done) /\
  (forall i, fst (run_sched Z ex_sched ex_body ex_mem) i = Done) /\
  map (fun i => snd (run_sched Z ex_sched ex_body ex_mem) ("a", [i])) [0; 1; 2] = [10; 21; 32] /\
  map (fun i => seq_run Z 3 ex_body ex_mem ("a", [i])) [0; 1; 2] = [10; 21; 32].
Proof.
  split; [vm_compute; reflexivity|]. split.
  { intros i. unfold ex_body. destruct (Nat.ltb i 3); [|exact I]. cbn.
    split; [left; reflexivity|]. intros x. split.
    - right. exists (mkAcc "a" false [IVar "i"] VLoad). split; [left; reflexivity|].
      repeat split; try reflexivity. cbn. discriminate.
    - intros y. split; [|exact I].
      exists (mkAcc "a" true [IVar "i"] VOther). split; [right; left; reflexivity|].
      repeat split; try reflexivity. cbn. discriminate. }
  split.
  { intros i Hi. unfold ex_body. destruct (Nat.ltb_spec i 3); [exfalso; apply (Nat.lt_irrefl 3); eapply Nat.le_lt_trans; eauto|reflexivity]. }
  split; [|split; vm_compute; reflexivity].
  intros i. destruct i as [|[|[|i]]]; reflexivity.
Qed.

(* Non-vacuity of the history theorems: a pipeline with validation and multiscale, two scales;
   a world where object 7 checks and runs it while object 3 has another pipeline refused and
   runs a third one in between. *)
Definition ex_p : list step :=
  [mkStep 0 (Some MC); mkStep 1 (Some Cvc); mkStep 2 (Some Dsp); mkStep 3 (Some Ref);
   mkStep 4 (Some Val); mkStep 5 (Some Msc)].
Definition ex_other : list step := [mkStep 0 (Some MC); mkStep 1 (Some Dsp); mkStep 2 (Some Flt)].
Definition ex_bad : list step := [mkStep 0 (Some Dsp)].
Definition ex_ops : list wop :=
  [mkWop 7 HRun 2 ex_p; mkWop 3 HCheck 1 ex_bad; mkWop 7 HCheck 2 ex_p; mkWop 3 HRun 1 ex_other;
   mkWop 7 HRun 2 ex_p; mkWop 3 HCheck 1 ex_other; mkWop 7 HRun 2 ex_p].
Example C18_history_example_hyps :
  path_ok Begin ex_p = Some DispMap /\ accept_b (fun _ _ => true) ex_p = true /\
  has_kind Msc ex_p = true /\
  whistory check_table run_table (fun _ _ => true) (fun p => if Nat.eqb (List.length p) 3 then 2%Z else 1%Z)
           7 (fun _ => (machine0, 1%Z)) ex_ops
  = [HRan (expected_trace ex_p 2 true) true 1%Z; HAccepted;
     HRan (expected_trace ex_p 2 true) true 1%Z; HRan (expected_trace ex_p 2 true) true 1%Z] /\
  List.length (cbs_of_trace trigger_callbacks (expected_trace ex_p 2 true)) = 13%nat.
Proof. vm_compute. repeat split. Qed.

(* The obligation is not vacuous: a shared accumulator  acc[0] += 1  is rejected by
   [race_free_b], and indeed a schedule exists that loses an update. *)
Definition racy_nest : nest :=
  mkNest "racy" 0 "i" true
    [mkAcc "acc" false [IConstZ 0] VLoad; mkAcc "acc" true [IConstZ 0] VOther] [] [].
Definition racy_body (i : nat) : prog Z :=
  if Nat.ltb i 2 then Read ("acc", [0]) (fun y => Write ("acc", [0]) (y + 1) Done) else Done.
Example C18_race_witness :
  race_free_b racy_nest = false /\
  snd (run_sched Z [0; 1; 0; 1]%nat racy_body (fun _ => 0)) ("acc", [0]) = 1 /\
  seq_run Z 2 racy_body (fun _ => 0) ("acc", [0]) = 2.
Proof. vm_compute. repeat split. Qed.

(* mutations the obligation rejects: a store one column to the right; a carried scalar; a
   float sum at the top of a parallel function *)
Example C18_rejected_shapes :
  race_free_b (mkNest "k" 0 "col" true
     [mkAcc "out" true [IVar "row"; IOther] VOther] [] []) = false /\
  race_free_b (mkNest "k" 0 "row" true
     [mkAcc "out" true [IVar "row"] VOther] ["total"] []) = false /\
  race_free_b (mkNest "k" 0 "row" true
     [mkAcc "out" true [IVar "row"] VOther] [] ["sum"]) = false /\
  race_free_b (mkNest "k" 0 "row" true
     [mkAcc "out" true [IVar "row"] VOther; mkAcc "out" false [IOther] VLoad] [] []) = false.
Proof. vm_compute. repeat split. Qed.

Print Assumptions C18_par_for_schedule_independent.
Print Assumptions C18_par_for_permutation_independent.
Print Assumptions C18_prange_race_free.
Print Assumptions C18_parallel_switch.
Print Assumptions C18_data_precondition_arrays.
Print Assumptions C18_kernels_schedule_independent.
Print Assumptions C18_no_result_depends_on_schedule.
Print Assumptions C18_kernels_permutation_independent.
Print Assumptions C18_run_attrs_covered.
Print Assumptions C18_persistent_attributes.
Print Assumptions C18_shared_dicts_wf.
Print Assumptions C18_run_products_history_free.
Print Assumptions C18_no_result_depends_on_leftovers.
Print Assumptions C18_rerun_same_trace_and_persistent_pair.
Print Assumptions C18_rerun_same_result_any_interleaving.
Print Assumptions C18_step_leaks_from_check_witness.
Print Assumptions C18_shared_dict_history_free.
