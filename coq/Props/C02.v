(* C02 -- Cost volume holds the configured similarity measure, NaN where not computable.
   Statements only; proofs are in Proofs/MatchingCostP.v.  The model (Model/MatchingCost.v) is tied
   to the code by the correspondence run of harness/props/c02.py; the spec is Spec/Cost.v.

   Reading guide: [inp] holds the two images (selected band), the optional masks, window size,
   subpix and the per-pixel interval grids (a scalar interval is a constant grid); the disparity
   axis has [nb_disp s dmin dmax] samples, sample k being d = dmin + k/s, represented by the integer
   D = disp_scaled s dmin k = d * s.  [None] is NaN.  The images are total functions: the theorems
   hold for EVERY extension outside [0,ny) x [0,nx), so no cost depends on an out-of-range read. *)
From Coq Require Import ZArith List Bool QArith.
From Pandora Require Import Model.MatchingCost Spec.Cost Proofs.MatchingCostP.
Import ListNotations.
Open Scope Z_scope.

(* SAD: for every image size, odd window, subpix >= 1, masks, interval grids, every pixel and sample,
   the cost is the sum of absolute differences of the two windows when computable, NaN otherwise *)
Theorem C02_sad_model_eq_spec : forall inp dmin dmax r c k,
  0 < i_w inp /\ Z.odd (i_w inp) = true /\ 0 < i_s inp ->
  0 <= r < i_ny inp -> 0 <= c < i_nx inp -> 0 <= k < nb_disp (i_s inp) dmin dmax ->
  sad_volume inp dmin dmax r c k =
  let D := disp_scaled (i_s inp) dmin k in
  if computable (i_ny inp) (i_nx inp) (i_w inp) (i_s inp) (i_mL inp) (i_mR inp) (i_vp inp) (i_nd inp)
                (i_gmin inp) (i_gmax inp) r c D
  then Some (Qred (sad_spec (i_w inp) (i_s inp) (i_L inp) (i_R inp) r c D)) else None.
Proof. exact sad_model_eq_spec. Qed.

Theorem C02_ssd_model_eq_spec : forall inp dmin dmax r c k,
  0 < i_w inp /\ Z.odd (i_w inp) = true /\ 0 < i_s inp ->
  0 <= r < i_ny inp -> 0 <= c < i_nx inp -> 0 <= k < nb_disp (i_s inp) dmin dmax ->
  ssd_volume inp dmin dmax r c k =
  let D := disp_scaled (i_s inp) dmin k in
  if computable (i_ny inp) (i_nx inp) (i_w inp) (i_s inp) (i_mL inp) (i_mR inp) (i_vp inp) (i_nd inp)
                (i_gmin inp) (i_gmax inp) r c D
  then Some (Qred (ssd_spec (i_w inp) (i_s inp) (i_L inp) (i_R inp) r c D)) else None.
Proof. exact ssd_model_eq_spec. Qed.

(* point_interval: left column c belongs to the left range iff columns floor(c + d) and ceil(c + d)
   are inside the right image; the matched column of resampled image i is c + floor d; the two
   ranges always have the same length (the slice assignment cannot fail to broadcast) *)
Theorem C02_point_interval_spec : forall s nx D c, 0 < s -> 0 <= c < nx ->
  let pq := point_interval s nx (shift_width nx (i_right s D)) D in
  (fst (fst pq) <= c < snd (fst pq) <-> 0 <= c + D / s /\ c + - ((- D) / s) <= nx - 1)
  /\ fst (snd pq) - fst (fst pq) = D / s
  /\ snd (fst pq) - fst (fst pq) = snd (snd pq) - fst (snd pq).
Proof.
  intros s nx D c Hs Hc. cbv zeta. split; [exact (pi_spec s nx D Hs c Hc)|].
  split; [exact (pi_offset s nx D Hs)|exact (pi_same_length s nx D Hs)].
Qed.

(* dsp = int((disp - dmin) * subpix) is the index of the sample on the disparity axis *)
Theorem C02_dsp_index : forall s dmin k, dsp_index s dmin (disp_scaled s dmin k) = k.
Proof. intros. unfold dsp_index, disp_scaled. ring. Qed.

(* reported type of measure and maximal cost *)
Theorem C02_measure_metadata : forall inp,
  type_measure_min Sad = true /\ type_measure_min Ssd = true /\ type_measure_min Census = true
  /\ type_measure_min Zncc = false
  /\ cmax Census inp = i_w inp * i_w inp /\ cmax Zncc inp = 1.
Proof. intros. repeat split. Qed.

(* Non-vacuity: a 3x5 pair, window 3, subpix 2, a nodata pixel in the corner of the right mask,
   per-pixel interval grids.  At the centre row, column 2: the cost exists at d = +1/2 (SAD 9/2, SSD
   17/4) and at d = 0, is NaN at d = -1/2 (the nodata pixel is in the right window); at column 3 the
   cost at d = 0 is NaN only because 0 is below that pixel's minimum disparity 1. *)
Definition ex_img (l : list (list Z)) : img :=
  fun r c => nth (Z.to_nat c) (nth (Z.to_nat r) l []) 0.
Definition ex_inp : mc_input :=
  MkIn 3 5 3 2 (ex_img [[1;2;3;4;5];[2;4;6;8;9];[1;1;2;3;5]]) (ex_img [[1;3;2;4;6];[2;5;6;7;9];[0;1;2;2;5]])
       None (Some (ex_img [[1;0;0;0;0];[0;0;0;0;0];[0;0;0;0;0]])) 0 1
       (fun _ c => if c =? 3 then 1 else -1) (fun _ _ => 1).
Example C02_example :
  sad_volume ex_inp (-1) 1 1 2 3 = Some (9 # 2)%Q /\ ssd_volume ex_inp (-1) 1 1 2 3 = Some (17 # 4)%Q
  /\ sad_volume ex_inp (-1) 1 1 2 2 = Some 5%Q /\ sad_volume ex_inp (-1) 1 1 2 1 = None
  /\ sad_volume ex_inp (-1) 1 1 3 2 = None.
Proof. vm_compute. repeat split. Qed.

Print Assumptions C02_sad_model_eq_spec.
Print Assumptions C02_ssd_model_eq_spec.
Print Assumptions C02_point_interval_spec.
Print Assumptions C02_dsp_index.
Print Assumptions C02_measure_metadata.
