(* C02 -- placeholder while the proofs are being written *)
From Coq Require Import ZArith Lia.
From Pandora Require Import Model.MatchingCost.
Open Scope Z_scope.
Theorem C02_dsp_index : forall s dmin k, dsp_index s dmin (disp_scaled s dmin k) = k.
Proof. intros. unfold dsp_index, disp_scaled. lia. Qed.
Print Assumptions C02_dsp_index.
