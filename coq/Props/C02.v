(* C02 -- Cost volume holds the configured similarity measure, NaN where not computable.
   Statements only; proofs are in Proofs/MatchingCostP.v (sad, ssd, index arithmetic, masks),
   Proofs/PopcountP.v + Proofs/CensusP.v (census) and Proofs/ZnccP.v (zncc).  The model (Model/MatchingCost.v) is tied
   to the code by the correspondence run of harness/props/c02.py; the spec is Spec/Cost.v.

   Reading guide: [inp] holds the two images (selected band), the optional masks, window size,
   subpix and the per-pixel interval grids (a scalar interval is a constant grid); the disparity
   axis has [nb_disp s dmin dmax] samples, sample k being d = dmin + k/s, represented by the integer
   D = disp_scaled s dmin k = d * s.  [None] is NaN.  The images are total functions: the theorems
   hold for EVERY extension outside [0,ny) x [0,nx), so no cost depends on an out-of-range read. *)
From Coq Require Import ZArith List Bool QArith.
From Pandora Require Import Model.MatchingCost Spec.Cost Proofs.MatchingCostP Proofs.PopcountP Proofs.CensusP Proofs.ZnccP.
From Pandora Require Import Model.PyArith Proofs.PointIntervalGenP.
From Pandora Require Gen.PointInterval.
From Pandora Require Import Lib.NpArr Proofs.CensusZnccFnsP.
From Pandora Require Gen.CensusZnccFns.
Import ListNotations.
Open Scope Z_scope.

(* SAD: for every image size, odd window, subpix >= 1, masks, interval grids, every pixel and sample,
   the cost is the sum of absolute differences of the two windows when computable, NaN otherwise *)
Theorem C02_sad_model_eq_spec : forall inp dmin dmax r c k,
  0 < i_w inp /\ Z.odd (i_w inp) = true /\ 0 < i_s inp ->
  0 <= r < i_ny inp -> 0 <= c < i_nx inp -> 0 <= k < nb_disp (i_s inp) dmin dmax ->
  sad_volume inp dmin dmax r c k =
  let D := disp_scaled (i_s inp) dmin k in
  if computable (i_ny inp) (i_nx inp) (i_w inp) (i_s inp) (i_mL inp) (i_mR inp) (i_vp inp) (i_nd inp)
                (i_gmin inp) (i_gmax inp) r c D
  then Some (Qred (sad_spec (i_w inp) (i_s inp) (i_L inp) (i_R inp) r c D)) else None.
Proof. exact sad_model_eq_spec. Qed.

Theorem C02_ssd_model_eq_spec : forall inp dmin dmax r c k,
  0 < i_w inp /\ Z.odd (i_w inp) = true /\ 0 < i_s inp ->
  0 <= r < i_ny inp -> 0 <= c < i_nx inp -> 0 <= k < nb_disp (i_s inp) dmin dmax ->
  ssd_volume inp dmin dmax r c k =
  let D := disp_scaled (i_s inp) dmin k in
  if computable (i_ny inp) (i_nx inp) (i_w inp) (i_s inp) (i_mL inp) (i_mR inp) (i_vp inp) (i_nd inp)
                (i_gmin inp) (i_gmax inp) r c D
  then Some (Qred (ssd_spec (i_w inp) (i_s inp) (i_L inp) (i_R inp) r c D)) else None.
Proof. exact ssd_model_eq_spec. Qed.

(* CENSUS: for every image size (images smaller than the window included: the code returns early, all NaN),
   window 1, 3 or 5 (odd, w*w <= 32 so that the bit string fits the uint32 popcount; the code accepts 3 and 5),
   subpix >= 1, masks, interval grids, every pixel and sample: the cost is the number of window pixels whose
   "greater than the centre of its window" bits differ between the left window and the (interpolated) right
   window -- the Hamming distance of the two census bit strings -- when computable, NaN otherwise *)
Theorem C02_census_model_eq_spec : forall inp dmin dmax r c k,
  0 < i_w inp /\ Z.odd (i_w inp) = true /\ 0 < i_s inp -> i_w inp * i_w inp <= 32 ->
  0 <= r < i_ny inp -> 0 <= c < i_nx inp -> 0 <= k < nb_disp (i_s inp) dmin dmax ->
  census_volume inp dmin dmax r c k =
  let D := disp_scaled (i_s inp) dmin k in
  if computable (i_ny inp) (i_nx inp) (i_w inp) (i_s inp) (i_mL inp) (i_mR inp) (i_vp inp) (i_nd inp)
                (i_gmin inp) (i_gmax inp) r c D
  then Some (Qred (census_spec (i_w inp) (i_s inp) (i_L inp) (i_R inp) r c D)) else None.
Proof. exact census_model_eq_spec. Qed.

(* Census.popcount32b returns the number of set bits of every uint32 *)
Theorem C02_popcount32b_correct : forall x, 0 <= x < 2 ^ 32 -> popcount32b x = pc 32 x.
Proof. exact popcount32b_correct. Qed.

(* census_transform writes one bit per window pixel ("pixel > centre of the window"), row-major, first pixel
   in the most significant bit; the xor/popcount of two transforms counts the window pixels whose bits differ *)
Theorem C02_census_hamming : forall w I J r c r2 c2, 0 < w -> w * w <= 32 ->
  popcount32b (Z.lxor (census_transform w I r c) (census_transform w J r2 c2))
  = zsum (map (fun a => zsum (map (fun b =>
       Z.b2z (xorb (I (r + a) (c + b) >? I (r + offset w) (c + offset w))
                   (J (r2 + a) (c2 + b) >? J (r2 + offset w) (c2 + offset w)))) (zrange 0 w))) (zrange 0 w)).
Proof. exact census_hamming. Qed.

(* ZNCC: for every image size (smaller than the window included), odd window, subpix >= 1, masks, interval
   grids, every pixel and sample: the cell is NaN exactly when the cost is not computable; otherwise it is the
   integer triple (cm, vlm, vrm) with  covariance = cm / (s w^4),  varL = vlm / w^4,  varR = vrm / (s^2 w^4)
   (covariance and variances of the two windows as the spec defines them, right window interpolated), both
   variances >= 0, and the triple determines the same cost as the spec: for every v, "v = cm / sqrt(vlm vrm), 0 when
   vlm vrm <= 0" (stated without square root by [zncc_is]) iff "v = cov / sqrt(varL varR), 0 when a variance is 0" *)
Theorem C02_zncc_model_eq_spec : forall inp dmin dmax r c k,
  0 < i_w inp /\ Z.odd (i_w inp) = true /\ 0 < i_s inp ->
  0 <= r < i_ny inp -> 0 <= c < i_nx inp -> 0 <= k < nb_disp (i_s inp) dmin dmax ->
  let D := disp_scaled (i_s inp) dmin k in
  let w := i_w inp in let s := i_s inp in
  let comp := computable (i_ny inp) (i_nx inp) w s (i_mL inp) (i_mR inp) (i_vp inp) (i_nd inp)
                         (i_gmin inp) (i_gmax inp) r c D in
  let cov := zncc_cov w s (i_L inp) (i_R inp) r c D in
  let varl := zncc_varl w s (i_L inp) (i_R inp) r c D in
  let varr := zncc_varr w s (i_L inp) (i_R inp) r c D in
  let qw4 := inject_Z (w * w * (w * w)) in
  match zncc_volume inp dmin dmax r c k with
  | Some (cm, vlm, vrm) =>
      comp = true
      /\ (cov == inject_Z cm / (inject_Z s * qw4) /\ varl == inject_Z vlm / qw4
          /\ varr == inject_Z vrm / (inject_Z (s * s) * qw4))%Q
      /\ 0 <= vlm /\ 0 <= vrm
      /\ (forall v : Q, zncc_is v (inject_Z cm) (inject_Z vlm) (inject_Z vrm) <-> zncc_is v cov varl varr)
  | None => comp = false
  end.
Proof.
  intros inp dmin dmax r c k Hwf Hr Hc Hk. cbv zeta.
  pose proof (zncc_model_eq_spec inp dmin dmax r c k Hwf Hr Hc Hk) as H. cbv zeta in H.
  destruct (zncc_volume inp dmin dmax r c k) as [[[cm vlm] vrm]|]; exact H.
Qed.

(* compute_mean_raster / compute_std_raster: the two cumulative sums (leading zero row / column, differences at
   distance w) give the direct window sum, and E[x^2] - E[x]^2 (times w^4) the direct window variance, which
   is never negative *)
Theorem C02_mean_raster_eq_window_mean : forall w ny_ nx_ I r c, 0 <= w -> 0 <= r -> 0 <= c ->
  sum_raster w ny_ nx_ I r c
  = zsum (map (fun a => zsum (map (fun b => I (r + a) (c + b)) (zrange 0 w))) (zrange 0 w))
  /\ var_raster w ny_ nx_ I r c
    = w * w * zsum (map (fun a => zsum (map (fun b => I (r + a) (c + b) * I (r + a) (c + b)) (zrange 0 w))) (zrange 0 w))
      - sum_raster w ny_ nx_ I r c * sum_raster w ny_ nx_ I r c
  /\ (0 < w -> 0 <= var_raster w ny_ nx_ I r c).
Proof.
  intros w ny_ nx_ I r c Hw Hr Hc. split; [exact (sum_raster_eq w ny_ nx_ I r c Hw Hr Hc)|].
  split.
  - rewrite (var_raster_eq w ny_ nx_ I r c Hw Hr Hc), (sum_raster_eq w ny_ nx_ I r c Hw Hr Hc). reflexivity.
  - intros Hw'. rewrite (var_raster_eq w ny_ nx_ I r c Hw Hr Hc). apply wsum_variance_nonneg. exact Hw'.
Qed.

(* maximal cost: a census cost never exceeds cmax = w * w; a zncc cell has cov^2 <= varL varR (Cauchy-Schwarz on
   the two windows), so the cost it determines lies in [-1, 1], cmax = 1 *)
Theorem C02_census_cost_le_cmax : forall inp dmin dmax r c k z,
  0 < i_w inp /\ Z.odd (i_w inp) = true /\ 0 < i_s inp -> i_w inp * i_w inp <= 32 ->
  0 <= r < i_ny inp -> 0 <= c < i_nx inp -> 0 <= k < nb_disp (i_s inp) dmin dmax ->
  census_volume_z inp dmin dmax r c k = Some z -> 0 <= z <= cmax Census inp.
Proof. exact census_cost_bounded. Qed.

Theorem C02_zncc_cost_le_cmax : forall inp dmin dmax r c k cm vlm vrm,
  0 < i_w inp /\ Z.odd (i_w inp) = true /\ 0 < i_s inp ->
  0 <= r < i_ny inp -> 0 <= c < i_nx inp -> 0 <= k < nb_disp (i_s inp) dmin dmax ->
  zncc_volume inp dmin dmax r c k = Some (cm, vlm, vrm) ->
  cm * cm <= vlm * vrm
  /\ forall v : Q, zncc_is v (inject_Z cm) (inject_Z vlm) (inject_Z vrm) -> (v * v <= inject_Z (cmax Zncc inp))%Q.
Proof. exact zncc_volume_bounded. Qed.

(* the cost cov / sqrt(varL varR) does not depend on the scaling of the triple *)
Theorem C02_zncc_scale_invariant : forall v cov vl vr k1 k2 k3,
  (0 < k1 -> 0 < k2 -> 0 < k3 -> k1 * k1 == k2 * k3 ->
   (zncc_is v (k1 * cov) (k2 * vl) (k3 * vr) <-> zncc_is v cov vl vr))%Q.
Proof. exact zncc_is_scale. Qed.

(* point_interval: left column c belongs to the left range iff columns floor(c + d) and ceil(c + d)
   are inside the right image; the matched column of resampled image i is c + floor d; the two
   ranges always have the same length (the slice assignment cannot fail to broadcast) *)
Theorem C02_point_interval_spec : forall s nx D c, 0 < s -> 0 <= c < nx ->
  let pq := point_interval s nx (shift_width nx (i_right s D)) D in
  (fst (fst pq) <= c < snd (fst pq) <-> 0 <= c + D / s /\ c + - ((- D) / s) <= nx - 1)
  /\ fst (snd pq) - fst (fst pq) = D / s
  /\ snd (fst pq) - fst (fst pq) = snd (snd pq) - fst (snd pq).
Proof.
  intros s nx D c Hs Hc. cbv zeta. split; [exact (pi_spec s nx D Hs c Hc)|].
  split; [exact (pi_offset s nx D Hs)|exact (pi_same_length s nx D Hs)].
Qed.

(* dsp = int((disp - dmin) * subpix) is the index of the sample on the disparity axis *)
Theorem C02_dsp_index : forall s dmin k, dsp_index s dmin (disp_scaled s dmin k) = k.
Proof. intros. unfold dsp_index, disp_scaled. ring. Qed.

(* reported type of measure and maximal cost *)
Theorem C02_measure_metadata : forall inp,
  type_measure_min Sad = true /\ type_measure_min Ssd = true /\ type_measure_min Census = true
  /\ type_measure_min Zncc = false
  /\ cmax Census inp = i_w inp * i_w inp /\ cmax Zncc inp = 1.
Proof. intros. repeat split. Qed.

(* ------------------------------------------------------------------------------------------------------------
   T-gen tie of the index arithmetic.  Gen/PointInterval.v (module G below) is REGENERATED at every run from the
   source text of AbstractMatchingCost.point_interval / get_min_max_from_grid / cv_masked and of the loops over
   the disparities of SadSsd / Census / Zncc.compute_cost_volume (translator/gen_point_interval.py, Python ast,
   fail-closed).  A disparity d is the integer D = d * s (s = subpix); Model/PyArith.v gives the scaled reading
   of ceil / floor / int / % / * used by the translation.  The theorems below are per-run obligations: they are
   re-checked against the text of the day. *)

(* the scaled operations are the operations of Q / Qround on x = X / s (s = Zpos p): the encoding is not assumed *)
Theorem C02_gen_pyarith_sound : forall (p : positive) (X Y n : Z),
  (qreal p (py_real (Zpos p) n) == inject_Z n)%Q
  /\ py_floor (Zpos p) X = Qround.Qfloor (qreal p X)
  /\ py_ceil (Zpos p) X = Qround.Qceiling (qreal p X)
  /\ py_int (Zpos p) X = Qtrunc (qreal p X)
  /\ (0 < Y -> (qreal p (py_mod X Y) == qreal p X - qreal p Y * inject_Z (Qround.Qfloor (qreal p X / qreal p Y)))%Q)
  /\ (qreal p (py_mul_ri X n) == qreal p X * inject_Z n)%Q
  /\ (qreal p (X + Y) == qreal p X + qreal p Y)%Q /\ (qreal p (X - Y) == qreal p X - qreal p Y)%Q
  /\ (X < Y <-> (qreal p X < qreal p Y)%Q)
  /\ (0 < Y -> py_int_div X Y = Qtrunc (inject_Z X / inject_Z Y)).
Proof.
  intros p X Y n.
  split; [apply py_real_sound|]. split; [apply py_floor_sound|]. split; [apply py_ceil_sound|].
  split; [apply py_int_sound|]. split; [apply py_mod_sound|]. split; [apply py_mul_ri_sound|].
  split; [apply py_add_sub_sound|]. split; [apply py_add_sub_sound|]. split; [apply py_lt_sound|].
  apply py_int_div_sound.
Qed.

(* the generated point_interval IS the model's, for every subpix >= 1, widths and disparity *)
Theorem C02_gen_point_interval_eq_model : forall s nxl nxr D, 0 < s ->
  G.point_interval s nxl nxr D = point_interval s nxl nxr D.
Proof. exact gen_point_interval_eq. Qed.

(* "... or the disparity lies outside the pixel's [min,max] interval", for per-pixel bounds that are NOT whole
   pixels (grids derived from refined disparities by the multiscale step, float grid files): the generated test of
   the second loop of cv_masked, read in the unit 1/(4 s) pixel (scale argument 1, sample D/s written 4 D, bound q/4
   written q s), removes the cost exactly when the sample is outside [gq/4, hq/4] as rationals; the samples kept
   run from the CEILING of the lower bound to the FLOOR of the upper bound; on whole-pixel bounds it is the test of
   the model's unit.  (The translated statement is run by numpy on quarter-pixel grids in harness/mc_gen.py and
   compared with the extracted generated test in this reading; whole quarter-pixel volumes are compared with the
   exact oracle in harness/props/c02.py.) *)
Theorem C02_gen_interval_test_quarter_pixel : forall s gq hq r c D, 0 < s ->
  (G.cv_masked_out_of_range 1 (fun r c => gq r c * s) (fun r c => hq r c * s) r c (4 * D) = true
   <-> (Qlt (D # Z.to_pos s) (gq r c # 4) \/ Qlt (hq r c # 4) (D # Z.to_pos s)))
  /\ (G.cv_masked_out_of_range 1 (fun r c => gq r c * s) (fun r c => hq r c * s) r c (4 * D) = false
      <-> - ((- (gq r c * s)) / 4) <= D <= (hq r c * s) / 4)
  /\ (forall g h, G.cv_masked_out_of_range 1 (fun r c => 4 * g r c * s) (fun r c => 4 * h r c * s) r c (4 * D)
                  = G.cv_masked_out_of_range s g h r c D).
Proof. exact gen_interval_test_quarter_all. Qed.

(* "the reported ... maximal cost match the measure": the two cmax expressions of SadSsd.compute_cost_volume as
   REGENERATED (translator/gen_point_interval.py, scaled integers: a radiometric value x is the integer x u).  The
   integer part is taken of the PRODUCT largest difference (squared for ssd) x window area, for every radiometric unit
   1/u; on whole radiometry it is the model's cmax (type_measure and cmax: C02_cost_volume_attributes); on radiometry
   in multiples of 1/u it is the integer part of the whole-radiometry cmax of the images x u, divided by u (sad), u^2
   (ssd) - the oracle of the quarter-radiometry stream of harness/props/c02.py and of the cmax cases of
   harness/mc_gen.py, which run the real compute_cost_volume against the extracted generated definitions. *)
Theorem C02_gen_cmax : forall u maxl minl maxr minr w,
  (G.sad_cmax u maxl minl maxr minr w
   = Z.quot (Z.max (Z.abs (maxl - minr)) (Z.abs (maxr - minl)) * (w * w)) u
   /\ G.ssd_cmax u maxl minl maxr minr w
      = Z.quot (Z.max ((maxl - minr) * (maxl - minr)) ((maxr - minl) * (maxr - minl)) * (w * w)) (u * u))
  /\ (0 < u ->
      G.sad_cmax u maxl minl maxr minr w = G.sad_cmax 1 maxl minl maxr minr w / u
      /\ G.ssd_cmax u maxl minl maxr minr w = G.ssd_cmax 1 maxl minl maxr minr w / (u * u)).
Proof.
  intros. split; [apply gen_cmax_eq | intro Hu; apply gen_cmax_homogeneous; exact Hu].
Qed.

Theorem C02_gen_cmax_is_the_model : forall inp,
  let minl := img_fold Z.min (i_ny inp) (i_nx inp) (i_L inp) in
  let maxl := img_fold Z.max (i_ny inp) (i_nx inp) (i_L inp) in
  let minr := img_fold Z.min (i_ny inp) (i_nx inp) (i_R inp) in
  let maxr := img_fold Z.max (i_ny inp) (i_nx inp) (i_R inp) in
  G.sad_cmax 1 maxl minl maxr minr (i_w inp) = cmax Sad inp
  /\ G.ssd_cmax 1 maxl minl maxr minr (i_w inp) = cmax Ssd inp.
Proof. exact gen_cmax_model. Qed.

(* one iteration of the loop over the disparities of the three compute_cost_volume, as generated: the shifted
   right image is int((disp % 1) * subpix) = D mod s, the ranges are point_interval of (left, shifted right [i],
   disp), the columns written in the plane are the left range (zncc: cut 2 * offset before its end, p_std; the
   right range q_std likewise); census calls point_interval on the two census transforms, the others on the
   images *)
Theorem C02_gen_loops_eq_model : forall s w nxl nxr D, 0 < s ->
  G.sad_ssd_loop s nxl nxr D
  = (let pq := point_interval s nxl (nxr (i_right s D)) D in (i_right s D, pq, fst pq))
  /\ G.census_loop s nxl nxr D
     = (let pq := point_interval s nxl (nxr (i_right s D)) D in (i_right s D, pq, fst pq))
  /\ (0 < w -> Z.odd w = true ->
      G.zncc_loop s w nxl nxr D =
      let pq := point_interval s nxl (nxr (i_right s D)) D in
      let p0 := fst (fst pq) in let p1 := snd (fst pq) in let q0 := fst (snd pq) in let q1 := snd (snd pq) in
      let off := offset w in
      (i_right s D, pq, (p0, Z.max p0 (p1 - 2 * off)),
       ((p0, Z.max p0 (p1 - 2 * off)), (q0, Z.max q0 (q1 - 2 * off)))))
  /\ G.sad_ssd_loop_on_transformed = (false, false) /\ G.census_loop_on_transformed = (true, true)
  /\ G.zncc_loop_on_transformed = (false, false).
Proof.
  intros s w nxl nxr D Hs.
  split; [exact (gen_sad_ssd_loop_eq s nxl nxr D Hs)|]. split; [exact (gen_census_loop_eq s nxl nxr D Hs)|].
  split; [exact (gen_zncc_loop_eq s w nxl nxr D Hs)|]. exact gen_loops_on_transformed.
Qed.

(* one iteration of the first loop of cv_masked, as generated: shifted image, ranges, right mask min(1, i_right)
   and plane dsp = int((disp - dmin) * subpix) with dmin = the minimum of the minimum grid -- the values
   [mask_step] uses; the test of the second loop is the one of [mask_interval] *)
Theorem C02_gen_cv_masked_eq_model : forall s ny nx g h nxl nxr r c D, 0 < s ->
  G.cv_masked_loop s ny nx g h nxl nxr D
  = (i_right s D, point_interval s nxl (nxr (i_right s D)) D, Z.min 1 (i_right s D),
     dsp_index s (grid_min ny nx g) D)
  /\ G.cv_masked_out_of_range s g h r c D = ((D <? g r c * s) || (h r c * s <? D))
  /\ G.get_min_max_from_grid ny nx g h = (grid_min ny nx g, grid_max ny nx h).
Proof.
  intros s ny nx g h nxl nxr r c D Hs. split; [exact (gen_cv_masked_loop_eq s ny nx g h nxl nxr D Hs)|].
  split; [exact (gen_out_of_range_eq s g h r c D)|reflexivity].
Qed.

(* C02_point_interval_spec restated on the GENERATED loops (widths of the shifted images: nx, and nx - 1 for a
   fractional shift, [shift_width]; for census nx stands for the width of the transforms): the shifted image is
   D mod s in [0, s); the columns written are the left range; left column c is in it iff floor(c + d) and
   ceil(c + d) are columns of the right image; the matched right column is c + floor d; both ranges have the same
   length (the slice assignment cannot fail to broadcast), start at a non-negative index and the left one ends
   inside the image (no wrap-around of a negative slice bound) *)
Theorem C02_gen_point_interval_spec : forall s nx D c, 0 < s -> 0 <= c < nx ->
  loop_spec s nx D c (G.sad_ssd_loop s nx (shift_width nx) D)
  /\ loop_spec s nx D c (G.census_loop s nx (shift_width nx) D).
Proof. exact gen_point_interval_spec. Qed.

(* the same for the generated zncc loop, plus: the columns written = p_std = the columns of the left range whose
   whole window (2 * offset further) is still in the range; q_std starts with the right range and has the length
   of p_std *)
Theorem C02_gen_zncc_loop_spec : forall s w nx D c, 0 < s -> 0 < w -> Z.odd w = true -> 0 <= c < nx ->
  let '(i, pq, wr, std) := G.zncc_loop s w nx (shift_width nx) D in
  loop_spec s nx D c (i, pq, fst pq)
  /\ fst wr = fst (fst pq) /\ wr = fst std
  /\ (fst wr <= c < snd wr <-> fst (fst pq) <= c /\ c + 2 * offset w < snd (fst pq))
  /\ fst (snd std) = fst (snd pq)
  /\ snd (fst std) - fst (fst std) = snd (snd std) - fst (snd std).
Proof. exact gen_zncc_loop_spec. Qed.

(* C02_dsp_index restated on the generated loop of cv_masked: on sample k of the axis that starts at the minimum
   of the minimum grid, the plane that receives the masks is k, the ranges are the ones above, and the right
   mask is the plain one for an integer disparity, the two-column one otherwise *)
Theorem C02_gen_cv_masked_loop_spec : forall s ny nx g h k c, 0 < s -> 0 <= c < nx ->
  let dmin := grid_min ny nx g in
  let D := disp_scaled s dmin k in
  let '(i, pq, im, dsp) := G.cv_masked_loop s ny nx g h nx (shift_width nx) D in
  dsp = k
  /\ loop_spec s nx D c (i, pq, fst pq)
  /\ (im = 0 <-> D mod s = 0) /\ (im = 1 <-> D mod s <> 0).
Proof. exact gen_cv_masked_loop_spec. Qed.

(* Non-vacuity of the generated definitions: subpix 4, 10 columns, d = -9/4 (D = -9): shifted image 3, left
   range [3, 10), right range [0, 7) of the 9-column shifted image; d = 12 (beyond the image): empty ranges
   [0, 0) and [12, 12), no negative bound *)
Example C02_gen_example :
  G.sad_ssd_loop 4 10 (shift_width 10) (-9) = (3, ((3, 10), (0, 7)), (3, 10))
  /\ G.point_interval 4 10 10 48 = ((0, 0), (12, 12))
  /\ G.zncc_loop 4 5 10 (shift_width 10) (-9) = (3, ((3, 10), (0, 7)), (3, 6), ((3, 6), (0, 3)))
  /\ G.cv_masked_loop 4 1 1 (fun _ _ => -3) (fun _ _ => 2) 10 (shift_width 10) (-9) = (3, ((3, 10), (0, 7)), 1, 3).
Proof. vm_compute. repeat split. Qed.

(* Non-vacuity: a 3x5 pair, window 3, subpix 2, a nodata pixel in the corner of the right mask,
   per-pixel interval grids.  At the centre row, column 2: the cost exists at d = +1/2 (SAD 9/2, SSD
   17/4) and at d = 0, is NaN at d = -1/2 (the nodata pixel is in the right window); at column 3 the
   cost at d = 0 is NaN only because 0 is below that pixel's minimum disparity 1. *)
Definition ex_img (l : list (list Z)) : img :=
  fun r c => nth (Z.to_nat c) (nth (Z.to_nat r) l []) 0.
Definition ex_inp : mc_input :=
  MkIn 3 5 3 2 (ex_img [[1;2;3;4;5];[2;4;6;8;9];[1;1;2;3;5]]) (ex_img [[1;3;2;4;6];[2;5;6;7;9];[0;1;2;2;5]])
       None (Some (ex_img [[1;0;0;0;0];[0;0;0;0;0];[0;0;0;0;0]])) 0 1
       (fun _ c => if c =? 3 then 1 else -1) (fun _ _ => 1).
(* census / zncc on the same pair with a non-monotone left image (window 3, subpix 2): Hamming distance 2 at
   d = +1/2, NaN at d = -1/2; zncc triple at d = +1/2: covariance -96 / (2 * 81) (negative correlation),
   variances 272 / 81 and 1404 / (4 * 81), NaN at d = -1/2 *)
Definition ex_inp2 : mc_input :=
  MkIn 3 5 3 2 (ex_img [[5;2;3;4;1];[2;4;6;1;9];[1;7;2;3;5]]) (ex_img [[1;3;2;4;6];[2;5;6;7;9];[0;1;2;2;5]])
       None (Some (ex_img [[1;0;0;0;0];[0;0;0;0;0];[0;0;0;0;0]])) 0 1
       (fun _ c => if c =? 3 then 1 else -1) (fun _ _ => 1).
Example C02_example_census_zncc :
  census_volume ex_inp2 (-1) 1 1 2 3 = Some 2%Q /\ census_volume ex_inp2 (-1) 1 1 2 1 = None
  /\ zncc_volume ex_inp2 (-1) 1 1 2 3 = Some (-96, 272, 1404) /\ zncc_volume ex_inp2 (-1) 1 1 2 1 = None.
Proof. vm_compute. repeat split. Qed.

Example C02_example :
  sad_volume ex_inp (-1) 1 1 2 3 = Some (9 # 2)%Q /\ ssd_volume ex_inp (-1) 1 1 2 3 = Some (17 # 4)%Q
  /\ sad_volume ex_inp (-1) 1 1 2 2 = Some 5%Q /\ sad_volume ex_inp (-1) 1 1 2 1 = None
  /\ sad_volume ex_inp (-1) 1 1 3 2 = None.
Proof. vm_compute. repeat split. Qed.

(* ------------------------------------------------------------------------------------------------------------
   T-gen tie of the array code of the census and zncc rasters.  Gen/CensusZnccFns.v (module GF below) is REGENERATED
   at every run from the source text of Census.popcount32b, Census.census_cost, img_tools.census_transform,
   compute_mean_raster, compute_std_raster, AbstractMatchingCost.masks_dilatation and its call in cv_masked
   (translator/gen_census_zncc_fns.py, Python ast, fail-closed), statement by statement, over the array operations of
   Lib/NpArr.v: an array is (valid?, rows, columns, values); an operation numpy would refuse (operands of different
   shapes, a negative dimension, an as_strided view leaving its buffer) clears the flag, Python slices keep their
   semantics (x[b:-b] is empty for b = 0), uint32 arithmetic wraps modulo 2^32.  [is_arr a nr nc f]: a is valid, of
   shape (nr, nc), and holds f at the non-negative indices.  The theorems below are per-run obligations. *)

(* the generated popcount32b -- every uint32 operation truncated modulo 2^32 -- is the model's (no intermediate value
   leaves [0, 2^32)), hence the number of set bits of every uint32 *)
Theorem C02_gen_popcount32b_eq_model : forall x, 0 <= x < 2 ^ 32 -> GF.popcount32b x = popcount32b x.
Proof. exact gen_popcount32b_eq. Qed.

Theorem C02_gen_popcount32b_correct : forall x, 0 <= x < 2 ^ 32 -> GF.popcount32b x = pc 32 x.
Proof. exact gen_popcount32b_correct. Qed.

(* the generated census_transform (as_strided windows, centre slice [border:-border], the two loops over the window
   with the decreasing shift, uint32 accumulation) on ANY image of at least w x w pixels, w odd, 3 <= w, w*w <= 32 (the
   code accepts 3 and 5): numpy raises nowhere, the result has (ny - (w-1)) x (nx - (w-1)) pixels and is the model's
   transform (one bit per window pixel, row-major, first pixel in the most significant bit) *)
Theorem C02_gen_census_transform_eq_model : forall w ny nx I,
  Z.odd w = true -> 3 <= w -> w * w <= 32 -> w <= ny -> w <= nx ->
  let g := GF.census_transform (np_of ny nx I) w in
  a_ok g = true /\ a_nr g = ny - (w - 1) /\ a_nc g = nx - (w - 1)
  /\ forall r c, a_at g r c = census_transform w I r c.
Proof. exact gen_census_transform_eq. Qed.

(* C02_census_hamming restated on the GENERATED definitions: the cell census_cost computes from two transformed pixels
   (both cast to uint32, xor, popcount32b) is the number of window pixels whose "greater than the centre of its
   window" bits differ *)
Theorem C02_gen_census_hamming : forall w ny nx I ny2 nx2 J r c r2 c2,
  Z.odd w = true -> 3 <= w -> w * w <= 32 -> w <= ny -> w <= nx -> w <= ny2 -> w <= nx2 ->
  GF.census_cost_cell (a_at (GF.census_transform (np_of ny nx I) w) r c)
                      (a_at (GF.census_transform (np_of ny2 nx2 J) w) r2 c2)
  = zsum (map (fun a => zsum (map (fun b =>
       Z.b2z (xorb (I (r + a) (c + b) >? I (r + offset w) (c + offset w))
                   (J (r2 + a) (c2 + b) >? J (r2 + offset w) (c2 + offset w)))) (zrange 0 w))) (zrange 0 w)).
Proof. exact gen_census_hamming. Qed.

(* the generated compute_mean_raster (zero row, cumulative sums down the rows, difference at distance w, zero column,
   cumulative sums along the columns, difference, division) on any valid ny x nx array of integers, 0 < w <= ny, nx:
   valid, (ny - (w-1)) x (nx - (w-1)), and at (r, c) the model's cumulative-sum raster divided by w * w *)
Theorem C02_gen_mean_raster_eq_model : forall w ny nx, 0 < w -> w <= ny -> w <= nx ->
  forall (a : arr Z) (I : Z -> Z -> Z), is_arr a ny nx I ->
  is_arr (GF.compute_mean_raster a w) (ny - (w - 1)) (nx - (w - 1))
         (fun r c => (inject_Z (sum_raster w ny nx I r c) / inject_Z (w * w))%Q).
Proof. exact gen_mean_raster_is. Qed.

(* the generated compute_std_raster is the square root of an array that is valid, of the same shape, and holds at
   (r, c) exactly: v = E[x^2] - E[x]^2 = (the model's var_raster) / w^4, replaced by 0 where v < 10^-15 |E[x^2]|; and
   that clamp never changes a value as long as w^2 * (sum of the squares of the window) < 10^15 (the variance of
   integers is 0 or at least 1 / w^4): "the 1e-15 guard coincides with variance = 0" is a theorem, with its bound *)
Theorem C02_gen_std_raster_eq_model : forall w ny nx, 0 < w -> w <= ny -> w <= nx ->
  forall (a : arr Z) (I : Z -> Z -> Z), is_arr a ny nx I ->
  let g := GF.compute_std_raster_var a w in
  a_ok g = true /\ a_nr g = ny - (w - 1) /\ a_nc g = nx - (w - 1)
  /\ forall r c, 0 <= r -> 0 <= c ->
     let M2 := sum_raster w ny nx (fun rr cc => I rr cc * I rr cc) r c in
     let v := (inject_Z (var_raster w ny nx I r c) / inject_Z (w * w * (w * w)))%Q in
     (a_at g r c == if qltb v ((1 # 1000000000000000) * Qabs.Qabs (inject_Z M2 / inject_Z (w * w))) then 0 else v)%Q
     /\ (w * w * M2 < 10 ^ 15 -> (a_at g r c == v)%Q).
Proof. exact gen_std_raster_var_is. Qed.

(* C02_mean_raster_eq_window_mean restated on the GENERATED rasters: the mean raster is the direct window mean, the
   variance raster the direct window variance (never negative) *)
Theorem C02_gen_mean_raster_eq_window_mean : forall w ny nx I r c, 0 < w -> w <= ny -> w <= nx -> 0 <= r -> 0 <= c ->
  let m := GF.compute_mean_raster (np_of ny nx I) w in
  let v := GF.compute_std_raster_var (np_of ny nx I) w in
  let S1 := zsum (map (fun a => zsum (map (fun b => I (r + a) (c + b)) (zrange 0 w))) (zrange 0 w)) in
  let S2 := zsum (map (fun a => zsum (map (fun b => I (r + a) (c + b) * I (r + a) (c + b)) (zrange 0 w))) (zrange 0 w)) in
  a_ok m = true /\ a_nr m = ny - (w - 1) /\ a_nc m = nx - (w - 1)
  /\ a_ok v = true /\ a_nr v = ny - (w - 1) /\ a_nc v = nx - (w - 1)
  /\ (a_at m r c == inject_Z S1 / inject_Z (w * w))%Q
  /\ 0 <= w * w * S2 - S1 * S1
  /\ (w * w * S2 < 10 ^ 15 -> (a_at v r c == inject_Z (w * w * S2 - S1 * S1) / inject_Z (w * w * (w * w)))%Q).
Proof. exact gen_mean_raster_eq_window_mean. Qed.

(* the masks cv_masked obtains from its call of masks_dilatation, as generated (invalid = neither valid_pixels nor
   no_data_mask; scipy binary_dilation of the no_data pixels with a full window_size x window_size structure, one
   iteration; the two-column as_strided sum; arguments of the call: the two images in this order, self._window_size,
   self._subpix) are the model's [mask_nan] of the left and of the right image, each with the mask convention (attrs
   valid_pixels / no_data_mask) of its own dataset, and the third mask exists exactly
   when subpix != 1 and is the model's [mask_shift] *)
Theorem C02_gen_cv_masked_masks_eq_model : forall ny nx w s,
  0 <= ny -> 1 <= nx -> 0 < w -> Z.odd w = true ->
  forall (vp nd vpr ndr : Z) (IL IR : img) (mL mR : option img),
  let res := GF.cv_masked_masks (ds_of ny nx vp nd IL mL) (ds_of ny nx vpr ndr IR mR) w s in
  is_arr (fst res) ny nx (mask_nan ny nx w vp nd mL)
  /\ is_arr (fst (snd res)) ny nx (mask_nan ny nx w vpr ndr mR)
  /\ match snd (snd res) with
     | Some sh => s <> 1 /\ is_arr sh ny (nx - 1) (mask_shift (mask_nan ny nx w vpr ndr mR))
     | None => s = 1
     end.
Proof. exact gen_cv_masked_masks_eq. Qed.

(* Non-vacuity of the generated definitions: popcount of the all-ones word; the census transform of a 3 x 4 image
   with window 3 has shape 1 x 2 and value 0b101100100 = 356 at (0, 0) (pixels 9, 7, 6, 8 exceed the centre 5) and
   0b010101011 = 171 at (0, 1); the cost cell of the two is 7 differing bits; the mean of the first window is 45 / 9 and the variance
   (9 * 285 - 45 * 45) / 81; with a window of 1 the centre slice [0:-0] is empty and numpy would raise: not valid *)
Definition gex_img : img := ex_img [[9;2;7;1];[6;5;3;8];[8;1;4;9]].
Example C02_gen_fns_example :
  GF.popcount32b 4294967295 = 32
  /\ (let g := GF.census_transform (np_of 3 4 gex_img) 3 in (a_ok g, a_nr g, a_nc g, a_at g 0 0, a_at g 0 1))
     = (true, 1, 2, 356, 171)
  /\ GF.census_cost_cell 356 171 = 7
  /\ a_ok (GF.census_transform (np_of 3 4 gex_img) 1) = false
  /\ Qred (a_at (GF.compute_mean_raster (np_of 3 4 gex_img) 3) 0 0) = 5%Q
  /\ Qred (a_at (GF.compute_std_raster_var (np_of 3 4 gex_img) 3) 0 0) = (20 # 3)%Q.
Proof. vm_compute. repeat split. Qed.

Print Assumptions C02_sad_model_eq_spec.
Print Assumptions C02_ssd_model_eq_spec.
Print Assumptions C02_census_model_eq_spec.
Print Assumptions C02_popcount32b_correct.
Print Assumptions C02_census_hamming.
Print Assumptions C02_zncc_model_eq_spec.
Print Assumptions C02_mean_raster_eq_window_mean.
Print Assumptions C02_zncc_scale_invariant.
Print Assumptions C02_census_cost_le_cmax.
Print Assumptions C02_zncc_cost_le_cmax.
Print Assumptions C02_point_interval_spec.
Print Assumptions C02_dsp_index.
Print Assumptions C02_measure_metadata.
Print Assumptions C02_gen_pyarith_sound.
Print Assumptions C02_gen_point_interval_eq_model.
Print Assumptions C02_gen_interval_test_quarter_pixel.
Print Assumptions C02_gen_cmax.
Print Assumptions C02_gen_cmax_is_the_model.
Print Assumptions C02_gen_loops_eq_model.
Print Assumptions C02_gen_cv_masked_eq_model.
Print Assumptions C02_gen_point_interval_spec.
Print Assumptions C02_gen_zncc_loop_spec.
Print Assumptions C02_gen_cv_masked_loop_spec.
Print Assumptions C02_gen_popcount32b_eq_model.
Print Assumptions C02_gen_popcount32b_correct.
Print Assumptions C02_gen_census_transform_eq_model.
Print Assumptions C02_gen_census_hamming.
Print Assumptions C02_gen_mean_raster_eq_model.
Print Assumptions C02_gen_std_raster_eq_model.
Print Assumptions C02_gen_mean_raster_eq_window_mean.
Print Assumptions C02_gen_cv_masked_masks_eq_model.
