(* C09 -- The requested disparity interval is honoured and does not leak into costs.
   Statements only; proofs are in Proofs/IntervalP.v, Proofs/IntervalWtaP.v, Proofs/IntervalCbcaP.v,
   Proofs/IntervalPipelineP.v, Proofs/IntervalRefineP.v.
   No new model of the cost computation: the volumes are those of C02 (Model/MatchingCost.v, tied to the
   code by the correspondence runs of harness/props/c02.py and c09.py), WTA is C03's model, cbca C11's;
   the steps after the disparity step (last clause) are the models of C06, C10, C07, C14, composed in
   Model/IntervalPipeline.v.

   Reading guide.  [inp] = the two images (selected band), masks, window, subpix and two disparity
   grids; [with_grids inp g h] the same pair with grids (g, h); [scalar_grids inp a b] what
   img_tools.add_disparity builds for the scalar interval [a, b] (two constant grids).  A run on the
   axis [dmin, dmax] has nb_disp s dmin dmax samples, sample k being d = dmin + k/s, i.e. the integer
   D = disp_scaled s dmin k = d*s.  [mvolume m inp dmin dmax r c k] is the masked cost volume of measure
   m (sad, ssd, census: the cost; zncc: the exact triple (cov, varL, varR) the cost is a function of);
   [None] is NaN.  The statements hold for EVERY image size, odd or even window, subpix >= 0 or >= 1 as
   written, mask, band, pixel (r, c) -- also outside the image --, so no side condition is hidden in a
   totalised read.  None of them needs model = spec: they are about how the interval enters the
   computation (range of the plane index, dsp = int((disp - dmin) * subpix), the two loops of cv_masked). *)
From Coq Require Import ZArith List Bool QArith Qround Lia.
From Pandora Require Import Lib.Ext Model.MatchingCost Spec.Cost Model.Interval Spec.Interval
                            Proofs.MatchingCostP Proofs.IntervalP Proofs.IntervalWtaP.
From Pandora Require Model.Cbca Proofs.CbcaP Proofs.IntervalCbcaP.
From Pandora Require Model.Refine Model.Filters Model.CrossCheck Model.Interp Spec.CrossCheck Spec.Interp Spec.Filters.
From Pandora Require Import Model.IntervalPipeline.
From Pandora Require Proofs.IntervalPipelineP Proofs.IntervalRefineP.
From Pandora Require Gen.RefineConsts Gen.Constants Gen.ValConst Model.Mirror Gen.Callbacks.
From Pandora Require Gen.PointInterval Proofs.PointIntervalGenP Proofs.PointIntervalGenIntervalP.
Import ListNotations.
Open Scope Z_scope.

(* ---- the interval does not leak into costs *)

(* Two runs on the same images, ANY grids, ANY axes: at a pixel and a disparity present on both axes
   the first run gives the cost of the second when the disparity is inside the first run's interval at
   this pixel, NaN otherwise (the second run allowing the disparity at this pixel).  Nothing else of the
   two intervals matters: not dmin, dmax, the index of the plane, the other pixels' intervals. *)
Theorem C09_two_runs_same_sample : forall m inp g h g' h' dmin dmax dmin' dmax' r c k k',
  0 <= k < nb_disp (i_s inp) dmin dmax -> 0 <= k' < nb_disp (i_s inp) dmin' dmax' ->
  disp_scaled (i_s inp) dmin k = disp_scaled (i_s inp) dmin' k' ->
  in_pixel_interval (i_s inp) g' h' r c (disp_scaled (i_s inp) dmin k) = true ->
  mvolume m (with_grids inp g h) dmin dmax r c k =
  if in_pixel_interval (i_s inp) g h r c (disp_scaled (i_s inp) dmin k)
  then mvolume m (with_grids inp g' h') dmin' dmax' r c k' else None.
Proof. exact mvolume_two_runs. Qed.

(* nested scalar intervals [a, b] in [a', b']: the volume of the small one is the slice of the volume
   of the large one, plane k <-> plane k + (a - a') * subpix, same disparity coordinate *)
Theorem C09_cost_indep_of_interval : forall m inp a b a' b' r c k,
  0 <= i_s inp -> a' <= a -> b <= b' -> 0 <= k < nb_disp (i_s inp) a b ->
  mvolume m (scalar_grids inp a b) a b r c k
  = mvolume m (scalar_grids inp a' b') a' b' r c (k + (a - a') * i_s inp).
Proof. exact cost_indep_of_interval. Qed.

Theorem C09_slice_index : forall s a b a' b' k, 0 <= s -> a' <= a -> b <= b' ->
  0 <= k < nb_disp s a b ->
  0 <= k + (a - a') * s < nb_disp s a' b' /\
  disp_scaled s a k = disp_scaled s a' (k + (a - a') * s).
Proof. exact slice_index. Qed.

(* per-pixel grids against the scalar interval containing their axis: same cost inside the pixel's
   own [g, h], NaN outside *)
Theorem C09_grid_inside_outside : forall m inp g h dmin dmax a' b' r c k,
  0 <= i_s inp -> a' <= dmin -> dmax <= b' -> 0 <= k < nb_disp (i_s inp) dmin dmax ->
  mvolume m (with_grids inp g h) dmin dmax r c k
  = if (g r c * i_s inp <=? disp_scaled (i_s inp) dmin k) && (disp_scaled (i_s inp) dmin k <=? h r c * i_s inp)
    then mvolume m (scalar_grids inp a' b') a' b' r c (k + (dmin - a') * i_s inp)
    else None.
Proof. exact grid_inside_outside. Qed.

(* constant grids = scalar interval: the costs ... *)
Theorem C09_grid_vs_scalar : forall m inp g h a b r c k,
  0 <= k < nb_disp (i_s inp) a b -> g r c = a -> h r c = b ->
  mvolume m (with_grids inp g h) a b r c k = mvolume m (scalar_grids inp a b) a b r c k.
Proof. exact grid_vs_scalar. Qed.

(* ... and the axis (get_min_max_from_grid of grids constant over the image) *)
Theorem C09_grid_extrema_const : forall ny nx g h a b,
  (forall r c, 0 <= r < Z.max 1 ny -> 0 <= c < Z.max 1 nx -> g r c = a /\ h r c = b) ->
  grid_min ny nx g = a /\ grid_max ny nx h = b.
Proof. exact grid_extrema_const. Qed.

(* the grids act on a pixel through their values at that pixel only *)
Theorem C09_grids_act_pointwise : forall m inp g h g' h' dmin dmax r c k,
  0 <= k < nb_disp (i_s inp) dmin dmax -> g r c = g' r c -> h r c = h' r c ->
  mvolume m (with_grids inp g h) dmin dmax r c k = mvolume m (with_grids inp g' h') dmin dmax r c k.
Proof. exact mvolume_grids_pointwise. Qed.

(* for a scalar interval the interval loop of cv_masked masks nothing: every cost of the volume is the
   interval-free cell [mcell] of its sample *)
Theorem C09_scalar_interval_masks_nothing : forall m inp a b r c k,
  0 <= k < nb_disp (i_s inp) a b ->
  mvolume m (scalar_grids inp a b) a b r c k = mcell m inp (disp_scaled (i_s inp) a k) r c.
Proof. exact scalar_interval_masks_nothing. Qed.

(* outside the pixel's interval the cost is NaN (hypothesis cv_masked_outside_is_nan of C03) *)
Theorem C09_outside_pixel_interval_is_nan : forall m inp dmin dmax r c k,
  0 <= k < nb_disp (i_s inp) dmin dmax ->
  in_pixel_interval (i_s inp) (i_gmin inp) (i_gmax inp) r c (disp_scaled (i_s inp) dmin k) = false ->
  mvolume m inp dmin dmax r c k = None.
Proof. exact mvolume_outside_is_nan. Qed.

(* the specification side (Spec/Cost.v): the interval enters `computable` as one conjunct, the
   textbook costs do not mention it; with C02_sad/ssd_model_eq_spec this restates the slice theorems on
   the specification *)
Theorem C09_spec_interval_is_one_conjunct : forall ny nx w s mL mR vp nd g h r c D,
  computable ny nx w s mL mR vp nd g h r c D
  = (left_window_ok ny nx w mL nd r c && right_window_ok ny nx w s mR nd r c D && centres_ok s mL mR vp nd r c D)
    && in_pixel_interval s g h r c D.
Proof. intros. unfold computable. now rewrite in_pixel_interval_spec. Qed.

(* ---- the disparity axis, dsp, the stored interval *)

(* the axis bounds are the extrema of the grids over the image: the axis is the hull of the per-pixel
   intervals *)
Theorem C09_grid_extrema : forall ny nx g h, 1 <= ny -> 1 <= nx ->
  (forall r c, 0 <= r < ny -> 0 <= c < nx -> grid_min ny nx g <= g r c)
  /\ (exists r c, 0 <= r < ny /\ 0 <= c < nx /\ grid_min ny nx g = g r c)
  /\ (forall r c, 0 <= r < ny -> 0 <= c < nx -> h r c <= grid_max ny nx h)
  /\ (exists r c, 0 <= r < ny /\ 0 <= c < nx /\ grid_max ny nx h = h r c).
Proof. exact grid_extrema. Qed.

(* dsp = int((disp - dmin) * subpix) evaluated on the coordinate of sample k is k; the resampled right
   image int((disp % 1) * subpix) is the one of the model *)
Theorem C09_dsp_index_consistent : forall s dmin k, 0 < s ->
  dsp_float s dmin (sample_q s dmin k) = k
  /\ dsp_index s dmin (disp_scaled s dmin k) = k
  /\ i_right_float s (sample_q s dmin k) = i_right s (disp_scaled s dmin k).
Proof. exact dsp_index_consistent. Qed.

(* the stored disparity_interval (first and last coordinate of the axis) is [dmin, dmax], and every
   sample searched lies inside it *)
Theorem C09_stored_interval_is_searched : forall s dmin dmax, 0 < s -> dmin <= dmax ->
  let iv := disparity_interval (disp_axis s dmin dmax) in
  fst iv = sample_q s dmin 0 /\ snd iv = sample_q s dmin (nb_disp s dmin dmax - 1)
  /\ fst iv == inject_Z dmin /\ snd iv == inject_Z dmax
  /\ (forall k, 0 <= k < nb_disp s dmin dmax ->
        (fst iv <= sample_q s dmin k)%Q /\ (sample_q s dmin k <= snd iv)%Q).
Proof. exact stored_interval_is_searched. Qed.

(* ---- the same three facts on the index arithmetic REGENERATED from the source at every run
   (Gen/PointInterval.v, module G: translator/gen_point_interval.py, Python ast of cv_masked and
   get_min_max_from_grid, fail-closed; Proofs/PointIntervalGenP.v proves generated = model).  Per-run obligations:
   a change of `dsp = int((disp - dmin) * self._subpix)`, of the origin of the axis or of the out-of-interval test
   regenerates a text for which these no longer check. *)
Module G := Pandora.Gen.PointInterval.

(* one generated iteration of `for disp in cost_volume.coords["disp"].data` on sample k of the axis whose origin is
   get_min_max_from_grid(disp_min, disp_max)[0]: the plane that receives the masks is k, which is also the value of
   the float expression on the rational coordinate of the sample; the shifted right image is the fractional part *)
Theorem C09_gen_dsp_index_consistent : forall s ny nx g h nxl nxr k, 0 < s ->
  let dmin := fst (G.get_min_max_from_grid ny nx g h) in
  let '(i, pq, im, dsp) := G.cv_masked_loop s ny nx g h nxl nxr (disp_scaled s dmin k) in
  dsp = k /\ dsp = dsp_float s dmin (sample_q s dmin k)
  /\ i = i_right s (disp_scaled s dmin k) /\ i = i_right_float s (sample_q s dmin k).
Proof. exact PointIntervalGenIntervalP.gen_dsp_index_consistent. Qed.

(* the generated test of `for dsp in range(nd_)`: a cost is set to NaN exactly when the sample of its plane is
   outside the pixel's own [min, max] (the specification's in_interval), and it is the test of the model *)
Theorem C09_gen_interval_test : forall s g h r c D,
  G.cv_masked_out_of_range s g h r c D = negb (in_interval s g h r c D)
  /\ forall (A : Type) dmin (cv : Z -> Z -> Z -> option A) j,
       mask_interval s dmin g h cv r c j
       = if G.cv_masked_out_of_range s g h r c (disp_scaled s dmin j) then None else cv r c j.
Proof. exact PointIntervalGenIntervalP.gen_interval_test. Qed.

(* the generated get_min_max_from_grid: the attained extrema of the grids *)
Theorem C09_gen_axis_origin : forall ny nx g h, 1 <= ny -> 1 <= nx ->
  let mm := G.get_min_max_from_grid ny nx g h in
  (forall r c, 0 <= r < ny -> 0 <= c < nx -> fst mm <= g r c)
  /\ (exists r c, 0 <= r < ny /\ 0 <= c < nx /\ fst mm = g r c)
  /\ (forall r c, 0 <= r < ny -> 0 <= c < nx -> h r c <= snd mm)
  /\ (exists r c, 0 <= r < ny /\ 0 <= c < nx /\ snd mm = h r c).
Proof. exact PointIntervalGenIntervalP.gen_axis_origin. Qed.

(* ---- winner-takes-all on the volume (C03's model on C02's model) *)

(* every pixel with a computable cost receives the coordinate of a sample with a computable cost, inside
   its own [gmin, gmax] and inside [dmin, dmax], extremal among its computable costs; for every
   measure, block size B, valuation [val] of the cells (zncc: any function of the triple), min or max *)
Theorem C09_wta_within_interval : forall val m inp dmin dmax mx B invalid conf mask r c k0 v0,
  1 <= B -> 0 < i_s inp -> dmin <= dmax ->
  0 <= r < i_ny inp -> 0 <= c < i_nx inp ->
  0 <= k0 < nb_disp (i_s inp) dmin dmax -> mvolume m inp dmin dmax r c k0 = Some v0 ->
  exists k v, 0 <= k < nb_disp (i_s inp) dmin dmax
    /\ wta_on_volume val m inp dmin dmax mx B invalid conf mask r c = Some (sample_q (i_s inp) dmin k)
    /\ mvolume m inp dmin dmax r c k = Some v
    /\ i_gmin inp r c * i_s inp <= disp_scaled (i_s inp) dmin k <= i_gmax inp r c * i_s inp
    /\ (inject_Z (i_gmin inp r c) <= sample_q (i_s inp) dmin k
        /\ sample_q (i_s inp) dmin k <= inject_Z (i_gmax inp r c))%Q
    /\ (inject_Z dmin <= sample_q (i_s inp) dmin k /\ sample_q (i_s inp) dmin k <= inject_Z dmax)%Q
    /\ (forall k' v', 0 <= k' < nb_disp (i_s inp) dmin dmax -> mvolume m inp dmin dmax r c k' = Some v' ->
          le_dir mx (Fin (val v)) (Fin (val v')) = true).
Proof. intros. eapply wta_within_interval; eassumption. Qed.

(* a pixel without computable cost receives exactly invalid_disparity *)
Theorem C09_wta_no_cost_invalid : forall val m inp dmin dmax mx B invalid conf mask r c,
  1 <= B -> 0 < i_s inp -> dmin <= dmax ->
  0 <= r < i_ny inp -> 0 <= c < i_nx inp ->
  (forall k, 0 <= k < nb_disp (i_s inp) dmin dmax -> mvolume m inp dmin dmax r c k = None) ->
  wta_on_volume val m inp dmin dmax mx B invalid conf mask r c = invalid.
Proof. intros. apply wta_no_cost_invalid; assumption. Qed.

(* restriction: nested scalar intervals, if the winner of the run on [a', b'] lies in [a, b] the run on
   [a, b] has the same winner -- ties included (the relation the harness tests on the real code) *)
Theorem C09_wta_restriction : forall val m inp a b a' b' mx B B' invalid invalid' conf conf' mask mask' r c kJ,
  1 <= B -> 1 <= B' -> 0 < i_s inp -> a <= b -> a' <= a -> b <= b' ->
  0 <= r < i_ny inp -> 0 <= c < i_nx inp ->
  0 <= kJ < nb_disp (i_s inp) a b ->
  mvolume m (scalar_grids inp a' b') a' b' r c (kJ + (a - a') * i_s inp) <> None ->
  wta_on_volume val m (scalar_grids inp a' b') a' b' mx B' invalid' conf' mask' r c
    = Some (sample_q (i_s inp) a' (kJ + (a - a') * i_s inp)) ->
  wta_on_volume val m (scalar_grids inp a b) a b mx B invalid conf mask r c = Some (sample_q (i_s inp) a kJ).
Proof. exact wta_restriction. Qed.

(* ---- whatever follows the disparity step: the last clause of the property *)

(* Composition lemma kept from the first version: any number of ARBITRARY state transformers that each
   preserve "valid pixels lie in [dmin, dmax]" preserve it.  (The first version displayed, as the "full
   statement" -- Definition C09_final_disp_in_global_interval_full, now named C09_arbitrary_steps --, the
   same sentence WITHOUT the hypothesis on the steps; over arbitrary functions that
   sentence is false -- C09_arbitrary_steps_refuted -- and was never the property's clause: the clause
   speaks of the steps of a pipeline.  It is stated and proved over those steps below.) *)
Theorem C09_final_disp_in_global_interval_partial :
  forall (steps : list (dstate -> dstate)) ny nx dmin dmax st0,
    Forall (fun f => forall st, in_global_interval ny nx dmin dmax st -> in_global_interval ny nx dmin dmax (f st)) steps ->
    in_global_interval ny nx dmin dmax st0 ->
    in_global_interval ny nx dmin dmax (fold_left (fun st f => f st) steps st0).
Proof. exact steps_preserve_interval. Qed.

Definition C09_arbitrary_steps : Prop :=
  forall (steps : list (dstate -> dstate)) ny nx dmin dmax st0,
    in_global_interval ny nx dmin dmax st0 ->
    in_global_interval ny nx dmin dmax (fold_left (fun st f => f st) steps st0).
Theorem C09_arbitrary_steps_refuted : ~ C09_arbitrary_steps.
Proof.
  intro H.
  assert (H0 : in_global_interval 1 1 0 0 (mkD (fun _ _ => Some 0%Q) (fun _ _ => true))).
  { intros r c _ _ _. exists 0%Q. repeat split; discriminate. }
  specialize (H [fun _ => mkD (fun _ _ => None) (fun _ _ => true)] 1 1 0 0 _ H0).
  destruct (H 0 0 ltac:(split; [discriminate | reflexivity]) ltac:(split; [discriminate | reflexivity]) eq_refl)
    as (d & E & _).
  discriminate E.
Qed.

(* base case: the state produced by WTA on the matching-cost volume, valid = has a computable cost *)
Theorem C09_wta_state_in_global_interval : forall val m inp dmin dmax mx B invalid conf mask,
  1 <= B -> 0 < i_s inp -> dmin <= dmax ->
  in_global_interval (i_ny inp) (i_nx inp) dmin dmax
    (mkD (wta_on_volume val m inp dmin dmax mx B invalid conf mask) (has_cost m inp dmin dmax)).
Proof. exact wta_state_in_global_interval. Qed.

(* The steps.  Model/IntervalPipeline.v: the products are [pstate] = (disparity_map, validity_mask,
   confidence bands); [step] = the triggers of the state machine from disp_map to disp_map in a single
   scale, each a CALL of the model of its own property (nothing re-modelled):
     SRefine me m cv                   refinement vfit | quadratic, measure min | max (Model/Refine.v refine_map)
     SMedian rad                       median filter of size 2 rad + 1                 (Model/Filters.v)
     SBilateral sigma sk rk            bilateral filter, its two kernels as data       (Model/Filters.v)
     SMedianIntervals w reg binf bsup  median_for_intervals, optional regularisation   (Model/Filters.v)
     SValidation thr other ip          cross_checking_accurate against the right dataset [other], then the
                                       interpolation mc-cnn | sgm when configured (Model/CrossCheck.v, Interp.v)
   [run_steps X steps st] runs any list of them (any length, any order, repetitions) and is None when a step
   raises or reads outside an array.  [pctx] X holds what stays fixed: size, [dmin, dmax], subpix, offset,
   block sizes.  A pixel is valid when its mask carries none of the bits 0, 1, 6, 7, 8, 9
   (Spec/CrossCheck.v spec_valid = the tests of the four models: C09_validity_tests_agree).

   Per-run obligation: the constants the composed models use are those of the regenerated
   pandora/constants.py and block sizes. *)
Theorem C09_pipeline_constants :
  KK = Refine.mkK RefineConsts.msk_invalid RefineConsts.msk_stopped
  /\ INV = Constants.msk_pixel_invalid /\ BIT11 = Constants.msk_pixel_interval_regularized
  /\ CrossCheck.MSK_INVALID = ValConst.PANDORA_MSK_PIXEL_INVALID
  /\ 1 <= Constants.median_block /\ 1 <= Constants.bilateral_block.
Proof. repeat split; try reflexivity; vm_compute; discriminate. Qed.

(* Per-run obligation on the regenerated call structure of the three run callbacks (Gen/Callbacks.v, by ast from
   state_machine.py): filter_run filters the left disparity dataset in place from that dataset alone,
   refinement_run refines it from (left_cv, left disparity), validation_run cross-checks it against the right
   dataset and, when interpolated_disparity is configured, interpolates it from itself -- what [run_step]
   composes; under the right_disp_map guard the same calls are made on the right products with the roles swapped. *)
Theorem C09_callbacks_as_composed :
  Callbacks.gen_callback Mirror.CbFlt
  = [ Mirror.mkSeg [ Mirror.mkCall Mirror.FFilter [Mirror.Ldisp] [] ]
                   [ Mirror.mkCall Mirror.FFilter [Mirror.Rdisp] [] ] true ]
  /\ Callbacks.gen_callback Mirror.CbRef
  = [ Mirror.mkSeg [ Mirror.mkCall Mirror.FRefine [Mirror.Lcv; Mirror.Ldisp] [] ]
                   [ Mirror.mkCall Mirror.FRefine [Mirror.Rcv; Mirror.Rdisp] [] ] true ]
  /\ Callbacks.gen_callback Mirror.CbVal
  = [ Mirror.mkSeg [ Mirror.mkCall Mirror.FCrossCheck [Mirror.Ldisp; Mirror.Rdisp] [Mirror.Ldisp] ]
                   [ Mirror.mkCall Mirror.FCrossCheck [Mirror.Rdisp; Mirror.Ldisp] [Mirror.Rdisp];
                     Mirror.mkCall Mirror.FCfgCond [] [];
                     Mirror.mkCall Mirror.FInterpolate [Mirror.Ldisp] [];
                     Mirror.mkCall Mirror.FInterpolate [Mirror.Rdisp] [] ] true ].
Proof. repeat split; reflexivity. Qed.

Theorem C09_validity_tests_agree : forall m,
  (Spec.CrossCheck.spec_valid m = true <-> Z.land m (Refine.k_invalid KK) = 0)       (* loop_refinement *)
  /\ (Spec.CrossCheck.spec_valid m = true <-> Filters.invalid_px INV m = false)        (* the filters *)
  /\ Spec.CrossCheck.spec_valid m = CrossCheck.is_valid m                               (* cross-checking *)
  /\ Spec.CrossCheck.spec_valid m = Interp.okpix m.                                     (* interpolation *)
Proof.
  intro m. split; [apply IntervalPipelineP.spec_valid_land|]. split.
  - rewrite IntervalPipelineP.spec_valid_land. unfold Filters.invalid_px, INV.
    destruct (Z.land m CrossCheck.MSK_INVALID =? 0) eqn:E; cbn [negb].
    + apply Z.eqb_eq in E. split; auto.
    + apply Z.eqb_neq in E. split; [contradiction | discriminate].
  - split; [symmetry; apply CrossCheckP.is_valid_spec | symmetry; apply InterpP.okpix_spec].
Qed.

(* ONE step, whatever it is: from products in which every valid pixel of the image holds a finite
   disparity of [dmin, dmax] (and no pixel carries both bit 8 and bit 9), the step returns -- no exception,
   no read outside an array -- products with the same two properties.
   [step_ok] asks only for shapes: one cost per sample of the axis in the volume the refinement reads,
   rad >= 0, sigma_space >= 0 and kernels without negative weight (data); nothing about the VALUES of
   the costs, of the right dataset, of the interval bands. *)
Theorem C09_step_preserves_interval : forall X sp st,
  ctx_ok X -> step_ok X sp ->
  in_global_interval (c_ny X) (c_nx X) (c_dmin X) (c_dmax X) (dstate_of (p_disp st) (p_mask st)) ->
  Spec.Interp.never_both (c_ny X) (c_nx X) (p_mask st) ->
  exists st', run_step X sp st = Some st'
    /\ in_global_interval (c_ny X) (c_nx X) (c_dmin X) (c_dmax X) (dstate_of (p_disp st') (p_mask st'))
    /\ Spec.Interp.never_both (c_ny X) (c_nx X) (p_mask st').
Proof.
  intros X sp st XOK SOK H NB.
  destruct (IntervalPipelineP.run_step_inv X sp st XOK SOK (IntervalPipelineP.in_global_pinv X st H NB)) as (st' & E & I).
  exists st'. split; [exact E|]. split; [apply IntervalPipelineP.pinv_in_global; exact I | exact (proj2 I)].
Qed.

(* THE LAST CLAUSE, full statement: for EVERY pipeline tail -- any number of refinement / filter /
   validation steps in any order, repetitions included, any methods and parameters -- run on products in
   which every valid pixel lies in the requested interval [dmin, dmax], the run completes and every
   valid pixel of the final map holds a finite disparity of [dmin, dmax].
   (Stated for "the" products of a run; the state machine applies the SAME functions to the right products when
   cross_checking_accurate is on -- filter_disparity(right_disparity), subpixel_refinement(right_cv, right_disparity),
   disparity_checking(right_disparity, left_disparity), interpolated_disparity(right_disparity) -- so the right map is
   the instance [c_dmin, c_dmax] = first / last coordinate of the right volume, [other] = the left dataset.) *)
Theorem C09_final_disp_in_global_interval : forall X steps st0,
  ctx_ok X -> Forall (step_ok X) steps ->
  Spec.Interp.never_both (c_ny X) (c_nx X) (p_mask st0) ->
  in_global_interval (c_ny X) (c_nx X) (c_dmin X) (c_dmax X) (dstate_of (p_disp st0) (p_mask st0)) ->
  exists st, run_steps X steps st0 = Some st
    /\ in_global_interval (c_ny X) (c_nx X) (c_dmin X) (c_dmax X) (dstate_of (p_disp st) (p_mask st))
    /\ Spec.Interp.never_both (c_ny X) (c_nx X) (p_mask st).
Proof. exact IntervalPipelineP.final_disp_in_global_interval. Qed.

(* ... and from the disparity step on: WTA (any block size, min / max) on the masked volume of any of the
   four measures, with ANY validity mask [mask0] that declares valid only pixels that have a computable
   cost (C04_invalid_iff_nocost) and sets neither bit 8 nor bit 9 (C04: the disparity step writes criteria
   bits only), followed by ANY pipeline tail: every valid pixel of the final map lies in [dmin, dmax]. *)
Theorem C09_final_disp_in_global_interval_from_wta :
  forall val m inp dmin dmax mx B invalid conf wmask off bmed bbil mask0 bands steps,
  let X := mkCtx (i_ny inp) (i_nx inp) dmin dmax (i_s inp) off bmed bbil in
  1 <= B -> ctx_ok X -> Forall (step_ok X) steps ->
  (forall r c, 0 <= r < i_ny inp -> 0 <= c < i_nx inp ->
     Spec.CrossCheck.spec_valid (mask0 r c) = true -> has_cost m inp dmin dmax r c = true) ->
  Spec.Interp.never_both (i_ny inp) (i_nx inp) mask0 ->
  exists st, run_steps X steps (mkP (wta_on_volume val m inp dmin dmax mx B invalid conf wmask) mask0 bands) = Some st
    /\ in_global_interval (i_ny inp) (i_nx inp) dmin dmax (dstate_of (p_disp st) (p_mask st)).
Proof.
  intros val m inp dmin dmax mx B invalid conf wmask off bmed bbil mask0 bands steps X HB XOK SOK Hcost NB.
  pose proof XOK as (_ & _ & _ & Hd & Hs & _). cbn [c_dmin c_dmax c_s X] in Hd, Hs.
  destruct (IntervalPipelineP.final_disp_in_global_interval X steps
              (mkP (wta_on_volume val m inp dmin dmax mx B invalid conf wmask) mask0 bands) XOK SOK NB) as (st & E & I & _).
  - intros r c Hr Hc Hv. cbn [dstate_of d_valid d_map p_disp p_mask c_ny c_nx X] in *.
    exact (wta_state_in_global_interval val m inp dmin dmax mx B invalid conf wmask HB Hs Hd r c Hr Hc (Hcost r c Hr Hc Hv)).
  - exists st. split; [exact E | exact I].
Qed.

(* ---- "... and within its own per-pixel interval right after the disparity and refinement steps"

   [cost_row val m inp dmin dmax r c] = cv[r, c, :] of the masked volume, as loop_refinement reads it;
   [Refine.loop_pixel] = one pixel of loop_refinement (C06's model, vfit or quadratic [me], min / max [mm]).
   A valid pixel holding a SAMPLE of the axis that lies inside its own [gmin, gmax] (what the disparity step
   gives it: C09_wta_within_interval) is refined -- no exception, no read outside the row -- to a disparity
   inside its own [gmin, gmax] (and inside [dmin, dmax], at most half a sample away).  Per-pixel grids and
   scalar intervals alike; every measure, subpix, window, mask.  (For a disparity that is NOT a sample, i.e.
   a refinement that runs after a filter or a validation, only the global interval is proved:
   C09_final_disp_in_global_interval; the property's clause is about "right after".) *)
Theorem C09_refined_within_pixel_interval : forall val m inp dmin dmax me mm r c k mask res,
  0 < i_s inp -> dmin <= dmax -> 0 <= k < nb_disp (i_s inp) dmin dmax ->
  i_gmin inp r c * i_s inp <= disp_scaled (i_s inp) dmin k <= i_gmax inp r c * i_s inp ->
  Z.land mask CrossCheck.MSK_INVALID = 0 ->
  Refine.loop_pixel KK me mm (inject_Z dmin) (inject_Z dmax) (i_s inp) (cost_row val m inp dmin dmax r c)
                    (Some (sample_q (i_s inp) dmin k)) mask = res ->
  exists d' c' mask', res = Refine.POk (Some d') c' mask'
    /\ (inject_Z (i_gmin inp r c) <= d' /\ d' <= inject_Z (i_gmax inp r c))%Q
    /\ (inject_Z dmin <= d' /\ d' <= inject_Z dmax)%Q
    /\ (Qabs.Qabs (d' - sample_q (i_s inp) dmin k) * inject_Z (i_s inp) <= 1 # 2)%Q.
Proof. exact IntervalRefineP.refined_within_pixel_interval. Qed.

(* the two steps in a row, for a pixel of the image that has a computable cost *)
Theorem C09_wta_then_refinement_within_pixel_interval :
  forall val m inp dmin dmax mx B invalid conf wmask me mm r c k0 v0 mask,
  1 <= B -> 0 < i_s inp -> dmin <= dmax -> 0 <= r < i_ny inp -> 0 <= c < i_nx inp ->
  0 <= k0 < nb_disp (i_s inp) dmin dmax -> mvolume m inp dmin dmax r c k0 = Some v0 ->
  Z.land mask CrossCheck.MSK_INVALID = 0 ->
  exists d d' c' mask',
    wta_on_volume val m inp dmin dmax mx B invalid conf wmask r c = Some d
    /\ Refine.loop_pixel KK me mm (inject_Z dmin) (inject_Z dmax) (i_s inp) (cost_row val m inp dmin dmax r c)
                         (Some d) mask = Refine.POk (Some d') c' mask'
    /\ (inject_Z (i_gmin inp r c) <= d /\ d <= inject_Z (i_gmax inp r c))%Q
    /\ (inject_Z (i_gmin inp r c) <= d' /\ d' <= inject_Z (i_gmax inp r c))%Q
    /\ (inject_Z dmin <= d' /\ d' <= inject_Z dmax)%Q
    /\ (Qabs.Qabs (d' - d) * inject_Z (i_s inp) <= 1 # 2)%Q.
Proof. exact IntervalRefineP.wta_then_refinement_within_pixel_interval. Qed.

(* ---- cross-based aggregation (C11's model) *)

(* the aggregated plane depends on its own input plane at the pixels of the image only (extensional
   form of C11_plane_independent) *)
Theorem C09_cbca_plane_ext : forall (x : Cbca.cbca_in) disps' cv' k k' r c,
  1 <= Cbca.i_subpix x -> 0 <= Cbca.i_off x ->
  0 <= k < CbcaP.n_disp x -> 0 <= k' < Z.of_nat (length disps') ->
  CbcaP.nth_disp x k = nth (Z.to_nat k') disps' 0%Q ->
  (forall r' c', 0 <= r' < Cbca.i_nr x -> 0 <= c' < Cbca.i_nc x -> Cbca.i_cv x k r' c' = cv' k' r' c') ->
  0 <= r < Cbca.i_nr x -> 0 <= c < Cbca.i_nc x ->
  CbcaP.out_at x k r c = CbcaP.out_at (CbcaP.with_volume x disps' cv') k' r c.
Proof. intros. apply IntervalCbcaP.cbca_plane_ext; assumption. Qed.

(* aggregation of a slice = slice of the aggregation *)
Theorem C09_cbca_slice : forall (x : Cbca.cbca_in) disps' cv' sh,
  1 <= Cbca.i_subpix x -> 0 <= Cbca.i_off x ->
  0 <= sh -> sh + Z.of_nat (length disps') <= CbcaP.n_disp x ->
  (forall k', 0 <= k' < Z.of_nat (length disps') ->
      nth (Z.to_nat k') disps' 0%Q = CbcaP.nth_disp x (k' + sh)) ->
  (forall k' r c, 0 <= k' < Z.of_nat (length disps') -> 0 <= r < Cbca.i_nr x -> 0 <= c < Cbca.i_nc x ->
      cv' k' r c = Cbca.i_cv x (k' + sh) r c) ->
  forall k' r c, 0 <= k' < Z.of_nat (length disps') -> 0 <= r < Cbca.i_nr x -> 0 <= c < Cbca.i_nc x ->
  CbcaP.out_at (CbcaP.with_volume x disps' cv') k' r c = CbcaP.out_at x (k' + sh) r c.
Proof. intros x disps' cv' sh H1 H2. exact (IntervalCbcaP.cbca_slice x H1 H2 disps' cv' sh). Qed.

(* matching cost then cbca, nested scalar intervals: the aggregated volume of [a, b] is the slice of the
   aggregated volume of [a', b'] (same images, masks, cbca parameters; costs read through any [val]) *)
Theorem C09_cbca_slice_of_nested_intervals :
  forall (xJ : Cbca.cbca_in) val m inp a b a' b' cvI,
  1 <= Cbca.i_subpix xJ -> 0 <= Cbca.i_off xJ -> 0 < i_s inp -> a' <= a -> b <= b' ->
  Cbca.i_disps xJ = disp_axis (i_s inp) a' b' ->
  (forall k r c, 0 <= k < nb_disp (i_s inp) a' b' -> 0 <= r < Cbca.i_nr xJ -> 0 <= c < Cbca.i_nc xJ ->
     Cbca.i_cv xJ k r c = omap val (mvolume m (scalar_grids inp a' b') a' b' r c k)) ->
  (forall k r c, 0 <= k < nb_disp (i_s inp) a b -> 0 <= r < Cbca.i_nr xJ -> 0 <= c < Cbca.i_nc xJ ->
     cvI k r c = omap val (mvolume m (scalar_grids inp a b) a b r c k)) ->
  forall k r c, 0 <= k < nb_disp (i_s inp) a b -> 0 <= r < Cbca.i_nr xJ -> 0 <= c < Cbca.i_nc xJ ->
  CbcaP.out_at (CbcaP.with_volume xJ (disp_axis (i_s inp) a b) cvI) k r c
  = CbcaP.out_at xJ (k + (a - a') * i_s inp) r c.
Proof.
  intros xJ val m inp a b a' b' cvI H1 H2 H3 H5 H6 H7 H8 H9.
  exact (IntervalCbcaP.cbca_slice_of_nested_intervals xJ H1 H2 val m inp a b a' b' H3 H5 H6 H7 H8 cvI H9).
Qed.

(* ---- per-pixel grids followed by cbca: the property's "same costs inside each pixel's interval"
   does NOT extend to the aggregated volume (recorded finding cbca_grid_neighbour_interval_leak).
   cv_masked puts NaN at (pixel, disparity) outside the pixel's interval BEFORE the aggregation; the
   aggregate of a neighbour, whose own interval contains the disparity, then averages over a region that
   has lost that cost (the NaN counts 0 in the sum and 1 in the size).  Full statement, its refutation
   in C11's model by a 3 x 3 witness, and the positive statement under the guard "no pixel of the plane
   is masked" (= C09_cbca_plane_ext above, planes equal over the whole image). *)
Definition C09_cbca_grid_inside_full : Prop :=
  forall (x : Cbca.cbca_in) cv' k r c,
    1 <= Cbca.i_subpix x -> 0 <= Cbca.i_off x ->
    0 <= k < CbcaP.n_disp x -> 0 <= r < Cbca.i_nr x -> 0 <= c < Cbca.i_nc x ->
    (* the other volume is this one with some cells turned into NaN by per-pixel intervals ... *)
    (forall r' c', cv' k r' c' = Cbca.i_cv x k r' c' \/ cv' k r' c' = None) ->
    (* ... but not at the pixel itself: the disparity is inside its interval *)
    cv' k r c = Cbca.i_cv x k r c ->
    CbcaP.out_at (CbcaP.with_volume x (Cbca.i_disps x) cv') k r c = CbcaP.out_at x k r c.

(* witness: 3 x 3 flat images (one 9-pixel support region), costs r + c, the cost of the neighbour (1, 0)
   masked: the aggregate of (1, 1) goes from 18/9 to 17/9 *)
Theorem C09_cbca_grid_inside_refuted : ~ C09_cbca_grid_inside_full.
Proof. exact IntervalCbcaP.cbca_grid_inside_refuted. Qed.

(* ---- non-vacuity: the 3 x 5 pair of C02_example (window 3, subpix 2, a nodata pixel in the right mask,
   per-pixel grids, axis [-1, 1]) against the scalar interval [-2, 2]: at (1, 2) the cost at d = +1/2 is
   plane 3 of the grid run and plane 3 + (-1 + 2) * 2 = 5 of the wide run (SAD 9/2); at (1, 3) the cost at
   d = 0 is NaN in the grid run (0 is below that pixel's minimum 1) and 4 in the wide run; WTA gives
   pixel (1, 2) the disparity 1/2 *)
Definition ex_img (l : list (list Z)) : img :=
  fun r c => nth (Z.to_nat c) (nth (Z.to_nat r) l []) 0.
Definition ex_inp : mc_input :=
  MkIn 3 5 3 2 (ex_img [[1;2;3;4;5];[2;4;6;8;9];[1;1;2;3;5]]) (ex_img [[1;3;2;4;6];[2;5;6;7;9];[0;1;2;2;5]])
       None (Some (ex_img [[1;0;0;0;0];[0;0;0;0;0];[0;0;0;0;0]])) 0 1
       (fun _ c => if c =? 3 then 1 else -1) (fun _ _ => 1).
Example C09_example :
  mvolume Sad ex_inp (-1) 1 1 2 3 = Some (CQ (9 # 2))
  /\ mvolume Sad (scalar_grids ex_inp (-2) 2) (-2) 2 1 2 5 = Some (CQ (9 # 2))
  /\ mvolume Sad ex_inp (-1) 1 1 3 2 = None
  /\ mvolume Sad (scalar_grids ex_inp (-2) 2) (-2) 2 1 3 4 = Some (CQ 4)
  /\ grid_min 3 5 (i_gmin ex_inp) = -1 /\ grid_max 3 5 (i_gmax ex_inp) = 1
  /\ disparity_interval (disp_axis 2 (-1) 1) = ((-2 # 2)%Q, (2 # 2)%Q)
  /\ wta_on_volume (fun v => match v with CQ q => q | _ => 0%Q end) Sad ex_inp (-1) 1 false 100
                   (Some (-9999)%Q) (fun _ _ => []) (fun _ _ => 0) 1 2 = Some (1 # 2)%Q.
Proof. vm_compute. repeat split. Qed.

(* ---- non-vacuity of the last clause: a 3 x 4 map on [-1, 2] (subpix 1) with an invalid pixel (flag 2), information
   bits, and six steps in a row -- refinement (vfit), median 3 x 3, validation with sgm interpolation, bilateral,
   refinement again (quadratic, on off-grid disparities), validation without interpolation.  The hypotheses of
   C09_final_disp_in_global_interval hold, the run completes, and the final map holds off-grid values
   (17/20, 67/80, 11/14), all inside [-1, 2]; the invalid pixel keeps its -9999 *)
Definition pl_grid {A} (d : A) (rows : list (list A)) : Z -> Z -> A :=
  fun r c => if (r <? 0) || (c <? 0) then d else nth (Z.to_nat c) (nth (Z.to_nat r) rows []) d.
Definition pl_q (z : Z) : option Q := Some (inject_Z z).
Definition pl_show {A} (nr nc : Z) (f : Z -> Z -> A) : list (list A) :=
  map (fun r => map (fun c => f r c) (CrossCheck.zrange 0 nc)) (CrossCheck.zrange 0 nr).
Definition pl_X := mkCtx 3 4 (-1) 2 1 0 100 50.
Definition pl_disp := pl_grid None [[pl_q 0; pl_q 1; pl_q 2; pl_q (-1)]; [pl_q 1; pl_q 0; pl_q (-9999); pl_q 2];
                                    [pl_q 2; pl_q 1; pl_q 1; pl_q 0]].
Definition pl_mask := pl_grid 0 [[0; 0; 4; 0]; [0; 0; 2; 0]; [0; 8; 0; 0]].
Definition pl_cv : Z -> Z -> list (option Q) :=
  fun r c => if c =? 1 then [pl_q 9; pl_q 4; pl_q 2; pl_q 7] else [pl_q 3; pl_q 1; None; pl_q 5].
Definition pl_other :=
  CrossCheck.mkDS 3 4 (pl_grid None [[pl_q 0; pl_q (-1); pl_q 1; pl_q 1]; [pl_q (-1); pl_q 0; pl_q 0; pl_q 0];
                                      [pl_q 0; pl_q (-1); pl_q (-2); pl_q 0]])
                  (fun _ _ => 0) [] (-2) 1 0.
Definition pl_steps :=
  [SRefine Refine.Vfit Refine.MMin pl_cv; SMedian 1; SValidation 1 pl_other (Some Interp.Sgm);
   SBilateral (2 # 3) (fun _ _ => 1%Q) (fun _ => 1%Q); SRefine Refine.Quadratic Refine.MMin pl_cv;
   SValidation 0 pl_other None].
Example C09_example_pipeline :
  ctx_ok pl_X /\ Forall (step_ok pl_X) pl_steps
  /\ Spec.Interp.never_both 3 4 pl_mask
  /\ in_global_interval 3 4 (-1) 2 (dstate_of pl_disp pl_mask)
  /\ match run_steps pl_X pl_steps (mkP pl_disp pl_mask []) with
     | Some st =>
       pl_show 3 4 (p_disp st)
       = [[Some 0; Some 0; Some (17 # 20); Some (-1)]; [Some 1; Some (67 # 80); Some (-9999); Some (17 # 20)];
          [Some 2; Some (11 # 14); Some 1; Some 0]]%Q
       /\ pl_show 3 4 (p_mask st) = [[8; 280; 284; 8]; [256; 520; 2; 280]; [8; 280; 256; 8]]
     | None => False
     end.
Proof.
  split; [unfold ctx_ok; cbn; lia|].
  split.
  { assert (CV : step_ok pl_X (SRefine Refine.Vfit Refine.MMin pl_cv) /\ step_ok pl_X (SRefine Refine.Quadratic Refine.MMin pl_cv)).
    { split; intros r c _ _; unfold pl_cv; destruct (c =? 1); reflexivity. }
    unfold pl_steps. repeat apply Forall_cons; try apply Forall_nil; try exact I; try (apply CV).
    - cbn. lia.
    - split; [discriminate|]. cbv zeta. repeat split; intros; try discriminate; reflexivity. }
  split.
  { intros r c Hr Hc.
    assert (Er : r = 0 \/ r = 1 \/ r = 2) by lia. assert (Ec : c = 0 \/ c = 1 \/ c = 2 \/ c = 3) by lia.
    destruct Er as [->|[->| ->]]; destruct Ec as [->|[->|[->| ->]]]; reflexivity. }
  split.
  { intros r c Hr Hc Hv.
    assert (Er : r = 0 \/ r = 1 \/ r = 2) by lia. assert (Ec : c = 0 \/ c = 1 \/ c = 2 \/ c = 3) by lia.
    destruct Er as [->|[->| ->]]; destruct Ec as [->|[->|[->| ->]]];
      try (vm_compute in Hv; discriminate Hv);
      (eexists; split; [reflexivity | split; vm_compute; discriminate]). }
  vm_compute. split; reflexivity.
Qed.

Print Assumptions C09_two_runs_same_sample.
Print Assumptions C09_cost_indep_of_interval.
Print Assumptions C09_slice_index.
Print Assumptions C09_grid_inside_outside.
Print Assumptions C09_grid_vs_scalar.
Print Assumptions C09_grid_extrema_const.
Print Assumptions C09_grids_act_pointwise.
Print Assumptions C09_scalar_interval_masks_nothing.
Print Assumptions C09_outside_pixel_interval_is_nan.
Print Assumptions C09_spec_interval_is_one_conjunct.
Print Assumptions C09_grid_extrema.
Print Assumptions C09_dsp_index_consistent.
Print Assumptions C09_stored_interval_is_searched.
Print Assumptions C09_wta_within_interval.
Print Assumptions C09_wta_no_cost_invalid.
Print Assumptions C09_wta_restriction.
Print Assumptions C09_final_disp_in_global_interval_partial.
Print Assumptions C09_arbitrary_steps_refuted.
Print Assumptions C09_wta_state_in_global_interval.
Print Assumptions C09_pipeline_constants.
Print Assumptions C09_callbacks_as_composed.
Print Assumptions C09_validity_tests_agree.
Print Assumptions C09_step_preserves_interval.
Print Assumptions C09_final_disp_in_global_interval.
Print Assumptions C09_final_disp_in_global_interval_from_wta.
Print Assumptions C09_refined_within_pixel_interval.
Print Assumptions C09_wta_then_refinement_within_pixel_interval.
Print Assumptions C09_cbca_plane_ext.
Print Assumptions C09_cbca_slice.
Print Assumptions C09_cbca_slice_of_nested_intervals.
Print Assumptions C09_cbca_grid_inside_refuted.
Print Assumptions C09_gen_dsp_index_consistent.
Print Assumptions C09_gen_interval_test.

(* ... and for per-pixel bounds that are NOT whole pixels (grids derived from refined disparities by the multiscale
   step, float grid files): the same generated comparison, read in the unit 1/(4 s) pixel (scale argument 1, sample
   D/s written 4 D, bound q/4 written q s), removes the cost exactly when the sample is outside [gq/4, hq/4] as
   rationals; the samples kept run from the CEILING of the lower bound to the FLOOR of the upper bound; on
   whole-pixel bounds it is the test above.  (The translated statement is run by numpy on quarter-pixel grids in
   harness/mc_gen.py and compared with the extracted generated test in this reading.) *)
Theorem C09_gen_interval_test_quarter_pixel : forall s gq hq r c D, 0 < s ->
  (G.cv_masked_out_of_range 1 (fun r c => gq r c * s) (fun r c => hq r c * s) r c (4 * D) = true
   <-> (Qlt (D # Z.to_pos s) (gq r c # 4) \/ Qlt (hq r c # 4) (D # Z.to_pos s)))
  /\ (G.cv_masked_out_of_range 1 (fun r c => gq r c * s) (fun r c => hq r c * s) r c (4 * D) = false
      <-> - ((- (gq r c * s)) / 4) <= D <= (hq r c * s) / 4)
  /\ (forall g h, G.cv_masked_out_of_range 1 (fun r c => 4 * g r c * s) (fun r c => 4 * h r c * s) r c (4 * D)
                  = G.cv_masked_out_of_range s g h r c D).
Proof. exact PointIntervalGenP.gen_interval_test_quarter_all. Qed.
Print Assumptions C09_gen_interval_test_quarter_pixel.
Print Assumptions C09_gen_axis_origin.
