(* C11 -- Cross-based aggregation averages costs over the combined support region.
   Statements only; every proof is `exact <lemma>` from Proofs/CbcaP.v.
   Model: Model/Cbca.v (hand-written from pandora/aggregation/cbca.py, tied to the code by the
   correspondence run of harness/props/c11.py).  Spec: Spec/Cbca.v (from the property text).

   All statements hold for every image size, mask layout, sub-pixel plane, window offset,
   cbca_distance >= 1 and every cbca_intensity (positivity is not even needed).
   Guards, stated where they are used:
     - costs are finite or NaN (type [option Q]): no +-inf in the volume (C02);
     - the cost is NaN where the correspondent column falls outside the right image (C02);
   the 3x3 median pre-filter is shared by both sides of C11_model_eq_spec ([spec_left] /
   [spec_right] are the filtered, cropped images): its own meaning is C10's. *)
From Coq Require Import ZArith QArith Qround List Bool Lia.
From Pandora Require Import Model.Cbca Spec.Cbca Proofs.CbcaP.
From Pandora Require Lib.KernelIR Model.CbcaIR Proofs.CbcaIRP Gen.CbcaKernels.
Import ListNotations.
Open Scope Z_scope.

(* ---- arms *)

(* the four loops of cross_support (break, loop variable reused by the minimum-arm rule,
   image sides) compute the arms of the specification, for every pixel of every image *)
Theorem C11_arms_spec : forall nr nc I len inten r c,
  1 <= len -> 0 <= r < nr -> 0 <= c < nc ->
  cross_support nr nc I len inten r c
  = mkArms (spec_arm (mkF nr nc I) len inten DLeft r c) (spec_arm (mkF nr nc I) len inten DRight r c)
           (spec_arm (mkF nr nc I) len inten DUp r c) (spec_arm (mkF nr nc I) len inten DDown r c).
Proof. exact arms_spec. Qed.

(* the arm of the specification is THE longest run satisfying the three stopping rules
   (closer than cbca_distance, inside and not masked, jump < cbca_intensity), at least one
   pixel when the neighbour exists and is not masked *)
Theorem C11_arm_is_longest_run : forall get dist inten v k,
  is_arm get dist inten v k <-> k = ray_arm get dist inten v.
Proof. exact ray_arm_iff_is_arm. Qed.

(* an arm never leaves the image (in-range side condition of every read of steps 2 and 4) *)
Theorem C11_arms_in_image : forall I dist inten r c,
  0 <= r < f_nr I -> 0 <= c < f_nc I ->
  0 <= spec_arm I dist inten DLeft r c <= c /\
  0 <= spec_arm I dist inten DRight r c <= f_nc I - 1 - c /\
  0 <= spec_arm I dist inten DUp r c <= r /\
  0 <= spec_arm I dist inten DDown r c <= f_nr I - 1 - r.
Proof. exact spec_arm_in_image. Qed.

(* ---- sentinel column / row: a read through index -1 returns 0 *)

Theorem C11_read_minus_one_is_zero :
  (forall nc cvrow, 0 <= nc -> step1_row nc cvrow (wrap (nc + 1) (-1)) = 0%Q) /\
  (forall nr col, 1 <= nr -> step3_col nr col (wrap (nr + 1) (-1)) = 0%Q).
Proof. exact (conj step1_read_minus_one_is_zero step3_read_minus_one_is_zero). Qed.

(* ---- one plane, for arbitrary arm tables that stay inside their image *)

Section Plane.
  Variables (nr nc ncR : Z) (crossL crossR : Z -> Z -> arms) (d : Q) (cv : Z -> Z -> option Q).
  Variables (armL armR : dir -> Z -> Z -> Z).
  Hypothesis Hnr : 1 <= nr.
  Hypothesis Hnc : 1 <= nc.
  Hypothesis HL : forall r c, 0 <= r < nr -> 0 <= c < nc ->
    crossL r c = mkArms (armL DLeft r c) (armL DRight r c) (armL DUp r c) (armL DDown r c).
  Hypothesis HR : forall r c, 0 <= r < nr -> 0 <= c < ncR ->
    crossR r c = mkArms (armR DLeft r c) (armR DRight r c) (armR DUp r c) (armR DDown r c).
  Hypothesis BL : forall r c, 0 <= r < nr -> 0 <= c < nc ->
    0 <= armL DLeft r c <= c /\ 0 <= armL DRight r c <= nc - 1 - c /\
    0 <= armL DUp r c <= r /\ 0 <= armL DDown r c <= nr - 1 - r.
  Hypothesis BR : forall dd r c, 0 <= r < nr -> 0 <= c < ncR -> 0 <= armR dd r c.

  (* step 2 (difference of two reads of the running sum of step 1, one of them possibly
     through index -1) is the sum of the computable costs over the horizontal arms *)
  Theorem C11_step2_is_arm_sum : forall s1 r c,
    (forall r' c', 0 <= r' < nr -> 0 <= c' < nc + 1 -> s1 r' c' = step1 nc cv r' c') ->
    0 <= r < nr -> 0 <= c < nc -> valid_col ncR d c = true ->
    step2 nc ncR crossL crossR d s1 r c
    == psum (fun j => nz (cv r j))
            (c - carm armL armR (Qfloor d) DLeft r c)
            (carm armL armR (Qfloor d) DLeft r c + carm armL armR (Qfloor d) DRight r c + 1).
  Proof. exact (step2_is_arm_sum nr nc ncR crossL crossR d cv armL armR Hnc HL HR BL BR). Qed.

  (* steps 1-4 composed: the numerator is the sum of the computable costs over the region *)
  Theorem C11_step4_is_region_sum : forall s1 s2 s3 r c,
    (forall r' c', 0 <= r' < nr -> 0 <= c' < nc + 1 -> s1 r' c' = step1 nc cv r' c') ->
    (forall r' c', 0 <= r' < nr -> 0 <= c' < nc -> s2 r' c' = step2 nc ncR crossL crossR d s1 r' c') ->
    (forall r' c', 0 <= r' < nr + 1 -> 0 <= c' < nc -> s3 r' c' = step3 nr s2 r' c') ->
    0 <= r < nr -> 0 <= c < nc -> valid_col ncR d c = true ->
    step4 nr ncR crossL crossR d s3 r c
    == sumQ (map (fun p => cost_or_0 (cv (fst p) (snd p))) (region armL armR (Qfloor d) r c)).
  Proof. exact (step4_is_region_sum nr nc ncR crossL crossR d cv armL armR Hnr Hnc HL HR BL BR). Qed.

  (* the support count plus the anchor is the number of pixels of the region ... *)
  Theorem C11_sum4_is_region_size : forall sm2 r c,
    (forall r' c', 0 <= r' < nr -> 0 <= c' < nc -> sm2 r' c' = sum2 ncR crossL crossR d r' c') ->
    0 <= r < nr -> 0 <= c < nc -> valid_col ncR d c = true ->
    sum4 ncR crossL crossR d sm2 r c + 1 = Z.of_nat (length (region armL armR (Qfloor d) r c)).
  Proof. exact (sum4_is_region_size nr nc ncR crossL crossR d armL armR HL HR BL BR). Qed.

  (* ... which contains the pixel itself: the normalisation never divides by zero *)
  Theorem C11_region_has_anchor : forall r c,
    0 <= r < nr -> 0 <= c < nc -> valid_col ncR d c = true ->
    In (r, c) (region armL armR (Qfloor d) r c).
  Proof. exact (region_has_anchor nr nc ncR d armL armR BL BR). Qed.
End Plane.

(* ---- the whole aggregation step *)

Section Step.
  Variable x : cbca_in.
  Hypothesis Hdist : 1 <= i_dist x.
  Hypothesis Hsub : 1 <= i_subpix x.
  Hypothesis Hoff : 0 <= i_off x.
  Hypothesis Hcnr : 1 <= cnr x.
  Hypothesis Hcnc : 1 <= cnc x.

  (* MAIN: for every plane k (disparity d = n + s/subpix) and every pixel of the computable
     area, the aggregated cost is NaN if the input cost is NaN, else the sum of the
     computable input costs over the combined support region divided by its size *)
  Theorem C11_model_eq_spec : forall k r c,
    0 <= k < n_disp x -> in_crop x r c = true ->
    let d := nth_disp x k in
    let s := plane_image (i_subpix x) d in
    (forall r' c', 0 <= r' < cnr x -> 0 <= c' < cnc x ->
                   ~ (0 <= c' + plane_shift d < cncR x s) ->
                   i_cv x k (r' + i_off x) (c' + i_off x) = None) ->
    out_at x k r c
    = agg_spec (spec_left x) (spec_right x s) (i_dist x) (i_inten x) (plane_shift d)
               (crop (i_off x) (i_cv x k)) (r - i_off x) (c - i_off x).
  Proof. exact (cbca_model_eq_spec x Hdist Hsub Hoff Hcnr Hcnc). Qed.

  (* NaN stays NaN and no other cost becomes NaN, at every position of the volume
     (guard: a cost is finite or NaN, i.e. of type [option Q]) *)
  Theorem C11_nan_preserved : forall k r c,
    0 <= k < n_disp x -> 0 <= r < i_nr x -> 0 <= c < i_nc x ->
    (out_at x k r c = None <-> i_cv x k r c = None).
  Proof. exact (cbca_nan_preserved x Hsub Hoff). Qed.

  (* what must not change: the costs outside the computable area (window offset) *)
  Theorem C11_border_unchanged : forall k r c,
    0 <= k < n_disp x -> 0 <= r < i_nr x -> 0 <= c < i_nc x -> in_crop x r c = false ->
    out_at x k r c = i_cv x k r c.
  Proof. exact (cbca_border_unchanged x Hsub). Qed.

  (* each disparity plane is aggregated independently of the others: same images and
     parameters, another volume (other planes, other number or order of planes) in which
     plane k' has the disparity and the costs of plane k => same aggregated plane *)
  Theorem C11_plane_independent : forall disps' cv' k k' r c,
    0 <= k < n_disp x -> 0 <= k' < Z.of_nat (length disps') ->
    nth_disp x k = nth (Z.to_nat k') disps' 0%Q ->
    i_cv x k = cv' k' ->
    0 <= r < i_nr x -> 0 <= c < i_nc x ->
    out_at x k r c = out_at (with_volume x disps' cv') k' r c.
  Proof. exact (cbca_plane_independent x Hsub). Qed.
End Step.

(* ---- non-vacuity: a 4 x 5 pair with a masked pixel on each side, subpix 2, four planes
   (d = -1/2, 0, 1/2, 1); the hypotheses of C11_model_eq_spec hold for plane 2 (d = 1/2) and
   the aggregate of pixel (2, 1) is a mean over an 11-pixel region *)
Definition ex_in : cbca_in :=
  mkIn 4 5 0 2 3 (5 # 1)
       (fun r c => Some (inject_Z (3 * c + r * r)))
       (Some (fun r c => if (r =? 1) && (c =? 3) then 7 else 0)) 0
       (fun s r c => if s =? 0 then Some (inject_Z (3 * c + r))
                     else Some (inject_Z (6 * c + 2 * r + 3) * (1 # 2))%Q)
       (Some (fun r c => if (r =? 2) && (c =? 0) then 1 else 0)) 0
       [(-1 # 2)%Q; 0%Q; (1 # 2)%Q; 1%Q]
       (fun k r c => if (k =? 0) && (c =? 0) then None
                     else if (k =? 2) && (c =? 4) then None
                     else if (k =? 3) && (c =? 4) then None
                     else if (r =? 1) && (c =? 3) then None
                     else Some (inject_Z (k + r + 2 * c) * (1 # 2))%Q).

Example C11_example_hyps :
  1 <= i_dist ex_in /\ 1 <= i_subpix ex_in /\ 0 <= i_off ex_in /\ 1 <= cnr ex_in /\ 1 <= cnc ex_in
  /\ 0 <= 2 < n_disp ex_in /\ in_crop ex_in 2 1 = true
  /\ plane_image 2 (nth_disp ex_in 2) = 1 /\ plane_shift (nth_disp ex_in 2) = 0
  /\ (forall r' c', 0 <= r' < cnr ex_in -> 0 <= c' < cnc ex_in ->
        ~ (0 <= c' + 0 < cncR ex_in 1) -> i_cv ex_in 2 (r' + i_off ex_in) (c' + i_off ex_in) = None)
  /\ length (region (spec_arm (spec_left ex_in) 3 (5 # 1)) (spec_arm (spec_right ex_in 1) 3 (5 # 1)) 0 2 1)
     = 11%nat
  /\ out_at ex_in 2 2 1 = Some (31 # 11)%Q.
Proof.
  repeat split; try (vm_compute; congruence).
  intros r' c' Hr Hc Hout. change (cnc ex_in) with 5 in Hc. change (cncR ex_in 1) with 4 in Hout.
  assert (c' = 4) by lia. subst c'. reflexivity.
Qed.

(* ---- regression: the defect repaired by the `fix:` commit of the tree under test.
   With cbca_distance = 1 the arm loops do not iterate; the unrepaired code left the loop
   variable on the pixel itself, so the minimum-arm rule looked at the pixel instead of its
   neighbour and a one-pixel arm reached into a masked neighbour. *)
Definition arm_dec_unrepaired (line : Z -> option Q) (pos len : Z) (inten v : Q) : Z :=
  let '(l, last) := arm_scan line v inten (range_dec (pos - 1) (Z.max (pos - len) (-1))) 0 pos in
  Z.max l (1 * b2z (1 <=? pos) * b2z (isfin (line last))).
Definition witness_line : Z -> option Q := fun k => if k =? 1 then None else Some 10%Q.
Example C11_distance1_witness :
  (* pixel 2 of the line 10, masked, 10, 10 with cbca_distance = 1 *)
  arm_dec_unrepaired witness_line 2 1 (5 # 1) 10%Q = 1      (* reaches into the masked pixel *)
  /\ arm_dec witness_line 2 1 (5 # 1) 10%Q = 0              (* repaired code *)
  /\ ray_arm (fun j => witness_line (2 - j)) 1 (5 # 1) 10%Q = 0.   (* the property *)
Proof. vm_compute. auto. Qed.

(* ================================================================================================
   Tie to the source (T-gen).  Gen/CbcaKernels.v is rewritten at every run from the `ast` of the
   five numba kernels of pandora/aggregation/cbca.py (translator/gen_cbca_kernels.py) as trees of
   the IR of Lib/KernelIR.v, whose evaluator [run_kernel] carries the Python / numpy / IEEE
   meaning (negative indices wrap around, out-of-range accesses are errors, range / break / loop
   variable after the loop, slices, NaN and +-inf).  The theorems below are about THOSE trees:
   C11_gen_<kernel>_canonical are the per-run obligations "what the code says now is the tree the
   proofs were made for" (it fails to type-check as soon as one index, bound, operator, dtype or
   statement of a kernel changes; renaming a local does not change the tree); the others say what
   the evaluation of the generated kernels computes, for ALL inputs, and that it never leaves an
   array. *)
Module IR := Pandora.Lib.KernelIR.
Module G := Pandora.Gen.CbcaKernels.
Module K := Pandora.Model.CbcaIR.
Module P := Pandora.Proofs.CbcaIRP.

Theorem C11_gen_cross_support_canonical : G.cross_support = K.cross_support.
Proof. exact eq_refl. Qed.
Theorem C11_gen_step1_canonical : G.cbca_step_1 = K.cbca_step_1.
Proof. exact eq_refl. Qed.
Theorem C11_gen_step2_canonical : G.cbca_step_2 = K.cbca_step_2.
Proof. exact eq_refl. Qed.
Theorem C11_gen_step3_canonical : G.cbca_step_3 = K.cbca_step_3.
Proof. exact eq_refl. Qed.
Theorem C11_gen_step4_canonical : G.cbca_step_4 = K.cbca_step_4.
Proof. exact eq_refl. Qed.

(* cross_support as written in the source = Model.cross_support, hence (C11_arms_spec) the arms of
   the specification; image = the filtered image after nan_to_num (a masked pixel is +inf) *)
Theorem C11_gen_cross_support_eq : forall nr nc len inten I IM,
  0 <= nr -> 0 <= nc -> IR.ashape IM = [nr; nc] ->
  (forall r c, 0 <= r < nr -> 0 <= c < nc -> IR.adata IM [r; c] = IR.VFlt (P.of_img (I r c))) ->
  exists C, IR.run_kernel G.cross_support [IR.VInt len; IR.VFlt (IR.Fin inten)] [IM] = Some [C] /\
    P.arms_arr C nr nc (cross_support nr nc I len inten).
Proof. exact (P.gen_cross_support G.cross_support eq_refl). Qed.

(* the evaluator computes with unbounded integers while the arms are stored in an int32 array:
   the store is exact as soon as cbca_distance <= 2^31 or both image sides are <= 2^31 (an arm
   is at most max(1, cbca_distance - 1) pixels long and stays inside the image) *)
Theorem C11_gen_arms_fit_int32 : forall nr nc len inten I r c k,
  1 <= len -> 0 <= r < nr -> 0 <= c < nc -> 0 <= k < 4 ->
  len <= 2147483648 \/ (nr <= 2147483648 /\ nc <= 2147483648) ->
  0 <= P.arm_at (cross_support nr nc I len inten r c) k <= 2147483647.
Proof. exact P.arms_fit_int32. Qed.

(* regression: the defect repaired by the second `fix:` commit of the tree under test.  On a flat
   unmasked row of 33000 pixels with cbca_distance = 40000 the left arm of the last pixel has 32999
   pixels: it does not fit the int16 cell the code stored it in (the compiled kernel returned
   -32537, and the aggregated costs of the 464 pixels with such an arm were wrong); it fits int32. *)
Example C11_int16_witness :
  aL (cross_support 1 33000 (fun _ _ => Some 7%Q) 40000 (5 # 1) 0 32999) = 32999 /\ 32767 < 32999 <= 2147483647.
Proof. exact P.int16_witness. Qed.

(* cbca_step_1 as written in the source = Model.step1 (cv: NaN where the cost is not computable) *)
Theorem C11_gen_step1_eq : forall nr nc cv A,
  0 <= nr -> 0 <= nc -> IR.ashape A = [nr; nc] ->
  (forall r c, 0 <= r < nr -> 0 <= c < nc -> IR.adata A [r; c] = IR.VFlt (P.of_cost (cv r c))) ->
  exists S, IR.run_kernel G.cbca_step_1 [] [A] = Some [S] /\ IR.ashape S = [nr; nc + 1] /\
    forall r c, 0 <= r < nr -> 0 <= c < nc + 1 -> P.fval (IR.adata S [r; c]) (step1 nc cv r c).
Proof. exact (P.gen_step1 G.cbca_step_1 eq_refl). Qed.

(* cbca_step_2 as written in the source = Model.step2 / Model.sum2 on the columns listed in
   range_col, 0 elsewhere; the arm hypothesis is the in-range condition of its two reads of step1 *)
Theorem C11_gen_step2_eq : forall nr nc ncR crossL crossR d s1 S1 CL CR RC RCR cols,
  0 <= nr -> 0 <= nc -> IR.ashape S1 = [nr; nc + 1] ->
  (forall r c, 0 <= r < nr -> 0 <= c < nc + 1 -> P.fval (IR.adata S1 [r; c]) (s1 r c)) ->
  P.arms_arr CL nr nc crossL -> P.arms_arr CR nr ncR crossR ->
  P.ints_arr RC cols (fun c => c) -> P.ints_arr RCR cols (corr d) -> NoDup cols ->
  (forall c, In c cols -> 0 <= c < nc /\ 0 <= corr d c < ncR) ->
  (forall r c, 0 <= r < nr -> In c cols ->
     0 <= h_left crossL crossR d r c <= c /\ 0 <= h_right crossL crossR d r c <= nc - 1 - c) ->
  exists S SM, IR.run_kernel G.cbca_step_2 [] [S1; CL; CR; RC; RCR] = Some [S; SM] /\
    IR.ashape S = [nr; nc] /\ IR.ashape SM = [nr; nc] /\
    forall r c, 0 <= r < nr -> 0 <= c < nc ->
      (In c cols ->
         P.fval (IR.adata S [r; c]) (qsub (s1 r (c + h_right crossL crossR d r c))
                                          (s1 r (wrap (nc + 1) (c - h_left crossL crossR d r c - 1)))) /\
         P.fval (IR.adata SM [r; c]) (inject_Z (h_right crossL crossR d r c + h_left crossL crossR d r c))) /\
      (~ In c cols -> IR.adata S [r; c] = IR.VFlt (IR.Fin 0) /\ IR.adata SM [r; c] = IR.VFlt (IR.Fin 0)).
Proof. exact (P.gen_step2 G.cbca_step_2 eq_refl). Qed.

(* cbca_step_3 as written in the source = Model.step3 *)
Theorem C11_gen_step3_eq : forall nr nc s2 B,
  1 <= nr -> 0 <= nc -> IR.ashape B = [nr; nc] ->
  (forall r c, 0 <= r < nr -> 0 <= c < nc -> P.fval (IR.adata B [r; c]) (s2 r c)) ->
  exists S, IR.run_kernel G.cbca_step_3 [] [B] = Some [S] /\ IR.ashape S = [nr + 1; nc] /\
    forall r c, 0 <= r < nr + 1 -> 0 <= c < nc -> P.fval (IR.adata S [r; c]) (step3 nr s2 r c).
Proof. exact (P.gen_step3 G.cbca_step_3 eq_refl). Qed.

(* cbca_step_4 as written in the source = Model.step4 / Model.sum4 on the columns listed in
   range_col; elsewhere step4 is 0 and sum4 is sum2 *)
Theorem C11_gen_step4_eq : forall nr nc ncR crossL crossR d s3 sm2 S3 SM2 CL CR RC RCR cols,
  0 <= nr -> 0 <= nc -> IR.ashape S3 = [nr + 1; nc] ->
  (forall r c, 0 <= r < nr + 1 -> 0 <= c < nc -> P.fval (IR.adata S3 [r; c]) (s3 r c)) ->
  IR.ashape SM2 = [nr; nc] ->
  (forall r c, 0 <= r < nr -> 0 <= c < nc -> P.fval (IR.adata SM2 [r; c]) (inject_Z (sm2 r c))) ->
  P.arms_arr CL nr nc crossL -> P.arms_arr CR nr ncR crossR ->
  P.ints_arr RC cols (fun c => c) -> P.ints_arr RCR cols (corr d) -> NoDup cols ->
  (forall c, In c cols -> 0 <= c < nc /\ 0 <= corr d c < ncR) ->
  (forall r c, 0 <= r < nr -> In c cols ->
     0 <= v_top crossL crossR d r c <= r /\ 0 <= v_bot crossL crossR d r c <= nr - 1 - r) ->
  exists S SM, IR.run_kernel G.cbca_step_4 [] [S3; SM2; CL; CR; RC; RCR] = Some [S; SM] /\
    IR.ashape S = [nr; nc] /\ IR.ashape SM = [nr; nc] /\
    forall r c, 0 <= r < nr -> 0 <= c < nc ->
      (In c cols ->
         P.fval (IR.adata S [r; c]) (qsub (s3 (r + v_bot crossL crossR d r c) c)
                                          (s3 (wrap (nr + 1) (r - v_top crossL crossR d r c - 1)) c)) /\
         P.fval (IR.adata SM [r; c])
                (inject_Z (let top := v_top crossL crossR d r c in
                           let bot := v_bot crossL crossR d r c in
                           sm2 r c + (top + bot)
                           + (if top =? 0 then 0 else zsum (map (fun k0 => sm2 k0 c) (zrange (r - top) top)))
                           + (if bot =? 0 then 0 else zsum (map (fun k0 => sm2 k0 c) (zrange (r + 1) bot)))))) /\
      (~ In c cols -> IR.adata S [r; c] = IR.VFlt (IR.Fin 0) /\ IR.adata SM [r; c] = IR.adata SM2 [r; c]).
Proof. exact (P.gen_step4 G.cbca_step_4 eq_refl). Qed.

(* HEADLINE on the generated kernels.  For every plane k and every pixel of the computable area:
   the generated cross_support run on the prepared left / right images (filtered, cropped,
   NaN -> +inf), then the four generated kernels chained as the plane loop of
   cost_volume_aggregation chains them ([K.ir_plane]) on the plane's costs and on
   range_col[valid_index] / range_col_right[valid_index], then the anchor, the NaN re-injection
   and the division ([K.finish_cell]) -- all of it evaluates without leaving an array, and the
   result is the aggregate of the specification. *)
Theorem C11_gen_model_eq_spec : forall x : cbca_in,
  1 <= i_dist x -> 0 <= i_off x -> 1 <= cnr x -> 1 <= cnc x ->
  forall k r c,
  0 <= k < n_disp x -> in_crop x r c = true ->
  let d := nth_disp x k in
  let s := plane_image (i_subpix x) d in
  let cv := crop (i_off x) (i_cv x k) in
  (forall r' c', 0 <= r' < cnr x -> 0 <= c' < cnc x ->
                 ~ (0 <= c' + plane_shift d < cncR x s) ->
                 i_cv x k (r' + i_off x) (c' + i_off x) = None) ->
  forall IML IMR CV RC RCR,
  P.img_arr IML (cnr x) (cnc x) (crop (i_off x) (left_filtered x)) ->
  P.img_arr IMR (cnr x) (cncR x s) (crop (i_off x) (right_filtered x s)) ->
  P.cost_arr CV (cnr x) (cnc x) cv ->
  P.ints_arr RC (K.valid_cols (cnc x) (cncR x s) d) (fun c0 => c0) ->
  P.ints_arr RCR (K.valid_cols (cnc x) (cncR x s) d) (corr d) ->
  exists CL CR S4 SM4,
    IR.run_kernel G.cross_support [IR.VInt (i_dist x); IR.VFlt (IR.Fin (i_inten x))] [IML] = Some [CL] /\
    IR.run_kernel G.cross_support [IR.VInt (i_dist x); IR.VFlt (IR.Fin (i_inten x))] [IMR] = Some [CR] /\
    K.ir_plane G.cbca_step_1 G.cbca_step_2 G.cbca_step_3 G.cbca_step_4 CV CL CR RC RCR = Some (S4, SM4) /\
    K.finish_cell (cv (r - i_off x) (c - i_off x))
                  (IR.adata S4 [r - i_off x; c - i_off x]) (IR.adata SM4 [r - i_off x; c - i_off x])
    = Some (agg_spec (spec_left x) (spec_right x s) (i_dist x) (i_inten x) (plane_shift d) cv
                     (r - i_off x) (c - i_off x)).
Proof.
  exact (fun x Hd Ho Hr Hc =>
           P.ir_cbca_eq_spec x Hd Ho Hr Hc G.cross_support G.cbca_step_1 G.cbca_step_2 G.cbca_step_3 G.cbca_step_4
                             eq_refl eq_refl eq_refl eq_refl eq_refl).
Qed.

(* ---- non-vacuity of the generated kernels: they run ([vm_compute] of the evaluator on the trees
   regenerated from the source).  cross_support on the line 10, masked, 10, 10 with
   cbca_distance = 1 (the regression witness above): pixel 2 has no left arm and a one-pixel
   right arm; cbca_step_1 on the row 3, NaN, 4: running sums 3, 3, 7 and the sentinel 0 read
   through index -1. *)
Definition ex_line : IR.arr :=
  IR.mkArr [1; 4] (fun k => match k with [_; 1] => IR.VFlt IR.PInf | _ => IR.VFlt (IR.Fin 10) end).
Definition ex_row : IR.arr :=
  IR.mkArr [1; 3] (fun k => match k with
                            | [_; 0] => IR.VFlt (IR.Fin 3) | [_; 1] => IR.VFlt IR.NaN | _ => IR.VFlt (IR.Fin 4)
                            end).
Example C11_gen_example_runs :
  (match IR.run_kernel G.cross_support [IR.VInt 1; IR.VFlt (IR.Fin (5 # 1))] [ex_line] with
   | Some [C] => Some (map (fun k => IR.adata C [0; 2; k]) [0; 1; 2; 3])
   | _ => None
   end = Some [IR.VInt 0; IR.VInt 1; IR.VInt 0; IR.VInt 0])
  /\
  (match IR.run_kernel G.cbca_step_1 [] [ex_row] with
   | Some [S1] => Some (map (fun c => IR.adata S1 [0; c]) [0; 1; 2; -1])
   | _ => None
   end = Some [IR.VFlt (IR.Fin 3); IR.VFlt (IR.Fin 3); IR.VFlt (IR.Fin 7); IR.VFlt (IR.Fin 0)]).
Proof. split; vm_compute; reflexivity. Qed.

Print Assumptions C11_arms_spec.
Print Assumptions C11_arm_is_longest_run.
Print Assumptions C11_arms_in_image.
Print Assumptions C11_read_minus_one_is_zero.
Print Assumptions C11_step2_is_arm_sum.
Print Assumptions C11_step4_is_region_sum.
Print Assumptions C11_sum4_is_region_size.
Print Assumptions C11_region_has_anchor.
Print Assumptions C11_model_eq_spec.
Print Assumptions C11_nan_preserved.
Print Assumptions C11_border_unchanged.
Print Assumptions C11_plane_independent.
Print Assumptions C11_gen_cross_support_canonical.
Print Assumptions C11_gen_step1_canonical.
Print Assumptions C11_gen_step2_canonical.
Print Assumptions C11_gen_step3_canonical.
Print Assumptions C11_gen_step4_canonical.
Print Assumptions C11_gen_cross_support_eq.
Print Assumptions C11_gen_arms_fit_int32.
Print Assumptions C11_gen_step1_eq.
Print Assumptions C11_gen_step2_eq.
Print Assumptions C11_gen_step3_eq.
Print Assumptions C11_gen_step4_eq.
Print Assumptions C11_gen_model_eq_spec.
