(* C11 -- temporary stub while the proofs are being written *)
From Coq Require Import ZArith.
From Pandora Require Import Model.Cbca.
Theorem C11_stub : wrap 5 (-1) = 4%Z.
Proof. reflexivity. Qed.
Print Assumptions C11_stub.
