(* C04 -- placeholder, completed below *)
From Coq Require Import List Bool ZArith.
From Pandora Require Import Model.Criteria Model.FlagSteps Gen.Flags.
Theorem C04_flags_wf : wf_env (mkEnv consts flag_sites) = true.
Proof. vm_compute. reflexivity. Qed.
Print Assumptions C04_flags_wf.
