(* C04 -- validity flags, NaN costs and invalid disparities tell one coherent story.
   Statements only; proofs are in Proofs/FlagEnvP.v, CriteriaP.v, FlagStepsP.v, FlagPipelineP.v,
   FlagWtaP.v, FlagCostP.v (sad / ssd NaN pattern), FlagCostCensusZnccP.v (census / zncc / every measure).

   Reading guide.
   * [E : env] = the constants of pandora/constants.py and the list of EVERY write to a validity
     mask found in the source (operator += / -= / |= / =, constant, syntactic guard), regenerated
     on every run into Gen/Flags.v.  All theorems are proved for ANY environment satisfying the
     boolean predicate [wf_env]; [C04_flags_wf] re-proves it for the regenerated one (a complete
     computation), so a new / changed write in the code breaks that obligation.
   * [L : layout] = image size, window half-width, GLOBAL integer interval, the two masks and their
     conventions; [scene_of L gmin gmax] = its documented reading (Spec/Validity.v), gmin/gmax the
     per-pixel interval grids.  [after_mc E L allnan r c] = the flag of pixel (r, c) after
     matching_cost_prepare + cv_masked (Model/Criteria.v), [allnan] the NaN pattern of the cost
     volume; [nan_pattern_ok] is C02's statement about it (all costs NaN iff no disparity of the
     global interval is computable), the hypothesis under which the flags are read.  For the cost-volume
     models of the four built-in measures it is a THEOREM (C04_nan_pattern_sad/_census/_zncc/_every_measure),
     so C04_invalid_iff_allnan_<measure>, C04_invalid_iff_allnan_every_measure and
     C04_after_mc_expected_every_measure carry no hypothesis on the NaN pattern.
   * [t_step E offpos border s d m] = what step [s] does to the flag [m] of one pixel when its
     numeric side takes decision [d] (any decision: stopped / refined, consistent / occlusion /
     mismatch / outside, fillable or not, regularised or not).
   * [inv_b m] : 0 <= m < 4096, bit 10 clear, not both bit 8 and bit 9.  [pinv_b cR cI m] adds
     "bit 3 clear if cR" and "bits 4, 5 clear if cI" (cR / cI: no refinement / interpolation so far).
   * [ok_step] / [snd (run_pipe ...)] : every += found its bit clear and every -= found it set. *)
From Coq Require Import List Bool ZArith QArith.
From Pandora Require Import Lib.Ext Model.Machine Spec.Language Model.Criteria Model.FlagSteps Model.FlagPipeline
  Model.Wta Spec.Validity Proofs.WtaP
  Model.MatchingCost Proofs.MatchingCostP
  Proofs.FlagEnvP Proofs.CriteriaP Proofs.FlagStepsP Proofs.FlagPipelineP Proofs.FlagWtaP Proofs.FlagCostP Proofs.FlagCostCensusZnccP Gen.Flags
  Lib.NpCrit Gen.CriteriaFns Proofs.CriteriaGenP.
Import ListNotations.
Open Scope Z_scope.

Definition E0 : env := mkEnv consts flag_sites.

(* ---- per-run obligations on the regenerated data *)

(* exactly the 47 known writes, in order, each with its documented constant, an acceptable operator
   and the guard that makes it carry-free; constants = 2^bit, INVALID = bits 0,1,6,7,8,9 *)
Theorem C04_flags_wf : wf_env E0 = true.
Proof. vm_compute. reflexivity. Qed.

(* the information bits 3, 4, 5 are set with `|=` in the tree under test: the guard of the pipeline
   theorem holds for EVERY pipeline (with `+=` it would exclude repeated refinement / interpolation) *)
Theorem C04_info_bits_idempotent :
  refine_idem E0 && interp_idem E0 IMcCnn && interp_idem E0 ISgm = true.
Proof. vm_compute. reflexivity. Qed.

Theorem C04_guard_holds_for_every_pipeline : forall p cR cI, pipeline_guard E0 cR cI p = true.
Proof.
  pose proof C04_info_bits_idempotent as H. apply andb_prop in H as [H H3]. apply andb_prop in H as [H1 H2].
  exact (guard_trivial E0 H1 H2 H3).
Qed.

(* ---- after the matching cost: every layout, every pixel *)

Section AfterMatchingCost.
  Variables (E : env) (L : layout) (gmin gmax : Z -> Z -> Z) (allnan : Z -> Z -> bool).
  Hypothesis Hwf : wf_env E = true.
  Hypothesis Hoff : 0 <= off L.
  Hypothesis Hd : dmin L <= dmax L.
  Let S := scene_of L gmin gmax.
  Let flag := after_mc E L allnan.
  Let nan_ok := nan_pattern_ok L gmin gmax allnan.

  (* the mask the code builds is the documented one: 1 on the border, elsewhere exactly the bits whose
     documented cause holds *)
  Theorem C04_after_mc_expected : forall r c, in_img S r c -> nan_ok r c ->
    flag r c = expected_flag S r c.
  Proof. exact (flag_expected E L gmin gmax allnan Hwf Hoff Hd). Qed.

  Theorem C04_border_bit0_only : forall r c, border S r c -> nan_ok r c -> flag r c = 1.
  Proof. exact (border_bit0_only E L gmin gmax allnan Hwf Hoff Hd). Qed.

  Theorem C04_bit0_iff : forall r c, in_img S r c -> win_in S r c -> nan_ok r c ->
    (Z.testbit (flag r c) 0 = true <-> cause0 S r c).
  Proof. exact (bit0_iff E L gmin gmax allnan Hwf Hoff Hd). Qed.

  Theorem C04_bit1_iff : forall r c, in_img S r c -> win_in S r c -> nan_ok r c ->
    (Z.testbit (flag r c) 1 = true <-> cause1 S r c).
  Proof. exact (bit1_iff E L gmin gmax allnan Hwf Hoff Hd). Qed.

  Theorem C04_bit2_iff : forall r c, in_img S r c -> win_in S r c -> nan_ok r c ->
    (Z.testbit (flag r c) 2 = true <-> cause2 S r c).
  Proof. exact (bit2_iff E L gmin gmax allnan Hwf Hoff Hd). Qed.

  Theorem C04_bit6_iff : forall r c, in_img S r c -> win_in S r c -> nan_ok r c ->
    (Z.testbit (flag r c) 6 = true <-> cause6 S r c).
  Proof. exact (bit6_iff E L gmin gmax allnan Hwf Hoff Hd). Qed.

  Theorem C04_bit7_iff : forall r c, in_img S r c -> win_in S r c -> nan_ok r c ->
    (Z.testbit (flag r c) 7 = true <-> cause7 S r c).
  Proof. exact (bit7_iff E L gmin gmax allnan Hwf Hoff Hd). Qed.

  (* no other bit than 0, 1, 2, 6, 7 *)
  Theorem C04_mc_only_criteria_bits : forall r c, in_img S r c -> nan_ok r c ->
    Z.land (flag r c) 199 = flag r c /\ 0 <= flag r c < 256.
  Proof. exact (mc_only_criteria_bits E L gmin gmax allnan Hwf Hoff Hd). Qed.

  (* an 'invalid' flag (bits 0, 1, 6, 7 = 0b11000011) iff none of the costs is computable, iff all NaN *)
  Theorem C04_invalid_iff_nocost : forall r c, in_img S r c -> nan_ok r c ->
    (Z.land (flag r c) 195 <> 0 <-> no_cost S r c).
  Proof. exact (invalid_iff_nocost E L gmin gmax allnan Hwf Hoff Hd). Qed.

  Theorem C04_invalid_iff_allnan : forall r c, in_img S r c -> nan_ok r c ->
    (Z.land (flag r c) 195 <> 0 <-> allnan r c = true).
  Proof. exact (invalid_iff_allnan E L gmin gmax allnan Hwf Hoff Hd). Qed.
End AfterMatchingCost.

(* ---- the same without any hypothesis on the NaN pattern, for the SAD and SSD cost-volume models of C02
   (any image size, odd window, subpix >= 1, masks, interval grids): C02 proves the NaN pattern
   (Proofs/MatchingCostP.v: cost = NaN iff not computable) and a sample d = D/subpix is computable only
   if the integer floor(d) is.  [layout_of inp dmin dmax] = the layout the criteria functions see,
   [vol_allnan ... vol r c] = "every cost of pixel (r, c) in the volume is NaN". *)
Theorem C04_nan_pattern_sad : forall inp dmin dmax r c, wf_cfg inp -> dmin <= dmax ->
  0 <= r < i_ny inp -> 0 <= c < i_nx inp ->
  nan_pattern_ok (layout_of inp dmin dmax) (i_gmin inp) (i_gmax inp)
                 (vol_allnan inp dmin dmax (sad_volume inp dmin dmax)) r c.
Proof. exact nan_pattern_sad. Qed.

Theorem C04_invalid_iff_allnan_sad : forall E inp dmin dmax r c,
  wf_env E = true -> wf_cfg inp -> dmin <= dmax -> 0 <= r < i_ny inp -> 0 <= c < i_nx inp ->
  (Z.land (after_mc E (layout_of inp dmin dmax) (vol_allnan inp dmin dmax (sad_volume inp dmin dmax)) r c) 195 <> 0
   <-> forall k, 0 <= k < nb_disp (i_s inp) dmin dmax -> sad_volume inp dmin dmax r c k = None).
Proof. exact invalid_iff_allnan_sad. Qed.

Theorem C04_invalid_iff_allnan_ssd : forall E inp dmin dmax r c,
  wf_env E = true -> wf_cfg inp -> dmin <= dmax -> 0 <= r < i_ny inp -> 0 <= c < i_nx inp ->
  (Z.land (after_mc E (layout_of inp dmin dmax) (vol_allnan inp dmin dmax (ssd_volume inp dmin dmax)) r c) 195 <> 0
   <-> forall k, 0 <= k < nb_disp (i_s inp) dmin dmax -> ssd_volume inp dmin dmax r c k = None).
Proof. exact invalid_iff_allnan_ssd. Qed.

(* ---- the same for the CENSUS and ZNCC cost-volume models (C02_census_model_eq_spec, C02_zncc_model_eq_spec: NaN
   exactly when not computable).  Any image size -- images SMALLER than the window included: there no window
   fits, the code returns an all-NaN volume early, and mask_border covers the whole image, see
   C04_smaller_than_window_all_invalid below --, odd window, subpix >= 1, masks, interval grids.
   Census inherits the window restriction of C02_census_model_eq_spec: w * w <= 32, i.e. the windows 1, 3, 5 (the bit
   string of the census transform must fit the uint32 popcount; Pandora accepts 3 and 5).  The zncc model keeps an
   integer triple per cell, hence [vol_allnan_any] (same definition as [vol_allnan], cells of any type). *)
Theorem C04_nan_pattern_census : forall inp dmin dmax r c, wf_cfg inp -> i_w inp * i_w inp <= 32 -> dmin <= dmax ->
  0 <= r < i_ny inp -> 0 <= c < i_nx inp ->
  nan_pattern_ok (layout_of inp dmin dmax) (i_gmin inp) (i_gmax inp)
                 (vol_allnan inp dmin dmax (census_volume inp dmin dmax)) r c.
Proof. exact nan_pattern_census. Qed.

Theorem C04_nan_pattern_zncc : forall inp dmin dmax r c, wf_cfg inp -> dmin <= dmax ->
  0 <= r < i_ny inp -> 0 <= c < i_nx inp ->
  nan_pattern_ok (layout_of inp dmin dmax) (i_gmin inp) (i_gmax inp)
                 (vol_allnan_any (i_s inp) dmin dmax (zncc_volume inp dmin dmax)) r c.
Proof. exact nan_pattern_zncc. Qed.

Theorem C04_invalid_iff_allnan_census : forall E inp dmin dmax r c,
  wf_env E = true -> wf_cfg inp -> i_w inp * i_w inp <= 32 -> dmin <= dmax ->
  0 <= r < i_ny inp -> 0 <= c < i_nx inp ->
  (Z.land (after_mc E (layout_of inp dmin dmax) (vol_allnan inp dmin dmax (census_volume inp dmin dmax)) r c) 195 <> 0
   <-> forall k, 0 <= k < nb_disp (i_s inp) dmin dmax -> census_volume inp dmin dmax r c k = None).
Proof. exact invalid_iff_allnan_census. Qed.

Theorem C04_invalid_iff_allnan_zncc : forall E inp dmin dmax r c,
  wf_env E = true -> wf_cfg inp -> dmin <= dmax -> 0 <= r < i_ny inp -> 0 <= c < i_nx inp ->
  (Z.land (after_mc E (layout_of inp dmin dmax) (vol_allnan_any (i_s inp) dmin dmax (zncc_volume inp dmin dmax)) r c) 195 <> 0
   <-> forall k, 0 <= k < nb_disp (i_s inp) dmin dmax -> zncc_volume inp dmin dmax r c k = None).
Proof. exact invalid_iff_allnan_zncc. Qed.

(* ---- every built-in measure at once.  [measure_cell_nan m inp dmin dmax r c k] = "cell (r, c, k) of the cost
   volume of measure m is NaN", [measure_allnan m ...] = "every cell of pixel (r, c) is", [measure_window_ok m inp]
   = w * w <= 32 for census, nothing for sad / ssd / zncc. *)
Theorem C04_measure_vocabulary : forall m inp dmin dmax r c k,
  (measure_cell_nan m inp dmin dmax r c k = true <->
   match m with
   | Sad => sad_volume inp dmin dmax r c k = None
   | Ssd => ssd_volume inp dmin dmax r c k = None
   | Census => census_volume inp dmin dmax r c k = None
   | Zncc => zncc_volume inp dmin dmax r c k = None
   end)
  /\ (measure_allnan m inp dmin dmax r c = true <->
      forall k, 0 <= k < nb_disp (i_s inp) dmin dmax -> measure_cell_nan m inp dmin dmax r c k = true)
  /\ (measure_window_ok m inp <-> (m = Census -> i_w inp * i_w inp <= 32)).
Proof. exact measure_vocabulary. Qed.

Theorem C04_nan_pattern_every_measure : forall m inp dmin dmax r c,
  wf_cfg inp -> measure_window_ok m inp -> dmin <= dmax -> 0 <= r < i_ny inp -> 0 <= c < i_nx inp ->
  nan_pattern_ok (layout_of inp dmin dmax) (i_gmin inp) (i_gmax inp) (measure_allnan m inp dmin dmax) r c.
Proof. exact nan_pattern_every_measure. Qed.

Theorem C04_invalid_iff_allnan_every_measure : forall m E inp dmin dmax r c,
  wf_env E = true -> wf_cfg inp -> measure_window_ok m inp -> dmin <= dmax ->
  0 <= r < i_ny inp -> 0 <= c < i_nx inp ->
  (Z.land (after_mc E (layout_of inp dmin dmax) (measure_allnan m inp dmin dmax) r c) 195 <> 0
   <-> forall k, 0 <= k < nb_disp (i_s inp) dmin dmax -> measure_cell_nan m inp dmin dmax r c k = true).
Proof. exact invalid_iff_allnan_every_measure. Qed.

(* not only the invalid bits: the whole flag after the matching cost is the documented one (1 on the border,
   elsewhere exactly the bits 0, 1, 2, 6, 7 whose documented cause holds), for every measure, no hypothesis *)
Theorem C04_after_mc_expected_every_measure : forall m E inp dmin dmax r c,
  wf_env E = true -> wf_cfg inp -> measure_window_ok m inp -> dmin <= dmax ->
  0 <= r < i_ny inp -> 0 <= c < i_nx inp ->
  after_mc E (layout_of inp dmin dmax) (measure_allnan m inp dmin dmax) r c
  = expected_flag (scene_of (layout_of inp dmin dmax) (i_gmin inp) (i_gmax inp)) r c.
Proof. exact after_mc_expected_every_measure. Qed.

(* an image smaller than the window (rows or columns < window_size): EVERY pixel carries exactly bit 0 (an
   'invalid' flag) and every cost of every measure is NaN *)
Theorem C04_smaller_than_window_all_invalid : forall m E inp dmin dmax r c,
  wf_env E = true -> wf_cfg inp -> measure_window_ok m inp -> dmin <= dmax ->
  Z.min (i_ny inp) (i_nx inp) < i_w inp -> 0 <= r < i_ny inp -> 0 <= c < i_nx inp ->
  after_mc E (layout_of inp dmin dmax) (measure_allnan m inp dmin dmax) r c = 1
  /\ forall k, 0 <= k < nb_disp (i_s inp) dmin dmax -> measure_cell_nan m inp dmin dmax r c k = true.
Proof. exact smaller_than_window_all_invalid. Qed.

(* ---- after winner-takes-all (model of C03): invalid_disparity iff all costs NaN, flags carried over.
   Hypothesis on invalid_disparity exactly as in the property: NaN ([None]) or a value that is not a
   sampled disparity (in particular any value outside the searched interval). *)
Theorem C04_allnan_iff_invalid_disp : forall mx B nr nc disps invalid cv conf mask r c,
  1 <= B -> 0 <= r < nr -> 0 <= c < nc -> cv r c <> [] -> no_subst_inf mx (cv r c) ->
  length disps = length (cv r c) ->
  (forall d, In d disps -> invalid <> Some d) ->
  (forallb is_nan (cv r c) = true <-> o_disp (to_disp mx B nr nc disps invalid cv conf mask) r c = invalid)
  /\ o_mask (to_disp mx B nr nc disps invalid cv conf mask) r c = mask r c.
Proof. exact allnan_iff_invalid_disp. Qed.

(* ---- one step, any state of the invariant, any decision of the step *)

Theorem C04_inv_meaning : forall m, inv_b m = true <->
  0 <= m < 4096 /\ Z.testbit m 10 = false /\ (Z.testbit m 8 && Z.testbit m 9) = false.
Proof. exact inv_b_spec. Qed.

(* every += / -= of the step is carry-free, the invariant is re-established, a border pixel keeps 1
   (or 1 + bit 11), and the flag changes only inside the step's own bits:
   own = {3} refinement, {8,9} validation, {4,5,8,9} validation with interpolation,
         {11} median_for_intervals with regularization, {} any other filter, multiscale *)
Theorem C04_step_touches_own_bits : forall E, wf_env E = true ->
  forall cR cI offpos border s d m,
  pinv_b cR cI m = true -> g_stepE E cR cI s = true -> bI (offpos && border) m ->
  ok_step E offpos border s d m = true
  /\ pinv_b (nR cR s) (nI cI s) (t_step E offpos border s d m) = true
  /\ bI (offpos && border) (t_step E offpos border s d m)
  /\ ((offpos && border = true -> m = 1) ->
      Z.ldiff (t_step E offpos border s d m) (own s) = Z.ldiff m (own s)).
Proof. exact t_step_facts. Qed.

Theorem C04_own_bits_values :
  own SRef = 2 ^ 3 /\ own (SVal INone) = 2 ^ 8 + 2 ^ 9 /\ own (SVal IMcCnn) = 2 ^ 4 + 2 ^ 5 + 2 ^ 8 + 2 ^ 9
  /\ own (SVal ISgm) = 2 ^ 4 + 2 ^ 5 + 2 ^ 8 + 2 ^ 9 /\ own (SFlt true) = 2 ^ 11 /\ own (SFlt false) = 0
  /\ own SMsc = 0.
Proof. repeat split. Qed.

(* ---- every legal pipeline *)

Section Pipelines.
  Variables (E : env) (L : layout) (gmin gmax : Z -> Z -> Z) (allnan : Z -> Z -> bool) (r c : Z).
  Hypothesis Hwf : wf_env E = true.
  Hypothesis Hoff : 0 <= off L.
  Hypothesis Hd : dmin L <= dmax L.
  Hypothesis Hin : in_img (scene_of L gmin gmax) r c.
  Hypothesis Hnan : nan_pattern_ok L gmin gmax allnan r c.

  (* for every pipeline of the documented language (C01: MC (Agg|Opt|Seg|Cvc)* [Dsp (Flt|Ref|Val|Msc)*],
     any length, any repetition), every decision of every step, every pixel: all the += / -= executed on
     the pixel's flag were carry-free, and the final flag is < 4096 with only documented bits
     (bit 10 never raised, never both occlusion and mismatch, a border pixel carries bit 0 -- plus
     bit 11 if a regularising median_for_intervals marked it) *)
  Theorem C04_pipeline_flags_documented : forall p,
    doc_accepts (kinds_of_p p) = true -> pipeline_guard E true true (fsteps_of p) = true ->
    let res := run_pipe E L allnan r c p in
    snd res = true /\
    match doc_path Begin (kinds_of_p p) with
    | Some Begin => fst res = None
    | Some CostVolume => fst res = Some (after_mc E L allnan r c)
    | Some DispMap => exists m, fst res = Some m /\ 0 <= m < 4096 /\ Z.testbit m 10 = false
                                /\ (Z.testbit m 8 && Z.testbit m 9) = false
                                /\ (px_offpos L && px_border L r c = true -> m = 1 \/ m = 2049)
    | None => False
    end.
  Proof. exact (pipeline_flags_documented E Hwf L gmin gmax allnan r c Hoff Hd Hin Hnan). Qed.
End Pipelines.

(* the same for the tree under test, without any guard *)
Theorem C04_pipeline_flags_documented_gen : forall L gmin gmax allnan r c p,
  0 <= off L -> dmin L <= dmax L -> in_img (scene_of L gmin gmax) r c ->
  nan_pattern_ok L gmin gmax allnan r c ->
  doc_accepts (kinds_of_p p) = true ->
  let res := run_pipe E0 L allnan r c p in
  snd res = true /\
  match doc_path Begin (kinds_of_p p) with
  | Some Begin => fst res = None
  | Some CostVolume => fst res = Some (after_mc E0 L allnan r c)
  | Some DispMap => exists m, fst res = Some m /\ 0 <= m < 4096 /\ Z.testbit m 10 = false
                              /\ (Z.testbit m 8 && Z.testbit m 9) = false
                              /\ (px_offpos L && px_border L r c = true -> m = 1 \/ m = 2049)
  | None => False
  end.
Proof.
  intros L gmin gmax allnan r c p Hoff Hd Hin Hnan Hacc.
  apply (pipeline_flags_documented E0 C04_flags_wf L gmin gmax allnan r c Hoff Hd Hin Hnan p Hacc).
  apply C04_guard_holds_for_every_pipeline.
Qed.

(* "raising one criterion never alters another bit", for the bits that RECORD a filling (4: filled occlusion,
   5: filled mismatch; they are among the own bits of a filling validation, so the statement above allows that step
   to change them): whatever steps follow - a second, a third filling validation included - on the tree under
   test a filled bit, once set, is still set, for every flag of the invariant, every decision of every step.
   Step level for any well-formed tree under its guard; sequence level for the tree under test without guard. *)
Theorem C04_filled_bits_never_cleared_step : forall E, wf_env E = true ->
  forall cR cI offpos border s d m,
  pinv_b cR cI m = true -> g_stepE E cR cI s = true -> bI (offpos && border) m ->
  Z.land (Z.land m 48) (t_step E offpos border s d m) = Z.land m 48.
Proof. exact t_step_keeps_filled. Qed.

Theorem C04_filled_bits_never_cleared_gen : forall offpos border p cR cI m,
  pinv_b cR cI m = true -> bI (offpos && border) m ->
  Z.land (Z.land m 48) (run_flags E0 offpos border p m) = Z.land m 48.
Proof.
  intros offpos border p cR cI m Hp Hb.
  apply (run_flags_keeps_filled E0 C04_flags_wf offpos border p cR cI m Hp); [|exact Hb].
  apply C04_guard_holds_for_every_pipeline.
Qed.

(* non-vacuity: a pixel filled as an occlusion (16) that a second filling validation flags again and fills again
   ends with 16 (mc-cnn and sgm), never with 0 *)
Example C04_filled_twice_example :
  let d := mkDec RNan (XInval false) true true true false false in
  t_step E0 false false (SVal IMcCnn) d 16 = 16 /\ t_step E0 false false (SVal ISgm) d 16 = 16
  /\ pinv_b false false 16 = true.
Proof. vm_compute. repeat split. Qed.

(* with `+=` on an information bit the statement without guard is FALSE: the tree as found
   (refinement `mask += 8`, D3) turned 8 into 16 when refinement ran twice *)
Definition sites_before_fix : list site :=
  map (fun s => match s_role s with
                | R_ref_method | R_ref_stopped => mkSite (s_role s) (s_line s) OpAdd (s_expr s) (s_guards s)
                | _ => s
                end) flag_sites.
Theorem C04_repeated_refinement_before_fix :
  wf_env (mkEnv consts sites_before_fix) = true
  /\ let d := mkDec RBound XOk false false false false false in
     run_flags (mkEnv consts sites_before_fix) false false [(SRef, d); (SRef, d)] 0 = 16
     /\ pipeline_guard (mkEnv consts sites_before_fix) true true [SRef; SRef] = false
     /\ run_flags E0 false false [(SRef, d); (SRef, d)] 0 = 8.
Proof. vm_compute. repeat split. Qed.

(* Non-vacuity: a 3 x 7 pair, window 3, interval [-2, 1], a no-data pixel in the left mask and a masked
   pixel in the right one; NaN pattern = the one C02 prescribes.  The hypotheses hold and the centre row
   after the matching cost reads 1 7 4 0 0 4 1: border pixels 1; pixel 1 has the no-data pixel in its
   window (bit 0), hence no computable cost (bit 1), and candidates left of the image (bit 2); pixels 2 and
   5 only an incomplete range (bit 2).  Then, on pixel 3, a legal pipeline with refinement twice,
   validation + sgm interpolation twice (mismatch, then filled) and a median_for_intervals filter that does not
   regularise this pixel: stopped interpolation + filled mismatch = 8 + 32, every write carry-free. *)
Definition ex_L : layout :=
  mkLayout 3 7 1 (-2) 1 true true
    (fun r c => if (r =? 0) && (c =? 0) then 1 else 0)
    (fun r c => if (r =? 1) && (c =? 5) then 2 else 0) 1 0 1 0.
Definition ex_S := scene_of ex_L (fun _ _ => -2) (fun _ _ => 1).
Definition ex_allnan := no_cost_b ex_S.
Example C04_example :
  (forall r c, nan_pattern_ok ex_L (fun _ _ => -2) (fun _ _ => 1) ex_allnan r c)
  /\ map (after_mc E0 ex_L ex_allnan 1) [0; 1; 2; 3; 4; 5; 6] = map (expected_flag ex_S 1) [0; 1; 2; 3; 4; 5; 6]
  /\ map (after_mc E0 ex_L ex_allnan 1) [0; 1; 2; 3; 4; 5; 6] = [1; 7; 4; 0; 0; 4; 1]
  /\ let dx := mkDec RBound (XInval true) false true true false false in
     let p := [(PMc, dx); (PCv CCvc, dx); (PDsp, dx); (PDm SRef, dx); (PDm SRef, dx);
               (PDm (SVal ISgm), dx); (PDm (SVal ISgm), dx); (PDm (SFlt true), dx)] in
     doc_accepts (kinds_of_p p) = true /\ run_pipe E0 ex_L ex_allnan 1 3 p = (Some (8 + 32), true).
Proof.
  split; [intros r c; unfold nan_pattern_ok, ex_allnan; apply no_cost_b_iff|].
  vm_compute. repeat split.
Qed.

(* Non-vacuity of the census / zncc / every-measure theorems.  (a) a 3 x 6 pair, window 3, subpix 2, interval
   [-1, 1], a no-data pixel in the corner of the right mask: the hypotheses hold; on the centre row the flags read
   1 4 0 0 4 1 for every measure, pixel 1 keeps one computable cost (sample 4: d = 1) although its candidates at
   d < 0 leave the image and those at d = 0, 1/2 have the no-data pixel in their window.  (b) the same pair cut to 2 rows (smaller than
   the window): every flag is 1 and every cost of every measure is NaN. *)
Definition ex_img2 (l : list (list Z)) : Z -> Z -> Z :=
  fun r c => nth (Z.to_nat c) (nth (Z.to_nat r) l []) 0.
Definition ex_inp_cz (ny : Z) : mc_input :=
  MkIn ny 6 3 2 (ex_img2 [[5;2;3;4;1;7];[2;4;6;1;9;3];[1;7;2;3;5;8]]) (ex_img2 [[1;3;2;4;6;2];[2;5;6;7;9;1];[0;1;2;2;5;4]])
       None (Some (ex_img2 [[1;0;0;0;0;0];[0;0;0;0;0;0];[0;0;0;0;0;0]])) 0 1
       (fun _ _ => -1) (fun _ _ => 1).
Example C04_example_every_measure :
  (wf_cfg (ex_inp_cz 3) /\ forall m, measure_window_ok m (ex_inp_cz 3))
  /\ (forall m, In m [Sad; Ssd; Census; Zncc] ->
        map (after_mc E0 (layout_of (ex_inp_cz 3) (-1) 1) (measure_allnan m (ex_inp_cz 3) (-1) 1) 1) [0; 1; 2; 3; 4; 5]
        = [1; 4; 0; 0; 4; 1]
        /\ map (measure_cell_nan m (ex_inp_cz 3) (-1) 1 1 1) [0; 1; 2; 3; 4] = [true; true; true; true; false])
  /\ Z.min (i_ny (ex_inp_cz 2)) (i_nx (ex_inp_cz 2)) < i_w (ex_inp_cz 2)
  /\ (forall m, In m [Sad; Ssd; Census; Zncc] ->
        map (fun r => map (after_mc E0 (layout_of (ex_inp_cz 2) (-1) 1) (measure_allnan m (ex_inp_cz 2) (-1) 1) r)
                          [0; 1; 2; 3; 4; 5]) [0; 1]
        = [[1; 1; 1; 1; 1; 1]; [1; 1; 1; 1; 1; 1]]
        /\ map (fun r => map (measure_allnan m (ex_inp_cz 2) (-1) 1 r) [0; 1; 2; 3; 4; 5]) [0; 1]
           = [[true; true; true; true; true; true]; [true; true; true; true; true; true]]).
Proof.
  split; [split; [repeat split | intros []; cbn; try exact I; discriminate]|].
  split; [intros m [<-|[<-|[<-|[<-|[]]]]]; vm_compute; split; reflexivity|].
  split; [reflexivity|].
  intros m [<-|[<-|[<-|[<-|[]]]]]; vm_compute; split; reflexivity.
Qed.


(* ---- T-gen on the criteria FUNCTIONS.  Gen/CriteriaFns.v is regenerated at every run from pandora/criteria.py by
   translator/gen_criteria_fns.py, statement by statement (each numpy / xarray / scipy construct becomes one combinator
   of Lib/NpCrit.v, whose meaning is written there once; anything else is refused): g_validity_mask, g_allocate_left_mask,
   g_allocate_right_mask (the `for dsp in range(d_min, d_max + 1)` loop over whole arrays, a fold_left), g_mask_invalid_
   variable_disparity_range, g_mask_border, g_binary_dilation_msk.  The theorems below say that these GENERATED functions,
   run on the datasets of ANY layout L -- [cv_of L r0 c0 Q]: a cost-volume dataset whose row / col coordinates start at
   (r0, c0) (an ROI: the code compares col COORDINATES, col[0] + offset), disp from dmin to dmax, window 2*off+1, NaN
   pattern Q; [imgl_of] / [imgr_of]: the two images with their masks and conventions, same coordinates -- never raise
   ([okm]: err = false, shape of the image) and compute, element by element, what Model/Criteria.v computes with the
   regenerated flag sites E0; so the theorems about the model above are theorems about the generated code.  They are
   re-proved against the regenerated files at every run: a change of criteria.py that changes what a function computes
   breaks them (or is refused by the translator) whatever the correspondence sample. *)
Theorem C04_gen_binary_dilation_eq_model : forall L r0 c0 Q, 0 <= off L -> forall has f ndv vlv,
  let D := g_binary_dilation_msk consts (img_of has (nr L) (nc L) r0 c0 f ndv vlv) (cv_window_size (cv_of L r0 c0 Q)) in
  b_err D = false /\ b_nr D = nr L /\ b_nc D = nc L /\ forall r c, b_at D r c = dil L f ndv r c.
Proof. exact gen_dilation. Qed.

Theorem C04_gen_allocate_left_mask_eq_model : forall L r0 c0 Q, 0 <= off L -> forall X, okm L X ->
  let Y := g_allocate_left_mask consts (cv_of L r0 c0 Q) X (imgl_of L r0 c0) in
  okm L Y /\ forall r c, m_at Y r c = alloc_left E0 L (m_at X r c) r c.
Proof. exact gen_left. Qed.

(* the loop: [bit1] is any index array holding exactly the bit-1 columns *)
Theorem C04_gen_allocate_right_mask_eq_model : forall L r0 c0 Q, 0 <= off L -> 0 <= nr L -> 0 < nc L -> dmin L <= dmax L ->
  forall X bit1, okm L X -> idx_cols_bad (nc L) bit1 = false ->
  (forall c, 0 <= c < nc L -> vmem c bit1 = bit1_col L c) ->
  let Y := g_allocate_right_mask consts (cv_of L r0 c0 Q) X (imgr_of L r0 c0) bit1 in
  okm L Y /\ forall r c, 0 <= r < nr L -> 0 <= c < nc L -> m_at Y r c = alloc_right E0 L (m_at X r c) r c.
Proof. exact gen_right. Qed.

Theorem C04_gen_validity_mask_eq_model : forall L r0 c0 Q, 0 <= off L -> 0 <= nr L -> 0 < nc L -> dmin L <= dmax L ->
  let Y := g_validity_mask consts (imgl_of L r0 c0) (imgr_of L r0 c0) (cv_of L r0 c0 Q) in
  okm L Y /\ forall r c, 0 <= r < nr L -> 0 <= c < nc L -> m_at Y r c = validity_mask_px E0 L r c.
Proof. exact gen_validity_mask. Qed.

(* [allnan_of Q r c] = every sample of pixel (r, c) is NaN in the pattern Q, as np.min(np.isnan(cv), axis=2) computes it *)
Theorem C04_gen_mivdr_eq_model : forall L r0 c0 Q X, okm L X -> q_err Q = false -> q_nr Q = nr L -> q_nc Q = nc L -> 0 < q_nd Q ->
  let Y := g_mask_invalid_variable_disparity_range consts (cv_of L r0 c0 Q) X in
  okm L Y /\ forall r c, 0 <= r < nr L -> 0 <= c < nc L -> m_at Y r c = mivdr E0 (allnan_of Q r c) (m_at X r c).
Proof. exact gen_mivdr. Qed.

Theorem C04_gen_mask_border_eq_model : forall L r0 c0 Q, 0 <= off L -> forall X, okm L X ->
  let Y := g_mask_border consts (cv_of L r0 c0 Q) X in
  okm L Y /\ forall r c, 0 <= r < nr L -> 0 <= c < nc L -> m_at Y r c = mask_border_px E0 L r c (m_at X r c).
Proof. exact gen_border. Qed.

(* the three calls in the order the pipeline makes them ([gen_after_mc]: validity_mask, then
   mask_invalid_variable_disparity_range, then mask_border if offset > 0) = [after_mc] *)
Theorem C04_gen_criteria_eq_model : forall L r0 c0 Q, 0 <= off L -> 0 <= nr L -> 0 < nc L -> dmin L <= dmax L -> cube_ok L Q ->
  let G := gen_after_mc consts (imgl_of L r0 c0) (imgr_of L r0 c0) (cv_of L r0 c0 Q) in
  okm L G /\ forall r c, 0 <= r < nr L -> 0 <= c < nc L -> m_at G r c = after_mc E0 L (allnan_of Q) r c.
Proof. exact gen_after_mc_eq. Qed.

Section AfterMatchingCostGenerated.
  Variables (L : layout) (r0 c0 : Z) (Q : cube) (gmin gmax : Z -> Z -> Z).
  Hypothesis Hoff : 0 <= off L.
  Hypothesis Hnc : 0 < nc L.
  Hypothesis Hd : dmin L <= dmax L.
  Hypothesis HQ : cube_ok L Q.
  Let S := scene_of L gmin gmax.
  Let flag := m_at (gen_after_mc consts (imgl_of L r0 c0) (imgr_of L r0 c0) (cv_of L r0 c0 Q)).
  Let nan_ok := nan_pattern_ok L gmin gmax (allnan_of Q).

  Theorem C04_gen_after_mc_expected : forall r c, in_img S r c -> nan_ok r c -> flag r c = expected_flag S r c.
  Proof. exact (gen_flag_expected L r0 c0 Q gmin gmax C04_flags_wf Hoff Hnc Hd HQ). Qed.

  Theorem C04_gen_border_bit0_only : forall r c, border S r c -> nan_ok r c -> flag r c = 1.
  Proof. exact (gen_border_bit0_only L r0 c0 Q gmin gmax C04_flags_wf Hoff Hnc Hd HQ). Qed.

  Theorem C04_gen_bit7_iff : forall r c, in_img S r c -> win_in S r c -> nan_ok r c ->
    (Z.testbit (flag r c) 7 = true <-> cause7 S r c).
  Proof. exact (gen_bit7_iff L r0 c0 Q gmin gmax C04_flags_wf Hoff Hnc Hd HQ). Qed.

  Theorem C04_gen_invalid_iff_nocost : forall r c, in_img S r c -> nan_ok r c ->
    (Z.land (flag r c) 195 <> 0 <-> no_cost S r c).
  Proof. exact (gen_invalid_iff_nocost L r0 c0 Q gmin gmax C04_flags_wf Hoff Hnc Hd HQ). Qed.
End AfterMatchingCostGenerated.

(* Non-vacuity: the generated functions RUN.  The 3 x 7 pair of C04_example seen through an ROI whose coordinates start at
   row 50, column 100, NaN pattern = the one C02 prescribes on 4 samples: no error, and the centre row reads 1 7 4 0 0 4 1. *)
Definition ex_Q : cube := mkQ false 3 7 4 (fun r c _ => ex_allnan r c).
Example C04_example_generated :
  cube_ok ex_L ex_Q
  /\ (forall r c, nan_pattern_ok ex_L (fun _ _ => -2) (fun _ _ => 1) (allnan_of ex_Q) r c)
  /\ let G := gen_after_mc consts (imgl_of ex_L 50 100) (imgr_of ex_L 50 100) (cv_of ex_L 50 100 ex_Q) in
     m_err G = false /\ map (m_at G 1) [0; 1; 2; 3; 4; 5; 6] = [1; 7; 4; 0; 0; 4; 1].
Proof.
  split; [repeat split|]. split.
  - intros r c. unfold nan_pattern_ok.
    replace (allnan_of ex_Q r c) with (ex_allnan r c)
      by (unfold allnan_of, ex_Q; cbn [q_nan q_nd]; change (upto 4) with [0; 1; 2; 3]; cbn [forallb];
          destruct (ex_allnan r c); reflexivity).
    unfold ex_allnan. apply no_cost_b_iff.
  - vm_compute. split; reflexivity.
Qed.

Print Assumptions C04_flags_wf.
Print Assumptions C04_info_bits_idempotent.
Print Assumptions C04_guard_holds_for_every_pipeline.
Print Assumptions C04_after_mc_expected.
Print Assumptions C04_border_bit0_only.
Print Assumptions C04_bit0_iff.
Print Assumptions C04_bit1_iff.
Print Assumptions C04_bit2_iff.
Print Assumptions C04_bit6_iff.
Print Assumptions C04_bit7_iff.
Print Assumptions C04_mc_only_criteria_bits.
Print Assumptions C04_invalid_iff_nocost.
Print Assumptions C04_invalid_iff_allnan.
Print Assumptions C04_nan_pattern_sad.
Print Assumptions C04_invalid_iff_allnan_sad.
Print Assumptions C04_invalid_iff_allnan_ssd.
Print Assumptions C04_nan_pattern_census.
Print Assumptions C04_nan_pattern_zncc.
Print Assumptions C04_invalid_iff_allnan_census.
Print Assumptions C04_invalid_iff_allnan_zncc.
Print Assumptions C04_measure_vocabulary.
Print Assumptions C04_nan_pattern_every_measure.
Print Assumptions C04_invalid_iff_allnan_every_measure.
Print Assumptions C04_after_mc_expected_every_measure.
Print Assumptions C04_smaller_than_window_all_invalid.
Print Assumptions C04_allnan_iff_invalid_disp.
Print Assumptions C04_inv_meaning.
Print Assumptions C04_step_touches_own_bits.
Print Assumptions C04_filled_bits_never_cleared_step.
Print Assumptions C04_filled_bits_never_cleared_gen.
Print Assumptions C04_own_bits_values.
Print Assumptions C04_pipeline_flags_documented.
Print Assumptions C04_pipeline_flags_documented_gen.
Print Assumptions C04_repeated_refinement_before_fix.
Print Assumptions C04_gen_binary_dilation_eq_model.
Print Assumptions C04_gen_allocate_left_mask_eq_model.
Print Assumptions C04_gen_allocate_right_mask_eq_model.
Print Assumptions C04_gen_validity_mask_eq_model.
Print Assumptions C04_gen_mivdr_eq_model.
Print Assumptions C04_gen_mask_border_eq_model.
Print Assumptions C04_gen_criteria_eq_model.
Print Assumptions C04_gen_after_mc_expected.
Print Assumptions C04_gen_border_bit0_only.
Print Assumptions C04_gen_bit7_iff.
Print Assumptions C04_gen_invalid_iff_nocost.
