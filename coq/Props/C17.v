(* C17 -- malformed inputs are refused up front; well-formed inputs never are.
   Statements only; proofs are in Proofs/DatasetCheckP.v and Proofs/InputCheckP.v.

   [pandora_check_datasets], [pandora_check_completed], [pandora_check_input_section] are the
   models of check_configuration.check_datasets / check_input_section of the tree under test
   (Model/DatasetCheck.v, Model/InputCheck.v instantiated in Model/InputInst.v with the schemas,
   defaults and literals regenerated from the source: Gen/Schemas.v, Gen/InputFlow.v).
   [wf_pair], [documented_b], [documented_default] are the hand-written Spec (Spec/WellFormed.v). *)
From Coq Require Import List Bool ZArith QArith String Lia.
From Pandora Require Import Model.Json Model.Checker Model.DatasetCheck Model.InputCheck Model.InputInst
  Model.CheckPrims Spec.WellFormed Proofs.DatasetCheckP Proofs.InputCheckP Proofs.CheckGenP Gen.Schemas Gen.InputFlow.
From Pandora Require Gen.CheckFns.
Import ListNotations.
Open Scope string_scope.

(* ===================================================================== datasets *)

(* PER-RUN OBLIGATION: the set literal of check_dataset is the five mandatory attributes *)
Theorem C17_mandatory_attributes_match : forall a, In a mandatory_attributes <-> In a five_attributes.
Proof. intro a. unfold mandatory_attributes, five_attributes. cbn [In]. tauto. Qed.

(* ACCEPTED IFF WELL-FORMED, both directions, for every pair of datasets: any shapes (any
   number of axes), any image content, any band names, any set of other variables, any
   attributes, any disparity variable (labels, bands, values, NaN included), hence every single
   or combined violation.  A NaN disparity bound constrains nothing (numpy comparison). *)
Theorem C17_check_datasets_iff_wellformed : forall l r,
  labels_distinct l -> labels_distinct r ->
  (pandora_check_datasets l r = Ok tt <-> wf_pair false l r).
Proof. exact (check_datasets_iff mandatory_attributes C17_mandatory_attributes_match). Qed.

(* the same with the strict reading "min <= max everywhere" when the disparity bounds are numbers *)
Theorem C17_check_datasets_iff_wellformed_numbers : forall l r,
  labels_distinct l -> labels_distinct r ->
  disparity_nan_free l -> disparity_rectangular l -> disparity_nan_free r -> disparity_rectangular r ->
  (pandora_check_datasets l r = Ok tt <-> wf_pair true l r).
Proof.
  intros l r Ll Lr N1 R1 N2 R2.
  rewrite <- (wf_pair_strict_iff l r N1 R1 N2 R2). now apply C17_check_datasets_iff_wellformed.
Qed.

(* PER-RUN OBLIGATION: check_datasets calls check_dataset twice (left and right) before its own
   two tests, as the model does *)
Theorem C17_both_datasets_checked :
  firstn 2 calls_check_datasets = ["check_dataset"; "check_dataset"].
Proof. reflexivity. Qed.

(* REFUSAL IS AN EXCEPTION: the check either returns normally or raises AttributeError,
   TypeError or ValueError; there is no third outcome *)
Theorem C17_dataset_refusal_is_exception : forall l r,
  pandora_check_datasets l r = Ok tt \/
  exists e, pandora_check_datasets l r = Raise e /\ (e = EAttribute \/ e = EType \/ e = EValue).
Proof. exact (check_datasets_total mandatory_attributes). Qed.

(* every violation of the contract, alone or combined with others, is refused by an exception *)
Theorem C17_every_violation_refused : forall l r,
  labels_distinct l -> labels_distinct r -> ~ wf_pair false l r ->
  exists e, pandora_check_datasets l r = Raise e.
Proof.
  intros l r Ll Lr H. destruct (C17_dataset_refusal_is_exception l r) as [E|(e & E & _)]; [|eauto].
  exfalso. apply H. now apply C17_check_datasets_iff_wellformed.
Qed.

(* ===================================================================== input section *)

(* PER-RUN OBLIGATION: the schema check_input_section validates against -- the base schema of
   the regenerated Gen/Schemas.v updated (dict.update) with the one selected by the types of the
   left / right disp -- is the schema the proofs are about *)
Theorem C17_schemas_as_modelled : forall left_disp_is_list right_disp_is_str,
  chosen_schema gen_schemas left_disp_is_list right_disp_is_str = ref_schema left_disp_is_list right_disp_is_str.
Proof. exact gen_schema_is_ref. Qed.

(* the module-level schema dictionary that check_input_section updates in place carries nothing
   over from one call to the next *)
Theorem C17_schema_history_free : forall c1 c2 d1 d2,
  In c1 [s_int_left gen_schemas; s_gn_left gen_schemas; s_gg_left gen_schemas] ->
  In c2 [s_int_left gen_schemas; s_gn_left gen_schemas; s_gg_left gen_schemas] ->
  In d1 [s_int_right gen_schemas; s_gn_right gen_schemas; s_gg_right gen_schemas] ->
  In d2 [s_int_right gen_schemas; s_gn_right gen_schemas; s_gg_right gen_schemas] ->
  schema_update (schema_update (s_base_left gen_schemas) c1) c2 = schema_update (s_base_left gen_schemas) c2 /\
  schema_update (schema_update (s_base_right gen_schemas) d1) d2 = schema_update (s_base_right gen_schemas) d2.
Proof.
  intros c1 c2 d1 d2 H1 H2 H3 H4. split.
  - now apply schema_update_history_free.
  - now apply schema_update_history_free_right.
Qed.

(* ACCEPTED IFF DOCUMENTED, both directions, for EVERY JSON value given as completed
   configuration and every file system: after update_conf, the schema selection, the json-checker
   validation and the three custom checks (disparities left, right, image sizes) return normally
   exactly when the configuration is {"input": {"left": ..., "right": ...}} with exactly the six
   documented keys per side, readable images of one size, integer-or-NaN nodata, absent or
   readable same-size mask/classif/segm, a left interval [min, max] of two integers min <= max
   with no right disparity, or a readable 2-band left grid of the image size with min <= max
   and a right disparity that is absent or such a grid.  (JSON booleans inside the interval are
   outside the property's vocabulary and excluded: [interval_bool_free].) *)
Theorem C17_check_completed_iff_documented : forall fs cfg,
  interval_bool_free cfg = true ->
  is_ok (pandora_check_completed fs cfg) = documented_b fs cfg.
Proof. exact check_completed_iff_documented. Qed.

(* check_input_section returns the completed configuration, and only when it is documented *)
Theorem C17_check_input_iff_documented : forall fs user cfg,
  interval_bool_free cfg = true ->
  (pandora_check_input_section fs user = Ok cfg <->
   upd (JDict default_short_configuration_input) user = Ok cfg /\ documented_b fs cfg = true).
Proof.
  intros fs user cfg NB. rewrite check_input_section_spec.
  now rewrite (check_completed_iff_documented fs cfg NB).
Qed.

(* COMPLETION, EVERY USER VALUE IS KEPT: a user section {"input": {"left": L, "right": R}} (sides
   in either order, any keys, ANY values -- dictionaries included; [py_keys]: every dictionary has
   each key once, as a Python dict has) is completed into a section holding, for every key, the
   user's value ([kept]: "NaN" / "inf" / "-inf" read as numbers) and otherwise the documented
   default (nodata -9999, mask/classif/segm none, right disp none; nothing for img and the left
   disp).  In particular update_conf raises on no such section and never puts a default in the
   place of a value the user wrote. *)
Theorem C17_input_completion : forall L R (swap : bool),
  py_keys (JDict L) -> py_keys (JDict R) ->
  let sides := if swap then [("right", JDict R); ("left", JDict L)] else [("left", JDict L); ("right", JDict R)] in
  let user := JDict [("input", JDict sides)] in
  exists cfg, upd (JDict default_short_configuration_input) user = Ok cfg /\
    forall side key, side = "left" \/ side = "right" ->
      field cfg side key = match field user side key with
                           | Some v => Some (kept v)
                           | None => documented_default side key
                           end.
Proof. exact input_completion_lr. Qed.

(* EVERY USER VALUE IS KEPT, any outline (the statement refuted on the tree as found, see
   C17_regression_empty_dict below): for EVERY user configuration (a Python value: each dictionary
   has each key once) -- extra keys at any level, sides in any order or missing, any values --
   whenever check_input_section returns, the value the user gave for a key of the left / right
   section is in the returned configuration ("NaN" / "inf" / "-inf" read as numbers) *)
Theorem C17_user_values_kept : forall fs user cfg side key v,
  py_keys user ->
  pandora_check_input_section fs user = Ok cfg -> side = "left" \/ side = "right" ->
  field user side key = Some v -> field cfg side key = Some (kept v).
Proof.
  intros fs user cfg side key v PY H S F.
  apply check_input_section_spec in H as [U _].
  exact (user_values_kept user cfg side key v PY U S F).
Qed.

(* ... and NO ACCEPTED CONFIGURATION GIVES A DICTIONARY for a key of the left / right section: the
   user's {} or {...} is kept by update_conf and the json-checker validation (against whichever of
   the four schemas is selected) refuses it, whatever the key, the file system and the rest of
   the configuration.  No guard. *)
Theorem C17_dict_value_refused : forall fs user cfg side key v,
  py_keys user ->
  pandora_check_input_section fs user = Ok cfg -> side = "left" \/ side = "right" ->
  field user side key = Some v -> is_dict v = false.
Proof.
  intros fs user cfg side key v PY H S F.
  pose proof (C17_user_values_kept fs user cfg side key v PY H S F) as K.
  apply check_input_section_spec in H as [_ C].
  rewrite <- is_dict_kept. exact (completed_no_dict fs cfg side key (kept v) C S K).
Qed.

Definition two_files (p : string) : option finfo :=
  if String.eqb p "l.tif" || String.eqb p "r.tif" then Some (mkF 5 4 1 false)
  else if String.eqb p "g.tif" then Some (mkF 5 4 2 false) else None.

Definition witness_empty_dict : jv :=
  JDict [("input", JDict [("left", JDict [("img", JStr "l.tif"); ("disp", JList [JInt (-2); JInt 2]);
                                          ("nodata", JDict [])]);
                          ("right", JDict [("img", JStr "r.tif")])])].
Definition witness_nonempty_dict : jv :=
  JDict [("input", JDict [("left", JDict [("img", JStr "l.tif"); ("disp", JList [JInt (-2); JInt 2])]);
                          ("right", JDict [("img", JStr "r.tif"); ("mask", JDict [("a", JStr "NaN")])])])].

(* REGRESSION (finding empty_dict_value_replaced_by_default, repaired by a `fix:` commit):
   update_conf as found ([upd_before]) replaced nodata: {} by the default -9999 and the section was
   accepted; a non-empty dictionary there ended in TypeError.  Now both are kept and refused by
   the schema. *)
Example C17_regression_empty_dict :
  (exists cfg, upd_before (JDict default_short_configuration_input) witness_empty_dict = Ok cfg /\
               field cfg "left" "nodata" = Some (JInt (-9999)) /\
               is_ok (pandora_check_completed two_files cfg) = true)
  /\ upd_before (JDict default_short_configuration_input) witness_nonempty_dict = Raise EType
  /\ (exists cfg, upd (JDict default_short_configuration_input) witness_empty_dict = Ok cfg /\
                  field cfg "left" "nodata" = Some (JDict []))
  /\ (exists cfg, upd (JDict default_short_configuration_input) witness_nonempty_dict = Ok cfg /\
                  field cfg "right" "mask" = Some (JDict [("a", JNan)]))
  /\ pandora_check_input_section two_files witness_empty_dict = Raise ESchema
  /\ pandora_check_input_section two_files witness_nonempty_dict = Raise ESchema.
Proof.
  split; [eexists; repeat split; vm_compute; reflexivity|].
  split; [vm_compute; reflexivity|].
  split; [eexists; split; vm_compute; reflexivity|].
  split; [eexists; split; vm_compute; reflexivity|].
  split; vm_compute; reflexivity.
Qed.

(* D9 (repaired by a `fix:` commit): a left disparity list whose length is not 2 is refused,
   whatever the file system and the image *)
Theorem C17_interval_length_checked : forall fs xs img,
  List.length xs <> 2%nat -> is_ok (check_disparities_from_input fs (JList xs) img) = false.
Proof.
  intros fs xs img H. cbn [check_disparities_from_input].
  destruct (Nat.eqb (List.length xs) 2) eqn:E; [apply Nat.eqb_eq in E; contradiction | reflexivity].
Qed.

(* check_conf looks at the "input" key only (get_config_input): the other top-level keys do not
   matter, and a configuration without "input" is refused (KeyError), whatever the file system *)
Theorem C17_only_input_key_matters : forall fs d d',
  lookup "input" d = lookup "input" d' ->
  pandora_check_conf_input fs (JDict d) = pandora_check_conf_input fs (JDict d').
Proof. intros fs d d' H. unfold pandora_check_conf_input, get_config_input. now rewrite H. Qed.

Theorem C17_no_input_refused : forall fs d,
  lookup "input" d = None -> pandora_check_conf_input fs (JDict d) = Raise EKey.
Proof. intros fs d H. unfold pandora_check_conf_input, get_config_input. rewrite H. reflexivity. Qed.

(* ===================================================================== refusal comes first *)

(* main() runs its calls in order and stops at the first exception (model [started]); in the
   call list regenerated from pandora/__init__.py, check_conf and check_datasets come before run:
   when either raises, the matching (pandora.run) is never started; when check_conf raises, no
   image is even read *)
Theorem C17_refusal_before_matching : forall raises,
  (raises "check_conf" = true ->
     ~ In "run" (started raises calls_main) /\ ~ In "create_dataset_from_inputs" (started raises calls_main)) /\
  (raises "check_datasets" = true -> ~ In "run" (started raises calls_main)).
Proof.
  intro raises. split; [intro H; split | intro H].
  - refine (started_stops raises calls_main "check_conf" "run" _ _ eq_refl eq_refl _ H). cbv. lia.
  - refine (started_stops raises calls_main "check_conf" "create_dataset_from_inputs" _ _ eq_refl eq_refl _ H). cbv. lia.
  - refine (started_stops raises calls_main "check_datasets" "run" _ _ eq_refl eq_refl _ H). cbv. lia.
Qed.

(* inside check_conf the input section is checked before the pipeline section *)
Theorem C17_input_checked_first : forall raises,
  raises "check_input_section" = true -> ~ In "check_pipeline_section" (started raises calls_check_conf).
Proof.
  intros raises H.
  refine (started_stops raises calls_check_conf "check_input_section" "check_pipeline_section" _ _ eq_refl eq_refl _ H).
  cbv. lia.
Qed.

(* ===================================================================== the code itself (T-gen) *)

(* [Gen.CheckFns.*] are the nine check functions of pandora/check_configuration.py translated
   statement by statement (translator/gen_check_fns.py, regenerated at every run) over the named
   primitives of Model/CheckPrims.v.  PER-RUN OBLIGATIONS: each computes what the hand-written model
   computes, for ALL inputs -- for every dataset that is a mapping ([py_dataset]: variable names are
   unique), every configuration value, every file system of rasters ([rfile]: width, height, the
   samples of every band; the model's oracle is its abstraction [finfo_of], whose bit "band 1 > band 2
   somewhere" is np_any (np_gt band1 band2)). *)
Theorem C17_gen_check_dataset_eq : forall ds, py_dataset ds ->
  Gen.CheckFns.check_dataset ds = check_dataset mandatory_attributes ds.
Proof. exact gen_check_dataset_eq. Qed.

Theorem C17_gen_check_datasets_eq : forall l r, py_dataset l -> py_dataset r ->
  Gen.CheckFns.check_datasets l r = pandora_check_datasets l r.
Proof. exact gen_check_datasets_eq. Qed.

(* the helpers, each on its own: check_shape of a variable of the dataset against the image,
   check_attributes, check_band_names, check_disparities_from_dataset *)
Theorem C17_gen_dataset_helpers_eq :
  (forall ds im k a, py_dataset ds -> ds_im ds = Some im -> In (k, a) (ds_table ds) ->
     Gen.CheckFns.check_shape ds "im" k =
     if shape_eqb (last2 (im_shape im)) (last2 (da_shape a)) then Ok tt else Raise EValue) /\
  (forall ds m, Gen.CheckFns.check_attributes ds m = check_attributes m ds) /\
  (forall ds, Gen.CheckFns.check_band_names ds = check_band_names ds) /\
  (forall d, Gen.CheckFns.check_disparities_from_dataset d = check_disparities_from_dataset d).
Proof.
  split; [exact gen_check_shape_eq|]. split; [exact gen_check_attributes_eq|].
  split; [exact gen_check_band_names_eq | exact gen_check_disparities_from_dataset_eq].
Qed.

Theorem C17_gen_check_disparities_from_input_eq : forall fs disp img,
  Gen.CheckFns.check_disparities_from_input fs disp img = check_disparities_from_input (abs_fs fs) disp img.
Proof. exact gen_check_disparities_from_input_eq. Qed.

Theorem C17_gen_check_images_eq : forall fs inp,
  Gen.CheckFns.check_images fs inp = check_images (abs_fs fs) images_checked inp.
Proof. exact gen_check_images_eq. Qed.

Theorem C17_gen_check_image_dimension_eq : forall a b,
  Gen.CheckFns.check_image_dimension a b = check_image_dimension (finfo_of a) (finfo_of b).
Proof. exact gen_check_image_dimension_eq. Qed.

(* the "custom checking" of check_input_section (the statements between checker.validate(cfg) and
   return cfg, regenerated: which check is called on which values of the completed configuration, in
   which order) = the tail of the hand-written model of check_input_section *)
Theorem C17_gen_check_input_section_custom_eq : forall fs cfg,
  Gen.CheckFns.check_input_section_custom fs cfg = model_custom (abs_fs fs) images_checked cfg.
Proof. exact gen_check_input_section_custom_eq. Qed.

(* ... and the hand-written model of check_input_section after update_conf is its validation part
   followed by that tail *)
Theorem C17_check_completed_is_validation_then_custom : forall fs cfg,
  pandora_check_completed fs cfg =
  check_completed_with (orc fs) gen_schemas (model_custom fs images_checked) cfg.
Proof. intros fs cfg. exact (check_completed_is_with fs gen_schemas images_checked cfg). Qed.

(* ACCEPTED IFF WELL-FORMED, on the regenerated check_datasets *)
Theorem C17_gen_check_datasets_iff_wellformed : forall l r,
  py_dataset l -> py_dataset r -> labels_distinct l -> labels_distinct r ->
  (Gen.CheckFns.check_datasets l r = Ok tt <-> wf_pair false l r).
Proof. intros l r Pl Pr Ll Lr. exact (gen_check_datasets_iff l r Pl Pr Ll Lr C17_mandatory_attributes_match). Qed.

(* D9, on the regenerated check_disparities_from_input *)
Theorem C17_gen_interval_length_checked : forall fs xs img,
  List.length xs <> 2%nat -> is_ok (Gen.CheckFns.check_disparities_from_input fs (JList xs) img) = false.
Proof. exact gen_interval_length_checked. Qed.

(* ACCEPTED IFF DOCUMENTED, with the custom checking of check_input_section regenerated
   ([gen_check_completed]: the validation part of Model/InputCheck.v check_completed -- schema selection
   and json-checker validation against the regenerated schemas -- followed by
   Gen.CheckFns.check_input_section_custom, i.e. the regenerated check_disparities_from_input left and
   right and the regenerated check_images), for every configuration value and every file system of
   rasters; "min <= max" of a documented grid is read on the samples ([C17_grid_order_on_samples]) *)
Theorem C17_gen_check_completed_iff_documented : forall fs cfg,
  interval_bool_free cfg = true ->
  is_ok (gen_check_completed fs cfg) = documented_b (abs_fs fs) cfg.
Proof. exact gen_check_completed_iff_documented. Qed.

(* what the oracle bit of a 2-band grid says about the samples: band 1 exceeds band 2 at some pixel
   (numpy comparison on the samples as stored: a NaN sample never exceeds and is never exceeded) *)
Theorem C17_grid_order_on_samples : forall f b1 b2 rest,
  rf_bands f = b1 :: b2 :: rest -> List.length b1 = List.length b2 ->
  (f_gt (finfo_of f) = true <->
   exists i x y, nth_error b1 i = Some (Some x) /\ nth_error b2 i = Some (Some y) /\ ~ (x <= y)%Q).
Proof. exact finfo_gt_spec. Qed.

(* ===================================================================== non-vacuity *)

Definition good_ds (with_disp : bool) : dataset :=
  mkDs (Some (mkImage [2; 4; 5]%Z (None :: repeat (Some 1%Q) 39)))
       (Some [true; true])
       (if with_disp then Some (mkDisp [2; 4; 5]%Z true [LMax; LMin]
                                       (repeat [Some 2%Q; Some (-2)%Q] 20)) else None)
       [("msk", [4; 5]%Z); ("classif", [3; 4; 5]%Z)]
       ["crs"; "transform"; "no_data_img"; "valid_pixels"; "no_data_mask"; "disparity_source"].

Example C17_example_datasets :
  pandora_check_datasets (good_ds true) (good_ds false) = Ok tt
  /\ pandora_check_datasets (good_ds false) (good_ds true) = Raise EAttribute
  /\ labels_distinct (good_ds true) /\ labels_distinct (good_ds false).
Proof.
  split; [vm_compute; reflexivity|]. split; [vm_compute; reflexivity|].
  split; intros d E; inversion E; subst; cbn.
  repeat constructor; cbn; intuition discriminate.
Qed.

Definition user_grids : jv :=
  JDict [("input", JDict [("left", JDict [("img", JStr "l.tif"); ("disp", JStr "g.tif"); ("nodata", JStr "NaN")]);
                          ("right", JDict [("img", JStr "r.tif"); ("disp", JStr "g.tif")])])].
Definition user_d9 : jv :=
  JDict [("input", JDict [("left", JDict [("img", JStr "l.tif"); ("disp", JList [JInt (-2); JInt 2; JInt 7])]);
                          ("right", JDict [("img", JStr "r.tif")])])].
Definition user_nodata_list : jv :=
  JDict [("input", JDict [("left", JDict [("img", JStr "l.tif"); ("disp", JList [JInt (-2); JInt 2]);
                                          ("nodata", JList [JNan])]);
                          ("right", JDict [("img", JStr "r.tif")])])].

(* a grids/grids section is accepted (and completed); the D9 witness [-2, 2, 7] and nodata [NaN]
   (both accepted by the tree as found) are refused *)
Example C17_example_input :
  is_ok (pandora_check_input_section two_files user_grids) = true
  /\ pandora_check_input_section two_files user_d9 = Raise EValue
  /\ pandora_check_input_section two_files user_nodata_list = Raise ESchema.
Proof. repeat split; vm_compute; reflexivity. Qed.

(* observation: JSON booleans pass the [int, int] schema (isinstance(True, int)); they are the
   class excluded by [interval_bool_free] *)
Example C17_bool_interval_observation :
  let cfg := JDict [("input", JDict [("left", JDict [("img", JStr "l.tif"); ("nodata", JInt 0); ("mask", JNull);
                       ("classif", JNull); ("segm", JNull); ("disp", JList [JBool true; JInt 3])]);
                     ("right", JDict [("img", JStr "r.tif"); ("nodata", JInt 0); ("mask", JNull);
                       ("classif", JNull); ("segm", JNull); ("disp", JNull)])])] in
  is_ok (pandora_check_completed two_files cfg) = true /\ documented_b two_files cfg = false
  /\ interval_bool_free cfg = false.
Proof. repeat split; vm_compute; reflexivity. Qed.

(* the generated functions on concrete inputs: the well-formed pair above is a mapping and is accepted;
   a 2-band grid whose band 1 exceeds band 2 at one pixel is refused with ValueError, the same grid with
   that pixel NaN is accepted; an off-grid extra variable is refused whatever its name *)
Definition rasters (bad : cell) (p : string) : option rfile :=
  if String.eqb p "l.tif" then Some (mkRfile 2 2 [[Some 1%Q; Some 2%Q; None; Some 4%Q]])
  else if String.eqb p "g.tif" then Some (mkRfile 2 2 [[Some (-2)%Q; Some (-2)%Q; bad; Some 0%Q];
                                                       [Some 2%Q; Some 2%Q; Some 2%Q; Some 0%Q]])
  else None.

Example C17_example_generated :
  py_dataset (good_ds true) /\ py_dataset (good_ds false)
  /\ Gen.CheckFns.check_datasets (good_ds true) (good_ds false) = Ok tt
  /\ Gen.CheckFns.check_dataset
       (mkDs (ds_im (good_ds false)) None None [("zz", [4; 6]%Z)] (ds_attrs (good_ds false))) = Raise EValue
  /\ Gen.CheckFns.check_disparities_from_input (rasters (Some 3%Q)) (JStr "g.tif") (JStr "l.tif") = Raise EValue
  /\ Gen.CheckFns.check_disparities_from_input (rasters None) (JStr "g.tif") (JStr "l.tif") = Ok tt
  /\ Gen.CheckFns.check_disparities_from_input (rasters None) (JList [JInt 2; JInt (-2)]) (JStr "l.tif") = Raise EValue.
Proof.
  assert (P : forall b, py_dataset (good_ds b)).
  { intro b. unfold py_dataset. cbn. split; [repeat constructor; cbn; intuition discriminate|].
    split; intuition discriminate. }
  split; [apply P|]. split; [apply P|]. repeat split; vm_compute; reflexivity.
Qed.

Print Assumptions C17_mandatory_attributes_match.
Print Assumptions C17_check_datasets_iff_wellformed.
Print Assumptions C17_check_datasets_iff_wellformed_numbers.
Print Assumptions C17_both_datasets_checked.
Print Assumptions C17_dataset_refusal_is_exception.
Print Assumptions C17_every_violation_refused.
Print Assumptions C17_schemas_as_modelled.
Print Assumptions C17_schema_history_free.
Print Assumptions C17_check_completed_iff_documented.
Print Assumptions C17_check_input_iff_documented.
Print Assumptions C17_input_completion.
Print Assumptions C17_user_values_kept.
Print Assumptions C17_dict_value_refused.
Print Assumptions C17_interval_length_checked.
Print Assumptions C17_only_input_key_matters.
Print Assumptions C17_no_input_refused.
Print Assumptions C17_refusal_before_matching.
Print Assumptions C17_input_checked_first.
Print Assumptions C17_gen_check_dataset_eq.
Print Assumptions C17_gen_check_datasets_eq.
Print Assumptions C17_gen_dataset_helpers_eq.
Print Assumptions C17_gen_check_disparities_from_input_eq.
Print Assumptions C17_gen_check_images_eq.
Print Assumptions C17_gen_check_image_dimension_eq.
Print Assumptions C17_gen_check_input_section_custom_eq.
Print Assumptions C17_check_completed_is_validation_then_custom.
Print Assumptions C17_gen_check_datasets_iff_wellformed.
Print Assumptions C17_gen_interval_length_checked.
Print Assumptions C17_gen_check_completed_iff_documented.
Print Assumptions C17_grid_order_on_samples.
