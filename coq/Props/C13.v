(* C13 -- results are local: a pixel depends on its neighbourhood, not on its position.
   Statements only; every proof is `exact <lemma>` (Proofs/LocalP.v, LocalCostP.v, LocalCbcaP.v, LocalStepsP.v).

   Reading guide.  A raster is a [frame] (extents + total function); a step is an [op]: what it writes
   at a pixel given the whole input raster.  [local H f D M] (Spec/Local.v): for ANY two rasters F, G
   (any sizes) and ANY two pixels (r, c) of F and (r', c') of G whose cones of radii M lie inside F
   resp. G and on whose cones of radii D the two rasters hold the same data, f F r c = f G r' c'
   (H F r c: side condition on the first run).  Radii: [rho] rows up and down, [lam] columns to the
   left, [mu] columns to the right.  Nothing relates the two positions nor the two sizes: crops with
   any offset (odd, even), tiles, translations are all instances ([C13_crop_invariance]).
   [local2 img_of H f DS DI M] is the same with two data cones: the rasters hold the same STATES (images and
   products of the earlier steps) on the cones of radii DS and the same IMAGES (radiometry, mask values) on the
   cones of radii DI.  State cones add under composition, image cones do not (max): the disparity interval is
   counted once for the matching cost / cbca and once more for cross-checking, as the property says.

   Covered at MODEL level (the models of C02/C03/C04/C06/C07/C10/C11, unchanged): matching cost sad / ssd /
   census / zncc with its validity mask (criteria.py), cbca aggregation, winner-takes-all, refinement vfit /
   quadratic, median filter, bilateral filter (for every pair of Gaussian kernels), cross-checking (left and
   right products), and every pipeline made of them, any length, any order: [C13_pipeline_local].
   zncc: the model's cell is the exact integer triple (cov, varL, varR); the cost is [zq] of the triple, for
   EVERY function zq (the float evaluation of cov / sqrt(varL varR) is data, like the bilateral kernels).
   Vertical flip (last clause of the property): [C13_pipeline_vflip] -- every pipeline of these steps, run on the pair of
   images turned upside down ([vflip]: row r of the flipped raster = row nr - 1 - r), gives at EVERY pixel (r, c) of
   the raster (first / last rows and image margins included: no cone condition) what the run on the pair gives at
   (nr - 1 - r, c), under the side conditions [step_flip_wf]: odd windows (matching cost: cfg_wf; median filter_size
   odd; bilateral: the EFFECTIVE window min(rows, cols, int(3 sigma_space + 1)) odd and a row-symmetric spatial
   kernel), census window 1/3/5, cbca_distance >= 1, and the two border statements of criteria.mask_border having the
   same effect (re-proved on the regenerated flag sites: C13_border_flags_symmetric).  "The same": [pix_eqv] --
   radiometry, masks, cost curves, validity flags EQUAL; the two disparities the same rational NUMBER (a median of
   an even count and a bilateral mean are fractions whose representation depends on the reading order of the
   window, their value does not).  An even window is not symmetric about its centre: C13_vflip_even_window_refuted. *)
From Coq Require Import ZArith QArith List Bool.
From Pandora Require Import Spec.Local Spec.Cost Model.MatchingCost Model.Local.
From Pandora Require Import Proofs.LocalP Proofs.LocalCostP Proofs.LocalStepsP Proofs.MatchingCostP.
From Pandora Require Model.Criteria Model.Refine Model.CrossCheck Gen.Constants Gen.Flags Gen.RefineConsts.
From Pandora Require Model.Cbca Spec.Cbca Proofs.CbcaP Proofs.LocalCbcaP.
From Pandora Require Model.Filters Proofs.LocalFlipCostP Proofs.LocalFlipCbcaP Proofs.LocalFlipP.
Import ListNotations.
Open Scope Z_scope.

(* ---------------------------------------------------------------- the notion itself *)

(* radii add under composition (the margin of "f then g" is the larger of g's margin and g's cone plus
   f's margin) *)
Theorem C13_local_compose : forall A B C (Hf : side A) (Hg : side B) (f : op A B) (g : op B C) Df Mf Dg Mg,
  rad_wf Df -> rad_wf Mf -> rad_wf Dg -> rad_wf Mg -> local Hf f Df Mf -> local Hg g Dg Mg ->
  local (side_comp Hf f Hg Dg) (comp g f) (radd Dg Df) (rmax Mg (radd Dg Mf)).
Proof. exact local_compose. Qed.

(* a step that looks at the pixel's own data only has radius 0 *)
Theorem C13_local_pointwise : forall A B (h : A -> B), local no_side (fun F r c => h (f_at F r c)) rad0 rad0.
Proof. exact local_pointwise. Qed.

(* every pipeline (any length) of local steps is local, with the summed radii *)
Theorem C13_chain_local : forall A (H : side A) (steps : list (op A A)) D M,
  chain H steps D M -> local H (run_pipe steps) D M.
Proof. exact pipeline_local. Qed.

(* two data cones: when f does not rewrite the input part [pi] of the states, the state cones add and the input
   cone of "f then g" is the larger of g's input cone and g's state cone plus f's input cone *)
Theorem C13_local2_compose : forall A I C (pi : A -> I) (Hf Hg : side A) (f : op A A) (g : op A C) DSf DIf Mf DSg DIg Mg,
  rad_wf DSf -> rad_wf DIf -> rad_wf Mf -> rad_wf DSg -> rad_wf DIg -> rad_wf Mg -> keeps pi f ->
  local2 pi Hf f DSf DIf Mf -> local2 pi Hg g DSg DIg Mg ->
  local2 pi (side_comp Hf f Hg DSg) (comp g f) (radd DSg DSf) (rmax DIg (radd DSg DIf)) (rmax Mg (radd DSg Mf)).
Proof. exact local2_compose. Qed.

Theorem C13_chain2_local : forall A I (pi : A -> I) (H : side A) (steps : list (op A A)) DS DI M,
  chain2 pi H steps DS DI M -> local2 pi H (run_pipe steps) DS DI M.
Proof. exact pipeline_local2. Qed.

(* a step local in the two-cone sense is a function of the data of ONE cone, the larger of the two *)
Theorem C13_local2_one_cone : forall A I B (pi : A -> I) (H : side A) (f : op A B) DS DI M,
  local2 pi H f DS DI M -> local H f (rmax DS DI) M.
Proof. exact local2_local. Qed.

(* processing ANY crop that contains the cone of a pixel gives the value the whole raster gives,
   whatever the crop's offset (r0, c0) and size (h, w) *)
Theorem C13_crop_invariance : forall A B (H : side A) (f : op A B) D M (F : frame A) r0 c0 h w r c,
  local H f D M -> crop_ok F r0 c0 h w -> cone_in (crop F r0 c0 h w) M r c -> H (crop F r0 c0 h w) r c ->
  f (crop F r0 c0 h w) r c = f F (r + r0) (c + c0).
Proof. exact crop_invariance. Qed.

(* ---------------------------------------------------------------- matching cost: the SPEC of C02 *)

(* [computable] and the value of sad, ssd, census and the three moments of zncc depend on the images
   (values, mask values, being inside the image) only through the w x w window around the pixel and
   the window around column c + d (columns floor d and ceil d) of the right image; sizes (ny, nx) vs
   (ny', nx') and positions (r, c) vs (r', c') are unrelated.  No hypothesis that the windows are
   inside the images: being outside must agree too. *)
Theorem C13_cost_local : forall ny nx ny' nx' w s L R L' R' mL mR mL' mR' vp nd gmin gmax gmin' gmax' r c r' c' D,
  0 < w -> Z.odd w = true -> 0 < s ->
  (forall a b, - offset w <= a <= offset w -> - offset w <= b <= offset w ->
     px_alike ny nx ny' nx' L L' mL mL' (r + a) (c + b) (r' + a) (c' + b)) ->
  (forall a b, - offset w <= a <= offset w -> - offset w + dfloor s D <= b <= offset w + dceil s D ->
     px_alike ny nx ny' nx' R R' mR mR' (r + a) (c + b) (r' + a) (c' + b)) ->
  gmin r c = gmin' r' c' /\ gmax r c = gmax' r' c' ->
  computable ny nx w s mL mR vp nd gmin gmax r c D = computable ny' nx' w s mL' mR' vp nd gmin' gmax' r' c' D
  /\ sad_spec w s L R r c D = sad_spec w s L' R' r' c' D
  /\ ssd_spec w s L R r c D = ssd_spec w s L' R' r' c' D
  /\ census_spec w s L R r c D = census_spec w s L' R' r' c' D
  /\ zncc_cov w s L R r c D = zncc_cov w s L' R' r' c' D
  /\ zncc_varl w s L R r c D = zncc_varl w s L' R' r' c' D
  /\ zncc_varr w s L R r c D = zncc_varr w s L' R' r' c' D.
Proof.
  intros ny nx ny' nx' w s L R L' R' mL mR mL' mR' vp nd gmin gmax gmin' gmax' r c r' c' D Hw Ho Hs HL HR Hg.
  split; [exact (computable_local ny nx ny' nx' w s L R L' R' mL mR mL' mR' vp nd gmin gmax gmin' gmax' r c r' c' D Hw Ho Hs HL HR Hg)|].
  split; [exact (sad_spec_local ny nx ny' nx' w s L R L' R' mL mR mL' mR' r c r' c' D Hw Ho Hs HL HR)|].
  split; [exact (ssd_spec_local ny nx ny' nx' w s L R L' R' mL mR mL' mR' r c r' c' D Hw Ho Hs HL HR)|].
  split; [exact (census_spec_local ny nx ny' nx' w s L R L' R' mL mR mL' mR' r c r' c' D Hw Ho Hs HL HR)|].
  exact (zncc_spec_local ny nx ny' nx' w s L R L' R' mL mR mL' mR' r c r' c' D Hw Ho Hs HL HR).
Qed.

(* ... and so do the cost volumes of the MODEL of sad / ssd (through C02's model = spec theorems):
   two inputs (any sizes) alike on the two windows give the same cost, NaN included *)
Theorem C13_sad_model_local : forall x y dmin dmax r c r' c' k,
  wf_cfg x -> i_w y = i_w x /\ i_s y = i_s x /\ i_vp y = i_vp x /\ i_nd y = i_nd x ->
  0 <= r < i_ny x -> 0 <= c < i_nx x -> 0 <= r' < i_ny y -> 0 <= c' < i_nx y ->
  0 <= k < nb_disp (i_s x) dmin dmax ->
  (forall a b, - offset (i_w x) <= a <= offset (i_w x) -> - offset (i_w x) <= b <= offset (i_w x) ->
     inp_alike_left x y r c r' c' a b) ->
  (forall a b, - offset (i_w x) <= a <= offset (i_w x) ->
     - offset (i_w x) + dfloor (i_s x) (disp_scaled (i_s x) dmin k) <= b
       <= offset (i_w x) + dceil (i_s x) (disp_scaled (i_s x) dmin k) ->
     inp_alike_right x y r c r' c' a b) ->
  i_gmin x r c = i_gmin y r' c' /\ i_gmax x r c = i_gmax y r' c' ->
  sad_volume x dmin dmax r c k = sad_volume y dmin dmax r' c' k.
Proof. exact sad_model_local. Qed.

Theorem C13_ssd_model_local : forall x y dmin dmax r c r' c' k,
  wf_cfg x -> i_w y = i_w x /\ i_s y = i_s x /\ i_vp y = i_vp x /\ i_nd y = i_nd x ->
  0 <= r < i_ny x -> 0 <= c < i_nx x -> 0 <= r' < i_ny y -> 0 <= c' < i_nx y ->
  0 <= k < nb_disp (i_s x) dmin dmax ->
  (forall a b, - offset (i_w x) <= a <= offset (i_w x) -> - offset (i_w x) <= b <= offset (i_w x) ->
     inp_alike_left x y r c r' c' a b) ->
  (forall a b, - offset (i_w x) <= a <= offset (i_w x) ->
     - offset (i_w x) + dfloor (i_s x) (disp_scaled (i_s x) dmin k) <= b
       <= offset (i_w x) + dceil (i_s x) (disp_scaled (i_s x) dmin k) ->
     inp_alike_right x y r c r' c' a b) ->
  i_gmin x r c = i_gmin y r' c' /\ i_gmax x r c = i_gmax y r' c' ->
  ssd_volume x dmin dmax r c k = ssd_volume y dmin dmax r' c' k.
Proof. exact ssd_model_local. Qed.

(* census (window 1, 3 or 5; the code accepts 3 and 5), through C02_census_model_eq_spec *)
Theorem C13_census_model_local : forall x y dmin dmax r c r' c' k,
  wf_cfg x -> i_w y = i_w x /\ i_s y = i_s x /\ i_vp y = i_vp x /\ i_nd y = i_nd x ->
  0 <= r < i_ny x -> 0 <= c < i_nx x -> 0 <= r' < i_ny y -> 0 <= c' < i_nx y ->
  0 <= k < nb_disp (i_s x) dmin dmax ->
  (forall a b, - offset (i_w x) <= a <= offset (i_w x) -> - offset (i_w x) <= b <= offset (i_w x) ->
     inp_alike_left x y r c r' c' a b) ->
  (forall a b, - offset (i_w x) <= a <= offset (i_w x) ->
     - offset (i_w x) + dfloor (i_s x) (disp_scaled (i_s x) dmin k) <= b
       <= offset (i_w x) + dceil (i_s x) (disp_scaled (i_s x) dmin k) ->
     inp_alike_right x y r c r' c' a b) ->
  i_gmin x r c = i_gmin y r' c' /\ i_gmax x r c = i_gmax y r' c' ->
  i_w x * i_w x <= 32 ->
  census_volume x dmin dmax r c k = census_volume y dmin dmax r' c' k.
Proof. exact census_model_local. Qed.

(* zncc, through C02_zncc_model_eq_spec: the two inputs hold the SAME integer triple (cov, varL, varR) (the three
   moments of the spec are local, and the scaling of the triple is injective), NaN included *)
Theorem C13_zncc_model_local : forall x y dmin dmax r c r' c' k,
  wf_cfg x -> i_w y = i_w x /\ i_s y = i_s x /\ i_vp y = i_vp x /\ i_nd y = i_nd x ->
  0 <= r < i_ny x -> 0 <= c < i_nx x -> 0 <= r' < i_ny y -> 0 <= c' < i_nx y ->
  0 <= k < nb_disp (i_s x) dmin dmax ->
  (forall a b, - offset (i_w x) <= a <= offset (i_w x) -> - offset (i_w x) <= b <= offset (i_w x) ->
     inp_alike_left x y r c r' c' a b) ->
  (forall a b, - offset (i_w x) <= a <= offset (i_w x) ->
     - offset (i_w x) + dfloor (i_s x) (disp_scaled (i_s x) dmin k) <= b
       <= offset (i_w x) + dceil (i_s x) (disp_scaled (i_s x) dmin k) ->
     inp_alike_right x y r c r' c' a b) ->
  i_gmin x r c = i_gmin y r' c' /\ i_gmax x r c = i_gmax y r' c' ->
  zncc_volume x dmin dmax r c k = zncc_volume y dmin dmax r' c' k.
Proof. exact zncc_model_local. Qed.

(* ---------------------------------------------------------------- criteria.py: the validity mask of the
   matching-cost step.  Bits 1 / 2 of validity_mask and the border flag depend on the position only
   within offset + disparity interval of the image sides; elsewhere the flag is a function of the mask
   values of the two windows (left: around the pixel; right: around c + d for every d of the interval)
   and of "all costs NaN".  For ANY flag sites / constants [E] (regenerated from the source by C04). *)
Theorem C13_criteria_local_interior : forall (E : Criteria.env) (L L' : Criteria.layout) r c r' c' an an',
  Criteria.off L' = Criteria.off L /\ Criteria.dmin L' = Criteria.dmin L /\ Criteria.dmax L' = Criteria.dmax L /\
  Criteria.lhas L' = Criteria.lhas L /\ Criteria.rhas L' = Criteria.rhas L /\
  Criteria.l_nd L' = Criteria.l_nd L /\ Criteria.l_vl L' = Criteria.l_vl L /\
  Criteria.r_nd L' = Criteria.r_nd L /\ Criteria.r_vl L' = Criteria.r_vl L ->
  0 <= Criteria.off L -> Criteria.dmin L <= Criteria.dmax L ->
  (Criteria.off L <= r /\ r + Criteria.off L < Criteria.nr L /\
   Criteria.off L <= c + Z.min 0 (Criteria.dmin L) /\ c + Z.max 0 (Criteria.dmax L) + Criteria.off L < Criteria.nc L) ->
  (Criteria.off L <= r' /\ r' + Criteria.off L < Criteria.nr L' /\
   Criteria.off L <= c' + Z.min 0 (Criteria.dmin L) /\ c' + Z.max 0 (Criteria.dmax L) + Criteria.off L < Criteria.nc L') ->
  (forall a b, - Criteria.off L <= a <= Criteria.off L -> - Criteria.off L <= b <= Criteria.off L ->
     Criteria.lm L (r + a) (c + b) = Criteria.lm L' (r' + a) (c' + b)) ->
  (forall a b, - Criteria.off L <= a <= Criteria.off L ->
     - Criteria.off L + Criteria.dmin L <= b <= Criteria.off L + Criteria.dmax L ->
     Criteria.rm L (r + a) (c + b) = Criteria.rm L' (r' + a) (c' + b)) ->
  an r c = an' r' c' ->
  Criteria.after_mc E L an r c = Criteria.after_mc E L' an' r' c'.
Proof. exact after_mc_local. Qed.

(* ---------------------------------------------------------------- cbca: the SPEC of C11 (Spec/Cbca.v) *)

(* an arm has at most max(cbca_distance - 1, 1) pixels, and is a function of the pixels that close along its ray *)
Theorem C13_cbca_arm_reach : forall I I' dist inten d r c r' c',
  0 <= Spec.Cbca.spec_arm I dist inten d r c <= LocalCbcaP.arm_max dist
  /\ (Spec.Cbca.px I r c = Spec.Cbca.px I' r' c' ->
      (forall j, 1 <= j <= LocalCbcaP.arm_max dist ->
         Spec.Cbca.px I (r + j * Spec.Cbca.drow d) (c + j * Spec.Cbca.dcol d)
         = Spec.Cbca.px I' (r' + j * Spec.Cbca.drow d) (c' + j * Spec.Cbca.dcol d)) ->
      Spec.Cbca.spec_arm I dist inten d r c = Spec.Cbca.spec_arm I' dist inten d r' c').
Proof.
  intros I I' dist inten d r c r' c'. split; [exact (LocalCbcaP.spec_arm_le I dist inten d r c)|].
  exact (LocalCbcaP.spec_arm_local I I' dist inten d r c r' c').
Qed.

(* the aggregated cost of a pixel at a disparity (mean over the combined support region: vertical arm, then the
   horizontal arms of each arm pixel, each arm the shorter of the left-image arm and of the right-image arm at
   column c + shift) is a function of the (2A+1) x (2A+1) squares, A = max(cbca_distance - 1, 1), of the left
   filtered image around the pixel, of the right filtered image around column c + shift, and of the costs.
   [px] is "the value, or nothing when outside the image or masked": no hypothesis that the squares are inside
   the images; sizes and positions are unrelated.  Every cbca_distance, every cbca_intensity. *)
Theorem C13_cbca_spec_local : forall IL IR IL' IR' dist inten shift cost cost' r c r' c',
  let A := LocalCbcaP.arm_max dist in
  (forall a b, - A <= a <= A -> - A <= b <= A -> Spec.Cbca.px IL (r + a) (c + b) = Spec.Cbca.px IL' (r' + a) (c' + b)) ->
  (forall a b, - A <= a <= A -> - A <= b <= A ->
     Spec.Cbca.px IR (r + a) (c + shift + b) = Spec.Cbca.px IR' (r' + a) (c' + shift + b)) ->
  (forall a b, - A <= a <= A -> - A <= b <= A -> cost (r + a) (c + b) = cost' (r' + a) (c' + b)) ->
  Spec.Cbca.agg_spec IL IR dist inten shift cost r c = Spec.Cbca.agg_spec IL' IR' dist inten shift cost' r' c'.
Proof. exact LocalCbcaP.agg_spec_local. Qed.

(* ... and so is the aggregated volume of the MODEL of cbca.py (integral images, sentinel column / row, arm tables,
   3x3 median pre-filter, masks, shifted right images), through C11_model_eq_spec: two inputs (any sizes), two
   pixels whose cones are inside the images (g = A + max(1, window offset) from the sides; the correspondent
   columns c + floor d (+ 1 for a shifted right image) too), same parameters, same disparity of the two planes,
   images and masks alike on the squares of radius A + 1 (left: around the pixel; right: around column
   c + floor d), input costs alike on the square of radius A => same aggregated cost, NaN included *)
Theorem C13_cbca_model_local : forall (x y : Cbca.cbca_in) k k' r c r' c',
  Cbca.i_off y = Cbca.i_off x /\ Cbca.i_subpix y = Cbca.i_subpix x /\ Cbca.i_dist y = Cbca.i_dist x
  /\ Cbca.i_inten y = Cbca.i_inten x /\ Cbca.i_validL y = Cbca.i_validL x /\ Cbca.i_validR y = Cbca.i_validR x ->
  1 <= Cbca.i_dist x -> 1 <= Cbca.i_subpix x -> 0 <= Cbca.i_off x ->
  0 <= k < CbcaP.n_disp x -> 0 <= k' < CbcaP.n_disp y -> CbcaP.nth_disp y k' = CbcaP.nth_disp x k ->
  let A := LocalCbcaP.arm_max (Cbca.i_dist x) in
  let sh := Spec.Cbca.plane_shift (CbcaP.nth_disp x k) in
  let s := Spec.Cbca.plane_image (Cbca.i_subpix x) (CbcaP.nth_disp x k) in
  let e := if s =? 0 then 0 else 1 in
  let g := A + Z.max 1 (Cbca.i_off x) in
  (g <= r /\ r + g < Cbca.i_nr x /\ g <= c /\ c + g < Cbca.i_nc x /\ g <= c + sh /\ c + sh + e + g < Cbca.i_nc x) ->
  (g <= r' /\ r' + g < Cbca.i_nr y /\ g <= c' /\ c' + g < Cbca.i_nc y /\ g <= c' + sh /\ c' + sh + e + g < Cbca.i_nc y) ->
  (forall a b, - (A + 1) <= a <= A + 1 -> - (A + 1) <= b <= A + 1 ->
     Cbca.i_imL x (r + a) (c + b) = Cbca.i_imL y (r' + a) (c' + b)
     /\ LocalCbcaP.omask_agree (Cbca.i_mskL x) (Cbca.i_mskL y) (r + a) (c + b) (r' + a) (c' + b)) ->
  (forall a b, - (A + 1) <= a <= A + 1 -> - (A + 1) <= b <= A + 1 ->
     Cbca.i_imR x s (r + a) (c + sh + b) = Cbca.i_imR y s (r' + a) (c' + sh + b)) ->
  (forall a b, - (A + 1) <= a <= A + 1 -> - (A + 1) <= b <= A + 1 + e ->
     LocalCbcaP.omask_agree (Cbca.i_mskR x) (Cbca.i_mskR y) (r + a) (c + sh + b) (r' + a) (c' + sh + b)) ->
  (forall a b, - A <= a <= A -> - A <= b <= A -> Cbca.i_cv x k (r + a) (c + b) = Cbca.i_cv y k' (r' + a) (c' + b)) ->
  CbcaP.out_at x k r c = CbcaP.out_at y k' r' c'.
Proof. exact LocalCbcaP.cbca_model_local. Qed.

(* ---------------------------------------------------------------- the steps, on rasters of pixel states *)

(* matching cost (sad / ssd / census / zncc), left and right cost curves and validity masks: reads the IMAGES only,
   rows window/2, columns window/2 + max(|dmin|, |dmax|, 0) on both sides (of the state of the pixel itself it
   keeps the disparities) *)
Theorem C13_mc_step_local : forall m E G, cfg_wf G -> meas_wf G m ->
  local2 img_of no_side (mc_step m E G) rad0 (rad_mc G) (rad_mc G).
Proof. exact mc_step_local. Qed.

(* cbca (left and right cost volumes, every cbca_distance >= 1, every cbca_intensity): costs within
   A = max(cbca_distance - 1, 1) rows and columns; images within A + 1 rows and A + 1 + disparity span columns;
   margin A + max(1, window offset) (+ span) *)
Theorem C13_cbca_step_local : forall dist inten G, cfg_wf G -> 1 <= dist ->
  local2 img_of no_side (cbca_step dist inten G) (rad_cbca_S dist) (rad_cbca_I G dist) (rad_cbca_M G dist).
Proof. exact cbca_step_local. Qed.

(* winner-takes-all (every block size B >= 1, min or max, any invalid_disparity): radius 0 *)
Theorem C13_wta_step_local : forall mx B invalid G, 1 <= B -> local no_side (wta_step mx B invalid G) rad0 rad0.
Proof. exact wta_step_local. Qed.

(* refinement (vfit / quadratic, one pixel of loop_refinement): radius 0 *)
Theorem C13_refine_step_local : forall K me m G, local no_side (refine_step K me m G) rad0 rad0.
Proof. exact refine_step_local. Qed.

(* median filter (every block size, every filter_size w >= 0, odd or even): radius w / 2 *)
Theorem C13_median_step_local : forall inv B w, 1 <= B -> 0 <= w ->
  local no_side (median_step inv B w) (rad_filter w) (rad_filter w).
Proof. exact median_step_local. Qed.

(* bilateral filter (every block size, ANY spatial kernel sk and range kernel rk, which are data computed by
   numpy): radius int(3 sigma_space + 1) / 2, odd or even window *)
Theorem C13_bilateral_step_local : forall inv B sigma sk rk, 1 <= B -> 0 <= bil_win sigma ->
  local no_side (bilateral_step inv B sigma sk rk) (rad_filter (bil_win sigma)) (rad_filter (bil_win sigma)).
Proof. exact bilateral_step_local. Qed.

(* cross-checking, both directions: same row, columns within the disparity span; the pixel must also be
   outside the window margin that mask_border paints.  Side condition: a still-valid pixel holds a
   disparity that rounds into its interval (C03/C04's invariant; checked on every real run). *)
Theorem C13_xcheck_step_local : forall thr G, cfg_wf G ->
  local (fun F r c => px_ok G (f_at F r c)) (xcheck_step thr G) (rad_xcheck G) (rad_xcheck_margin G).
Proof. exact xcheck_step_local. Qed.

(* no step rewrites the images *)
Theorem C13_steps_keep_images : forall V s, keeps img_of (step_op V s).
Proof. exact step_keeps. Qed.

(* ---------------------------------------------------------------- pipelines *)

(* MAIN.  Every pipeline, of any length and in any order, made of the step kinds of the property (matching cost
   sad / ssd / census / zncc, cbca, winner-takes-all, refinement, median or bilateral filter, cross-checking) is
   local: the state of a pixel after the pipeline (cost curves, disparities, validity flags, left and right) is a
   function of the data of its cone [fst (pipe_rad G steps)] -- rows: summed window / arm / filter radii; columns:
   those plus the disparity span, once for the matching cost / cbca and once more for cross-checking -- for any
   two rasters of any sizes and any two positions whose margins [snd (pipe_rad G steps)] lie inside *)
Theorem C13_pipeline_local : forall V steps, env_wf V -> Forall (step_wf (e_cfg V)) steps ->
  local (pipe_side V steps) (run_pipe (map (step_op V) steps))
        (fst (pipe_rad (e_cfg V) steps)) (snd (pipe_rad (e_cfg V) steps)).
Proof. exact pipe_local. Qed.

(* the finer statement behind it: same STATES on the summed state cones, same IMAGES on the image cone *)
Theorem C13_pipeline_local2 : forall V steps, env_wf V -> Forall (step_wf (e_cfg V)) steps ->
  local2 img_of (pipe_side V steps) (run_pipe (map (step_op V) steps))
    (r3_S (pipe_rad3 (e_cfg V) steps)) (r3_I (pipe_rad3 (e_cfg V) steps)) (r3_M (pipe_rad3 (e_cfg V) steps)).
Proof. exact pipe_local2. Qed.

(* tiles: the pipeline run on ANY crop containing the cone equals the run on the whole raster *)
Theorem C13_pipeline_crop : forall V steps (F : frame pix) r0 c0 h w r c,
  env_wf V -> Forall (step_wf (e_cfg V)) steps -> crop_ok F r0 c0 h w ->
  cone_in (crop F r0 c0 h w) (snd (pipe_rad (e_cfg V) steps)) r c ->
  pipe_side V steps (crop F r0 c0 h w) r c ->
  run_pipe (map (step_op V) steps) (crop F r0 c0 h w) r c = run_pipe (map (step_op V) steps) F (r + r0) (c + c0).
Proof.
  intros V steps F r0 c0 h w r c HV Hs Hok Hc Hside.
  exact (crop_invariance _ _ _ _ _ _ F r0 c0 h w r c (pipe_local V steps HV Hs) Hok Hc Hside).
Qed.

(* the radii the harness uses (extracted [kpipe_rad] on the step KINDS) are those of the theorem; for a pipeline
   that starts with the matching cost the cone is the image cone: the state cone lies inside it *)
Theorem C13_radii_agree : forall G steps, pipe_rad G steps = kpipe_rad G (map forget steps).
Proof. exact pipe_rad_forget. Qed.

(* ---------------------------------------------------------------- the vertical flip *)

Import Proofs.LocalFlipP.

(* the calculus: the raster a step produces from a flipped copy (pixel by pixel up to E) of a raster is a flipped copy of
   what it produces from the raster, hence pipelines of any length *)
Theorem C13_vflip_pipeline_calculus : forall A (E : A -> A -> Prop) nr nc (steps : list (op A A)),
  Forall (flip_ok_at nr nc E) steps -> flip_ok_at nr nc E (run_pipe steps).
Proof. exact pipeline_flip_at. Qed.

(* SPEC of the matching cost (C02) on a pair turned upside down (inside the image; nothing is assumed outside):
   [computable] at (r, c) is [computable] at (ny - 1 - r, c) of the pair, and so is every sum over the two windows
   (sad, ssd, the moments of zncc) when the cost is computable *)
Theorem C13_cost_spec_vflip : forall ny nx w s L R L' R' mL mR mL' mR' vp nd gmin gmax gmin' gmax' r c D,
  0 < w -> Z.odd w = true -> 0 < s ->
  (forall a b, in_image ny nx a b = true -> L' a b = L (ny - 1 - a) b /\ mask_agree mL' mL a b (ny - 1 - a) b) ->
  (forall a b, in_image ny nx a b = true -> R' a b = R (ny - 1 - a) b /\ mask_agree mR' mR a b (ny - 1 - a) b) ->
  gmin' r c = gmin (ny - 1 - r) c /\ gmax' r c = gmax (ny - 1 - r) c ->
  computable ny nx w s mL' mR' vp nd gmin' gmax' r c D = computable ny nx w s mL mR vp nd gmin gmax (ny - 1 - r) c D
  /\ (computable ny nx w s mL' mR' vp nd gmin' gmax' r c D = true ->
      forall f, (sum_win w s L' R' f r c D == sum_win w s L R f (ny - 1 - r) c D)%Q).
Proof.
  intros ny nx w s L R L' R' mL mR mL' mR' vp nd gmin gmax gmin' gmax' r c D Hw Ho Hs HL HR Hg. split.
  - exact (LocalFlipCostP.computable_flip ny nx w s L R L' R' mL mR mL' mR' vp nd gmin gmax gmin' gmax' r c D Hw Ho HL HR Hg).
  - intros Hc f. unfold computable in Hc. rewrite !andb_true_iff in Hc. destruct Hc as [[[H1 H2] _] _].
    exact (LocalFlipCostP.sum_win_flip ny nx w s L R L' R' mL mR mL' mR' nd r c D Hw Ho Hs HL HR H1 H2 f).
Qed.

(* SPEC of cbca (C11): on filtered images turned upside down (compared as numbers) the aggregated cost of (r, c) is
   the aggregated cost of the mirrored pixel -- the vertical arms are exchanged, the support region is mirrored *)
Theorem C13_cbca_spec_vflip : forall (IL' IL IR' IR : Spec.Cbca.fimg) nr dist inten shift cost' cost r c,
  Spec.Cbca.f_nr IL = nr ->
  (forall r c, LocalFlipCbcaP.oqe (Spec.Cbca.px IL' r c) (Spec.Cbca.px IL (nr - 1 - r) c)) ->
  (forall r c, LocalFlipCbcaP.oqe (Spec.Cbca.px IR' r c) (Spec.Cbca.px IR (nr - 1 - r) c)) ->
  (forall r c, 0 <= r < nr -> 0 <= c < Spec.Cbca.f_nc IL -> cost' r c = cost (nr - 1 - r) c) ->
  0 <= r < nr -> 0 <= c < Spec.Cbca.f_nc IL ->
  Spec.Cbca.agg_spec IL' IR' dist inten shift cost' r c = Spec.Cbca.agg_spec IL IR dist inten shift cost (nr - 1 - r) c.
Proof. exact LocalFlipCbcaP.agg_spec_flip. Qed.

(* np.nanmedian depends neither on the order in which the window is read nor on the fractions holding its values *)
Theorem C13_nanmedian_order_independent : forall l' l, oqperm l' l -> oq_eqv (Filters.nanmedian l') (Filters.nanmedian l).
Proof. exact nanmedian_oqperm. Qed.

(* the two statements of criteria.mask_border that paint the first and the last rows (data[:offset, :] and
   data[-offset:, :]) have the same effect on a flag: proved on the flag sites regenerated from the tree under test *)
Theorem C13_border_flags_symmetric : bord_sym (Criteria.mkEnv Flags.consts Flags.flag_sites).
Proof. intro m. vm_compute. reflexivity. Qed.

(* per step, at every pixel of the raster *)
Theorem C13_mc_step_vflip : forall m E G, cfg_wf G -> meas_wf G m -> bord_sym E -> flip_ok pix_eqv (mc_step m E G).
Proof. exact mc_step_flip. Qed.

Theorem C13_cbca_step_vflip : forall dist inten G, cfg_wf G -> 1 <= dist -> flip_ok pix_eqv (cbca_step dist inten G).
Proof. exact cbca_step_flip. Qed.

Theorem C13_wta_step_vflip : forall mx B invalid G, 1 <= B -> flip_ok pix_eqv (wta_step mx B invalid G).
Proof. exact wta_step_flip. Qed.

Theorem C13_refine_step_vflip : forall K me m G, flip_ok pix_eqv (refine_step K me m G).
Proof. exact refine_step_flip. Qed.

(* median filter: odd filter_size (an even window has one more row above its centre than below) *)
Theorem C13_median_step_vflip : forall inv B w, 1 <= B -> 0 < w -> Z.odd w = true -> flip_ok pix_eqv (median_step inv B w).
Proof. exact median_step_flip. Qed.

(* bilateral filter on rasters of nr x nc pixels: the exact condition is that the EFFECTIVE window
   win = min(nr, nc, int(3 sigma_space + 1)) is odd (an odd int(3 sigma_space + 1) clipped by a smaller image to an
   even size is not enough); the spatial kernel (data) is symmetric in rows, the range kernel (data) is a function of
   the number it is given *)
Theorem C13_bilateral_step_vflip : forall inv B sigma sk rk nr nc, 1 <= B ->
  (let win := Filters.win_width nr nc sigma in
   0 < win /\ Z.odd win = true /\
   (forall a b, 0 <= a < win -> 0 <= b < win -> (sk (win - 1 - a)%Z b == sk a b)%Q) /\
   (forall x y, (x == y)%Q -> (rk x == rk y)%Q)) ->
  flip_ok_at nr nc pix_eqv (bilateral_step inv B sigma sk rk).
Proof. exact bilateral_step_flip. Qed.

Theorem C13_xcheck_step_vflip : forall thr G, flip_ok pix_eqv (xcheck_step thr G).
Proof. exact xcheck_step_flip. Qed.

(* MAIN (last clause of the property).  For every pipeline, of any length and in any order, of the step kinds of the
   property, every raster F of pixel states (any size) and every pixel (r, c) of it: the pipeline run on F turned
   upside down writes at (r, c) what the run on F writes at (nr - 1 - r, c) -- cost curves and validity flags equal,
   disparities the same numbers, left and right products -- under the side conditions of the steps *)
Theorem C13_pipeline_vflip : forall V steps (F : frame pix), env_wf V ->
  Forall (step_flip_wf V (f_nr F) (f_nc F)) steps ->
  forall r c, in_frame F r c ->
  pix_eqv (run_pipe (map (step_op V) steps) (vflip F) r c) (run_pipe (map (step_op V) steps) F (frow F r) c).
Proof. exact pipe_vflip. Qed.

(* the same for ANY raster F' that is a flipped copy of F up to the representation of the disparities *)
Theorem C13_pipeline_flipped : forall V steps (F' F : frame pix), env_wf V ->
  Forall (step_flip_wf V (f_nr F) (f_nc F)) steps -> flipped pix_eqv F' F ->
  forall r c, in_frame F r c ->
  pix_eqv (run_pipe (map (step_op V) steps) F' r c) (run_pipe (map (step_op V) steps) F (frow F r) c).
Proof. exact pipe_flip. Qed.

(* the side conditions, spelled out *)
Theorem C13_vflip_side_conditions : forall V nr nc s,
  step_flip_wf V nr nc s =
  match s with
  | SMc m => meas_wf (e_cfg V) m /\ bord_sym (e_flags V)
  | SCbca dist _ => 1 <= dist
  | SMedian w => 0 < w /\ Z.odd w = true
  | SBilateral sigma sk rk => bil_flip_ok nr nc sigma sk rk
  | _ => True
  end.
Proof. intros V nr nc s. destruct s; reflexivity. Qed.

(* the oddness condition is needed: a bilateral filter whose window is even (sigma_space = 1/2: int(2.5) = 2, constant
   kernels: the filter is the mean of the 2 x 2 window whose LAST pixel is the centre) does not commute with the flip *)
Definition even_F : frame pix :=
  mkFrame 3 3 (fun r c => mkPix 0 0 0 0 [] [] (Some (inject_Z (r * r))) (Some 0%Q) 0 0).
Theorem C13_vflip_even_window_refuted :
  Filters.win_width 3 3 (1 # 2) = 2 /\
  ~ pix_eqv (bilateral_step 963 50 (1 # 2) (fun _ _ => 1%Q) (fun _ => 1%Q) (vflip even_F) 1 1)
            (bilateral_step 963 50 (1 # 2) (fun _ _ => 1%Q) (fun _ => 1%Q) even_F (frow even_F 1) 1).
Proof.
  split; [vm_compute; reflexivity|]. intros (_ & _ & _ & H & _). vm_compute in H. discriminate.
Qed.

(* ... and the window that counts is the EFFECTIVE one: sigma_space = 2/3 asks for int(3) = 3 pixels (odd), a raster
   of 2 rows clips it to 2 (bilateral.py: win_width = min(rows, cols, int(3 sigma_space + 1))): the only filtered row
   is row 1, of the raster and of its flipped copy alike, so the flip is not respected (finding
   bilateral_window_clipped_to_even_size, replayed on the real code by the check) *)
Definition clipped_F : frame pix :=
  mkFrame 2 3 (fun r c => mkPix 0 0 0 0 [] [] (Some (inject_Z r)) (Some 0%Q) 0 0).
Theorem C13_vflip_clipped_window_refuted :
  Qround.Qfloor (3 * (2 # 3) + 1) = 3 /\ Filters.win_width 2 3 (2 # 3) = 2 /\
  ~ pix_eqv (bilateral_step 963 50 (2 # 3) (fun _ _ => 1%Q) (fun _ => 1%Q) (vflip clipped_F) 1 1)
            (bilateral_step 963 50 (2 # 3) (fun _ _ => 1%Q) (fun _ => 1%Q) clipped_F (frow clipped_F 1) 1).
Proof.
  split; [vm_compute; reflexivity|]. split; [vm_compute; reflexivity|].
  intros (_ & _ & _ & H & _). vm_compute in H. discriminate.
Qed.

(* ---------------------------------------------------------------- non-vacuity *)

(* the environment of the tree under test: regenerated flag sites and constants, block sizes *)
Definition ex_cfg : cfg := mkCfg 3 1 (-2) 1 true false 0 1.
Definition ex_env : env :=
  mkEnvL (Criteria.mkEnv Flags.consts Flags.flag_sites)
         (Refine.mkK RefineConsts.msk_invalid RefineConsts.msk_stopped) Constants.msk_pixel_invalid
         Constants.wta_argmin_block Constants.median_block Constants.bilateral_block ex_cfg.
Definition ex_steps : list step :=
  [SMc MSad; SWta false None; SRefine Refine.Vfit Refine.MMin; SMedian 3; SXcheck 1%Q].
Definition ex_steps_cbca : list step :=
  [SMc MCensus; SCbca 3 (5 # 1); SWta false None; SMedian 5; SXcheck 1%Q].

(* window 3, d in [-2, 1], median 3, cross-checking: cone = 2 rows, 1 + 2 + 1 + 2 = 6 columns each side;
   with cbca_distance 3 (arms of at most 2 pixels) and median 5: rows 1 + 2 + 2 = 5, columns 5 + 2 + 2 = 9;
   the hypotheses of the theorems hold; a 9 x 20 crop at offset (3, 7) has interior pixels *)
Example C13_example_hyps :
  env_wf ex_env /\ Forall (step_wf ex_cfg) ex_steps /\ Forall (step_wf ex_cfg) ex_steps_cbca
  /\ pipe_rad ex_cfg ex_steps = (mkRad 2 6 6, mkRad 2 6 6)
  /\ pipe_rad ex_cfg ex_steps_cbca = (mkRad 5 9 9, mkRad 5 9 9)
  /\ pipe_rad3 ex_cfg ex_steps_cbca = (mkRad 4 6 6, mkRad 5 9 9, mkRad 5 9 9)
  /\ kpipe_rad ex_cfg [KMc; KCbca 1; KPoint] = (mkRad 2 4 4, mkRad 2 4 4)
  /\ cone_in (crop (mkFrame 30 40 (fun _ _ => mkPix 0 0 0 0 [] [] None None 0 0)) 3 7 9 20) (mkRad 2 6 6) 4 9.
Proof.
  split. { unfold env_wf, cfg_wf. cbn. repeat split; try reflexivity; discriminate. }
  split. { repeat constructor; cbn; discriminate. }
  split. { repeat constructor; cbn; discriminate. }
  split. { vm_compute. reflexivity. }
  split. { vm_compute. reflexivity. }
  split. { vm_compute. reflexivity. }
  split. { vm_compute. reflexivity. }
  unfold cone_in, crop. cbn. repeat split; try reflexivity; discriminate.
Qed.

(* the model, run: a 3 x 8 pair, sad window 1, d in [-1, 1], winner-takes-all then cross-checking; the
   crop row 1, columns 2..7 gives at its pixel (0, 2) what the whole gives at (1, 4) *)
Definition ex2_cfg : cfg := mkCfg 1 1 (-1) 1 false false 0 1.
Definition ex2_env : env :=
  mkEnvL (Criteria.mkEnv Flags.consts Flags.flag_sites)
         (Refine.mkK RefineConsts.msk_invalid RefineConsts.msk_stopped) Constants.msk_pixel_invalid
         Constants.wta_argmin_block Constants.median_block Constants.bilateral_block ex2_cfg.
Definition ex2_F : frame pix :=
  mkFrame 3 8 (fun r c => mkPix ((r * 7 + c * c * 3) mod 11) (((r * 7 + (c + 1) * (c + 1) * 3) mod 11) + r mod 2)
                                0 0 [] [] None None 0 0).
Definition ex2_steps : list step := [SMc MSad; SWta false None; SXcheck 0%Q].
Example C13_example_run :
  pipe_rad ex2_cfg ex2_steps = (mkRad 0 2 2, mkRad 0 2 2)
  /\ (let p := run_pipe (map (step_op ex2_env) ex2_steps) (crop ex2_F 1 2 1 6) 0 2 in
      let q := run_pipe (map (step_op ex2_env) ex2_steps) ex2_F 1 4 in
      (p_dL p, p_fL p, p_dR p, p_fR p) = (p_dL q, p_fL q, p_dR q, p_fR q) /\ p_dL q <> None).
Proof. vm_compute. split; [reflexivity|]. split; [reflexivity|discriminate]. Qed.

(* the model, run with cbca: a 6 x 10 pair with given cost curves (3 disparities, d in [-1, 1]), cbca_distance 2 then
   winner-takes-all; cone 2 rows, 3 columns; the 5 x 7 crop at offset (1, 2) gives at its pixel (2, 3) what the
   whole gives at (3, 5): aggregated cost curves (means over 9-pixel regions: 25/9, 17/9, 8/3) and disparities of
   the left and right products *)
Definition ex3_F : frame pix :=
  mkFrame 6 10 (fun r c => mkPix ((r * 7 + c * c * 3) mod 11) (((r * 5 + (c + 1) * (c + 1) * 3) mod 11) + r mod 2) 0 0
     [Some (inject_Z ((r * 3 + c * c) mod 7)); Some (inject_Z ((r + 2 * c) mod 5)); Some (inject_Z ((r * r + c) mod 6))]
     [Some (inject_Z ((r + c * c) mod 5)); Some (inject_Z ((r + 3 * c) mod 7)); Some (inject_Z ((r * r + 2 * c) mod 6))]
     None None 0 0).
Definition ex3_steps : list step := [SCbca 2 (4 # 1); SWta false None].
Example C13_example_run_cbca :
  pipe_rad ex2_cfg ex3_steps = (mkRad 2 3 3, mkRad 2 3 3)
  /\ (let p := run_pipe (map (step_op ex2_env) ex3_steps) (crop ex3_F 1 2 5 7) 2 3 in
      let q := run_pipe (map (step_op ex2_env) ex3_steps) ex3_F 3 5 in
      (p_cvL p, p_cvR p, p_dL p, p_dR p) = (p_cvL q, p_cvR q, p_dL q, p_dR q)
      /\ p_cvL q = [Some (25 # 9); Some (17 # 9); Some (8 # 3)]%Q /\ p_dL q = Some 0%Q /\ p_dR q = Some 1%Q).
Proof. vm_compute. split; [reflexivity|]. repeat split; reflexivity. Qed.

(* the flip: the side conditions hold for the example pipelines on 30 x 40 rasters (with a bilateral filter of window 3
   and constant kernels); the model, run: cbca (distance 2), winner-takes-all on the 6 x 10 raster turned
   upside down gives at (1, 4) the cost curves, disparities and flags it gives at (4, 4) of the raster *)
Example C13_example_vflip :
  Forall (step_flip_wf ex_env 30 40) ex_steps /\ Forall (step_flip_wf ex_env 30 40) ex_steps_cbca
  /\ step_flip_wf ex_env 30 40 (SBilateral (7 # 10) (fun _ _ => 1%Q) (fun _ => 1%Q))
  /\ (let steps := map (step_op ex2_env) ex3_steps in
      let p := run_pipe steps (vflip ex3_F) 1 4 in
      let q := run_pipe steps ex3_F 4 4 in
      (p_cvL p, p_cvR p, p_dL p, p_dR p, p_fL p, p_fR p) = (p_cvL q, p_cvR q, p_dL q, p_dR q, p_fL q, p_fR q)
      /\ p_dL q <> None /\ frow ex3_F 1 = 4).
Proof.
  split. { repeat constructor; cbn; try discriminate; try reflexivity; exact C13_border_flags_symmetric. }
  split. { repeat constructor; cbn; try discriminate; try reflexivity; exact C13_border_flags_symmetric. }
  split. { unfold step_flip_wf, bil_flip_ok. cbv zeta. split; [vm_compute; reflexivity|]. split; [vm_compute; reflexivity|].
           split; intros; reflexivity. }
  vm_compute. repeat split; try reflexivity; discriminate.
Qed.

Print Assumptions C13_local_compose.
Print Assumptions C13_local_pointwise.
Print Assumptions C13_chain_local.
Print Assumptions C13_local2_compose.
Print Assumptions C13_chain2_local.
Print Assumptions C13_local2_one_cone.
Print Assumptions C13_crop_invariance.
Print Assumptions C13_cost_local.
Print Assumptions C13_sad_model_local.
Print Assumptions C13_ssd_model_local.
Print Assumptions C13_census_model_local.
Print Assumptions C13_zncc_model_local.
Print Assumptions C13_criteria_local_interior.
Print Assumptions C13_cbca_arm_reach.
Print Assumptions C13_cbca_spec_local.
Print Assumptions C13_cbca_model_local.
Print Assumptions C13_mc_step_local.
Print Assumptions C13_cbca_step_local.
Print Assumptions C13_wta_step_local.
Print Assumptions C13_refine_step_local.
Print Assumptions C13_median_step_local.
Print Assumptions C13_bilateral_step_local.
Print Assumptions C13_xcheck_step_local.
Print Assumptions C13_steps_keep_images.
Print Assumptions C13_pipeline_local.
Print Assumptions C13_pipeline_local2.
Print Assumptions C13_pipeline_crop.
Print Assumptions C13_radii_agree.
Print Assumptions C13_vflip_pipeline_calculus.
Print Assumptions C13_cost_spec_vflip.
Print Assumptions C13_cbca_spec_vflip.
Print Assumptions C13_nanmedian_order_independent.
Print Assumptions C13_border_flags_symmetric.
Print Assumptions C13_mc_step_vflip.
Print Assumptions C13_cbca_step_vflip.
Print Assumptions C13_wta_step_vflip.
Print Assumptions C13_refine_step_vflip.
Print Assumptions C13_median_step_vflip.
Print Assumptions C13_bilateral_step_vflip.
Print Assumptions C13_xcheck_step_vflip.
Print Assumptions C13_pipeline_vflip.
Print Assumptions C13_pipeline_flipped.
Print Assumptions C13_vflip_side_conditions.
Print Assumptions C13_vflip_even_window_refuted.
Print Assumptions C13_vflip_clipped_window_refuted.
