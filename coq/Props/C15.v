(* C15 -- placeholder while the model and the correspondence are being built (stage iii). *)
From Coq Require Import List Bool ZArith.
From Pandora Require Import Model.Multiscale.
Theorem C15_placeholder : level_size 0 5 2 = 5%Z.
Proof. reflexivity. Qed.
Print Assumptions C15_placeholder.
