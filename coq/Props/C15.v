(* C15 -- a multiscale step really processes num_scales scales, coarse to fine.
   Statements only; every proof is `exact <lemma>` from Proofs/MultiscaleP.v (and MachineP.v
   for the sequencing, shared with C01).  [run_table] is regenerated from /repo (Gen/Tables.v),
   the constants from fixed_zoom_pyramid.py / constants.py (Gen/MsConst.v).
   Model/Multiscale.v is the model of the tree under test, in which `fix:` 5c83e0b (the
   multiscale parameters are read from the pipeline section) and 4d38c54 (fill_nodata_image
   works on copies) are in.  The radiometry of the Gaussian pyramid and the disparity maps
   computed at each level are not modelled: the theorems hold for ALL disparity maps and
   validity masks a level may hand to run_multiscale. *)
From Coq Require Import List Bool ZArith QArith.
From Pandora Require Import Lib.Blocks Model.Dataset Model.Machine Model.Multiscale.
From Pandora Require Import Spec.Language Spec.CrossCheck Spec.Multiscale.
From Pandora Require Import Proofs.MachineP Proofs.MultiscaleP Gen.Tables Gen.MsConst.
From Pandora Require Lib.BlockSkeleton Proofs.SkelMultiscaleP Gen.BlockLoops.
From Pandora Require Import Model.ScaleArith Gen.ScaleArith Gen.ScaleArithRange Proofs.ScaleArithGenP Proofs.ScaleArithRangeGenP.
Import ListNotations.
Open Scope Z_scope.

(* ---------------------------------------------------------------- per-run obligations *)

(* the invalidating bits of the regenerated Gen/MsConst.v are the ones the proofs use, and the
   chunk size found in disparity_range is a legal block size (its value is otherwise
   irrelevant: C15_chunk_of_source); the class defaults are used as they are *)
Theorem C15_constants_match : ms_invalid_bits = IB /\ 1 <= ms_chunk_size.
Proof. split; [reflexivity | vm_compute; discriminate]. Qed.

(* per-run obligation on the regenerated SKELETON of the block loop of disparity_range
   (Gen/BlockLoops.v, translator/gen_block_loops.py): it is the canonical double block loop that
   Blocks.loop2 models (Lib/BlockSkeleton.v: where each running offset is initialised and advanced
   and by what, the slice bounds of both writes, the axes, one block size >= 1, the kernels applied
   to the inner chunk, outputs freshly allocated), both offsets start at int((W - 1) / 2) for the
   very W of the sliding_window, the two np.full_like outputs are distinct and receive
   nanmin - marge then nanmax + marge, and the block size is the constant of Gen/MsConst.v *)
Theorem C15_block_loop_skeleton :
  BlockSkeleton.skeleton_wf BlockLoops.disparity_range = true
  /\ BlockSkeleton.ms_skeleton_ok BlockLoops.disparity_range = true
  /\ BlockSkeleton.sk_B BlockLoops.disparity_range = ms_chunk_size.
Proof. vm_compute. repeat split; reflexivity. Qed.

(* the loop of the model IS the loop read in the source: for every coarse map at least as large as
   the window (W >= 1), mask, marge, user interval, every np.arange stop values and initial
   environment, the pair of range maps of the model's chunked loop at the code's chunk size is
   (what executing the GENERATED skeleton writes into its first np.full_like array, what it writes
   into the second), the kernels at window (i, j) being the model's nanmin - marge / nanmax + marge *)
Theorem C15_model_loop_is_generated_skeleton : forall ws marge D V umin umax sy sx env0 r c,
  1 <= ws -> ws <= nr D -> ws <= nc D ->
  looped ms_invalid_bits ws marge D V umin umax ms_chunk_size r c
  = (snd (BlockSkeleton.exec (SkelMultiscaleP.ms_kernel ms_invalid_bits ws marge D V) ws (nr D - ws + 1) (nc D - ws + 1)
            (BlockSkeleton.sk_target 0 BlockLoops.disparity_range) BlockLoops.disparity_range sy sx
            (env0, fun _ _ => fst (fallback umin umax))) r c,
     snd (BlockSkeleton.exec (SkelMultiscaleP.ms_kernel ms_invalid_bits ws marge D V) ws (nr D - ws + 1) (nc D - ws + 1)
            (BlockSkeleton.sk_target 1 BlockLoops.disparity_range) BlockLoops.disparity_range sy sx
            (env0, fun _ _ => snd (fallback umin umax))) r c).
Proof.
  intros. destruct C15_block_loop_skeleton as (_ & Hok & <-).
  apply (SkelMultiscaleP.ms_loop_is_skeleton_at ms_invalid_bits ws marge D V umin umax); assumption.
Qed.

(* the regenerated run table is the documented automaton (shared with C01) *)
Theorem C15_run_table_wf : run_tbl_wf run_table = true.
Proof. vm_compute. reflexivity. Qed.

(* the invalidating bits of the mask test are bits 0, 1, 6, 7, 8, 9 *)
Theorem C15_invalid_test : forall V r c, invalid ms_invalid_bits V r c = negb (spec_valid (px V r c)).
Proof. exact invalid_spec. Qed.

(* ---------------------------------------------------------------- where the parameters are read *)

(* the first multiscale step (possibly suffixed) of the pipeline section decides; its missing
   parameters take the class defaults; no multiscale step: one scale *)
Theorem C15_read_params_first : forall pre s post,
  forallb (fun s => negb (sc_is_msc s)) pre = true -> sc_is_msc s = true ->
  read_multiscale_params ms_default_num_scales ms_default_scale_factor (pre ++ s :: post)
  = (dflt (sc_num_scales s) ms_default_num_scales, dflt (sc_scale_factor s) ms_default_scale_factor).
Proof. exact (read_params_first ms_default_num_scales ms_default_scale_factor). Qed.

Theorem C15_read_params_none : forall steps,
  forallb (fun s => negb (sc_is_msc s)) steps = true ->
  read_multiscale_params ms_default_num_scales ms_default_scale_factor steps = (1, 1).
Proof. exact (read_params_none ms_default_num_scales ms_default_scale_factor). Qed.

(* ---------------------------------------------------------------- which step runs at which scale *)

(* pipeline = pre ++ ms :: post with ms its first multiscale step, any documented path, any
   n >= 1: the run succeeds, restores the machine, and executes exactly
     for j = n-1 .. 1 : the steps of pre, then ms          (scale j)
     then             : the steps of pre, then those of post (scale 0),
   each left then right iff THIS pipeline has a validation step (whatever the machine checked or
   ran before) *)
Theorem C15_multiscale_runs_n_scales : forall m pre ms post n d,
  clean m -> path_ok Begin (pre ++ ms :: post) = Some d ->
  has_kind Msc pre = false -> is_kind Msc ms = true -> (n >= 1)%nat ->
  let p := pre ++ ms :: post in
  let rdm := has_kind Val p in
  Machine.run run_table m p n = RunOk (mkM Begin [] rdm 0) (spec_trace pre ms post n rdm).
Proof. intros m pre ms post n d. exact (run_is_spec_trace run_table m pre ms post n d C15_run_table_wf). Qed.

Section Counting.
  Variables (pre : list step) (ms : step) (post : list step) (n : nat) (rdm : bool).
  Hypothesis Hnd : NoDup (map s_id (pre ++ ms :: post)).     (* step names are distinct (dict keys) *)
  Hypothesis Hn : (n >= 1)%nat.
  Hypothesis Hms : is_kind Msc ms = true.

  (* number of executions of a step before the multiscale step = num_scales, at scales
     n-1, ..., 0 in that order *)
  Theorem C15_pre_steps_every_scale : forall s k, In s pre -> s_kind s = Some k ->
    exec_scales (s_id s) false (spec_trace pre ms post n rdm) = all_scales n /\
    exec_scales (s_id s) true (spec_trace pre ms post n rdm) = if rdm then all_scales n else [].
  Proof. exact (pre_steps_every_scale pre ms post n rdm Hnd Hn). Qed.

  (* steps after the multiscale step run once, at scale 0 *)
  Theorem C15_post_steps_once_full_res : forall s k, In s post -> not_msc s = true -> s_kind s = Some k ->
    exec_scales (s_id s) false (spec_trace pre ms post n rdm) = [0] /\
    exec_scales (s_id s) true (spec_trace pre ms post n rdm) = if rdm then [0] else [].
  Proof. exact (post_steps_once pre ms post n rdm Hnd). Qed.

  (* the multiscale step computes intervals at every scale but the last *)
  Theorem C15_msc_step_coarse_scales :
    exec_scales (s_id ms) false (spec_trace pre ms post n rdm) = map Z.of_nat (coarse_scales n).
  Proof. exact (msc_step_coarse_scales pre ms post n rdm Hnd Hms). Qed.
End Counting.

(* ---------------------------------------------------------------- image sizes *)

(* level k of an axis of n samples has ceil(n / sf^k) samples, level 0 is the input, each
   level is the previous one divided by sf and rounded up *)
Theorem C15_level_sizes : forall k n sf, 0 < sf ->
  is_level_size n sf k (level_size k n sf) /\ level_size 0 n sf = n /\
  shrinks sf (level_size k n sf) (level_size (S k) n sf).
Proof.
  intros k n sf H. split; [exact (level_size_is k n sf H)|]. split; [reflexivity|].
  exact (level_size_shrinks k n sf H).
Qed.

(* every execution of a step (other than the multiscale step itself) at scale j works on
   images of ceil(H / sf^j) x ceil(W / sf^j) pixels, 0 <= j < n *)
Theorem C15_image_size_per_execution : forall pre ms post n rdm H W sf e sz,
  (n >= 1)%nat -> has_kind Msc pre = false -> s_kind ms = Some Msc ->
  In (e, sz) (image_sizes n H W sf (spec_trace pre ms post n rdm)) -> ev_kind e <> Msc ->
  0 <= ev_scale e < Z.of_nat n /\
  sz = (level_size (Z.to_nat (ev_scale e)) H sf, level_size (Z.to_nat (ev_scale e)) W sf).
Proof. exact image_size_per_execution. Qed.

(* the returned maps have the size of the original images *)
Theorem C15_outputs_full_size : forall pre ms post n rdm H W sf s,
  (n >= 1)%nat -> has_kind Msc pre = false -> s_kind ms = Some Msc ->
  In s pre -> s_kind s = Some Dsp ->
  output_size n H W sf (spec_trace pre ms post n rdm) = (H, W).
Proof. exact output_full_size. Qed.

(* the zoomed grids of a level cover the images of the next one (the crop is a crop) *)
Theorem C15_zoom_covers : forall k n sf, 0 < sf -> level_size k n sf <= sf * level_size (S k) n sf.
Proof. exact zoom_covers. Qed.

(* ---------------------------------------------------------------- intervals *)

(* the first execution searches the user interval / sf^(n-1) everywhere, the mirrored
   interval on the right image *)
Theorem C15_coarsest_interval : forall marge sf dmin dmax H W n wr lvls, 1 <= sf -> (1 <= n)%nat ->
  exists a b, hd_error (run_grids ms_invalid_bits marge sf dmin dmax H W n wr lvls)
              = Some (GConst H W (a, b), if wr then Some (GConst H W (mirrored (a, b))) else None) /\
    (a == fst (user_interval dmin dmax sf (n - 1)))%Q /\
    (b == snd (user_interval dmin dmax sf (n - 1)))%Q.
Proof. exact (coarsest_interval ms_invalid_bits). Qed.

(* one execution per level *)
Theorem C15_one_grid_per_level : forall marge sf dmin dmax H W n wr lvls,
  length (run_grids ms_invalid_bits marge sf dmin dmax H W n wr lvls) = S (length lvls).
Proof. exact (run_grids_length ms_invalid_bits). Qed.

(* zoom order 0.  The index maps of the zoom calls are data of the model (observed on the run);
   the interval theorems hold for EVERY pair of maps satisfying [zoom_contract]: fine index o
   reads a coarse index of the map, at most one pixel away from its geometric parent o / sf.
   The exact-arithmetic nearest-sample formula floor(o (n-1) / (sf n - 1) + 1/2) satisfies it
   for every size (scipy follows the formula except on exact ties, where it may take the other
   neighbour: still within the contract, checked on every run) *)
Theorem C15_zoom_parent : forall sf n, 1 <= sf -> 1 <= n -> zoom_contract sf n (zoom_idx sf n).
Proof. exact zoom_idx_contract. Qed.

(* the chunked loops of disparity_range: any chunk size >= 1 gives the same ranges *)
Theorem C15_block_independent : forall ws marge D V umin umax B B' r c,
  ws = 2 * offset ws + 1 -> ws <= nr D -> ws <= nc D -> 1 <= B -> 1 <= B' ->
  range_at_B ms_invalid_bits ws marge D V umin umax B r c = range_at_B ms_invalid_bits ws marge D V umin umax B' r c.
Proof.
  intros ws marge D V umin umax B B' r c H1 H3 H4.
  exact (range_at_block_independent ws marge D V umin umax H1 H3 H4 B B' r c).
Qed.

(* in particular the chunk size written in the source gives the ranges of the model *)
Theorem C15_chunk_of_source : forall ws marge D V umin umax r c,
  ws = 2 * offset ws + 1 -> ws <= nr D -> ws <= nc D ->
  range_at_B ms_invalid_bits ws marge D V umin umax ms_chunk_size r c = range_at ms_invalid_bits ws marge D V umin umax r c.
Proof.
  intros ws marge D V umin umax r c H1 H3 H4.
  exact (range_at_block_independent ws marge D V umin umax H1 H3 H4 ms_chunk_size CHUNK r c
           (proj2 C15_constants_match) (Zle_bool_imp_le 1 CHUNK eq_refl)).
Qed.

(* for EVERY user interval (no guard): the grids handed to the finer level are the property's
   intervals, except that the fallback interval of invalid / border pixels is
   sf * int(user interval of the coarser level) *)
Theorem C15_finer_interval_as_computed : forall ws marge sf D V umin umax zrow zcol,
  ws = 2 * offset ws + 1 -> 0 <= offset ws -> ws <= nr D -> ws <= nc D ->
  zoom_contract sf (nr D) zrow -> zoom_contract sf (nc D) zcol ->
  finer_spec ws marge sf (nr D) (nc D) (px D) (px V)
             (inject_Z (qtrunc umin) * inject_Z sf)%Q (inject_Z (qtrunc umax) * inject_Z sf)%Q
             (sf * nr D) (sf * nc D) (px (next_grids ms_invalid_bits ws marge sf D V umin umax zrow zcol)).
Proof.
  intros ws marge sf D V umin umax zrow zcol H1 H2 H3 H4.
  exact (next_grids_as_computed ws marge sf D V umin umax H1 H2 H3 H4 zrow zcol).
Qed.

(* THE FULL PROPERTY for a finer level: execution i + 1 (scale s) of a run over n scales
   searches, at every pixel, sf * [min - marge, max + marge] of the valid disparities of the
   matching window around a coarse pixel within one pixel of the geometric parent, or the
   whole user interval [dmin, dmax] / sf^s when that coarse pixel is invalid or on the border
   (left and, when computed, right maps with the mirrored interval).  See finer_level_holds. *)
Definition C15_fallback_full : Prop :=
  forall marge sf dmin dmax H W n wr lvls i l s,
    1 <= sf -> n = S (length lvls) -> nth_error lvls i = Some l -> (s + 1 = n - 1 - i)%nat ->
    finer_level_holds marge sf dmin dmax H W n wr lvls i l s.

(* ... is FALSE of the code (recorded finding fallback_interval_truncated): disp [-7, 4],
   scale_factor 3, 2 scales, a coarse level whose pixels are all invalid or on the border *)
Theorem C15_fallback_refuted : ~ C15_fallback_full.
Proof. exact witness_refutes. Qed.

(* ... and TRUE under the guard "sf^(s+1) divides both user bounds", i.e. the user interval
   seen from the coarser level s + 1 is made of integers *)
Theorem C15_finer_interval : forall marge sf dmin dmax H W n wr lvls i l s,
  1 <= sf -> n = S (length lvls) -> nth_error lvls i = Some l -> (s + 1 = n - 1 - i)%nat ->
  (sf ^ Z.of_nat (S s) | dmin) -> (sf ^ Z.of_nat (S s) | dmax) ->
  finer_level_holds marge sf dmin dmax H W n wr lvls i l s.
Proof. exact finer_interval_run'. Qed.

(* inside the finding's class: a coarse pixel that is invalid or on the border hands
   sf * int(user bound) to its fine pixels, which is not the level's user bound as soon as
   the coarser level's bound is not an integer *)
Theorem C15_fallback_finding_class : forall ws marge sf D V umin umax pr pc,
  ws = 2 * offset ws + 1 -> 0 <= offset ws -> ws <= nr D -> ws <= nc D ->
  0 <= pr < nr D -> 0 <= pc < nc D -> 1 <= sf ->
  valid_px (nr D) (nc D) (px D) (px V) pr pc && negb (on_border ws (nr D) (nc D) pr pc) = false ->
  scale_pair sf (range_at ms_invalid_bits ws marge D V umin umax pr pc)
  = (Some (inject_Z (qtrunc umin) * inject_Z sf)%Q, Some (inject_Z (qtrunc umax) * inject_Z sf)%Q) /\
  (~ integral umin -> ~ (inject_Z (qtrunc umin) * inject_Z sf == umin * inject_Z sf)%Q) /\
  (~ integral umax -> ~ (inject_Z (qtrunc umax) * inject_Z sf == umax * inject_Z sf)%Q).
Proof.
  intros ws marge sf D V umin umax pr pc H1 H2 H3 H4 H5 H6 H7 H8.
  split; [exact (fallback_truncated ws marge sf D V umin umax pr pc H1 H2 H3 H4 H5 H6 H8)|].
  split; [exact (not_integral_differs umin sf H7) | exact (not_integral_differs umax sf H7)].
Qed.

(* the extracted checker the failing-input search applies to the grids observed on the real
   code is sound for the Spec: no bad pixel reported -> finer_spec holds of those grids *)
Theorem C15_spec_checker_sound : forall ws marge sf rows cols D V ulo uhi h w G,
  finer_spec_bad ws marge sf rows cols D V ulo uhi h w G = [] ->
  finer_spec ws marge sf rows cols D V ulo uhi h w G.
Proof. exact finer_spec_bad_sound. Qed.

(* ---------------------------------------------------------------- witnesses, non-vacuity *)

(* the recorded finding on its witness: level 0 searches [-6, 3] instead of [-7, 4] *)
Example C15_finding_witness :
  exists g, nth_error (run_grids ms_invalid_bits 0 3 (-7) 4 9 9 2 false [wit_level]) 1 = Some (GMap g, None) /\
            px g 0 0 = (Some (-6 # 1)%Q, Some (3 # 1)%Q) /\
            Qred (fst (user_interval (-7) 4 3 0)) = (-7 # 1)%Q /\ Qred (snd (user_interval (-7) 4 3 0)) = (4 # 1)%Q.
Proof. destruct witness_grid as (g & A & B). exists g. repeat split; assumption || reflexivity. Qed.

(* a pipeline with steps before and after the multiscale step, three scales: hypotheses of the
   sequencing theorems hold, the executions are the expected ones; a level with a valid
   interior pixel for the interval theorems, the guard holds for [-8, 4], sf 2, n 3 *)
Definition ex_pre : list step := [mkStep 0 (Some MC); mkStep 1 (Some Dsp); mkStep 2 (Some Flt)].
Definition ex_ms : step := mkStep 3 (Some Msc).
Definition ex_post : list step := [mkStep 4 (Some Ref); mkStep 5 (Some Val)].
Definition ex_level : level :=
  mkLevel 3 (mkArr 4 5 (fun r c => Some (inject_Z (r - c))), mkArr 4 5 (fun r c => if (r =? 0) && (c =? 0) then 1 else 0)) None
          (zoom_idx 2 4, zoom_idx 2 5).
Example C15_example_hyps :
  clean machine0 /\ path_ok Begin (ex_pre ++ ex_ms :: ex_post) = Some DispMap /\
  has_kind Msc ex_pre = false /\ is_kind Msc ex_ms = true /\ NoDup (map s_id (ex_pre ++ ex_ms :: ex_post)) /\
  exec_scales 0 false (spec_trace ex_pre ex_ms ex_post 3 true) = [2; 1; 0] /\
  exec_scales 4 false (spec_trace ex_pre ex_ms ex_post 3 true) = [0] /\
  exec_scales 3 false (spec_trace ex_pre ex_ms ex_post 3 true) = [2; 1] /\
  map snd (image_sizes 3 13 17 2 (scale_trace false 0 [])) = [] /\
  map (fun k => level_size k 13 2) [0; 1; 2]%nat = [13; 7; 4] /\
  level_ok 2 (lv_ws ex_level) (fst (lv_left ex_level)) (lv_zoom ex_level) /\
  (2 ^ Z.of_nat 2 | -8) /\ (2 ^ Z.of_nat 2 | 4) /\
  px (next_grids ms_invalid_bits 3 1 2 (fst (lv_left ex_level)) (snd (lv_left ex_level)) (-2 # 1) (1 # 1)
                 (zoom_idx 2 4) (zoom_idx 2 5)) 4 4
  = (Some (-6 # 1)%Q, Some (6 # 1)%Q).
Proof.
  split; [split; reflexivity|]. split; [reflexivity|]. split; [reflexivity|]. split; [reflexivity|].
  split; [repeat constructor; cbn; intuition discriminate|].
  split; [reflexivity|]. split; [reflexivity|]. split; [reflexivity|]. split; [reflexivity|]. split; [reflexivity|].
  split.
  { split; [reflexivity|]. split; [vm_compute; discriminate|]. split; [vm_compute; discriminate|].
    split; [vm_compute; discriminate|]. split; apply zoom_idx_contract; vm_compute; discriminate. }
  split; [exists (-2); reflexivity|]. split; [exists 1; reflexivity|]. reflexivity.
Qed.

(* ==================================================================================================
   The interval arithmetic of the state machine, on the text of the code itself.
   Gen/ScaleArith.v is regenerated at every run from pandora/state_machine.py (run_prepare: both branches,
   matching_cost_prepare, run_multiscale) and Gen/ScaleArithRange.v from pandora/multiscale/fixed_zoom_pyramid.py
   (disparity_range: initial, window, invalid-index values and the zoom call) by translator/gen_scale_arith.py (ast,
   statement by statement, fail closed).  C15_gen_*_is_model: the generated functions ARE the hand-written model used by the
   theorems above, for ALL inputs (re-proved at every run: `//` for `/`, scale_factor ** (num_scales - 1), a right
   interval not negated or not swapped, a dropped marge, nanmax for nanmin ... no longer check).  The other
   C15_gen_* theorems restate the interval theorems directly on the generated functions. *)

(* run_prepare, prologue and branch test: several scales only when both parameters are given *)
Theorem C15_gen_params_is_model : forall pn psf,
  run_prepare_params pn psf = match pn, psf with Some n, Some sf => (n, sf) | _, _ => (1, 1) end /\
  (forall sn ssf, run_prepare_is_multi sn ssf = (1 <? sn)) /\
  (run_prepare_is_multi (fst (run_prepare_params pn psf)) (snd (run_prepare_params pn psf)) = true ->
   exists n sf, pn = Some n /\ psf = Some sf /\ run_prepare_params pn psf = (n, sf) /\ 1 < n).
Proof.
  intros pn psf. split; [exact (gen_params_is_model pn psf)|]. split; [exact gen_is_multi_is_model|].
  exact (gen_multi_needs_params pn psf).
Qed.

(* run_prepare, multiscale branch = run_prepare_interval / right_interval of Model/Multiscale.v, n levels *)
Theorem C15_gen_prepare_multi_is_model : forall n sf dmin dmax,
  run_prepare_multi (Z.of_nat n) sf (Z.of_nat n) sf (inject_Z dmin) (inject_Z dmax) = model_prepare_multi n sf dmin dmax.
Proof. exact gen_prepare_multi_is_model. Qed.

(* ... field by field, for arbitrary bounds, parameters and attributes *)
Theorem C15_gen_prepare_multi_fields : forall pn psf sn ssf lmin lmax,
  let o := run_prepare_multi pn psf sn ssf lmin lmax in
  let d := inject_Z (ssf ^ sn) in
  pm_pyramid_levels o = sn /\ pm_pyramid_factor o = psf /\ pm_current_scale o = pn - 1 /\
  pm_disp_min o = (lmin / d)%Q /\ pm_disp_max o = (lmax / d)%Q /\
  pm_dmin_user o = pm_disp_min o /\ pm_dmax_user o = pm_disp_max o /\
  (pm_right_disp_min o, pm_right_disp_max o) = right_interval (pm_disp_min o, pm_disp_max o) /\
  pm_dmin_user_right o = pm_right_disp_min o /\ pm_dmax_user_right o = pm_right_disp_max o.
Proof. exact gen_prepare_multi_fields. Qed.

(* matching_cost_prepare = scale_interval (x scale_factor), right interval under the guard only *)
Theorem C15_gen_matching_cost_prepare_is_model : forall sf g dmin dmax rmin rmax,
  matching_cost_prepare sf g dmin dmax rmin rmax = model_mcp sf g (dmin, dmax) (rmin, rmax).
Proof. exact gen_mcp_is_model. Qed.

(* run_multiscale = user interval x scale_factor handed to disparity_range, scale - 1 *)
Theorem C15_gen_run_multiscale_is_model : forall sf cs g a b c d,
  run_multiscale sf cs g a b c d = model_msc sf cs g (a, b) (c, d).
Proof. exact gen_msc_is_model. Qed.

(* disparity_range: int(np.nanmin(disp_min)) / int(np.nanmax(disp_max)) as initial value and at the invalid
   indices (whatever the other two reductions are), nanmin - marge / nanmax + marge of the window, the window
   offset, zoom by scale_factor of order 0 *)
Theorem C15_gen_disparity_range_is_model :
  (forall a b c d, (Some (inject_Z (range_min_invalid a b c d)), Some (inject_Z (range_max_invalid a b c d))) = fallback a d) /\
  (forall a b c d, (Some (inject_Z (range_min_init a b c d)), Some (inject_Z (range_max_init a b c d))) = fallback a d) /\
  (forall m M m' M' marge,
     range_min_window m M' marge = (m - qz marge)%Q /\ range_max_window m' M marge = (M + qz marge)%Q) /\
  (forall ib ws marge D V i j,
     win_range ib ws marge D V i j =
     (option_map (fun m => range_min_window m m marge) (qfold qmin2 (win_vals ib ws D V i j)),
      option_map (fun M => range_max_window M M marge) (qfold qmax2 (win_vals ib ws D V i j)))) /\
  (forall ws, 1 <= ws -> range_offset ws = offset ws) /\
  (forall sf, range_min_zoom sf = (sf, 0, ZoomNearest) /\ range_max_zoom sf = (sf, 0, ZoomNearest) /\
              range_zoom_skipped sf = (sf =? 1)).
Proof.
  split; [exact gen_range_fallback_is_model|]. split; [exact gen_range_init_is_model|].
  split; [exact gen_range_window_is_model|]. split; [exact gen_win_range_is_model|].
  split; [exact gen_range_offset_is_model | exact gen_range_zoom_is_model].
Qed.

(* the first grids of the model of the whole run (run_grids, used by C15_coarsest_interval and
   C15_finer_interval) are what the generated run_prepare + matching_cost_prepare hand to allocate_cost_volume *)
Theorem C15_gen_first_grids : forall marge sf dmin dmax H W n wr lvls,
  exists a b, mc_alloc_left (gen_first_mcp n sf dmin dmax wr) = Some a /\
    hd_error (run_grids ms_invalid_bits marge sf dmin dmax H W n wr lvls)
    = Some (GConst H W a, if wr then Some (GConst H W b) else None) /\
    (if wr then exists b', mc_alloc_right (gen_first_mcp n sf dmin dmax wr) = Some b' /\ qpair_eq b' b
     else mc_alloc_right (gen_first_mcp n sf dmin dmax wr) = None).
Proof. exact (gen_first_grids ms_invalid_bits). Qed.

(* ... and the grids of every finer level of that model are next_grids applied to the very bounds the generated
   run_multiscale hands to disparity_range at its (i+1)-th execution (so C15_finer_interval and
   C15_finer_interval_as_computed speak about the user interval the code computes) *)
Theorem C15_gen_finer_grids_user : forall marge sf dmin dmax H W n wr lvls i l,
  nth_error lvls i = Some l ->
  exists u gr, ms_range_left (gen_msc_iter sf true (S i) (gen_after_prepare n sf dmin dmax)) = Some u /\
    nth_error (run_grids ms_invalid_bits marge sf dmin dmax H W n wr lvls) (S i)
    = Some (GMap (next_grids ms_invalid_bits (lv_ws l) marge sf (fst (lv_left l)) (snd (lv_left l)) (fst u) (snd u)
                             (fst (lv_zoom l)) (snd (lv_zoom l))), gr).
Proof. exact (gen_finer_grids_user ms_invalid_bits). Qed.

(* C15_coarsest_interval on the generated functions: the pyramid has n levels of factor sf, the first
   execution is at scale n - 1 and its cost volumes are allocated on the user interval / sf^(n-1) -- the code
   divides by sf^n in run_prepare and multiplies by sf in matching_cost_prepare --, mirrored for the right one *)
Theorem C15_gen_coarsest_interval : forall n sf dmin dmax, 1 <= sf -> (1 <= n)%nat ->
  let p := gen_prepare n sf dmin dmax in
  pm_pyramid_levels p = Z.of_nat n /\ pm_pyramid_factor p = sf /\ pm_current_scale p = Z.of_nat n - 1 /\
  exists a ar, mc_alloc_left (gen_first_mcp n sf dmin dmax true) = Some a /\
               mc_alloc_right (gen_first_mcp n sf dmin dmax true) = Some ar /\
               mc_alloc_left (gen_first_mcp n sf dmin dmax false) = Some a /\
               mc_alloc_right (gen_first_mcp n sf dmin dmax false) = None /\
               qpair_eq a (user_interval dmin dmax sf (n - 1)) /\ qpair_eq ar (mirrored a).
Proof. exact gen_coarsest_interval. Qed.

(* after k executions of the generated run_multiscale: the user interval seen from level n - k (the
   argument of the k-th disparity_range call, i.e. what invalid and border pixels fall back to), mirrored for
   the right image, and current_scale = n - 1 - k *)
Theorem C15_gen_user_interval_at_level : forall n sf dmin dmax k, 1 <= sf -> (k <= n)%nat ->
  let t := gen_msc_iter sf true k (gen_after_prepare n sf dmin dmax) in
  qpair_eq (ms_dmin_user t, ms_dmax_user t) (user_interval dmin dmax sf (n - k)) /\
  qpair_eq (ms_dmin_user_right t, ms_dmax_user_right t) (mirrored (user_interval dmin dmax sf (n - k))) /\
  ms_current_scale t = Z.of_nat n - 1 - Z.of_nat k /\
  ((0 < k)%nat -> ms_range_left t = Some (ms_dmin_user t, ms_dmax_user t) /\
                  ms_range_right t = Some (ms_dmin_user_right t, ms_dmax_user_right t)).
Proof. exact gen_user_interval_at_level. Qed.

(* the class of the recorded finding fallback_interval_truncated on the generated expressions: the value
   disparity_range stores at invalid indices (and initialises border pixels with), scaled by the generated
   matching_cost_prepare, is scale_factor * int(bound): the level's user bound iff the coarser bound is an integer *)
Theorem C15_gen_fallback_finding_class : forall sf g umin umax x1 x2 y1 y2, 1 <= sf ->
  let lo := inject_Z (range_min_invalid umin x1 x2 umax) in
  let hi := inject_Z (range_max_invalid umin x1 x2 umax) in
  let m := matching_cost_prepare sf g lo hi y1 y2 in
  lo = inject_Z (range_min_init umin x1 x2 umax) /\ hi = inject_Z (range_max_init umin x1 x2 umax) /\
  mc_alloc_left m = Some (mc_disp_min m, mc_disp_max m) /\
  mc_disp_min m = (inject_Z (qtrunc umin) * inject_Z sf)%Q /\ mc_disp_max m = (inject_Z (qtrunc umax) * inject_Z sf)%Q /\
  (integral umin -> (mc_disp_min m == umin * inject_Z sf)%Q) /\
  (integral umax -> (mc_disp_max m == umax * inject_Z sf)%Q) /\
  (~ integral umin -> ~ (mc_disp_min m == umin * inject_Z sf)%Q) /\
  (~ integral umax -> ~ (mc_disp_max m == umax * inject_Z sf)%Q).
Proof. exact gen_fallback_finding_class. Qed.

(* interior pixels: scale_factor * [min - marge, max + marge] of the window *)
Theorem C15_gen_window_interval : forall sf g m M marge y1 y2,
  let c := matching_cost_prepare sf g (range_min_window m M marge) (range_max_window m M marge) y1 y2 in
  mc_alloc_left c = Some ((m - inject_Z marge) * inject_Z sf, (M + inject_Z marge) * inject_Z sf)%Q.
Proof. exact gen_window_interval. Qed.

(* the generated functions on the finding's witness (disp [-7, 4], scale_factor 3, 2 scales): the coarsest level
   searches [-7/3, 4/3] (right image [-4/3, 7/3]), run_multiscale hands [-7/3, 4/3] to disparity_range, whose fallback
   int(-7/3), int(4/3) = -2, 1 gives [-6, 3] at level 0 *)
Example C15_gen_witness :
  let m := gen_first_mcp 2 3 (-7) 4 true in
  let t := gen_msc_iter 3 true 1 (gen_after_prepare 2 3 (-7) 4) in
  option_map (fun i => (Qred (fst i), Qred (snd i))) (mc_alloc_left m) = Some ((-7 # 3)%Q, (4 # 3)%Q) /\
  option_map (fun i => (Qred (fst i), Qred (snd i))) (mc_alloc_right m) = Some ((-4 # 3)%Q, (7 # 3)%Q) /\
  option_map (fun i => (Qred (fst i), Qred (snd i))) (ms_range_left t) = Some ((-7 # 3)%Q, (4 # 3)%Q) /\
  ms_current_scale t = 0 /\
  range_min_invalid (-7 # 3) 0 0 (4 # 3) = -2 /\ range_max_invalid (-7 # 3) 0 0 (4 # 3) = 1 /\
  option_map (fun i => (Qred (fst i), Qred (snd i)))
             (mc_alloc_left (matching_cost_prepare 3 false (inject_Z (-2)) (inject_Z 1) 0 0)) = Some ((-6 # 1)%Q, (3 # 1)%Q).
Proof. vm_compute. repeat split. Qed.

Print Assumptions C15_constants_match.
Print Assumptions C15_block_loop_skeleton.
Print Assumptions C15_model_loop_is_generated_skeleton.
Print Assumptions C15_run_table_wf.
Print Assumptions C15_invalid_test.
Print Assumptions C15_read_params_first.
Print Assumptions C15_read_params_none.
Print Assumptions C15_multiscale_runs_n_scales.
Print Assumptions C15_pre_steps_every_scale.
Print Assumptions C15_post_steps_once_full_res.
Print Assumptions C15_msc_step_coarse_scales.
Print Assumptions C15_level_sizes.
Print Assumptions C15_image_size_per_execution.
Print Assumptions C15_outputs_full_size.
Print Assumptions C15_zoom_covers.
Print Assumptions C15_coarsest_interval.
Print Assumptions C15_one_grid_per_level.
Print Assumptions C15_zoom_parent.
Print Assumptions C15_block_independent.
Print Assumptions C15_chunk_of_source.
Print Assumptions C15_finer_interval_as_computed.
Print Assumptions C15_fallback_refuted.
Print Assumptions C15_finer_interval.
Print Assumptions C15_fallback_finding_class.
Print Assumptions C15_spec_checker_sound.
Print Assumptions C15_gen_params_is_model.
Print Assumptions C15_gen_prepare_multi_is_model.
Print Assumptions C15_gen_prepare_multi_fields.
Print Assumptions C15_gen_matching_cost_prepare_is_model.
Print Assumptions C15_gen_run_multiscale_is_model.
Print Assumptions C15_gen_disparity_range_is_model.
Print Assumptions C15_gen_first_grids.
Print Assumptions C15_gen_finer_grids_user.
Print Assumptions C15_gen_coarsest_interval.
Print Assumptions C15_gen_user_interval_at_level.
Print Assumptions C15_gen_fallback_finding_class.
Print Assumptions C15_gen_window_interval.
