(* C19 -- Saved products equal the computed ones and the saved configuration replays.
   Statements only; proofs are in Proofs/SaveP.v (save_results), Proofs/SavedCfgP.v (configuration
   flow of pandora.main), Proofs/IndicatorP.v (the run's rewriting of `indicator`), Proofs/JsonP.v
   and Proofs/GuardP.v (representation invariant of update_conf, scalars only), Proofs/JsonTextP.v
   (JSON text) and Proofs/SavedFileP.v (the saved file). *)
From Coq Require Import ZArith QArith List Bool String.
From Pandora Require Import Model.Json Model.JsonText Model.Checker Model.Pipeline Model.Save Model.SavedCfg
  Model.SavedFile Spec.Save
  Proofs.CheckerP Proofs.SaveP Proofs.SavedCfgP Proofs.RewriteP Proofs.IndicatorP Proofs.JsonP Proofs.GuardP
  Proofs.JsonTextP Proofs.SavedFileP Gen.SavePlan Gen.Schemas
  Model.SavePrims Model.SaveMain Proofs.SaveMainP Proofs.SaveGenP.
From Pandora Require Gen.SaveFns.
Import ListNotations.

(* Per-run obligations on the data regenerated from /repo: the write_data_array calls of
   common.save_results are the documented ones (any order) and the output tree puts the six
   rasters in the root of the output directory, config.json in ./cfg. *)
Theorem C19_plan_wf : plan_wf save_calls otd = true /\ cfg_path_ok otd = true.
Proof. split; vm_compute; reflexivity. Qed.

Section Files.
  (* the float32 cast of the writer: ANY function that returns float32-representable values
     unchanged (IEEE-754 contract of the conversion; f32 = "is representable") *)
  Variable rnd : Q -> Q.
  Variable f32 : Q -> Prop.
  Hypothesis rnd_id : forall q, f32 q -> rnd q = q.
  Variable G : Type.      (* (crs, transform) *)

  (* FILES = PRODUCTS, VALUE FOR VALUE.  For every pair of product datasets -- any size, any
     number of indicators, NaN anywhere in the float arrays, flags below 4096 (C04), float
     samples representable in float32 -- the model of save_results run on the regenerated call
     table raises nothing and writes exactly: <side>_disparity.tif (float32, one band) and
     <side>_validity_mask.tif (uint16, one band) equal sample for sample to the arrays;
     <side>_confidence_measure.tif iff the dataset has the variable, with as many bands as
     indicators, band k described by indicator k and equal to plane k of the cube; each with
     the georeferencing of its dataset; the right_* files iff right products exist; no path
     twice, nothing else. *)
  Theorem C19_files_iff_products : forall left right,
    product_ok G f32 left -> right_ok f32 G right ->
    exists fs, run_calls rnd G otd left right save_calls = Some fs /\ saved_ok G left right fs.
  Proof.
    intros left right. exact (save_results_meets_spec rnd f32 rnd_id G save_calls otd left right (proj1 C19_plan_wf)).
  Qed.

  (* DTYPE CASTS.  uint16: exact on every flag word below 4096 (the bound C04 proves; wrap-around
     at 65536 is never reached).  float32: NaN stays NaN, representable values are unchanged. *)
  Theorem C19_casts_exact : forall p,
    (mask_px_ok p -> cast rnd U16 p = p) /\ (float_px_ok f32 p -> cast rnd F32 p = p).
  Proof. intro p. split; [apply cast_mask_exact|apply (cast_float_exact rnd f32 rnd_id)]. Qed.

  (* BAND BOOKKEEPING of write_data_array on a cube with n indicators: n bands, descriptions =
     the indicator names in order, band k (1-based k+1) at (r, c) = cube[r][c][k]. *)
  Theorem C19_band_bookkeeping : forall path names cube g,
    cube_wf names cube -> all3 (float_px_ok f32) cube ->
    conf_ok G (write_data_array rnd G (A3 (List.length names) cube) path F32 (Some names) g) names cube g.
  Proof. exact (conf_written rnd f32 rnd_id G). Qed.

  (* RIGHT FILES IFF VALIDATION.  [products has_validation] = what the run leaves in
     machine.right_disparity.  Hypotheses (C08_no_validation_right_empty; disparity_run fills
     the right dataset when run_prepare saw a validation step, and C01: every accepted pipeline
     has a disparity step before validation): right products exist iff the pipeline has a
     validation step.  Then some right_* file is written iff the pipeline has one. *)
  Variable right_products : bool -> option (product G).
  Hypothesis no_validation_right_empty : right_products false = None.
  Hypothesis validation_right_computed : right_products true <> None.

  Theorem C19_right_files_iff_validation : forall has_validation left fs,
    saved_ok G left (right_products has_validation) fs ->
    ((exists f, In f fs /\ (f_path f = doc_path SRight "disparity" \/ f_path f = doc_path SRight "validity_mask"
                            \/ f_path f = doc_path SRight "confidence_measure"))
     <-> has_validation = true).
  Proof.
    intros hv left fs S. rewrite (right_files_iff_right_products G left _ fs S).
    destruct hv; split; intro H; try reflexivity; try discriminate.
    - exact validation_right_computed.
    - exfalso. apply H. exact no_validation_right_empty.
  Qed.
End Files.

(* Non-vacuity: a 1x2 product with a NaN, two indicators and right products. *)
Example C19_files_example :
  let l := mkProduct [[PF None; PF (Some (3 # 2))]] [[PI 1; PI 0]]
                     (Some (["a"; "b"]%string, [[[PF (Some 1%Q); PF None]; [PF (Some 2%Q); PF (Some 3%Q)]]])) 0%Z in
  let r := mkProduct [[PF (Some (-1)%Q); PF None]] [[PI 256; PI 3]] None 1%Z in
  match run_calls (fun q => q) Z otd l (Some r) save_calls with
  | Some fs => map (@f_path Z) fs =
      ["./left_disparity.tif"; "./left_confidence_measure.tif"; "./left_validity_mask.tif";
       "./right_disparity.tif"; "./right_validity_mask.tif"]%string
      /\ map (@f_bands Z) (filter (fun f => String.eqb (f_path f) "./left_confidence_measure.tif") fs)
         = [[[[PF (Some 1%Q); PF (Some 2%Q)]]; [[PF None; PF (Some 3%Q)]]]]
  | None => False
  end.
Proof. vm_compute. split; reflexivity. Qed.

(* ------------------------------------------------------------------------------------------
   The saved configuration (second sentence of the property). *)

Definition gen_defs : input_defs :=
  mkInputDefs input_configuration_schema_left input_configuration_schema_right
              input_configuration_schema_integer_disparity_left input_configuration_schema_integer_disparity_right
              input_configuration_schema_left_disparity_grids_right_none_left
              input_configuration_schema_left_disparity_grids_right_none_right
              input_configuration_schema_left_disparity_grids_right_grids_left
              input_configuration_schema_left_disparity_grids_right_grids_right
              default_short_configuration_input.

(* per-run obligations on the regenerated step classes and input schemas:
   - classes_wf (the one C05 uses): the prologues allow C05's idempotence;
   - confidence_wf: in every class of the cost_volume_confidence kind, `indicator` is not the
     method key, no prologue operation tests or converts it, the schema requires it and takes
     ANY string under it;
   - classes_scalar / defs_wf: no schema entry of a step class or of the six input schemas
     accepts a dictionary as the value of a parameter, every default written by a prologue and
     by default_short_configuration_input is a scalar that update_conf leaves alone, the default
     input section is {"input": {"left": scalars, "right": scalars}}. *)
Theorem C19_classes_wf : classes_wf classes = true.
Proof. vm_compute. reflexivity. Qed.

Theorem C19_confidence_wf : confidence_wf classes = true.
Proof. vm_compute. reflexivity. Qed.

Theorem C19_scalars_wf : classes_scalar classes = true /\ defs_wf gen_defs = true.
Proof. split; vm_compute; reflexivity. Qed.

(* REPRESENTATION INVARIANT of Model/Json.v established by update_conf, WHATEVER it is given
   (association lists with a key twice, dictionaries nested anywhere, "NaN"/"inf"/"-inf"):
   in the merged value every dictionary has each key once (set_key never duplicates) and no
   leaf is one of the three strings update_conf converts. *)
Theorem C19_update_conf_invariant : forall def user r,
  wfd def = true -> update_conf def user = Some r -> wfd r = true.
Proof. exact update_conf_wf. Qed.

(* update_conf NEVER RAISES on two dictionaries, whatever they hold: a dictionary given where the
   existing value is a scalar, a list or None (or where there is none) is merged into an empty
   dictionary and takes its place -- the schema then decides -- instead of ending in TypeError
   (non-empty) or being silently dropped for the default (empty), as before the repair of
   update_conf (finding empty_dict_value_replaced_by_default of C17). *)
Theorem C19_update_conf_total : forall def user, exists r, update_conf def user = Some r.
Proof. exact update_conf_total. Qed.

(* SCALARS ONLY.  A dictionary accepted by a json-checker dictionary schema none of whose
   entries takes a dictionary (the boolean test above) holds scalars / lists only. *)
Theorem C19_accepted_values_are_scalars : forall orc ks d,
  entries_no_dict ks = true -> nodup_str (keys d) = true ->
  accepts orc (SDict ks) (JDict d) = true -> forallb (fun kv => leafb (snd kv)) d = true.
Proof. exact accepted_leaves. Qed.

(* (b) REWRITING `indicator` KEEPS A CONFIDENCE STEP ACCEPTED.  For every class passing the
   test, every completed step d that the class accepts and returns unchanged, and EVERY string
   s: the step with `indicator` := s is accepted and returned unchanged. *)
Theorem C19_indicator_rewrite_accepted : forall s g c d,
  In c classes -> String.eqb (c_kind c) "cost_volume_confidence" = true -> clean d = true ->
  class_check no_oracle g c d = Some d ->
  class_check no_oracle g c (set_key "indicator" (JStr s) d) = Some (set_key "indicator" (JStr s) d).
Proof.
  intros s g c d I K C H.
  destruct (class_in_wf classes C19_classes_wf c I) as [OC _].
  exact (class_check_upd s g c d (cvc_class classes C19_confidence_wf c I K) C OC H).
Qed.

Section Config.
  (* file-system oracles: ANY answer of "this path opens", of the grid tests, of check_images,
     any band names *)
  Variable orc : string -> jv -> option bool.
  Variable grid_ok : jv -> jv -> bool.
  Variable images_ok : dict -> bool.
  Variable bands_of : jv -> list jv.

  Notation check_conf := (full_check gen_defs orc grid_ok images_ok bands_of classes interpolation_methods).
  Notation main := (main_saved gen_defs orc grid_ok images_ok bands_of classes interpolation_methods).
  Notation guard := (replay_guard gen_defs orc grid_ok images_ok bands_of classes interpolation_methods).

  (* INPUT SECTION: an accepted input section that update_conf(defaults, .) leaves unchanged is
     accepted again and returned unchanged (same oracle answers) *)
  Theorem C19_input_section_replays : forall u c,
    input_check gen_defs orc grid_ok images_ok u = Some c ->
    update_conf (i_default gen_defs) c = Some c ->
    input_check gen_defs orc grid_ok images_ok c = Some c.
  Proof. exact (input_check_fix gen_defs orc grid_ok images_ok). Qed.

  (* (a) THE GUARD ALWAYS HOLDS.  For EVERY user configuration that check_conf accepts -- any
     association list whose "input" dictionary gives "left" and "right" at most once
     ([input_keys_once]: it is a Python dict; nothing is asked of the other dictionaries) -- the
     completed input section is {"input": {"left": scalars, "right": scalars}} extending the
     defaults in place, no completed step holds a "NaN" string, every completed step holds
     scalars / lists only, no key twice.
     (Since update_conf keeps a dictionary given where the value is not one, the association
     list "left": 5, "left": {...} -- no Python dict -- would be completed in the user's key order,
     not the defaults'; before that repair the second item raised.) *)
  Theorem C19_guard_holds : forall user cfg,
    input_keys_once user = true -> check_conf user = Some cfg -> guard user = true.
  Proof.
    exact (replay_guard_holds gen_defs orc grid_ok images_ok bands_of classes interpolation_methods
             C19_classes_wf (proj1 C19_scalars_wf) (proj2 C19_scalars_wf)).
  Qed.

  (* CHECKED CONFIGURATION = FIXPOINT.  For every user configuration that check_conf accepts
     (any pipeline of the built-in classes, suffixed steps, "NaN"/nan invalid_disparity, interval
     or grids): check_conf of the completed configuration returns it unchanged (input section
     and pipeline section: C05's class-level idempotence lifted through update_conf, the registry
     dispatch, the band / interpolation / grid rules and the second round with the images
     exchanged), and a "margins" entry of any value is ignored. *)
  Theorem C19_checked_cfg_fixpoint : forall user cfg,
    input_keys_once user = true ->
    check_conf user = Some cfg ->
    check_conf cfg = Some cfg /\ forall m, check_conf (set_key "margins" m cfg) = Some cfg.
  Proof.
    intros user cfg KO H.
    exact (full_check_fixpoint gen_defs orc grid_ok images_ok bands_of classes interpolation_methods C19_classes_wf
             user cfg H (C19_guard_holds user cfg KO H)).
  Qed.

  (* THE CONFIGURATION AS RUN IS A FIXPOINT TOO: after the run has stored the suffix of each
     cost_volume_confidence step name under `indicator`. *)
  Theorem C19_cfg_as_run_fixpoint : forall user cfg,
    input_keys_once user = true ->
    check_conf user = Some cfg ->
    check_conf (run_rewrites cfg) = Some (run_rewrites cfg)
    /\ forall m, check_conf (set_key "margins" m (run_rewrites cfg)) = Some (run_rewrites cfg).
  Proof.
    intros user cfg KO H.
    exact (full_check_rewritten gen_defs orc grid_ok images_ok bands_of classes interpolation_methods
             C19_classes_wf C19_confidence_wf user cfg H (C19_guard_holds user cfg KO H)).
  Qed.

  (* THE SAVED CONFIGURATION REPLAYS (level of the dictionaries handed to json.dump / returned by
     json.load; the JSON text is C19_saved_file_replays below).  For every user configuration and
     every margins value: if main saves [saved], then check_conf accepted the user configuration,
     [saved] is the completed configuration as run plus the margins, feeding [saved] back is
     accepted and yields the same configuration, and main saves the same dictionary again. *)
  Theorem C19_saved_cfg_replays : forall user m saved,
    input_keys_once user = true ->
    main m user = Some saved ->
    exists cfg, check_conf user = Some cfg
                /\ saved = set_key "margins" m (run_rewrites cfg)       (* completed configuration as run + margins *)
                /\ check_conf saved = Some (run_rewrites cfg)           (* fed back: accepted, same configuration *)
                /\ main m saved = Some saved.                           (* and saved again unchanged *)
  Proof.
    intros user m saved KO H.
    assert (G : guard user = true).
    { unfold main_saved in H.
      destruct (full_check gen_defs orc grid_ok images_ok bands_of classes interpolation_methods user) as [cfg|] eqn:E;
        [|discriminate]. exact (C19_guard_holds user cfg KO E). }
    exact (main_saved_replays_rw gen_defs orc grid_ok images_ok bands_of classes interpolation_methods
             C19_classes_wf C19_confidence_wf user m saved H G).
  Qed.
End Config.

(* (c) JSON ROUND TRIP.  For every value of the JSON subset of Model/JsonText.v (null, booleans,
   NaN / Infinity / -Infinity, every integer, every float that is a reduced fraction with a finite
   decimal expansion of at most 20 fraction digits, strings of printable ASCII without the
   double quote and the backslash, lists and dictionaries of such, any depth, any size):
   the text json.dump writes parses back (json.load) to the same value, key order included. *)
Theorem C19_json_roundtrip : forall v, printable v = true -> parse (print v) = Some v.
Proof. exact parse_print. Qed.

Section ConfigFile.
  Variable orc : string -> jv -> option bool.
  Variable grid_ok : jv -> jv -> bool.
  Variable images_ok : dict -> bool.
  Variable bands_of : jv -> list jv.

  Notation check_conf := (full_check gen_defs orc grid_ok images_ok bands_of classes interpolation_methods).
  Notation check_file := (check_file gen_defs orc grid_ok images_ok bands_of classes interpolation_methods).
  Notation main_file := (main_file gen_defs orc grid_ok images_ok bands_of classes interpolation_methods).

  (* THE SAVED FILE REPLAYS.  main_file m text = the text of cfg/config.json that pandora.main
     writes when given a configuration file holding [text] (json.load, check_conf, the run's
     rewriting of `indicator`, margins m added, json.dump).  Whenever it writes [out]: the input was
     a JSON dictionary that check_conf accepts, [out] is the print of the completed configuration
     as run plus the margins, and -- provided that dictionary is in the JSON subset (no string
     needing an escape, floats with finite decimal expansions) -- [out] is loadable, check_conf
     accepts what it loads and returns the same completed configuration, and main writes exactly
     the same text again. *)
  Theorem C19_saved_file_replays : forall m text out,
    text_input_keys_once text = true ->       (* the "input" object gives "left" / "right" at most once *)
    main_file m text = Some out ->
    exists user cfg saved,
      parse text = Some (JDict user)
      /\ check_conf user = Some cfg
      /\ saved = set_key "margins" m (run_rewrites cfg)
      /\ out = print (JDict saved)
      /\ (printable (JDict saved) = true ->
          parse out = Some (JDict saved)
          /\ check_file out = Some (run_rewrites cfg)
          /\ main_file m out = Some out).
  Proof.
    exact (saved_file_replays gen_defs orc grid_ok images_ok bands_of classes interpolation_methods
             C19_classes_wf C19_confidence_wf (proj1 C19_scalars_wf) (proj2 C19_scalars_wf)).
  Qed.
End ConfigFile.

(* What the run writes into the configuration (the `indicator` of each cost_volume_confidence
   step := the suffix of its name) is idempotent: the configuration saved by a run is not
   rewritten again when it is replayed, whatever it contains. *)
Theorem C19_run_rewrites_idempotent : forall cfg, run_rewrites (run_rewrites cfg) = run_rewrites cfg.
Proof. exact run_rewrites_idem. Qed.

(* D8 (DESIGN section 4), regression witness.  The model of main BEFORE fix e44909e stored the
   derived right interval [-max, -min] in the configuration it saved; the input check refuses
   that file (right disp must be None when the left one is a pair).  The repaired main saves a
   configuration that is accepted and saved again unchanged. *)
Definition d8_user : dict :=
  [("input", JDict [("left", JDict [("img", JStr "l.tif"); ("disp", JList [JInt (-2); JInt 2])]);
                    ("right", JDict [("img", JStr "r.tif")])]);
   ("pipeline", JDict [("matching_cost", JDict [("matching_cost_method", JStr "sad")]);
                       ("cost_volume_confidence", JDict [("confidence_method", JStr "ambiguity")]);
                       ("disparity", JDict [("disparity_method", JStr "wta"); ("invalid_disparity", JStr "NaN")]);
                       ("validation", JDict [("validation_method", JStr "cross_checking_accurate")])])]%string.

Definition d8_bands (_ : jv) : list jv := [JNull].
Definition ok2 (_ _ : jv) : bool := true.
Definition ok1 (_ : dict) : bool := true.

Theorem C19_before_fix_refuted :
  exists old, main_saved_before gen_defs open_orc ok2 ok1 d8_bands classes interpolation_methods (JDict []) d8_user = Some old
              /\ full_check gen_defs open_orc ok2 ok1 d8_bands classes interpolation_methods old = None.
Proof. eexists. split; vm_compute; reflexivity. Qed.

(* Non-vacuity of the guard and of the replay theorem on the same witness (repaired main). *)
Example C19_replay_example :
  replay_guard gen_defs open_orc ok2 ok1 d8_bands classes interpolation_methods d8_user = true
  /\ match main_saved gen_defs open_orc ok2 ok1 d8_bands classes interpolation_methods (JDict []) d8_user with
     | Some saved => main_saved gen_defs open_orc ok2 ok1 d8_bands classes interpolation_methods (JDict []) saved = Some saved
                     /\ List.length saved = 3%nat
     | None => False
     end.
Proof. vm_compute. repeat split. Qed.

(* Non-vacuity of the file-level theorem: the witness as a JSON text with a suffixed confidence
   step, floats, NaN; the saved text is in the subset and is saved again unchanged. *)
Example C19_file_example :
  let text := "{ ""input"": {""left"": {""img"": ""l.tif"", ""disp"": [-2, 2], ""nodata"": NaN}, ""right"": {""img"": ""r.tif""}},
     ""pipeline"": {""matching_cost"": {""matching_cost_method"": ""zncc"", ""window_size"": 3},
                  ""cost_volume_confidence.a1"": {""confidence_method"": ""ambiguity"", ""eta_max"": 0.5, ""indicator"": ""mine""},
                  ""disparity"": {""disparity_method"": ""wta"", ""invalid_disparity"": ""NaN""},
                  ""filter"": {""filter_method"": ""bilateral"", ""sigma_color"": 4.0}} }"%string in
  match main_file gen_defs open_orc ok2 ok1 d8_bands classes interpolation_methods (JDict [("left", JInt 1)]%string) text with
  | Some out =>
    match parse out with
    | Some (JDict saved) =>
      printable (JDict saved) = true
      /\ main_file gen_defs open_orc ok2 ok1 d8_bands classes interpolation_methods (JDict [("left", JInt 1)]%string) out = Some out
      /\ (match lookup "pipeline" saved with
          | Some (JDict p) => match lookup "cost_volume_confidence.a1" p with
                              | Some (JDict c) => lookup "indicator" c
                              | _ => None end
          | _ => None end) = Some (JStr ".a1")
    | _ => False
    end
  | None => False
  end.
Proof. vm_compute. repeat split. Qed.


(* ------------------------------------------------------------------------------------------
   T-gen tie of the FUNCTION BODIES.  Gen/SaveFns.v is the statement-by-statement translation (translator/
   gen_save_fns.py, fail closed, regenerated at every run) of common.write_data_array, common.save_results,
   common.save_config, output_tree_design.get_out_dir / get_out_file_path, check_configuration.read_config_file and
   pandora.main into terms over Model/SavePrims.v (semantics of the rasterio / numpy / xarray / json / dict
   constructs).  Per-run obligations: each generated function computes what the hand-written model computes, for
   ALL inputs; the theorems above are then restated on the generated functions. *)
Section GenFns.
  Variable rnd : Q -> Q.
  Variables C T : Type.

  (* write_data_array: the 2-D branch (one band), the 3-D branch (count = depth, the loop
     `for dsp in range(1, depth + 1): write(data[:, :, dsp - 1], dsp)`, descriptions when band_names is given), the
     dtype and crs / transform handed to rasterio.open, width / height = the shape of the array -- on every
     rectangular array of 2 or 3 dimensions, any size, the file closed is the one of Model/Save.v. *)
  Theorem C19_gen_write_data_array : forall a path t names crs tr,
    arr_wf (xa_arr a) -> names_wf (xa_arr a) names ->
    SaveFns.write_data_array rnd C T a path t names crs tr
    = Some [FTif (Save.write_data_array rnd (C * T) (xa_arr a) path t names (crs, tr))].
  Proof. exact (gen_write_data_array rnd C T). Qed.

  (* save_results: which variable of which dataset goes to which file with which dtype, band names and WHOSE crs /
     transform, under which guards = the call table of Gen/SavePlan.v interpreted by Model/Save.v, every file under
     <output>; for every pair of product datasets (rectangular arrays). *)
  Theorem C19_gen_save_results : forall l right output,
    product_rect C T l -> right_rect C T right ->
    SaveFns.save_results rnd C T (Some l) right output
    = match run_calls rnd (C * T) otd l right save_calls with
      | Some fs => Some (map (fun f => FTif (in_dir C T output f)) fs)
      | None => None
      end.
  Proof. exact (gen_save_results rnd C T). Qed.

  (* save_config: one text file, <output>/<OTD path of config.json>, holding json.dump(cfg, indent=2) of the
     dictionary GIVEN (no other keyword, no conversion of the values) *)
  Theorem C19_gen_save_config : forall output cfg,
    SaveFns.save_config C T output cfg
    = match out_path otd "config.json" with
      | Some p => Some [FText (path_join output p) (print cfg)]
      | None => None
      end.
  Proof. exact (gen_save_config C T). Qed.

  (* main: json.load of the file, check_conf, the datasets (the right interval derived on a COPY of the right input
     section), run, save_results on what run returned, cfg["margins"] = machine.margins.to_dict() on the cfg that
     check_conf returned and run wrote into, save_config of THAT dictionary -- for every environment (any
     check_conf, create_dataset_from_inputs, check_datasets, run, margins, file system) whose run returns datasets. *)
  Theorem C19_gen_main : forall (M IMG : Type) (E : env C T M IMG) cfg_path output verbose,
    env_products_ok C T M IMG E ->
    SaveFns.main rnd C T M IMG E cfg_path output verbose
    = main_flow rnd C T M IMG otd save_calls E cfg_path output.
  Proof. exact (gen_main rnd C T). Qed.

  Variable f32 : Q -> Prop.
  Hypothesis rnd_id : forall q, f32 q -> rnd q = q.

  (* C19_files_iff_products, on the generated save_results: for every pair of product datasets (as above, arrays
     rectangular) and every output directory the translated body raises nothing and closes exactly the files
     <output>/f, f ranging over a set of files that meets the specification of the first sentence. *)
  Theorem C19_files_iff_products_gen : forall left right output,
    product_ok (C * T) f32 left -> right_ok f32 (C * T) right -> product_rect C T left -> right_rect C T right ->
    exists fs, SaveFns.save_results rnd C T (Some left) right output
               = Some (map (fun f => FTif (in_dir C T output f)) fs)
               /\ saved_ok (C * T) left right fs.
  Proof.
    intros left right output PL PR RL RR.
    destruct (C19_files_iff_products rnd f32 rnd_id (C * T) left right PL PR) as [fs [E S]].
    exists fs. split; [|exact S]. rewrite (gen_save_results rnd C T left right output RL RR).
    unfold save_results_model. rewrite E. reflexivity.
  Qed.

  (* C19_band_bookkeeping, on the generated write_data_array: a cube with n indicators gives one file with n bands,
     descriptions = the indicator names in order, band k at (r, c) = cube[r][c][k], float32, the crs / transform
     given. *)
  Theorem C19_band_bookkeeping_gen : forall path names cube crs tr,
    cube_wf names cube -> rect2 cube -> all3 (float_px_ok f32) cube ->
    exists f, SaveFns.write_data_array rnd C T (mkXda (A3 (List.length names) cube) (Some names)) path F32
                                       (Some names) crs tr = Some [FTif f]
              /\ conf_ok (C * T) f names cube (crs, tr).
  Proof.
    intros path names cube crs tr W R A. eexists. split.
    - apply (gen_write_data_array rnd C T); cbn; [split; [exact R|exact W]|reflexivity].
    - exact (conf_written rnd f32 rnd_id (C * T) path names cube (crs, tr) W A).
  Qed.
End GenFns.

Section GenMain.
  Variable rnd : Q -> Q.
  Variables C T M IMG : Type.
  Variable orc : string -> jv -> option bool.
  Variable grid_ok : jv -> jv -> bool.
  Variable images_ok : dict -> bool.
  Variable bands_of : jv -> list jv.

  Notation check_conf := (full_check gen_defs orc grid_ok images_ok bands_of classes interpolation_methods).
  Notation gmain := (SaveFns.main rnd C T M IMG).
  (* the environment: run returns datasets; check_conf is the modelled one; the run writes into cfg what
     Model/SavedCfg.v run_rewrites says (both compared with the real code on every case of the correspondence) *)
  Definition env_ok (E : env C T M IMG) : Prop :=
    env_products_ok C T M IMG E
    /\ env_cfg_ok C T M IMG gen_defs orc grid_ok images_ok bands_of classes interpolation_methods E.

  (* C19_saved_cfg_replays / C19_saved_file_replays, on the generated main.  Whenever the translated body of
     pandora.main ends without raising: the configuration file held a JSON dictionary that check_conf accepts; what
     main closed is rasters, then ONE text file <output>/./cfg/config.json holding json.dump of the completed
     configuration as run plus machine.margins.to_dict(); and -- that dictionary being in the JSON subset -- feeding
     it back is accepted with the same completed configuration, and ANY later run of main on a file holding that text
     (any environment of the same kind, any output directory) writes the same configuration again, with the margins
     its own machine reports (equal ones: C20 margins are a function of the checked pipeline). *)
  Theorem C19_saved_cfg_replays_gen : forall (E : env C T M IMG) cfg_path output verbose fx,
    env_ok E -> gmain E cfg_path output verbose = Some fx ->
    exists text user cfg m saved tifs,
      e_read_file E cfg_path = Some text /\ parse text = Some (JDict user) /\ check_conf user = Some cfg
      /\ saved = set_key "margins" m (run_rewrites cfg)
      /\ fx = (tifs ++ [FText (path_join output "./cfg/config.json") (print (JDict saved))])%list
      /\ (forall e, In e tifs -> is_tif C T e)
      /\ (text_input_keys_once text = true -> printable (JDict saved) = true ->
          check_conf saved = Some (run_rewrites cfg)
          /\ forall (E' : env C T M IMG) cfg_path' output' verbose' fx',
               env_ok E' -> e_read_file E' cfg_path' = Some (print (JDict saved)) ->
               gmain E' cfg_path' output' verbose' = Some fx' ->
               exists tifs' m',
                 fx' = (tifs' ++ [FText (path_join output' "./cfg/config.json")
                                        (print (JDict (set_key "margins" m' (run_rewrites cfg))))])%list
                 /\ (forall e, In e tifs' -> is_tif C T e)).
  Proof.
    intros E cfg_path output verbose fx [EP EC] H. rewrite (gen_main rnd C T M IMG E _ _ _ EP) in H.
    destruct (main_flow_replays rnd C T M IMG otd save_calls gen_defs orc grid_ok images_ok bands_of classes
                interpolation_methods C19_classes_wf C19_confidence_wf (proj1 C19_scalars_wf) (proj2 C19_scalars_wf)
                (proj2 C19_plan_wf) E cfg_path output fx EC H)
      as [text [user [cfg [m [saved [tifs [H1 [H2 [H3 [H4 [H5 [H6 H7]]]]]]]]]]]].
    exists text, user, cfg, m, saved, tifs. repeat (split; [assumption|]).
    intros KO Pr. destruct (H7 KO Pr) as [F R]. split; [exact F|].
    intros E' cfg_path' output' verbose' fx' [EP' EC'] Rd' H'.
    rewrite (gen_main rnd C T M IMG E' _ _ _ EP') in H'.
    exact (R E' cfg_path' output' fx' EC' Rd' H').
  Qed.
End GenMain.

(* Non-vacuity of the generated functions: the 1x2 product of C19_files_example goes through the translated
   save_results (5 files under "out"), and an environment built from the models (check_conf = full_check, run
   returning that product and run_rewrites of cfg) goes through the translated main: 5 rasters, then config.json
   whose text parses back to the completed configuration with the margins. *)
Definition ex_left : product (Z * Z) :=
  mkProduct [[PF None; PF (Some (3 # 2))]] [[PI 1; PI 0]]
            (Some (["a"; "b"]%string, [[[PF (Some 1%Q); PF None]; [PF (Some 2%Q); PF (Some 3%Q)]]])) (0, 7)%Z.
Definition ex_right : product (Z * Z) := mkProduct [[PF (Some (-1)%Q); PF None]] [[PI 256; PI 3]] None (1, 8)%Z.

Definition ex_env : env Z Z unit unit :=
  mkEnv Z Z unit unit
        (fun _ => Some "{""input"": {""left"": {""img"": ""l.tif"", ""disp"": [-2, 2]}, ""right"": {""img"": ""r.tif""}},
                        ""pipeline"": {""matching_cost"": {""matching_cost_method"": ""sad""},
                                     ""disparity"": {""disparity_method"": ""wta""}}}"%string)
        tt
        (fun u m => match u with
                    | JDict ud => match full_check gen_defs open_orc ok2 ok1 d8_bands classes interpolation_methods ud with
                                  | Some c => Some (JDict c, m) | None => None end
                    | _ => None end)
        (fun _ => Some tt) (fun _ _ => Some tt)
        (fun m _ _ c => match c with JDict cd => Some (Some ex_left, Some ex_right, m, JDict (run_rewrites cd)) | _ => None end)
        (fun _ => JDict [("left", JInt 1)]%string).

Example C19_gen_example :
  match SaveFns.main (fun q => q) Z Z unit unit ex_env "cfg.json" "out" false with
  | Some fx =>
    map (fun e => match e with FTif f => f_path f | FText p _ => p end) fx
    = ["out/./left_disparity.tif"; "out/./left_confidence_measure.tif"; "out/./left_validity_mask.tif";
       "out/./right_disparity.tif"; "out/./right_validity_mask.tif"; "out/./cfg/config.json"]%string
    /\ match last fx (FText "" "") with
       | FText _ text => match parse text with
                         | Some (JDict saved) => lookup "margins" saved = Some (JDict [("left", JInt 1)]%string)
                                                 /\ List.length saved = 3%nat
                         | _ => False end
       | _ => False end
    /\ map (fun e => match e with FTif f => f_geo f | FText _ _ => (0, 0)%Z end) fx
       = [(0, 7); (0, 7); (0, 7); (1, 8); (1, 8); (0, 0)]%Z
  | None => False
  end.
Proof. vm_compute. repeat split. Qed.

Print Assumptions C19_plan_wf.
Print Assumptions C19_files_iff_products.
Print Assumptions C19_casts_exact.
Print Assumptions C19_band_bookkeeping.
Print Assumptions C19_right_files_iff_validation.
Print Assumptions C19_classes_wf.
Print Assumptions C19_confidence_wf.
Print Assumptions C19_scalars_wf.
Print Assumptions C19_update_conf_invariant.
Print Assumptions C19_update_conf_total.
Print Assumptions C19_accepted_values_are_scalars.
Print Assumptions C19_indicator_rewrite_accepted.
Print Assumptions C19_input_section_replays.
Print Assumptions C19_guard_holds.
Print Assumptions C19_checked_cfg_fixpoint.
Print Assumptions C19_cfg_as_run_fixpoint.
Print Assumptions C19_saved_cfg_replays.
Print Assumptions C19_json_roundtrip.
Print Assumptions C19_saved_file_replays.
Print Assumptions C19_before_fix_refuted.
Print Assumptions C19_run_rewrites_idempotent.
Print Assumptions C19_gen_write_data_array.
Print Assumptions C19_gen_save_results.
Print Assumptions C19_gen_save_config.
Print Assumptions C19_gen_main.
Print Assumptions C19_files_iff_products_gen.
Print Assumptions C19_band_bookkeeping_gen.
Print Assumptions C19_saved_cfg_replays_gen.
