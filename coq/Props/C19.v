(* C19 -- Saved products equal the computed ones and the saved configuration replays.
   Statements only; proofs are in Proofs/SaveP.v (save_results) and Proofs/SavedCfgP.v
   (configuration flow of pandora.main). *)
From Coq Require Import ZArith QArith List Bool String.
From Pandora Require Import Model.Json Model.Checker Model.Pipeline Model.Save Model.SavedCfg Spec.Save
  Proofs.CheckerP Proofs.SaveP Proofs.SavedCfgP Proofs.RewriteP Gen.SavePlan Gen.Schemas.
Import ListNotations.

(* Per-run obligations on the data regenerated from /repo: the write_data_array calls of
   common.save_results are the documented ones (any order) and the output tree puts the six
   rasters in the root of the output directory, config.json in ./cfg. *)
Theorem C19_plan_wf : plan_wf save_calls otd = true /\ cfg_path_ok otd = true.
Proof. split; vm_compute; reflexivity. Qed.

Section Files.
  (* the float32 cast of the writer: ANY function that returns float32-representable values
     unchanged (IEEE-754 contract of the conversion; f32 = "is representable") *)
  Variable rnd : Q -> Q.
  Variable f32 : Q -> Prop.
  Hypothesis rnd_id : forall q, f32 q -> rnd q = q.
  Variable G : Type.      (* (crs, transform) *)

  (* FILES = PRODUCTS, VALUE FOR VALUE.  For every pair of product datasets -- any size, any
     number of indicators, NaN anywhere in the float arrays, flags below 4096 (C04), float
     samples representable in float32 -- the model of save_results run on the regenerated call
     table raises nothing and writes exactly: <side>_disparity.tif (float32, one band) and
     <side>_validity_mask.tif (uint16, one band) equal sample for sample to the arrays;
     <side>_confidence_measure.tif iff the dataset has the variable, with as many bands as
     indicators, band k described by indicator k and equal to plane k of the cube; each with
     the georeferencing of its dataset; the right_* files iff right products exist; no path
     twice, nothing else. *)
  Theorem C19_files_iff_products : forall left right,
    product_ok G f32 left -> right_ok f32 G right ->
    exists fs, run_calls rnd G otd left right save_calls = Some fs /\ saved_ok G left right fs.
  Proof.
    intros left right. exact (save_results_meets_spec rnd f32 rnd_id G save_calls otd left right (proj1 C19_plan_wf)).
  Qed.

  (* DTYPE CASTS.  uint16: exact on every flag word below 4096 (the bound C04 proves; wrap-around
     at 65536 is never reached).  float32: NaN stays NaN, representable values are unchanged. *)
  Theorem C19_casts_exact : forall p,
    (mask_px_ok p -> cast rnd U16 p = p) /\ (float_px_ok f32 p -> cast rnd F32 p = p).
  Proof. intro p. split; [apply cast_mask_exact|apply (cast_float_exact rnd f32 rnd_id)]. Qed.

  (* BAND BOOKKEEPING of write_data_array on a cube with n indicators: n bands, descriptions =
     the indicator names in order, band k (1-based k+1) at (r, c) = cube[r][c][k]. *)
  Theorem C19_band_bookkeeping : forall path names cube g,
    cube_wf names cube -> all3 (float_px_ok f32) cube ->
    conf_ok G (write_data_array rnd G (A3 (List.length names) cube) path F32 (Some names) g) names cube g.
  Proof. exact (conf_written rnd f32 rnd_id G). Qed.

  (* RIGHT FILES IFF VALIDATION.  [products has_validation] = what the run leaves in
     machine.right_disparity.  Hypotheses (C08_no_validation_right_empty; disparity_run fills
     the right dataset when run_prepare saw a validation step, and C01: every accepted pipeline
     has a disparity step before validation): right products exist iff the pipeline has a
     validation step.  Then some right_* file is written iff the pipeline has one. *)
  Variable right_products : bool -> option (product G).
  Hypothesis no_validation_right_empty : right_products false = None.
  Hypothesis validation_right_computed : right_products true <> None.

  Theorem C19_right_files_iff_validation : forall has_validation left fs,
    saved_ok G left (right_products has_validation) fs ->
    ((exists f, In f fs /\ (f_path f = doc_path SRight "disparity" \/ f_path f = doc_path SRight "validity_mask"
                            \/ f_path f = doc_path SRight "confidence_measure"))
     <-> has_validation = true).
  Proof.
    intros hv left fs S. rewrite (right_files_iff_right_products G left _ fs S).
    destruct hv; split; intro H; try reflexivity; try discriminate.
    - exact validation_right_computed.
    - exfalso. apply H. exact no_validation_right_empty.
  Qed.
End Files.

(* Non-vacuity: a 1x2 product with a NaN, two indicators and right products. *)
Example C19_files_example :
  let l := mkProduct [[PF None; PF (Some (3 # 2))]] [[PI 1; PI 0]]
                     (Some (["a"; "b"]%string, [[[PF (Some 1%Q); PF None]; [PF (Some 2%Q); PF (Some 3%Q)]]])) 0%Z in
  let r := mkProduct [[PF (Some (-1)%Q); PF None]] [[PI 256; PI 3]] None 1%Z in
  match run_calls (fun q => q) Z otd l (Some r) save_calls with
  | Some fs => map (@f_path Z) fs =
      ["./left_disparity.tif"; "./left_confidence_measure.tif"; "./left_validity_mask.tif";
       "./right_disparity.tif"; "./right_validity_mask.tif"]%string
      /\ map (@f_bands Z) (filter (fun f => String.eqb (f_path f) "./left_confidence_measure.tif") fs)
         = [[[[PF (Some 1%Q); PF (Some 2%Q)]]; [[PF None; PF (Some 3%Q)]]]]
  | None => False
  end.
Proof. vm_compute. split; reflexivity. Qed.

(* ------------------------------------------------------------------------------------------
   The saved configuration (second sentence of the property). *)

Definition gen_defs : input_defs :=
  mkInputDefs input_configuration_schema_left input_configuration_schema_right
              input_configuration_schema_integer_disparity_left input_configuration_schema_integer_disparity_right
              input_configuration_schema_left_disparity_grids_right_none_left
              input_configuration_schema_left_disparity_grids_right_none_right
              input_configuration_schema_left_disparity_grids_right_grids_left
              input_configuration_schema_left_disparity_grids_right_grids_right
              default_short_configuration_input.

(* per-run obligation on the regenerated step classes (the one C05 uses) *)
Theorem C19_classes_wf : classes_wf classes = true.
Proof. vm_compute. reflexivity. Qed.

Section Config.
  (* file-system oracles: ANY answer of "this path opens", of the grid tests, of check_images,
     any band names *)
  Variable orc : string -> jv -> option bool.
  Variable grid_ok : jv -> jv -> bool.
  Variable images_ok : dict -> bool.
  Variable bands_of : jv -> list jv.

  Notation check_conf := (full_check gen_defs orc grid_ok images_ok bands_of classes interpolation_methods).
  Notation main := (main_saved gen_defs orc grid_ok images_ok bands_of classes interpolation_methods).
  Notation guard := (replay_guard gen_defs orc grid_ok images_ok bands_of classes interpolation_methods).

  (* INPUT SECTION: an accepted input section that update_conf(defaults, .) leaves unchanged is
     accepted again and returned unchanged (same oracle answers) *)
  Theorem C19_input_section_replays : forall u c,
    input_check gen_defs orc grid_ok images_ok u = Some c ->
    update_conf (i_default gen_defs) c = Some c ->
    input_check gen_defs orc grid_ok images_ok c = Some c.
  Proof. exact (input_check_fix gen_defs orc grid_ok images_ok). Qed.

  (* CHECKED CONFIGURATION = FIXPOINT.  For every user configuration that check_conf accepts
     (any pipeline of the built-in classes, suffixed steps, "NaN"/nan invalid_disparity, interval
     or grids) under the guard: check_conf of the completed configuration returns it unchanged
     (input section and pipeline section: C05's class-level idempotence lifted through
     update_conf, the registry dispatch, the band / interpolation / grid rules and the second
     round with the images exchanged), and a "margins" entry of any value is ignored. *)
  Theorem C19_checked_cfg_fixpoint : forall user cfg,
    check_conf user = Some cfg -> guard user = true ->
    check_conf cfg = Some cfg /\ forall m, check_conf (set_key "margins" m cfg) = Some cfg.
  Proof.
    exact (full_check_fixpoint gen_defs orc grid_ok images_ok bands_of classes interpolation_methods C19_classes_wf).
  Qed.

  (* THE SAVED CONFIGURATION REPLAYS (partial).  Full statement, kept visible: *)
  Definition C19_saved_cfg_replays_full : Prop := forall user m saved,
    main m user = Some saved ->
    exists cfg, check_conf user = Some cfg
                /\ saved = set_key "margins" m (run_rewrites cfg)       (* completed configuration as run + margins *)
                /\ check_conf saved = Some (run_rewrites cfg)           (* fed back: accepted, same configuration *)
                /\ main m saved = Some saved.                           (* and saved again unchanged *)
  (* PROVED below: the statement under (i) the decidable guard (scalars only in the completed
     steps, no key twice -- true of Python dicts and of every built-in class, evaluated by the
     harness on every case of every run; that update_conf / the schemas always establish it is
     NOT proved), and (ii) run_rewrites cfg = cfg, i.e. no cost_volume_confidence step whose
     `indicator` differs from the suffix of its name (every configuration without suffixed
     confidence steps, and every configuration that was itself saved by a run).  MISSING for
     the full statement: the lemma that replacing the value of `indicator` by another string
     keeps a confidence step accepted (its schema is `str`), and (i).  The harness replays every
     case, suffixed confidence steps included, on the real code. *)
  Theorem C19_saved_cfg_replays_partial : forall user m saved,
    main m user = Some saved -> guard user = true ->
    (forall cfg, check_conf user = Some cfg -> run_rewrites cfg = cfg) ->
    exists cfg, check_conf user = Some cfg /\ saved = set_key "margins" m cfg
                /\ check_conf saved = Some cfg /\ main m saved = Some saved.
  Proof.
    exact (main_saved_replays gen_defs orc grid_ok images_ok bands_of classes interpolation_methods C19_classes_wf).
  Qed.
End Config.

(* What the run writes into the configuration (the `indicator` of each cost_volume_confidence
   step := the suffix of its name) is idempotent: the configuration saved by a run is not
   rewritten again when it is replayed, whatever it contains. *)
Theorem C19_run_rewrites_idempotent : forall cfg, run_rewrites (run_rewrites cfg) = run_rewrites cfg.
Proof. exact run_rewrites_idem. Qed.

(* D8 (DESIGN section 4), regression witness.  The model of main BEFORE fix e0eac6a stored the
   derived right interval [-max, -min] in the configuration it saved; the input check refuses
   that file (right disp must be None when the left one is a pair).  The repaired main saves a
   configuration that is accepted and saved again unchanged. *)
Definition d8_user : dict :=
  [("input", JDict [("left", JDict [("img", JStr "l.tif"); ("disp", JList [JInt (-2); JInt 2])]);
                    ("right", JDict [("img", JStr "r.tif")])]);
   ("pipeline", JDict [("matching_cost", JDict [("matching_cost_method", JStr "sad")]);
                       ("cost_volume_confidence", JDict [("confidence_method", JStr "ambiguity")]);
                       ("disparity", JDict [("disparity_method", JStr "wta"); ("invalid_disparity", JStr "NaN")]);
                       ("validation", JDict [("validation_method", JStr "cross_checking_accurate")])])]%string.

Definition d8_bands (_ : jv) : list jv := [JNull].
Definition ok2 (_ _ : jv) : bool := true.
Definition ok1 (_ : dict) : bool := true.

Theorem C19_before_fix_refuted :
  exists old, main_saved_before gen_defs open_orc ok2 ok1 d8_bands classes interpolation_methods (JDict []) d8_user = Some old
              /\ full_check gen_defs open_orc ok2 ok1 d8_bands classes interpolation_methods old = None.
Proof. eexists. split; vm_compute; reflexivity. Qed.

(* Non-vacuity of the guard and of the replay theorem on the same witness (repaired main). *)
Example C19_replay_example :
  replay_guard gen_defs open_orc ok2 ok1 d8_bands classes interpolation_methods d8_user = true
  /\ match main_saved gen_defs open_orc ok2 ok1 d8_bands classes interpolation_methods (JDict []) d8_user with
     | Some saved => main_saved gen_defs open_orc ok2 ok1 d8_bands classes interpolation_methods (JDict []) saved = Some saved
                     /\ List.length saved = 3%nat
     | None => False
     end.
Proof. vm_compute. repeat split. Qed.

Print Assumptions C19_plan_wf.
Print Assumptions C19_files_iff_products.
Print Assumptions C19_casts_exact.
Print Assumptions C19_band_bookkeeping.
Print Assumptions C19_right_files_iff_validation.
Print Assumptions C19_classes_wf.
Print Assumptions C19_input_section_replays.
Print Assumptions C19_checked_cfg_fixpoint.
Print Assumptions C19_saved_cfg_replays_partial.
Print Assumptions C19_before_fix_refuted.
Print Assumptions C19_run_rewrites_idempotent.
