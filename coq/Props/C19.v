(* C19 -- Saved products equal the computed ones and the saved configuration replays.
   Statements only; proofs are in Proofs/SaveP.v (save_results) and Proofs/SavedCfgP.v
   (configuration flow of pandora.main). *)
From Coq Require Import ZArith QArith List Bool String.
From Pandora Require Import Model.Save Spec.Save Proofs.SaveP Gen.SavePlan.
Import ListNotations.

(* Per-run obligations on the data regenerated from /repo: the write_data_array calls of
   common.save_results are the documented ones (any order) and the output tree puts the six
   rasters in the root of the output directory, config.json in ./cfg. *)
Theorem C19_plan_wf : plan_wf save_calls otd = true /\ cfg_path_ok otd = true.
Proof. split; vm_compute; reflexivity. Qed.

Section Files.
  (* the float32 cast of the writer: ANY function that returns float32-representable values
     unchanged (IEEE-754 contract of the conversion; f32 = "is representable") *)
  Variable rnd : Q -> Q.
  Variable f32 : Q -> Prop.
  Hypothesis rnd_id : forall q, f32 q -> rnd q = q.
  Variable G : Type.      (* (crs, transform) *)

  (* FILES = PRODUCTS, VALUE FOR VALUE.  For every pair of product datasets -- any size, any
     number of indicators, NaN anywhere in the float arrays, flags below 4096 (C04), float
     samples representable in float32 -- the model of save_results run on the regenerated call
     table raises nothing and writes exactly: <side>_disparity.tif (float32, one band) and
     <side>_validity_mask.tif (uint16, one band) equal sample for sample to the arrays;
     <side>_confidence_measure.tif iff the dataset has the variable, with as many bands as
     indicators, band k described by indicator k and equal to plane k of the cube; each with
     the georeferencing of its dataset; the right_* files iff right products exist; no path
     twice, nothing else. *)
  Theorem C19_files_iff_products : forall left right,
    product_ok G f32 left -> right_ok f32 G right ->
    exists fs, run_calls rnd G otd left right save_calls = Some fs /\ saved_ok G left right fs.
  Proof.
    intros left right. exact (save_results_meets_spec rnd f32 rnd_id G save_calls otd left right (proj1 C19_plan_wf)).
  Qed.

  (* DTYPE CASTS.  uint16: exact on every flag word below 4096 (the bound C04 proves; wrap-around
     at 65536 is never reached).  float32: NaN stays NaN, representable values are unchanged. *)
  Theorem C19_casts_exact : forall p,
    (mask_px_ok p -> cast rnd U16 p = p) /\ (float_px_ok f32 p -> cast rnd F32 p = p).
  Proof. intro p. split; [apply cast_mask_exact|apply (cast_float_exact rnd f32 rnd_id)]. Qed.

  (* BAND BOOKKEEPING of write_data_array on a cube with n indicators: n bands, descriptions =
     the indicator names in order, band k (1-based k+1) at (r, c) = cube[r][c][k]. *)
  Theorem C19_band_bookkeeping : forall path names cube g,
    cube_wf names cube -> all3 (float_px_ok f32) cube ->
    conf_ok G (write_data_array rnd G (A3 (List.length names) cube) path F32 (Some names) g) names cube g.
  Proof. exact (conf_written rnd f32 rnd_id G). Qed.

  (* RIGHT FILES IFF VALIDATION.  [products has_validation] = what the run leaves in
     machine.right_disparity.  Hypotheses (C08_no_validation_right_empty; disparity_run fills
     the right dataset when run_prepare saw a validation step, and C01: every accepted pipeline
     has a disparity step before validation): right products exist iff the pipeline has a
     validation step.  Then some right_* file is written iff the pipeline has one. *)
  Variable right_products : bool -> option (product G).
  Hypothesis no_validation_right_empty : right_products false = None.
  Hypothesis validation_right_computed : right_products true <> None.

  Theorem C19_right_files_iff_validation : forall has_validation left fs,
    saved_ok G left (right_products has_validation) fs ->
    ((exists f, In f fs /\ (f_path f = doc_path SRight "disparity" \/ f_path f = doc_path SRight "validity_mask"
                            \/ f_path f = doc_path SRight "confidence_measure"))
     <-> has_validation = true).
  Proof.
    intros hv left fs S. rewrite (right_files_iff_right_products G left _ fs S).
    destruct hv; split; intro H; try reflexivity; try discriminate.
    - exact validation_right_computed.
    - exfalso. apply H. exact no_validation_right_empty.
  Qed.
End Files.

(* Non-vacuity: a 1x2 product with a NaN, two indicators and right products. *)
Example C19_files_example :
  let l := mkProduct [[PF None; PF (Some (3 # 2))]] [[PI 1; PI 0]]
                     (Some (["a"; "b"]%string, [[[PF (Some 1%Q); PF None]; [PF (Some 2%Q); PF (Some 3%Q)]]])) 0%Z in
  let r := mkProduct [[PF (Some (-1)%Q); PF None]] [[PI 256; PI 3]] None 1%Z in
  match run_calls (fun q => q) Z otd l (Some r) save_calls with
  | Some fs => map (@f_path Z) fs =
      ["./left_disparity.tif"; "./left_confidence_measure.tif"; "./left_validity_mask.tif";
       "./right_disparity.tif"; "./right_validity_mask.tif"]%string
      /\ map (@f_bands Z) (filter (fun f => String.eqb (f_path f) "./left_confidence_measure.tif") fs)
         = [[[[PF (Some 1%Q); PF (Some 2%Q)]]; [[PF None; PF (Some 3%Q)]]]]
  | None => False
  end.
Proof. vm_compute. split; reflexivity. Qed.

Print Assumptions C19_plan_wf.
Print Assumptions C19_files_iff_products.
Print Assumptions C19_casts_exact.
Print Assumptions C19_band_bookkeeping.
Print Assumptions C19_right_files_iff_validation.
