#!/bin/bash
# (Re)generate the Makefile from the .v files present and build everything (full .vo build).
cd "$(dirname "$0")"
{ cat _CoqProject.base; find Lib Spec Model Gen Proofs Props Extract -name '*.v' | sort; } > _CoqProject
coq_makefile -f _CoqProject -o Makefile > /dev/null
exec make -j"${JOBS:-16}" "$@"
