(* C17 -- the two "if and only if" sentences of the property, written by hand from the
   property text and docs/source/userguide/input.rst (never from the code).

   Only the VOCABULARY comes from the models: the record that describes a dataset
   (Model/DatasetCheck.v), JSON values (Model/Json.v) and the description of a raster file
   (Model/InputCheck.v: width, height, band count, "some pixel has band 1 > band 2"). *)
From Coq Require Import ZArith QArith List Bool String.
From Pandora Require Import Model.Json Model.DatasetCheck Model.InputCheck.
Import ListNotations.
Open Scope Z_scope.

(* ====================================================================== datasets *)

(* "the five mandatory attributes" *)
Definition five_attributes : list string :=
  ["no_data_img"; "valid_pixels"; "no_data_mask"; "crs"; "transform"]%string.

(* "an image that is not entirely NaN" *)
Definition has_a_number (im : image) : Prop := exists q, In (Some q) (im_cells im).

(* "on the image's row/column grid": same number of rows and of columns (the last two axes) *)
Definition rows_cols (s : shape) : shape := skipn (List.length s - 2) s.
Definition on_grid (im : image) (s : shape) : Prop := rows_cols s = rows_cols (im_shape im).

(* "min <= max".  strict = true: both bounds are numbers and min <= max;
   strict = false: a NaN bound constrains nothing *)
Definition bounds_ordered (strict : bool) (lo hi : cell) : Prop :=
  match lo, hi with
  | Some x, Some y => (x <= y)%Q
  | _, _ => if strict then False else True
  end.

(* "a disparity variable with min and max bands and min <= max everywhere" *)
Definition wf_disparity (strict : bool) (d : disparity) : Prop :=
  d_has_coord d = true /\
  exists imin imax,
    nth_error (d_labels d) imin = Some LMin /\ nth_error (d_labels d) imax = Some LMax /\
    forall px, In px (d_pixels d) -> bounds_ordered strict (nth imin px None) (nth imax px None).

Definition wf_dataset (strict : bool) (ds : dataset) : Prop :=
  exists im, ds_im ds = Some im /\
    has_a_number im /\
    (forall bands, ds_band_im ds = Some bands -> forall b, In b bands -> b = true) /\
    (forall d, ds_disp ds = Some d -> wf_disparity strict d /\ on_grid im (d_shape d)) /\
    (forall name s, In (name, s) (ds_vars ds) -> on_grid im s) /\
    (forall a, In a five_attributes -> In a (ds_attrs ds)).

(* "... (mandatory on the left) ..., and both images the same size" *)
Definition wf_pair (strict : bool) (l r : dataset) : Prop :=
  wf_dataset strict l /\ wf_dataset strict r /\
  ds_disp l <> None /\
  (forall il ir, ds_im l = Some il -> ds_im r = Some ir -> rows_cols (im_shape il) = rows_cols (im_shape ir)).

(* the disparity bounds of a dataset are numbers *)
Definition disparity_nan_free (ds : dataset) : Prop :=
  forall d px c, ds_disp ds = Some d -> In px (d_pixels d) -> In c px -> c <> None.
(* every pixel carries one value per band *)
Definition disparity_rectangular (ds : dataset) : Prop :=
  forall d px, ds_disp ds = Some d -> In px (d_pixels d) -> List.length px = List.length (d_labels d).
(* band labels are pairwise distinct (an xarray index used with .sel) *)
Definition labels_distinct (ds : dataset) : Prop :=
  forall d, ds_disp ds = Some d -> NoDup (d_labels d).

(* ====================================================================== input section *)
Open Scope string_scope.

Section Documented.
  Variable fs : string -> option finfo.

  (* the dictionary has exactly these keys *)
  Definition keys_exactly (d : dict) (ks : list string) : bool :=
    forallb (fun k => has_key k d) ks && forallb (fun k => mem_str k ks) (keys d).

  Definition same_size (a b : finfo) : bool := (Z.eqb (f_w a) (f_w b)) && (Z.eqb (f_h a) (f_h b)).

  (* "integer or NaN nodata" *)
  Definition doc_nodata (v : jv) : bool :=
    match v with JInt _ | JNan => true | _ => false end.

  (* "optional readable mask/classif/segm of the image size" *)
  Definition doc_optional (img : finfo) (v : jv) : bool :=
    match v with
    | JNull => true
    | JStr p => match fs p with Some f => same_size f img | None => false end
    | _ => false
    end.

  (* "a 2-band grid of the image size" (with min <= max everywhere) *)
  Definition doc_grid (img : finfo) (v : jv) : bool :=
    match v with
    | JStr p =>
      match fs p with
      | Some g => (Z.eqb (f_count g) 2) && same_size g img && negb (f_gt g)
      | None => false
      end
    | _ => false
    end.

  (* "left disparity [min,max] with min <= max" *)
  Definition doc_interval (v : jv) : bool :=
    match v with
    | JList [JInt lo; JInt hi] => Z.leb lo hi
    | _ => false
    end.

  (* the twelve values of a completed input section *)
  Definition doc_values (limg lnodata lmask lclassif lsegm ldisp
                         rimg rnodata rmask rclassif rsegm rdisp : jv) : bool :=
    match limg, rimg with
    | JStr pl, JStr pr =>
      match fs pl, fs pr with
      | Some fl, Some fr =>                                   (* readable image paths *)
        same_size fl fr
        && doc_nodata lnodata && doc_nodata rnodata
        && doc_optional fl lmask && doc_optional fl lclassif && doc_optional fl lsegm
        && doc_optional fr rmask && doc_optional fr rclassif && doc_optional fr rsegm
        && ((doc_interval ldisp && match rdisp with JNull => true | _ => false end)
            || (doc_grid fl ldisp
                && match rdisp with JNull => true | _ => doc_grid fr rdisp end))
      | _, _ => false
      end
    | _, _ => false
    end.

  Definition side_keys : list string := ["img"; "nodata"; "mask"; "classif"; "segm"; "disp"].

  Definition jget (v : jv) (k : string) : option jv :=
    match v with JDict d => lookup k d | _ => None end.

  (* a completed configuration {"input": {"left": {...}, "right": {...}}} is a documented form *)
  Definition documented_b (cfg : jv) : bool :=
    match cfg with
    | JDict top =>
      keys_exactly top ["input"] &&
      match lookup "input" top with
      | Some (JDict inp) =>
        keys_exactly inp ["left"; "right"] &&
        match lookup "left" inp, lookup "right" inp with
        | Some (JDict l), Some (JDict r) =>
          keys_exactly l side_keys && keys_exactly r side_keys &&
          match lookup "img" l, lookup "nodata" l, lookup "mask" l, lookup "classif" l,
                lookup "segm" l, lookup "disp" l,
                lookup "img" r, lookup "nodata" r, lookup "mask" r, lookup "classif" r,
                lookup "segm" r, lookup "disp" r with
          | Some a1, Some a2, Some a3, Some a4, Some a5, Some a6,
            Some b1, Some b2, Some b3, Some b4, Some b5, Some b6 =>
            doc_values a1 a2 a3 a4 a5 a6 b1 b2 b3 b4 b5 b6
          | _, _, _, _, _, _, _, _, _, _, _, _ => false
          end
        | _, _ => false
        end
      | _ => false
      end
    | _ => false
    end.
End Documented.

(* documented defaults of the optional keys (input.rst: nodata -9999, mask/classif/segm none,
   right disp none); left disp and both img are required *)
Definition documented_default (side key : string) : option jv :=
  if String.eqb key "nodata" then Some (JInt (-9999))
  else if String.eqb key "mask" || String.eqb key "classif" || String.eqb key "segm" then Some JNull
  else if String.eqb side "right" && String.eqb key "disp" then Some JNull
  else None.

(* the user's value as the completed section keeps it: the strings "NaN" / "inf" / "-inf" read
   as numbers (input.rst), also inside a dictionary value, at any depth below dictionaries;
   nothing else changes (keys, order, lists) *)
Fixpoint kept (v : jv) : jv :=
  match v with
  | JDict d =>
    JDict ((fix go (d : dict) : dict :=
              match d with [] => [] | (k, x) :: r => (k, kept x) :: go r end) d)
  | _ => conv_special v
  end.

(* a Python value: every dictionary has each key once (at any depth below dictionaries) *)
Fixpoint py_keys (v : jv) : Prop :=
  match v with
  | JDict d =>
    NoDup (keys d) /\
    (fix all (d : dict) : Prop := match d with [] => True | (_, x) :: r => py_keys x /\ all r end) d
  | _ => True
  end.

(* JSON booleans are outside the property's vocabulary ("integer"): the statements about the
   interval form exclude them explicitly *)
Definition no_bool (v : jv) : bool :=
  match v with
  | JList l => forallb (fun x => match x with JBool _ => false | _ => true end) l
  | _ => true
  end.
