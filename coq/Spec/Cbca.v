(* Specification of the cross-based cost aggregation, written from the property text C11 and
   the user guide (docs/source/userguide/step_by_step/aggregation.rst), not from the code:

     "After cbca aggregation the cost of a pixel at a disparity is the sum of the computable
      input costs over the pixel's combined cross-based support region at that disparity
      - vertical arm, then horizontal arms of each arm pixel, each arm the shorter of the
      left-image arm and the right-image arm at the corresponding column, arms stopping at
      cbca_distance, at an intensity jump >= cbca_intensity (on the 3x3-median-filtered image)
      or at a masked pixel, with a one-pixel minimum - divided by the number of pixels of that
      region.  Costs that were NaN stay NaN, no other cost becomes NaN, and each disparity
      plane is aggregated independently of the others."

   Nothing here mentions running sums, sentinel rows or columns, loops with break or tables:
   arms are longest runs along a ray, the region is a list of pixels, the aggregate is a sum
   over that list divided by its length. *)
From Coq Require Import ZArith QArith Qabs Qround List Bool.
Import ListNotations.
Open Scope Z_scope.

(* A filtered image as the property sees it: a size and, for each pixel, its value or
   [None] when the pixel is masked (invalid / no data). *)
Record fimg := mkF { f_nr : Z; f_nc : Z; f_pix : Z -> Z -> option Q }.

Definition inside (I : fimg) (r c : Z) : bool :=
  (0 <=? r) && (r <? f_nr I) && (0 <=? c) && (c <? f_nc I).
(* usable pixel: inside the image and not masked *)
Definition px (I : fimg) (r c : Z) : option Q := if inside I r c then f_pix I r c else None.

Inductive dir := DLeft | DRight | DUp | DDown.
Definition drow (d : dir) : Z := match d with DUp => -1 | DDown => 1 | _ => 0 end.
Definition dcol (d : dir) : Z := match d with DLeft => -1 | DRight => 1 | _ => 0 end.

(* the pixels met when leaving (r, c) in direction d: j = 1 is the neighbour *)
Definition ray (I : fimg) (r c : Z) (d : dir) (j : Z) : option Q :=
  px I (r + j * drow d) (c + j * dcol d).

(* n consecutive integers from a *)
Fixpoint span (a : Z) (n : nat) : list Z :=
  match n with O => [] | S k => a :: span (a + 1) k end.
Fixpoint take_while {A : Type} (f : A -> bool) (l : list A) : list A :=
  match l with
  | [] => []
  | x :: t => if f x then x :: take_while f t else []
  end.

(* the pixel at distance j can be taken by an arm leaving a pixel of value v: it exists, is
   not masked and its intensity differs from v by less than cbca_intensity *)
Definition takes (get : Z -> option Q) (inten v : Q) (j : Z) : bool :=
  match get j with
  | Some w => negb (Qle_bool inten (Qabs (v - w)))
  | None => false
  end.

(* length of an arm along a ray: the longest run of takeable pixels at distances
   1 .. cbca_distance - 1 (the arm stops AT cbca_distance, AT the jump, AT the masked pixel:
   the stopping pixel is not part of the arm); one pixel minimum when the neighbour exists
   and is not masked *)
Definition ray_arm (get : Z -> option Q) (dist : Z) (inten v : Q) : Z :=
  let run := Z.of_nat (length (take_while (takes get inten v) (span 1 (Z.to_nat (dist - 1))))) in
  if 0 <? run then run
  else match get 1 with Some _ => 1 | None => 0 end.

(* the four arms of a pixel; a masked pixel has no arm *)
Definition spec_arm (I : fimg) (dist : Z) (inten : Q) (d : dir) (r c : Z) : Z :=
  match px I r c with
  | None => 0
  | Some v => ray_arm (ray I r c d) dist inten v
  end.

Definition sumQ (l : list Q) : Q := fold_right Qplus 0%Q l.
Definition cost_or_0 (o : option Q) : Q := match o with Some q => q | None => 0%Q end.

Section Region.
  (* arm lengths in the left image and in the right image of the plane; the correspondent
     of column c is column c + shift of the right image *)
  Variables (armL armR : dir -> Z -> Z -> Z) (shift : Z).

  (* each arm is the shorter of the left-image arm and the right-image arm at the
     corresponding column *)
  Definition carm (d : dir) (r c : Z) : Z := Z.min (armL d r c) (armR d r (c + shift)).

  (* horizontal arms of the arm pixel (r', c) *)
  Definition hspan (r' c : Z) : list (Z * Z) :=
    map (fun c' => (r', c'))
        (span (c - carm DLeft r' c) (Z.to_nat (carm DLeft r' c + carm DRight r' c + 1))).
  (* vertical arm of (r, c), then the horizontal arms of each arm pixel *)
  Definition region (r c : Z) : list (Z * Z) :=
    flat_map (fun r' => hspan r' c)
             (span (r - carm DUp r c) (Z.to_nat (carm DUp r c + carm DDown r c + 1))).

  Definition region_mean (cost : Z -> Z -> option Q) (r c : Z) : Q :=
    sumQ (map (fun p => cost_or_0 (cost (fst p) (snd p))) (region r c))
    / inject_Z (Z.of_nat (length (region r c))).
End Region.

(* the plane of disparity d = n + s / subpix uses the s-th shifted right image (s = 0: the
   right image itself), the correspondent of column c is its column c + n *)
Definition plane_shift (d : Q) : Z := Qfloor d.
Definition plane_image (subpix : Z) (d : Q) : Z :=
  Qfloor ((d - inject_Z (Qfloor d)) * inject_Z subpix).

(* the aggregated cost of pixel (r, c) in a plane: NaN stays NaN; a computable cost becomes
   the mean over the combined support region (non-computable costs of the region count for
   0 in the sum and for 1 in the number of pixels) *)
Definition agg_spec (IL IR : fimg) (dist : Z) (inten : Q) (shift : Z)
           (cost : Z -> Z -> option Q) (r c : Z) : option Q :=
  match cost r c with
  | None => None
  | Some _ => Some (Qred (region_mean (spec_arm IL dist inten) (spec_arm IR dist inten) shift cost r c))
  end.

(* Declarative reading of [ray_arm] (proved equivalent in Proofs/CbcaP.v): k is the arm
   length iff every pixel at distance 1..k is takeable and closer than dist, and the run
   cannot be extended; or no pixel is takeable and k says whether the neighbour is usable *)
Definition is_longest_run (get : Z -> option Q) (dist : Z) (inten v : Q) (k : Z) : Prop :=
  0 <= k /\ (forall j, 1 <= j <= k -> j < dist /\ takes get inten v j = true)
  /\ (k + 1 < dist -> takes get inten v (k + 1) = false).
Definition is_arm (get : Z -> option Q) (dist : Z) (inten v : Q) (k : Z) : Prop :=
  exists run, is_longest_run get dist inten v run /\
    ((1 <= run /\ k = run) \/
     (run = 0 /\ k = match get 1 with Some _ => 1 | None => 0 end)).
