(* C02 -- direct statement of the property, written from the property text and the user guide
   (matching_cost.rst), not from the code: which costs are computable, and the textbook value of
   each measure on the two windows.

   A sampled disparity d (integer or multiple of 1/subpix) is given as the integer D with
   d = D / s (s = subpix).  The left window is the w x w window centred on (r, c); the right
   window is centred on row r, column c + d; for a fractional d the right image is linearly
   interpolated between the columns floor and floor + 1. *)
From Coq Require Import ZArith List Bool QArith Qabs.
Import ListNotations.
Open Scope Z_scope.

Section Spec.
  Variables (ny nx : Z)                    (* image size: rows, columns *)
            (w s : Z)                      (* window size (odd), subpix *)
            (L R : Z -> Z -> Z)            (* left / right image (selected band), row col *)
            (mskL mskR : option (Z -> Z -> Z))   (* masks, if any *)
            (vp nd : Z)                    (* mask conventions: valid pixel value, no-data value *)
            (gmin gmax : Z -> Z -> Z).     (* per-pixel disparity interval [gmin, gmax] (integers) *)

  Definition half : Z := (w - 1) / 2.
  Fixpoint zseq (lo : Z) (n : nat) : list Z := match n with O => [] | S k => lo :: zseq (lo + 1) k end.
  (* offsets of the window pixels around the centre: -half .. half *)
  Definition win : list Z := zseq (- half) (Z.to_nat w).

  Definition dfloor (D : Z) : Z := D / s.              (* floor d *)
  Definition dceil (D : Z) : Z := - ((- D) / s).       (* ceil d *)
  Definition dfrac (D : Z) : Q := (D mod s) # (Z.to_pos s).   (* d - floor d *)

  Definition in_image (r c : Z) : bool := (0 <=? r) && (r <? ny) && (0 <=? c) && (c <? nx).
  Definition is_nodata (m : option (Z -> Z -> Z)) (r c : Z) : bool :=
    match m with None => false | Some m => m r c =? nd end.
  (* masked invalid: neither the valid value nor the no-data value *)
  Definition is_invalid (m : option (Z -> Z -> Z)) (r c : Z) : bool :=
    match m with None => false | Some m => negb (m r c =? vp) && negb (m r c =? nd) end.

  Definition forall_win (p : Z -> Z -> bool) : bool :=
    forallb (fun a => forallb (fun b => p a b) win) win.

  (* the left window stays in the image and holds no no-data pixel *)
  Definition left_window_ok (r c : Z) : bool :=
    forall_win (fun a b => in_image (r + a) (c + b) && negb (is_nodata mskL (r + a) (c + b))).
  (* every pixel the right window is made of (columns floor d and ceil d around each window pixel)
     is in the image and is not no-data *)
  Definition right_window_ok (r c D : Z) : bool :=
    forall_win (fun a b =>
      in_image (r + a) (c + b + dfloor D) && negb (is_nodata mskR (r + a) (c + b + dfloor D)) &&
      in_image (r + a) (c + b + dceil D) && negb (is_nodata mskR (r + a) (c + b + dceil D))).
  (* neither centre is masked invalid (the right centre is made of the columns floor d and ceil d) *)
  Definition centres_ok (r c D : Z) : bool :=
    negb (is_invalid mskL r c) &&
    negb (is_invalid mskR r (c + dfloor D)) && negb (is_invalid mskR r (c + dceil D)).
  (* gmin <= d <= gmax *)
  Definition in_interval (r c D : Z) : bool := (gmin r c * s <=? D) && (D <=? gmax r c * s).

  Definition computable (r c D : Z) : bool :=
    left_window_ok r c && right_window_ok r c D && centres_ok r c D && in_interval r c D.

  (* right image at row r, column c + d *)
  Definition rval (r c D : Z) : Q :=
    let x0 := c + dfloor D in
    if D mod s =? 0 then inject_Z (R r x0)
    else ((1 - dfrac D) * inject_Z (R r x0) + dfrac D * inject_Z (R r (x0 + 1)))%Q.
  Definition lval (r c : Z) : Q := inject_Z (L r c).

  Definition qsum (l : list Q) : Q := fold_right Qplus 0%Q l.
  (* sum over the window of a function of the corresponding left and right values *)
  Definition sum_win (f : Q -> Q -> Q) (r c D : Z) : Q :=
    qsum (map (fun a => qsum (map (fun b => f (lval (r + a) (c + b)) (rval (r + a) (c + b) D)) win)) win).

  Definition sad_spec (r c D : Z) : Q := sum_win (fun x y => Qabs (x - y)%Q) r c D.
  Definition ssd_spec (r c D : Z) : Q := sum_win (fun x y => ((x - y) * (x - y))%Q) r c D.

  (* census: bit of a window pixel = "greater than the centre of its window"; cost = number of window
     pixels whose bits differ between the two windows (Hamming distance of the two bit strings) *)
  Definition qgtb (x y : Q) : bool := negb (Qle_bool x y).
  Definition census_spec (r c D : Z) : Q :=
    qsum (map (fun a => qsum (map (fun b =>
            if Bool.eqb (qgtb (lval (r + a) (c + b)) (lval r c))
                        (qgtb (rval (r + a) (c + b) D) (rval r c D))
            then 0%Q else 1%Q) win)) win).

  (* zncc: covariance and variances of the two windows; the cost is cov / sqrt(varL * varR), and 0 when
     a variance is 0.  Stated without square root by [zncc_is]. *)
  Definition nwin : Q := inject_Z (w * w).
  Definition mean_win (f : Q -> Q -> Q) (r c D : Z) : Q := (sum_win f r c D / nwin)%Q.
  Definition zncc_cov (r c D : Z) : Q :=
    (mean_win (fun x y => x * y) r c D - mean_win (fun x _ => x) r c D * mean_win (fun _ y => y) r c D)%Q.
  Definition zncc_varl (r c D : Z) : Q :=
    (mean_win (fun x _ => x * x) r c D - mean_win (fun x _ => x) r c D * mean_win (fun x _ => x) r c D)%Q.
  Definition zncc_varr (r c D : Z) : Q :=
    (mean_win (fun _ y => y * y) r c D - mean_win (fun _ y => y) r c D * mean_win (fun _ y => y) r c D)%Q.
End Spec.

(* v = cov / sqrt(vl * vr) (0 when a variance is 0), without square root *)
Definition zncc_is (v cov vl vr : Q) : Prop :=
  if Qle_bool (vl * vr) 0 then (v == 0)%Q
  else (v * v * (vl * vr) == cov * cov /\ 0 <= v * cov)%Q.
