(* C16, the property sentence, written by hand from the property text and the user guide
   (docs/source/userguide/input.rst: "Value equal to 0 for valid pixel, value not equal to 0
   for invalid pixel"; as_an_api.rst: valid_pixels = 0, no_data_mask = 1), pixel by pixel.
   Nothing here looks at how img_tools.py computes.  Only the data types of Model/Dataset.v
   (arrays, samples, inputs, dataset) are shared. *)
From Coq Require Import ZArith QArith List Bool.
From Pandora Require Import Model.Dataset.
Import ListNotations.
Open Scope Z_scope.

(* ------------------------------------------------------------------ ROI *)

(* column (or row) [c] of an axis of [n] pixels is read by a ROI [first, last] with margins
   [mlo] (left/up) and [mhi] (right/down): it is in [first - mlo, last + mhi] and in the image *)
Definition in_roi (first last mlo mhi n c : Z) : Prop :=
  first - mlo <= c <= last + mhi /\ 0 <= c < n.

(* the ROI (with its margins) contains no pixel of the image *)
Definition roi_empty (cf cl rf rl m0 m1 m2 m3 W H : Z) : Prop :=
  ~ exists c r, in_roi cf cl m0 m2 W c /\ in_roi rf rl m1 m3 H r.

(* [roi] is the crop of [full] to the window of origin (ro, co) and size h x w *)
Definition crop_of {A} (co ro w h : Z) (full roi : arr A) : Prop :=
  nr roi = h /\ nc roi = w /\
  forall r c, 0 <= r < h -> 0 <= c < w -> px roi r c = px full (ro + r) (co + c).

Definition opt_rel {A B} (R : A -> B -> Prop) (a : option A) (b : option B) : Prop :=
  match a, b with
  | None, None => True
  | Some x, Some y => R x y
  | _, _ => False
  end.

(* ------------------------------------------------------------------ samples and mask *)

(* "an image sample equals the nodata value (NaN or +-inf included)" *)
Definition equals_nodata (nd s : sample) : bool :=
  match nd, s with
  | SNaN, SNaN => true
  | SInf a, SInf b => Bool.eqb a b
  | SFin x, SFin y => Qeq_bool x y
  | _, _ => false
  end.

Definition nodata_is_nan_or_inf (nd : sample) : bool :=
  match nd with SFin _ => false | _ => true end.

(* "the image samples unchanged ..., such samples being replaced by -9999" *)
Definition spec_sample (nd s : sample) : sample :=
  if nodata_is_nan_or_inf nd && equals_nodata nd s then SFin (-9999 # 1) else s.

Inductive pclass := PValid | PNoData | PInvalid.

(* "a pixel is no-data exactly when an image sample equals the nodata value, invalid exactly
   when the input mask is non-zero there and it is not no-data, and valid otherwise";
   [samples] = the samples of all bands at the pixel, [maskv] = the input mask there *)
Definition spec_class (nd : sample) (samples : list sample) (maskv : option Z) : pclass :=
  if existsb (equals_nodata nd) samples then PNoData
  else match maskv with
       | Some v => if v =? 0 then PValid else PInvalid
       | None => PValid
       end.

(* reading of the msk variable: valid_pixels = 0, no_data_mask = 1, anything else invalid;
   no msk variable = every pixel valid *)
Definition class_of_msk (v : Z) : pclass :=
  if v =? 0 then PValid else if v =? 1 then PNoData else PInvalid.
Definition class_at (m : option (arr Z)) (r c : Z) : pclass :=
  match m with None => PValid | Some a => class_of_msk (px a r c) end.

(* the input whose nodata value is an infinity contains the infinity of the other sign at
   this sample (see the note in Props/C16.v: np.isinf does not look at the sign) *)
Definition opposite_inf (nd s : sample) : bool :=
  match nd, s with SInf a, SInf b => xorb a b | _, _ => false end.

Definition pclass_eqb (a b : pclass) : bool :=
  match a, b with
  | PValid, PValid | PNoData, PNoData | PInvalid, PInvalid => true
  | _, _ => false
  end.
