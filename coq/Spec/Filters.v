(* C10 -- the property sentence, written pixel by pixel, window by window.  No blocks, no
   strides, no sliding windows, no write-back order: only "which pixels may change" and
   "what a changed pixel becomes".

     A filter step never changes the validity mask (except bit 11 for median_for_intervals
     regularisation), never changes the disparity of an invalid pixel, and leaves pixels
     closer to the image edge than the filter radius untouched.  Every other valid pixel
     becomes the median of the valid disparities in its filter_size window (median), or the
     spatial-and-range Gaussian weighted mean of the valid disparities in its window
     (bilateral), hence always lies between the smallest and largest valid disparity of the
     window. [...] median_for_intervals applies the same median to the interval-bound bands
     instead of the disparity.

   A map is a total function (row, col) -> option Q; None is NaN.  Definitions only. *)
From Coq Require Import ZArith QArith List Bool Sorting Permutation.
Import ListNotations.
Open Scope Z_scope.

Definition dmap : Type := Z -> Z -> option Q.
Definition vmask : Type := Z -> Z -> Z.

(* ------------------------------------------------------------------ validity *)

(* a pixel is invalid when its mask carries one of the bits of PANDORA_MSK_PIXEL_INVALID [inv] *)
Definition px_invalid (inv m : Z) : Prop := Z.land m inv <> 0.

(* the valid disparity of a pixel, if it has one: its flags are valid and its disparity is a
   number (a NaN disparity is never an input of an average, and is never replaced) *)
Definition valid_disp (inv : Z) (disp : dmap) (mask : vmask) : dmap :=
  fun r c => if Z.eq_dec (Z.land (mask r c) inv) 0 then disp r c else None.

(* ------------------------------------------------------------------ windows *)

(* the integers a, a+1, ..., a+n-1 *)
Definition span (a n : Z) : list Z := map (fun k => a + Z.of_nat k) (seq 0 (Z.to_nat n)).

(* the pixels (r + dr, c + dc), -lo <= dr, dc <= hi, row by row.  A filter of odd size
   2*rad+1 has lo = hi = rad. *)
Definition win_px (lo hi r c : Z) : list (Z * Z) :=
  flat_map (fun dr => map (fun dc => (r + dr, c + dc)) (span (- lo) (lo + hi + 1))) (span (- lo) (lo + hi + 1)).

(* the window of (r, c) lies in the ny x nx image.  For lo = hi = rad this is "(r, c) is not
   closer to an image edge than the radius": rad <= r <= ny - 1 - rad, rad <= c <= nx - 1 - rad *)
Definition fits (lo hi ny nx r c : Z) : Prop :=
  lo <= r /\ r + hi < ny /\ lo <= c /\ c + hi < nx.

(* the numbers among a list of possibly-NaN values *)
Definition somes (l : list (option Q)) : list Q :=
  flat_map (fun o : option Q => match o with Some q => [q] | None => [] end) l.

(* the valid values of the window of (r, c) *)
Definition win_vals (val : dmap) (lo hi r c : Z) : list Q :=
  somes (map (fun p : Z * Z => val (fst p) (snd p)) (win_px lo hi r c)).

(* ------------------------------------------------------------------ median *)

(* middle of a sorted list: the middle value, or the mean of the two middle values *)
Definition mid (s : list Q) : Q :=
  let n := length s in
  if Nat.odd n then nth (n / 2) s 0%Q
  else ((nth (n / 2 - 1) s 0 + nth (n / 2) s 0) / 2)%Q.

(* m is the median of the (non-empty) list l: sort l, take the middle *)
Definition is_median (m : Q) (l : list Q) : Prop :=
  exists s, Permutation s l /\ StronglySorted Qle s /\ s <> [] /\ (m == mid s)%Q.

(* m lies between the smallest and the largest value of l (both are attained) *)
Definition between_min_max (m : Q) (l : list Q) : Prop :=
  exists a b, In a l /\ In b l /\ (forall x, In x l -> (a <= x <= b)%Q) /\ (a <= m <= b)%Q.

(* The median filter of odd size w = 2*rad+1 on a map [val] of valid values (None = not valid),
   result [out], image ny x nx; per pixel:
     - a pixel without valid value keeps none;
     - a pixel closer to an edge than rad is untouched;
     - every other valid pixel becomes the median of the valid values of its window. *)
Definition median_map_spec (rad ny nx : Z) (val out : dmap) : Prop :=
  forall r c,
    (val r c = None -> out r c = None) /\
    (~ fits rad rad ny nx r c -> out r c = val r c) /\
    (fits rad rad ny nx r c -> forall v, val r c = Some v ->
       exists m, out r c = Some m /\ is_median m (win_vals val rad rad r c)).

(* The median FILTER STEP on (disparity map, validity mask): mask unchanged, invalid pixels
   unchanged, border pixels unchanged, the others as above with val = the valid disparities. *)
Definition median_step_spec (inv rad ny nx : Z) (disp : dmap) (mask : vmask) (disp' : dmap) (mask' : vmask) : Prop :=
  let val := valid_disp inv disp mask in
  (forall r c, mask' r c = mask r c) /\
  (forall r c, val r c = None -> disp' r c = disp r c) /\
  (forall r c, ~ fits rad rad ny nx r c -> disp' r c = disp r c) /\
  (forall r c, fits rad rad ny nx r c -> forall v, val r c = Some v ->
     exists m, disp' r c = Some m /\ is_median m (win_vals val rad rad r c)).

(* ------------------------------------------------------------------ bilateral *)

Definition sumq (l : list Q) : Q := fold_right Qplus 0%Q l.

(* m is the weighted mean of the (weight, value) pairs: the weights sum to a positive number
   and  m * sum w = sum (w * v) *)
Definition is_wmean (m : Q) (terms : list (Q * Q)) : Prop :=
  (0 < sumq (map fst terms))%Q /\
  (m * sumq (map fst terms) == sumq (map (fun t : Q * Q => fst t * snd t) terms))%Q.

(* the (weight, value) pairs of the window of (r, c), whose own valid value is cv:
   a valid neighbour (r', c') of value v weighs  spatial(r' - r, c' - c) * range(v - cv).
   [sp dr dc] is the spatial kernel at displacement (dr, dc), [rg x] the range kernel. *)
Definition win_terms (sp : Z -> Z -> Q) (rg : Q -> Q) (val : dmap) (lo hi r c : Z) (cv : Q) : list (Q * Q) :=
  flat_map (fun p : Z * Z =>
              match val (fst p) (snd p) with
              | None => []
              | Some v => [((sp (fst p - r)%Z (snd p - c)%Z * rg (v - cv))%Q, v)]
              end) (win_px lo hi r c).

(* weights are never negative and a pixel weighs on itself (true of every strictly positive
   kernel; also true of Gaussian kernels whose far tails underflow to 0 in floating point) *)
Definition kernel_ok (sp : Z -> Z -> Q) (rg : Q -> Q) (lo hi : Z) : Prop :=
  (forall dr dc, - lo <= dr <= hi -> - lo <= dc <= hi -> (0 <= sp dr dc)%Q) /\
  (forall x, (0 <= rg x)%Q) /\
  (0 < sp 0%Z 0%Z)%Q /\ (forall x, (x == 0)%Q -> (0 < rg x)%Q).

Definition kernel_pos (sp : Z -> Z -> Q) (rg : Q -> Q) (lo hi : Z) : Prop :=
  (forall dr dc, - lo <= dr <= hi -> - lo <= dc <= hi -> (0 < sp dr dc)%Q) /\ (forall x, (0 < rg x)%Q).

(* The bilateral FILTER STEP with a window reaching lo pixels up/left and hi pixels down/right
   (lo = hi for an odd window width). *)
Definition bilateral_step_spec (inv lo hi ny nx : Z) (sp : Z -> Z -> Q) (rg : Q -> Q)
           (disp : dmap) (mask : vmask) (disp' : dmap) (mask' : vmask) : Prop :=
  let val := valid_disp inv disp mask in
  (forall r c, mask' r c = mask r c) /\
  (forall r c, val r c = None -> disp' r c = disp r c) /\
  (forall r c, ~ fits lo hi ny nx r c -> disp' r c = disp r c) /\
  (forall r c, fits lo hi ny nx r c -> forall cv, val r c = Some cv ->
     exists m, disp' r c = Some m /\ is_wmean m (win_terms sp rg val lo hi r c cv)).

(* ------------------------------------------------------------------ median_for_intervals *)

(* only bit 11 may differ, and it is never cleared *)
Definition only_bit11_raised (m m' : Z) : Prop :=
  (forall k, k <> 11 -> Z.testbit m' k = Z.testbit m k) /\
  (Z.testbit m 11 = true -> Z.testbit m' 11 = true).
