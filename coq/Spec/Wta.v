(* C03 -- what winner-takes-all must compute, pixel by pixel, written from the property
   text: "a disparity that is one of the sampled disparities, whose cost is the minimum
   (maximum for similarity measures) of the pixel's computable costs, ties going to the
   lowest disparity; pixels with no computable cost receive exactly invalid_disparity".
   Nothing here knows about blocks, substitution of NaN, or argmin scans. *)
From Coq Require Import ZArith QArith List Bool.
From Pandora Require Import Lib.Ext.
Import ListNotations.

(* index k is a winner of [costs]: its cost is computable (not NaN) and at least as good
   as every computable cost of the pixel *)
Definition winner (mx : bool) (costs : list cost) (k : nat) : bool :=
  match nth k costs None with
  | None => false
  | Some e => forallb (fun c => match c with None => true | Some e' => le_dir mx e e' end) costs
  end.

(* the least index among the winners (disparities are sampled in increasing order, so the
   least index is the lowest disparity); None when the pixel has no computable cost *)
Definition best (mx : bool) (costs : list cost) : option nat :=
  find (winner mx costs) (seq 0 (length costs)).

Definition wta_pixel (mx : bool) (disps : list Q) (invalid : option Q) (costs : list cost) : option Q :=
  match best mx costs with
  | Some k => Some (nth k disps 0%Q)
  | None => invalid
  end.

(* declarative reading, used to state the corollaries *)
Definition computable (costs : list cost) (j : nat) (e : ext) : Prop := nth_error costs j = Some (Some e).
Definition no_computable (costs : list cost) : Prop := forall j e, ~ computable costs j e.
