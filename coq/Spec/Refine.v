(* Specification of the sub-pixel refinement step (C06), written from the property text and from
   docs/source/userguide/step_by_step/refinement.rst -- never from the code.

   Three costs c0 = c(d-1), c1 = c(d), c2 = c(d+1) sit at abscissae -1, 0, +1 around the sample d.
   * V-fit: "estimating a symmetrical form V from 3 points", y = c(d+1) + (x-1)*p,
     y = c(d-1) + (x+1)*(-p), x = (c(d-1) - c(d+1)) / (2*p): the apex (x, y) of the symmetric V with
     slopes -p / +p that passes through the three points.
   * Quadratic: "estimating a parabola from 3 points", a = (c(d-1) - 2 c(d) + c(d+1)) / 2,
     b = (c(d+1) - c(d-1)) / 2, c = c(d), x = -b / 2a: the vertex of the parabola through the points.
   The optimum is a minimum for a cost (type_measure "min") and a maximum for a similarity ("max"). *)
From Coq Require Import ZArith QArith Qabs Qminmax Qround.
Open Scope Q_scope.

Inductive kind := Cost | Similarity.          (* type_measure: "min" | "max" *)

(* [a] is at least as good as [b] *)
Definition not_worse (k : kind) (a b : Q) : Prop :=
  match k with Cost => a <= b | Similarity => b <= a end.

(* the sample is an extremum (in the sense of the measure) of its two neighbours *)
Definition is_extremum (k : kind) (c0 c1 c2 : Q) : Prop := not_worse k c1 c0 /\ not_worse k c1 c2.

(* ---------------------------------------------------------------- V-fit *)

Definition V (p x y t : Q) : Q := y + p * Qabs (t - x).

(* (x, y) is the apex of a symmetric V through (-1,c0), (0,c1), (1,c2); the V opens upwards for a
   cost, downwards for a similarity; the apex lies between the two neighbours *)
Definition is_vfit_optimum (k : kind) (c0 c1 c2 x y : Q) : Prop :=
  exists p, match k with Cost => 0 < p | Similarity => p < 0 end
            /\ -(1) <= x <= 1
            /\ V p x y (-(1)) == c0 /\ V p x y 0 == c1 /\ V p x y 1 == c2.

(* closed forms (user guide): the slope is that of the steeper side *)
Definition vfit_slope (k : kind) (c0 c1 c2 : Q) : Q :=
  match k with Cost => Qmax c0 c2 - c1 | Similarity => Qmin c0 c2 - c1 end.
Definition vfit_x (k : kind) (c0 c1 c2 : Q) : Q := (c0 - c2) / (2 * vfit_slope k c0 c1 c2).
Definition vfit_y (k : kind) (c0 c1 c2 : Q) : Q :=
  match k with
  | Cost => c1 - Qabs (c0 - c2) * (1 # 2)
  | Similarity => c1 + Qabs (c0 - c2) * (1 # 2)
  end.

(* ---------------------------------------------------------------- parabola *)

Definition P (a b c t : Q) : Q := a * (t * t) + b * t + c.

(* (x, y) is the optimum of the parabola through (-1,c0), (0,c1), (1,c2) *)
Definition is_parabola_optimum (k : kind) (c0 c1 c2 x y : Q) : Prop :=
  exists a b c, P a b c (-(1)) == c0 /\ P a b c 0 == c1 /\ P a b c 1 == c2
                /\ y == P a b c x
                /\ forall t, not_worse k y (P a b c t).

Definition quad_a (c0 c1 c2 : Q) : Q := (c0 - 2 * c1 + c2) * (1 # 2).
Definition quad_b (c0 c2 : Q) : Q := (c2 - c0) * (1 # 2).
Definition quad_x (c0 c1 c2 : Q) : Q := - quad_b c0 c2 / (2 * quad_a c0 c1 c2).
Definition quad_y (c0 c1 c2 : Q) : Q :=
  c1 - quad_b c0 c2 * quad_b c0 c2 / (4 * quad_a c0 c1 c2).

(* ---------------------------------------------------------------- one pixel *)

(* The pixel's data as the property speaks of it: the disparity interval [dmin, dmax] sampled every
   1/s (s = subpix), the costs of the samples (NaN = None), the disparity received, the flags. *)

(* the cost of sample number i (0 = dmin, ...), None when NaN; no sample outside the interval *)
Definition cost_at (cv : list (option Q)) (i : Z) : option Q :=
  if (0 <=? i)%Z && (i <? Z.of_nat (length cv))%Z then List.nth (Z.to_nat i) cv None else None.

(* the pixel's sample: the one at, or just below, the disparity received *)
Definition sample_index (dmin : Q) (s : Z) (d : Q) : Z := Qfloor ((d - dmin) * inject_Z s).

(* "its sample sits on an end of the interval": no room for a whole sample on one side of the
   disparity.  For a disparity that is itself a sample this is d = dmin \/ d = dmax (lemma
   near_end_on_grid in Proofs/RefineP.v) *)
Definition near_end (dmin dmax : Q) (s : Z) (d : Q) : Prop :=
  (d - dmin) * inject_Z s < 1 \/ (dmax - d) * inject_Z s < 1.

(* the three reasons for which a valid pixel must be left where it is, with bit 3 raised *)
Definition must_stop (k : kind) (dmin dmax : Q) (s : Z) (cv : list (option Q)) (d : Q) (c1 : Q) : Prop :=
  near_end dmin dmax s d
  \/ cost_at cv (sample_index dmin s d - 1) = None \/ cost_at cv (sample_index dmin s d + 1) = None
  \/ exists c0 c2, cost_at cv (sample_index dmin s d - 1) = Some c0
                   /\ cost_at cv (sample_index dmin s d + 1) = Some c2 /\ ~ is_extremum k c0 c1 c2.

(* bit 3: "calculations stopped at the pixel step, sub-pixel interpolation did not succeed" *)
Definition bit3 : Z := 8.
(* all the flags but bit 3 *)
Definition other_bits (m : Z) : Z := Z.land m (Z.lnot bit3).
