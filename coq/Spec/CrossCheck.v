(* Spec of property C07, written from the property sentence and the user guide
   (docs/source/userguide/step_by_step/validation.rst), pixel by pixel.
   Nothing here mentions selections, scatter updates, +=, inf. *)
From Coq Require Import ZArith QArith Qround Qabs List Bool.
Import ListNotations.
Open Scope Z_scope.

(* "round": to the nearest integer, ties to the even one (np.rint is the anchor's choice) *)
Definition is_nearest_even (q : Q) (z : Z) : Prop :=
  (Qabs (q - inject_Z z) <= 1 # 2)%Q /\
  (Qabs (q - inject_Z z) == 1 # 2 -> Z.even z = true)%Q.

Definition round_he (q : Q) : Z :=
  let z := Qfloor (q + (1 # 2)) in
  if Qeq_bool (q + (1 # 2)) (inject_Z z) && Z.odd z then z - 1 else z.

(* "previously valid": none of the bits that mean invalid (0,1,6,7,8,9) is set *)
Definition INVALID_BITS : list Z := [0; 1; 6; 7; 8; 9].
Definition spec_valid (m : Z) : bool := forallb (fun b => negb (Z.testbit m b)) INVALID_BITS.

Inductive verdict := Keep | Mismatch | Occlusion.

(* the integers of the disparity interval [dmin, dmax] *)
Definition interval (dmin dmax : Z) : list Z :=
  map (fun k => dmin + Z.of_nat k) (seq 0 (Z.to_nat (dmax - dmin + 1))).

Section Spec.
  Variable nc : Z.                       (* width of the images *)
  Variable dL dR : Z -> option Q.        (* one row of the two disparity maps; None = NaN *)
  Variable thr : Q.
  Variable dmin dmax : Z.

  Definition in_image (q : Z) : bool := (0 <=? q) && (q <? nc).

  (* q = p + round(dL(p)) *)
  Definition correspondent (p : Z) : option Z :=
    match dL p with Some l => Some (p + round_he l) | None => None end.

  (* "its correspondent lies in the right image and |dL(p) + dR(q)| <= threshold" *)
  Definition consistent (p : Z) : bool :=
    match dL p with
    | Some l =>
      let q := p + round_he l in
      in_image q && match dR q with
                    | Some r => Qle_bool (Qabs (l + r)) thr
                    | None => false
                    end
    | None => false
    end.

  (* "some disparity d of the interval satisfies round(dR(p+d)) = -d" *)
  Definition matches (p d : Z) : bool :=
    in_image (p + d) && match dR (p + d) with
                        | Some r => round_he r =? - d
                        | None => false
                        end.
  Definition some_match (p : Z) : bool := existsb (matches p) (interval dmin dmax).

  Definition xspec (p : Z) : verdict :=
    if consistent p then Keep
    else if some_match p then Mismatch
    else Occlusion.

  (* the distance written into confidence_from_left_right_consistency:
     Some (Some x) = the number x, Some None = NaN, None = not prescribed (dR(q) is NaN) *)
  Definition spec_conf (valid : bool) (p : Z) : option (option Q) :=
    if valid then
      match dL p with
      | Some l =>
        let q := p + round_he l in
        if in_image q then
          match dR q with Some r => Some (Some (Qabs (l + r))) | None => None end
        else Some None
      | None => Some None
      end
    else Some None.
End Spec.

(* the bit a verdict stands for *)
Definition verdict_bit (v : verdict) : Z :=
  match v with Keep => 0 | Mismatch => 512 | Occlusion => 256 end.

(* border of width off of an nr x nc raster *)
Definition is_border (nr nc off r c : Z) : bool :=
  (r <? off) || (nr - off <=? r) || (c <? off) || (nc - off <=? c).

(* Input class of the recorded finding "outside_correspondent_occlusion_despite_match":
   the correspondent of p is outside the right image (or dL(p) is NaN) although some d of
   the interval satisfies round(dR(p+d)) = -d.  The property sentence prescribes mismatch
   there; validation.py:348 flags every such pixel as an occlusion. *)
Definition outside_with_match (nc : Z) (dL dR : Z -> option Q) (dmin dmax : Z) (p : Z) : bool :=
  match dL p with
  | Some l => negb (in_image nc (p + round_he l))
  | None => true
  end && some_match nc dR dmin dmax p.
