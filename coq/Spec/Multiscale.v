(* Spec of property C15, written from the property sentence and the user guide
   (docs/source/userguide/step_by_step/multiscale.rst), level by level and pixel by pixel.
   Nothing here mentions pyramids as lists, pops, blocks, chunks, zoom, truncation.

   "When the pipeline contains a multiscale step, the steps before it are executed once per
    scale on images whose sizes shrink by scale_factor per level, from the coarsest level to
    the original images, the coarsest level searching the user interval divided by
    scale_factor^(num_scales-1); steps after the multiscale step run once, at full
    resolution, and the returned maps have the original image size.  At each finer level the
    interval searched at a pixel is scale_factor times [min - marge, max + marge] of the
    valid coarser disparities inside the matching window around a coarse pixel at most one
    pixel away from its geometric parent, or the whole user interval of that level when
    that coarse pixel was invalid or on the border; the input datasets are not modified." *)
From Coq Require Import ZArith QArith List Bool.
From Pandora Require Import Model.Machine Spec.Language Spec.CrossCheck.
Import ListNotations.
Open Scope Z_scope.

(* ------------------------------------------------------------------ which step runs when *)

(* scales n-1, n-2, ..., 1 (coarse to fine, the original images excluded) *)
Definition coarse_scales (n : nat) : list nat := rev (seq 1 (n - 1)).

Definition not_msc (s : step) : bool := negb (is_kind Msc s).

(* pipeline = pre ++ ms :: post, ms the (first) multiscale step.  The callbacks executed by a
   run over n scales: at every coarse scale the steps before the multiscale step and the
   multiscale step itself (which computes the intervals of the next level); at scale 0 (the
   original images) the steps before it and the steps after it, once.  [scale_trace] (from
   the C01 spec) lists the executions of some steps at one scale, left then right. *)
Definition spec_trace (pre : list step) (ms : step) (post : list step) (n : nat) (rdm : bool) : list ev :=
  flat_map (fun j => scale_trace rdm (Z.of_nat j) (pre ++ [ms])) (coarse_scales n)
  ++ scale_trace rdm 0 (pre ++ filter not_msc post).

(* ------------------------------------------------------------------ image sizes *)

(* m is the size of an axis of n samples at level k: n / scale_factor^k rounded up *)
Definition is_level_size (n sf : Z) (k : nat) (m : Z) : Prop :=
  (m - 1) * sf ^ Z.of_nat k < n <= m * sf ^ Z.of_nat k.

(* "shrink by scale_factor per level" *)
Definition shrinks (sf a b : Z) : Prop := (b - 1) * sf < a <= b * sf.

(* ------------------------------------------------------------------ intervals *)

(* the user interval [dmin, dmax] seen from level s *)
Definition user_interval (dmin dmax sf : Z) (s : nat) : Q * Q :=
  ((inject_Z dmin / inject_Z (sf ^ Z.of_nat s))%Q, (inject_Z dmax / inject_Z (sf ^ Z.of_nat s))%Q).

(* the interval the right image is searched with: the mirrored one *)
Definition mirrored (i : Q * Q) : Q * Q := ((- snd i)%Q, (- fst i)%Q).

Definition least (P : Q -> Prop) (m : Q) : Prop := P m /\ forall x, P x -> (m <= x)%Q.
Definition greatest (P : Q -> Prop) (m : Q) : Prop := P m /\ forall x, P x -> (x <= m)%Q.

Section Finer.
  Variables ws marge sf : Z.                 (* matching window size, marge, scale_factor *)
  Variables rows cols : Z.                   (* size of the coarser level *)
  Variable D : Z -> Z -> option Q.           (* its disparity map (None = NaN) *)
  Variable V : Z -> Z -> Z.                  (* its validity mask *)
  Variables ulo uhi : Q.                     (* the whole user interval of the FINER level *)

  Definition half : Z := (ws - 1) / 2.

  (* a valid coarse disparity: a pixel of the map, none of the invalidating bits, a number *)
  Definition valid_px (r c : Z) : bool :=
    (0 <=? r) && (r <? rows) && (0 <=? c) && (c <? cols) && spec_valid (V r c)
    && match D r c with Some _ => true | None => false end.

  (* on the border: the matching window around it does not fit in the map *)
  Definition on_border (r c : Z) : bool :=
    (r <? half) || (rows - half <=? r) || (c <? half) || (cols - half <=? c).

  (* q is a valid coarser disparity inside the matching window around (pr, pc) *)
  Definition in_window (pr pc : Z) (q : Q) : Prop :=
    exists r c, pr - half <= r <= pr + half /\ pc - half <= c <= pc + half /\
                valid_px r c = true /\ D r c = Some q.

  (* the interval prescribed at a fine pixel whose coarse pixel is (pr, pc) *)
  Definition prescribed (pr pc : Z) (lo hi : Q) : Prop :=
    if valid_px pr pc && negb (on_border pr pc)
    then exists m M, least (in_window pr pc) m /\ greatest (in_window pr pc) M /\
                     (lo == inject_Z sf * (m - inject_Z marge))%Q /\
                     (hi == inject_Z sf * (M + inject_Z marge))%Q
    else (lo == ulo)%Q /\ (hi == uhi)%Q.

  (* p is at most one pixel away from the geometric parent o / scale_factor of o *)
  Definition near_parent (o p : Z) : Prop := o / sf - 1 <= p <= o / sf + 1.

  (* G : the (min, max) searched at each pixel of the finer level, of size h x w *)
  Definition finer_spec (h w : Z) (G : Z -> Z -> option Q * option Q) : Prop :=
    forall r c, 0 <= r < h -> 0 <= c < w ->
      exists pr pc lo hi,
        near_parent r pr /\ near_parent c pc /\ 0 <= pr < rows /\ 0 <= pc < cols /\
        G r c = (Some lo, Some hi) /\ prescribed pr pc lo hi.
End Finer.

(* the index contract of an order-0 zoom by sf of an axis of n samples: every output index reads
   an input index of the axis, at most one away from its geometric parent *)
Definition zoom_contract (sf n : Z) (z : Z -> Z) : Prop :=
  forall o, 0 <= o < sf * n -> 0 <= z o < n /\ near_parent sf o (z o).

(* ------------------------------------------------------------------ observing a trace *)

Definition ev_scale (e : ev) : Z := match e with Ev _ _ sc _ => sc end.
Definition ev_kind (e : ev) : kind := match e with Ev _ k _ _ => k end.
Definition ev_is (id : Z) (right : bool) (e : ev) : bool :=
  match e with Ev i _ _ r => (i =? id) && Bool.eqb r right end.

(* the scales at which the step named [id] was executed on the left (right) data, in order *)
Definition exec_scales (id : Z) (right : bool) (tr : list ev) : list Z :=
  map ev_scale (filter (ev_is id right) tr).

(* n-1, n-2, ..., 0 *)
Definition all_scales (n : nat) : list Z := map Z.of_nat (rev (seq 0 n)).

(* ------------------------------------------------------------------ executable form of finer_spec
   (the failing-input search applies it to the grids observed on the real code; soundness
   [finer_spec_bad = [] -> finer_spec] is proved in Proofs/MultiscaleP.v) *)

Definition zr (a n : Z) : list Z := map (fun i => a + Z.of_nat i) (seq 0 (Z.to_nat n)).

(* an element of l that is below (above) every element of l *)
Fixpoint pick (keep : Q -> Q -> bool) (l : list Q) (acc : Q) : Q :=
  match l with [] => acc | x :: r => pick keep r (if keep acc x then acc else x) end.
Definition pick_min (l : list Q) : option Q :=
  match l with [] => None | x :: r => Some (pick Qle_bool r x) end.
Definition pick_max (l : list Q) : option Q :=
  match l with [] => None | x :: r => Some (pick (fun a b => Qle_bool b a) r x) end.

Section FinerB.
  Variables ws marge sf : Z.
  Variables rows cols : Z.
  Variable D : Z -> Z -> option Q.
  Variable V : Z -> Z -> Z.
  Variables ulo uhi : Q.

  Definition win_list (pr pc : Z) : list Q :=
    flat_map (fun r => flat_map (fun c => if valid_px rows cols D V r c
                                          then match D r c with Some q => [q] | None => [] end else [])
                                (zr (pc - half ws) (2 * half ws + 1)))
             (zr (pr - half ws) (2 * half ws + 1)).

  Definition is_q (o : option Q) (q : Q) : bool := match o with Some x => Qeq_bool x q | None => false end.

  Definition prescribed_b (pr pc : Z) (g : option Q * option Q) : bool :=
    if valid_px rows cols D V pr pc && negb (on_border ws rows cols pr pc)
    then match pick_min (win_list pr pc), pick_max (win_list pr pc) with
         | Some m, Some M => is_q (fst g) (inject_Z sf * (m - inject_Z marge))
                             && is_q (snd g) (inject_Z sf * (M + inject_Z marge))
         | _, _ => false
         end
    else is_q (fst g) ulo && is_q (snd g) uhi.

  (* the geometric parent first, then its two neighbours *)
  Definition cands (o : Z) : list Z := [o / sf; o / sf - 1; o / sf + 1].

  Definition pixel_ok (G : Z -> Z -> option Q * option Q) (r c : Z) : bool :=
    existsb (fun pr => existsb (fun pc => (0 <=? pr) && (pr <? rows) && (0 <=? pc) && (pc <? cols)
                                          && prescribed_b pr pc (G r c)) (cands c)) (cands r).

  (* the pixels of the h x w finer level whose interval is not a prescribed one *)
  Definition finer_spec_bad (h w : Z) (G : Z -> Z -> option Q * option Q) : list (Z * Z) :=
    flat_map (fun r => flat_map (fun c => if pixel_ok G r c then [] else [(r, c)]) (zr 0 w)) (zr 0 h).
End FinerB.
