(* C18 -- the property sentences, written directly from the property text.

   "Running the same pipeline on the same inputs yields bit-identical products ... for every
    number of numba threads (... also with numba parallelisation switched off): no result
    depends on thread scheduling, on leftovers of the previous run, or on which other pipelines
    and step classes were checked or run before on other machine objects in the same process."

   Executions are those of Model/Prange.v (a loop = its iteration programs, a parallel
   execution = any interleaving of their atomic operations) and Model/History.v (a run = the
   effect of run_prepare and of the executed callbacks on the attribute store). *)
From Coq Require Import List String ZArith.
From Pandora Require Import Model.Prange Model.History.

(* "no result depends on thread scheduling": two executions of the same loop from the same
   memory, under any two schedules that let every iteration finish, end with the same memory *)
Definition schedule_free (val : Type) (P : nat -> prog val) : Prop :=
  forall (m0 : mem val) s1 s2 pool1 m1 pool2 m2,
    run_sched val s1 P m0 = (pool1, m1) -> (forall i, pool1 i = Done) ->
    run_sched val s2 P m0 = (pool2, m2) -> (forall i, pool2 i = Done) ->
    forall c, m1 c = m2 c.

(* "for every number of threads ... also with parallelisation switched off": what every such
   execution leaves is what the plain sequential loop of n iterations leaves *)
Definition same_as_sequential (val : Type) (n : nat) (P : nat -> prog val) : Prop :=
  forall (m0 : mem val) s pool' m',
    run_sched val s P m0 = (pool', m') -> (forall i, pool' i = Done) ->
    forall c, m' c = seq_run val n P m0 c.

(* "no result depends on leftovers of the previous run": started in two arbitrary machine
   states that agree on the attributes a run does not recompute, a run returns equal products *)
Definition leftover_free (value : Type) (run : store value -> store value) : Prop :=
  forall s1 s2, agree value persist s1 s2 -> agree value products (run s1) (run s2).
