(* C13 -- "results are local": what it means for a processing step to compute the value of a pixel
   from the data of a neighbourhood of that pixel only, wherever the pixel lies in the raster.
   Written from the property sentence, not from the code.

   A raster of data of type A is a [frame]: its extents and a total function of (row, col).
   A step is an [op A B]: given the whole input raster it says what it writes at pixel (row, col).
   A neighbourhood is given by three radii: [rho] rows above and below, [lam] columns to the left,
   [mu] columns to the right (the disparity interval [dmin, dmax] is not symmetric, so the cone of a
   pixel is not either).

   [local H f D M]: whenever the cone of radii M around (r, c) lies inside raster F, the cone around
   (r', c') lies inside raster G, and the two rasters hold the same data on the two cones of radii D
   (position by position), then f F r c = f G r' c'.  Nothing relates (r, c) to (r', c') nor the extents of F to
   those of G: the value is a function of the data of the cone, not of the position of the pixel, not
   of the size of the raster.  [H F r c] is a side condition on the first run (e.g. "the disparities
   of the valid pixels of the cone lie in the disparity interval"); [fun _ _ _ => True] when none. *)
From Coq Require Import ZArith List Bool.
Import ListNotations.
Open Scope Z_scope.

Record frame (A : Type) : Type := mkFrame { f_nr : Z; f_nc : Z; f_at : Z -> Z -> A }.
Arguments mkFrame {A}. Arguments f_nr {A}. Arguments f_nc {A}. Arguments f_at {A}.

Record radii : Type := mkRad { rho : Z; lam : Z; mu : Z }.
Definition rad0 : radii := mkRad 0 0 0.
Definition radd (a b : radii) : radii := mkRad (rho a + rho b) (lam a + lam b) (mu a + mu b).
Definition rmax (a b : radii) : radii :=
  mkRad (Z.max (rho a) (rho b)) (Z.max (lam a) (lam b)) (Z.max (mu a) (mu b)).
Definition rad_wf (R : radii) : Prop := 0 <= rho R /\ 0 <= lam R /\ 0 <= mu R.
Definition rad_le (a b : radii) : Prop := rho a <= rho b /\ lam a <= lam b /\ mu a <= mu b.

Definition in_frame {A} (F : frame A) (r c : Z) : Prop := 0 <= r < f_nr F /\ 0 <= c < f_nc F.

(* offsets of the cone *)
Definition in_cone (R : radii) (a b : Z) : Prop := - rho R <= a <= rho R /\ - lam R <= b <= mu R.

(* the cone of (r, c) lies inside the raster *)
Definition cone_in {A} (F : frame A) (R : radii) (r c : Z) : Prop :=
  0 <= r - rho R /\ r + rho R < f_nr F /\ 0 <= c - lam R /\ c + mu R < f_nc F.

(* same data on the cone of (r, c) in F and on the cone of (r', c') in G *)
Definition agree_on {A} (F G : frame A) (R : radii) (r c r' c' : Z) : Prop :=
  forall a b, in_cone R a b -> f_at F (r + a) (c + b) = f_at G (r' + a) (c' + b).

Definition op (A B : Type) : Type := frame A -> Z -> Z -> B.
Definition side (A : Type) : Type := frame A -> Z -> Z -> Prop.
Definition no_side {A} : side A := fun _ _ _ => True.

(* [D]: the data cone (where the two rasters must agree); [M]: the margin (how far the pixel must be
   from the sides of each raster).  For most steps M = D; cross-checking reads no data of other rows
   but paints the window margin of the raster with the border flag, so its margin exceeds its cone. *)
Definition local {A B} (H : side A) (f : op A B) (D M : radii) : Prop :=
  forall F G r c r' c',
    cone_in F M r c -> cone_in G M r' c' -> agree_on F G D r c r' c' -> H F r c ->
    f F r c = f G r' c'.

(* the raster a step produces, and the composition of steps *)
Definition lift {A B} (f : op A B) (F : frame A) : frame B := mkFrame (f_nr F) (f_nc F) (f F).
Definition comp {A B C} (g : op B C) (f : op A B) : op A C := fun F => g (lift f F).

(* side condition of a composition: the one of f on every pixel of g's cone, the one of g on f's output *)
Definition side_comp {A B} (Hf : side A) (f : op A B) (Hg : side B) (Rg : radii) : side A :=
  fun F r c => (forall a b, in_cone Rg a b -> Hf F (r + a) (c + b)) /\ Hg (lift f F) r c.

(* a pipeline: steps that rewrite the per-pixel state, applied first to last *)
Fixpoint run_pipe {A} (steps : list (op A A)) : op A A :=
  match steps with
  | [] => fun F r c => f_at F r c
  | s :: rest => comp (run_pipe rest) s
  end.

(* each step is local with its radii; the side condition of the pipeline collects those of the steps;
   data cones add, the margin of a composition is the larger of the outer margin and the outer cone
   plus the inner margin *)
Inductive chain {A} : side A -> list (op A A) -> radii -> radii -> Prop :=
| chain_nil : chain no_side [] rad0 rad0
| chain_cons : forall H s D M Hrest rest Ds Ms,
    rad_wf D -> rad_wf M -> local H s D M -> chain Hrest rest Ds Ms ->
    chain (side_comp H s Hrest Ds) (s :: rest) (radd Ds D) (rmax Ms (radd Ds M)).

(* a crop (tile) of a raster: [h] x [w] pixels starting at (r0, c0) *)
Definition crop {A} (F : frame A) (r0 c0 h w : Z) : frame A :=
  mkFrame h w (fun r c => f_at F (r + r0) (c + c0)).
Definition crop_ok {A} (F : frame A) (r0 c0 h w : Z) : Prop :=
  0 <= r0 /\ r0 + h <= f_nr F /\ 0 <= c0 /\ c0 + w <= f_nc F.

(* ---------------------------------------------------------------- two kinds of data in a pixel state

   The state of a pixel holds the INPUT data (radiometry and mask values of the two images), which no
   step rewrites, and the PRODUCTS (cost curves, disparities, flags), which the steps rewrite.  A step
   like cbca reads the products of the pixels of its support region AND the images further away; the
   property counts the disparity interval once for that (and once more for cross-checking), not once
   per step that looks at the images.  Hence two data cones:

   [local2 pi H f DS DI M]: [pi] projects a state on its input part.  Whenever the cones of radii M lie
   inside the two rasters, the two rasters hold the same STATES on the cones of radii DS and the same
   INPUT parts on the cones of radii DI, then f F r c = f G r' c'.
   With "f keeps pi" (the step does not rewrite the input part), state cones add under composition
   while the input cone of "f then g" is the larger of g's input cone and g's state cone plus f's input
   cone. *)
Definition agree_via {A I} (pi : A -> I) (F G : frame A) (R : radii) (r c r' c' : Z) : Prop :=
  forall a b, in_cone R a b -> pi (f_at F (r + a) (c + b)) = pi (f_at G (r' + a) (c' + b)).

Definition local2 {A I B} (pi : A -> I) (H : side A) (f : op A B) (DS DI M : radii) : Prop :=
  forall F G r c r' c',
    cone_in F M r c -> cone_in G M r' c' ->
    agree_on F G DS r c r' c' -> agree_via pi F G DI r c r' c' -> H F r c ->
    f F r c = f G r' c'.

Definition keeps {A I} (pi : A -> I) (f : op A A) : Prop := forall F r c, pi (f F r c) = pi (f_at F r c).

Inductive chain2 {A I} (pi : A -> I) : side A -> list (op A A) -> radii -> radii -> radii -> Prop :=
| chain2_nil : chain2 pi no_side [] rad0 rad0 rad0
| chain2_cons : forall H s DS DI M Hrest rest DSs DIs Ms,
    rad_wf DS -> rad_wf DI -> rad_wf M -> keeps pi s -> local2 pi H s DS DI M -> chain2 pi Hrest rest DSs DIs Ms ->
    chain2 pi (side_comp H s Hrest DSs) (s :: rest) (radd DSs DS) (rmax DIs (radd DSs DI)) (rmax Ms (radd DSs M)).

(* ---------------------------------------------------------------- vertical flip

   "flipping both images vertically changes nothing but the orientation of the result": row r of the flipped
   raster is row nr - 1 - r of the raster (columns are kept); a step commutes with the flip when, run on the flipped
   raster, it writes at (r, c) what it writes at (nr - 1 - r, c) of the raster -- for EVERY pixel of the raster,
   the first and last rows included (no cone condition: the flip is a statement on the whole result).  [E] is the
   relation in which the two results are compared (equality; for a state holding rationals as fractions: the same
   rational number). *)
Definition frow {A} (F : frame A) (r : Z) : Z := f_nr F - 1 - r.
Definition vflip {A} (F : frame A) : frame A := mkFrame (f_nr F) (f_nc F) (fun r c => f_at F (frow F r) c).

Definition vflip_commutes {A B} (E : B -> B -> Prop) (f : op A B) : Prop :=
  forall F r c, in_frame F r c -> E (f (vflip F) r c) (f F (frow F r) c).

(* F' is a flipped copy of F, pixel by pixel up to E (what composes: the raster a step produces from a flipped
   copy is a flipped copy of what it produces from the raster) *)
Definition flipped {A} (E : A -> A -> Prop) (F' F : frame A) : Prop :=
  f_nr F' = f_nr F /\ f_nc F' = f_nc F /\
  forall r c, in_frame F r c -> E (f_at F' r c) (f_at F (frow F r) c).
Definition flip_ok {A} (E : A -> A -> Prop) (f : op A A) : Prop :=
  forall F' F, flipped E F' F -> forall r c, in_frame F r c -> E (f F' r c) (f F (frow F r) c).

(* the same, for rasters of nr x nc pixels only (a step whose window is clipped to the raster commutes with the flip
   for the sizes that leave it an odd window) *)
Definition flip_ok_at {A} (nr nc : Z) (E : A -> A -> Prop) (f : op A A) : Prop :=
  forall F' F, f_nr F = nr -> f_nc F = nc -> flipped E F' F ->
  forall r c, in_frame F r c -> E (f F' r c) (f F (frow F r) c).
