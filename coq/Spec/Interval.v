(* C09 -- the last clause of the property, written from its text: "in a single-scale run every valid
   pixel's final disparity lies within the requested global interval whatever refinement, filtering or
   occlusion/mismatch filling followed". *)
From Coq Require Import ZArith QArith.
From Pandora Require Import Model.Interval Spec.CrossCheck.
Open Scope Z_scope.

Definition in_global_interval (ny nx dmin dmax : Z) (st : dstate) : Prop :=
  forall r c, 0 <= r < ny -> 0 <= c < nx -> d_valid st r c = true ->
  exists d, d_map st r c = Some d /\ (inject_Z dmin <= d)%Q /\ (d <= inject_Z dmax)%Q.

(* "valid pixel", on the products of a run: the validity mask carries none of the bits that mean invalid
   (0, 1, 6, 7, 8, 9: Spec/CrossCheck.v [spec_valid], the test of C07 / C10 / C14) *)
Definition dstate_of (disp : Z -> Z -> option Q) (mask : Z -> Z -> Z) : dstate :=
  mkD disp (fun r c => spec_valid (mask r c)).
