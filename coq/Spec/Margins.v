(* The documented margins, written by hand from the text of property C20 and
   the user guide (not from the code):
     - half the matching window, 40 for optimisation, 0 for aggregation /
       disparity / refinement: cumulative;
     - filter_size x step for the median filters, min(rows, cols,
       int(3 sigma_space + 1)) x step for bilateral: non-cumulative;
     - the other steps bear no margins;
     - global margins: per side, the larger of the sum of the cumulative ones
       and each non-cumulative one. *)
From Coq Require Import ZArith List Bool QArith Qround.
From Pandora Require Import Model.Machine Model.Margins.
Import ListNotations.
Open Scope Z_scope.

Inductive doc_margin := DocCumulative (v : Z) | DocNonCumulative (v : Z) | DocNone.

(* [st] is the step of the matching-cost step of the pipeline *)
Definition doc_entry (rows cols st : Z) (s : mstep) : doc_margin :=
  match ms_kind s with
  | MC => DocCumulative ((ms_win s - 1) / 2)
  | Opt => DocCumulative 40
  | Agg | Dsp | Ref => DocCumulative 0
  | Flt =>
    match ms_fm s with
    | FMedian | FMedianForIntervals => DocNonCumulative (ms_fsize s * st)
    | FBilateral =>
      DocNonCumulative (Z.min rows (Z.min cols (Qfloor (3 * ms_sigma s + 1)%Q)) * st)
    end
  | Seg | Val | Msc | Cvc => DocNone
  end.

Definition uniform (v : Z) : margins := mkMg v v v v.

Definition spec_cum (rows cols st : Z) (p : list mstep) : mdict :=
  flat_map (fun s => match doc_entry rows cols st s with
                     | DocCumulative v => [(ms_id s, uniform v)]
                     | _ => []
                     end) p.
Definition spec_non (rows cols st : Z) (p : list mstep) : mdict :=
  flat_map (fun s => match doc_entry rows cols st s with
                     | DocNonCumulative v => [(ms_id s, uniform v)]
                     | _ => []
                     end) p.

(* documented parameter domains (C05) on which the statement is made *)
Definition params_ok (rows cols : Z) (s : mstep) : bool :=
  (1 <=? ms_win s) && Z.odd (ms_win s) && (1 <=? ms_fsize s) && (1 <=? ms_mcstep s)
  && (0 <? Qnum (ms_sigma s)) && (1 <=? rows) && (1 <=? cols).

(* an accepted pipeline, as far as margins are concerned: a matching-cost
   step first and no other matching-cost step (C01's language), distinct names *)
Definition no_mc (p : list mstep) : bool := forallb (fun s => negb (kind_eqb (ms_kind s) MC)) p.
Definition pipeline_shape (p : list mstep) : Prop :=
  match p with
  | [] => True
  | s0 :: r => ms_kind s0 = MC /\ no_mc r = true
  end /\ NoDup (map ms_id p).
Definition pipeline_step (p : list mstep) : Z :=
  match p with [] => 1 | s0 :: _ => ms_mcstep s0 end.

(* projections used to state the global formula per side *)
Definition sides : list (margins -> Z) := [mg_l; mg_u; mg_r; mg_d].
Definition side_sum (f : margins -> Z) (d : mdict) : Z :=
  fold_right Z.add 0 (map (fun kv => f (snd kv)) d).
