(* The documented meaning of the validity flags, written by hand from the text of property C04
   and docs/source/userguide/output.rst ("Validity mask" table).  Nothing here looks at the code:
   no counters, no dilation, no `+=`; every clause is a direct statement about one pixel, its
   window, and the candidates c + d for d in the GLOBAL integer interval [dmin, dmax].

   Vocabulary (image of nr x nc pixels, square window of half-width off, i.e. size 2*off+1):
     in_img r c      : (r, c) is a pixel of the image
     win_in r c      : the window centred on (r, c) lies inside the image
     border r c      : a pixel whose window does not (the image border)
     win_nodata N r c: some pixel of the window of (r, c) is no-data in the mask N
   A mask value equal to no_data_mask is "no data", equal to valid_pixels is valid, anything else
   is "masked / invalid" (input convention of the user guide). *)
From Coq Require Import ZArith List Bool.
Import ListNotations.
Open Scope Z_scope.

(* output.rst: bit -> value *)
Definition doc_bit_left_nodata_or_border := 0.
Definition doc_bit_right_nodata_or_range_missing := 1.
Definition doc_bit_incomplete_range := 2.
Definition doc_bit_stopped_interpolation := 3.
Definition doc_bit_filled_occlusion := 4.
Definition doc_bit_filled_mismatch := 5.
Definition doc_bit_left_masked := 6.
Definition doc_bit_right_masked := 7.
Definition doc_bit_occlusion := 8.
Definition doc_bit_mismatch := 9.
Definition doc_bit_filled_nodata := 10.
Definition doc_bit_interval_regularized := 11.
(* "invalid" bits: the point is invalid (0, 1, 6, 7, 8, 9) *)
Definition doc_invalid_bits : list Z := [0; 1; 6; 7; 8; 9].
(* invalid before validation *)
Definition doc_invalid_before_validation : Z := 1 + 2 + 64 + 128.   (* 0b11000011 *)

Record scene := mkScene {
  s_nr : Z; s_nc : Z; s_off : Z;
  s_dmin : Z; s_dmax : Z;                       (* global interval *)
  s_lnodata : Z -> Z -> bool; s_linvalid : Z -> Z -> bool;   (* left mask classes *)
  s_rnodata : Z -> Z -> bool; s_rinvalid : Z -> Z -> bool;   (* right mask classes *)
  s_lmin : Z -> Z -> Z; s_lmax : Z -> Z -> Z    (* the pixel's own interval (grids) *)
}.

Section Spec.
  Variable S : scene.

  Definition in_img (r c : Z) : Prop := 0 <= r < s_nr S /\ 0 <= c < s_nc S.
  Definition win_in (r c : Z) : Prop :=
    s_off S <= r /\ r + s_off S <= s_nr S - 1 /\ s_off S <= c /\ c + s_off S <= s_nc S - 1.
  Definition border (r c : Z) : Prop := in_img r c /\ ~ win_in r c.
  Definition win_nodata (N : Z -> Z -> bool) (r c : Z) : Prop :=
    exists i j, r - s_off S <= i <= r + s_off S /\ c - s_off S <= j <= c + s_off S
                /\ in_img i j /\ N i j = true.
  Definition in_interval (d : Z) : Prop := s_dmin S <= d <= s_dmax S.

  (* C02's predicate: the cost of (r, c) at disparity d can be computed *)
  Definition computable (r c d : Z) : Prop :=
    win_in r c /\ win_in r (c + d)
    /\ ~ win_nodata (s_lnodata S) r c /\ ~ win_nodata (s_rnodata S) r (c + d)
    /\ s_linvalid S r c = false /\ s_rinvalid S r (c + d) = false
    /\ s_lmin S r c <= d <= s_lmax S r c.

  (* "none of its costs is computable" *)
  Definition no_cost (r c : Z) : Prop := forall d, in_interval d -> ~ computable r c d.

  (* documented causes, for a pixel that is not on the border *)
  (* 0: border or nodata in the left window *)
  Definition cause0 (r c : Z) : Prop := border r c \/ win_nodata (s_lnodata S) r c.
  (* 6: left pixel masked *)
  Definition cause6 (r c : Z) : Prop := s_linvalid S r c = true.
  (* 1: no disparity of the pixel yields a computable cost *)
  Definition cause1 (r c : Z) : Prop := no_cost r c.
  (* 2: part of the interval falls outside the right image (some candidate window does not fit,
        some does) *)
  Definition cause2 (r c : Z) : Prop :=
    (exists d, in_interval d /\ ~ win_in r (c + d)) /\ (exists d, in_interval d /\ win_in r (c + d)).
  (* 7: every in-image right candidate is masked (and there is one) *)
  Definition cause7 (r c : Z) : Prop :=
    (exists d, in_interval d /\ win_in r (c + d))
    /\ forall d, in_interval d -> win_in r (c + d) -> s_rinvalid S r (c + d) = true.

  (* ---------------- boolean mirror (the spec checker run on the implementation's outputs) *)
  Fixpoint zseq' (lo : Z) (n : nat) : list Z :=
    match n with O => [] | Datatypes.S k => lo :: zseq' (lo + 1) k end.
  Definition zr (lo hi : Z) : list Z := zseq' lo (Z.to_nat (hi - lo + 1)).

  Definition in_img_b (r c : Z) : bool := (0 <=? r) && (r <? s_nr S) && (0 <=? c) && (c <? s_nc S).
  Definition win_in_b (r c : Z) : bool :=
    (s_off S <=? r) && (r + s_off S <=? s_nr S - 1) && (s_off S <=? c) && (c + s_off S <=? s_nc S - 1).
  Definition win_nodata_b (N : Z -> Z -> bool) (r c : Z) : bool :=
    existsb (fun i => existsb (fun j => in_img_b i j && N i j) (zr (c - s_off S) (c + s_off S)))
            (zr (r - s_off S) (r + s_off S)).
  Definition computable_b (r c d : Z) : bool :=
    win_in_b r c && win_in_b r (c + d)
    && negb (win_nodata_b (s_lnodata S) r c) && negb (win_nodata_b (s_rnodata S) r (c + d))
    && negb (s_linvalid S r c) && negb (s_rinvalid S r (c + d))
    && (s_lmin S r c <=? d) && (d <=? s_lmax S r c).
  Definition no_cost_b (r c : Z) : bool :=
    forallb (fun d => negb (computable_b r c d)) (zr (s_dmin S) (s_dmax S)).
  Definition cause0_b (r c : Z) : bool := negb (win_in_b r c) || win_nodata_b (s_lnodata S) r c.
  Definition cause6_b (r c : Z) : bool := s_linvalid S r c.
  Definition cause2_b (r c : Z) : bool :=
    existsb (fun d => negb (win_in_b r (c + d))) (zr (s_dmin S) (s_dmax S))
    && existsb (fun d => win_in_b r (c + d)) (zr (s_dmin S) (s_dmax S)).
  Definition cause7_b (r c : Z) : bool :=
    existsb (fun d => win_in_b r (c + d)) (zr (s_dmin S) (s_dmax S))
    && forallb (fun d => implb (win_in_b r (c + d)) (s_rinvalid S r (c + d))) (zr (s_dmin S) (s_dmax S)).

  (* the flag the property prescribes after the matching cost: border pixels carry bit 0 only,
     any other pixel carries exactly the bits whose cause holds *)
  Definition b2z (b : bool) (k : Z) : Z := if b then 2 ^ k else 0.
  Definition expected_flag (r c : Z) : Z :=
    if negb (win_in_b r c) then 1
    else b2z (cause0_b r c) 0 + b2z (no_cost_b r c) 1 + b2z (cause2_b r c) 2
         + b2z (cause6_b r c) 6 + b2z (cause7_b r c) 7.
End Spec.
