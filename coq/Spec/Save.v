(* C19, first sentence -- written from the property text and docs/source/userguide/output.rst,
   not from the code:

     "The command-line run writes left_disparity.tif (float32), left_validity_mask.tif (uint16)
      and, when bands exist, left_confidence_measure.tif with one band per indicator named
      after it, whose pixels equal the in-memory products value for value (NaN included) with
      the input georeferencing; the right_* files are written if and only if the pipeline has
      a validation step."

   A set of written files is described pixel by pixel: band b of a file at (r, c).  *)
From Coq Require Import ZArith QArith List Bool String.
From Pandora Require Import Model.Save.
Import ListNotations.

Section Spec.
  Variable G : Type.

  Definition side_name (s : side) : string :=
    match s with SLeft => "left" | SRight => "right" end.

  (* <output>/./<side>_<what>.tif *)
  Definition doc_path (s : side) (what : string) : string :=
    ("./" ++ side_name s ++ "_" ++ what ++ ".tif")%string.

  Definition doc_paths : list string :=
    [doc_path SLeft "disparity"; doc_path SLeft "confidence_measure"; doc_path SLeft "validity_mask";
     doc_path SRight "disparity"; doc_path SRight "confidence_measure"; doc_path SRight "validity_mask"].

  Definition at2 (d : list (list px)) (r c : nat) : option px :=
    match nth_error d r with Some row => nth_error row c | None => None end.

  Definition at3 (d : list (list (list px))) (r c k : nat) : option px :=
    match nth_error d r with
    | Some row => match nth_error row c with Some pxs => nth_error pxs k | None => None end
    | None => None
    end.

  (* sample (r, c) of band b (0-based) of a file *)
  Definition band_px (f : tif G) (b r c : nat) : option px :=
    match nth_error (f_bands f) b with Some rows => at2 rows r c | None => None end.

  (* a single-band raster holding the 2-D array d value for value *)
  Definition raster_ok (f : tif G) (t : dtype) (d : list (list px)) (g : G) : Prop :=
    f_dtype f = t /\ f_geo f = g /\ List.length (f_bands f) = 1%nat
    /\ (forall rows, nth_error (f_bands f) 0 = Some rows -> List.length rows = List.length d)
    /\ forall r c, band_px f 0 r c = at2 d r c.

  (* one band per indicator, in order, named after it, holding that indicator's plane *)
  Definition conf_ok (f : tif G) (names : list string) (cube : list (list (list px))) (g : G) : Prop :=
    f_dtype f = F32 /\ f_geo f = g
    /\ List.length (f_bands f) = List.length names
    /\ f_names f = Some names
    /\ forall k, (k < List.length names)%nat -> forall r c, band_px f k r c = at3 cube r c k.

  Definition written (fs : list (tif G)) (path : string) (ok : tif G -> Prop) : Prop :=
    exists f, In f fs /\ f_path f = path /\ ok f.

  Definition not_written (fs : list (tif G)) (path : string) : Prop :=
    forall f, In f fs -> f_path f <> path.

  Definition side_ok (s : side) (p : product G) (fs : list (tif G)) : Prop :=
    written fs (doc_path s "disparity") (fun f => raster_ok f F32 (p_disp p) (p_geo p))
    /\ written fs (doc_path s "validity_mask") (fun f => raster_ok f U16 (p_mask p) (p_geo p))
    /\ match p_conf p with
       | Some (names, cube) =>
         written fs (doc_path s "confidence_measure") (fun f => conf_ok f names cube (p_geo p))
       | None => not_written fs (doc_path s "confidence_measure")
       end.

  Definition side_absent (s : side) (fs : list (tif G)) : Prop :=
    not_written fs (doc_path s "disparity") /\ not_written fs (doc_path s "validity_mask")
    /\ not_written fs (doc_path s "confidence_measure").

  (* right = None: no right products were computed *)
  Definition saved_ok (left : product G) (right : option (product G)) (fs : list (tif G)) : Prop :=
    side_ok SLeft left fs
    /\ match right with Some r => side_ok SRight r fs | None => side_absent SRight fs end
    /\ NoDup (map (@f_path G) fs)                       (* no file is written twice *)
    /\ forall f, In f fs -> In (f_path f) doc_paths.    (* and nothing else is written *)

  (* ---- the domains on which "value for value" is meant *)

  (* validity flags: the twelve documented bits (C04 proves m < 4096 for every pipeline) *)
  Definition mask_px_ok (p : px) : Prop := exists m, p = PI m /\ (0 <= m < 4096)%Z.

  (* float32 rasters: NaN or a value representable in float32 *)
  Definition float_px_ok (f32 : Q -> Prop) (p : px) : Prop :=
    p = PF None \/ exists q, p = PF (Some q) /\ f32 q.

  Definition all2 (P : px -> Prop) (d : list (list px)) : Prop :=
    forall row, In row d -> forall p, In p row -> P p.

  Definition all3 (P : px -> Prop) (d : list (list (list px))) : Prop :=
    forall row, In row d -> forall pxs, In pxs row -> forall p, In p pxs -> P p.

  (* the xarray invariant: every pixel of the cube has one value per indicator *)
  Definition cube_wf (names : list string) (d : list (list (list px))) : Prop :=
    forall row, In row d -> forall pxs, In pxs row -> List.length pxs = List.length names.

  Definition product_ok (f32 : Q -> Prop) (p : product G) : Prop :=
    all2 (float_px_ok f32) (p_disp p) /\ all2 mask_px_ok (p_mask p)
    /\ match p_conf p with
       | Some (names, cube) => cube_wf names cube /\ all3 (float_px_ok f32) cube
       | None => True
       end.
End Spec.
