(* C05 -- the DOCUMENTED parameters of every built-in method: name, domain, default.
   Written by hand from the property text (properties.jsonl, C05) and the user guide
   (docs/source/userguide/step_by_step/*.rst, "Configuration and parameters" tables);
   nothing here is derived from the code.  Definitions only.

   Reading choices (DESIGN.md 3/C05, "Assumes"):
   * "type int" is Python's isinstance: JSON true/false count as the integers 1/0 where the
     guide says int (documented choice); "int, float" (a number) excludes booleans.
   * "type float" means a JSON number written with a fraction/exponent, or one of the strings
     "NaN"/"inf"/"-inf" that configuration reading turns into floats; an int is the wrong type.
   * Where the property text is more precise than the guide, the property text wins:
     window_size / filter_size must be odd ("even window or filter size" is rejected) although
     the guide's table only says ">0" / ">=1"; subpix is "1 or even" although the guide lists
     {1 2 4}.
   * Guide/code disagreements on parameters the property text does not name are recorded as
     observations in [guide_notes] below (the domain written here is the one a value must
     satisfy to be usable by the method; see each note). *)
From Coq Require Import ZArith QArith List Bool String.
From Pandora Require Import Model.Json.
Import ListNotations.
Open Scope Z_scope.

Inductive dom :=
| DMethod (names : list string)  (* the method name: a string among the listed ones *)
| DIntPosOdd                     (* int, > 0, odd *)
| DIntIn (l : list Z)            (* int, one of *)
| DSubpix                        (* int, 1 or a positive even number *)
| DIntGe (k : Z)                 (* int, >= k *)
| DIntEq (k : Z)                 (* int, = k *)
| DFloatPos                      (* float, > 0 *)
| DFloatOpen01                   (* float, 0 < x < 1 *)
| DFloatClosed01                 (* float, 0 <= x <= 1 *)
| DStr
| DBool
| DStrOrNull
| DNumber                        (* int or float (any, nan/inf included), not a bool *)
| DOneOfStr (names : list string).

(* the integer a JSON value denotes where the guide says "int" *)
Definition as_int (v : jv) : option Z :=
  match v with
  | JInt z => Some z
  | JBool b => Some (if b then 1 else 0)
  | _ => None
  end.

Definition int_dom (p : Z -> bool) (v : jv) : bool :=
  match as_int v with Some z => p z | None => false end.

Definition in_dom (d : dom) (v : jv) : bool :=
  match d with
  | DMethod names | DOneOfStr names => match v with JStr s => mem_str s names | _ => false end
  | DIntPosOdd => int_dom (fun z => (0 <? z) && (z mod 2 =? 1)) v
  | DIntIn l => int_dom (fun z => existsb (Z.eqb z) l) v
  | DSubpix => int_dom (fun z => (z =? 1) || ((0 <? z) && (z mod 2 =? 0))) v
  | DIntGe k => int_dom (fun z => k <=? z) v
  | DIntEq k => int_dom (fun z => z =? k) v
  | DFloatPos =>
    match v with JFloat q => negb (Qle_bool q 0) | JInf neg => negb neg | _ => false end
  | DFloatOpen01 =>
    match v with JFloat q => negb (Qle_bool q 0) && negb (Qle_bool 1 q) | _ => false end
  | DFloatClosed01 =>
    match v with JFloat q => Qle_bool 0 q && Qle_bool q 1 | _ => false end
  | DStr => match v with JStr _ => true | _ => false end
  | DBool => match v with JBool _ => true | _ => false end
  | DStrOrNull => match v with JStr _ | JNull => true | _ => false end
  | DNumber => match v with JInt _ | JFloat _ | JNan | JInf _ => true | _ => false end
  end.

(* one documented parameter: name, domain, default (None: no default) and whether the key
   may be absent from the CHECKED configuration (only interpolated_disparity) *)
Record param := mkP { p_name : string; p_dom : dom; p_default : option jv; p_optional : bool }.

Definition P (n : string) (d : dom) (v : jv) : param := mkP n d (Some v) false.
Definition Req (n : string) (d : dom) : param := mkP n d None false.
Definition Opt (n : string) (d : dom) : param := mkP n d None true.

Open Scope string_scope.

Definition mc_common : list param :=
  [ P "subpix" DSubpix (JInt 1);
    P "band" DStrOrNull JNull;
    P "step" (DIntEq 1) (JInt 1) ].

Definition regularization_params : list param :=
  [ P "regularization" DBool (JBool false);
    P "ambiguity_indicator" DStr (JStr "");
    P "ambiguity_threshold" DFloatClosed01 (JFloat (6 # 10));
    P "ambiguity_kernel_size" DIntPosOdd (JInt 5);
    P "vertical_depth" (DIntGe 0) (JInt 2);                       (* guide: default 2 *)
    P "quantile_regularization" DFloatClosed01 (JFloat (9 # 10)) ]. (* guide: default 0.9 *)

(* (step kind, method names sharing one set of parameters, parameters) *)
Definition documented : list (string * list string * list param) :=
  [ ("matching_cost", ["sad"; "ssd"],
       Req "matching_cost_method" (DMethod ["sad"; "ssd"]) :: P "window_size" DIntPosOdd (JInt 5) :: mc_common);
    ("matching_cost", ["zncc"],
       Req "matching_cost_method" (DMethod ["zncc"]) :: P "window_size" DIntPosOdd (JInt 5) :: mc_common);
    ("matching_cost", ["census"],
       Req "matching_cost_method" (DMethod ["census"]) :: P "window_size" (DIntIn [3; 5]%Z) (JInt 5) :: mc_common);
    ("aggregation", ["cbca"],
       [ Req "aggregation_method" (DMethod ["cbca"]);
         P "cbca_intensity" DFloatPos (JFloat (30 # 1));
         P "cbca_distance" (DIntGe 1) (JInt 5) ]);
    ("disparity", ["wta"],
       [ Req "disparity_method" (DMethod ["wta"]);
         P "invalid_disparity" DNumber (JInt (-9999)) ]);
    ("refinement", ["vfit"], [ Req "refinement_method" (DMethod ["vfit"]) ]);
    ("refinement", ["quadratic"], [ Req "refinement_method" (DMethod ["quadratic"]) ]);
    ("filter", ["median"],
       [ Req "filter_method" (DMethod ["median"]);
         P "filter_size" DIntPosOdd (JInt 3) ]);
    ("filter", ["bilateral"],
       [ Req "filter_method" (DMethod ["bilateral"]);
         P "sigma_color" DFloatPos (JFloat (2 # 1));
         P "sigma_space" DFloatPos (JFloat (6 # 1)) ]);
    ("filter", ["median_for_intervals"],
       Req "filter_method" (DMethod ["median_for_intervals"])
       :: P "filter_size" DIntPosOdd (JInt 3)
       :: P "interval_indicator" DStr (JStr "")
       :: regularization_params);
    ("validation", ["cross_checking_accurate"],
       [ Req "validation_method" (DMethod ["cross_checking_accurate"]);
         P "cross_checking_threshold" DNumber (JFloat (1 # 1));
         Opt "interpolated_disparity" (DOneOfStr ["mc-cnn"; "sgm"]) ]);
    ("cost_volume_confidence", ["ambiguity"],
       [ Req "confidence_method" (DMethod ["ambiguity"]);
         P "eta_max" DFloatOpen01 (JFloat (7 # 10));
         P "eta_step" DFloatOpen01 (JFloat (1 # 100));
         P "indicator" DStr (JStr "");
         P "normalization" DBool (JBool false) ]);                 (* guide: default false *)
    ("cost_volume_confidence", ["risk"],
       [ Req "confidence_method" (DMethod ["risk"]);
         P "eta_max" DFloatOpen01 (JFloat (7 # 10));
         P "eta_step" DFloatOpen01 (JFloat (1 # 100));
         P "indicator" DStr (JStr "") ]);
    ("cost_volume_confidence", ["interval_bounds"],
       Req "confidence_method" (DMethod ["interval_bounds"])
       :: P "possibility_threshold" DFloatClosed01 (JFloat (9 # 10))
       :: P "indicator" DStr (JStr "")
       :: regularization_params);
    ("cost_volume_confidence", ["std_intensity"],
       [ Req "confidence_method" (DMethod ["std_intensity"]);
         P "indicator" DStr (JStr "") ]);
    ("multiscale", ["fixed_zoom_pyramid"],
       [ Req "multiscale_method" (DMethod ["fixed_zoom_pyramid"]);
         P "num_scales" (DIntGe 2) (JInt 2);
         P "scale_factor" (DIntGe 2) (JInt 2);
         P "marge" (DIntGe 0) (JInt 1) ]) ].

(* O1 (DESIGN.md section 4): defaults on which the user guide and the code disagree; none of
   them is in the property's parenthesised list.  (kind, method, parameter) *)
Definition o1_defaults : list (string * string * string) :=
  [ ("cost_volume_confidence", "ambiguity", "normalization");
    ("cost_volume_confidence", "interval_bounds", "vertical_depth");
    ("cost_volume_confidence", "interval_bounds", "quantile_regularization");
    ("filter", "median_for_intervals", "vertical_depth");
    ("filter", "median_for_intervals", "quantile_regularization") ].

(* the defaults the PROPERTY TEXT itself lists (kind, method, parameter, value) *)
Definition property_defaults : list (string * string * string * jv) :=
  [ ("matching_cost", "sad", "window_size", JInt 5);
    ("matching_cost", "ssd", "window_size", JInt 5);
    ("matching_cost", "zncc", "window_size", JInt 5);
    ("matching_cost", "census", "window_size", JInt 5);
    ("matching_cost", "sad", "subpix", JInt 1);
    ("matching_cost", "census", "subpix", JInt 1);
    ("matching_cost", "zncc", "subpix", JInt 1);
    ("aggregation", "cbca", "cbca_intensity", JFloat (30 # 1));
    ("aggregation", "cbca", "cbca_distance", JInt 5);
    ("disparity", "wta", "invalid_disparity", JInt (-9999));
    ("filter", "median", "filter_size", JInt 3);
    ("filter", "median_for_intervals", "filter_size", JInt 3);
    ("filter", "bilateral", "sigma_color", JFloat (2 # 1));
    ("filter", "bilateral", "sigma_space", JFloat (6 # 1));
    ("cost_volume_confidence", "ambiguity", "eta_max", JFloat (7 # 10));
    ("cost_volume_confidence", "ambiguity", "eta_step", JFloat (1 # 100));
    ("cost_volume_confidence", "risk", "eta_max", JFloat (7 # 10));
    ("cost_volume_confidence", "risk", "eta_step", JFloat (1 # 100));
    ("validation", "cross_checking_accurate", "cross_checking_threshold", JFloat (1 # 1));
    ("multiscale", "fixed_zoom_pyramid", "num_scales", JInt 2);
    ("multiscale", "fixed_zoom_pyramid", "scale_factor", JInt 2);
    ("multiscale", "fixed_zoom_pyramid", "marge", JInt 1) ].

(* Observations (not claimed as violations): guide vs code on parameters outside the
   property's list.  Kept as data so that the evidence can quote them. *)
Definition guide_notes : list string :=
  [ "eta_max/eta_step: the guide says '>0'; the domain used is 0 < eta < 1 (eta thresholds a cost normalised to [0,1]; the code refuses eta >= 1)";
    "ambiguity_threshold: the guide says '>0 and <1'; the domain used is 0 <= t <= 1 (the code accepts both end points)";
    "ambiguity_kernel_size: the guide says '>=0'; the domain used is odd and > 0 (a centred kernel; the code refuses 0 and even sizes)";
    "interpolated_disparity: the guide's table says ""mc_cnn""; the registered name (and the guide's own text elsewhere) is ""mc-cnn""";
    "defaults normalization (guide false / code true), vertical_depth (2 / 0), quantile_regularization (0.9 / 1.0): DESIGN.md O1" ].

(* ---------------------------------------------------------------- the specification *)

Fixpoint find_doc (kind method : string) (l : list (string * list string * list param))
  : option (list param) :=
  match l with
  | [] => None
  | (k, ms, ps) :: r =>
    if String.eqb k kind && mem_str method ms then Some ps else find_doc kind method r
  end.

Fixpoint find_param (n : string) (ps : list param) : option param :=
  match ps with
  | [] => None
  | p :: r => if String.eqb n (p_name p) then Some p else find_param n r
  end.

(* a completed step configuration is acceptable iff every key is a documented parameter whose
   value is in its domain and every non-optional parameter is present *)
Definition acceptable (ps : list param) (cfg : dict) : bool :=
  forallb (fun kv => match find_param (fst kv) ps with
                     | Some p => in_dom (p_dom p) (snd kv)
                     | None => false
                     end) cfg
  && forallb (fun p => p_optional p || has_key (p_name p) cfg) ps.

(* "every user-supplied key keeps its value and position, every omitted optional parameter
   appears with its default": the completed configuration is the user's, followed by the
   defaults of the parameters the user omitted (in SOME order: [perm] of the missing ones) *)
Definition missing_defaults (ps : list param) (cfg : dict) : dict :=
  flat_map (fun p => match p_default p with
                     | Some v => if has_key (p_name p) cfg then [] else [(p_name p, v)]
                     | None => []
                     end) ps.
