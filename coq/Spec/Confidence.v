(* Spec for C12, written from the property sentence and the user guide
   (docs/source/userguide/step_by_step/cost_volume_confidence.rst), pixel by pixel.
   Nothing here mentions repeat/tile/argsort/fold over datasets.  Costs are already
   normalised ((c - min) / (max - min) over the whole volume); [None] is a NaN cost,
   which the code documents as "counts as within" (masked to -inf). *)
From Coq Require Import ZArith QArith List Bool.
Import ListNotations.
Open Scope Z_scope.

Definition scost := option Q.

(* "normalised cost within eta of the reference (the pixel's best cost)" *)
Definition within (ref eta : Q) (c : scost) : Prop :=
  match c with None => True | Some x => (x <= ref + eta)%Q end.
Definition within_b (ref eta : Q) (c : scost) : bool :=
  match c with None => true | Some x => Qle_bool x (ref + eta) end.

(* Amb(eta) = Card{ d | cost(d) within eta of the best } *)
Definition spec_card (ref eta : Q) (nc : list scost) : Z :=
  Z.of_nat (length (filter (within_b ref eta) nc)).

(* ambiguity integral = sum of Amb(eta) over the eta samples *)
Fixpoint spec_amb (ref : Q) (etas : list Q) (nc : list scost) : Z :=
  match etas with [] => 0 | e :: r => spec_card ref e nc + spec_amb ref r nc end.

(* the pixel's best cost for a dissimilarity measure: a finite cost of the curve that none beats *)
Definition is_best_min (c : list scost) (m : Q) : Prop :=
  In (Some m) c /\ forall x, In (Some x) c -> (m <= x)%Q.

(* disparity (index) d is retained for eta *)
Definition retained (ref eta : Q) (nc : list scost) (d : Z) : Prop :=
  exists j c, d = Z.of_nat j /\ nth_error nc j = Some c /\ within ref eta c.

(* least / greatest element of a set of indices *)
Definition least (P : Z -> Prop) (m : Z) : Prop := P m /\ forall d, P d -> m <= d.
Definition greatest (P : Z -> Prop) (m : Z) : Prop := P m /\ forall d, P d -> d <= m.

(* Risk(eta) = max(d) - min(d) over the retained disparities *)
Definition spec_spread (ref eta : Q) (nc : list scost) (s : Z) : Prop :=
  exists lo hi, least (retained ref eta nc) lo /\ greatest (retained ref eta nc) hi /\ s = hi - lo.

(* possibility of disparity d: pi(d) = 1 - |cost(d) - best| (normalised costs) *)
Definition selected (thr : Q) (ps : list scost) (d : Z) : Prop :=
  exists j p, d = Z.of_nat j /\ nth_error ps j = Some (Some p) /\ (thr <= p)%Q.

(* bands only appended: [new] extends [old] by exactly [added], nothing else moves *)
Definition appended {A : Type} (old added new : list A) : Prop := new = old ++ added.

(* std_intensity: the w x w window of the image whose top-left corner is (r, c), row by row;
   its variance is the mean of the squares minus the square of the mean *)
Definition window (w : nat) (img : list (list Q)) (r c : nat) : list Q :=
  concat (map (fun row => firstn w (skipn c row)) (firstn w (skipn r img))).
Fixpoint qsum (l : list Q) : Q := match l with [] => 0%Q | x :: r => (x + qsum r)%Q end.
Definition window_variance (w : nat) (win : list Q) : Q :=
  let n := inject_Z (Z.of_nat (w * w)) in
  (qsum (map (fun x => x * x) win) / n - (qsum win / n) * (qsum win / n))%Q.
