(* Spec of property C14 (filling of occlusions and mismatches after the cross-check), written
   from the property sentence and the user guide (docs/source/userguide/step_by_step/
   validation.rst: "the disparity of an occluded pixel is modified using the first valid
   disparity from the left ... the median of the first 16 valid pixels in the directions
   shown" / "the smallest disparity in 8 directions ... the median of the first 8 valid pixels
   ... Mismatches that are direct neighbours of occluded pixel are treated as occlusions"),
   pixel by pixel, as relations between the map before and the map after.
   Rows and columns are the image's (r = row, c = column); nothing here mentions kernels,
   loops, argmax, argsort, +=, np.zeros cells or path lengths. *)
From Coq Require Import ZArith QArith Qabs List Bool Sorted Permutation.
From Pandora Require Import Spec.CrossCheck.   (* spec_valid (none of bits 0,1,6,7,8,9), is_border *)
Import ListNotations.
Open Scope Z_scope.

(* bit [a] is replaced by bit [b]: [a] cleared, [b] set, every other bit as before *)
Definition swapped (a b : Z) (m m' : Z) : Prop :=
  forall n, 0 <= n ->
    Z.testbit m' n = if n =? a then false else if n =? b then true else Z.testbit m n.

(* the finite values of a list of disparities (None = NaN) *)
Definition finite (l : list (option Q)) : list Q :=
  flat_map (fun o => match o with Some q => [q] | None => [] end) l.

(* m is the median of the non-empty list l: middle element of l sorted, mean of the two
   middle ones when the length is even *)
Definition is_median (l : list Q) (m : Q) : Prop :=
  exists s, Permutation l s /\ StronglySorted Qle s /\ (0 < length s)%nat /\
    (m == if Nat.even (length s)
          then (nth (Nat.pred (Nat.div2 (length s))) s 0 + nth (Nat.div2 (length s)) s 0) * (1 # 2)
          else nth (Nat.div2 (length s)) s 0)%Q.

(* x is the second element of l ordered by absolute value (Hirschmuller's "second lowest"; the
   property sentence only asks for "taken from valid pixels along the scan directions") *)
Definition is_second_lowest_abs (l : list Q) (x : Q) : Prop :=
  exists s, Permutation l s /\ StronglySorted (fun a b => (Qabs a <= Qabs b)%Q) s /\
            nth_error s 1 = Some x.

(* ---- scan paths: the pixel visited at step i = 1, 2, ... from (r, c) *)
Definition leftwards (r c : Z) (i : Z) : Z * Z := (r, c - i).
Definition rightwards (r c : Z) (i : Z) : Z * Z := (r, c + i).
(* a direction (drow, dcol) in whole pixels *)
Definition straight (d : Z * Z) (r c : Z) (i : Z) : Z * Z := (r + fst d * i, c + snd d * i).
(* a direction (drow, dcol) in half pixels, sampled at integer steps, truncated towards zero *)
Definition halfstep (d : Z * Z) (r c : Z) (i : Z) : Z * Z :=
  (r + Z.quot (fst d * i) 2, c + Z.quot (snd d * i) 2).

(* the 8 directions of sgm (drow, dcol) and the 16 of mc-cnn (in half pixels): the outline of
   the 3x3 and of the 5x5 square around the pixel *)
Definition dirs8_rc : list (Z * Z) :=
  [(1, 0); (1, -1); (0, -1); (-1, -1); (-1, 0); (-1, 1); (0, 1); (1, 1)].
Definition dirs16_rc : list (Z * Z) :=
  [(2, 0); (2, -1); (2, -2); (1, -2); (0, -2); (-1, -2); (-2, -2); (-2, -1);
   (-2, 0); (-2, 1); (-2, 2); (-1, 2); (0, 2); (1, 2); (2, 2); (2, 1)].

Section Map.
  Variables nr nc : Z.                    (* the map has nr rows and nc columns *)
  Variable disp : Z -> Z -> option Q.     (* disparity map before; None = NaN *)
  Variable mask : Z -> Z -> Z.            (* validity mask before *)

  Definition inside (p : Z * Z) : Prop := 0 <= fst p < nr /\ 0 <= snd p < nc.
  Definition valid_at (p : Z * Z) : Prop := spec_valid (mask (fst p) (snd p)) = true.
  Definition disp_at (p : Z * Z) : option Q := disp (fst p) (snd p).

  (* the first valid pixel of a path is the one of step k: the path has not left the map up to
     step k and no earlier pixel is valid *)
  Definition first_valid (path : Z -> Z * Z) (k : Z) : Prop :=
    1 <= k /\ (forall j, 1 <= j <= k -> inside (path j)) /\ valid_at (path k) /\
    (forall j, 1 <= j < k -> ~ valid_at (path j)).
  (* no valid pixel before the path leaves the map *)
  Definition no_valid (path : Z -> Z * Z) : Prop :=
    forall k, 1 <= k -> (forall j, 1 <= j <= k -> inside (path j)) -> ~ valid_at (path k).
  (* what a path contributes: the disparity of its first valid pixel, nothing (NaN) without one *)
  Definition contributes (path : Z -> Z * Z) (o : option Q) : Prop :=
    (exists k, first_valid path k /\ o = disp_at (path k)) \/ (no_valid path /\ o = None).

  Definition unchanged (r c : Z) (d' : option Q) (m' : Z) : Prop := d' = disp r c /\ m' = mask r c.

  (* ---------- mc-cnn, occlusions: first valid pixel to the left, else to the right *)
  Definition mc_occlusion_px (r c : Z) (d' : option Q) (m' : Z) : Prop :=
    (Z.testbit (mask r c) 8 = false /\ unchanged r c d' m') \/
    (Z.testbit (mask r c) 8 = true /\
     ((exists k, first_valid (leftwards r c) k /\ d' = disp r (c - k) /\ swapped 8 4 (mask r c) m') \/
      (no_valid (leftwards r c) /\
       exists k, first_valid (rightwards r c) k /\ d' = disp r (c + k) /\ swapped 8 4 (mask r c) m') \/
      (no_valid (leftwards r c) /\ no_valid (rightwards r c) /\ unchanged r c d' m'))).

  (* ---------- mismatches: median of the first valid pixels of the directions [dirs] *)
  Definition median_fill (path : Z * Z -> Z -> Z -> Z -> Z * Z) (dirs : list (Z * Z))
             (r c : Z) (d' : option Q) (m' : Z) : Prop :=
    exists nb, Forall2 (fun d o => contributes (path d r c) o) dirs nb /\
      ((finite nb <> [] /\ (exists x, d' = Some x /\ is_median (finite nb) x) /\
        swapped 9 5 (mask r c) m') \/
       (finite nb = [] /\ unchanged r c d' m')).

  Definition mc_mismatch_px (r c : Z) (d' : option Q) (m' : Z) : Prop :=
    (Z.testbit (mask r c) 9 = false /\ unchanged r c d' m') \/
    (Z.testbit (mask r c) 9 = true /\ median_fill halfstep dirs16_rc r c d' m').

  (* ---------- sgm, mismatches: an occlusion when it touches one, else median of 8 directions *)
  Definition touches_occlusion (r c : Z) : Prop :=
    exists r' c', inside (r', c') /\ r - 1 <= r' <= r + 1 /\ c - 1 <= c' <= c + 1 /\
                  Z.testbit (mask r' c') 8 = true.
  Definition sgm_mismatch_px (r c : Z) (d' : option Q) (m' : Z) : Prop :=
    (Z.testbit (mask r c) 9 = false /\ unchanged r c d' m') \/
    (Z.testbit (mask r c) 9 = true /\ touches_occlusion r c /\
     d' = disp r c /\ swapped 9 8 (mask r c) m') \/
    (Z.testbit (mask r c) 9 = true /\ ~ touches_occlusion r c /\
     median_fill straight dirs8_rc r c d' m').

  (* ---------- sgm, occlusions: second lowest |d| among the first valid pixels of 8 directions *)
  Definition sgm_occlusion_px (r c : Z) (d' : option Q) (m' : Z) : Prop :=
    (Z.testbit (mask r c) 8 = false /\ unchanged r c d' m') \/
    (Z.testbit (mask r c) 8 = true /\
     exists nb, Forall2 (fun d o => contributes (straight d r c) o) dirs8_rc nb /\
       (((2 <= length (finite nb))%nat /\
         (exists x, d' = Some x /\ is_second_lowest_abs (finite nb) x) /\
         swapped 8 4 (mask r c) m') \/
        ((length (finite nb) < 2)%nat /\ unchanged r c d' m'))).
End Map.

(* one pass over the map: every pixel is treated from the map BEFORE the pass *)
Definition pass (px : Z -> Z -> (Z -> Z -> option Q) -> (Z -> Z -> Z) -> Z -> Z -> option Q -> Z -> Prop)
           (nr nc : Z) (disp : Z -> Z -> option Q) (mask : Z -> Z -> Z)
           (disp' : Z -> Z -> option Q) (mask' : Z -> Z -> Z) : Prop :=
  forall r c, 0 <= r < nr -> 0 <= c < nc -> px nr nc disp mask r c (disp' r c) (mask' r c).

(* mc-cnn: occlusions, then mismatches (which see filled occlusions as valid pixels), then the
   border of width [off] is re-marked (bit 0 only) when off > 0 *)
Definition mc_cnn_spec (nr nc off : Z) (disp : Z -> Z -> option Q) (mask : Z -> Z -> Z)
           (disp' : Z -> Z -> option Q) (mask' : Z -> Z -> Z) : Prop :=
  exists d1 m1 m2,
    pass mc_occlusion_px nr nc disp mask d1 m1 /\
    pass mc_mismatch_px nr nc d1 m1 disp' m2 /\
    forall r c, 0 <= r < nr -> 0 <= c < nc ->
      mask' r c = if (0 <? off) && is_border nr nc off r c then 1 else m2 r c.

(* sgm: mismatches (possibly turned into occlusions), then occlusions; no border re-marking *)
Definition sgm_spec (nr nc : Z) (disp : Z -> Z -> option Q) (mask : Z -> Z -> Z)
           (disp' : Z -> Z -> option Q) (mask' : Z -> Z -> Z) : Prop :=
  exists d1 m1,
    pass sgm_mismatch_px nr nc disp mask d1 m1 /\
    pass sgm_occlusion_px nr nc d1 m1 disp' mask'.

(* ---- the clauses of the property sentence, on a map before / after *)
Definition flagged (m : Z) : bool := Z.testbit m 8 || Z.testbit m 9.
(* a flagged pixel counts as filled when it ends with neither bit 8 nor bit 9 *)
Definition filled (m m' : Z) : Prop := flagged m = true /\ flagged m' = false.
(* every valid pixel of the map holds a finite disparity between lo and hi *)
Definition valid_range (nr nc : Z) (disp : Z -> Z -> option Q) (mask : Z -> Z -> Z) (lo hi : Q) : Prop :=
  forall r c, 0 <= r < nr -> 0 <= c < nc -> spec_valid (mask r c) = true ->
    exists q, disp r c = Some q /\ (lo <= q <= hi)%Q.
(* the cross-check never leaves both bits on a pixel (C07_xcheck_never_both) *)
Definition never_both (nr nc : Z) (mask : Z -> Z -> Z) : Prop :=
  forall r c, 0 <= r < nr -> 0 <= c < nc -> Z.testbit (mask r c) 8 && Z.testbit (mask r c) 9 = false.

(* "no valid pixel in sight": every pixel of the map lying on one of the scan directions from
   (r, c) is plainly invalid (neither valid nor itself an occlusion / mismatch waiting to be
   filled) *)
Definition dead (m : Z) : Prop := spec_valid m = false /\ flagged m = false.
Definition nothing_in_sight (path : Z * Z -> Z -> Z -> Z -> Z * Z) (dirs : list (Z * Z))
           (nr nc : Z) (mask : Z -> Z -> Z) (r c : Z) : Prop :=
  forall d i, In d dirs -> 1 <= i -> inside nr nc (path d r c i) ->
    dead (mask (fst (path d r c i)) (snd (path d r c i))).
