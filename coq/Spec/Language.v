(* The documented sequencing automaton, written by hand from
   docs/source/userguide/sequencing.rst and the text of property C01:
     matching_cost from begin; aggregation, optimization, semantic_segmentation,
     cost_volume_confidence while in cost_volume; disparity into disp_map;
     then filter, refinement, validation, multiscale.
   Nothing here looks at the code's tables. *)
From Coq Require Import List Bool.
From Pandora Require Import Model.Machine.
Import ListNotations.

Definition doc_next (st : state) (k : kind) : option state :=
  match st, k with
  | Begin, MC => Some CostVolume
  | CostVolume, (Agg | Seg | Opt | Cvc) => Some CostVolume
  | CostVolume, Dsp => Some DispMap
  | DispMap, (Flt | Ref | Val | Msc) => Some DispMap
  | _, _ => None
  end.

Fixpoint doc_path (st : state) (ks : list kind) : option state :=
  match ks with
  | [] => Some st
  | k :: r => match doc_next st k with Some d => doc_path d r | None => None end
  end.

Definition doc_accepts (ks : list kind) : bool :=
  match doc_path Begin ks with Some _ => true | None => false end.

(* The same language as a regular shape:
     []  |  MC (Agg|Seg|Opt|Cvc)*  |  MC (Agg|Seg|Opt|Cvc)* Dsp (Flt|Ref|Val|Msc)*   *)
Definition cv_kind (k : kind) : bool :=
  match k with Agg | Seg | Opt | Cvc => true | _ => false end.
Definition dm_kind (k : kind) : bool :=
  match k with Flt | Ref | Val | Msc => true | _ => false end.

Inductive shape : list kind -> Prop :=
| shape_nil : shape []
| shape_cv : forall a, forallb cv_kind a = true -> shape (MC :: a)
| shape_dm : forall a b, forallb cv_kind a = true -> forallb dm_kind b = true ->
                         shape (MC :: a ++ Dsp :: b).

(* kinds spelled by a pipeline; None when some name is not one of the ten kinds *)
Fixpoint kinds_of (p : list step) : option (list kind) :=
  match p with
  | [] => Some []
  | s :: r =>
    match s_kind s, kinds_of r with
    | Some k, Some ks => Some (k :: ks)
    | _, _ => None
    end
  end.

(* ---- expected callback trace of a run (C01 "takes effect exactly once per
   processed scale, in the configured order, left then right") ---- *)
Open Scope Z_scope.
From Coq Require Import ZArith.

Fixpoint upto_msc (p : list step) : list step :=
  match p with
  | [] => []
  | s :: r => if is_kind Msc s then [s] else s :: upto_msc r
  end.

Definition step_evs (rdm : bool) (scale : Z) (s : step) : list ev :=
  match s_kind s with
  | Some k => evs rdm scale (s_id s) k
  | None => []
  end.

Definition scale_trace (rdm : bool) (scale : Z) (l : list step) : list ev :=
  flat_map (step_evs rdm scale) l.

(* scales j, j-1, ..., 1 : the steps up to and including the multiscale step *)
Fixpoint coarse_traces (rdm : bool) (p : list step) (j : nat) : list ev :=
  match j with
  | O => []
  | S j' => scale_trace rdm (Z.of_nat j) (upto_msc p) ++ coarse_traces rdm p j'
  end.

(* scale 0: every step once, the multiscale steps being silent *)
Definition expected_trace (p : list step) (n : nat) (rdm : bool) : list ev :=
  coarse_traces rdm p (n - 1)
  ++ scale_trace rdm 0 (filter (fun s => negb (is_kind Msc s)) p).
