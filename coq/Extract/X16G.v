(* Extraction of the REGENERATED dataset functions (Gen/DatasetFns.v) for a direct comparison of
   Gen.DatasetFns.create_dataset_from_inputs with the real create_dataset_from_inputs: it exercises
   the translator and the primitives of Model/DatasetPrims.v against numpy / xarray / rasterio,
   including what the hand-written model does not hold (dims of im, band_disp labels,
   disparity_source, a key that is absent versus a key given as None).
   Kept apart from X16.v so that the model still runs when the translation fails.
   ExtrOcamlBasic directives only. *)
Require Extraction.
Require Import ExtrOcamlBasic.
From Coq Require Import ZArith QArith List Bool String.
From Pandora Require Import Lib.Value Model.Dataset Model.DatasetPrims Gen.Window Gen.DatasetFns.
Import ListNotations.
Open Scope Z_scope.

(* ---- wire format (same as X16.v for samples / arrays) *)
Definition dec_sample (v : value) : sample :=
  match v with
  | VL [] => SNaN
  | VL [VZ s] => SInf (0 <? s)
  | VL [VZ n; VZ d] => SFin (Qmake n (Z.to_pos d))
  | VZ n => SFin (inject_Z n)
  | _ => SNaN
  end.
Definition enc_sample (s : sample) : value :=
  match s with
  | SNaN => VL []
  | SInf true => VL [VZ 1]
  | SInf false => VL [VZ (-1)]
  | SFin q => of_q q
  end.

Definition getz {A} (d : A) (l : list A) (i : Z) : A :=
  if i <? 0 then d else nth (Z.to_nat i) l d.

Definition dec_arr {A} (f : value -> A) (d : A) (v : value) : arr A :=
  let rows := map (fun r => map f (as_l r)) (as_l v) in
  mkArr (Z.of_nat (Datatypes.length rows)) (Z.of_nat (Datatypes.length (hd [] rows)))
        (fun r c => getz d (getz [] rows r) c).
Definition enc_arr {A} (f : A -> value) (a : arr A) : value :=
  VL [VZ (nr a); VZ (nc a);
      VL (map (fun r => VL (map (fun c => f (px a r c)) (zrange 0 (nc a)))) (zrange 0 (nr a)))].

Definition enc_opt {A} (f : A -> value) (o : option A) : value :=
  match o with Some x => VL [f x] | None => VL [] end.

(* an optional key: () absent | (()) None | ((x)) a value *)
Definition dec_key {A} (f : value -> A) (v : value) : option (option A) :=
  match v with
  | VL [] => None
  | VL [VL []] => Some None
  | VL [VL [x]] => Some (Some (f x))
  | _ => None
  end.

Definition dec_disp (v : value) : disp_input :=
  match v with
  | VL [VZ 1; VZ a; VZ b] => DispPair a b
  | VL [VZ 2; g1; g2] => DispGrid (dec_arr dec_sample SNaN g1) (dec_arr dec_sample SNaN g2)
  | _ => DispNone
  end.

Definition dec_file (v : value) : rfile Z :=
  mkRfile (as_zs (vnth 0 v)) (map (dec_arr as_z 0) (as_l (vnth 1 v))).

(* inputs : (bands names nodata mask-key disp-key classif-key segm-key); a disp key is () absent | (d) *)
Definition dec_xinputs (v : value) : xinputs :=
  mkXin (mkRfile (as_zs (vnth 1 v)) (map (dec_arr dec_sample SNaN) (as_l (vnth 0 v))))
        (dec_sample (vnth 2 v))
        (dec_key dec_file (vnth 3 v))
        (match vnth 4 v with VL [d] => Some (dec_disp d) | _ => None end)
        (dec_key dec_file (vnth 5 v))
        (dec_key dec_file (vnth 6 v)).

Definition dec_roi (v : value) : option roi_t :=
  match as_zs v with
  | [cf; cl; rf; rl; m0; m1; m2; m3] => Some (mkRoi cf cl rf rl m0 m1 m2 m3)
  | _ => None
  end.

(* dimension / label names *)
Definition str_code (s : string) : Z :=
  if String.eqb s "row" then 0 else if String.eqb s "col" then 1 else if String.eqb s "band_im" then 2
  else if String.eqb s "min" then 3 else if String.eqb s "max" then 4 else (-1).
Definition enc_strs (l : list string) : value := VL (map (fun s => VZ (str_code s)) l).

Definition enc_disp_source (d : disp_input) : value :=
  match d with DispNone => VZ 0 | DispPair a b => VL [VZ a; VZ b] | DispGrid _ _ => VZ 2 end.

Definition enc_xds (d : xds) : value :=
  VL [VZ (match x_im d with Nd2 _ => 2 | Nd3 _ => 3 end);
      VL (map (enc_arr enc_sample) (nd_bands (x_im d)));
      enc_strs (x_im_dims d);
      enc_opt of_zs (x_band_im d);
      of_zs (x_row d); of_zs (x_col d);
      VL [VZ (x_valid_pixels d); VZ (x_no_data_mask d)];
      enc_opt enc_sample (x_no_data_img d);
      enc_opt enc_disp_source (x_disparity_source d);
      enc_opt (enc_arr VZ) (x_msk d);
      enc_opt enc_strs (x_band_disp d);
      enc_opt (fun l => VL (map (enc_arr enc_sample) l)) (x_disparity d);
      enc_opt of_zs (x_band_classif d);
      enc_opt (fun l => VL (map (enc_arr VZ) l)) (x_classif d);
      enc_opt (enc_arr VZ) (x_segm d)].

(* fid 1: (xinputs roi?) -> (1 dataset) | (0) outside | (-1) negative *)
Definition dispatch (fid : Z) (v : value) : value :=
  match fid with
  | 1 => match create_dataset_from_inputs (dec_xinputs (vnth 0 v)) (dec_roi (vnth 1 v)) with
         | COk d => VL [VZ 1; enc_xds d]
         | CRaiseOutside => VL [VZ 0]
         | CRaiseNegative => VL [VZ (-1)]
         end
  | _ => VL [VZ (-1)]
  end.

Extraction "../build/x16g/model.ml" dispatch.
