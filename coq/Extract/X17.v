(* Extraction of the dataset-check and input-section models (C17 correspondence) and of the
   boolean Spec [documented_b] (oracle of the failing-input search).  ExtrOcamlBasic only.

   wire formats (Lib/Value.v, Model/JsonWire.v):
     dataset   (im band_im disp vars attrs)
       im       () | ((shape) (cells))            cells: () = NaN | (num den)
       band_im  () | ((b ...))                    b: 1 when the band name is a str
       disp     () | ((shape) has_coord (labels) (pixels))   label 0 = "min", 1 = "max", k >= 2 other
                                                  pixels: one list of cells (one per band) per pixel
       vars     ((name-codes (shape)) ...)        attrs ((codes) ...)
     file system  ((path-codes (w h count gt)) | (path-codes) ...)   absent path = cannot be opened
     outcome   (0) returned normally | (1 class)  class: 1 AttributeError 2 TypeError 3 ValueError
                                                  4 KeyError 5 IndexError 6 json-checker 7 rasterio IO *)
Require Extraction.
Require Import ExtrOcamlBasic.
From Coq Require Import ZArith QArith List String Bool.
From Pandora Require Import Lib.Value Model.Json Model.JsonWire Model.Checker Model.DatasetCheck
  Model.InputCheck Model.InputInst Spec.WellFormed.
Import ListNotations.
Open Scope Z_scope.

Definition dec_label (z : Z) : label := match z with 0 => LMin | 1 => LMax | _ => LOther z end.

Definition dec_image (v : value) : option image :=
  match v with
  | VL [s; c] => Some (mkImage (as_zs s) (map as_oq (as_l c)))
  | _ => None
  end.

Definition dec_disp (v : value) : option disparity :=
  match v with
  | VL [s; h; ls; px] =>
    Some (mkDisp (as_zs s) (as_b h) (map (fun x => dec_label (as_z x)) (as_l ls))
                 (map (fun p => map as_oq (as_l p)) (as_l px)))
  | _ => None
  end.

Definition dec_ds (v : value) : dataset :=
  mkDs (dec_image (vnth 0 v))
       (match vnth 1 v with VL [b] => Some (map as_b (as_l b)) | _ => None end)
       (dec_disp (vnth 2 v))
       (map (fun e => (as_str (vnth 0 e), as_zs (vnth 1 e))) (as_l (vnth 3 v)))
       (map as_str (as_l (vnth 4 v))).

Definition exc_code (e : exc) : Z :=
  match e with
  | EAttribute => 1 | EType => 2 | EValue => 3 | EKey => 4 | EIndex => 5 | ESchema => 6 | EIO => 7
  end.

Definition enc_unit (r : res unit) : value :=
  match r with Ok _ => VL [VZ 0] | Raise e => VL [VZ 1; VZ (exc_code e)] end.

Definition dec_fs (v : value) : string -> option finfo :=
  let table := map (fun e => (as_str (vnth 0 e),
                              match vnth 1 e with
                              | VL [w; h; c; g] => Some (mkF (as_z w) (as_z h) (as_z c) (as_b g))
                              | _ => None
                              end)) (as_l v) in
  fun p => match find (fun e => String.eqb p (fst e)) table with
           | Some (_, f) => f
           | None => None
           end.

Definition dispatch (fid : Z) (v : value) : value :=
  match fid with
  (* 1: (left right) -> check_datasets *)
  | 1 => enc_unit (pandora_check_datasets (dec_ds (vnth 0 v)) (dec_ds (vnth 1 v)))
  (* 2: (fs user) -> check_input_section: (0 cfg) | (1 class) *)
  | 2 =>
    match pandora_check_input_section (dec_fs (vnth 0 v)) (dec_jv (vnth 1 v)) with
    | Ok cfg => VL [VZ 0; enc_jv cfg]
    | Raise e => VL [VZ 1; VZ (exc_code e)]
    end
  (* 3: (fs cfg) -> SPEC: is the completed configuration a documented form *)
  | 3 => of_b (documented_b (dec_fs (vnth 0 v)) (dec_jv (vnth 1 v)))
  (* 4: (fs cfg) -> the part of check_input_section after update_conf *)
  | 4 => enc_unit (pandora_check_completed (dec_fs (vnth 0 v)) (dec_jv (vnth 1 v)))
  (* 5: (dataset) -> check_dataset alone *)
  | 5 => enc_unit (check_dataset Gen.InputFlow.mandatory_attributes (dec_ds (vnth 0 v)))
  (* 6: (fs user) -> check_input_section(get_config_input(user)), the first thing check_conf does *)
  | 6 =>
    match pandora_check_conf_input (dec_fs (vnth 0 v)) (dec_jv (vnth 1 v)) with
    | Ok cfg => VL [VZ 0; enc_jv cfg]
    | Raise e => VL [VZ 1; VZ (exc_code e)]
    end
  | _ => VL [VZ (-1)]
  end.

Extraction "../build/x17/model.ml" dispatch.
