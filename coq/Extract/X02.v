(* Extraction of the matching-cost model (Model/MatchingCost.v) and of the executable form of the
   C02 spec (Spec/Cost.v) for the correspondence check and the spec check of C02 / C09.
   Directives: ExtrOcamlBasic only. *)
Require Extraction.
Require Import ExtrOcamlBasic.
From Coq Require Import ZArith List QArith.
From Pandora Require Import Lib.Value Model.MatchingCost Spec.Cost.
Import ListNotations.
Open Scope Z_scope.

(* list of rows -> total function (0 outside; the theorems hold for every extension) *)
Definition img_of (l : list (list Z)) : img :=
  fun r c => if (r <? 0) || (c <? 0) then 0 else nth (Z.to_nat c) (nth (Z.to_nat r) l []) 0.
Definition oimg_of (v : value) : option img :=
  match as_l v with [] => None | _ => Some (img_of (as_zss v)) end.

(* wire format of a case:
   (measure w s bands_left bands_right band_index maskL|() maskR|() gmin gmax) *)
Definition dec_input (v : value) : mc_input :=
  let bl := map as_zss (as_l (vnth 3 v)) in
  let br := map as_zss (as_l (vnth 4 v)) in
  let b := as_z (vnth 5 v) in
  let l := select_band bl b [] in
  let r := select_band br b [] in
  let ny := Z.of_nat (length l) in
  let nx := Z.of_nat (length (nth 0 l [])) in
  MkIn ny nx (as_z (vnth 1 v)) (as_z (vnth 2 v))
       (memo2 ny nx (img_of l)) (memo2 ny nx (img_of r))
       (oimg_of (vnth 6 v)) (oimg_of (vnth 7 v)) 0 1
       (img_of (as_zss (vnth 8 v))) (img_of (as_zss (vnth 9 v))).

Definition tab3 {A : Type} (ny nx nd : Z) (enc : A -> value) (f : Z -> Z -> Z -> A) : value :=
  VL (map (fun r => VL (map (fun c => VL (map (fun k => enc (f r c k)) (zrange 0 nd))) (zrange 0 nx)))
          (zrange 0 ny)).

Definition enc_triple (o : option (Z * Z * Z)) : value :=
  match o with Some (a, b, c) => VL [VZ a; VZ b; VZ c] | None => VL [] end.
Definition enc_qtriple (o : option (Q * Q * Q)) : value :=
  match o with Some (a, b, c) => VL [of_q a; of_q b; of_q c] | None => VL [] end.

(* fid 1: the model.  result ((dmin dmax nd type_measure_min cmax) volume) *)
Definition run_model (v : value) : value :=
  let inp := dec_input v in
  let ny := i_ny inp in let nx := i_nx inp in
  let dmin := grid_min ny nx (i_gmin inp) in
  let dmax := grid_max ny nx (i_gmax inp) in
  let nd := nb_disp (i_s inp) dmin dmax in
  let hdr m := VL [VZ dmin; VZ dmax; VZ nd; of_b (type_measure_min m); VZ (cmax m inp)] in
  match as_z (vnth 0 v) with
  | 0 => VL [hdr Sad; tab3 ny nx nd of_oq (sad_volume inp dmin dmax)]
  | 1 => VL [hdr Ssd; tab3 ny nx nd of_oq (ssd_volume inp dmin dmax)]
  | 2 => VL [hdr Census; tab3 ny nx nd of_oq (census_volume inp dmin dmax)]
  | 3 => VL [hdr Zncc; tab3 ny nx nd enc_triple (zncc_volume inp dmin dmax)]
  | _ => VL [VZ (-1)]
  end.

(* fid 2: the spec applied to every (r, c, sample) of the interval [dmin, dmax] given in the case *)
Definition run_spec (v : value) : value :=
  let inp := dec_input v in
  let ny := i_ny inp in let nx := i_nx inp in
  let s := i_s inp in let w := i_w inp in
  let dmin := as_z (vnth 10 v) in
  let dmax := as_z (vnth 11 v) in
  let nd := nb_disp s dmin dmax in
  let comp := computable ny nx w s (i_mL inp) (i_mR inp) (i_vp inp) (i_nd inp) (i_gmin inp) (i_gmax inp) in
  let cell (cost : Z -> Z -> Z -> Q) r c k :=
    let D := dmin * s + k in if comp r c D then Some (cost r c D) else None in
  match as_z (vnth 0 v) with
  | 0 => tab3 ny nx nd of_oq (cell (sad_spec w s (i_L inp) (i_R inp)))
  | 1 => tab3 ny nx nd of_oq (cell (ssd_spec w s (i_L inp) (i_R inp)))
  | 2 => tab3 ny nx nd of_oq (cell (census_spec w s (i_L inp) (i_R inp)))
  | 3 => tab3 ny nx nd enc_qtriple
           (fun r c k => let D := dmin * s + k in
                         if comp r c D then Some (zncc_cov w s (i_L inp) (i_R inp) r c D,
                                                  zncc_varl w s (i_L inp) (i_R inp) r c D,
                                                  zncc_varr w s (i_L inp) (i_R inp) r c D) else None)
  | _ => VL [VZ (-1)]
  end.

(* fid 3: does the step raise on this input? (measure ny nx w s) -> bool *)
Definition run_raises (v : value) : value :=
  let m := match as_z (vnth 0 v) with 0 => Sad | 1 => Ssd | 2 => Census | _ => Zncc end in
  of_b (mc_raises m (as_z (vnth 1 v)) (as_z (vnth 2 v)) (as_z (vnth 3 v)) (as_z (vnth 4 v))).

Definition dispatch (fid : Z) (v : value) : value :=
  match fid with
  | 1 => run_model v
  | 2 => run_spec v
  | 3 => run_raises v
  | _ => VL [VZ (-1)]
  end.

Extraction "../build/x02/model.ml" dispatch.
