(* Extraction of the margins model for the C20 correspondence check
   (ExtrOcamlBasic directives only). *)
Require Extraction.
Require Import ExtrOcamlBasic.
From Coq Require Import ZArith List QArith.
From Pandora Require Import Lib.Value Model.Machine Model.Margins Gen.Margins Extract.X01.
Import ListNotations.
Open Scope Z_scope.

Definition fm_of (z : Z) : fmethod :=
  match z with 1 => FBilateral | 2 => FMedianForIntervals | _ => FMedian end.

(* a step on the wire: (id kindcode fmethod win fsize sigma mcstep) *)
Definition dec_mstep (v : value) : mstep :=
  mkMs (as_z (vnth 0 v))
       (match kind_of_code (as_z (vnth 1 v)) with Some k => k | None => Cvc end)
       (fm_of (as_z (vnth 2 v))) (as_z (vnth 3 v)) (as_z (vnth 4 v)) (as_q (vnth 5 v)) (as_z (vnth 6 v)).

Definition enc_mg (m : margins) : value := of_zs [mg_l m; mg_u m; mg_r m; mg_d m].
Definition enc_md (d : mdict) : value := VL (map (fun kv => VL [VZ (fst kv); enc_mg (snd kv)]) d).
Definition enc_g (g : gmargins) : value := VL [enc_md (g_cum g); enc_md (g_non g); enc_mg (global_margins g)].

(* fid 1: ((rows_l cols_l) (rows_r cols_r) pipeline) -> () on KeyError | ((cum non global)) *)
Definition dispatch (fid : Z) (v : value) : value :=
  match fid with
  | 1 =>
    let sl := (as_z (vnth 0 (vnth 0 v)), as_z (vnth 1 (vnth 0 v))) in
    let sr := (as_z (vnth 0 (vnth 1 v)), as_z (vnth 1 (vnth 1 v))) in
    match check_margins gen_margin_tables sl sr 1 g0 (map dec_mstep (as_l (vnth 2 v))) with
    | Some g => VL [enc_g g]
    | None => VL []
    end
  (* fid 2: ((rows cols) pipeline_A pipeline_B) -> margins after checking A then B on ONE machine
     (ids are shared between the two pipelines: one id per step name) *)
  | 2 =>
    let sl := (as_z (vnth 0 (vnth 0 v)), as_z (vnth 1 (vnth 0 v))) in
    let pa := map dec_mstep (as_l (vnth 1 v)) in
    let pb := map dec_mstep (as_l (vnth 2 v)) in
    match machine_check_margins gen_check_resets_margins gen_margin_tables sl sl 1 g0 pa with
    | Some ga =>
      let st := match pa with s :: _ => ms_mcstep s | [] => 1 end in
      match machine_check_margins gen_check_resets_margins gen_margin_tables sl sl st ga pb with
      | Some g => VL [enc_g g]
      | None => VL []
      end
    | None => VL [VZ (-2)]
    end
  | _ => VL [VZ (-1)]
  end.

Extraction "../build/x20/model.ml" dispatch.
