(* Extraction of the criteria / flag-step models and of the boolean spec for the C04
   correspondence check.  ExtrOcamlBasic directives only. *)
Require Extraction.
Require Import ExtrOcamlBasic.
From Coq Require Import ZArith List Bool.
From Pandora Require Import Lib.Value Model.Criteria Model.FlagSteps Spec.Validity Gen.Flags.
Import ListNotations.
Open Scope Z_scope.

Definition E0 : env := mkEnv consts flag_sites.

(* a matrix given as rows; reads outside are 0 (the models only read inside, see CriteriaP) *)
Definition at2 (rows : list (list Z)) (r c : Z) : Z :=
  if (r <? 0) || (c <? 0) then 0
  else nth (Z.to_nat c) (nth (Z.to_nat r) rows []) 0.

Definition matrix (nr nc : Z) (f : Z -> Z -> Z) : value :=
  VL (map (fun r => VL (map (fun c => VZ (f r c)) (zrange 0 (nc - 1)))) (zrange 0 (nr - 1))).

(* fid 1: (nr nc off dmin dmax lhas rhas lmask rmask l_nd l_vl r_nd r_vl allnan stage)
          stage 0 -> mask after criteria.validity_mask, stage 1 -> after cv_masked *)
Definition do_criteria (v : value) : value :=
  let lmask := as_zss (vnth 7 v) in
  let rmask := as_zss (vnth 8 v) in
  let an := as_zss (vnth 13 v) in
  let L := mkLayout (as_z (vnth 0 v)) (as_z (vnth 1 v)) (as_z (vnth 2 v)) (as_z (vnth 3 v)) (as_z (vnth 4 v))
                    (as_b (vnth 5 v)) (as_b (vnth 6 v)) (at2 lmask) (at2 rmask)
                    (as_z (vnth 9 v)) (as_z (vnth 10 v)) (as_z (vnth 11 v)) (as_z (vnth 12 v)) in
  if as_z (vnth 14 v) =? 0 then matrix (nr L) (nc L) (validity_mask_px E0 L)
  else matrix (nr L) (nc L) (after_mc E0 L (fun r c => negb (at2 an r c =? 0))).

(* fid 2: (nr nc off dmin dmax lclass rclass lmin lmax), classes 0 valid / 1 no data / 2 masked
          -> (expected flags, no_cost) by the hand-written spec *)
Definition do_spec (v : value) : value :=
  let lc := as_zss (vnth 5 v) in
  let rc := as_zss (vnth 6 v) in
  let gmin := as_zss (vnth 7 v) in
  let gmax := as_zss (vnth 8 v) in
  let S := mkScene (as_z (vnth 0 v)) (as_z (vnth 1 v)) (as_z (vnth 2 v)) (as_z (vnth 3 v)) (as_z (vnth 4 v))
                   (fun r c => at2 lc r c =? 1) (fun r c => at2 lc r c =? 2)
                   (fun r c => at2 rc r c =? 1) (fun r c => at2 rc r c =? 2)
                   (at2 gmin) (at2 gmax) in
  VL [matrix (s_nr S) (s_nc S) (expected_flag S);
      matrix (s_nr S) (s_nc S) (fun r c => if no_cost_b S r c then 1 else 0)].

(* decisions *)
Definition all_rdec : list rdec := [RNan; RMethod false; RMethod true; RBound].
Definition all_xdec : list xdec := [XOk; XInval false; XInval true; XOutside].
Definition bools : list bool := [false; true].
Definition all_decs : list dec :=
  flat_map (fun a => flat_map (fun b => flat_map (fun c => flat_map (fun d => flat_map (fun e => flat_map (fun g =>
    map (fun f => mkDec a b c d g e f) bools) bools) bools) bools) bools) all_xdec) all_rdec.

Definition step_of (code icode : Z) : fstep :=
  match code with
  | 0 => SFlt false | 1 => SFlt true | 2 => SRef
  | 3 => SVal (match icode with 1 => IMcCnn | 2 => ISgm | _ => INone end)
  | _ => SMsc
  end.

Fixpoint dedup (l : list Z) : list Z :=
  match l with
  | [] => []
  | x :: r => if existsb (Z.eqb x) r then dedup r else x :: dedup r
  end.

(* fid 3: (stepcode icode offpos border m) -> (the flags the step can produce over all decisions,
          "every += / -= was carry-free for every decision") *)
Definition do_step (v : value) : value :=
  let s := step_of (as_z (vnth 0 v)) (as_z (vnth 1 v)) in
  VL [of_zs (dedup (map (fun d => t_step E0 (as_b (vnth 2 v)) (as_b (vnth 3 v)) s d (as_z (vnth 4 v))) all_decs));
      of_b (forallb (fun d => ok_step E0 (as_b (vnth 2 v)) (as_b (vnth 3 v)) s d (as_z (vnth 4 v))) all_decs)].

(* fid 4: () -> (wf_env of the generated data, classes of unjustified repetition) *)
Definition do_env (_ : value) : value :=
  VL [of_b (wf_env E0); of_zs (unsafe_classes E0)].

(* fid 5: (offpos border ((stepcode icode rcode xcode left fill near reg fillm) ...) m0) -> trace of flags *)
Definition dec_of (v : value) : dec :=
  mkDec (nth (as_nat (vnth 2 v)) all_rdec RNan) (nth (as_nat (vnth 3 v)) all_xdec XOk)
        (as_b (vnth 4 v)) (as_b (vnth 5 v)) (as_b (vnth 8 v)) (as_b (vnth 6 v)) (as_b (vnth 7 v)).
Fixpoint trace_flags (offpos border : bool) (p : list (fstep * dec)) (m : Z) : list Z :=
  match p with
  | [] => [m]
  | (s, d) :: r => m :: trace_flags offpos border r (t_step E0 offpos border s d m)
  end.
Definition do_run (v : value) : value :=
  let p := map (fun x => (step_of (as_z (vnth 0 x)) (as_z (vnth 1 x)), dec_of x)) (as_l (vnth 2 v)) in
  of_zs (trace_flags (as_b (vnth 0 v)) (as_b (vnth 1 v)) p (as_z (vnth 3 v))).

(* fid 6: (offpos (stepcode icode) ...) -> guard of the pipeline theorem for the tree under test *)
Definition do_guard (v : value) : value :=
  of_b (pipeline_guard E0 true true (map (fun x => step_of (as_z (vnth 0 x)) (as_z (vnth 1 x))) (as_l v))).

Definition dispatch (fid : Z) (v : value) : value :=
  match fid with
  | 1 => do_criteria v
  | 2 => do_spec v
  | 3 => do_step v
  | 4 => do_env v
  | 5 => do_run v
  | 6 => do_guard v
  | _ => VL [VZ (-1)]
  end.

Extraction "../build/x04/model.ml" dispatch.
