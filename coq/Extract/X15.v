(* Extraction of the multiscale model for the C15 correspondence check.
   ExtrOcamlBasic directives only. *)
Require Extraction.
Require Import ExtrOcamlBasic.
From Coq Require Import ZArith QArith List Bool.
From Pandora Require Import Lib.Value Model.Dataset Model.Machine Model.Multiscale Gen.MsConst Spec.Language Spec.Multiscale.
Import ListNotations.
Open Scope Z_scope.

Definition getz {A} (d : A) (l : list A) (i : Z) : A :=
  if i <? 0 then d else nth (Z.to_nat i) l d.

Definition dec_arr {A} (f : value -> A) (d : A) (v : value) : arr A :=
  let rows := map (fun r => map f (as_l r)) (as_l v) in
  mkArr (Z.of_nat (length rows)) (Z.of_nat (length (hd [] rows)))
        (fun r c => getz d (getz [] rows r) c).
Definition enc_arr {A} (f : A -> value) (a : arr A) : value :=
  VL [VZ (nr a); VZ (nc a);
      VL (map (fun r => VL (map (fun c => f (px a r c)) (zrange 0 (nc a)))) (zrange 0 (nr a)))].

Definition dec_opt {A} (f : value -> A) (v : value) : option A :=
  match v with VL [x] => Some (f x) | _ => None end.
Definition enc_opt {A} (f : A -> value) (o : option A) : value :=
  match o with Some x => VL [f x] | None => VL [] end.

Definition dec_step (v : value) : step_cfg :=
  mkStepCfg (as_b (vnth 0 v)) (as_oz (vnth 1 v)) (as_oz (vnth 2 v)).

Definition dec_dv (v : value) : arr (option Q) * arr Z :=
  (dec_arr as_oq None (vnth 0 v), dec_arr as_z 0 (vnth 1 v)).
Definition dec_map (v : value) : Z -> Z := let l := as_zs v in fun o => getz (-1) l o.
Definition dec_level (v : value) : level :=
  mkLevel (as_z (vnth 0 v)) (dec_dv (vnth 1 v)) (dec_opt dec_dv (vnth 2 v))
          (dec_map (vnth 3 v), dec_map (vnth 4 v)).

Definition enc_pair (p : option Q * option Q) : value := VL [of_oq (fst p); of_oq (snd p)].
Definition enc_grids (g : grids) : value :=
  match g with
  | GConst h w i => VL [VZ 0; VZ h; VZ w; of_q (fst i); of_q (snd i)]
  | GMap a => VL [VZ 1; enc_arr enc_pair a]
  end.

Definition kind_of_code (z : Z) : option kind :=
  match z with
  | 0 => Some MC | 1 => Some Agg | 2 => Some Seg | 3 => Some Opt | 4 => Some Dsp
  | 5 => Some Flt | 6 => Some Ref | 7 => Some Val | 8 => Some Msc | 9 => Some Cvc
  | _ => None
  end.
Definition dec_pstep (v : value) : step := mkStep (as_z (vnth 0 v)) (kind_of_code (as_z (vnth 1 v))).

(* fid 1: steps -> (num_scales scale_factor)
   fid 2: (n sf k) -> size of level k
   fid 3: (invalid_bits marge sf dmin dmax H W n with_right levels) -> grids of every execution
   fid 4: (sf mask) -> decimated mask
   fid 5: (sf n) -> zoom index map of an axis of length n
   fid 6: (ws marge sf D V ulo uhi h w Gmin Gmax) -> the pixels of the h x w finer level whose observed
          interval is not prescribed by Spec.Multiscale.finer_spec (the extracted spec checker)
   fid 7: (n H W sf rdm pre ms post), steps as (id kindcode) -> the executions of Spec.spec_trace with the image
          size during each of them (Model image_sizes), and the size of the returned map (output_size) *)
Definition dispatch (fid : Z) (v : value) : value :=
  match fid with
  | 1 => let '(n, sf) := read_multiscale_params ms_default_num_scales ms_default_scale_factor (map dec_step (as_l v)) in VL [VZ n; VZ sf]
  | 2 => VZ (level_size (as_nat (vnth 2 v)) (as_z (vnth 0 v)) (as_z (vnth 1 v)))
  | 3 => VL (map (fun p => VL [enc_grids (fst p); enc_opt enc_grids (snd p)])
                 (run_grids (as_z (vnth 0 v)) (as_z (vnth 1 v)) (as_z (vnth 2 v)) (as_z (vnth 3 v))
                            (as_z (vnth 4 v)) (as_z (vnth 5 v)) (as_z (vnth 6 v)) (as_nat (vnth 7 v))
                            (as_b (vnth 8 v)) (map dec_level (as_l (vnth 9 v)))))
  | 4 => enc_arr VZ (decimate (as_z (vnth 0 v)) (dec_arr as_z 0 (vnth 1 v)))
  | 5 => let sf := as_z (vnth 0 v) in let n := as_z (vnth 1 v) in
         of_zs (map (zoom_idx sf n) (zrange 0 (sf * n)))
  | 6 => let Dm := dec_arr as_oq None (vnth 3 v) in
         let Vm := dec_arr as_z 0 (vnth 4 v) in
         let gmin := dec_arr as_oq None (vnth 9 v) in
         let gmax := dec_arr as_oq None (vnth 10 v) in
         VL (map (fun p => VL [VZ (fst p); VZ (snd p)])
                 (finer_spec_bad (as_z (vnth 0 v)) (as_z (vnth 1 v)) (as_z (vnth 2 v)) (nr Dm) (nc Dm) (px Dm) (px Vm)
                                 (as_q (vnth 5 v)) (as_q (vnth 6 v)) (as_z (vnth 7 v)) (as_z (vnth 8 v))
                                 (fun r c => (px gmin r c, px gmax r c))))
  | 7 => let n := as_nat (vnth 0 v) in
         let tr := spec_trace (map dec_pstep (as_l (vnth 5 v))) (dec_pstep (vnth 6 v))
                              (map dec_pstep (as_l (vnth 7 v))) n (as_b (vnth 4 v)) in
         let H := as_z (vnth 1 v) in let W := as_z (vnth 2 v) in let sf := as_z (vnth 3 v) in
         let o := output_size n H W sf tr in
         VL [VL (map (fun ep => match fst ep with
                                | Ev id k sc r => VL [VZ id; VZ (kind_code k); VZ sc; of_b r; VZ (fst (snd ep)); VZ (snd (snd ep))]
                                end) (image_sizes n H W sf tr));
             VL [VZ (fst o); VZ (snd o)]]
  | _ => VL [VZ (-1)]
  end.

Extraction "../build/x15/model.ml" dispatch.
