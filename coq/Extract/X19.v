(* Extraction of the save_results model (run on the call table regenerated from /repo) and of
   the configuration flow of pandora.main for the C19 correspondence check.
   ExtrOcamlBasic directives only. *)
Require Extraction.
Require Import ExtrOcamlBasic.
From Coq Require Import ZArith QArith List String Bool.
From Pandora Require Import Lib.Value Model.Json Model.JsonWire Model.JsonText Model.Checker Model.Pipeline
  Model.Save Model.SavedCfg Model.SavedFile Proofs.SavedCfgP Gen.Schemas Gen.SavePlan.
Import ListNotations.
Open Scope Z_scope.

(* px on the wire: z (integer sample) | () (NaN) | (num den) (finite float) *)
Definition dec_px (v : value) : px :=
  match v with
  | VZ z => PI z
  | VL [VZ n; VZ d] => PF (Some (Qmake n (Z.to_pos d)))
  | _ => PF None
  end.
Definition enc_px (p : px) : value :=
  match p with PI z => VZ z | PF None => VL [] | PF (Some q) => of_q q end.

Definition dec_rows (v : value) : list (list px) := map (fun r => map dec_px (as_l r)) (as_l v).
Definition dec_cube (v : value) : list (list (list px)) :=
  map (fun r => map (fun c => map dec_px (as_l c)) (as_l r)) (as_l v).

(* product: (disp mask conf geo), conf = () | ((name ...) cube) *)
Definition dec_product (v : value) : product Z :=
  mkProduct (dec_rows (vnth 0 v)) (dec_rows (vnth 1 v))
            (match vnth 2 v with
             | VL [ns; cube] => Some (map as_str (as_l ns), dec_cube cube)
             | _ => None
             end)
            (as_z (vnth 3 v)).

Definition enc_tif (f : tif Z) : value :=
  VL [of_str (f_path f); VZ (match f_dtype f with F32 => 0 | U16 => 1 end);
      VL (map (fun b => VL (map (fun r => VL (map enc_px r)) b)) (f_bands f));
      match f_names f with Some ns => VL [VL (map of_str ns)] | None => VL [] end;
      VZ (f_geo f)].

(* the samples of the correspondence are already of the file's dtype: no rounding happens *)
Definition rnd_id (q : Q) : Q := q.

Definition gen_defs : input_defs :=
  mkInputDefs input_configuration_schema_left input_configuration_schema_right
              input_configuration_schema_integer_disparity_left input_configuration_schema_integer_disparity_right
              input_configuration_schema_left_disparity_grids_right_none_left
              input_configuration_schema_left_disparity_grids_right_none_right
              input_configuration_schema_left_disparity_grids_right_grids_left
              input_configuration_schema_left_disparity_grids_right_grids_right
              default_short_configuration_input.

(* (user left_img_path bands_left bands_right) *)
Definition bands_fn (v : value) : jv -> list jv :=
  let li := dec_jv (vnth 1 v) in
  let bl := match dec_jv (vnth 2 v) with JList l => l | _ => [] end in
  let br := match dec_jv (vnth 3 v) with JList l => l | _ => [] end in
  fun p => if jv_eqb p li then bl else br.

Definition all_ok2 (_ _ : jv) : bool := true.
Definition all_ok1 (_ : dict) : bool := true.

Definition dispatch (fid : Z) (v : value) : value :=
  match fid with
  (* 1: (left right) , right = () | (product) -> () when a call raises, else ((files...)) *)
  | 1 =>
    let left := dec_product (vnth 0 v) in
    let right := match vnth 1 v with VL [p] => Some (dec_product p) | _ => None end in
    match run_calls rnd_id Z otd left right save_calls with
    | Some fs => VL [VL (map enc_tif fs)]
    | None => VL []
    end
  (* 2: (user left_img bands_left bands_right margins) -> what main hands to json.dump *)
  | 2 => enc_odict (main_saved gen_defs open_orc all_ok2 all_ok1 (bands_fn v) classes interpolation_methods
                               (dec_jv (vnth 4 v)) (dec_dict (vnth 0 v)))
  (* 3: (user left_img bands_left bands_right) -> check_conf *)
  | 3 => enc_odict (full_check gen_defs open_orc all_ok2 all_ok1 (bands_fn v) classes interpolation_methods
                               (dec_dict (vnth 0 v)))
  (* 4: as 2, the code before fix e44909e (regression witness D8) *)
  | 4 => enc_odict (main_saved_before gen_defs open_orc all_ok2 all_ok1 (bands_fn v) classes interpolation_methods
                                      (dec_jv (vnth 4 v)) (dec_dict (vnth 0 v)))
  (* 5: step name -> the indicator the run stores *)
  | 5 => of_str (indicator_of (as_str v))
  (* 6: the path of config.json in the output tree *)
  | 6 => match out_path otd "config.json" with Some p => VL [of_str p] | None => VL [] end
  (* 7: (user left_img bands_left bands_right) -> the guard of the replay theorems *)
  | 7 => of_b (replay_guard gen_defs open_orc all_ok2 all_ok1 (bands_fn v) classes interpolation_methods
                            (dec_dict (vnth 0 v)))
  (* 8: text (char codes) -> json.loads : (1 value) | (0) *)
  | 8 => match parse (as_str v) with Some x => VL [VZ 1; enc_jv x] | None => VL [VZ 0] end
  (* 9: value -> json.dumps without white space (char codes) *)
  | 9 => of_str (print (dec_jv v))
  (* 10: value -> is it in the JSON subset of Model/JsonText.v *)
  | 10 => of_b (printable (dec_jv v))
  (* 11: (text left_img bands_left bands_right margins) -> the text of cfg/config.json : (1 text) | (0) *)
  | 11 => match main_file gen_defs open_orc all_ok2 all_ok1 (bands_fn v) classes interpolation_methods
                          (dec_jv (vnth 4 v)) (as_str (vnth 0 v)) with
          | Some t => VL [VZ 1; of_str t]
          | None => VL [VZ 0]
          end
  | _ => VL [VZ (-1)]
  end.

Extraction "../build/x19/model.ml" dispatch.
