(* Extraction for the C08 correspondence: the write-set the model predicts for
   each run callback (generated call structure + hand-written `mutated` table). *)
Require Extraction.
Require Import ExtrOcamlBasic.
From Coq Require Import ZArith List Bool.
From Pandora Require Import Lib.Value Model.Mirror Proofs.MirrorP Gen.Callbacks.
Import ListNotations.
Open Scope Z_scope.

Definition slot_code (x : slot) : Z :=
  match x with
  | Limg => 0 | Rimg => 1 | Lcv => 2 | Rcv => 3 | Ldisp => 4 | Rdisp => 5
  | Lmin => 6 | Lmax => 7 | Rmin => 8 | Rmax => 9
  | Lumin => 10 | Lumax => 11 | Rumin => 12 | Rumax => 13 | Lpyr => 14 | Rpyr => 15
  end.
Definition cb_of_code (z : Z) : cbname :=
  match z with
  | 0 => CbMcPrepare | 1 => CbMcRun | 2 => CbAgg | 3 => CbSeg | 4 => CbOpt | 5 => CbDsp
  | 6 => CbFlt | 7 => CbRef | 8 => CbVal | 9 => CbMsc | _ => CbCvc
  end.

(* slots possibly written by a callback: (with right products) (without) *)
Definition cb_writes (rdm : bool) (c : cbname) : list slot :=
  flat_map (fun sg => writes_blk (sg_left sg)
                      ++ (if (negb (sg_guarded sg) || rdm)%bool then writes_blk (sg_right sg) else []))
           (gen_callback c).

Definition dispatch (fid : Z) (v : value) : value :=
  match fid with
  | 1 => VL [of_zs (map slot_code (cb_writes true (cb_of_code (as_z v))));
             of_zs (map slot_code (cb_writes false (cb_of_code (as_z v))))]
  | _ => VL [VZ (-1)]
  end.

Extraction "../build/x08/model.ml" dispatch.
