(* Extraction of the GENERATED array functions of the census and zncc rasters (Gen/CensusZnccFns.v, regenerated from
   the source at every run) so that harness/mc_fns.py can run them next to the real Census.popcount32b,
   census_transform, compute_mean_raster, compute_std_raster and masks_dilatation: a direct check of the translator's
   reading of numpy (Lib/NpArr.v: uint32 wrap-around, slices, as_strided, cumulative sums, binary_dilation),
   independent of the proofs Gen = Model.
   Directives: ExtrOcamlBasic only. *)
Require Extraction.
Require Import ExtrOcamlBasic.
From Coq Require Import ZArith List Bool QArith.
From Pandora Require Import Lib.Value Model.MatchingCost Lib.NpArr.
From Pandora Require Gen.CensusZnccFns.
Import ListNotations.
Open Scope Z_scope.

Definition img_of (l : list (list Z)) : img :=
  fun r c => if (r <? 0) || (c <? 0) then 0 else nth (Z.to_nat c) (nth (Z.to_nat r) l []) 0.
Definition arr_of (l : list (list Z)) : arr Z :=
  np_of (Z.of_nat (length l)) (Z.of_nat (length (nth 0 l []))) (img_of l).

(* an array as (valid, rows, columns, the values row by row) -- no value when it is not valid *)
Definition enc_arr {A : Type} (enc : A -> value) (a : arr A) : value :=
  if a_ok a
  then VL [VZ 1; VZ (a_nr a); VZ (a_nc a);
           VL (map (fun r => VL (map (fun c => enc (a_at a r c)) (zrange 0 (a_nc a)))) (zrange 0 (a_nr a)))]
  else VL [VZ 0; VZ (a_nr a); VZ (a_nc a); VL []].

(* fid 1: (x ...) -> (popcount32b x ...) *)
Definition run_popcount (v : value) : value := of_zs (map CensusZnccFns.popcount32b (as_zs v)).
(* fid 2: (image w) -> census_transform *)
Definition run_census (v : value) : value :=
  enc_arr VZ (CensusZnccFns.census_transform (arr_of (as_zss (vnth 0 v))) (as_z (vnth 1 v))).
(* fid 3 / 4: (image w) -> compute_mean_raster / the array compute_std_raster takes the square root of *)
Definition run_mean (v : value) : value :=
  enc_arr of_q (CensusZnccFns.compute_mean_raster (arr_of (as_zss (vnth 0 v))) (as_z (vnth 1 v))).
Definition run_var (v : value) : value :=
  enc_arr of_q (CensusZnccFns.compute_std_raster_var (arr_of (as_zss (vnth 0 v))) (as_z (vnth 1 v))).
(* fid 5: (ny nx w s vp nd has_mL mL has_mR mR vpr ndr) -> (left right shift-or-()) of cv_masked's masks_dilatation call *)
Definition opt_mask (has : value) (m : value) : option img := if as_b has then Some (img_of (as_zss m)) else None.
Definition run_masks (v : value) : value :=
  let ny := as_z (vnth 0 v) in let nx := as_z (vnth 1 v) in
  let vp := as_z (vnth 4 v) in let nd := as_z (vnth 5 v) in
  let dl := ds_of ny nx vp nd (fun _ _ => 0) (opt_mask (vnth 6 v) (vnth 7 v)) in
  let dr := ds_of ny nx (as_z (vnth 10 v)) (as_z (vnth 11 v)) (fun _ _ => 0) (opt_mask (vnth 8 v) (vnth 9 v)) in
  let res := CensusZnccFns.cv_masked_masks dl dr (as_z (vnth 2 v)) (as_z (vnth 3 v)) in
  VL [enc_arr of_b (fst res); enc_arr of_b (fst (snd res));
      match snd (snd res) with Some sh => enc_arr of_b sh | None => VL [] end].
(* fid 6: (x y) -> census_cost_cell x y *)
Definition run_cost_cell (v : value) : value :=
  VZ (CensusZnccFns.census_cost_cell (as_z (vnth 0 v)) (as_z (vnth 1 v))).

Definition dispatch (fid : Z) (v : value) : value :=
  match fid with
  | 1 => run_popcount v
  | 2 => run_census v
  | 3 => run_mean v
  | 4 => run_var v
  | 5 => run_masks v
  | 6 => run_cost_cell v
  | _ => VL [VZ (-1)]
  end.

Extraction "../build/x02f/model.ml" dispatch.
