(* Extraction of the configuration-checking model and of the documented-domain spec for the
   C05 correspondence check.  ExtrOcamlBasic directives only. *)
Require Extraction.
Require Import ExtrOcamlBasic.
From Coq Require Import ZArith List String Bool.
From Pandora Require Import Lib.Value Model.Json Model.JsonWire Model.Checker Model.Pipeline
  Spec.Domains Gen.Schemas.
Import ListNotations.
Open Scope Z_scope.

Definition class_by_name (kind method : string) : option class_def :=
  find (fun c => String.eqb (c_kind c) kind && mem_str method (c_names c)) classes.

Definition dec_source (z : Z) : disp_source :=
  match z with 1 => SrcList | 2 => SrcGrid | _ => SrcNone end.

(* images on the wire: (bands_left bands_right src_left src_right), bands = JSON list *)
Definition dec_images (v : value) : images :=
  mkImages (match dec_jv (vnth 0 v) with JList l => l | _ => [] end)
           (match dec_jv (vnth 1 v) with JList l => l | _ => [] end)
           (dec_source (as_z (vnth 2 v))) (dec_source (as_z (vnth 3 v))).

Definition schema_of_param (c : class_def) (k : string) : option schema :=
  match find (fun e => String.eqb (fst (fst e)) k) (c_schema c) with
  | Some (_, _, s) => Some s
  | None => None
  end.

Definition dispatch (fid : Z) (v : value) : value :=
  match fid with
  (* 1: (kind method grids cfg) -> check_conf of the class registered under that name *)
  | 1 =>
    match class_by_name (as_str (vnth 0 v)) (as_str (vnth 1 v)) with
    | Some c => enc_odict (class_check no_oracle (as_b (vnth 2 v)) c (dec_dict (vnth 3 v)))
    | None => VL [VZ (-1)]
    end
  (* 2: (kind grids cfg) -> the abstract class called with **cfg (registry dispatch) *)
  | 2 => enc_odict (step_check no_oracle classes (as_b (vnth 1 v)) (as_str (vnth 0 v)) (dec_dict (vnth 2 v)))
  (* 3: (def user) -> update_conf *)
  | 3 => enc_odict (update_conf (dec_dict (vnth 0 v)) (dec_dict (vnth 1 v)))
  (* 4: (kind method param value) -> does the generated schema of that parameter accept the value *)
  | 4 =>
    match class_by_name (as_str (vnth 0 v)) (as_str (vnth 1 v)) with
    | Some c =>
      match schema_of_param c (as_str (vnth 2 v)) with
      | Some s => of_b (accepts no_oracle s (dec_jv (vnth 3 v)))
      | None => VZ (-1)
      end
    | None => VZ (-1)
    end
  (* 5: (kind method param value) -> SPEC: is the value in the documented domain *)
  | 5 =>
    match find_doc (as_str (vnth 0 v)) (as_str (vnth 1 v)) documented with
    | Some ps =>
      match find_param (as_str (vnth 2 v)) ps with
      | Some p => of_b (in_dom (p_dom p) (dec_jv (vnth 3 v)))
      | None => VZ (-1)
      end
    | None => VZ (-1)
    end
  (* 6: (images user) -> check_pipeline_section *)
  | 6 => enc_odict (pipeline_check classes interpolation_methods (dec_images (vnth 0 v)) (dec_dict (vnth 1 v)))
  (* 7: (kind method cfg) -> SPEC: (acceptable, user cfg followed by the documented defaults
        of the omitted parameters) for a step configuration after "NaN"/"inf" conversion *)
  | 7 =>
    match find_doc (as_str (vnth 0 v)) (as_str (vnth 1 v)) documented with
    | Some ps =>
      let cfg := dec_dict (vnth 2 v) in
      let full := (cfg ++ missing_defaults ps cfg)%list in
      VL [of_b (acceptable ps full); enc_jv (JDict full)]
    | None => VL [VZ (-1)]
    end
  | _ => VL [VZ (-1)]
  end.

Extraction "../build/x05/model.ml" dispatch.
