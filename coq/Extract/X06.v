(* Extraction of the refinement model for the C06 correspondence check.
   Directives used: those of ExtrOcamlBasic only. *)
Require Extraction.
Require Import ExtrOcamlBasic.
From Coq Require Import ZArith QArith List.
From Pandora Require Import Lib.Value Model.Refine Gen.RefineConsts.
Import ListNotations.
Open Scope Z_scope.

Definition K : consts := mkK msk_invalid msk_stopped.

Definition dec_measure (v : value) : measure := if as_z v =? 0 then MMin else MMax.
Definition dec_method (v : value) : method := if as_z v =? 0 then Vfit else Quadratic.
Definition dec_cv (v : value) : list (option Q) := map as_oq (as_l v).
(* a pixel on the wire: ((c ...) disp mask) *)
Definition dec_pixel (v : value) : pixel := mkPx (dec_cv (vnth 0 v)) (as_oq (vnth 1 v)) (as_z (vnth 2 v)).

Definition enc_mres (r : mres) : value :=
  match r with
  | MOk sh co fl => VL [VZ 0; of_q sh; of_q co; VZ fl]
  | MRaise => VL [VZ 1]
  end.
Definition enc_px (t : option Q * option Q * Z) : value :=
  let '(d, c, k) := t in VL [of_oq d; of_oq c; VZ k].
Definition enc_ires (r : ires) : value :=
  match r with
  | IOk l => VL [VZ 0; VL (map enc_px l)]
  | IRaise => VL [VZ 1]
  | IOut => VL [VZ 2]
  end.
Definition enc_pres (r : pres) : value :=
  match r with
  | POk d c k => VL [VZ 0; of_oq d; of_oq c; VZ k]
  | PRaise => VL [VZ 1]
  | POut => VL [VZ 2]
  end.

(* fid 1: (method measure c0 c1 c2)                       -> one call of refinement_method
   fid 2: ((method ...) measure dmin dmax subpix pixels)  -> the steps applied in sequence to the same volume
   fid 3: (method measure dmin dmax subpix cvs ((col disp mask) ...)) -> loop_approximate_refinement, one row *)
Definition dispatch (fid : Z) (v : value) : value :=
  match fid with
  | 1 => enc_mres (run_method K (dec_method (vnth 0 v)) (dec_measure (vnth 1 v))
                              (as_oq (vnth 2 v)) (as_q (vnth 3 v)) (as_oq (vnth 4 v)))
  | 2 => let px := map dec_pixel (as_l (vnth 5 v)) in
         enc_ires (refine_steps K (map dec_method (as_l (vnth 0 v))) (dec_measure (vnth 1 v))
                                (as_q (vnth 2 v)) (as_q (vnth 3 v)) (as_z (vnth 4 v)) px [])
  | 3 => let cvs := map dec_cv (as_l (vnth 5 v)) in
         VL (map (fun p => enc_pres (approx_pixel K (dec_method (vnth 0 v)) (dec_measure (vnth 1 v))
                                                  (as_q (vnth 2 v)) (as_q (vnth 3 v)) (as_z (vnth 4 v)) cvs
                                                  (as_z (vnth 0 p)) (as_oq (vnth 1 p)) (as_z (vnth 2 p))))
                 (as_l (vnth 6 v)))
  | _ => VL [VZ (-1)]
  end.

Extraction "../build/x06/model.ml" dispatch.
