(* Extraction of the cross-checking model (C07 correspondence) and of the boolean
   form of the Spec (oracle of the failing-input search).
   Directives: ExtrOcamlBasic only. *)
Require Extraction.
Require Import ExtrOcamlBasic.
From Coq Require Import ZArith QArith List.
From Pandora Require Import Lib.Value Model.CrossCheck Spec.CrossCheck.
Import ListNotations.
Open Scope Z_scope.

Definition fn_of_rows {A} (d : A) (rows : list (list A)) : Z -> Z -> A :=
  fun r c => if (r <? 0) || (c <? 0) then d
             else nth (Z.to_nat c) (nth (Z.to_nat r) rows []) d.
Definition rows_of_fn {A} (nr nc : Z) (f : Z -> Z -> A) : list (list A) :=
  map (fun r => map (fun c => f r c) (zrange 0 nc)) (zrange 0 nr).

Definition as_oqss (v : value) : list (list (option Q)) := map (fun r => map as_oq (as_l r)) (as_l v).
Definition of_conf (c : conf) : value :=
  match c with CNan => VL [] | CInf => VL [VZ 1] | CFin q => of_q q end.

(* (nr nc disp mask dmin dmax offset) ; bands are not sent: the new band is returned *)
Definition dec_ds (v : value) : dataset :=
  mkDS (as_z (vnth 0 v)) (as_z (vnth 1 v))
       (fn_of_rows None (as_oqss (vnth 2 v)))
       (fn_of_rows 0 (as_zss (vnth 3 v)))
       []
       (as_z (vnth 4 v)) (as_z (vnth 5 v)) (as_z (vnth 6 v)).

Definition enc_verdict (v : verdict) : Z :=
  match v with Keep => 0 | Mismatch => 1 | Occlusion => 2 end.

(* fid 1: (me other thr)  -> (mask' rows, new confidence band rows)   [model of the repaired code]
   fid 2: (me other thr)  -> per pixel: -1 when not previously valid, else verdict of the Spec
   fid 3: (me other thr)  -> model of the code before the two repairs (regression only) *)
Definition run_model (fixed : bool) (v : value) : value :=
  let me := dec_ds (vnth 0 v) in
  let other := dec_ds (vnth 1 v) in
  let thr := as_q (vnth 2 v) in
  let out := (if fixed then xcheck else xcheck_before) thr me other in
  VL [ of_zss (rows_of_fn (ds_nr me) (ds_nc me) (ds_mask out));
       VL (map (fun row => VL (map of_conf row))
               (rows_of_fn (ds_nr me) (ds_nc me) (last (ds_bands out) (fun _ _ => CNan)))) ].

Definition run_spec (v : value) : value :=
  let me := dec_ds (vnth 0 v) in
  let other := dec_ds (vnth 1 v) in
  let thr := as_q (vnth 2 v) in
  of_zss (rows_of_fn (ds_nr me) (ds_nc me)
    (fun r c => if spec_valid (ds_mask me r c)
                then enc_verdict (xspec (ds_nc me) (ds_disp me r) (ds_disp other r) thr
                                        (ds_dmin me) (ds_dmax me) c)
                else -1)).

Definition dispatch (fid : Z) (v : value) : value :=
  match fid with
  | 1 => run_model true v
  | 2 => run_spec v
  | 3 => run_model false v
  | _ => VL [VZ (-1)]
  end.

Extraction "../build/x07/model.ml" dispatch.
