(* Extraction of the GENERATED index arithmetic of the matching-cost step (Gen/PointInterval.v, regenerated from
   the source at every run) so that harness/mc_gen.py can run it next to the real
   AbstractMatchingCost.point_interval / get_min_max_from_grid: a direct check of the translator's reading of the
   Python number operations (Model/PyArith.v), independent of the proofs Gen = Model.
   Directives: ExtrOcamlBasic only. *)
Require Extraction.
Require Import ExtrOcamlBasic.
From Coq Require Import ZArith List Bool.
From Pandora Require Import Lib.Value Model.MatchingCost.
From Pandora Require Gen.PointInterval.
Import ListNotations.
Open Scope Z_scope.


Definition img_of (l : list (list Z)) : img :=
  fun r c => if (r <? 0) || (c <? 0) then 0 else nth (Z.to_nat c) (nth (Z.to_nat r) l []) 0.

Definition enc_pq (pq : (Z * Z) * (Z * Z)) : value :=
  of_zs [fst (fst pq); snd (fst pq); fst (snd pq); snd (snd pq)].

(* widths of the shifted right images, as a list indexed by i_right *)
Definition widths_of (v : value) : Z -> Z := fun i => nth (Z.to_nat i) (as_zs v) (-1).

(* fid 1: (s nx_left nx_right D) -> (p0 p1 q0 q1) *)
Definition run_point_interval (v : value) : value :=
  enc_pq (PointInterval.point_interval (as_z (vnth 0 v)) (as_z (vnth 1 v)) (as_z (vnth 2 v)) (as_z (vnth 3 v))).

(* fid 2: (gmin gmax) -> (min max) *)
Definition run_min_max (v : value) : value :=
  let g := as_zss (vnth 0 v) in let h := as_zss (vnth 1 v) in
  let ny := Z.of_nat (length g) in let nx := Z.of_nat (length (nth 0 g [])) in
  let mm := PointInterval.get_min_max_from_grid ny nx (img_of g) (img_of h) in of_zs [fst mm; snd mm].

(* fid 3: (gmin gmax s nx_left widths D) -> (i_right (p0 p1 q0 q1) i_mask_right dsp) of the cv_masked loop *)
Definition run_cv_masked_loop (v : value) : value :=
  let g := as_zss (vnth 0 v) in let h := as_zss (vnth 1 v) in
  let ny := Z.of_nat (length g) in let nx := Z.of_nat (length (nth 0 g [])) in
  let '(i, pq, im, dsp) := PointInterval.cv_masked_loop (as_z (vnth 2 v)) ny nx (img_of g) (img_of h) (as_z (vnth 3 v))
                                            (widths_of (vnth 4 v)) (as_z (vnth 5 v)) in
  VL [VZ i; enc_pq pq; VZ im; VZ dsp].

(* fid 4: (gmin gmax s r c D) -> bool *)
Definition run_out_of_range (v : value) : value :=
  of_b (PointInterval.cv_masked_out_of_range (as_z (vnth 2 v)) (img_of (as_zss (vnth 0 v))) (img_of (as_zss (vnth 1 v)))
                                 (as_z (vnth 3 v)) (as_z (vnth 4 v)) (as_z (vnth 5 v))).

(* fid 5 / 6: (s nx_left widths D) -> (i_right (p0 p1 q0 q1) (first last)) of the sad-ssd / census loop *)
Definition enc_loop (res : Z * ((Z * Z) * (Z * Z)) * (Z * Z)) : value :=
  let '(i, pq, wr) := res in VL [VZ i; enc_pq pq; of_zs [fst wr; snd wr]].
Definition run_sad_ssd_loop (v : value) : value :=
  enc_loop (PointInterval.sad_ssd_loop (as_z (vnth 0 v)) (as_z (vnth 1 v)) (widths_of (vnth 2 v)) (as_z (vnth 3 v))).
Definition run_census_loop (v : value) : value :=
  enc_loop (PointInterval.census_loop (as_z (vnth 0 v)) (as_z (vnth 1 v)) (widths_of (vnth 2 v)) (as_z (vnth 3 v))).
(* fid 7: (s nx_left widths D w) -> (i_right (p0 p1 q0 q1) (first last) (p_std) (q_std)) of the zncc loop *)
Definition run_zncc_loop (v : value) : value :=
  let '(i, pq, wr, std) := PointInterval.zncc_loop (as_z (vnth 0 v)) (as_z (vnth 4 v)) (as_z (vnth 1 v))
                                                   (widths_of (vnth 2 v)) (as_z (vnth 3 v)) in
  VL [VZ i; enc_pq pq; of_zs [fst wr; snd wr]; enc_pq std].

(* fid 8: (method u maxl minl maxr minr w), method 0 = sad, 1 = ssd -> cmax *)
Definition run_cmax (v : value) : value :=
  let f := if as_z (vnth 0 v) =? 0 then PointInterval.sad_cmax else PointInterval.ssd_cmax in
  VZ (f (as_z (vnth 1 v)) (as_z (vnth 2 v)) (as_z (vnth 3 v)) (as_z (vnth 4 v)) (as_z (vnth 5 v)) (as_z (vnth 6 v))).

Definition dispatch (fid : Z) (v : value) : value :=
  match fid with
  | 1 => run_point_interval v
  | 2 => run_min_max v
  | 3 => run_cv_masked_loop v
  | 4 => run_out_of_range v
  | 5 => run_sad_ssd_loop v
  | 6 => run_census_loop v
  | 7 => run_zncc_loop v
  | 8 => run_cmax v
  | _ => VL [VZ (-1)]
  end.

Extraction "../build/x02g/model.ml" dispatch.
