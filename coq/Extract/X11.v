(* Extraction of the cbca model for the C11 correspondence check.
   Directives used: those of ExtrOcamlBasic only. *)
Require Extraction.
Require Import ExtrOcamlBasic.
From Coq Require Import ZArith QArith List.
From Pandora Require Import Lib.Value Model.Cbca.
Import ListNotations.
Open Scope Z_scope.

Definition dec_img (v : value) : img :=
  lookup None (map (fun row => map as_oq (as_l row)) (as_l v)).
Definition dec_mask (v : value) : option (Z -> Z -> Z) :=
  match as_l v with
  | [] => None
  | _ => Some (lookup (-12345) (as_zss v))
  end.
Definition dec_vol (v : value) : Z -> Z -> Z -> option Q :=
  let planes := map dec_img (as_l v) in
  fun k => if k <? 0 then (fun _ _ => None) else nth (Z.to_nat k) planes (fun _ _ => None).
Definition dec_imgs (v : value) : Z -> img :=
  let l := map dec_img (as_l v) in
  fun s => if s <? 0 then (fun _ _ => None) else nth (Z.to_nat s) l (fun _ _ => None).

(* (nr nc off subpix dist inten validL validR imL mskL imRs mskR disps cv) *)
Definition dec_in (v : value) : cbca_in :=
  mkIn (as_z (vnth 0 v)) (as_z (vnth 1 v)) (as_z (vnth 2 v)) (as_z (vnth 3 v))
       (as_z (vnth 4 v)) (as_q (vnth 5 v))
       (dec_img (vnth 8 v)) (dec_mask (vnth 9 v)) (as_z (vnth 6 v))
       (dec_imgs (vnth 10 v)) (dec_mask (vnth 11 v)) (as_z (vnth 7 v))
       (map as_q (as_l (vnth 12 v)))
       (dec_vol (vnth 13 v)).

Definition enc_plane (p : list (list (option Q))) : value := VL (map (fun row => VL (map of_oq row)) p).
Definition enc_arms (t : list (list arms)) : value :=
  VL (map (fun row => VL (map (fun a => of_zs [aL a; aR a; aT a; aB a]) row)) t).

(* fid 1: aggregated cost volume (planes x rows x cols, full size)
   fid 2: cross supports (left table, list of right tables) *)
Definition dispatch (fid : Z) (v : value) : value :=
  match fid with
  | 1 => VL (map enc_plane (cbca_volume (dec_in v)))
  | 2 => let x := dec_in v in
         VL [enc_arms (cross_left_table x);
             VL (map (fun s => enc_arms (cross_right_table x s)) (zrange 0 (i_subpix x)))]
  | _ => VL [VZ (-1)]
  end.

Extraction "../build/x11/model.ml" dispatch.
