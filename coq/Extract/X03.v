(* Extraction of the winner-takes-all model for the C03 correspondence check. *)
Require Extraction.
Require Import ExtrOcamlBasic.
From Coq Require Import ZArith QArith List.
From Pandora Require Import Lib.Value Lib.Ext Lib.Arr Lib.Blocks Model.Wta Spec.Wta Gen.Constants.
Import ListNotations.
Open Scope Z_scope.

(* a cost on the wire: () = NaN, (num den) = finite, (1) = +inf, (-1) = -inf *)
Definition dec_cost (v : value) : cost :=
  match v with
  | VL [VZ n; VZ d] => Some (Fin (Qmake n (Z.to_pos d)))
  | VL [VZ s] => Some (if 0 <? s then PInf else MInf)
  | _ => None
  end.
Definition enc_cost (c : cost) : value :=
  match c with
  | None => VL []
  | Some (Fin q) => of_q q
  | Some PInf => VL [VZ 1]
  | Some MInf => VL [VZ (-1)]
  end.

Definition dec_rows {A : Type} (f : value -> A) (v : value) : list (list A) :=
  map (fun row => map f (as_l row)) (as_l v).
Definition enc_rows {A : Type} (f : A -> value) (rows : list (list A)) : value :=
  VL (map (fun row => VL (map f row)) rows).

(* fid 1: (mx B nr nc disps invalid cv conf mask) -> (disp cv_after disp_indices conf mask)
   fid 2: (mx disps invalid costs) -> the Spec's per-pixel answer [wta_pixel] *)
Definition dispatch (fid : Z) (v : value) : value :=
  match fid with
  | 1 =>
    let mx := as_b (vnth 0 v) in
    (* B = 0 on the wire: the block size found in the source (Gen/Constants.v) *)
    let B0 := as_z (vnth 1 v) in
    let B := if B0 =? 0 then (if mx then wta_argmax_block else wta_argmin_block) else B0 in
    let nr := as_z (vnth 2 v) in
    let nc := as_z (vnth 3 v) in
    let disps := map as_q (as_l (vnth 4 v)) in
    let invalid := as_oq (vnth 5 v) in
    let cv := of_rows [] (dec_rows (fun p => map dec_cost (as_l p)) (vnth 6 v)) in
    let conf := of_rows [] (dec_rows (fun p => map as_oq (as_l p)) (vnth 7 v)) in
    let mask := of_rows 0 (dec_rows as_z (vnth 8 v)) in
    let o := to_disp mx B nr nc disps invalid cv conf mask in
    VL [ enc_rows of_oq (to_rows nr nc (o_disp o));
         enc_rows (fun p => VL (map enc_cost p)) (to_rows nr nc (o_cv o));
         enc_rows of_oq (to_rows nr nc (o_disp_indices o));
         enc_rows (fun p => VL (map of_oq p)) (to_rows nr nc (o_conf o));
         enc_rows VZ (to_rows nr nc (o_mask o)) ]
  | 2 =>
    let mx := as_b (vnth 0 v) in
    let disps := map as_q (as_l (vnth 1 v)) in
    let invalid := as_oq (vnth 2 v) in
    VL (map (fun p => of_oq (wta_pixel mx disps invalid (map dec_cost (as_l p)))) (as_l (vnth 3 v)))
  | _ => VL [VZ (-1)]
  end.

Extraction "../build/x03/model.ml" dispatch.
