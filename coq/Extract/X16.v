(* Extraction of the image-dataset model for the C16 correspondence check.
   ExtrOcamlBasic directives only. *)
Require Extraction.
Require Import ExtrOcamlBasic.
From Coq Require Import ZArith QArith List Bool.
From Pandora Require Import Lib.Value Model.Dataset Gen.Window.
Import ListNotations.
Open Scope Z_scope.

(* ---- wire format
   sample : () NaN | (1) +inf | (-1) -inf | (num den) finite
   grid   : list of rows
   window : () none | (co ro w h) *)
Definition dec_sample (v : value) : sample :=
  match v with
  | VL [] => SNaN
  | VL [VZ s] => SInf (0 <? s)
  | VL [VZ n; VZ d] => SFin (Qmake n (Z.to_pos d))
  | VZ n => SFin (inject_Z n)
  | _ => SNaN
  end.
Definition enc_sample (s : sample) : value :=
  match s with
  | SNaN => VL []
  | SInf true => VL [VZ 1]
  | SInf false => VL [VZ (-1)]
  | SFin q => of_q q
  end.

Definition getz {A} (d : A) (l : list A) (i : Z) : A :=
  if i <? 0 then d else nth (Z.to_nat i) l d.

Definition dec_arr {A} (f : value -> A) (d : A) (v : value) : arr A :=
  let rows := map (fun r => map f (as_l r)) (as_l v) in
  mkArr (Z.of_nat (length rows)) (Z.of_nat (length (hd [] rows)))
        (fun r c => getz d (getz [] rows r) c).
Definition enc_arr {A} (f : A -> value) (a : arr A) : value :=
  VL [VZ (nr a); VZ (nc a);
      VL (map (fun r => VL (map (fun c => f (px a r c)) (zrange 0 (nc a)))) (zrange 0 (nr a)))].

Definition dec_opt {A} (f : value -> A) (v : value) : option A :=
  match v with VL [x] => Some (f x) | _ => None end.
Definition enc_opt {A} (f : A -> value) (o : option A) : value :=
  match o with Some x => VL [f x] | None => VL [] end.

Definition dec_win (v : value) : option (Z * Z * Z * Z) :=
  match v with
  | VL [VZ co; VZ ro; VZ w; VZ h] => Some (co, ro, w, h)
  | _ => None
  end.

Definition dec_disp (v : value) : disp_input :=
  match v with
  | VL [VZ 1; VZ a; VZ b] => DispPair a b
  | VL [VZ 2; g1; g2] => DispGrid (dec_arr dec_sample SNaN g1) (dec_arr dec_sample SNaN g2)
  | _ => DispNone
  end.

(* inputs : (bands names nodata mask? disp classif? segm?) *)
Definition dec_inputs (v : value) : inputs :=
  mkIn (map (dec_arr dec_sample SNaN) (as_l (vnth 0 v)))
       (as_zs (vnth 1 v))
       (dec_sample (vnth 2 v))
       (dec_opt (dec_arr as_z 0) (vnth 3 v))
       (dec_disp (vnth 4 v))
       (dec_opt (fun x => (as_zs (vnth 0 x), map (dec_arr as_z 0) (as_l (vnth 1 x)))) (vnth 5 v))
       (dec_opt (dec_arr as_z 0) (vnth 6 v)).

Definition enc_dataset (d : dataset) : value :=
  VL [VL (map (enc_arr enc_sample) (d_im d));
      enc_opt of_zs (d_band_im d);
      of_zs (d_row d); of_zs (d_col d);
      enc_sample (d_nodata d);
      enc_opt (enc_arr VZ) (d_msk d);
      enc_opt (fun p => VL [enc_arr enc_sample (fst p); enc_arr enc_sample (snd p)]) (d_disp d);
      enc_opt (fun p => VL [of_zs (fst p); VL (map (enc_arr VZ) (snd p))]) (d_classif d);
      enc_opt (enc_arr VZ) (d_segm d)].

Definition enc_window (w : window_result) : value :=
  match w with
  | Window co ro w h => VL [VZ 1; VZ co; VZ ro; VZ w; VZ h]
  | RaiseOutside => VL [VZ 0]
  | RaiseNegative => VL [VZ (-1)]
  end.

Definition call_get_window (v : value) : window_result :=
  match as_zs v with
  | [cf; cl; rf; rl; m0; m1; m2; m3; w; h] => get_window cf cl rf rl m0 m1 m2 m3 w h
  | _ => RaiseNegative
  end.

(* fid 1: (cf cl rf rl m0 m1 m2 m3 width height) -> window
   fid 2: (inputs window?) -> dataset
   fid 3: (inputs roi-args) -> (window, dataset?)   the whole create_dataset_from_inputs(cfg, roi)
   fid 4: inputs -> get_metadata *)
Definition dispatch (fid : Z) (v : value) : value :=
  match fid with
  | 1 => enc_window (call_get_window v)
  | 2 => enc_dataset (create_dataset (dec_inputs (vnth 0 v)) (dec_win (vnth 1 v)))
  | 3 => let w := call_get_window (vnth 1 v) in
         match w with
         | Window co ro ww hh =>
           VL [enc_window w; enc_dataset (create_dataset (dec_inputs (vnth 0 v)) (Some (co, ro, ww, hh)))]
         | _ => VL [enc_window w]
         end
  | 4 => let '(names, rows, cols) := get_metadata (dec_inputs v) in
         VL [of_zs names; of_zs rows; of_zs cols]
  | _ => VL [VZ (-1)]
  end.

Extraction "../build/x16/model.ml" dispatch.
