(* Extraction of the IR evaluator applied to the kernels REGENERATED from the source
   (Gen/CbcaKernels.v), for the direct correspondence "evaluator on the generated tree = compiled
   numba kernel" of harness/props/c11.py (it validates the Python / numpy / IEEE semantics written
   in Lib/KernelIR.v and the translator on inputs that the pipeline never produces: arbitrary arm
   tables inside their bounds, arbitrary running sums, NaN / +-inf pixels, shuffled range_col).
   Directives used: those of ExtrOcamlBasic only. *)
Require Extraction.
Require Import ExtrOcamlBasic.
From Coq Require Import ZArith QArith List.
From Pandora Require Import Lib.Value Lib.KernelIR Gen.CbcaKernels.
Import ListNotations.
Open Scope Z_scope.

(* a cell: z -> int ; () -> NaN ; (n d) -> n/d ; (1) -> +inf ; (-1) -> -inf *)
Definition dec_val (v : value) : val :=
  match v with
  | VZ z => VInt z
  | VL [] => VFlt NaN
  | VL [VZ n; VZ d] => VFlt (Fin (Qmake n (Z.to_pos d)))
  | VL [VZ s] => VFlt (if 0 <? s then PInf else MInf)
  | _ => VFlt NaN
  end.
Definition enc_val (v : val) : value :=
  match v with
  | VInt z => VZ z
  | VFlt NaN => VL []
  | VFlt (Fin q) => of_q q
  | VFlt PInf => VL [VZ 1]
  | VFlt MInf => VL [VZ (-1)]
  end.

Definition znth {A : Type} (l : list A) (i : Z) (d : A) : A := if i <? 0 then d else nth (Z.to_nat i) l d.
Definition zlen {A : Type} (l : list A) : Z := Z.of_nat (length l).

Definition dec_arr1 (v : value) : arr :=
  let l := map dec_val (as_l v) in
  mkArr [zlen l] (fun k => match k with [i] => znth l i (VInt 0) | _ => VInt 0 end).
(* the shape is given apart so that empty axes are not lost: (n0 n1) rows *)
Definition dec_arr2 (sh v : value) : arr :=
  let t := map (fun row => map dec_val (as_l row)) (as_l v) in
  mkArr (as_zs sh) (fun k => match k with [i; j] => znth (znth t i []) j (VInt 0) | _ => VInt 0 end).
Definition dec_arr3 (sh v : value) : arr :=
  let t := map (fun row => map (fun cell => map dec_val (as_l cell)) (as_l row)) (as_l v) in
  mkArr (as_zs sh)
        (fun k => match k with [i; j; l] => znth (znth (znth t i []) j []) l (VInt 0) | _ => VInt 0 end).

Definition enc_arr (A : arr) : value :=
  match ashape A with
  | [n0] => VL [of_zs [n0]; VL (map (fun i => enc_val (adata A [i])) (irange 0 n0))]
  | [n0; n1] =>
      VL [of_zs [n0; n1];
          VL (map (fun i => VL (map (fun j => enc_val (adata A [i; j])) (irange 0 n1))) (irange 0 n0))]
  | [n0; n1; n2] =>
      VL [of_zs [n0; n1; n2];
          VL (map (fun i => VL (map (fun j => VL (map (fun l => enc_val (adata A [i; j; l])) (irange 0 n2)))
                                    (irange 0 n1))) (irange 0 n0))]
  | _ => VZ (-2)
  end.
(* VZ (-1): the evaluation failed (an access outside an array, a type error) *)
Definition enc_res (o : option (list arr)) : value :=
  match o with Some l => VL (map enc_arr l) | None => VZ (-1) end.

(* fid 1: cross_support (len inten shape image)
   fid 2: cbca_step_1 (shape cv)
   fid 3: cbca_step_2 (sh1 step1 shL crossL shR crossR rc rcr)
   fid 4: cbca_step_3 (shape step2)
   fid 5: cbca_step_4 (sh3 step3 sh2 sum2 shL crossL shR crossR rc rcr) *)
Definition dispatch (fid : Z) (v : value) : value :=
  match fid with
  | 1 => enc_res (run_kernel cross_support [VInt (as_z (vnth 0 v)); VFlt (Fin (as_q (vnth 1 v)))]
                             [dec_arr2 (vnth 2 v) (vnth 3 v)])
  | 2 => enc_res (run_kernel cbca_step_1 [] [dec_arr2 (vnth 0 v) (vnth 1 v)])
  | 3 => enc_res (run_kernel cbca_step_2 []
                             [dec_arr2 (vnth 0 v) (vnth 1 v); dec_arr3 (vnth 2 v) (vnth 3 v);
                              dec_arr3 (vnth 4 v) (vnth 5 v); dec_arr1 (vnth 6 v); dec_arr1 (vnth 7 v)])
  | 4 => enc_res (run_kernel cbca_step_3 [] [dec_arr2 (vnth 0 v) (vnth 1 v)])
  | 5 => enc_res (run_kernel cbca_step_4 []
                             [dec_arr2 (vnth 0 v) (vnth 1 v); dec_arr2 (vnth 2 v) (vnth 3 v);
                              dec_arr3 (vnth 4 v) (vnth 5 v); dec_arr3 (vnth 6 v) (vnth 7 v);
                              dec_arr1 (vnth 8 v); dec_arr1 (vnth 9 v)])
  | _ => VZ (-3)
  end.

Extraction "../build/x11k/model.ml" dispatch.
