(* Extraction of the filter models for the C10 correspondence check. *)
Require Extraction.
Require Import ExtrOcamlBasic.
From Coq Require Import ZArith QArith List.
From Pandora Require Import Lib.Value Lib.Arr Lib.Blocks Model.Filters Model.FiltersCheck Gen.Constants.
From Pandora Require Import Lib.NpNd Model.FiltersNp.
From Pandora Require Gen.BlockLoops Gen.FilterKernels.
Import ListNotations.
Open Scope Z_scope.

Definition dec_rows {A : Type} (f : value -> A) (v : value) : list (list A) :=
  map (fun row => map f (as_l row)) (as_l v).
Definition enc_rows {A : Type} (f : A -> value) (rows : list (list A)) : value :=
  VL (map (fun row => VL (map f row)) rows).
Definition dec_map (v : value) : map2 := of_rows None (dec_rows as_oq v).
Definition enc_map (ny nx : Z) (m : map2) : value := enc_rows of_oq (to_rows ny nx m).
(* unreduced rational (the harness reduces): bilateral results carry large numerators *)
Definition of_oq_raw (o : option Q) : value :=
  match o with Some q => VL [VZ (Qnum q); VZ (Zpos (Qden q))] | None => VL [] end.
Definition enc_map_raw (ny nx : Z) (m : map2) : value := enc_rows of_oq_raw (to_rows ny nx m).
Definition dec_zmap (v : value) : Z -> Z -> Z := of_rows 0 (dec_rows as_z v).
Definition enc_zmap (ny nx : Z) (m : Z -> Z -> Z) : value := enc_rows VZ (to_rows ny nx m).

(* range kernel given as a table ((difference value) ...); 0 when the difference is absent
   (the harness lists every difference that occurs) *)
Definition rk_of_table (tbl : list (Q * Q)) (x : Q) : Q :=
  match find (fun e => Qeq_bool (fst e) x) tbl with
  | Some e => snd e
  | None => 0%Q
  end.

Definition blk (b0 dflt : Z) : Z := if b0 =? 0 then dflt else b0.

(* fid 1: median           (B w ny nx disp mask)                        -> (disp mask)
   fid 2: bilateral        (B ny nx sigma_space sk rk_table disp mask)  -> (disp mask)
   fid 3: median_for_intervals
                           (B w ny nx reg disp inf sup mask), reg = () | (inf2 sup2 regmask)
                                                                       -> (disp inf sup mask)
   fid 5 / 6: spec checkers (Model/FiltersCheck.v), see below
   B = 0 on the wire: the block size found in the source (Gen/Constants.v) *)
Definition dispatch (fid : Z) (v : value) : value :=
  match fid with
  | 1 =>
    let B := blk (as_z (vnth 0 v)) median_block in
    let w := as_z (vnth 1 v) in
    let ny := as_z (vnth 2 v) in
    let nx := as_z (vnth 3 v) in
    let '(d, m) := median_filter_disparity msk_pixel_invalid B w ny nx (dec_map (vnth 4 v)) (dec_zmap (vnth 5 v)) in
    VL [enc_map ny nx d; enc_zmap ny nx m]
  | 2 =>
    let B := blk (as_z (vnth 0 v)) bilateral_block in
    let ny := as_z (vnth 1 v) in
    let nx := as_z (vnth 2 v) in
    let sigma := as_q (vnth 3 v) in
    let sk := of_rows 0%Q (dec_rows as_q (vnth 4 v)) in
    let rk := rk_of_table (map (fun e => (as_q (vnth 0 e), as_q (vnth 1 e))) (as_l (vnth 5 v))) in
    let '(d, m) := bilateral_filter_disparity msk_pixel_invalid B ny nx sigma sk rk
                     (dec_map (vnth 6 v)) (dec_zmap (vnth 7 v)) in
    VL [enc_map_raw ny nx d; enc_zmap ny nx m]
  | 3 =>
    let B := blk (as_z (vnth 0 v)) median_block in
    let w := as_z (vnth 1 v) in
    let ny := as_z (vnth 2 v) in
    let nx := as_z (vnth 3 v) in
    let reg :=
      match as_l (vnth 4 v) with
      | [i2; s2; rm] =>
        let rmf := of_rows false (dec_rows as_b rm) in
        Some (fun (_ _ : map2) => (dec_map i2, dec_map s2, rmf))
      | _ => None
      end in
    let o := mfi_filter_disparity msk_pixel_interval_regularized B w ny nx reg
            (dec_map (vnth 5 v)) (dec_map (vnth 6 v)) (dec_map (vnth 7 v)) (dec_zmap (vnth 8 v)) in
    VL [enc_map ny nx (f_disp o); enc_map ny nx (f_inf o); enc_map ny nx (f_sup o);
        enc_zmap ny nx (f_mask o)]
  | 4 => (* the bands handed to the regularisation oracle: median_filter of each band *)
    let B := blk (as_z (vnth 0 v)) median_block in
    let w := as_z (vnth 1 v) in
    let ny := as_z (vnth 2 v) in
    let nx := as_z (vnth 3 v) in
    VL [enc_map ny nx (median_filter B w ny nx (dec_map (vnth 4 v)))]
  | 5 => (* the boolean Spec of the median step applied to an (input, output) pair of the REAL code:
            (rad ny nx disp mask disp' mask') -> 1 | 0 *)
    let rad := as_z (vnth 0 v) in
    let ny := as_z (vnth 1 v) in
    let nx := as_z (vnth 2 v) in
    of_b (median_step_spec_b msk_pixel_invalid rad ny nx (dec_map (vnth 3 v)) (dec_zmap (vnth 4 v))
                             (dec_map (vnth 5 v)) (dec_zmap (vnth 6 v)))
  | 6 => (* the boolean Spec of the array-level median (interval-bound bands): (rad ny nx data out) -> 1 | 0 *)
    let rad := as_z (vnth 0 v) in
    let ny := as_z (vnth 1 v) in
    let nx := as_z (vnth 2 v) in
    of_b (median_map_spec_b rad ny nx (dec_map (vnth 3 v)) (dec_map (vnth 4 v)))
  (* 7 / 8 / 9: the GENERATED code (Gen/FilterKernels.v over the numpy combinators of Lib/NpNd.v, the
     block loop = BlockSkeleton.exec of the generated skeleton) run as it is, error flag first *)
  | 7 => (* generated median filter_disparity: (w ny nx disp mask) -> (err disp mask) *)
    let w := as_z (vnth 0 v) in
    let ny := as_z (vnth 1 v) in
    let nx := as_z (vnth 2 v) in
    let ds := mkDs (nd2 ny nx (dec_map (vnth 3 v))) (nd2 ny nx (dec_zmap (vnth 4 v))) (fun _ => nd2 0 0 (fun _ _ => None)) in
    let ds' := FilterKernels.g_median_filter_disparity
                 (FilterKernels.g_median_filter (skel_block_loop BlockLoops.median_filter)) w ds in
    VL [of_b (err (ds_disp ds') || err (ds_mask ds')); enc_map ny nx (fun2 (ds_disp ds')); enc_zmap ny nx (fun2 (ds_mask ds'))]
  | 8 => (* generated bilateral filter_disparity: (ny nx sigma_space gs rk_table disp mask) -> (err disp mask);
            gs = the Gaussian of sigma_space at sqrt(n), n = 0, 1, ... (DATA) *)
    let ny := as_z (vnth 0 v) in
    let nx := as_z (vnth 1 v) in
    let sigma := as_q (vnth 2 v) in
    let gs := map as_q (as_l (vnth 3 v)) in
    let rk := rk_of_table (map (fun e => (as_q (vnth 0 e), as_q (vnth 1 e))) (as_l (vnth 4 v))) in
    let ds := mkDs (nd2 ny nx (dec_map (vnth 5 v))) (nd2 ny nx (dec_zmap (vnth 6 v))) (fun _ => nd2 0 0 (fun _ _ => None)) in
    let ds' := FilterKernels.g_bilateral_filter_disparity
                 (FilterKernels.g_filter_bilateral (fun _ x => rk x) (fun _ n => nth (Z.to_nat n) gs 0%Q)
                                                   (skel_block_loop BlockLoops.filter_bilateral)) sigma 0%Q ds in
    VL [of_b (err (ds_disp ds') || err (ds_mask ds')); enc_map_raw ny nx (fun2 (ds_disp ds')); enc_zmap ny nx (fun2 (ds_mask ds'))]
  | 9 => (* generated gauss_spatial_kernel: (win gs) -> (err table) *)
    let win := as_z (vnth 0 v) in
    let gs := map as_q (as_l (vnth 1 v)) in
    let G := FilterKernels.g_gauss_spatial_kernel (fun _ n => nth (Z.to_nat n) gs 0%Q) win 0%Q in
    VL [of_b (err G); enc_map win win (fun2 G)]
  | 10 => (* generated median_for_intervals filter_disparity, same wire as fid 3 (B ignored): -> (err disp inf sup mask) *)
    let w := as_z (vnth 1 v) in
    let ny := as_z (vnth 2 v) in
    let nx := as_z (vnth 3 v) in
    let '(regb, hreg) :=
      match as_l (vnth 4 v) with
      | [i2; s2; rm] =>
        (true, fun (_ _ _ : nd oq) => (nd2 ny nx (dec_map i2), nd2 ny nx (dec_map s2), nd2 ny nx (of_rows false (dec_rows as_b rm))))
      | _ => (false, fun (a b _ : nd oq) => (a, b, nd2 ny nx (fun _ _ => false)))
      end in
    let binf := nd2 ny nx (dec_map (vnth 6 v)) in
    let bsup := nd2 ny nx (dec_map (vnth 7 v)) in
    let ds := mkDs (nd2 ny nx (dec_map (vnth 5 v))) (nd2 ny nx (dec_zmap (vnth 8 v)))
                   (fun k => match k with KInf => binf | KSup => bsup | KAmb => nd2 ny nx (fun _ _ => None) end) in
    let ds' := FilterKernels.g_mfi_filter_disparity
                 (FilterKernels.g_median_filter (skel_block_loop BlockLoops.median_filter)) hreg w regb ds in
    VL [of_b (err (ds_disp ds') || err (ds_mask ds') || err (ds_band ds' KInf) || err (ds_band ds' KSup));
        enc_map ny nx (fun2 (ds_disp ds')); enc_map ny nx (fun2 (ds_band ds' KInf)); enc_map ny nx (fun2 (ds_band ds' KSup));
        enc_zmap ny nx (fun2 (ds_mask ds'))]
  | _ => VL [VZ (-1)]
  end.

Extraction "../build/x10/model.ml" dispatch.
