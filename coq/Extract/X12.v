(* Extraction of the confidence model for the C12 correspondence check.
   Directives used: those of ExtrOcamlBasic only. *)
Require Extraction.
Require Import ExtrOcamlBasic.
From Coq Require Import ZArith QArith List.
From Pandora Require Import Lib.Value Lib.Ext Model.Confidence Model.ConfPipeline.
From Pandora Require Model.Cbca.
Import ListNotations.
Open Scope Z_scope.

Definition as_qs (v : value) : list Q := map as_q (as_l v).
Definition as_qss (v : value) : list (list Q) := map as_qs (as_l v).
Definition as_curve (v : value) : curve := map as_oq (as_l v).
Definition as_omap (v : value) : list (list oq) := map as_curve (as_l v).
Definition as_volume (v : value) : volume := map as_omap (as_l v).

Definition of_omap (m : list (list oq)) : value := VL (map (fun r => VL (map of_oq r)) m).
Definition of_pairmap (m : list (list (oq * oq))) : value :=
  VL (map (fun r => VL (map (fun p => VL [of_oq (fst p); of_oq (snd p)]) r)) m).
Definition of_qmap (m : list (list Q)) : value := VL (map (fun r => VL (map of_q r)) m).

Definition method_of_code (z : Z) : method :=
  match z with 0 => Amb | 1 => Risk | 2 => Bounds | _ => Std end.

(* a dataset's bands on the wire: 0 = dataset is None, 1 = no confidence_measure,
   (names-and-ids) = bands in order, each (name-codes id) *)
Definition dec_ds (v : value) : dsbands Z :=
  match v with
  | VZ 0 => None
  | VZ _ => Some None
  | VL l => Some (Some (map (fun e => (as_zs (vnth 0 e), as_z (vnth 1 e))) l))
  end.
Definition enc_ds (d : dsbands Z) : value :=
  match d with
  | None => VZ 0
  | Some None => VZ 1
  | Some (Some l) => VL (map (fun e => VL [of_zs (fst e); VZ (snd e)]) l)
  end.

(* steps on the wire: (step-name-codes method-code (band ids)) *)
Definition run_steps (steps : list value) (st : dsbands Z * dsbands Z) : dsbands Z * dsbands Z :=
  fold_left (fun s e => conf_step (as_zs (vnth 0 e)) (method_of_code (as_z (vnth 1 e))) (as_zs (vnth 2 e)) s)
            steps st.

(* ---- the concrete pipeline of Model/ConfPipeline.v: confidence steps then the wta disparity step.
   core on the wire: (nr nc is_max subpix disps volume cvmask); a dataset's bands: 0 = dataset is None,
   1 = no confidence_measure, ((name-codes band) ...); a step: (name-codes method-code params) *)
Definition dec_core (v : value) : core :=
  let vol := as_volume (vnth 5 v) in
  let msk := as_zss (vnth 6 v) in
  mkCore (as_z (vnth 0 v)) (as_z (vnth 1 v)) (as_b (vnth 2 v)) (as_z (vnth 3 v)) (as_qs (vnth 4 v))
         (fun r c => map of_fin (Cbca.lookup [] vol r c))
         (fun r c => Cbca.lookup 0 msk r c) None.
Definition dec_dsb (v : value) : dsbands band :=
  match v with
  | VZ 0 => None
  | VZ _ => Some None
  | VL l => Some (Some (map (fun e => (as_zs (vnth 0 e), as_omap (vnth 1 e))) l))
  end.
Definition enc_dsb (d : dsbands band) : value :=
  match d with
  | None => VZ 0
  | Some None => VZ 1
  | Some (Some l) => VL (map (fun e => VL [of_zs (fst e); of_omap (snd e)]) l)
  end.
Definition dec_cmethod (code : Z) (p : value) : cmethod :=
  match code with
  | 0 => MAmb (as_b (vnth 0 p)) (as_q (vnth 1 p)) (as_qs (vnth 2 p))
  | 1 => MRisk (as_qs (vnth 0 p))
  | 2 => MBounds (as_q (vnth 0 p))
                 (match vnth 1 p with
                  | VL (_ :: _) as g => Some (as_zs (vnth 0 g), as_q (vnth 1 g), as_z (vnth 2 g), as_z (vnth 3 g),
                                              as_q (vnth 4 g))
                  | _ => None
                  end)
  | _ => MStd (as_q (vnth 0 p)) (as_z (vnth 1 p)) (as_omap (vnth 2 p))
  end.
Definition dec_bstep (e : value) : bstep := SConf (as_zs (vnth 0 e)) (dec_cmethod (as_z (vnth 1 e)) (vnth 2 e)).

Definition run_conf_wta (v : value) : value :=
  let k := dec_core (vnth 3 v) in
  let steps := map dec_bstep (as_l (vnth 0 v)) ++ [SWta (as_z (vnth 4 v)) (as_oq (vnth 5 v))] in
  match bexec steps (Some k, Some (dec_dsb (vnth 1 v), dec_dsb (vnth 2 v))) with
  | (Some k1, Some (bd, bc)) =>
    match k_disp k1 with
    | Some (d, m) =>
      VL [of_omap (Cbca.tabulate (k_nr k) (k_nc k) d); of_zss (Cbca.tabulate (k_nr k) (k_nc k) m);
          enc_dsb bd; enc_dsb bc]
    | None => VL [VZ (-2)]
    end
  | _ => VL [VZ (-1)]
  end.

Definition dispatch (fid : Z) (v : value) : value :=
  match fid with
  | 1 => of_zss (amb_map (as_qs (vnth 0 v)) (orient (as_b (vnth 2 v)) (as_volume (vnth 1 v))))
  | 2 => of_omap (amb_confidence (as_b (vnth 0 v)) (as_b (vnth 1 v)) (as_b (vnth 5 v)) (as_q (vnth 2 v))
                                 (as_qs (vnth 3 v)) (as_volume (vnth 4 v)))
  | 3 => of_pairmap (risk_map (as_qs (vnth 0 v)) (orient (as_b (vnth 2 v)) (as_volume (vnth 1 v))))
  | 4 => of_pairmap (bounds_map (type_factor (as_b (vnth 0 v))) (as_q (vnth 1 v)) (as_qs (vnth 2 v))
                                (as_volume (vnth 3 v)))
  | 5 => VL (map (fun r => VL (map (fun c => of_oz (wta (as_b (vnth 0 v)) c)) r)) (as_volume (vnth 1 v)))
  | 6 => let r := run_steps (as_l (vnth 0 v)) (dec_ds (vnth 1 v), dec_ds (vnth 2 v)) in
         VL [enc_ds (fst r); enc_ds (snd r)]
  | 7 => let r := regularize (as_omap (vnth 0 v)) (as_omap (vnth 1 v)) (as_qss (vnth 2 v))
                             (as_q (vnth 3 v)) (as_z (vnth 4 v)) (as_z (vnth 5 v)) (as_q (vnth 6 v)) in
         VL [of_omap (fst r); of_omap (snd r)]
  | 10 => let bm := bounds_map (type_factor (as_b (vnth 0 v))) (as_q (vnth 1 v)) (as_qs (vnth 2 v))
                               (as_volume (vnth 3 v)) in
          let r := regularize (map (map fst) bm) (map (map snd) bm) (as_qss (vnth 4 v))
                              (as_q (vnth 5 v)) (as_z (vnth 6 v)) (as_z (vnth 7 v)) (as_q (vnth 8 v)) in
          VL [of_omap (fst r); of_omap (snd r)]
  | 8 => of_qmap (var_raster (as_z (vnth 0 v)) (as_qss (vnth 1 v)))
  | 12 => run_conf_wta v
  | 11 => of_omap (std_band (as_q (vnth 0 v)) (as_z (vnth 1 v)) (as_omap (vnth 2 v)))
  | 9 => of_omap (normalize_percentile (as_b (vnth 0 v)) (as_q (vnth 1 v)) (as_qss (vnth 2 v)))
  | _ => VL [VZ (-1)]
  end.

Extraction "../build/x12/model.ml" dispatch.
