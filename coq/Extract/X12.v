(* Extraction of the confidence model for the C12 correspondence check.
   Directives used: those of ExtrOcamlBasic only. *)
Require Extraction.
Require Import ExtrOcamlBasic.
From Coq Require Import ZArith QArith List.
From Pandora Require Import Lib.Value Model.Confidence.
Import ListNotations.
Open Scope Z_scope.

Definition as_qs (v : value) : list Q := map as_q (as_l v).
Definition as_qss (v : value) : list (list Q) := map as_qs (as_l v).
Definition as_curve (v : value) : curve := map as_oq (as_l v).
Definition as_omap (v : value) : list (list oq) := map as_curve (as_l v).
Definition as_volume (v : value) : volume := map as_omap (as_l v).

Definition of_omap (m : list (list oq)) : value := VL (map (fun r => VL (map of_oq r)) m).
Definition of_pairmap (m : list (list (oq * oq))) : value :=
  VL (map (fun r => VL (map (fun p => VL [of_oq (fst p); of_oq (snd p)]) r)) m).
Definition of_qmap (m : list (list Q)) : value := VL (map (fun r => VL (map of_q r)) m).

Definition method_of_code (z : Z) : method :=
  match z with 0 => Amb | 1 => Risk | 2 => Bounds | _ => Std end.

(* a dataset's bands on the wire: 0 = dataset is None, 1 = no confidence_measure,
   (names-and-ids) = bands in order, each (name-codes id) *)
Definition dec_ds (v : value) : dsbands Z :=
  match v with
  | VZ 0 => None
  | VZ _ => Some None
  | VL l => Some (Some (map (fun e => (as_zs (vnth 0 e), as_z (vnth 1 e))) l))
  end.
Definition enc_ds (d : dsbands Z) : value :=
  match d with
  | None => VZ 0
  | Some None => VZ 1
  | Some (Some l) => VL (map (fun e => VL [of_zs (fst e); VZ (snd e)]) l)
  end.

(* steps on the wire: (step-name-codes method-code (band ids)) *)
Definition run_steps (steps : list value) (st : dsbands Z * dsbands Z) : dsbands Z * dsbands Z :=
  fold_left (fun s e => conf_step (as_zs (vnth 0 e)) (method_of_code (as_z (vnth 1 e))) (as_zs (vnth 2 e)) s)
            steps st.

Definition dispatch (fid : Z) (v : value) : value :=
  match fid with
  | 1 => of_zss (amb_map (as_qs (vnth 0 v)) (orient (as_b (vnth 2 v)) (as_volume (vnth 1 v))))
  | 2 => of_omap (amb_confidence (as_b (vnth 0 v)) (as_b (vnth 1 v)) (as_b (vnth 5 v)) (as_q (vnth 2 v))
                                 (as_qs (vnth 3 v)) (as_volume (vnth 4 v)))
  | 3 => of_pairmap (risk_map (as_qs (vnth 0 v)) (orient (as_b (vnth 2 v)) (as_volume (vnth 1 v))))
  | 4 => of_pairmap (bounds_map (type_factor (as_b (vnth 0 v))) (as_q (vnth 1 v)) (as_qs (vnth 2 v))
                                (as_volume (vnth 3 v)))
  | 5 => VL (map (fun r => VL (map (fun c => of_oz (wta (as_b (vnth 0 v)) c)) r)) (as_volume (vnth 1 v)))
  | 6 => let r := run_steps (as_l (vnth 0 v)) (dec_ds (vnth 1 v), dec_ds (vnth 2 v)) in
         VL [enc_ds (fst r); enc_ds (snd r)]
  | 7 => let r := regularize (as_omap (vnth 0 v)) (as_omap (vnth 1 v)) (as_qss (vnth 2 v))
                             (as_q (vnth 3 v)) (as_z (vnth 4 v)) (as_z (vnth 5 v)) (as_q (vnth 6 v)) in
         VL [of_omap (fst r); of_omap (snd r)]
  | 10 => let bm := bounds_map (type_factor (as_b (vnth 0 v))) (as_q (vnth 1 v)) (as_qs (vnth 2 v))
                               (as_volume (vnth 3 v)) in
          let r := regularize (map (map fst) bm) (map (map snd) bm) (as_qss (vnth 4 v))
                              (as_q (vnth 5 v)) (as_z (vnth 6 v)) (as_z (vnth 7 v)) (as_q (vnth 8 v)) in
          VL [of_omap (fst r); of_omap (snd r)]
  | 8 => of_qmap (var_raster (as_z (vnth 0 v)) (as_qss (vnth 1 v)))
  | 11 => of_omap (std_band (as_q (vnth 0 v)) (as_z (vnth 1 v)) (as_omap (vnth 2 v)))
  | 9 => of_omap (normalize_percentile (as_b (vnth 0 v)) (as_q (vnth 1 v)) (as_qss (vnth 2 v)))
  | _ => VL [VZ (-1)]
  end.

Extraction "../build/x12/model.ml" dispatch.
