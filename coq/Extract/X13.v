(* Extraction for C13: the cone / margin of a pipeline ([kpipe_rad]: the radii of the theorem
   C13_pipeline_local, which are computed on the step kinds, see C13_radii_agree; cbca with its PROVED
   radius max(cbca_distance - 1, 1), + 1 for the 3x3 median pre-filter), used by the metamorphic runs of
   harness/props/c13.py to decide which pixels of a crop must be bit-identical to the whole-image run.
   Directives: ExtrOcamlBasic only. *)
Require Extraction.
Require Import ExtrOcamlBasic.
From Coq Require Import ZArith List.
From Pandora Require Import Lib.Value Spec.Local Model.Local.
Import ListNotations.
Open Scope Z_scope.

(* (code param): 0 matching cost, 1 cbca (cbca_distance), 2 point step (wta, refinement),
   3 filter (window size), 4 cross-checking *)
Definition dec_kstep (v : value) : kstep :=
  match as_z (vnth 0 v) with
  | 0 => KMc
  | 1 => KCbca (as_z (vnth 1 v))
  | 3 => KFilter (as_z (vnth 1 v))
  | 4 => KXcheck
  | _ => KPoint
  end.

Definition enc_rad (R : radii) : value := VL [VZ (rho R); VZ (lam R); VZ (mu R)].

(* fid 1: (window_size dmin dmax ((code param) ...)) -> ((rho lam mu) of the data cone, (rho lam mu) of the margin) *)
Definition do_radii (v : value) : value :=
  let G := mkCfg (as_z (vnth 0 v)) 1 (as_z (vnth 1 v)) (as_z (vnth 2 v)) false false 0 1 in
  let '(D, M) := kpipe_rad G (map dec_kstep (as_l (vnth 3 v))) in
  VL [enc_rad D; enc_rad M].

Definition dispatch (fid : Z) (v : value) : value :=
  match fid with
  | 1 => do_radii v
  | _ => VL [VZ (-1)]
  end.

Extraction "../build/x13/model.ml" dispatch.
