(* Extraction of the sequencing model for the C01 correspondence check.
   Directives used: those of ExtrOcamlBasic only (bool, option, unit, prod,
   list, sumbool, sumor, comparison -> OCaml; fst/snd/andb/orb inlined). *)
Require Extraction.
Require Import ExtrOcamlBasic.
From Coq Require Import ZArith List.
From Pandora Require Import Lib.Value Model.Machine Gen.Tables.
Import ListNotations.
Open Scope Z_scope.

Definition kind_of_code (z : Z) : option kind :=
  match z with
  | 0 => Some MC | 1 => Some Agg | 2 => Some Seg | 3 => Some Opt | 4 => Some Dsp
  | 5 => Some Flt | 6 => Some Ref | 7 => Some Val | 8 => Some Msc | 9 => Some Cvc
  | _ => None
  end.
Definition state_code (s : state) : Z :=
  match s with Begin => 0 | CostVolume => 1 | DispMap => 2 end.

(* a step on the wire: (id kindcode ok_first_round ok_second_round) *)
Definition dec_step (v : value) : step := mkStep (as_z (vnth 0 v)) (kind_of_code (as_z (vnth 1 v))).
Definition dec_pipeline (v : value) : list step := map dec_step (as_l v).
Definition ok_table (v : value) : list (Z * (bool * bool)) :=
  map (fun s => (as_z (vnth 0 s), (as_b (vnth 2 s), as_b (vnth 3 s)))) (as_l v).
Definition step_ok_of (tbl : list (Z * (bool * bool))) (s : step) (swapped : bool) : bool :=
  match find (fun e => Z.eqb (fst e) (s_id s)) tbl with
  | Some (_, (a, b)) => if swapped then b else a
  | None => false
  end.

Definition enc_machine (m : machine) : value :=
  VL [VZ (state_code (m_st m)); of_nat (length (m_regs m)); of_b (m_rdm m)].
Definition enc_ev (e : ev) : value :=
  match e with Ev id k sc r => VL [VZ id; VZ (kind_code k); VZ sc; of_b r] end.

Definition enc_outcome (o : machine * Z * list ev) : value :=
  let '(m, code, tr) := o in VL [VZ code; enc_machine m; VL (map enc_ev tr)].

(* one call on a machine: 0 = check, n >= 1 = run with n scales.
   result code: 0 accepted, 1 rejected, 2 ran, 3 run error *)
Definition do_call (ok : step -> bool -> bool) (p : list step) (m : machine) (c : Z)
  : machine * Z * list ev :=
  if c =? 0 then
    match check_conf check_table ok m p with
    | Accepted m' => (m', 0, [])
    | Rejected m' => (m', 1, [])
    end
  else
    match run run_table m p (Z.to_nat c) with
    | RunOk m' tr => (m', 2, tr)
    | RunError m' tr => (m', 3, tr)
    end.

Fixpoint do_history (ok : step -> bool -> bool) (p : list step) (m : machine) (h : list Z)
  : list value :=
  match h with
  | [] => []
  | c :: r =>
    let '(m', code, tr) := do_call ok p m c in
    enc_outcome (m', code, tr) :: do_history ok p m' r
  end.

(* a history mixing several pipelines on ONE machine: each call is
   (index of the pipeline, call code) *)
Fixpoint do_mixed (pls : list value) (m : machine) (h : list value) : list value :=
  match h with
  | [] => []
  | c :: r =>
    let pv := nth (Z.to_nat (as_z (vnth 0 c))) pls (VL []) in
    let '(m', code, tr) := do_call (step_ok_of (ok_table pv)) (dec_pipeline pv) m (as_z (vnth 1 c)) in
    enc_outcome (m', code, tr) :: do_mixed pls m' r
  end.

(* fid 1: (pipeline history) -> list of outcomes, starting from a fresh machine
   fid 2: (pipelines, history of (pipeline index, call)) -> list of outcomes, one machine *)
Definition dispatch (fid : Z) (v : value) : value :=
  match fid with
  | 1 => let p := dec_pipeline (vnth 0 v) in
         VL (do_history (step_ok_of (ok_table (vnth 0 v))) p machine0 (as_zs (vnth 1 v)))
  | 2 => VL (do_mixed (as_l (vnth 0 v)) machine0 (as_l (vnth 1 v)))
  | _ => VL [VZ (-1)]
  end.

Extraction "../build/x01/model.ml" dispatch.
