(* Extraction of the interpolation model (C14 correspondence).  ExtrOcamlBasic only. *)
Require Extraction.
Require Import ExtrOcamlBasic.
From Coq Require Import ZArith QArith List.
From Pandora Require Import Lib.Value Model.CrossCheck Model.Interp.
Import ListNotations.
Open Scope Z_scope.

Definition fn_of_rows {A} (d : A) (rows : list (list A)) : Z -> Z -> A :=
  fun r c => if (r <? 0) || (c <? 0) then d
             else nth (Z.to_nat c) (nth (Z.to_nat r) rows []) d.
Definition rows_of_fn {A} (nr nc : Z) (f : Z -> Z -> A) : list (list A) :=
  map (fun r => map (fun c => f r c) (zrange 0 nc)) (zrange 0 nr).
Definition as_oqss (v : value) : list (list (option Q)) := map (fun r => map as_oq (as_l r)) (as_l v).

(* argument: (method n0 n1 offset disp mask), method 0 = mc-cnn, 1 = sgm
   result  : (disp' mask') *)
Definition run_interp (fx : bool) (v : value) : value :=
  let m := if as_z (vnth 0 v) =? 0 then McCnn else Sgm in
  let n0 := as_z (vnth 1 v) in
  let n1 := as_z (vnth 2 v) in
  let off := as_z (vnth 3 v) in
  let disp := fn_of_rows None (as_oqss (vnth 4 v)) in
  let mask := fn_of_rows 0 (as_zss (vnth 5 v)) in
  let '(d, k) := interp_gen fx m n0 n1 off disp mask in
  VL [ VL (map (fun row => VL (map of_oq row)) (rows_of_fn n0 n1 d)); of_zss (rows_of_fn n0 n1 k) ].

(* (nr nc disp mask dmin dmax offset), as in X07 *)
Definition dec_ds (v : value) : dataset :=
  mkDS (as_z (vnth 0 v)) (as_z (vnth 1 v))
       (fn_of_rows None (as_oqss (vnth 2 v)))
       (fn_of_rows 0 (as_zss (vnth 3 v)))
       []
       (as_z (vnth 4 v)) (as_z (vnth 5 v)) (as_z (vnth 6 v)).
Definition enc_out (d : dataset) : list value :=
  [ VL (map (fun row => VL (map of_oq row)) (rows_of_fn (ds_nr d) (ds_nc d) (ds_disp d)));
    of_zss (rows_of_fn (ds_nr d) (ds_nc d) (ds_mask d)) ].
(* argument: (left right thr method); result: (dispL' maskL' dispR' maskR') after
   PandoraMachine.validation_run with interpolated_disparity *)
Definition run_validation (v : value) : value :=
  let L := dec_ds (vnth 0 v) in
  let R := dec_ds (vnth 1 v) in
  let thr := as_q (vnth 2 v) in
  let m := if as_z (vnth 3 v) =? 0 then McCnn else Sgm in
  let LR := validation_interp_run thr m L R in
  VL (enc_out (fst LR) ++ enc_out (snd LR)).

(* fid 1: the tree under test; fid 3: the code as found (regression only); fid 5: validation_run *)
Definition dispatch (fid : Z) (v : value) : value :=
  match fid with
  | 1 => run_interp true v
  | 3 => run_interp false v
  | 5 => run_validation v
  | _ => VL [VZ (-1)]
  end.

Extraction "../build/x14/model.ml" dispatch.
