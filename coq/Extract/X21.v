(* Extraction of the whole-pipeline model (Model/PipelineRun.v) for the C08 pipeline correspondence:
   the REAL pandora.run is compared with [run_trace] after every step.  The constants of the tree under
   test come from the regenerated files (Gen/Flags.v, Gen/RefineConsts.v, Gen/Constants.v).
   Directives: ExtrOcamlBasic only. *)
Require Extraction.
Require Import ExtrOcamlBasic.
From Coq Require Import ZArith QArith List Bool.
From Pandora Require Import Lib.Value Model.MatchingCost Model.Criteria Model.Refine Model.CrossCheck
     Model.Interp Model.PipelineRun Gen.Flags Gen.RefineConsts Gen.Constants.
Import ListNotations.
Open Scope Z_scope.

Definition E0 : penv :=
  mkPenv (mkEnv Gen.Flags.consts flag_sites) (mkK msk_invalid msk_stopped) msk_pixel_invalid
         wta_argmin_block median_block 0 1.

(* list of rows -> total function (0 outside) *)
Definition img_of (l : list (list Z)) : MatchingCost.img :=
  fun r c => if (r <? 0) || (c <? 0) then 0 else nth (Z.to_nat c) (nth (Z.to_nat r) l []) 0.
Definition oimg_of (ny nx : Z) (v : value) : option MatchingCost.img :=
  match as_l v with [] => None | _ => Some (memo2 ny nx (img_of (as_zss v))) end.

Definition dec_step (v : value) : step :=
  match as_z (vnth 0 v) with
  | 0 => SMc (match as_z (vnth 1 v) with 0 => Sad | 1 => Ssd | _ => Census end) (as_z (vnth 2 v)) (as_z (vnth 3 v))
  | 1 => SDisp (as_oq (vnth 1 v))
  | 2 => SFilter (as_z (vnth 1 v))
  | 3 => SRefine (match as_z (vnth 1 v) with 0 => Vfit | _ => Quadratic end)
  | _ => SVal (as_q (vnth 1 v)) (match as_z (vnth 2 v) with 1 => Some McCnn | 2 => Some Sgm | _ => None end)
  end.

Definition rows2 {A : Type} (enc : A -> value) (nr nc : Z) (f : Z -> Z -> A) : value :=
  VL (map (fun r => VL (map (fun c => enc (f r c)) (MatchingCost.zrange 0 nc))) (MatchingCost.zrange 0 nr)).

Definition of_conf (c : conf) : value :=
  match c with CNan => VL [] | CInf => VL [VZ 1] | CFin q => of_q q end.

(* a cost volume: (dmin dmax subpix offset costs mask) *)
Definition enc_cv (o : option cvol) : value :=
  match o with
  | None => VL []
  | Some cv =>
    VL [VZ (cv_dmin cv); VZ (cv_dmax cv); VZ (cv_s cv); VZ (cv_off cv);
        rows2 (fun l => VL (map of_oq l)) (cv_ny cv) (cv_nx cv) (cv_pixel cv);
        rows2 VZ (cv_ny cv) (cv_nx cv) (cv_mask cv)]
  end.

(* a disparity dataset: (dmin dmax offset nbands disparity_map validity_mask last_band|()) *)
Definition enc_ds (o : option dataset) : value :=
  match o with
  | None => VL []
  | Some d =>
    VL [VZ (ds_dmin d); VZ (ds_dmax d); VZ (ds_offset d); VZ (Z.of_nat (length (ds_bands d)));
        rows2 of_oq (ds_nr d) (ds_nc d) (ds_disp d);
        rows2 VZ (ds_nr d) (ds_nc d) (ds_mask d);
        match ds_bands d with
        | [] => VL []
        | _ => rows2 of_conf (ds_nr d) (ds_nc d) (last (ds_bands d) (fun _ _ => CNan))
        end]
  end.

(* is the refinement call defined on the state it receives? (1 for the other steps) *)
Definition step_defined (rdm : bool) (s : step) (st : pstate) : bool :=
  match s with
  | SRefine me =>
    (match st_lcv st, st_ld st with Some cv, Some d => refine_defined E0 me cv d | _, _ => true end)
    && (if rdm then match st_rcv st, st_rd st with Some cv, Some d => refine_defined E0 me cv d | _, _ => true end
        else true)
  | _ => true
  end.

(* after a cost-volume step the cost volumes are sent, after a disparity step the disparity datasets *)
Definition enc_state (s : step) (defined : bool) (st : pstate) : value :=
  match s with
  | SMc _ _ _ => VL [VZ 0; of_b defined; enc_cv (st_lcv st); enc_cv (st_rcv st)]
  | _ => VL [VZ 1; of_b defined; enc_ds (st_ld st); enc_ds (st_rd st)]
  end.

Fixpoint trace_enc (rdm : bool) (p : list step) (st : pstate) : list value :=
  match p with
  | [] => []
  | s :: r =>
    let st' := run_step E0 rdm s st in
    enc_state s (step_defined rdm s st) st' :: trace_enc rdm r st'
  end.

(* fid 1: (ny nx left right maskL|() maskR|() dmin dmax steps) -> (rdm, state after every step) *)
Definition run_model (v : value) : value :=
  let ny := as_z (vnth 0 v) in
  let nx := as_z (vnth 1 v) in
  let L := mkImage ny nx (memo2 ny nx (img_of (as_zss (vnth 2 v)))) (oimg_of ny nx (vnth 4 v)) in
  let R := mkImage ny nx (memo2 ny nx (img_of (as_zss (vnth 3 v)))) (oimg_of ny nx (vnth 5 v)) in
  let p := map dec_step (as_l (vnth 8 v)) in
  let rdm := has_validation p in
  VL [of_b rdm; VL (trace_enc rdm p (init_state L R (as_z (vnth 6 v)) (as_z (vnth 7 v))))].

Definition dispatch (fid : Z) (v : value) : value :=
  match fid with
  | 1 => run_model v
  | _ => VL [VZ (-1)]
  end.

Extraction "../build/x21/model.ml" dispatch.
