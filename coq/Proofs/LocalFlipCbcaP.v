(* C13, vertical flip -- the cross-based cost aggregation.

   Part 1 (SPEC, Spec/Cbca.v): on images turned upside down the arm going up is the arm going down of the mirrored
   pixel (and conversely), the horizontal arms are those of the mirrored pixel, the support region of a pixel is the
   mirror image of the support region of the mirrored pixel (its rows in the reverse order), hence the same mean.
   The filtered images are compared as NUMBERS (an arm only compares intensities).

   Part 2 (MODEL, Model/Cbca.v): the aggregated volume of the model at EVERY pixel of the image, through C11's
   plane theorem where the correspondent column is inside the right image, directly elsewhere (there the kernels
   write 0 / (0 + 1)), and through the 3x3 median pre-filter read upside down. *)
From Coq Require Import ZArith QArith Qabs Qround List Bool Lia Permutation FinFun.
From Pandora Require Import Lib.Arr Model.Cbca Spec.Cbca Proofs.CbcaP Proofs.LocalCbcaP.
From Pandora Require Model.Filters Spec.Filters Proofs.FiltersP.
Import ListNotations.
Open Scope Z_scope.

(* the same number, or both missing *)
Definition oqe (a b : option Q) : Prop :=
  match a, b with
  | Some x, Some y => (x == y)%Q
  | None, None => True
  | _, _ => False
  end.

Lemma oqe_refl : forall a, oqe a a.
Proof. intros [x|]; cbn; [reflexivity|exact I]. Qed.

(* ------------------------------------------------------------------ lists read backwards *)

Lemma arr_zrange_NoDup : forall w, NoDup (Arr.zrange w).
Proof. intro w. unfold Arr.zrange. apply Injective_map_NoDup; [intros a b; apply Nat2Z.inj|apply seq_NoDup]. Qed.

Lemma zrange_rev_perm : forall w, Permutation (map (fun a => w - 1 - a) (Arr.zrange w)) (Arr.zrange w).
Proof.
  intro w. apply NoDup_Permutation.
  - apply Injective_map_NoDup; [intros a b; lia|apply arr_zrange_NoDup].
  - apply arr_zrange_NoDup.
  - intro x. rewrite in_map_iff. split.
    + intros (a & <- & Ha). apply FiltersP.In_zrange in Ha. apply FiltersP.In_zrange. lia.
    + intro Hx. apply FiltersP.In_zrange in Hx. exists (w - 1 - x). split; [lia|]. apply FiltersP.In_zrange. lia.
Qed.

Lemma flat_map_map : forall {X Y W} (f : Y -> list W) (g : X -> Y) l,
  flat_map f (map g l) = flat_map (fun x => f (g x)) l.
Proof. induction l as [|a l IH]; cbn [map flat_map]; [reflexivity|]. now rewrite IH. Qed.

Lemma flat_map_ext_in' : forall {X Y} (f g : X -> list Y) l,
  (forall x, In x l -> f x = g x) -> flat_map f l = flat_map g l.
Proof.
  induction l as [|a l IH]; intros H; cbn [flat_map]; [reflexivity|].
  rewrite (H a) by now left. rewrite IH; [reflexivity|]. intros; apply H; now right.
Qed.

Lemma span_arr : forall n a, span a n = map (fun i => a + i) (Arr.zrange (Z.of_nat n)).
Proof.
  intros n a. unfold Arr.zrange. rewrite Nat2Z.id, map_map.
  rewrite (map_seq_span Z (fun z => a + z) n 0). cbn [Z.of_nat]. rewrite map_span_shift. f_equal. lia.
Qed.

(* n consecutive blocks read in the reverse order *)
Lemma flat_map_span_rev : forall {B} (f g : Z -> list B) n a b,
  (forall i, 0 <= i < Z.of_nat n -> f (a + i) = g (b + (Z.of_nat n - 1 - i))) ->
  Permutation (flat_map f (span a n)) (flat_map g (span b n)).
Proof.
  intros B f g n a b H. rewrite !span_arr, !flat_map_map.
  rewrite (flat_map_ext_in' (fun i => f (a + i)) (fun i => (fun i' => g (b + i')) (Z.of_nat n - 1 - i))).
  2:{ intros i Hi. apply FiltersP.In_zrange in Hi. apply H. exact Hi. }
  rewrite <- (flat_map_map (fun i' => g (b + i')) (fun i => Z.of_nat n - 1 - i)).
  apply Permutation_flat_map. apply zrange_rev_perm.
Qed.

Lemma sumQ_perm : forall l m, Permutation l m -> (sumQ l == sumQ m)%Q.
Proof.
  induction 1 as [|x l m H IH|x y l|l1 l2 l3 H1 IH1 H2 IH2]; cbn [sumQ fold_right].
  - reflexivity.
  - fold (sumQ l). fold (sumQ m). rewrite IH. reflexivity.
  - fold (sumQ l). ring.
  - rewrite IH1. exact IH2.
Qed.

(* ------------------------------------------------------------------ arms *)

Definition vdir (d : dir) : dir := match d with DUp => DDown | DDown => DUp | _ => d end.

Lemma ray_arm_oqe : forall get get' dist inten v v',
  (forall j, 1 <= j -> oqe (get j) (get' j)) -> (v == v')%Q -> ray_arm get dist inten v = ray_arm get' dist inten v'.
Proof.
  intros get get' dist inten v v' H Hv. unfold ray_arm.
  rewrite (take_while_ext_in _ (takes get inten v) (takes get' inten v')).
  2:{ intros x Hx. apply in_span in Hx. unfold takes. pose proof (H x ltac:(lia)) as E.
      destruct (get x), (get' x); cbn in E; try tauto. rewrite E, Hv. reflexivity. }
  pose proof (H 1 ltac:(lia)) as E1. destruct (get 1), (get' 1); cbn in E1; try tauto; reflexivity.
Qed.

Section ArmFlip.
  Variables (I' I : fimg) (nr : Z) (dist : Z) (inten : Q).
  Hypothesis HI : forall r c, oqe (px I' r c) (px I (nr - 1 - r) c).

  Lemma spec_arm_flip : forall d r c, spec_arm I' dist inten d r c = spec_arm I dist inten (vdir d) (nr - 1 - r) c.
  Proof.
    intros d r c. unfold spec_arm. pose proof (HI r c) as E.
    destruct (px I' r c) as [v'|], (px I (nr - 1 - r) c) as [v|]; cbn in E; try tauto.
    apply ray_arm_oqe; [|exact E]. intros j Hj. unfold ray.
    replace (nr - 1 - r + j * drow (vdir d)) with (nr - 1 - (r + j * drow d)) by (destruct d; cbn; lia).
    replace (dcol (vdir d)) with (dcol d) by (destruct d; reflexivity). apply HI.
  Qed.
End ArmFlip.

(* ------------------------------------------------------------------ the region and the aggregate *)

Section AggFlip.
  Variables (IL' IL IR' IR : fimg) (nr : Z) (dist : Z) (inten : Q) (shift : Z).
  Variables (cost' cost : Z -> Z -> option Q) (r c : Z).
  Hypothesis Hnr : f_nr IL = nr.
  Hypothesis HL : forall r c, oqe (px IL' r c) (px IL (nr - 1 - r) c).
  Hypothesis HR : forall r c, oqe (px IR' r c) (px IR (nr - 1 - r) c).
  Hypothesis HC : forall r c, 0 <= r < nr -> 0 <= c < f_nc IL -> cost' r c = cost (nr - 1 - r) c.
  Hypothesis Hr : 0 <= r < nr.
  Hypothesis Hc : 0 <= c < f_nc IL.
  Let r0 := nr - 1 - r.

  Let aL := spec_arm IL dist inten.   Let aR := spec_arm IR dist inten.
  Let aL' := spec_arm IL' dist inten. Let aR' := spec_arm IR' dist inten.

  Lemma carm_flip : forall d ρ γ, carm aL' aR' shift d ρ γ = carm aL aR shift (vdir d) (nr - 1 - ρ) γ.
  Proof.
    intros. unfold carm, aL', aR', aL, aR.
    rewrite (spec_arm_flip IL' IL nr dist inten HL), (spec_arm_flip IR' IR nr dist inten HR). reflexivity.
  Qed.

  (* the combined arms stay inside the (left) image *)
  Lemma carm_in : forall ρ γ, 0 <= ρ < nr -> 0 <= γ < f_nc IL ->
    0 <= carm aL aR shift DLeft ρ γ <= γ /\ 0 <= carm aL aR shift DRight ρ γ <= f_nc IL - 1 - γ /\
    0 <= carm aL aR shift DUp ρ γ <= ρ /\ 0 <= carm aL aR shift DDown ρ γ <= nr - 1 - ρ.
  Proof.
    intros ρ γ H1 H2. unfold carm, aL, aR.
    pose proof (spec_arm_in_image IL dist inten ρ γ ltac:(lia) H2) as B. rewrite Hnr in B.
    pose proof (spec_arm_inside IR dist inten DLeft ρ (γ + shift)) as [X1 _].
    pose proof (spec_arm_inside IR dist inten DRight ρ (γ + shift)) as [X2 _].
    pose proof (spec_arm_inside IR dist inten DUp ρ (γ + shift)) as [X3 _].
    pose proof (spec_arm_inside IR dist inten DDown ρ (γ + shift)) as [X4 _].
    cbv zeta in X1, X2, X3, X4. lia.
  Qed.

  Lemma region_costs_flip :
    Permutation (map (fun p => cost_or_0 (cost' (fst p) (snd p))) (region aL' aR' shift r c))
                (map (fun p => cost_or_0 (cost (fst p) (snd p))) (region aL aR shift r0 c)).
  Proof.
    unfold region. rewrite !map_flat_map_comm.
    rewrite (carm_flip DUp r c), (carm_flip DDown r c). cbn [vdir]. fold r0.
    destruct (carm_in r0 c ltac:(unfold r0; lia) Hc) as (_ & _ & BU & BD).
    set (up := carm aL aR shift DUp r0 c) in *. set (dn := carm aL aR shift DDown r0 c) in *.
    replace (Z.to_nat (up + dn + 1)) with (Z.to_nat (dn + up + 1)) by lia.
    apply flat_map_span_rev. intros i Hi. rewrite Z2Nat.id in * by lia.
    assert (Hrow : nr - 1 - (r - dn + i) = r0 - up + (dn + up + 1 - 1 - i)) by (unfold r0; lia).
    assert (Hin : 0 <= r0 - up + (dn + up + 1 - 1 - i) < nr) by (unfold r0 in *; lia).
    unfold hspan. rewrite !map_map. cbn [fst snd].
    rewrite (carm_flip DLeft), (carm_flip DRight). cbn [vdir]. rewrite Hrow.
    set (ρ := r0 - up + (dn + up + 1 - 1 - i)) in *.
    destruct (carm_in ρ c Hin Hc) as (BL & BR & _ & _).
    set (lf := carm aL aR shift DLeft ρ c) in *. set (rt := carm aL aR shift DRight ρ c) in *.
    apply map_ext_in. intros γ Hγ. apply in_span in Hγ. rewrite Z2Nat.id in Hγ by lia.
    rewrite HC by lia. rewrite Hrow. reflexivity.
  Qed.

  Theorem agg_spec_flip :
    agg_spec IL' IR' dist inten shift cost' r c = agg_spec IL IR dist inten shift cost r0 c.
  Proof.
    unfold agg_spec. rewrite (HC r c Hr Hc). fold r0. destruct (cost r0 c); [|reflexivity].
    f_equal. apply Qred_complete. unfold region_mean. fold aL aR aL' aR'.
    pose proof region_costs_flip as P.
    rewrite (sumQ_perm _ _ P).
    assert (El : length (region aL' aR' shift r c) = length (region aL aR shift r0 c)).
    { apply Permutation_length in P. rewrite !map_length in P. exact P. }
    rewrite El. reflexivity.
  Qed.
End AggFlip.

(* ================================================================== Part 2: the model *)

(* ------------------------------------------------------------------ the 3x3 median pre-filter read upside down *)

Lemma qinsert_insert : forall x l, qinsert x l = Filters.insert x l.
Proof. induction l as [|y l IH]; cbn [qinsert Filters.insert]; [reflexivity|]. now rewrite IH. Qed.
Lemma qsort_isort : forall l, qsort l = Filters.isort l.
Proof. induction l as [|x l IH]; cbn [qsort fold_right Filters.isort]; [reflexivity|]. fold (qsort l). now rewrite IH, qinsert_insert. Qed.

Lemma qmedian_perm : forall l' l, Permutation l' l -> oqe (qmedian l') (qmedian l).
Proof.
  intros l' l P. unfold qmedian. rewrite (qsort_isort l'), (qsort_isort l).
  pose proof (FiltersP.isort_perm_Qeq _ _ P) as H. cbv zeta.
  rewrite <- (FiltersP.F2Qeq_length _ _ H).
  destruct (length (Filters.isort l')) as [|n]; [exact I|].
  destruct (Nat.even (S n)).
  - cbn [oqe]. rewrite !Qred_correct.
    rewrite (FiltersP.F2Qeq_nth _ _ H (S n / 2 - 1)), (FiltersP.F2Qeq_nth _ _ H (S n / 2)). reflexivity.
  - cbn [oqe]. apply FiltersP.F2Qeq_nth. exact H.
Qed.

Lemma perm3 : forall {X} (A B C : list X), Permutation (A ++ B ++ C) (C ++ B ++ A).
Proof.
  intros. rewrite (Permutation_app_comm A (B ++ C)). rewrite (Permutation_app_comm B C). rewrite <- app_assoc. reflexivity.
Qed.

Lemma median3_flip : forall nr nc (I' I : img),
  (forall a b, 0 <= a < nr -> 0 <= b < nc -> I' a b = I (nr - 1 - a) b) ->
  forall r c, 0 <= r < nr -> 0 <= c < nc -> oqe (median3 nr nc I' r c) (median3 nr nc I (nr - 1 - r) c).
Proof.
  intros nr nc I' I H r c Hr Hc. unfold median3.
  replace ((1 <=? nr - 1 - r) && (nr - 1 - r <? nr - 1)) with ((1 <=? r) && (r <? nr - 1)) by lia.
  rewrite (H r c Hr Hc).
  destruct ((1 <=? r) && (r <? nr - 1) && (1 <=? c) && (c <? nc - 1)) eqn:Ei; [|apply oqe_refl].
  destruct (I (nr - 1 - r) c); [|exact Logic.I].
  apply qmedian_perm. unfold valid_vals. apply Permutation_flat_map.
  unfold window3. cbn [flat_map map app].
  rewrite !H by lia.
  replace (nr - 1 - (r + -1)) with (nr - 1 - r + 1) by lia. replace (nr - 1 - (r + 0)) with (nr - 1 - r + 0) by lia.
  replace (nr - 1 - (r + 1)) with (nr - 1 - r + -1) by lia.
  set (R := nr - 1 - r).
  change [I (R + 1) (c + -1); I (R + 1) (c + 0); I (R + 1) (c + 1); I (R + 0) (c + -1); I (R + 0) (c + 0); I (R + 0) (c + 1);
          I (R + -1) (c + -1); I (R + -1) (c + 0); I (R + -1) (c + 1)]
    with ([I (R + 1) (c + -1); I (R + 1) (c + 0); I (R + 1) (c + 1)] ++ [I (R + 0) (c + -1); I (R + 0) (c + 0); I (R + 0) (c + 1)]
          ++ [I (R + -1) (c + -1); I (R + -1) (c + 0); I (R + -1) (c + 1)]).
  change [I (R + -1) (c + -1); I (R + -1) (c + 0); I (R + -1) (c + 1); I (R + 0) (c + -1); I (R + 0) (c + 0); I (R + 0) (c + 1);
          I (R + 1) (c + -1); I (R + 1) (c + 0); I (R + 1) (c + 1)]
    with ([I (R + -1) (c + -1); I (R + -1) (c + 0); I (R + -1) (c + 1)] ++ [I (R + 0) (c + -1); I (R + 0) (c + 0); I (R + 0) (c + 1)]
          ++ [I (R + 1) (c + -1); I (R + 1) (c + 0); I (R + 1) (c + 1)]).
  apply perm3.
Qed.

(* ------------------------------------------------------------------ a plane where the correspondent column is outside
   the right image: the kernels write 0 in step 2 / step 4 and in the pixel counts *)

Lemma plane_out_invalid : forall nr nc ncR cL cR d cv r c, 0 <= r < nr -> 0 <= c < nc -> valid_col ncR d c = false ->
  lookup None (plane_out nr nc ncR cL cR d cv) r c
  = oq_div (oq_add (nan_mask (cv r c)) 0%Q) (0 + 1).
Proof.
  intros nr nc ncR cL cR d cv r c Hr Hc Hv. unfold plane_out. cbv zeta.
  rewrite lookup_tabulate by lia. unfold step4, sum4. rewrite Hv.
  rewrite lookup_tabulate by lia. unfold sum2. rewrite Hv. reflexivity.
Qed.

(* ------------------------------------------------------------------ the aggregated volume of the model *)

Section CbcaModelFlip.
  Variables (x' x : cbca_in).      (* x': the inputs turned upside down *)
  Hypothesis Hpar : i_nr x' = i_nr x /\ i_nc x' = i_nc x /\ i_off x' = i_off x /\ i_subpix x' = i_subpix x /\ i_dist x' = i_dist x
                    /\ i_inten x' = i_inten x /\ i_validL x' = i_validL x /\ i_validR x' = i_validR x /\ i_disps x' = i_disps x.
  Hypothesis Hdist : 1 <= i_dist x.
  Hypothesis Hsub : 1 <= i_subpix x.
  Hypothesis Hoff : 0 <= i_off x.
  Let nr := i_nr x.
  Let nc := i_nc x.
  Let off := i_off x.
  Hypothesis HimL : forall a b, 0 <= a < nr -> 0 <= b < nc ->
    i_imL x' a b = i_imL x (nr - 1 - a) b /\ omask_agree (i_mskL x') (i_mskL x) a b (nr - 1 - a) b.
  Hypothesis HimR : forall s a b, 0 <= a < nr -> 0 <= b < ncR_full x s -> i_imR x' s a b = i_imR x s (nr - 1 - a) b.
  Hypothesis HmR : forall a b, 0 <= a < nr -> 0 <= b < nc -> omask_agree (i_mskR x') (i_mskR x) a b (nr - 1 - a) b.
  Hypothesis Hcv : forall k a b, 0 <= a < nr -> 0 <= b < nc -> i_cv x' k a b = i_cv x k (nr - 1 - a) b.

  Lemma cnr_eq : cnr x' = cnr x /\ cnc x' = cnc x /\ forall s, cncR x' s = cncR x s.
  Proof.
    destruct Hpar as (E1 & E2 & E3 & _). unfold cnr, cnc, cncR, ncR_full. rewrite E1, E2, E3. repeat split; reflexivity.
  Qed.

  Lemma px_left_flip : forall r c, oqe (px (spec_left x') r c) (px (spec_left x) (cnr x - 1 - r) c).
  Proof.
    intros r c. destruct Hpar as (E1 & E2 & E3 & _ & _ & _ & EvL & _). destruct cnr_eq as (C1 & C2 & _).
    unfold px, inside, spec_left. cbn [Spec.Cbca.f_nr Spec.Cbca.f_nc f_pix]. rewrite C1, C2.
    replace ((0 <=? cnr x - 1 - r) && (cnr x - 1 - r <? cnr x)) with ((0 <=? r) && (r <? cnr x)) by lia.
    destruct ((0 <=? r) && (r <? cnr x) && (0 <=? c) && (c <? cnc x)) eqn:Ein; [|exact I].
    unfold crop, left_filtered. rewrite E1, E2, E3, EvL. fold nr nc off.
    unfold cnr, cnc in *. fold nr nc off in Ein |- *.
    replace (nr - 2 * off - 1 - r + off) with (nr - 1 - (r + off)) by lia.
    apply median3_flip; try lia.
    intros a b Ha Hb. destruct (HimL a b Ha Hb) as [A1 A2]. apply apply_mask_local; assumption.
  Qed.

  Lemma px_right_flip : forall s r c, oqe (px (spec_right x' s) r c) (px (spec_right x s) (cnr x - 1 - r) c).
  Proof.
    intros s r c. destruct Hpar as (E1 & E2 & E3 & _ & _ & _ & _ & EvR & _). destruct cnr_eq as (C1 & _ & C3).
    unfold px, inside, spec_right. cbn [Spec.Cbca.f_nr Spec.Cbca.f_nc f_pix]. rewrite C1, C3.
    replace ((0 <=? cnr x - 1 - r) && (cnr x - 1 - r <? cnr x)) with ((0 <=? r) && (r <? cnr x)) by lia.
    destruct ((0 <=? r) && (r <? cnr x) && (0 <=? c) && (c <? cncR x s)) eqn:Ein; [|exact I].
    unfold crop, right_filtered.
    assert (En : ncR_full x' s = ncR_full x s) by (unfold ncR_full; rewrite E2; reflexivity).
    rewrite E1, En, E3, EvR. fold nr off.
    unfold cnr, cncR in *. fold nr off in Ein |- *.
    replace (nr - 2 * off - 1 - r + off) with (nr - 1 - (r + off)) by lia.
    assert (Hle : ncR_full x s <= nc) by (unfold ncR_full, nc; destruct (s =? 0); lia).
    apply median3_flip; try lia.
    intros a b Ha Hb. destruct (s =? 0) eqn:Es.
    - apply Z.eqb_eq in Es. subst s. apply apply_mask_local; [apply HimR; assumption|apply HmR; lia].
    - assert (Hb1 : b + 1 < nc) by (unfold ncR_full in Hb; rewrite Es in Hb; fold nc in Hb; lia).
      apply apply_shift_mask_local; [apply HimR; assumption|apply HmR; lia|apply HmR; lia].
  Qed.

  Theorem cbca_model_flip : forall k r c, 0 <= k < n_disp x -> 0 <= r < nr -> 0 <= c < nc ->
    out_at x' k r c = out_at x k (nr - 1 - r) c.
  Proof.
    intros k r c Hk Hr Hc. pose proof Hpar as (E1 & E2 & E3 & E4 & E5 & E6 & E7 & E8 & E9).
    destruct cnr_eq as (C1 & C2 & C3). pose proof px_left_flip as PL. pose proof px_right_flip as PR.
    pose proof Hcv as Hcv0. subst nr nc off.
    assert (Hk' : 0 <= k < n_disp x') by (unfold n_disp in *; rewrite E9; exact Hk).
    assert (Ed : nth_disp x' k = nth_disp x k) by (unfold nth_disp; rewrite E9; reflexivity).
    rewrite (volume_at x') by (rewrite ?E1, ?E2, ?E4; assumption).
    rewrite (volume_at x) by (try assumption; lia). cbv zeta.
    assert (Ecrop : in_crop x' r c = in_crop x (i_nr x - 1 - r) c).
    { unfold in_crop. rewrite E1, E2, E3.
      replace ((i_off x <=? i_nr x - 1 - r) && (i_nr x - 1 - r <? i_nr x - i_off x))
        with ((i_off x <=? r) && (r <? i_nr x - i_off x)) by lia. reflexivity. }
    destruct (in_crop x (i_nr x - 1 - r) c) eqn:Hin; rewrite Ecrop; [|apply Hcv0; assumption].
    rewrite Ed, E4, C1, C2, C3, E3. set (d := nth_disp x k). set (s := i_right (i_subpix x) d).
    assert (R : 0 <= i_nr x - 1 - r - i_off x < cnr x /\ 0 <= c - i_off x < cnc x /\ 0 <= r - i_off x < cnr x)
      by (unfold in_crop, cnr, cnc in *; lia).
    destruct R as (R1 & R2 & R3).
    destruct (valid_col (cncR x s) d (c - i_off x)) eqn:Hv.
    - (* the correspondent is inside: C11's plane theorem on both sides, then the spec read upside down *)
      pose proof (cbca_model_eq_spec_valid x' ltac:(rewrite E5; exact Hdist) ltac:(rewrite E4; exact Hsub)
                    ltac:(rewrite E3; exact Hoff) ltac:(rewrite C1; lia) ltac:(rewrite C2; lia) k r c Hk' Ecrop) as X.
      pose proof (cbca_model_eq_spec_valid x Hdist Hsub Hoff ltac:(lia) ltac:(lia) k (i_nr x - 1 - r) c Hk Hin) as Y.
      cbv zeta in X, Y. rewrite Ed, E4, C3, E3 in X. fold d in X, Y. change (plane_image (i_subpix x) d) with s in X, Y.
      assert (Hvv : 0 <= c - i_off x + plane_shift d < cncR x s) by (apply valid_col_iff in Hv; exact Hv).
      specialize (X Hvv). specialize (Y Hvv).
      rewrite (volume_at x') in X by (rewrite ?E1, ?E2, ?E4; assumption).
      rewrite (volume_at x) in Y by (try assumption; lia). cbv zeta in X, Y.
      rewrite Ecrop in X. rewrite Hin in Y.
      rewrite Ed, E4, C1, C2, C3, E3 in X. fold d s in X, Y.
      rewrite X, Y. rewrite E5, E6.
      replace (i_nr x - 1 - r - i_off x) with (cnr x - 1 - (r - i_off x)) by (unfold cnr; lia).
      apply (agg_spec_flip (spec_left x') (spec_left x) (spec_right x' s) (spec_right x s) (cnr x)); try reflexivity.
      + apply PL.
      + apply PR.
      + intros a b Ha Hb. cbn [spec_left Spec.Cbca.f_nc] in Hb. unfold crop. unfold cnr, cnc in *.
        rewrite Hcv0 by lia. f_equal. lia.
      + exact R3.
      + cbn [spec_left Spec.Cbca.f_nc]. exact R2.
    - (* the correspondent is outside *)
      rewrite !plane_out_invalid by assumption. unfold crop.
      replace (r - i_off x + i_off x) with r by lia. replace (c - i_off x + i_off x) with c by lia.
      replace (i_nr x - 1 - r - i_off x + i_off x) with (i_nr x - 1 - r) by lia.
      rewrite Hcv0 by assumption. reflexivity.
  Qed.
End CbcaModelFlip.
