(* Lemmas on the combinators of Lib/NpNd3.v (and of Lib/NpNd.v at ranks 1 and 3): what each
   operation yields -- error flag, shape, element at every in-range index -- from what its operands
   hold.  [is3 X a b c g]: X is a well-formed a x b x c array whose element (i, j, k) is g i j k. *)
From Coq Require Import ZArith QArith List Bool Lia.
From Pandora Require Import Lib.Arr Lib.Ext Lib.NpNd Lib.NpNd3 Proofs.NpNdP.
Import ListNotations.
Open Scope Z_scope.

Definition is3 {A : Type} (X : nd A) (a b c : Z) (g : Z -> Z -> Z -> A) : Prop :=
  err X = false /\ shp X = [a; b; c] /\
  forall i j k, 0 <= i < a -> 0 <= j < b -> 0 <= k < c -> elt X [i; j; k] = g i j k.
Definition is1 {A : Type} (X : nd A) (a : Z) (g : Z -> A) : Prop :=
  err X = false /\ shp X = [a] /\ forall i, 0 <= i < a -> elt X [i] = g i.

Lemma is3_ext : forall (A : Type) (X : nd A) a b c g g', is3 X a b c g ->
  (forall i j k, 0 <= i < a -> 0 <= j < b -> 0 <= k < c -> g i j k = g' i j k) -> is3 X a b c g'.
Proof. intros A X a b c g g' (He & Hs & Hg) H. repeat split; auto. intros. rewrite Hg by assumption. auto. Qed.

Lemma is3_shape : forall (A : Type) (X : nd A) a b c g, is3 X a b c g ->
  np_shape X 0 = a /\ np_shape X 1 = b /\ np_shape X 2 = c.
Proof. intros A X a b c g (_ & Hs & _). unfold np_shape. rewrite Hs. repeat split; reflexivity. Qed.

Lemma map_3 : forall (A B : Type) (f : A -> B) X a b c g, is3 X a b c g ->
  is3 (np_map f X) a b c (fun i j k => f (g i j k)).
Proof.
  intros A B f X a b c g (He & Hs & Hg). unfold np_map, is3. cbn [err shp elt].
  repeat split; auto. intros. rewrite Hg by assumption. reflexivity.
Qed.

Lemma setitem_mask_3 : forall (A : Type) (X : nd A) M v a b c g m, is3 X a b c g -> is3 M a b c m ->
  is3 (np_setitem_mask X M v) a b c (fun i j k => if m i j k then v else g i j k).
Proof.
  intros A X M v a b c g m (He & Hs & Hg) (He' & Hs' & Hm). unfold np_setitem_mask, is3. cbn [err shp elt].
  rewrite He, He', Hs, Hs', shape_eqb_refl. repeat split; auto. intros. rewrite Hm, Hg by assumption. reflexivity.
Qed.

Lemma slice01_3 : forall (A : Type) (X : nd A) a b c g y0 y1 x0 x1, is3 X a b c g ->
  0 <= y0 -> y1 <= a -> 0 <= x0 -> x1 <= b ->
  is3 (np_slice01 X y0 y1 x0 x1) (y1 - y0) (x1 - x0) c (fun i j k => g (y0 + i) (x0 + j) k).
Proof.
  intros A X a b c g y0 y1 x0 x1 (He & Hs & Hg) ? ? ? ?. unfold np_slice01, is3. rewrite Hs. cbn [err shp elt].
  repeat split; auto. intros. apply Hg; lia.
Qed.

Lemma zeros2_2 : forall n m, 0 <= n -> 0 <= m -> is2 (np_zeros2 n m) n m (fun _ _ => Some 0%Q).
Proof.
  intros n m Hn Hm. unfold np_zeros2, is2. cbn [err shp elt].
  replace (n <? 0) with false by lia. replace (m <? 0) with false by lia. repeat split; auto.
Qed.

(* the values along the last axis *)
Lemma axis2_list_is : forall (A : Type) (X : nd A) a b c g i j, is3 X a b c g -> 0 <= i < a -> 0 <= j < b ->
  axis2_list X c i j = map (g i j) (zrange c).
Proof.
  intros A X a b c g i j (_ & _ & Hg) Hi Hj. unfold axis2_list. apply map_ext_in. intros k Hk.
  apply In_zrange in Hk. apply Hg; assumption.
Qed.

Lemma reduce_2 : forall (A B : Type) (f : list A -> B) X a b c g, is3 X a b c g -> 0 < c ->
  is2 (np_reduce_2 f X) a b (fun i j => f (map (g i j) (zrange c))).
Proof.
  intros A B f X a b c g H Hc. pose proof H as (He & Hs & Hg). unfold np_reduce_2, is2. rewrite Hs. cbn [err shp elt].
  rewrite He. replace (c <=? 0) with false by lia. repeat split; auto. intros i j Hi Hj. f_equal.
  apply (axis2_list_is _ X a b c g); assumption.
Qed.

(* every index enumerated by all_idx is in range *)
Lemma all_idx_in_range : forall s idx, In idx (all_idx s) -> Forall2 (fun i n => 0 <= i < n) idx s.
Proof.
  induction s as [|n t IH]; intros idx H.
  - cbn in H. destruct H as [<- | []]. constructor.
  - cbn [all_idx] in H. apply in_flat_map in H. destruct H as (i & Hi & H).
    apply in_map_iff in H. destruct H as (r & <- & Hr). constructor; [apply In_zrange; assumption | apply IH; assumption].
Qed.

(* a[I] with a rank-2 index array whose entries are valid non-negative positions *)
Lemma take_2 : forall (A : Type) (D : nd A) (I : nd Z) n d a b ix, is1 D n d -> is2 I a b ix ->
  (forall i j, 0 <= i < a -> 0 <= j < b -> 0 <= ix i j < n) ->
  is2 (np_take D I) a b (fun i j => d (ix i j)).
Proof.
  intros A D I n d a b ix (He & Hs & Hd) (He' & Hs' & Hi) Hr. unfold np_take, is2. rewrite Hs. cbn [err shp elt].
  rewrite He, He', Hs'. cbn [orb]. repeat split; auto.
  - apply not_true_is_false. intros H. apply existsb_exists in H. destruct H as (idx & Hin & Hbad).
    apply all_idx_in_range in Hin. inversion Hin as [|i na r1 r2 Hi0 H2]; subst. inversion H2 as [|j nb r3 r4 Hj0 H3]; subst.
    inversion H3; subst. rewrite Hi in Hbad by assumption. specialize (Hr i j Hi0 Hj0). unfold idx_bad in Hbad.
    replace (- n <=? ix i j) with true in Hbad by lia. replace (ix i j <? n) with true in Hbad by lia. discriminate.
  - intros i j Hi0 Hj0. rewrite Hi by assumption. specialize (Hr i j Hi0 Hj0). unfold idx_wrap.
    replace (ix i j <? 0) with false by lia. apply Hd. assumption.
Qed.

(* a[[i0; ...]] with a list literal: every entry in [-n, n) *)
Lemma nd1_z_is : forall l, is1 (nd1_z l) (Z.of_nat (length l)) (fun i => nth (Z.to_nat i) l 0).
Proof. intros l. unfold nd1_z, is1. cbn [err shp elt]. repeat split; auto. Qed.

Lemma take_1 : forall (A : Type) (D : nd A) (I : nd Z) n d a ix, is1 D n d -> is1 I a ix ->
  (forall i, 0 <= i < a -> - n <= ix i < n) ->
  is1 (np_take D I) a (fun i => d (idx_wrap n (ix i))).
Proof.
  intros A D I n d a ix (He & Hs & Hd) (He' & Hs' & Hi) Hr. unfold np_take, is1. rewrite Hs. cbn [err shp elt].
  rewrite He, He', Hs'. cbn [orb]. repeat split; auto.
  - apply not_true_is_false. intros H. apply existsb_exists in H. destruct H as (idx & Hin & Hbad).
    apply all_idx_in_range in Hin. inversion Hin as [|i na r1 r2 Hi0 H2]; subst. inversion H2; subst.
    rewrite Hi in Hbad by assumption. specialize (Hr i Hi0). unfold idx_bad in Hbad.
    replace (- n <=? ix i) with true in Hbad by lia. replace (ix i <? n) with true in Hbad by lia. discriminate.
  - intros i Hi0. rewrite Hi by assumption. specialize (Hr i Hi0). apply Hd. unfold idx_wrap.
    destruct (ix i <? 0) eqn:E; lia.
Qed.

(* ---------------------------------------------------------------- arg-min / arg-max of a list without NaN *)
Lemma first_nan_none : forall l i, (forall c, In c l -> c <> None) -> first_nan l i = None.
Proof.
  induction l as [|c l IH]; intros i H; [reflexivity|]. cbn [first_nan].
  destruct c as [e|]; [apply IH; intros c Hc; apply H; right; assumption|].
  exfalso. apply (H None); [left; reflexivity | reflexivity].
Qed.

Lemma arg_scan_lt : forall better l i besti bestv, (besti < i)%nat ->
  (arg_scan better l i besti bestv < i + length l)%nat.
Proof.
  intros better l. induction l as [|x r IH]; intros i besti bestv H; cbn [arg_scan length]; [lia|].
  destruct (better x bestv).
  - specialize (IH (S i) i x ltac:(lia)). lia.
  - specialize (IH (S i) besti bestv ltac:(lia)). lia.
Qed.
Lemma arg_first_lt : forall better l, l <> [] -> (arg_first better l < length l)%nat.
Proof.
  intros better [|x r] H; [contradiction|]. cbn [arg_first length].
  pose proof (arg_scan_lt better r 1 0 x ltac:(lia)). lia.
Qed.

(* the cast to a signed integer of [bits] bits keeps every value it can hold *)
Lemma wrap_int_small : forall bits z, 1 <= bits -> - 2 ^ (bits - 1) <= z < 2 ^ (bits - 1) -> wrap_int bits z = z.
Proof.
  intros bits z Hb Hz. unfold wrap_int.
  assert (E : 2 ^ bits = 2 * 2 ^ (bits - 1)).
  { replace bits with (Z.succ (bits - 1)) at 1 by lia. apply Z.pow_succ_r. lia. }
  rewrite Z.mod_small by lia. lia.
Qed.
