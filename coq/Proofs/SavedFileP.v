(* C19: the saved FILE replays (Model/SavedFile.v): json_roundtrip (Proofs/JsonTextP.v) composed
   with the replay of the saved dictionary (Proofs/IndicatorP.v, Proofs/GuardP.v). *)
From Coq Require Import ZArith List Bool String.
From Pandora Require Import Model.Json Model.JsonText Model.Checker Model.Pipeline Model.SavedCfg Model.SavedFile
  Proofs.CheckerP Proofs.SavedCfgP Proofs.RewriteP Proofs.IndicatorP Proofs.JsonP Proofs.GuardP Proofs.JsonTextP.
Import ListNotations.
Open Scope string_scope.

Section File.
  Variable D : input_defs.
  Variable orc : string -> jv -> option bool.
  Variable grid_ok : jv -> jv -> bool.
  Variable images_ok : dict -> bool.
  Variable bands_of : jv -> list jv.
  Variable classes : list class_def.
  Variable interp : list string.
  Hypothesis W : classes_wf classes = true.
  Hypothesis CW : confidence_wf classes = true.
  Hypothesis S : classes_scalar classes = true.
  Hypothesis DW : defs_wf D = true.

  Notation full_check := (full_check D orc grid_ok images_ok bands_of classes interp).
  Notation main_saved := (main_saved D orc grid_ok images_ok bands_of classes interp).
  Notation check_file := (check_file D orc grid_ok images_ok bands_of classes interp).
  Notation main_file := (main_file D orc grid_ok images_ok bands_of classes interp).

  Lemma main_file_eq m text :
    main_file m text =
    match parse text with
    | Some (JDict user) =>
      match main_saved m user with Some saved => Some (print (JDict saved)) | None => None end
    | _ => None
    end.
  Proof. reflexivity. Qed.

  Lemma check_file_eq text :
    check_file text = match parse text with Some (JDict user) => full_check user | _ => None end.
  Proof. reflexivity. Qed.

  (* the "input" object of the configuration file gives "left" and "right" at most once *)
  Definition text_input_keys_once (text : string) : bool :=
    match parse text with Some (JDict user) => input_keys_once user | _ => true end.

  Theorem saved_file_replays m text out :
    text_input_keys_once text = true ->
    main_file m text = Some out ->
    exists user cfg saved,
      parse text = Some (JDict user)
      /\ full_check user = Some cfg
      /\ saved = set_key "margins" m (run_rewrites cfg)
      /\ out = print (JDict saved)
      /\ (printable (JDict saved) = true ->
          parse out = Some (JDict saved)
          /\ check_file out = Some (run_rewrites cfg)
          /\ main_file m out = Some out).
  Proof.
    intro KO. unfold text_input_keys_once in KO.
    rewrite main_file_eq. destruct (parse text) as [[| | | | | | | |user]|] eqn:Pt; try discriminate.
    destruct (main_saved m user) as [saved|] eqn:Ms; [|discriminate]. intro H. assert (Hout : out = print (JDict saved)) by (inversion H; reflexivity). clear H.
    assert (G : replay_guard D orc grid_ok images_ok bands_of classes interp user = true).
    { unfold SavedCfg.main_saved in Ms. destruct (full_check user) as [cfg|] eqn:E; [|discriminate].
      exact (replay_guard_holds D orc grid_ok images_ok bands_of classes interp W S DW user cfg KO E). }
    destruct (main_saved_replays_rw D orc grid_ok images_ok bands_of classes interp W CW user m saved Ms G)
      as [cfg [Fc [Es [Fs Ms2]]]].
    exists user, cfg, saved. split; [reflexivity|]. split; [exact Fc|]. split; [exact Es|]. split; [exact Hout|].
    intro P. pose proof (parse_print (JDict saved) P) as R. rewrite Hout. remember (print (JDict saved)) as pv. split; [exact R|]. split.
    - rewrite check_file_eq, R. exact Fs.
    - rewrite main_file_eq, R, Ms2, Heqpv. reflexivity.
  Qed.
End File.
