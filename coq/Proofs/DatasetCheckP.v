(* C17, datasets: the model of check_datasets accepts exactly the well-formed pairs. *)
From Coq Require Import ZArith QArith List Bool String Lia.
From Pandora Require Import Model.DatasetCheck Spec.WellFormed.
Import ListNotations.
Open Scope Z_scope.

(* ---------------------------------------------------------------- small reflections *)

Lemma shape_eqb_eq a : forall b, shape_eqb a b = true <-> a = b.
Proof.
  induction a as [|x a IH]; intros [|y b]; cbn [shape_eqb]; split; intro H; try reflexivity; try discriminate.
  - apply andb_prop in H as [H1 H2]. apply Z.eqb_eq in H1. apply IH in H2. now subst.
  - inversion H; subst. rewrite Z.eqb_refl. cbn. now apply IH.
Qed.

Lemma last2_rows_cols s : last2 s = rows_cols s.
Proof. reflexivity. Qed.

Lemma label_eqb_eq a b : label_eqb a b = true <-> a = b.
Proof.
  destruct a, b; cbn; split; intro H; try reflexivity; try discriminate.
  - apply Z.eqb_eq in H. now subst.
  - inversion H. apply Z.eqb_refl.
Qed.

Lemma label_eqb_refl a : label_eqb a a = true.
Proof. now apply label_eqb_eq. Qed.

Lemma mem_label_In l ls : mem_label l ls = true <-> In l ls.
Proof.
  induction ls as [|x r IH]; cbn; [split; [discriminate | tauto]|].
  rewrite orb_true_iff, IH, label_eqb_eq. split; intros [H|H]; auto.
Qed.

Lemma index_of_nth l ls : In l ls -> nth_error ls (index_of l ls) = Some l.
Proof.
  induction ls as [|x r IH]; cbn; [tauto|]. intros H.
  destruct (label_eqb l x) eqn:E.
  - apply label_eqb_eq in E. now subst.
  - cbn. apply IH. destruct H as [H|H]; [|exact H]. subst. now rewrite label_eqb_refl in E.
Qed.

Lemma index_of_unique l ls : NoDup ls -> forall i, nth_error ls i = Some l -> index_of l ls = i.
Proof.
  induction 1 as [|x r Hx Hr IH]; intros i Hi.
  - destruct i; discriminate.
  - cbn. destruct i as [|i]; cbn in Hi.
    + inversion Hi; subst. now rewrite label_eqb_refl.
    + destruct (label_eqb l x) eqn:E.
      * apply label_eqb_eq in E; subst. exfalso. apply Hx. eapply nth_error_In; eauto.
      * f_equal. now apply IH.
Qed.

Lemma mem_string_In s l : mem_string s l = true <-> In s l.
Proof.
  induction l as [|x r IH]; cbn; [split; [discriminate | tauto]|].
  rewrite orb_true_iff, IH, String.eqb_eq. split; intros [H|H]; auto.
Qed.

Lemma Qle_bool_false_iff x y : Qle_bool x y = false <-> ~ (x <= y)%Q.
Proof.
  split; intro H.
  - intro L. apply Qle_bool_iff in L. congruence.
  - destruct (Qle_bool x y) eqn:E; [|reflexivity]. apply Qle_bool_iff in E. contradiction.
Qed.

Lemma cell_gt_false a b : cell_gt a b = false <-> bounds_ordered false a b.
Proof.
  destruct a as [x|], b as [y|]; cbn; try tauto.
  rewrite negb_false_iff. apply Qle_bool_iff.
Qed.

Lemma andthen_ok a b : andthen a b = Ok tt <-> a = Ok tt /\ b = Ok tt.
Proof.
  destruct a as [[]|e]; cbn; split; try tauto; try (intros [H _]; discriminate); discriminate.
Qed.

(* ---------------------------------------------------------------- the disparity variable *)

Lemma check_disparity_iff d : NoDup (d_labels d) ->
  (check_disparities_from_dataset d = Ok tt <-> wf_disparity false d).
Proof.
  intro ND. unfold check_disparities_from_dataset, wf_disparity.
  destruct (d_has_coord d); cbn [negb]; [|split; [discriminate | intros [H _]; discriminate]].
  destruct (mem_label LMin (d_labels d)) eqn:Emin; cbn [andb negb].
  2:{ split; [discriminate|]. intros [_ (imin & imax & H1 & _)].
      apply nth_error_In in H1. apply mem_label_In in H1. congruence. }
  destruct (mem_label LMax (d_labels d)) eqn:Emax; cbn [negb].
  2:{ split; [discriminate|]. intros [_ (imin & imax & _ & H2 & _)].
      apply nth_error_In in H2. apply mem_label_In in H2. congruence. }
  apply mem_label_In in Emin, Emax.
  match goal with |- context [existsb ?f ?l] => destruct (existsb f l) eqn:Ex end.
  - split; [discriminate|]. intros [_ (imin & imax & H1 & H2 & H3)]. exfalso.
    apply existsb_exists in Ex as (px & Hpx & G).
    rewrite (index_of_unique _ _ ND _ H1), (index_of_unique _ _ ND _ H2) in G.
    specialize (H3 px Hpx). apply cell_gt_false in H3. unfold cell in *. rewrite H3 in G. discriminate.
  - split; [|reflexivity]. intros _. split; [reflexivity|].
    exists (index_of LMin (d_labels d)), (index_of LMax (d_labels d)).
    split; [now apply index_of_nth|]. split; [now apply index_of_nth|].
    intros px Hpx. apply cell_gt_false.
    destruct (cell_gt _ _) eqn:G; [|reflexivity].
    assert (existsb (fun px => cell_gt (nth (index_of LMin (d_labels d)) px None)
                                       (nth (index_of LMax (d_labels d)) px None)) (d_pixels d) = true)
      by (apply existsb_exists; eauto).
    congruence.
Qed.

(* ---------------------------------------------------------------- one dataset *)

Lemma all_nan_false_iff im : forallb is_nan (im_cells im) = false <-> has_a_number im.
Proof.
  unfold has_a_number. induction (im_cells im) as [|c r IH]; cbn.
  - split; [discriminate | intros [q []]].
  - destruct c as [q|]; cbn.
    + split; [eauto | reflexivity].
    + rewrite IH. split; intros [q H]; exists q; [now right|]. destruct H as [H|H]; [discriminate|exact H].
Qed.

Lemma forallb_id_iff bands : forallb (fun b : bool => b) bands = true <-> forall b, In b bands -> b = true.
Proof. rewrite forallb_forall. tauto. Qed.

Section OneDataset.
  Variable mandatory : list string.
  Hypothesis mandatory_five : forall a, In a mandatory <-> In a five_attributes.

  Lemma check_attributes_iff ds :
    check_attributes mandatory ds = Ok tt <-> (forall a, In a five_attributes -> In a (ds_attrs ds)).
  Proof.
    unfold check_attributes. destruct (forallb _ mandatory) eqn:E.
    - split; [|reflexivity]. intros _ a Ha. rewrite forallb_forall in E.
      apply mem_string_In, E, mandatory_five, Ha.
    - split; [discriminate|]. intro H. exfalso.
      assert (forallb (fun a => mem_string a (ds_attrs ds)) mandatory = true); [|congruence].
      apply forallb_forall. intros a Ha. apply mem_string_In, H, mandatory_five, Ha.
  Qed.

  Lemma check_shapes_iff im shapes :
    check_shapes im shapes = Ok tt <-> (forall s, In s shapes -> on_grid im s).
  Proof.
    unfold check_shapes, on_grid. destruct (forallb _ shapes) eqn:E.
    - split; [|reflexivity]. intros _ s Hs. rewrite forallb_forall in E.
      specialize (E s Hs). apply shape_eqb_eq in E. now rewrite !last2_rows_cols in E.
    - split; [discriminate|]. intro H. exfalso.
      assert (forallb (fun s => shape_eqb (last2 (im_shape im)) (last2 s)) shapes = true); [|congruence].
      apply forallb_forall. intros s Hs. apply shape_eqb_eq. rewrite !last2_rows_cols. symmetry. now apply H.
  Qed.

  Lemma check_dataset_iff ds : labels_distinct ds ->
    (check_dataset mandatory ds = Ok tt <-> wf_dataset false ds).
  Proof.
    intro LD. unfold check_dataset, wf_dataset.
    destruct (ds_im ds) as [im|] eqn:Eim.
    2:{ split; [discriminate | intros (im & H & _); discriminate]. }
    rewrite !andthen_ok, check_shapes_iff, check_attributes_iff.
    split.
    - intros (Hb & Hn & Hd & Hs & Ha). exists im. split; [reflexivity|].
      split.
      { apply all_nan_false_iff. destruct (forallb is_nan (im_cells im)); [discriminate | reflexivity]. }
      split.
      { intros bands Eb. unfold check_band_names in Hb. rewrite Eb in Hb.
        apply forallb_id_iff. destruct (forallb _ bands); [reflexivity | discriminate]. }
      split.
      { intros d Ed. rewrite Ed in Hd. split.
        - apply check_disparity_iff; [now apply LD | exact Hd].
        - apply Hs. unfold other_shapes. rewrite Ed. now left. }
      split; [|exact Ha].
      intros name s Hin. apply Hs. unfold other_shapes. apply in_or_app. right.
      change s with (snd (name, s)). now apply in_map.
    - intros (im' & E' & Hn & Hb & Hd & Hv & Ha). inversion E'; subst im'.
      split.
      { unfold check_band_names. destruct (ds_band_im ds) as [bands|]; [|reflexivity].
        specialize (Hb bands eq_refl). apply forallb_id_iff in Hb. now rewrite Hb. }
      split.
      { apply all_nan_false_iff in Hn. now rewrite Hn. }
      split.
      { destruct (ds_disp ds) as [d|] eqn:Ed; [|reflexivity].
        apply check_disparity_iff; [now apply LD | apply (Hd d eq_refl)]. }
      split; [|exact Ha].
      intros s Hs. unfold other_shapes in Hs. apply in_app_or in Hs as [Hs|Hs].
      + destruct (ds_disp ds) as [d|] eqn:Ed; [|destruct Hs].
        destruct Hs as [Hs|[]]. subst s. apply (Hd d eq_refl).
      + apply in_map_iff in Hs as ([name s'] & Es & Hin). cbn in Es. subst s'. eapply Hv; eauto.
  Qed.

  (* ---------------------------------------------------------------- the pair *)

  Lemma check_datasets_iff l r : labels_distinct l -> labels_distinct r ->
    (check_datasets mandatory l r = Ok tt <-> wf_pair false l r).
  Proof.
    intros Ll Lr. unfold check_datasets, wf_pair.
    rewrite !andthen_ok, (check_dataset_iff l Ll), (check_dataset_iff r Lr).
    split.
    - intros (Hl & Hr & H). split; [exact Hl|]. split; [exact Hr|].
      destruct (ds_disp l) as [d|]; [|discriminate].
      split; [discriminate|]. intros il ir El Er. rewrite El, Er in H.
      destruct (shape_eqb _ _) eqn:E; [|discriminate]. apply shape_eqb_eq in E. exact E.
    - intros (Hl & Hr & Hd & Hs). split; [exact Hl|]. split; [exact Hr|].
      destruct (ds_disp l) as [d|]; [|congruence].
      destruct Hl as (il & El & _), Hr as (ir & Er & _). rewrite El, Er.
      specialize (Hs il ir El Er). apply shape_eqb_eq in Hs. unfold rows_cols in Hs. unfold last2. now rewrite Hs.
  Qed.

  (* every refusal is an exception of one of three classes; nothing else can happen *)
  Lemma check_datasets_total l r :
    check_datasets mandatory l r = Ok tt \/
    exists e, check_datasets mandatory l r = Raise e /\ (e = EAttribute \/ e = EType \/ e = EValue).
  Proof.
    assert (D : forall d, check_disparities_from_dataset d = Ok tt \/ check_disparities_from_dataset d = Raise EAttribute).
    { intro d. unfold check_disparities_from_dataset.
      destruct (negb (d_has_coord d)); [now right|].
      destruct (negb _); [now right|]. destruct (existsb _ _); [now right | now left]. }
    assert (C : forall ds, check_dataset mandatory ds = Ok tt \/
              exists e, check_dataset mandatory ds = Raise e /\ (e = EAttribute \/ e = EType \/ e = EValue)).
    { intro ds. unfold check_dataset. destruct (ds_im ds) as [im|]; [|right; eauto].
      unfold check_band_names. destruct (ds_band_im ds) as [bands|].
      - destruct (forallb _ bands); cbn [andthen]; [|right; eauto 6].
        destruct (forallb is_nan _); cbn [andthen]; [right; eauto 6|].
        destruct (ds_disp ds) as [d|].
        + destruct (D d) as [E|E]; rewrite E; cbn [andthen]; [|right; eauto 6].
          unfold check_shapes. destruct (forallb _ _); cbn [andthen]; [|right; eauto 6].
          unfold check_attributes. destruct (forallb _ _); [now left | right; eauto 6].
        + cbn [andthen]. unfold check_shapes. destruct (forallb _ _); cbn [andthen]; [|right; eauto 6].
          unfold check_attributes. destruct (forallb _ _); [now left | right; eauto 6].
      - cbn [andthen]. destruct (forallb is_nan _); cbn [andthen]; [right; eauto 6|].
        destruct (ds_disp ds) as [d|].
        + destruct (D d) as [E|E]; rewrite E; cbn [andthen]; [|right; eauto 6].
          unfold check_shapes. destruct (forallb _ _); cbn [andthen]; [|right; eauto 6].
          unfold check_attributes. destruct (forallb _ _); [now left | right; eauto 6].
        + cbn [andthen]. unfold check_shapes. destruct (forallb _ _); cbn [andthen]; [|right; eauto 6].
          unfold check_attributes. destruct (forallb _ _); [now left | right; eauto 6]. }
    unfold check_datasets.
    destruct (C l) as [E|(e & E & He)]; rewrite E; cbn [andthen]; [|right; eauto].
    destruct (C r) as [E'|(e & E' & He)]; rewrite E'; cbn [andthen]; [|right; eauto].
    destruct (ds_disp l); [|right; eauto].
    destruct (ds_im l), (ds_im r); try (right; eauto; fail).
    destruct (shape_eqb _ _); [now left | right; eauto].
  Qed.
End OneDataset.

(* ---------------------------------------------------------------- numbers only: the strict reading *)

Lemma bounds_strict_of_lax lo hi : lo <> None -> hi <> None ->
  (bounds_ordered false lo hi <-> bounds_ordered true lo hi).
Proof. destruct lo, hi; cbn; tauto. Qed.

Lemma wf_disparity_strict_iff ds d : ds_disp ds = Some d ->
  disparity_nan_free ds -> disparity_rectangular ds ->
  (wf_disparity false d <-> wf_disparity true d).
Proof.
  intros Ed NF RE. unfold wf_disparity.
  split; intros [Hc (imin & imax & H1 & H2 & H3)]; (split; [exact Hc|]); exists imin, imax;
    (split; [exact H1|]); (split; [exact H2|]); intros px Hpx; specialize (H3 px Hpx).
  - apply bounds_strict_of_lax; [| |exact H3].
    + apply (NF d px _ Ed Hpx). apply nth_In. rewrite (RE d px Ed Hpx). apply nth_error_Some. congruence.
    + apply (NF d px _ Ed Hpx). apply nth_In. rewrite (RE d px Ed Hpx). apply nth_error_Some. congruence.
  - destruct (nth imin px None), (nth imax px None); cbn in *; tauto.
Qed.

Lemma wf_dataset_strict_iff ds : disparity_nan_free ds -> disparity_rectangular ds ->
  (wf_dataset false ds <-> wf_dataset true ds).
Proof.
  intros NF RE. unfold wf_dataset.
  split; intros (im & E & Hn & Hb & Hd & Hv & Ha); exists im; (split; [exact E|]); (split; [exact Hn|]);
    (split; [exact Hb|]); (split; [|split; [exact Hv | exact Ha]]); intros d Ed; destruct (Hd d Ed) as [W G];
    (split; [|exact G]); now apply (wf_disparity_strict_iff ds d Ed NF RE).
Qed.

Lemma wf_pair_strict_iff l r :
  disparity_nan_free l -> disparity_rectangular l -> disparity_nan_free r -> disparity_rectangular r ->
  (wf_pair false l r <-> wf_pair true l r).
Proof.
  intros. unfold wf_pair. now rewrite (wf_dataset_strict_iff l), (wf_dataset_strict_iff r).
Qed.
