(* C13 -- translation invariance of the matching-cost SPEC (Spec/Cost.v): [computable] and the value of
   every measure depend on the two images (values, masks, being inside the image) only through the
   w x w window around the pixel and the window around column c + d of the right image.
   Then the same for the MODEL of sad / ssd / census / zncc, through C02's model = spec theorems. *)
From Coq Require Import ZArith List Bool QArith Lia.
From Pandora Require Import Model.MatchingCost Spec.Cost Proofs.MatchingCostP Proofs.CensusP Proofs.ZnccP.
Import ListNotations.
Open Scope Z_scope.

(* the mask values agree (both images have a mask, or neither) *)
Definition mask_agree (m m' : option (Z -> Z -> Z)) (r c r' c' : Z) : Prop :=
  match m, m' with
  | None, None => True
  | Some a, Some b => a r c = b r' c'
  | _, _ => False
  end.

(* pixel (r, c) of image (ny, nx, I, m) and pixel (r', c') of image (ny', nx', I', m') are alike:
   both inside or both outside, same value, same mask value *)
Definition px_alike (ny nx ny' nx' : Z) (I I' : Z -> Z -> Z) (m m' : option (Z -> Z -> Z)) (r c r' c' : Z) : Prop :=
  in_image ny nx r c = in_image ny' nx' r' c' /\ I r c = I' r' c' /\ mask_agree m m' r c r' c'.

Lemma mask_agree_nodata : forall nd m m' r c r' c', mask_agree m m' r c r' c' ->
  is_nodata nd m r c = is_nodata nd m' r' c'.
Proof. intros nd [a|] [b|] r c r' c' H; cbn in *; try tauto. now rewrite H. Qed.

Lemma mask_agree_invalid : forall vp nd m m' r c r' c', mask_agree m m' r c r' c' ->
  is_invalid vp nd m r c = is_invalid vp nd m' r' c'.
Proof. intros vp nd [a|] [b|] r c r' c' H; cbn in *; try tauto. now rewrite H. Qed.

Lemma qsum_map_ext_in : forall {X} (f g : X -> Q) l, (forall x, In x l -> f x = g x) ->
  qsum (map f l) = qsum (map g l).
Proof. intros. f_equal. apply map_ext_in. assumption. Qed.

Section CostLocal.
  Variables (ny nx ny' nx' w s : Z).
  Variables (L R L' R' : Z -> Z -> Z) (mL mR mL' mR' : option (Z -> Z -> Z)) (vp nd : Z).
  Variables (gmin gmax gmin' gmax' : Z -> Z -> Z).
  Variables (r c r' c' D : Z).
  Hypothesis Hw : 0 < w.
  Hypothesis Hodd : Z.odd w = true.
  Hypothesis Hs : 0 < s.
  Let h := offset w.

  (* the left windows are alike *)
  Hypothesis HL : forall a b, - h <= a <= h -> - h <= b <= h ->
    px_alike ny nx ny' nx' L L' mL mL' (r + a) (c + b) (r' + a) (c' + b).
  (* the right windows around column c + d (columns floor d and ceil d) are alike *)
  Hypothesis HR : forall a b, - h <= a <= h -> - h + dfloor s D <= b <= h + dceil s D ->
    px_alike ny nx ny' nx' R R' mR mR' (r + a) (c + b) (r' + a) (c' + b).
  (* same requested interval *)
  Hypothesis Hg : gmin r c = gmin' r' c' /\ gmax r c = gmax' r' c'.

  Lemma h_nonneg : 0 <= h.
  Proof. unfold h. destruct (odd_offset w Hw Hodd). lia. Qed.

  Lemma floor_le_ceil : dfloor s D <= dceil s D.
  Proof. unfold dfloor, dceil. rewrite ceil_floor by assumption. destruct (D mod s =? 0); lia. Qed.

  Lemma win_range : forall a, In a (win w) -> - h <= a <= h.
  Proof. intros a Ha. apply (win_In w a Hw Hodd). assumption. Qed.

  Lemma HR_floor : forall a b, - h <= a <= h -> - h <= b <= h ->
    px_alike ny nx ny' nx' R R' mR mR' (r + a) (c + b + dfloor s D) (r' + a) (c' + b + dfloor s D).
  Proof.
    intros a b Ha Hb. pose proof floor_le_ceil.
    replace (c + b + dfloor s D) with (c + (b + dfloor s D)) by lia.
    replace (c' + b + dfloor s D) with (c' + (b + dfloor s D)) by lia.
    apply HR; lia.
  Qed.
  Lemma HR_ceil : forall a b, - h <= a <= h -> - h <= b <= h ->
    px_alike ny nx ny' nx' R R' mR mR' (r + a) (c + b + dceil s D) (r' + a) (c' + b + dceil s D).
  Proof.
    intros a b Ha Hb. pose proof floor_le_ceil.
    replace (c + b + dceil s D) with (c + (b + dceil s D)) by lia.
    replace (c' + b + dceil s D) with (c' + (b + dceil s D)) by lia.
    apply HR; lia.
  Qed.

  Lemma left_window_ok_local :
    left_window_ok ny nx w mL nd r c = left_window_ok ny' nx' w mL' nd r' c'.
  Proof.
    unfold left_window_ok, forall_win.
    apply forallb_ext_in. intros a Ha. apply forallb_ext_in. intros b Hb.
    destruct (HL a b (win_range a Ha) (win_range b Hb)) as (E1 & _ & E3).
    rewrite E1, (mask_agree_nodata nd _ _ _ _ _ _ E3). reflexivity.
  Qed.

  Lemma right_window_ok_local :
    right_window_ok ny nx w s mR nd r c D = right_window_ok ny' nx' w s mR' nd r' c' D.
  Proof.
    unfold right_window_ok, forall_win.
    apply forallb_ext_in. intros a Ha. apply forallb_ext_in. intros b Hb.
    destruct (HR_floor a b (win_range a Ha) (win_range b Hb)) as (E1 & _ & E3).
    destruct (HR_ceil a b (win_range a Ha) (win_range b Hb)) as (F1 & _ & F3).
    rewrite E1, F1, (mask_agree_nodata nd _ _ _ _ _ _ E3), (mask_agree_nodata nd _ _ _ _ _ _ F3). reflexivity.
  Qed.

  Lemma centres_ok_local :
    centres_ok s mL mR vp nd r c D = centres_ok s mL' mR' vp nd r' c' D.
  Proof.
    pose proof h_nonneg as Hh. unfold centres_ok.
    destruct (HL 0 0 ltac:(lia) ltac:(lia)) as (_ & _ & E3). rewrite !Z.add_0_r in E3.
    destruct (HR_floor 0 0 ltac:(lia) ltac:(lia)) as (_ & _ & F3). rewrite !Z.add_0_r in F3.
    destruct (HR_ceil 0 0 ltac:(lia) ltac:(lia)) as (_ & _ & G3). rewrite !Z.add_0_r in G3.
    rewrite (mask_agree_invalid vp nd _ _ _ _ _ _ E3), (mask_agree_invalid vp nd _ _ _ _ _ _ F3),
            (mask_agree_invalid vp nd _ _ _ _ _ _ G3). reflexivity.
  Qed.

  Theorem computable_local :
    computable ny nx w s mL mR vp nd gmin gmax r c D = computable ny' nx' w s mL' mR' vp nd gmin' gmax' r' c' D.
  Proof.
    unfold computable. rewrite left_window_ok_local, right_window_ok_local, centres_ok_local.
    unfold in_interval. destruct Hg as [-> ->]. reflexivity.
  Qed.

  Lemma lval_local : forall a b, - h <= a <= h -> - h <= b <= h ->
    lval L (r + a) (c + b) = lval L' (r' + a) (c' + b).
  Proof. intros a b Ha Hb. unfold lval. destruct (HL a b Ha Hb) as (_ & E & _). now rewrite E. Qed.

  Lemma rval_local : forall a b, - h <= a <= h -> - h <= b <= h ->
    rval s R (r + a) (c + b) D = rval s R' (r' + a) (c' + b) D.
  Proof.
    intros a b Ha Hb. unfold rval. cbv zeta.
    destruct (HR_floor a b Ha Hb) as (_ & E & _).
    destruct (D mod s =? 0) eqn:Em.
    - change (D / s) with (dfloor s D). now rewrite E.
    - destruct (HR_ceil a b Ha Hb) as (_ & F & _).
      assert (Ec : dceil s D = dfloor s D + 1).
      { unfold dceil, dfloor. rewrite ceil_floor by assumption. now rewrite Em. }
      rewrite Ec in F. change (D / s) with (dfloor s D).
      replace (c + b + dfloor s D + 1) with (c + b + (dfloor s D + 1)) by lia.
      replace (c' + b + dfloor s D + 1) with (c' + b + (dfloor s D + 1)) by lia.
      now rewrite E, F.
  Qed.

  (* every sum over the two windows *)
  Theorem sum_win_local : forall f, sum_win w s L R f r c D = sum_win w s L' R' f r' c' D.
  Proof.
    intro f. unfold sum_win.
    apply qsum_map_ext_in. intros a Ha. apply qsum_map_ext_in. intros b Hb.
    rewrite (lval_local a b (win_range a Ha) (win_range b Hb)).
    rewrite (rval_local a b (win_range a Ha) (win_range b Hb)). reflexivity.
  Qed.

  Theorem sad_spec_local : sad_spec w s L R r c D = sad_spec w s L' R' r' c' D.
  Proof. apply sum_win_local. Qed.
  Theorem ssd_spec_local : ssd_spec w s L R r c D = ssd_spec w s L' R' r' c' D.
  Proof. apply sum_win_local. Qed.

  Theorem census_spec_local : census_spec w s L R r c D = census_spec w s L' R' r' c' D.
  Proof.
    pose proof h_nonneg as Hh. unfold census_spec.
    pose proof (lval_local 0 0 ltac:(lia) ltac:(lia)) as E0.
    pose proof (rval_local 0 0 ltac:(lia) ltac:(lia)) as F0. rewrite !Z.add_0_r in E0, F0.
    apply qsum_map_ext_in. intros a Ha. apply qsum_map_ext_in. intros b Hb.
    rewrite (lval_local a b (win_range a Ha) (win_range b Hb)).
    rewrite (rval_local a b (win_range a Ha) (win_range b Hb)). rewrite E0, F0. reflexivity.
  Qed.

  (* zncc: covariance and the two variances (the cost is a function of these three) *)
  Theorem zncc_spec_local :
    zncc_cov w s L R r c D = zncc_cov w s L' R' r' c' D /\
    zncc_varl w s L R r c D = zncc_varl w s L' R' r' c' D /\
    zncc_varr w s L R r c D = zncc_varr w s L' R' r' c' D.
  Proof. unfold zncc_cov, zncc_varl, zncc_varr, mean_win. rewrite !sum_win_local. repeat split. Qed.
End CostLocal.

(* ------------------------------------------------------------------ the model, through C02 *)

Definition inp_alike_left (x y : mc_input) (r c r' c' a b : Z) : Prop :=
  px_alike (i_ny x) (i_nx x) (i_ny y) (i_nx y) (i_L x) (i_L y) (i_mL x) (i_mL y) (r + a) (c + b) (r' + a) (c' + b).
Definition inp_alike_right (x y : mc_input) (r c r' c' a b : Z) : Prop :=
  px_alike (i_ny x) (i_nx x) (i_ny y) (i_nx y) (i_R x) (i_R y) (i_mR x) (i_mR y) (r + a) (c + b) (r' + a) (c' + b).

Section ModelLocal.
  Variables (x y : mc_input) (dmin dmax : Z) (r c r' c' k : Z).
  Hypothesis Hx : wf_cfg x.
  Hypothesis Hcfg : i_w y = i_w x /\ i_s y = i_s x /\ i_vp y = i_vp x /\ i_nd y = i_nd x.
  Hypothesis Hr : 0 <= r < i_ny x.
  Hypothesis Hc : 0 <= c < i_nx x.
  Hypothesis Hr' : 0 <= r' < i_ny y.
  Hypothesis Hc' : 0 <= c' < i_nx y.
  Hypothesis Hk : 0 <= k < nb_disp (i_s x) dmin dmax.
  Let h := offset (i_w x).
  Let D := disp_scaled (i_s x) dmin k.
  Hypothesis HL : forall a b, - h <= a <= h -> - h <= b <= h -> inp_alike_left x y r c r' c' a b.
  Hypothesis HR : forall a b, - h <= a <= h -> - h + dfloor (i_s x) D <= b <= h + dceil (i_s x) D ->
    inp_alike_right x y r c r' c' a b.
  Hypothesis Hg : i_gmin x r c = i_gmin y r' c' /\ i_gmax x r c = i_gmax y r' c'.

  Lemma wf_y : wf_cfg y.
  Proof. unfold wf_cfg in *. destruct Hcfg as (E1 & E2 & _). rewrite E1, E2. exact Hx. Qed.

  Theorem sad_model_local : sad_volume x dmin dmax r c k = sad_volume y dmin dmax r' c' k.
  Proof.
    destruct Hcfg as (Ew & Es & Ev & En). destruct Hx as (Hw & Ho & Hs).
    rewrite (sad_model_eq_spec x dmin dmax r c k Hx Hr Hc Hk).
    rewrite (sad_model_eq_spec y dmin dmax r' c' k wf_y Hr' Hc') by (rewrite Es; exact Hk).
    cbv zeta. unfold computable_in. rewrite Ew, Es, Ev, En. fold D.
    rewrite (computable_local (i_ny x) (i_nx x) (i_ny y) (i_nx y) (i_w x) (i_s x)
               (i_L x) (i_R x) (i_L y) (i_R y) (i_mL x) (i_mR x) (i_mL y) (i_mR y) (i_vp x) (i_nd x)
               (i_gmin x) (i_gmax x) (i_gmin y) (i_gmax y) r c r' c' D Hw Ho Hs HL HR Hg).
    rewrite (sad_spec_local (i_ny x) (i_nx x) (i_ny y) (i_nx y) (i_w x) (i_s x)
               (i_L x) (i_R x) (i_L y) (i_R y) (i_mL x) (i_mR x) (i_mL y) (i_mR y)
               r c r' c' D Hw Ho Hs HL HR).
    reflexivity.
  Qed.

  Theorem ssd_model_local : ssd_volume x dmin dmax r c k = ssd_volume y dmin dmax r' c' k.
  Proof.
    destruct Hcfg as (Ew & Es & Ev & En). destruct Hx as (Hw & Ho & Hs).
    rewrite (ssd_model_eq_spec x dmin dmax r c k Hx Hr Hc Hk).
    rewrite (ssd_model_eq_spec y dmin dmax r' c' k wf_y Hr' Hc') by (rewrite Es; exact Hk).
    cbv zeta. unfold computable_in. rewrite Ew, Es, Ev, En. fold D.
    rewrite (computable_local (i_ny x) (i_nx x) (i_ny y) (i_nx y) (i_w x) (i_s x)
               (i_L x) (i_R x) (i_L y) (i_R y) (i_mL x) (i_mR x) (i_mL y) (i_mR y) (i_vp x) (i_nd x)
               (i_gmin x) (i_gmax x) (i_gmin y) (i_gmax y) r c r' c' D Hw Ho Hs HL HR Hg).
    rewrite (ssd_spec_local (i_ny x) (i_nx x) (i_ny y) (i_nx y) (i_w x) (i_s x)
               (i_L x) (i_R x) (i_L y) (i_R y) (i_mL x) (i_mR x) (i_mL y) (i_mR y)
               r c r' c' D Hw Ho Hs HL HR).
    reflexivity.
  Qed.

  (* census (window 1, 3 or 5: the bit string fits the uint32 popcount) *)
  Hypothesis Hww : i_w x * i_w x <= 32.
  Theorem census_model_local : census_volume x dmin dmax r c k = census_volume y dmin dmax r' c' k.
  Proof.
    destruct Hcfg as (Ew & Es & Ev & En). destruct Hx as (Hw & Ho & Hs).
    rewrite (census_model_eq_spec x dmin dmax r c k Hx Hww Hr Hc Hk).
    rewrite (census_model_eq_spec y dmin dmax r' c' k wf_y) by (rewrite ?Ew, ?Es; assumption).
    cbv zeta. unfold computable_in. rewrite Ew, Es, Ev, En. fold D.
    rewrite (computable_local (i_ny x) (i_nx x) (i_ny y) (i_nx y) (i_w x) (i_s x)
               (i_L x) (i_R x) (i_L y) (i_R y) (i_mL x) (i_mR x) (i_mL y) (i_mR y) (i_vp x) (i_nd x)
               (i_gmin x) (i_gmax x) (i_gmin y) (i_gmax y) r c r' c' D Hw Ho Hs HL HR Hg).
    rewrite (census_spec_local (i_ny x) (i_nx x) (i_ny y) (i_nx y) (i_w x) (i_s x)
               (i_L x) (i_R x) (i_L y) (i_R y) (i_mL x) (i_mR x) (i_mL y) (i_mR y)
               r c r' c' D Hw Ho Hs HL HR).
    reflexivity.
  Qed.
End ModelLocal.

(* zncc: the cell of the model is the integer triple (cov, varL, varR) scaled by s w^4, w^4, s^2 w^4 (C02): two
   inputs alike on the two windows hold the SAME triple (hence the same cost, whatever evaluates
   cov / sqrt(varL varR) from it), NaN included *)
Lemma inject_Z_div_inj : forall a b K, (0 < K)%Q -> (inject_Z a / K == inject_Z b / K)%Q -> a = b.
Proof.
  intros a b K HK H. unfold Qdiv in H. apply Qmult_inj_r in H.
  - apply inject_Z_injective. exact H.
  - intro E. apply Qinv_lt_0_compat in HK. rewrite E in HK. discriminate.
Qed.

Section ZnccLocal.
  Variables (x y : mc_input) (dmin dmax : Z) (r c r' c' k : Z).
  Hypothesis Hx : wf_cfg x.
  Hypothesis Hcfg : i_w y = i_w x /\ i_s y = i_s x /\ i_vp y = i_vp x /\ i_nd y = i_nd x.
  Hypothesis Hr : 0 <= r < i_ny x.
  Hypothesis Hc : 0 <= c < i_nx x.
  Hypothesis Hr' : 0 <= r' < i_ny y.
  Hypothesis Hc' : 0 <= c' < i_nx y.
  Hypothesis Hk : 0 <= k < nb_disp (i_s x) dmin dmax.
  Let h := offset (i_w x).
  Let D := disp_scaled (i_s x) dmin k.
  Hypothesis HL : forall a b, - h <= a <= h -> - h <= b <= h -> inp_alike_left x y r c r' c' a b.
  Hypothesis HR : forall a b, - h <= a <= h -> - h + dfloor (i_s x) D <= b <= h + dceil (i_s x) D ->
    inp_alike_right x y r c r' c' a b.
  Hypothesis Hg : i_gmin x r c = i_gmin y r' c' /\ i_gmax x r c = i_gmax y r' c'.

  Theorem zncc_model_local : zncc_volume x dmin dmax r c k = zncc_volume y dmin dmax r' c' k.
  Proof.
    pose proof (wf_y x y Hx Hcfg) as Hy.
    destruct Hcfg as (Ew & Es & Ev & En). destruct Hx as (Hw & Ho & Hs).
    pose proof (zncc_model_eq_spec x dmin dmax r c k Hx Hr Hc Hk) as X.
    assert (Hk' : 0 <= k < nb_disp (i_s y) dmin dmax) by (rewrite Es; exact Hk).
    pose proof (zncc_model_eq_spec y dmin dmax r' c' k Hy Hr' Hc' Hk') as Y.
    cbv zeta in X, Y. unfold computable_in in X, Y. rewrite Ew, Es, Ev, En in Y. fold D in X, Y.
    rewrite <- (computable_local (i_ny x) (i_nx x) (i_ny y) (i_nx y) (i_w x) (i_s x)
               (i_L x) (i_R x) (i_L y) (i_R y) (i_mL x) (i_mR x) (i_mL y) (i_mR y) (i_vp x) (i_nd x)
               (i_gmin x) (i_gmax x) (i_gmin y) (i_gmax y) r c r' c' D Hw Ho Hs HL HR Hg) in Y.
    destruct (zncc_spec_local (i_ny x) (i_nx x) (i_ny y) (i_nx y) (i_w x) (i_s x)
               (i_L x) (i_R x) (i_L y) (i_R y) (i_mL x) (i_mR x) (i_mL y) (i_mR y)
               r c r' c' D Hw Ho Hs HL HR) as (Ecov & Evl & Evr).
    destruct (zncc_volume x dmin dmax r c k) as [[[cm vlm] vrm]|];
      destruct (zncc_volume y dmin dmax r' c' k) as [[[cm' vlm'] vrm']|].
    - destruct X as (_ & (X1 & X2 & X3) & _). destruct Y as (_ & (Y1 & Y2 & Y3) & _).
      cbv zeta in Y1, Y2, Y3. rewrite Ew, Es in Y1, Y2, Y3. rewrite <- Ecov in Y1. rewrite <- Evl in Y2. rewrite <- Evr in Y3.
      assert (P4 : (0 < inject_Z (i_w x * i_w x * (i_w x * i_w x)))%Q) by (apply inject_Z_pos; nia).
      assert (Ps : (0 < inject_Z (i_s x))%Q) by (apply inject_Z_pos; lia).
      assert (Pss : (0 < inject_Z (i_s x * i_s x))%Q) by (apply inject_Z_pos; nia).
      rewrite X1 in Y1. rewrite X2 in Y2. rewrite X3 in Y3.
      apply inject_Z_div_inj in Y1; [|apply Qmult_lt_0_compat; assumption].
      apply inject_Z_div_inj in Y2; [|assumption].
      apply inject_Z_div_inj in Y3; [|apply Qmult_lt_0_compat; assumption].
      subst. reflexivity.
    - destruct X as (X & _). congruence.
    - destruct Y as (Y & _). congruence.
    - reflexivity.
  Qed.
End ZnccLocal.
