(* C10 -- proofs: the models of MedianFilter / BilateralFilter / MedianForIntervalsFilter
   (Model/Filters.v, block loops of Lib/Blocks.v) satisfy the per-pixel Spec (Spec/Filters.v)
   for every image size, every block size B >= 1, every odd filter size, every map and mask,
   every non-negative weight kernel that weighs a pixel on itself. *)
From Coq Require Import ZArith QArith Qround List Bool Lia Lqa Sorting Permutation.
From Pandora Require Import Lib.Arr Lib.Blocks Model.Filters Spec.Filters.
Import ListNotations.
Open Scope Z_scope.

(* ================================================================== lists, spans, windows *)

Lemma span_zrange : forall a n, span a n = map (fun k => a + k) (zrange n).
Proof. intros. unfold span, zrange. rewrite map_map. reflexivity. Qed.

Lemma In_zrange : forall n x, In x (zrange n) <-> 0 <= x < n.
Proof.
  intros n x. unfold zrange. rewrite in_map_iff. split.
  - intros (k & <- & Hk). apply in_seq in Hk. lia.
  - intros H. exists (Z.to_nat x). split; [lia|]. apply in_seq. lia.
Qed.

Lemma In_span : forall a n x, In x (span a n) <-> a <= x < a + n.
Proof.
  intros. rewrite span_zrange, in_map_iff. split.
  - intros (k & <- & Hk). apply In_zrange in Hk. lia.
  - intros H. exists (x - a). split; [lia|]. apply In_zrange. lia.
Qed.

Lemma NoDup_span : forall a n, NoDup (span a n).
Proof.
  intros. unfold span. apply FinFun.Injective_map_NoDup; [|apply seq_NoDup].
  intros x y H. lia.
Qed.

(* the window of the Spec holds exactly the pixels at most lo up/left and hi down/right *)
Lemma In_win_px : forall lo hi r c r' c',
  In (r', c') (win_px lo hi r c) <-> (r - lo <= r' <= r + hi /\ c - lo <= c' <= c + hi).
Proof.
  intros. unfold win_px. rewrite in_flat_map. split.
  - intros (dr & Hdr & H). apply in_map_iff in H. destruct H as (dc & E & Hdc).
    inversion E; subst. apply In_span in Hdr. apply In_span in Hdc. lia.
  - intros H. exists (r' - r). split; [apply In_span; lia|].
    apply in_map_iff. exists (c' - c). split; [f_equal; lia | apply In_span; lia].
Qed.

Lemma NoDup_app_in : forall (A : Type) (l1 l2 : list A),
  NoDup l1 -> NoDup l2 -> (forall x, In x l1 -> In x l2 -> False) -> NoDup (l1 ++ l2).
Proof.
  induction l1 as [|a l1 IH]; intros l2 H1 H2 Hd; cbn [app]; [assumption|].
  inversion H1; subst. constructor.
  - rewrite in_app_iff. intros [H|H]; [contradiction | apply (Hd a); [left; reflexivity | assumption]].
  - apply IH; try assumption. intros x Hx. apply Hd. right. assumption.
Qed.

(* ... each of them once *)
Lemma NoDup_win_px : forall lo hi r c, NoDup (win_px lo hi r c).
Proof.
  intros. unfold win_px. generalize (NoDup_span (- lo) (lo + hi + 1)).
  generalize (span (- lo) (lo + hi + 1)) at 1 3 as L1. intro L1.
  generalize (NoDup_span (- lo) (lo + hi + 1)).
  generalize (span (- lo) (lo + hi + 1)) as L2. intros L2 H2 H1.
  induction H1 as [|dr L1 Hni H1 IH]; cbn [flat_map]; [constructor|].
  apply NoDup_app_in; [ | exact IH | ].
  - apply FinFun.Injective_map_NoDup; [|exact H2]. intros x y E. inversion E. lia.
  - intros [a b] Ha Hb. apply in_map_iff in Ha. destruct Ha as (dc & E & _).
    apply in_flat_map in Hb. destruct Hb as (dr' & Hdr' & Hb). apply in_map_iff in Hb.
    destruct Hb as (dc' & E' & _). inversion E; inversion E'; subst.
    assert (dr' = dr) by lia. subst. contradiction.
Qed.

(* the sliding window (i, j) of the model, i = r - lo, j = c - lo, lists the pixels of the
   Spec's window of (r, c) in the same order *)
Lemma window_as_win_px : forall (data : map2) lo hi r c,
  window data (lo + hi + 1) (r - lo) (c - lo)
  = map (fun p : Z * Z => data (fst p) (snd p)) (win_px lo hi r c).
Proof.
  intros. unfold window, win_px, span, zrange.
  generalize (seq 0 (Z.to_nat (lo + hi + 1))) at 2 4 as L1.
  generalize (seq 0 (Z.to_nat (lo + hi + 1))) as L2. intros L2 L1.
  induction L1 as [|k L1 IH]; cbn [map flat_map]; [reflexivity|].
  rewrite map_app. f_equal; [|exact IH].
  rewrite !map_map. apply map_ext. intro k2. cbn [fst snd]. f_equal; lia.
Qed.

Lemma somes_non_nan : forall l, non_nan l = somes l.
Proof. reflexivity. Qed.

Lemma In_somes : forall l x, In x (somes l) <-> In (Some x) l.
Proof.
  intros. unfold somes. rewrite in_flat_map. split.
  - intros ([y|] & Hy & H); cbn in H; [|contradiction]. destruct H as [<-|[]]. assumption.
  - intros H. exists (Some x). split; [assumption | left; reflexivity].
Qed.

Lemma win_vals_ext : forall (val val' : dmap) lo hi r c,
  (forall r' c', r - lo <= r' <= r + hi -> c - lo <= c' <= c + hi -> val r' c' = val' r' c') ->
  win_vals val lo hi r c = win_vals val' lo hi r c.
Proof.
  intros. unfold win_vals. f_equal. apply map_ext_in. intros [r' c'] Hin.
  apply In_win_px in Hin. cbn [fst snd]. apply H; lia.
Qed.

(* ================================================================== sorting, the median *)

Lemma insert_perm : forall x l, Permutation (insert x l) (x :: l).
Proof.
  induction l as [|y r IH]; cbn [insert]; [reflexivity|].
  destruct (Qle_bool x y); [reflexivity|].
  rewrite IH. apply perm_swap.
Qed.

Lemma isort_perm : forall l, Permutation (isort l) l.
Proof.
  induction l as [|x r IH]; cbn [isort]; [reflexivity|].
  rewrite insert_perm. constructor. exact IH.
Qed.

Lemma insert_Forall : forall (P : Q -> Prop) x l, P x -> Forall P l -> Forall P (insert x l).
Proof.
  intros P x l Hx Hl. induction Hl as [|y r Hy Hr IH]; cbn [insert].
  - constructor; [assumption | constructor].
  - destruct (Qle_bool x y); repeat constructor; assumption.
Qed.

Lemma insert_sorted : forall x l, StronglySorted Qle l -> StronglySorted Qle (insert x l).
Proof.
  intros x l H. induction H as [|y r Hs IH Hall]; cbn [insert].
  - constructor; constructor.
  - destruct (Qle_bool x y) eqn:E.
    + apply Qle_bool_iff in E. constructor; [constructor; assumption|].
      constructor; [assumption|]. eapply Forall_impl; [|exact Hall].
      intros z Hz. eapply Qle_trans; eassumption.
    + assert (Hyx : (y <= x)%Q).
      { apply Qlt_le_weak, Qnot_le_lt. rewrite <- Qle_bool_iff. congruence. }
      constructor; [exact IH|]. apply insert_Forall; assumption.
Qed.

Lemma isort_sorted : forall l, StronglySorted Qle (isort l).
Proof.
  induction l as [|x r IH]; cbn [isort]; [constructor|]. apply insert_sorted, IH.
Qed.

Lemma middle_mid : forall s, (middle s == mid s)%Q.
Proof.
  intro s. unfold middle, mid. rewrite <- Nat.negb_even.
  destruct (Nat.even (length s)); cbn [negb]; [|reflexivity].
  unfold Qdiv. reflexivity.
Qed.

(* np.nanmedian of the model: NaN iff there is no number, else the Spec's median of the numbers *)
Lemma nanmedian_spec : forall l,
  match nanmedian l with
  | None => somes l = []
  | Some m => is_median m (somes l)
  end.
Proof.
  intro l. unfold nanmedian. rewrite somes_non_nan.
  pose proof (isort_perm (somes l)) as Hp. pose proof (isort_sorted (somes l)) as Hs.
  destruct (isort (somes l)) as [|x s] eqn:E.
  - apply Permutation_nil in Hp. exact Hp.
  - exists (x :: s). split; [exact Hp|]. split; [exact Hs|]. split; [discriminate|].
    apply middle_mid.
Qed.

Lemma sorted_nth_le : forall s, StronglySorted Qle s ->
  forall i j, (i <= j < length s)%nat -> (nth i s 0 <= nth j s 0)%Q.
Proof.
  induction 1 as [|x s Hs IH Hall]; intros i j Hij; cbn [length] in Hij; [lia|].
  destruct i as [|i], j as [|j]; cbn [nth]; try lia.
  - apply Qle_refl.
  - rewrite Forall_forall in Hall. apply Hall. apply nth_In. lia.
  - apply IH. lia.
Qed.

(* a median lies between the smallest and the largest value, which are attained *)
Lemma median_between : forall m l, is_median m l -> between_min_max m l.
Proof.
  intros m l (s & Hp & Hs & Hne & Hm).
  set (n := length s). assert (Hn : (0 < n)%nat) by (destruct s; [congruence | cbn; lia]).
  exists (nth 0 s 0%Q), (nth (n - 1) s 0%Q).
  assert (Hin : forall i, (i < n)%nat -> In (nth i s 0%Q) l).
  { intros i Hi. eapply Permutation_in; [exact Hp|]. apply nth_In. exact Hi. }
  split; [apply Hin; lia|]. split; [apply Hin; lia|]. split.
  - intros x Hx. apply (Permutation_in _ (Permutation_sym Hp)) in Hx.
    destruct (In_nth _ _ 0%Q Hx) as (i & Hi & <-).
    split; apply sorted_nth_le; try assumption; fold n; lia.
  - rewrite Hm. unfold mid. fold n.
    assert (Hdiv : (n / 2 < n)%nat) by (apply Nat.div_lt; lia).
    destruct (Nat.odd n) eqn:Eo.
    + split; apply sorted_nth_le; try assumption; fold n; lia.
    + assert (H1 : (nth 0 s 0 <= nth (n / 2 - 1) s 0)%Q) by (apply sorted_nth_le; try assumption; fold n; lia).
      assert (H2 : (nth 0 s 0 <= nth (n / 2) s 0)%Q) by (apply sorted_nth_le; try assumption; fold n; lia).
      assert (H3 : (nth (n / 2 - 1) s 0 <= nth (n - 1) s 0)%Q) by (apply sorted_nth_le; try assumption; fold n; lia).
      assert (H4 : (nth (n / 2) s 0 <= nth (n - 1) s 0)%Q) by (apply sorted_nth_le; try assumption; fold n; lia).
      set (a := nth (n / 2 - 1) s 0%Q) in *. set (b := nth (n / 2) s 0%Q) in *.
      assert (E : ((a + b) / 2 == (a + b) * (1 # 2))%Q) by (unfold Qdiv; reflexivity).
      rewrite E. split; lra.
Qed.
