(* C10 -- proofs: the models of MedianFilter / BilateralFilter / MedianForIntervalsFilter
   (Model/Filters.v, block loops of Lib/Blocks.v) satisfy the per-pixel Spec (Spec/Filters.v)
   for every image size, every block size B >= 1, every odd filter size, every map and mask,
   every non-negative weight kernel that weighs a pixel on itself. *)
From Coq Require Import ZArith QArith Qround List Bool Lia Lqa Sorting Permutation.
From Pandora Require Import Lib.Arr Lib.Blocks Model.Filters Spec.Filters Model.FiltersCheck.
Import ListNotations.
Open Scope Z_scope.

(* ================================================================== lists, spans, windows *)

Lemma span_zrange : forall a n, span a n = map (fun k => a + k) (zrange n).
Proof. intros. unfold span, zrange. rewrite map_map. reflexivity. Qed.

Lemma In_zrange : forall n x, In x (zrange n) <-> 0 <= x < n.
Proof.
  intros n x. unfold zrange. rewrite in_map_iff. split.
  - intros (k & <- & Hk). apply in_seq in Hk. lia.
  - intros H. exists (Z.to_nat x). split; [lia|]. apply in_seq. lia.
Qed.

Lemma In_span : forall a n x, In x (span a n) <-> a <= x < a + n.
Proof.
  intros. rewrite span_zrange, in_map_iff. split.
  - intros (k & <- & Hk). apply In_zrange in Hk. lia.
  - intros H. exists (x - a). split; [lia|]. apply In_zrange. lia.
Qed.

Lemma NoDup_span : forall a n, NoDup (span a n).
Proof.
  intros. unfold span. apply FinFun.Injective_map_NoDup; [|apply seq_NoDup].
  intros x y H. lia.
Qed.

(* the window of the Spec holds exactly the pixels at most lo up/left and hi down/right *)
Lemma In_win_px : forall lo hi r c r' c',
  In (r', c') (win_px lo hi r c) <-> (r - lo <= r' <= r + hi /\ c - lo <= c' <= c + hi).
Proof.
  intros. unfold win_px. rewrite in_flat_map. split.
  - intros (dr & Hdr & H). apply in_map_iff in H. destruct H as (dc & E & Hdc).
    inversion E; subst. apply In_span in Hdr. apply In_span in Hdc. lia.
  - intros H. exists (r' - r). split; [apply In_span; lia|].
    apply in_map_iff. exists (c' - c). split; [f_equal; lia | apply In_span; lia].
Qed.

Lemma NoDup_app_in : forall (A : Type) (l1 l2 : list A),
  NoDup l1 -> NoDup l2 -> (forall x, In x l1 -> In x l2 -> False) -> NoDup (l1 ++ l2).
Proof.
  induction l1 as [|a l1 IH]; intros l2 H1 H2 Hd; cbn [app]; [assumption|].
  inversion H1; subst. constructor.
  - rewrite in_app_iff. intros [H|H]; [contradiction | apply (Hd a); [left; reflexivity | assumption]].
  - apply IH; try assumption. intros x Hx. apply Hd. right. assumption.
Qed.

(* ... each of them once *)
Lemma NoDup_win_px : forall lo hi r c, NoDup (win_px lo hi r c).
Proof.
  intros. unfold win_px. generalize (NoDup_span (- lo) (lo + hi + 1)).
  generalize (span (- lo) (lo + hi + 1)) at 1 3 as L1. intro L1.
  generalize (NoDup_span (- lo) (lo + hi + 1)).
  generalize (span (- lo) (lo + hi + 1)) as L2. intros L2 H2 H1.
  induction H1 as [|dr L1 Hni H1 IH]; cbn [flat_map]; [constructor|].
  apply NoDup_app_in; [ | exact IH | ].
  - apply FinFun.Injective_map_NoDup; [|exact H2]. intros x y E. inversion E. lia.
  - intros [a b] Ha Hb. apply in_map_iff in Ha. destruct Ha as (dc & E & _).
    apply in_flat_map in Hb. destruct Hb as (dr' & Hdr' & Hb). apply in_map_iff in Hb.
    destruct Hb as (dc' & E' & _). inversion E; inversion E'; subst.
    assert (dr' = dr) by lia. subst. contradiction.
Qed.

(* the sliding window (i, j) of the model, i = r - lo, j = c - lo, lists the pixels of the
   Spec's window of (r, c) in the same order *)
Lemma window_as_win_px : forall (data : map2) lo hi r c,
  window data (lo + hi + 1) (r - lo) (c - lo)
  = map (fun p : Z * Z => data (fst p) (snd p)) (win_px lo hi r c).
Proof.
  intros. unfold window, win_px, span, zrange.
  generalize (seq 0 (Z.to_nat (lo + hi + 1))) at 2 4 as L1.
  generalize (seq 0 (Z.to_nat (lo + hi + 1))) as L2. intros L2 L1.
  induction L1 as [|k L1 IH]; cbn [map flat_map]; [reflexivity|].
  rewrite map_app. f_equal; [|exact IH].
  rewrite !map_map. apply map_ext. intro k2. cbn [fst snd]. f_equal; lia.
Qed.

Lemma somes_non_nan : forall l, non_nan l = somes l.
Proof. reflexivity. Qed.

Lemma In_somes : forall l x, In x (somes l) <-> In (Some x) l.
Proof.
  intros. unfold somes. rewrite in_flat_map. split.
  - intros ([y|] & Hy & H); cbn in H; [|contradiction]. destruct H as [<-|[]]. assumption.
  - intros H. exists (Some x). split; [assumption | left; reflexivity].
Qed.

Lemma win_vals_ext : forall (val val' : dmap) lo hi r c,
  (forall r' c', r - lo <= r' <= r + hi -> c - lo <= c' <= c + hi -> val r' c' = val' r' c') ->
  win_vals val lo hi r c = win_vals val' lo hi r c.
Proof.
  intros. unfold win_vals. f_equal. apply map_ext_in. intros [r' c'] Hin.
  apply In_win_px in Hin. cbn [fst snd]. apply H; lia.
Qed.

(* ================================================================== sorting, the median *)

Lemma insert_perm : forall x l, Permutation (insert x l) (x :: l).
Proof.
  induction l as [|y r IH]; cbn [insert]; [reflexivity|].
  destruct (Qle_bool x y); [reflexivity|].
  rewrite IH. apply perm_swap.
Qed.

Lemma isort_perm : forall l, Permutation (isort l) l.
Proof.
  induction l as [|x r IH]; cbn [isort]; [reflexivity|].
  rewrite insert_perm. constructor. exact IH.
Qed.

Lemma insert_Forall : forall (P : Q -> Prop) x l, P x -> Forall P l -> Forall P (insert x l).
Proof.
  intros P x l Hx Hl. induction Hl as [|y r Hy Hr IH]; cbn [insert].
  - constructor; [assumption | constructor].
  - destruct (Qle_bool x y); repeat constructor; assumption.
Qed.

Lemma insert_sorted : forall x l, StronglySorted Qle l -> StronglySorted Qle (insert x l).
Proof.
  intros x l H. induction H as [|y r Hs IH Hall]; cbn [insert].
  - constructor; constructor.
  - destruct (Qle_bool x y) eqn:E.
    + apply Qle_bool_iff in E. constructor; [constructor; assumption|].
      constructor; [assumption|]. eapply Forall_impl; [|exact Hall].
      intros z Hz. eapply Qle_trans; eassumption.
    + assert (Hyx : (y <= x)%Q).
      { apply Qlt_le_weak, Qnot_le_lt. rewrite <- Qle_bool_iff. congruence. }
      constructor; [exact IH|]. apply insert_Forall; assumption.
Qed.

Lemma isort_sorted : forall l, StronglySorted Qle (isort l).
Proof.
  induction l as [|x r IH]; cbn [isort]; [constructor|]. apply insert_sorted, IH.
Qed.

Lemma middle_mid : forall s, (middle s == mid s)%Q.
Proof.
  intro s. unfold middle, mid. rewrite <- Nat.negb_even.
  destruct (Nat.even (length s)); cbn [negb]; [|reflexivity].
  unfold Qdiv. reflexivity.
Qed.

(* np.nanmedian of the model: NaN iff there is no number, else the Spec's median of the numbers *)
Lemma nanmedian_spec : forall l,
  match nanmedian l with
  | None => somes l = []
  | Some m => is_median m (somes l)
  end.
Proof.
  intro l. unfold nanmedian. rewrite somes_non_nan.
  pose proof (isort_perm (somes l)) as Hp. pose proof (isort_sorted (somes l)) as Hs.
  destruct (isort (somes l)) as [|x s] eqn:E.
  - apply Permutation_nil in Hp. exact Hp.
  - exists (x :: s). split; [exact Hp|]. split; [exact Hs|]. split; [discriminate|].
    apply middle_mid.
Qed.

Lemma sorted_nth_le : forall s, StronglySorted Qle s ->
  forall i j, (i <= j < length s)%nat -> (nth i s 0 <= nth j s 0)%Q.
Proof.
  induction 1 as [|x s Hs IH Hall]; intros i j Hij; cbn [length] in Hij; [lia|].
  destruct i as [|i], j as [|j]; cbn [nth]; try lia.
  - apply Qle_refl.
  - rewrite Forall_forall in Hall. apply Hall. apply nth_In. lia.
  - apply IH. lia.
Qed.

(* a median lies between the smallest and the largest value, which are attained *)
Lemma median_between : forall m l, is_median m l -> between_min_max m l.
Proof.
  intros m l (s & Hp & Hs & Hne & Hm).
  set (n := length s). assert (Hn : (0 < n)%nat) by (destruct s; [congruence | cbn; lia]).
  exists (nth 0 s 0%Q), (nth (n - 1) s 0%Q).
  assert (Hin : forall i, (i < n)%nat -> In (nth i s 0%Q) l).
  { intros i Hi. eapply Permutation_in; [exact Hp|]. apply nth_In. exact Hi. }
  split; [apply Hin; lia|]. split; [apply Hin; lia|]. split.
  - intros x Hx. apply (Permutation_in _ (Permutation_sym Hp)) in Hx.
    destruct (In_nth _ _ 0%Q Hx) as (i & Hi & <-).
    split; apply sorted_nth_le; try assumption; fold n; lia.
  - rewrite Hm. unfold mid. fold n.
    assert (Hdiv : (n / 2 < n)%nat) by (apply Nat.div_lt; lia).
    destruct (Nat.odd n) eqn:Eo.
    + split; apply sorted_nth_le; try assumption; fold n; lia.
    + assert (H1 : (nth 0 s 0 <= nth (n / 2 - 1) s 0)%Q) by (apply sorted_nth_le; try assumption; fold n; lia).
      assert (H2 : (nth 0 s 0 <= nth (n / 2) s 0)%Q) by (apply sorted_nth_le; try assumption; fold n; lia).
      assert (H3 : (nth (n / 2 - 1) s 0 <= nth (n - 1) s 0)%Q) by (apply sorted_nth_le; try assumption; fold n; lia).
      assert (H4 : (nth (n / 2) s 0 <= nth (n - 1) s 0)%Q) by (apply sorted_nth_le; try assumption; fold n; lia).
      set (a := nth (n / 2 - 1) s 0%Q) in *. set (b := nth (n / 2) s 0%Q) in *.
      assert (E : ((a + b) / 2 == (a + b) * (1 # 2))%Q) by (unfold Qdiv; reflexivity).
      rewrite E. split; lra.
Qed.

(* ================================================================== the median filter *)

Definition fits_b (lo hi ny nx r c : Z) : bool :=
  (lo <=? r) && (r + hi <? ny) && (lo <=? c) && (c + hi <? nx).

Lemma fits_b_iff : forall lo hi ny nx r c, fits_b lo hi ny nx r c = true <-> fits lo hi ny nx r c.
Proof. intros. unfold fits_b, fits. rewrite !andb_true_iff, !Z.leb_le, !Z.ltb_lt. tauto. Qed.

Lemma fits_b_false : forall lo hi ny nx r c, fits_b lo hi ny nx r c = false <-> ~ fits lo hi ny nx r c.
Proof. intros. rewrite <- fits_b_iff. destruct (fits_b lo hi ny nx r c); split; congruence. Qed.

Lemma half_odd : forall rad, (2 * rad + 1) / 2 = rad.
Proof. intros. symmetry. apply (Z.div_unique _ _ _ 1); lia. Qed.

(* what MedianFilter.median_filter computes at pixel (r, c): for EVERY block size B >= 1 and
   every image size (also smaller than the window) *)
Lemma median_filter_at : forall B rad ny nx (data : map2) r c, 1 <= B -> 0 <= rad ->
  median_filter B (2 * rad + 1) ny nx data r c =
  match data r c with
  | None => None
  | Some v => if fits_b rad rad ny nx r c
              then nanmedian (window data (2 * rad + 1) (r - rad) (c - rad))
              else Some v
  end.
Proof.
  intros B rad ny nx data r c HB Hrad. unfold median_filter.
  destruct ((ny <? 2 * rad + 1) || (nx <? 2 * rad + 1)) eqn:Esmall.
  - (* image smaller than the window: returned as it is; no pixel fits *)
    assert (Hnf : fits_b rad rad ny nx r c = false).
    { apply fits_b_false. unfold fits. apply orb_true_iff in Esmall. rewrite !Z.ltb_lt in Esmall. lia. }
    rewrite Hnf. destruct (data r c); reflexivity.
  - apply orb_false_iff in Esmall. rewrite !Z.ltb_ge in Esmall. destruct Esmall as [Hy Hx].
    rewrite half_odd. rewrite loop2_spec by lia.
    destruct (data r c) as [v|] eqn:Ed; cbn [is_none]; [|reflexivity].
    unfold fits_b.
    replace (r <? rad + (ny - (2 * rad + 1) + 1)) with (r + rad <? ny)
      by (destruct (Z.ltb_spec (r + rad) ny), (Z.ltb_spec r (rad + (ny - (2 * rad + 1) + 1))); lia).
    replace (c <? rad + (nx - (2 * rad + 1) + 1)) with (c + rad <? nx)
      by (destruct (Z.ltb_spec (c + rad) nx), (Z.ltb_spec c (rad + (nx - (2 * rad + 1) + 1))); lia).
    destruct ((rad <=? r) && (r + rad <? ny) && (rad <=? c) && (c + rad <? nx)); reflexivity.
Qed.

(* the median filter on a map of valid values satisfies the Spec, pixel by pixel *)
Theorem median_filter_map_spec : forall B rad ny nx (data : map2), 1 <= B -> 0 <= rad ->
  median_map_spec rad ny nx data (median_filter B (2 * rad + 1) ny nx data).
Proof.
  intros B rad ny nx data HB Hrad r c. rewrite median_filter_at by assumption.
  split; [|split].
  - intros ->. reflexivity.
  - intros Hnf. apply fits_b_false in Hnf. rewrite Hnf. destruct (data r c); reflexivity.
  - intros Hf v Hv. rewrite Hv. apply fits_b_iff in Hf. rewrite Hf.
    replace (2 * rad + 1) with (rad + rad + 1) by lia. rewrite window_as_win_px.
    pose proof (nanmedian_spec (map (fun p : Z * Z => data (fst p) (snd p)) (win_px rad rad r c))) as Hm.
    destruct (nanmedian _) as [m|].
    + exists m. split; [reflexivity | exact Hm].
    + exfalso. assert (Hin : In v (somes (map (fun p : Z * Z => data (fst p) (snd p)) (win_px rad rad r c)))).
      { apply In_somes. apply in_map_iff. exists (r, c). split; [exact Hv|]. apply In_win_px. lia. }
      rewrite Hm in Hin. exact Hin.
Qed.

(* ------------------------------------------------------------------ the filter step *)

Lemma masked_data_valid_disp : forall inv disp mask r c,
  masked_data inv disp mask r c = valid_disp inv disp mask r c.
Proof.
  intros. unfold masked_data, valid_disp, invalid_px.
  destruct (Z.eq_dec (Z.land (mask r c) inv) 0) as [E|E].
  - rewrite E. reflexivity.
  - apply Z.eqb_neq in E. rewrite E. reflexivity.
Qed.

Theorem median_eq_spec : forall inv B rad ny nx disp mask, 1 <= B -> 0 <= rad ->
  let out := median_filter_disparity inv B (2 * rad + 1) ny nx disp mask in
  median_step_spec inv rad ny nx disp mask (fst out) (snd out).
Proof.
  intros inv B rad ny nx disp mask HB Hrad. cbn zeta. unfold median_filter_disparity. cbn [fst snd].
  set (md := masked_data inv disp mask).
  assert (Hmd : forall r c, md r c = valid_disp inv disp mask r c) by (intros; apply masked_data_valid_disp).
  pose proof (median_filter_map_spec B rad ny nx md HB Hrad) as Hspec.
  unfold median_step_spec. split; [reflexivity|]. split; [|split].
  - intros r c Hnone. rewrite Hmd, Hnone. reflexivity.
  - intros r c Hnf. destruct (Hspec r c) as (_ & Hb & _). rewrite (Hb Hnf).
    rewrite Hmd. unfold valid_disp. destruct (Z.eq_dec _ 0); [|reflexivity].
    destruct (disp r c); reflexivity.
  - intros r c Hf v Hv. destruct (Hspec r c) as (_ & _ & Hi).
    rewrite <- Hmd in Hv. destruct (Hi Hf v Hv) as (m & Hm & Hmed).
    exists m. rewrite Hv. cbn [is_none]. split; [exact Hm|].
    rewrite <- (win_vals_ext md) by (intros; apply Hmd). exact Hmed.
Qed.

Theorem median_between_min_max : forall inv B rad ny nx disp mask r c v, 1 <= B -> 0 <= rad ->
  fits rad rad ny nx r c -> valid_disp inv disp mask r c = Some v ->
  exists m, fst (median_filter_disparity inv B (2 * rad + 1) ny nx disp mask) r c = Some m /\
            between_min_max m (win_vals (valid_disp inv disp mask) rad rad r c).
Proof.
  intros inv B rad ny nx disp mask r c v HB Hrad Hf Hv.
  destruct (median_eq_spec inv B rad ny nx disp mask HB Hrad) as (_ & _ & _ & H).
  destruct (H r c Hf v Hv) as (m & Hm & Hmed). exists m. split; [exact Hm | apply median_between, Hmed].
Qed.

(* the result does not depend on the block size, nor on the sizes the split points are computed from *)
Theorem median_block_independent : forall inv B B' rad ny nx disp mask r c, 1 <= B -> 1 <= B' -> 0 <= rad ->
  fst (median_filter_disparity inv B (2 * rad + 1) ny nx disp mask) r c
  = fst (median_filter_disparity inv B' (2 * rad + 1) ny nx disp mask) r c.
Proof.
  intros. unfold median_filter_disparity. cbn [fst]. rewrite !median_filter_at by assumption. reflexivity.
Qed.

Lemma median_filter_block_independent : forall B B' rad ny nx data r c, 1 <= B -> 1 <= B' -> 0 <= rad ->
  median_filter B (2 * rad + 1) ny nx data r c = median_filter B' (2 * rad + 1) ny nx data r c.
Proof. intros. rewrite !median_filter_at by assumption. reflexivity. Qed.

(* in-range side condition, proved: the filtered value of a pixel of the image depends on
   pixels of the image only (no read outside the arrays) *)
Lemma median_filter_reads_image_only : forall B rad ny nx (data data' : map2), 1 <= B -> 0 <= rad ->
  (forall r c, 0 <= r < ny -> 0 <= c < nx -> data r c = data' r c) ->
  forall r c, 0 <= r < ny -> 0 <= c < nx ->
  median_filter B (2 * rad + 1) ny nx data r c = median_filter B (2 * rad + 1) ny nx data' r c.
Proof.
  intros B rad ny nx data data' HB Hrad Heq r c Hr Hc. rewrite !median_filter_at by assumption.
  rewrite <- (Heq r c Hr Hc). destruct (data r c); [|reflexivity].
  destruct (fits_b rad rad ny nx r c) eqn:Ef; [|reflexivity].
  apply fits_b_iff in Ef. unfold fits in Ef.
  replace (2 * rad + 1) with (rad + rad + 1) by lia. rewrite !window_as_win_px.
  f_equal. apply map_ext_in. intros [r' c'] Hin. apply In_win_px in Hin. cbn [fst snd]. apply Heq; lia.
Qed.

Theorem median_reads_image_only : forall inv B rad ny nx disp disp' mask mask', 1 <= B -> 0 <= rad ->
  (forall r c, 0 <= r < ny -> 0 <= c < nx -> disp r c = disp' r c /\ mask r c = mask' r c) ->
  forall r c, 0 <= r < ny -> 0 <= c < nx ->
  fst (median_filter_disparity inv B (2 * rad + 1) ny nx disp mask) r c
  = fst (median_filter_disparity inv B (2 * rad + 1) ny nx disp' mask') r c.
Proof.
  intros inv B rad ny nx disp disp' mask mask' HB Hrad Heq r c Hr Hc.
  unfold median_filter_disparity. cbn [fst].
  assert (Hmd : forall r c, 0 <= r < ny -> 0 <= c < nx ->
                 masked_data inv disp mask r c = masked_data inv disp' mask' r c).
  { intros r0 c0 Hr0 Hc0. unfold masked_data. destruct (Heq r0 c0 Hr0 Hc0) as [-> ->]. reflexivity. }
  rewrite (Hmd r c Hr Hc). destruct (Heq r c Hr Hc) as [-> _].
  rewrite (median_filter_reads_image_only B rad ny nx _ _ HB Hrad Hmd r c Hr Hc). reflexivity.
Qed.

(* ================================================================== exact sums *)

Lemma qadd_correct : forall x y, (qadd x y == x + y)%Q.
Proof.
  intros [n1 d1] [n2 d2]. unfold qadd. cbn [Qnum Qden].
  pose proof (Z.ggcd_correct_divisors (Zpos d1) (Zpos d2)) as Hd.
  pose proof (Z.ggcd_gcd (Zpos d1) (Zpos d2)) as Hg.
  destruct (Z.ggcd (Zpos d1) (Zpos d2)) as (g & bb & dd). cbn [fst] in Hg. destruct Hd as [H1 H2].
  assert (Hg0 : 0 <= g) by (subst g; apply Z.gcd_nonneg).
  assert (Hdd : 0 < dd) by nia.
  unfold Qeq, Qplus. cbn [Qnum Qden].
  rewrite Z2Pos.id by nia. rewrite Pos2Z.inj_mul. rewrite H1, H2. ring.
Qed.

Lemma qsum_sumq : forall l, (qsum l == sumq l)%Q.
Proof.
  induction l as [|x l IH]; cbn [qsum sumq fold_right]; [reflexivity|].
  fold (qsum l). fold (sumq l). rewrite qadd_correct, IH. reflexivity.
Qed.

(* ================================================================== weighted means *)

Lemma sumq_nonneg : forall l, (forall x, In x l -> (0 <= x)%Q) -> (0 <= sumq l)%Q.
Proof.
  induction l as [|x l IH]; intros H; cbn [sumq fold_right]; [lra|]. fold (sumq l).
  assert (0 <= x)%Q by (apply H; left; reflexivity).
  assert (0 <= sumq l)%Q by (apply IH; intros; apply H; right; assumption). lra.
Qed.

Lemma sumq_pos : forall l x, (forall y, In y l -> (0 <= y)%Q) -> In x l -> (0 < x)%Q -> (0 < sumq l)%Q.
Proof.
  induction l as [|y l IH]; intros x Hall Hin Hx; [destruct Hin|].
  cbn [sumq fold_right]. fold (sumq l).
  assert (0 <= y)%Q by (apply Hall; left; reflexivity).
  assert (0 <= sumq l)%Q by (apply sumq_nonneg; intros; apply Hall; right; assumption).
  destruct Hin as [->|Hin]; [lra|].
  assert (0 < sumq l)%Q by (apply (IH x); auto; intros; apply Hall; right; assumption). lra.
Qed.

(* convexity: with non-negative weights, a lower (upper) bound of the values bounds the
   weighted sum by the bound times the sum of the weights *)
Lemma wsum_lower : forall (terms : list (Q * Q)) a,
  (forall t, In t terms -> (0 <= fst t)%Q /\ (a <= snd t)%Q) ->
  (a * sumq (map fst terms) <= sumq (map (fun t : Q * Q => fst t * snd t) terms))%Q.
Proof.
  induction terms as [|[w v] terms IH]; intros a H; cbn [map sumq fold_right fst snd]; [lra|].
  fold (sumq (map fst terms)). fold (sumq (map (fun t : Q * Q => (fst t * snd t)%Q) terms)).
  destruct (H (w, v) (or_introl eq_refl)) as [Hw Hv]. cbn [fst snd] in Hw, Hv.
  assert (IH' := IH a (fun t Ht => H t (or_intror Ht))).
  assert (Hwv : (a * w <= v * w)%Q) by (apply Qmult_le_compat_r; assumption).
  lra.
Qed.

Lemma wsum_upper : forall (terms : list (Q * Q)) b,
  (forall t, In t terms -> (0 <= fst t)%Q /\ (snd t <= b)%Q) ->
  (sumq (map (fun t : Q * Q => fst t * snd t) terms) <= b * sumq (map fst terms))%Q.
Proof.
  induction terms as [|[w v] terms IH]; intros b H; cbn [map sumq fold_right fst snd]; [lra|].
  fold (sumq (map fst terms)). fold (sumq (map (fun t : Q * Q => (fst t * snd t)%Q) terms)).
  destruct (H (w, v) (or_introl eq_refl)) as [Hw Hv]. cbn [fst snd] in Hw, Hv.
  assert (IH' := IH b (fun t Ht => H t (or_intror Ht))).
  assert (Hwv : (v * w <= b * w)%Q) by (apply Qmult_le_compat_r; assumption).
  lra.
Qed.

Lemma wmean_bounds : forall m (terms : list (Q * Q)) a b, is_wmean m terms ->
  (forall t, In t terms -> (0 <= fst t)%Q /\ (a <= snd t <= b)%Q) ->
  (a <= m <= b)%Q.
Proof.
  intros m terms a b [Hpos Hm] H.
  assert (Ha := wsum_lower terms a (fun t Ht => conj (proj1 (H t Ht)) (proj1 (proj2 (H t Ht))))).
  assert (Hb := wsum_upper terms b (fun t Ht => conj (proj1 (H t Ht)) (proj2 (proj2 (H t Ht))))).
  rewrite <- Hm in Ha, Hb.
  split; apply (Qmult_le_r _ _ _ Hpos); assumption.
Qed.

(* the model's quotient is the Spec's weighted mean as soon as the weights sum to > 0 *)
Lemma wmean_is_wmean : forall terms, (0 < sumq (map fst terms))%Q -> is_wmean (wmean terms) terms.
Proof.
  intros terms Hpos. split; [exact Hpos|]. unfold wmean. rewrite !qsum_sumq.
  field. lra.
Qed.

Lemma list_min_max : forall l : list Q, l <> [] ->
  exists a b, In a l /\ In b l /\ forall x, In x l -> (a <= x <= b)%Q.
Proof.
  induction l as [|x l IH]; intros Hne; [congruence|].
  destruct l as [|y l'].
  - exists x, x. split; [left; reflexivity|]. split; [left; reflexivity|].
    intros z [<-|[]]. split; apply Qle_refl.
  - destruct IH as (a & b & Ha & Hb & Hall); [discriminate|].
    exists (if Qle_bool x a then x else a), (if Qle_bool b x then x else b).
    assert (Hax : Qle_bool x a = true \/ (Qle_bool x a = false /\ (a <= x)%Q)).
    { destruct (Qle_bool x a) eqn:E; [left; reflexivity | right; split; [reflexivity|]].
      apply Qlt_le_weak, Qnot_le_lt. rewrite <- Qle_bool_iff. congruence. }
    assert (Hbx : Qle_bool b x = true \/ (Qle_bool b x = false /\ (x <= b)%Q)).
    { destruct (Qle_bool b x) eqn:E; [left; reflexivity | right; split; [reflexivity|]].
      apply Qlt_le_weak, Qnot_le_lt. rewrite <- Qle_bool_iff. congruence. }
    split; [destruct (Qle_bool x a); [left; reflexivity | right; exact Ha]|].
    split; [destruct (Qle_bool b x); [left; reflexivity | right; exact Hb]|].
    intros z [<-|Hz].
    + destruct Hax as [E|[E Hle]], Hbx as [E'|[E' Hle']]; rewrite E, E'; split;
        try apply Qle_refl; try assumption.
    + destruct (Hall z Hz) as [Hz1 Hz2].
      destruct Hax as [E|[E Hle]], Hbx as [E'|[E' Hle']]; rewrite E, E';
        try apply Qle_bool_iff in E; try apply Qle_bool_iff in E'; split; lra.
Qed.

(* ================================================================== the bilateral filter *)

(* the spatial kernel array of the code, indexed from the window corner, as a function of the
   displacement from the pixel: index = displacement + lo *)
Definition sp_of (sk : Z -> Z -> Q) (lo : Z) : Z -> Z -> Q := fun dr dc => sk (dr + lo) (dc + lo).

Lemma bil_terms_as_win_terms : forall sk rk (data : map2) lo hi r c cv,
  bil_terms sk rk data (lo + hi + 1) (r - lo) (c - lo) cv
  = win_terms (sp_of sk lo) rk data lo hi r c cv.
Proof.
  intros. unfold bil_terms, win_terms, win_px, span, zrange, sp_of.
  generalize (seq 0 (Z.to_nat (lo + hi + 1))) at 2 4 as L1.
  generalize (seq 0 (Z.to_nat (lo + hi + 1))) as L2. intros L2 L1.
  induction L1 as [|k L1 IH]; cbn [map flat_map]; [reflexivity|].
  rewrite flat_map_app. f_equal; [|exact IH]. clear IH.
  induction L2 as [|k2 L2 IH2]; cbn [map flat_map]; [reflexivity|].
  f_equal; [|exact IH2]. cbn [fst snd].
  replace (r + (- lo + Z.of_nat k)) with (r - lo + Z.of_nat k) by lia.
  replace (c + (- lo + Z.of_nat k2)) with (c - lo + Z.of_nat k2) by lia.
  replace (r - lo + Z.of_nat k - r + lo) with (Z.of_nat k) by lia.
  replace (c - lo + Z.of_nat k2 - c + lo) with (Z.of_nat k2) by lia.
  reflexivity.
Qed.

Lemma In_win_terms : forall sp rg (val : dmap) lo hi r c cv t,
  In t (win_terms sp rg val lo hi r c cv) <->
  exists r' c' v, (r - lo <= r' <= r + hi /\ c - lo <= c' <= c + hi) /\ val r' c' = Some v /\
                  t = ((sp (r' - r)%Z (c' - c)%Z * rg (v - cv))%Q, v).
Proof.
  intros. unfold win_terms. rewrite in_flat_map. split.
  - intros ([r' c'] & Hin & H). apply In_win_px in Hin. cbn [fst snd] in H.
    destruct (val r' c') as [v|] eqn:Ev; [|destruct H]. destruct H as [<-|[]].
    exists r', c', v. auto.
  - intros (r' & c' & v & Hr & Hv & ->). exists (r', c'). split; [apply In_win_px; exact Hr|].
    cbn [fst snd]. rewrite Hv. left. reflexivity.
Qed.

Lemma flat_map_ext_in' : forall (A C : Type) (f g : A -> list C) l,
  (forall x, In x l -> f x = g x) -> flat_map f l = flat_map g l.
Proof.
  induction l as [|x l IH]; intros H; cbn [flat_map]; [reflexivity|].
  rewrite (H x (or_introl eq_refl)), IH; [reflexivity|]. intros; apply H; right; assumption.
Qed.

Lemma win_terms_ext : forall sp rg (val val' : dmap) lo hi r c cv,
  (forall r' c', r - lo <= r' <= r + hi -> c - lo <= c' <= c + hi -> val r' c' = val' r' c') ->
  win_terms sp rg val lo hi r c cv = win_terms sp rg val' lo hi r c cv.
Proof.
  intros. unfold win_terms. apply flat_map_ext_in'. intros [r' c'] Hin. apply In_win_px in Hin.
  cbn [fst snd]. rewrite H by lia. reflexivity.
Qed.

(* the values of the (weight, value) pairs are the valid values of the window *)
Lemma win_terms_values : forall sp rg (val : dmap) lo hi r c cv,
  map snd (win_terms sp rg val lo hi r c cv) = win_vals val lo hi r c.
Proof.
  intros. unfold win_terms, win_vals, somes. generalize (win_px lo hi r c) as L.
  induction L as [|p L IH]; cbn [flat_map map]; [reflexivity|].
  rewrite map_app, IH. f_equal. destruct (val (fst p) (snd p)); reflexivity.
Qed.

Lemma win_width_le : forall ny nx s, win_width ny nx s <= ny /\ win_width ny nx s <= nx.
Proof. intros. unfold win_width. lia. Qed.

(* int(3 * sigma_space + 1) >= 1 for a non-negative sigma_space: the window is never empty *)
Lemma win_width_pos : forall ny nx s, 1 <= ny -> 1 <= nx -> (0 <= s)%Q -> 1 <= win_width ny nx s.
Proof.
  intros ny nx s Hy Hx Hs. unfold win_width.
  assert (H : Qfloor 1 <= Qfloor (3 * s + 1)) by (apply Qfloor_resp_le; lra).
  change (Qfloor 1) with 1 in H. lia.
Qed.

(* what BilateralFilter.filter_bilateral computes at pixel (r, c), for EVERY block size B >= 1 *)
Lemma filter_bilateral_at : forall B ny nx sigma sk rk (data : map2) r c, 1 <= B ->
  let win := win_width ny nx sigma in
  let lo := win / 2 in
  let hi := win - 1 - lo in
  1 <= win ->
  filter_bilateral B ny nx sigma sk rk data r c =
  match data r c with
  | None => None
  | Some cv => if fits_b lo hi ny nx r c
               then Some (wmean (win_terms (sp_of sk lo) rk data lo hi r c cv))
               else Some cv
  end.
Proof.
  intros B ny nx sigma sk rk data r c HB win lo hi Hwin. unfold filter_bilateral. fold win. fold lo.
  destruct (win_width_le ny nx sigma) as [Hy Hx]. fold win in Hy, Hx.
  rewrite loop2_spec by lia.
  destruct (data r c) as [cv|] eqn:Ed; cbn [is_none]; [|reflexivity].
  unfold fits_b.
  replace (r <? lo + (ny - win + 1)) with (r + hi <? ny)
    by (unfold hi; destruct (Z.ltb_spec (r + (win - 1 - lo)) ny), (Z.ltb_spec r (lo + (ny - win + 1))); lia).
  replace (c <? lo + (nx - win + 1)) with (c + hi <? nx)
    by (unfold hi; destruct (Z.ltb_spec (c + (win - 1 - lo)) nx), (Z.ltb_spec c (lo + (nx - win + 1))); lia).
  destruct ((lo <=? r) && (r + hi <? ny) && (lo <=? c) && (c + hi <? nx)); [|reflexivity].
  unfold bilateral_at. replace (r - lo + lo) with r by lia. replace (c - lo + lo) with c by lia.
  rewrite Ed. replace win with (lo + hi + 1) by (unfold hi; lia).
  rewrite bil_terms_as_win_terms. reflexivity.
Qed.

(* the weights of a window sum to a positive number: none is negative, the pixel's own is positive *)
Lemma win_terms_weight_pos : forall sp rg (val : dmap) lo hi r c cv, 0 <= lo -> 0 <= hi ->
  kernel_ok sp rg lo hi -> val r c = Some cv ->
  (0 < sumq (map fst (win_terms sp rg val lo hi r c cv)))%Q.
Proof.
  intros sp rg val lo hi r c cv Hlo Hhi (Hsp & Hrg & Hsp0 & Hrg0) Hv.
  apply (sumq_pos _ (sp (r - r)%Z (c - c)%Z * rg (cv - cv))%Q).
  - intros y Hy. apply in_map_iff in Hy. destruct Hy as (t & <- & Ht).
    apply In_win_terms in Ht. destruct Ht as (r' & c' & v & Hr & _ & ->). cbn [fst].
    apply Qmult_le_0_compat; [apply Hsp; lia | apply Hrg].
  - apply in_map_iff. exists ((sp (r - r)%Z (c - c)%Z * rg (cv - cv))%Q, cv). split; [reflexivity|].
    apply In_win_terms. exists r, c, cv. split; [lia|]. split; [exact Hv | reflexivity].
  - rewrite !Z.sub_diag. apply Qmult_lt_0_compat; [exact Hsp0|]. apply Hrg0. ring.
Qed.

Lemma kernel_pos_ok : forall sp rg lo hi, 0 <= lo -> 0 <= hi -> kernel_pos sp rg lo hi -> kernel_ok sp rg lo hi.
Proof.
  intros sp rg lo hi Hlo Hhi [Hsp Hrg]. repeat split.
  - intros. apply Qlt_le_weak, Hsp; assumption.
  - intros. apply Qlt_le_weak, Hrg.
  - apply Hsp; lia.
  - intros. apply Hrg.
Qed.

Theorem bilateral_eq_spec : forall inv B ny nx sigma sk rk disp mask, 1 <= B ->
  let win := win_width ny nx sigma in
  let lo := win / 2 in
  let hi := win - 1 - lo in
  1 <= win -> kernel_ok (sp_of sk lo) rk lo hi ->
  let out := bilateral_filter_disparity inv B ny nx sigma sk rk disp mask in
  bilateral_step_spec inv lo hi ny nx (sp_of sk lo) rk disp mask (fst out) (snd out).
Proof.
  intros inv B ny nx sigma sk rk disp mask HB win lo hi Hwin Hk. cbn zeta.
  unfold bilateral_filter_disparity. cbn [fst snd].
  set (md := masked_data inv disp mask).
  assert (Hmd : forall r c, md r c = valid_disp inv disp mask r c) by (intros; apply masked_data_valid_disp).
  assert (Hlo : 0 <= lo) by (unfold lo; apply Z.div_pos; lia).
  assert (Hhi : 0 <= hi) by (unfold hi, lo; pose proof (Z.mul_div_le win 2); pose proof (Z.mul_succ_div_gt win 2); lia).
  pose proof (fun r c => filter_bilateral_at B ny nx sigma sk rk md r c HB Hwin) as Hat.
  fold win lo hi in Hat.
  unfold bilateral_step_spec. split; [reflexivity|]. split; [|split].
  - intros r c Hnone. rewrite Hmd, Hnone. reflexivity.
  - intros r c Hnf. rewrite Hat. apply fits_b_false in Hnf. rewrite Hnf.
    rewrite Hmd. unfold valid_disp. destruct (Z.eq_dec _ 0); [|reflexivity].
    destruct (disp r c); reflexivity.
  - intros r c Hf cv Hv. rewrite <- Hmd in Hv. rewrite Hat, Hv. cbn [is_none].
    apply fits_b_iff in Hf. rewrite Hf. eexists. split; [reflexivity|].
    rewrite <- (win_terms_ext _ _ md (valid_disp inv disp mask)) by (intros; apply Hmd).
    apply wmean_is_wmean. apply win_terms_weight_pos; assumption.
Qed.

Lemma window_reach : forall win, 1 <= win ->
  let lo := win / 2 in let hi := win - 1 - lo in
  0 <= lo /\ 0 <= hi /\ lo + hi + 1 = win /\
  (win mod 2 = 1 -> hi = lo) /\ (win mod 2 = 0 -> hi = lo - 1).
Proof.
  intros win Hwin lo hi. unfold hi, lo.
  pose proof (Z.div_mod win 2). pose proof (Z.mod_pos_bound win 2). lia.
Qed.

(* the statement asked by the property text: every strictly positive kernel *)
Corollary bilateral_eq_spec_pos : forall inv B ny nx sigma sk rk disp mask, 1 <= B ->
  let win := win_width ny nx sigma in
  let lo := win / 2 in
  let hi := win - 1 - lo in
  1 <= win -> kernel_pos (sp_of sk lo) rk lo hi ->
  let out := bilateral_filter_disparity inv B ny nx sigma sk rk disp mask in
  bilateral_step_spec inv lo hi ny nx (sp_of sk lo) rk disp mask (fst out) (snd out).
Proof.
  intros inv B ny nx sigma sk rk disp mask HB win lo hi Hwin Hk.
  destruct (window_reach win Hwin) as (Hlo & Hhi & _).
  apply bilateral_eq_spec; try assumption. apply kernel_pos_ok; assumption.
Qed.

(* hence (convexity): between the smallest and the largest valid value of the window *)
Theorem bilateral_between_min_max : forall inv B ny nx sigma sk rk disp mask r c cv, 1 <= B ->
  let win := win_width ny nx sigma in
  let lo := win / 2 in
  let hi := win - 1 - lo in
  1 <= win -> kernel_ok (sp_of sk lo) rk lo hi ->
  fits lo hi ny nx r c -> valid_disp inv disp mask r c = Some cv ->
  exists m, fst (bilateral_filter_disparity inv B ny nx sigma sk rk disp mask) r c = Some m /\
            between_min_max m (win_vals (valid_disp inv disp mask) lo hi r c).
Proof.
  intros inv B ny nx sigma sk rk disp mask r c cv HB win lo hi Hwin Hk Hf Hv.
  destruct (bilateral_eq_spec inv B ny nx sigma sk rk disp mask HB Hwin Hk) as (_ & _ & _ & H).
  fold win lo hi in H. destruct (H r c Hf cv Hv) as (m & Hm & Hw). exists m. split; [exact Hm|].
  set (val := valid_disp inv disp mask) in *.
  assert (Hlo : 0 <= lo) by (unfold lo; apply Z.div_pos; lia).
  assert (Hhi : 0 <= hi) by (unfold hi, lo; pose proof (Z.mul_div_le win 2); pose proof (Z.mul_succ_div_gt win 2); lia).
  assert (Hne : win_vals val lo hi r c <> []).
  { intro E. assert (Hin : In cv (win_vals val lo hi r c)).
    { apply In_somes, in_map_iff. exists (r, c). split; [exact Hv | apply In_win_px; lia]. }
    rewrite E in Hin. exact Hin. }
  destruct (list_min_max _ Hne) as (a & b & Ha & Hb & Hall).
  exists a, b. split; [exact Ha|]. split; [exact Hb|]. split; [exact Hall|].
  apply (wmean_bounds m _ a b Hw). intros t Ht. split.
  - apply In_win_terms in Ht. destruct Ht as (r' & c' & v & Hr & _ & ->). cbn [fst].
    destruct Hk as (Hsp & Hrg & _). apply Qmult_le_0_compat; [apply Hsp; lia | apply Hrg].
  - apply Hall. rewrite <- (win_terms_values (sp_of sk lo) rk val lo hi r c cv).
    apply in_map. exact Ht.
Qed.

Theorem bilateral_block_independent : forall inv B B' ny nx sigma sk rk disp mask r c, 1 <= B -> 1 <= B' ->
  1 <= win_width ny nx sigma ->
  fst (bilateral_filter_disparity inv B ny nx sigma sk rk disp mask) r c
  = fst (bilateral_filter_disparity inv B' ny nx sigma sk rk disp mask) r c.
Proof.
  intros. unfold bilateral_filter_disparity. cbn [fst]. rewrite !filter_bilateral_at by assumption. reflexivity.
Qed.

Theorem bilateral_reads_image_only : forall inv B ny nx sigma sk rk disp disp' mask mask', 1 <= B ->
  1 <= win_width ny nx sigma ->
  (forall r c, 0 <= r < ny -> 0 <= c < nx -> disp r c = disp' r c /\ mask r c = mask' r c) ->
  forall r c, 0 <= r < ny -> 0 <= c < nx ->
  fst (bilateral_filter_disparity inv B ny nx sigma sk rk disp mask) r c
  = fst (bilateral_filter_disparity inv B ny nx sigma sk rk disp' mask') r c.
Proof.
  intros inv B ny nx sigma sk rk disp disp' mask mask' HB Hwin Heq r c Hr Hc.
  unfold bilateral_filter_disparity. cbn [fst].
  assert (Hmd : forall r c, 0 <= r < ny -> 0 <= c < nx ->
                 masked_data inv disp mask r c = masked_data inv disp' mask' r c).
  { intros r0 c0 Hr0 Hc0. unfold masked_data. destruct (Heq r0 c0 Hr0 Hc0) as [-> ->]. reflexivity. }
  rewrite (Hmd r c Hr Hc). destruct (Heq r c Hr Hc) as [-> _].
  rewrite !filter_bilateral_at by assumption. rewrite (Hmd r c Hr Hc).
  destruct (masked_data inv disp' mask' r c); [|reflexivity].
  set (win := win_width ny nx sigma) in *.
  destruct (fits_b (win / 2) (win - 1 - win / 2) ny nx r c) eqn:Ef; [|reflexivity].
  apply fits_b_iff in Ef. unfold fits in Ef.
  rewrite (win_terms_ext _ _ (masked_data inv disp mask) (masked_data inv disp' mask')); [reflexivity|].
  intros. apply Hmd; lia.
Qed.

(* ================================================================== median_for_intervals *)

Lemma lor_bit11 : forall m, only_bit11_raised m (Z.lor m (2 ^ 11)).
Proof.
  intro m. split.
  - intros k Hk. rewrite Z.lor_spec.
    destruct (Z.ltb_spec k 0) as [Hneg|Hpos].
    + rewrite !Z.testbit_neg_r by assumption. reflexivity.
    + rewrite (Z.pow2_bits_eqb 11 k) by lia.
      destruct (Z.eqb_spec 11 k); [lia|]. apply orb_false_r.
  - intros H. rewrite Z.lor_spec, H. reflexivity.
Qed.

Lemma only_bit11_refl : forall m, only_bit11_raised m m.
Proof. intro m. split; auto. Qed.

(* without regularisation: the disparity map and the mask are returned as they are, each bound
   band is the median filter of that band *)
Theorem mfi_plain : forall bit11 B w ny nx disp binf bsup mask,
  let o := mfi_filter_disparity bit11 B w ny nx None disp binf bsup mask in
  f_disp o = disp /\ f_mask o = mask /\
  f_inf o = median_filter B w ny nx binf /\ f_sup o = median_filter B w ny nx bsup.
Proof. intros. cbn. auto. Qed.

(* with regularisation (an arbitrary oracle for interval_regularization): the disparity map is
   returned as it is, the oracle receives the median-filtered bands, only bit 11 of the mask
   may change and it is never cleared *)
Theorem mfi_regularized : forall B w ny nx oracle disp binf bsup mask,
  let o := mfi_filter_disparity (2 ^ 11) B w ny nx (Some oracle) disp binf bsup mask in
  let res := oracle (median_filter B w ny nx binf) (median_filter B w ny nx bsup) in
  f_disp o = disp /\ f_inf o = fst (fst res) /\ f_sup o = snd (fst res) /\
  forall r c, only_bit11_raised (mask r c) (f_mask o r c) /\
              (f_mask o r c = if snd res r c then Z.lor (mask r c) (2 ^ 11) else mask r c).
Proof.
  intros. unfold o, res, mfi_filter_disparity.
  destruct (oracle (median_filter B w ny nx binf) (median_filter B w ny nx bsup)) as [[i2 s2] rm].
  cbn [f_disp f_inf f_sup f_mask fst snd]. repeat split; try reflexivity;
    destruct (rm r c); try apply lor_bit11; try apply only_bit11_refl; auto.
Qed.

(* ================================================================== the Spec's median is well defined:
   any two sorted arrangements of the same values have the same middle (up to ==) *)

Lemma Qle_bool_false : forall x y, Qle_bool x y = false -> (y < x)%Q.
Proof. intros x y H. apply Qnot_le_lt. rewrite <- Qle_bool_iff. congruence. Qed.

Lemma isort_sorted_id : forall s, StronglySorted Qle s -> isort s = s.
Proof.
  induction 1 as [|x s Hs IH Hall]; cbn [isort]; [reflexivity|]. rewrite IH.
  destruct s as [|y r]; cbn [insert]; [reflexivity|].
  inversion Hall as [|? ? Hxy _]; subst. apply Qle_bool_iff in Hxy. rewrite Hxy. reflexivity.
Qed.

Lemma F2Qeq_refl : forall l, Forall2 Qeq l l.
Proof. induction l; constructor; [reflexivity | assumption]. Qed.

Lemma F2Qeq_trans : forall l1 l2 l3, Forall2 Qeq l1 l2 -> Forall2 Qeq l2 l3 -> Forall2 Qeq l1 l3.
Proof.
  intros l1 l2 l3 H. revert l3. induction H as [|x y l1 l2 Hxy H IH]; intros l3 H3; inversion H3; subst; constructor.
  - eapply Qeq_trans; eassumption.
  - apply IH. assumption.
Qed.

Lemma Qle_bool_compat : forall x x' y y', (x == x')%Q -> (y == y')%Q -> Qle_bool x y = Qle_bool x' y'.
Proof.
  intros x x' y y' Hx Hy. destruct (Qle_bool x y) eqn:E, (Qle_bool x' y') eqn:E'; try reflexivity.
  - apply Qle_bool_iff in E. rewrite Hx, Hy in E. apply Qle_bool_iff in E. congruence.
  - apply Qle_bool_iff in E'. rewrite <- Hx, <- Hy in E'. apply Qle_bool_iff in E'. congruence.
Qed.

Lemma insert_Qeq_compat : forall l l' x x', Forall2 Qeq l l' -> (x == x')%Q ->
  Forall2 Qeq (insert x l) (insert x' l').
Proof.
  intros l l' x x' H Hx. induction H as [|y y' l l' Hy H IH]; cbn [insert].
  - repeat constructor. assumption.
  - rewrite (Qle_bool_compat x x' y y' Hx Hy). destruct (Qle_bool x' y'); repeat constructor; assumption.
Qed.

Lemma insert_insert : forall l x y, Forall2 Qeq (insert x (insert y l)) (insert y (insert x l)).
Proof.
  induction l as [|z l IH]; intros x y; cbn [insert].
  - destruct (Qle_bool x y) eqn:Exy, (Qle_bool y x) eqn:Eyx; cbn [insert]; rewrite ?Exy, ?Eyx;
      try apply Qle_bool_iff in Exy; try apply Qle_bool_iff in Eyx;
      try apply Qle_bool_false in Exy; try apply Qle_bool_false in Eyx;
      repeat constructor; lra.
  - destruct (Qle_bool y z) eqn:Eyz, (Qle_bool x z) eqn:Exz; cbn [insert]; rewrite ?Eyz, ?Exz;
      destruct (Qle_bool x y) eqn:Exy, (Qle_bool y x) eqn:Eyx; cbn [insert]; rewrite ?Eyz, ?Exz;
      try apply Qle_bool_iff in Exy; try apply Qle_bool_iff in Eyx;
      try apply Qle_bool_iff in Eyz; try apply Qle_bool_iff in Exz;
      try apply Qle_bool_false in Exy; try apply Qle_bool_false in Eyx;
      try apply Qle_bool_false in Eyz; try apply Qle_bool_false in Exz;
      try (exfalso; lra);
      repeat (constructor; try lra); try apply F2Qeq_refl; try apply IH.
Qed.

Lemma isort_perm_Qeq : forall l l', Permutation l l' -> Forall2 Qeq (isort l) (isort l').
Proof.
  induction 1 as [|x l l' Hp IH|x y l|l1 l2 l3 H1 IH1 H2 IH2]; cbn [isort].
  - constructor.
  - apply insert_Qeq_compat; [exact IH | reflexivity].
  - apply insert_insert.
  - eapply F2Qeq_trans; eassumption.
Qed.

Lemma F2Qeq_length : forall l l', Forall2 Qeq l l' -> length l = length l'.
Proof. induction 1; cbn; congruence. Qed.

Lemma F2Qeq_nth : forall l l', Forall2 Qeq l l' -> forall i, (nth i l 0 == nth i l' 0)%Q.
Proof.
  induction 1 as [|x y l l' Hxy H IH]; intros [|i]; cbn [nth]; try reflexivity; [assumption | apply IH].
Qed.

Lemma mid_Qeq : forall s s', Forall2 Qeq s s' -> (mid s == mid s')%Q.
Proof.
  intros s s' H. unfold mid. rewrite <- (F2Qeq_length _ _ H).
  destruct (Nat.odd (length s)).
  - apply F2Qeq_nth, H.
  - rewrite (F2Qeq_nth _ _ H (length s / 2 - 1)), (F2Qeq_nth _ _ H (length s / 2)). reflexivity.
Qed.

Theorem is_median_unique : forall m m' l, is_median m l -> is_median m' l -> (m == m')%Q.
Proof.
  intros m m' l (s & Hp & Hs & _ & Hm) (s' & Hp' & Hs' & _ & Hm').
  rewrite Hm, Hm'. apply mid_Qeq.
  rewrite <- (isort_sorted_id s Hs), <- (isort_sorted_id s' Hs').
  apply isort_perm_Qeq. rewrite Hp, Hp'. reflexivity.
Qed.

Theorem is_wmean_unique : forall m m' terms, is_wmean m terms -> is_wmean m' terms -> (m == m')%Q.
Proof.
  intros m m' terms [Hpos Hm] [_ Hm']. rewrite <- Hm' in Hm.
  apply (Qmult_inj_r _ _ (sumq (map fst terms))); [lra | exact Hm].
Qed.

(* ================================================================== the extracted spec checker
   (Model/FiltersCheck.v) accepts exactly what the Spec accepts *)

Lemma q_same_iff : forall a b, q_same a b = true <-> a = b.
Proof.
  intros [n d] [n' d']. unfold q_same. cbn [Qnum Qden]. rewrite andb_true_iff, Z.eqb_eq, Pos.eqb_eq.
  split; [intros [-> ->]; reflexivity | intros E; inversion E; auto].
Qed.

Lemma oq_same_iff : forall a b, oq_same a b = true <-> a = b.
Proof.
  intros [x|] [y|]; cbn [oq_same]; try rewrite q_same_iff; split; congruence.
Qed.

Lemma is_median_b_iff : forall m l, is_median_b m l = true <-> is_median m l.
Proof.
  intros m l. unfold is_median_b.
  pose proof (isort_perm l) as Hp. pose proof (isort_sorted l) as Hs.
  split.
  - destruct (isort l) as [|x s] eqn:E; [discriminate|]. intros H. apply Qeq_bool_iff in H.
    exists (x :: s). split; [exact Hp|]. split; [exact Hs|]. split; [discriminate | exact H].
  - intros Hm.
    assert (Hm' : is_median (mid (isort l)) l).
    { destruct Hm as (s & Hps & _ & Hne & _). exists (isort l). split; [exact Hp|]. split; [exact Hs|].
      split; [|reflexivity]. intro E. rewrite E in Hp. apply Permutation_nil in Hp.
      subst l. apply Permutation_sym, Permutation_nil in Hps. contradiction. }
    pose proof (is_median_unique _ _ _ Hm Hm') as Heq.
    destruct (isort l) as [|x s] eqn:E.
    + destruct Hm' as (s' & Hps' & _ & Hne' & _). apply Permutation_nil in Hp. subst l.
      apply Permutation_sym, Permutation_nil in Hps'. contradiction.
    + apply Qeq_bool_iff. exact Heq.
Qed.

Lemma all_px_iff : forall ny nx p,
  all_px ny nx p = true <-> (forall r c, 0 <= r < ny -> 0 <= c < nx -> p r c = true).
Proof.
  intros. unfold all_px. rewrite forallb_forall. split.
  - intros H r c Hr Hc. specialize (H r (proj2 (In_zrange ny r) Hr)). rewrite forallb_forall in H.
    apply H, In_zrange, Hc.
  - intros H r Hr. apply forallb_forall. intros c Hc. apply H; apply In_zrange; assumption.
Qed.

(* one pixel of the median Spec, as a proposition *)
Definition median_px_spec (rad ny nx : Z) (val before after : dmap) (r c : Z) : Prop :=
  (val r c = None -> after r c = before r c) /\
  (~ fits rad rad ny nx r c -> after r c = before r c) /\
  (fits rad rad ny nx r c -> forall v, val r c = Some v ->
     exists m, after r c = Some m /\ is_median m (win_vals val rad rad r c)).

Lemma median_px_ok_iff : forall rad ny nx val before after r c,
  median_px_ok rad ny nx val before after r c = true <-> median_px_spec rad ny nx val before after r c.
Proof.
  intros. unfold median_px_ok, median_px_spec. change fits_bool with fits_b.
  destruct (val r c) as [v|] eqn:Ev.
  - destruct (fits_b rad rad ny nx r c) eqn:Ef.
    + apply fits_b_iff in Ef. split.
      * intros H. split; [discriminate|]. split; [contradiction|]. intros _ v' _.
        destruct (after r c) as [m|]; [|discriminate]. exists m. split; [reflexivity|].
        apply is_median_b_iff, H.
      * intros (_ & _ & H). destruct (H Ef v eq_refl) as (m & -> & Hm). apply is_median_b_iff, Hm.
    + apply fits_b_false in Ef. rewrite oq_same_iff. split.
      * intros H. split; [discriminate|]. split; [intros _; exact H | contradiction].
      * intros (_ & H & _). apply H, Ef.
  - rewrite oq_same_iff. split.
    + intros H. split; [intros _; exact H|]. split; [intros _; exact H | discriminate].
    + intros (H & _). apply H. reflexivity.
Qed.

(* the boolean checker applied to (input, output) pairs = the Spec on the pixels of the image *)
Theorem median_step_spec_b_iff : forall inv rad ny nx disp mask disp' mask',
  median_step_spec_b inv rad ny nx disp mask disp' mask' = true <->
  (forall r c, 0 <= r < ny -> 0 <= c < nx ->
     mask' r c = mask r c /\ median_px_spec rad ny nx (valid_disp inv disp mask) disp disp' r c).
Proof.
  intros. unfold median_step_spec_b. rewrite all_px_iff. split; intros H r c Hr Hc; specialize (H r c Hr Hc).
  - apply andb_true_iff in H. rewrite Z.eqb_eq, median_px_ok_iff in H. exact H.
  - apply andb_true_iff. rewrite Z.eqb_eq, median_px_ok_iff. exact H.
Qed.

Theorem median_map_spec_b_iff : forall rad ny nx data out,
  median_map_spec_b rad ny nx data out = true <->
  (forall r c, 0 <= r < ny -> 0 <= c < nx -> median_px_spec rad ny nx data data out r c).
Proof.
  intros. unfold median_map_spec_b. rewrite all_px_iff. split; intros H r c Hr Hc; specialize (H r c Hr Hc);
    apply median_px_ok_iff; exact H.
Qed.

(* and the model passes its own checker (the Spec theorems, through the checker) *)
Corollary median_model_passes_checker : forall inv B rad ny nx disp mask, 1 <= B -> 0 <= rad ->
  let out := median_filter_disparity inv B (2 * rad + 1) ny nx disp mask in
  median_step_spec_b inv rad ny nx disp mask (fst out) (snd out) = true.
Proof.
  intros inv B rad ny nx disp mask HB Hrad out. apply median_step_spec_b_iff. intros r c _ _.
  destruct (median_eq_spec inv B rad ny nx disp mask HB Hrad) as (H1 & H2 & H3 & H4). fold out in H1, H2, H3, H4.
  split; [apply H1|]. split; [apply H2|]. split; [apply H3 | apply H4].
Qed.

(* ================================================================== an order-free reading of
   the median: at least half of the values are <= m and at least half are >= m *)

Definition count_le (m : Q) (l : list Q) : nat := length (filter (fun x => Qle_bool x m) l).
Definition count_ge (m : Q) (l : list Q) : nat := length (filter (fun x => Qle_bool m x) l).

Lemma filter_perm_length : forall (p : Q -> bool) l l', Permutation l l' ->
  length (filter p l) = length (filter p l').
Proof.
  induction 1 as [|x l l' _ IH|x y l|l1 l2 l3 _ IH1 _ IH2]; cbn [filter]; try congruence.
  - destruct (p x); cbn [length]; congruence.
  - destruct (p x), (p y); reflexivity.
Qed.

Lemma filter_all_length : forall (p : Q -> bool) l, (forall x, In x l -> p x = true) ->
  length (filter p l) = length l.
Proof.
  induction l as [|x l IH]; intros H; cbn [filter]; [reflexivity|].
  rewrite (H x (or_introl eq_refl)). cbn [length]. rewrite IH; [reflexivity|]. intros; apply H; right; assumption.
Qed.

Lemma count_prefix : forall (p : Q -> bool) s k, (k <= length s)%nat ->
  (forall i, (i < k)%nat -> p (nth i s 0%Q) = true) -> (k <= length (filter p s))%nat.
Proof.
  induction s as [|x r IH]; intros k Hk H; cbn [length] in Hk; [lia|].
  destruct k as [|k]; [lia|]. cbn [filter]. pose proof (H 0%nat ltac:(lia)) as H0. cbn [nth] in H0. rewrite H0. cbn [length].
  apply le_n_S. apply IH; [lia|]. intros i Hi. apply (H (S i)). lia.
Qed.

Lemma count_suffix : forall (p : Q -> bool) s k, (k <= length s)%nat ->
  (forall i, (k <= i < length s)%nat -> p (nth i s 0%Q) = true) -> (length s - k <= length (filter p s))%nat.
Proof.
  induction s as [|x r IH]; intros k Hk H; [cbn; lia|].
  destruct k as [|k].
  - rewrite Nat.sub_0_r. apply count_prefix; [lia|]. intros i Hi. apply H. lia.
  - cbn [length] in *. replace (S (length r) - S k)%nat with (length r - k)%nat by lia.
    assert (length r - k <= length (filter p r))%nat.
    { apply IH; [lia|]. intros i Hi. apply (H (S i)). lia. }
    cbn [filter]. destruct (p x); cbn [length]; lia.
Qed.

Theorem median_splits : forall m l, is_median m l ->
  (length l <= 2 * count_le m l)%nat /\ (length l <= 2 * count_ge m l)%nat.
Proof.
  intros m l (s & Hp & Hs & Hne & Hm). unfold count_le, count_ge.
  rewrite <- !(filter_perm_length _ _ _ Hp), <- (Permutation_length Hp).
  set (n := length s). assert (Hn : (0 < n)%nat) by (destruct s; [congruence | cbn; lia]).
  assert (Hdiv : (n / 2 < n)%nat) by (apply Nat.div_lt; lia).
  pose proof (Nat.div_mod n 2 ltac:(lia)) as Hdm. pose proof (Nat.mod_upper_bound n 2 ltac:(lia)) as Hmod.
  unfold mid in Hm. fold n in Hm.
  destruct (Nat.odd n) eqn:Eo.
  - (* odd: m is s[n/2] *)
    split.
    + pose proof (count_prefix (fun x => Qle_bool x m) s (n / 2 + 1) ltac:(fold n; lia)) as H.
      assert (n / 2 + 1 <= length (filter (fun x => Qle_bool x m) s))%nat.
      { apply H. intros i Hi. apply Qle_bool_iff. rewrite Hm. apply sorted_nth_le; [assumption | fold n; lia]. }
      apply Nat.odd_spec in Eo. destruct Eo as [k Ek]. lia.
    + pose proof (count_suffix (fun x => Qle_bool m x) s (n / 2) ltac:(fold n; lia)) as H.
      assert (n - n / 2 <= length (filter (fun x => Qle_bool m x) s))%nat.
      { apply H. intros i Hi. apply Qle_bool_iff. rewrite Hm. apply sorted_nth_le; [assumption | fold n; lia]. }
      lia.
  - (* even: m is the mean of s[n/2-1] <= s[n/2] *)
    assert (Hev : n = (2 * (n / 2))%nat).
    { rewrite <- Nat.negb_even in Eo. apply negb_false_iff, Nat.even_spec in Eo. destruct Eo as [k Ek].
      rewrite Ek. rewrite Nat.mul_comm, Nat.div_mul by lia. lia. }
    assert (Hab : (nth (n / 2 - 1) s 0 <= nth (n / 2) s 0)%Q) by (apply sorted_nth_le; [assumption | fold n; lia]).
    set (a := nth (n / 2 - 1) s 0%Q) in *. set (b := nth (n / 2) s 0%Q) in *.
    assert (E : ((a + b) / 2 == (a + b) * (1 # 2))%Q) by (unfold Qdiv; reflexivity).
    rewrite E in Hm. split.
    + pose proof (count_prefix (fun x => Qle_bool x m) s (n / 2) ltac:(fold n; lia)) as H.
      assert (n / 2 <= length (filter (fun x => Qle_bool x m) s))%nat.
      { apply H. intros i Hi. apply Qle_bool_iff.
        assert (nth i s 0 <= a)%Q by (apply sorted_nth_le; [assumption | fold n; lia]). lra. }
      lia.
    + pose proof (count_suffix (fun x => Qle_bool m x) s (n / 2) ltac:(fold n; lia)) as H.
      assert (n - n / 2 <= length (filter (fun x => Qle_bool m x) s))%nat.
      { apply H. intros i Hi. apply Qle_bool_iff.
        assert (b <= nth i s 0)%Q by (apply sorted_nth_le; [assumption | fold n; lia]). lra. }
      lia.
Qed.
