(* C03 -- proofs: the model of WinnerTakesAll.to_disp equals the per-pixel Spec, for every
   shape, every block size B >= 1, both measure types. *)
From Coq Require Import ZArith QArith List Bool Lia.
From Pandora Require Import Lib.Ext Lib.Blocks Model.Wta Spec.Wta.
Import ListNotations.

(* ------------------------------------------------------------ the order on costs *)

Lemma ext_leb_refl : forall a, ext_leb a a = true.
Proof. destruct a; cbn; auto. apply Qle_bool_iff, Qle_refl. Qed.

Lemma ext_leb_total : forall a b, ext_leb a b = true \/ ext_leb b a = true.
Proof.
  destruct a as [x| |], b as [y| |]; cbn; auto.
  destruct (Qle_bool x y) eqn:E; auto. right. apply Qle_bool_iff.
  assert (H : ~ (x <= y)%Q) by (rewrite <- Qle_bool_iff; congruence).
  apply Qlt_le_weak, Qnot_le_lt, H.
Qed.

Lemma ext_leb_trans : forall a b c, ext_leb a b = true -> ext_leb b c = true -> ext_leb a c = true.
Proof.
  destruct a, b, c; cbn; auto; try discriminate.
  rewrite !Qle_bool_iff. apply Qle_trans.
Qed.

Lemma le_dir_refl : forall mx a, le_dir mx a a = true.
Proof. destruct mx; cbn; apply ext_leb_refl. Qed.
Lemma le_dir_total : forall mx a b, le_dir mx a b = true \/ le_dir mx b a = true.
Proof. destruct mx; cbn; intros; apply ext_leb_total. Qed.
Lemma le_dir_trans : forall mx a b c, le_dir mx a b = true -> le_dir mx b c = true -> le_dir mx a c = true.
Proof. destruct mx; cbn; intros a b c H1 H2; eapply ext_leb_trans; eauto. Qed.

(* the substituted infinity is the worst possible value, and only itself is as bad *)
Lemma sub_inf_worst : forall mx e, le_dir mx e (sub_inf mx) = true.
Proof. destruct mx, e; reflexivity. Qed.
Lemma sub_inf_only : forall mx e, le_dir mx (sub_inf mx) e = true -> e = sub_inf mx.
Proof. destruct mx, e; cbn; intros; try discriminate; reflexivity. Qed.

(* ------------------------------------------------------------ np.argmin / np.argmax *)

Lemma arg_is_dir : forall mx : bool, (if mx then np_argmax else np_argmin)
                              = arg_first (fun x b => negb (le_dir mx b x)).
Proof. destruct mx; reflexivity. Qed.

Section ArgScan.
  Variable mx : bool.
  Variable d : ext.
  Let le := le_dir mx.
  Let better := fun x b : ext => negb (le b x).

  Definition arg_ok (l : list ext) (k : nat) : Prop :=
    (k < length l)%nat
    /\ (forall j, (j < length l)%nat -> le (nth k l d) (nth j l d) = true)
    /\ (forall j, (j < k)%nat -> le (nth j l d) (nth k l d) = false).

  Lemma arg_scan_spec : forall l pre besti bestv,
    (besti < length pre)%nat -> nth besti pre d = bestv ->
    (forall j, (j < length pre)%nat -> le bestv (nth j pre d) = true) ->
    (forall j, (j < besti)%nat -> le (nth j pre d) bestv = false) ->
    arg_ok (pre ++ l) (arg_scan better l (length pre) besti bestv).
  Proof.
    induction l as [|x r IH]; intros pre besti bestv Hb Hv Hmin Hfirst; cbn [arg_scan].
    - rewrite app_nil_r. subst bestv. unfold arg_ok. auto.
    - replace (pre ++ x :: r) with ((pre ++ [x]) ++ r) by (rewrite <- app_assoc; reflexivity).
      assert (Hlen : length (pre ++ [x]) = S (length pre)) by (rewrite app_length; cbn; lia).
      unfold better at 1. destruct (le bestv x) eqn:E; cbn [negb].
      + (* x does not replace the current best *)
        assert (G : arg_ok ((pre ++ [x]) ++ r) (arg_scan better r (length (pre ++ [x])) besti bestv)).
        { apply IH.
          * lia.
          * rewrite app_nth1 by lia. assumption.
          * intros j Hj. destruct (Nat.eq_dec j (length pre)) as [-> | Hne].
            -- rewrite app_nth2 by lia. rewrite Nat.sub_diag. cbn. assumption.
            -- rewrite app_nth1 by lia. apply Hmin. lia.
          * intros j Hj. rewrite app_nth1 by lia. apply Hfirst. assumption. }
        rewrite Hlen in G. exact G.
      + (* x is strictly better: it becomes the best, at index [length pre] *)
        assert (Hx : le x bestv = true).
        { destruct (le_dir_total mx x bestv) as [H | H]; [exact H | unfold le in E; congruence]. }
        assert (G : arg_ok ((pre ++ [x]) ++ r) (arg_scan better r (length (pre ++ [x])) (length pre) x)).
        { apply IH.
          * lia.
          * rewrite app_nth2 by lia. rewrite Nat.sub_diag. reflexivity.
          * intros j Hj. destruct (Nat.eq_dec j (length pre)) as [-> | Hne].
            -- rewrite app_nth2 by lia. rewrite Nat.sub_diag. cbn. apply le_dir_refl.
            -- rewrite app_nth1 by lia. eapply le_dir_trans; [exact Hx | apply Hmin; lia].
          * intros j Hj. rewrite app_nth1 by lia.
            destruct (le (nth j pre d) x) eqn:E2; [|reflexivity].
            assert (le bestv x = true) by (apply (le_dir_trans mx _ (nth j pre d)); [apply Hmin; lia | exact E2]).
            congruence. }
        rewrite Hlen in G. exact G.
  Qed.

  (* first index of the extremum *)
  Lemma arg_first_spec : forall l, l <> [] -> arg_ok l (arg_first better l).
  Proof.
    intros [|x r] Hne; [congruence|]. cbn [arg_first].
    apply (arg_scan_spec r [x] 0%nat x).
    - cbn; lia.
    - reflexivity.
    - intros j Hj. cbn in Hj. assert (j = 0)%nat by lia. subst. cbn. apply le_dir_refl.
    - intros j Hj. lia.
  Qed.
End ArgScan.

(* ------------------------------------------------------------ find on seq *)

Lemma find_seq_first : forall (P : nat -> bool) n a k,
  (a <= k < a + n)%nat -> P k = true -> (forall j, (a <= j < k)%nat -> P j = false) ->
  find P (seq a n) = Some k.
Proof.
  induction n; intros a k Hk HP Hfirst; [lia|]. cbn [seq find].
  destruct (Nat.eq_dec a k) as [-> | Hne].
  - rewrite HP. reflexivity.
  - rewrite (Hfirst a) by lia. apply IHn; [lia | assumption | intros; apply Hfirst; lia].
Qed.

Lemma find_seq_none : forall (P : nat -> bool) n a,
  (forall j, (a <= j < a + n)%nat -> P j = false) -> find P (seq a n) = None.
Proof.
  induction n; intros a H; [reflexivity|]. cbn [seq find].
  rewrite (H a) by lia. apply IHn. intros; apply H; lia.
Qed.

Lemma find_seq_some_inv : forall (P : nat -> bool) n a k,
  find P (seq a n) = Some k ->
  (a <= k < a + n)%nat /\ P k = true /\ (forall j, (a <= j < k)%nat -> P j = false).
Proof.
  induction n; intros a k H; [discriminate|]. cbn [seq find] in H.
  destruct (P a) eqn:E.
  - inversion H; subst. repeat split; try lia. assumption.
  - apply IHn in H. destruct H as (H1 & H2 & H3). repeat split; try lia; [assumption|].
    intros j Hj. destruct (Nat.eq_dec j a) as [-> | Hne]; [assumption | apply H3; lia].
Qed.

Lemma find_seq_none_inv : forall (P : nat -> bool) n a,
  find P (seq a n) = None -> forall j, (a <= j < a + n)%nat -> P j = false.
Proof.
  induction n; intros a H j Hj; [lia|]. cbn [seq find] in H.
  destruct (P a) eqn:E; [discriminate|].
  destruct (Nat.eq_dec j a) as [-> | Hne]; [assumption | eapply IHn; [exact H | lia]].
Qed.

(* ------------------------------------------------------------ one pixel *)

Lemma nth_some_lt : forall (A : Type) (l : list (option A)) k e, nth k l None = Some e -> (k < length l)%nat.
Proof.
  intros A l k e H. destruct (lt_dec k (length l)); [assumption|].
  rewrite nth_overflow in H by lia. discriminate.
Qed.

Lemma all_nan_iff : forall costs : list cost,
  forallb (fun b : bool => b) (map is_nan costs) = true <-> (forall c, In c costs -> c = None).
Proof.
  induction costs as [|a r IH]; cbn [map forallb].
  - split; [intros _ c [] | reflexivity].
  - rewrite andb_true_iff, IH. split.
    + intros [Ha Hr] c [<- | Hin]; [destruct a; [discriminate | reflexivity] | auto].
    + intros H. split; [rewrite (H a) by (left; reflexivity); reflexivity | intros c Hc; apply H; right; exact Hc].
Qed.

(* the guard of the main theorem: the pixel holds no cost equal to the infinity that
   to_disp substitutes for NaN (+inf for min-type, -inf for max-type measures) *)
Definition no_subst_inf (mx : bool) (costs : list cost) : Prop :=
  forall c, In c costs -> c <> Some (sub_inf mx).

Lemma winner_true : forall mx costs k,
  winner mx costs k = true <->
  exists e, nth k costs None = Some e /\ forall j e', nth j costs None = Some e' -> le_dir mx e e' = true.
Proof.
  intros mx costs k. unfold winner. destruct (nth k costs None) as [e|] eqn:E.
  - rewrite forallb_forall. split.
    + intros H. exists e. split; [reflexivity|]. intros j e' Hj.
      assert (Hin : In (Some e') costs).
      { rewrite <- Hj. apply nth_In. eapply nth_some_lt; eassumption. }
      apply (H _ Hin).
    + intros (e0 & He0 & H) c Hin. inversion He0; subst e0.
      destruct c as [e'|]; [|reflexivity].
      destruct (In_nth _ _ None Hin) as (j & _ & Hj). eapply H; eassumption.
  - split; [discriminate | intros (e & He & _); discriminate].
Qed.

Lemma pixel_eq_spec : forall mx disps invalid costs,
  costs <> [] -> no_subst_inf mx costs ->
  (if forallb (fun b : bool => b) (map is_nan costs) then invalid
   else Some (nth ((if mx then np_argmax else np_argmin) (map (subst mx) costs)) disps 0%Q))
  = wta_pixel mx disps invalid costs.
Proof.
  intros mx disps invalid costs Hne Hguard. unfold wta_pixel, best.
  destruct (forallb (fun b : bool => b) (map is_nan costs)) eqn:E.
  - (* no computable cost *)
    rewrite all_nan_iff in E.
    rewrite find_seq_none; [reflexivity|].
    intros j Hj. unfold winner.
    rewrite (E (nth j costs None)); [reflexivity | apply nth_In; lia].
  - (* some computable cost *)
    assert (Hex : exists j0 e0, nth j0 costs None = Some e0).
    { destruct (existsb (fun c : cost => negb (is_nan c)) costs) eqn:Ex.
      - apply existsb_exists in Ex. destruct Ex as (c & Hin & Hc).
        destruct c as [e0|]; [|discriminate].
        destruct (In_nth _ _ None Hin) as (j0 & _ & Hj0). eauto.
      - exfalso. assert (forallb (fun b : bool => b) (map is_nan costs) = true); [|congruence].
        apply all_nan_iff. intros c Hin. destruct c as [e0|]; [|reflexivity].
        assert (existsb (fun c : cost => negb (is_nan c)) costs = true); [|congruence].
        apply existsb_exists. exists (Some e0). split; [assumption | reflexivity]. }
    destruct Hex as (j0 & e0 & Hj0).
    rewrite arg_is_dir.
    set (L := map (subst mx) costs).
    assert (HL : L <> []) by (unfold L; destruct costs; [congruence | discriminate]).
    destruct (arg_first_spec mx (subst mx None) L HL) as (Hk & Hmin & Hfirst).
    set (k := arg_first (fun x b => negb (le_dir mx b x)) L) in *.
    assert (Hlen : length L = length costs) by (unfold L; apply map_length).
    assert (Hnth : forall j, nth j L (subst mx None) = subst mx (nth j costs None))
      by (intros; unfold L; apply map_nth).
    (* the winner's cost is computable *)
    assert (Hke : exists e, nth k costs None = Some e).
    { destruct (nth k costs None) as [e|] eqn:Ek; [eauto|]. exfalso.
      assert (Hj0lt : (j0 < length L)%nat) by (rewrite Hlen; eapply nth_some_lt; eassumption).
      specialize (Hmin j0 Hj0lt). rewrite !Hnth, Ek, Hj0 in Hmin. cbn [subst] in Hmin.
      apply sub_inf_only in Hmin. subst e0.
      apply (Hguard (Some (sub_inf mx))); [|reflexivity].
      rewrite <- Hj0. apply nth_In. rewrite <- Hlen. assumption. }
    destruct Hke as (e & Hke).
    rewrite (find_seq_first _ _ 0%nat k); [reflexivity | lia | |].
    + apply winner_true. exists e. split; [assumption|]. intros j e' Hj.
      assert (Hjlt : (j < length L)%nat) by (rewrite Hlen; eapply nth_some_lt; eassumption).
      specialize (Hmin j Hjlt). rewrite !Hnth, Hke, Hj in Hmin. exact Hmin.
    + intros j [_ Hj]. destruct (winner mx costs j) eqn:W; [|reflexivity]. exfalso.
      apply winner_true in W. destruct W as (e' & He' & Hall).
      specialize (Hall k e Hke). specialize (Hfirst j Hj).
      rewrite !Hnth, Hke, He' in Hfirst. cbn [subst] in Hfirst. congruence.
Qed.

(* ------------------------------------------------------------ the whole map *)

Lemma restore_subst : forall mx (l : list cost), restore (map is_nan l) (map (subst mx) l) = l.
Proof.
  induction l as [|a r IH]; [reflexivity|]. unfold restore in *. cbn [map combine].
  rewrite IH. destruct a; reflexivity.
Qed.

Lemma wta_cv_unchanged_all : forall mx B nr nc disps invalid cv conf mask r c,
  o_cv (to_disp mx B nr nc disps invalid cv conf mask) r c = cv r c.
Proof. intros. cbn [to_disp o_cv]. apply restore_subst. Qed.

Lemma wta_eq_spec_all : forall mx B nr nc disps invalid cv conf mask r c,
  (1 <= B)%Z -> (0 <= r < nr)%Z -> (0 <= c < nc)%Z ->
  cv r c <> [] -> no_subst_inf mx (cv r c) ->
  o_disp (to_disp mx B nr nc disps invalid cv conf mask) r c = wta_pixel mx disps invalid (cv r c).
Proof.
  intros mx B nr nc disps invalid cv conf mask r c HB Hr Hc Hne Hg.
  cbn [to_disp o_disp]. rewrite loop2_spec by lia.
  replace ((0 <=? r)%Z && (r <? 0 + nr)%Z && (0 <=? c)%Z && (c <? 0 + nc)%Z) with true.
  2:{ symmetry. rewrite !andb_true_iff. repeat split;
      [apply Z.leb_le | apply Z.ltb_lt | apply Z.leb_le | apply Z.ltb_lt]; lia. }
  rewrite !Z.sub_0_r. apply pixel_eq_spec; assumption.
Qed.

Lemma wta_block_independent_all : forall mx B B' nr nc disps invalid cv conf mask r c,
  (1 <= B)%Z -> (1 <= B')%Z -> (0 <= nr)%Z -> (0 <= nc)%Z ->
  o_disp (to_disp mx B nr nc disps invalid cv conf mask) r c
  = o_disp (to_disp mx B' nr nc disps invalid cv conf mask) r c.
Proof.
  intros. cbn [to_disp o_disp].
  rewrite (loop2_block_independent _ _ B B' nr nc nr nc) by assumption. reflexivity.
Qed.

(* ------------------------------------------------------------ declarative reading of the Spec *)

Lemma computable_nth : forall costs j e, computable costs j e <-> nth j costs None = Some e.
Proof.
  intros costs j e. unfold computable. split.
  - intros H. apply (nth_error_nth _ _ None) in H. exact H.
  - intros H. pose proof (nth_some_lt _ _ _ _ H) as Hlt.
    rewrite (@nth_error_nth' cost costs j None Hlt). rewrite H. reflexivity.
Qed.

(* what [wta_pixel] returns, in the words of the property *)
Lemma wta_pixel_char : forall mx disps invalid costs,
  (no_computable costs /\ wta_pixel mx disps invalid costs = invalid)
  \/ (exists k e, (k < length costs)%nat /\ computable costs k e
        /\ wta_pixel mx disps invalid costs = Some (nth k disps 0%Q)
        /\ (forall j e', computable costs j e' -> le_dir mx e e' = true)
        /\ (forall j e', computable costs j e' -> le_dir mx e' e = true -> (k <= j)%nat)).
Proof.
  intros mx disps invalid costs. unfold wta_pixel, best.
  destruct (find (winner mx costs) (seq 0 (length costs))) as [k|] eqn:F.
  - right. apply find_seq_some_inv in F. destruct F as (Hk & Hw & Hfirst).
    apply winner_true in Hw. destruct Hw as (e & He & Hall).
    exists k, e. split; [lia|]. split; [apply computable_nth; assumption|]. split; [reflexivity|]. split.
    + intros j e' Hj. apply computable_nth in Hj. eapply Hall; eassumption.
    + intros j e' Hj Hle. apply computable_nth in Hj.
      destruct (le_lt_dec k j) as [|Hlt]; [assumption|]. exfalso.
      assert (W : winner mx costs j = true).
      { apply winner_true. exists e'. split; [assumption|]. intros j2 e2 Hj2.
        eapply le_dir_trans; [exact Hle | eapply Hall; eassumption]. }
      rewrite Hfirst in W by lia. discriminate.
  - left. split; [|reflexivity]. intros j e Hj. apply computable_nth in Hj.
    pose proof (nth_some_lt _ _ _ _ Hj) as Hlt.
    pose proof (find_seq_none_inv _ _ _ F j) as Hn.
    (* a computable cost exists, so some index is a winner: contradiction with [find = None].
       Take the first extremum of the computable costs via totality: we use the model-free
       argument that the set of winners is non-empty by induction on the list. *)
    assert (Hex : exists k, (k < length costs)%nat /\ winner mx costs k = true).
    { clear - Hj Hlt.
      (* strengthen: for every prefix bound n there is an index below [length costs] whose cost is
         computable and at least as good as every computable cost of index < n *)
      assert (G : forall n, (n <= length costs)%nat ->
                exists k e0, nth k costs None = Some e0 /\
                  forall j' e', (j' < n)%nat -> nth j' costs None = Some e' -> le_dir mx e0 e' = true).
      { induction n as [|n IHn]; intros Hn.
        - exists j, e. split; [assumption|]. intros; lia.
        - destruct IHn as (k & e0 & Hk & Hall); [lia|].
          destruct (nth n costs None) as [en|] eqn:En.
          + destruct (le_dir mx e0 en) eqn:Le.
            * exists k, e0. split; [assumption|]. intros j' e' Hj' He'.
              destruct (Nat.eq_dec j' n) as [-> | Hne]; [congruence | apply (Hall j'); [lia | assumption]].
            * assert (Hen : le_dir mx en e0 = true)
                by (destruct (le_dir_total mx en e0); [assumption | congruence]).
              exists n, en. split; [assumption|]. intros j' e' Hj' He'.
              destruct (Nat.eq_dec j' n) as [-> | Hne].
              -- rewrite En in He'. inversion He'; subst. apply le_dir_refl.
              -- eapply le_dir_trans; [exact Hen | apply (Hall j'); [lia | assumption]].
          + exists k, e0. split; [assumption|]. intros j' e' Hj' He'.
            destruct (Nat.eq_dec j' n) as [-> | Hne]; [congruence | apply (Hall j'); [lia | assumption]]. }
      destruct (G (length costs) (le_n _)) as (k & e0 & Hk & Hall).
      exists k. split; [eapply nth_some_lt; eassumption|].
      apply winner_true. exists e0. split; [assumption|]. intros j' e' He'.
      apply (Hall j'); [eapply nth_some_lt; eassumption | assumption]. }
    destruct Hex as (k & Hk & Hw). rewrite (find_seq_none_inv _ _ _ F k) in Hw by lia. discriminate.
Qed.

(* ------------------------------------------------------------ the property, clause by clause *)

Section Clauses.
  Variables (mx : bool) (B nr nc : Z) (disps : list Q) (invalid : option Q).
  Variables (cv : Z -> Z -> list cost) (conf : Z -> Z -> list (option Q)) (mask : Z -> Z -> Z).
  Variables (r c : Z).
  Hypothesis HB : (1 <= B)%Z.
  Hypothesis Hr : (0 <= r < nr)%Z.
  Hypothesis Hc : (0 <= c < nc)%Z.
  Hypothesis Hne : cv r c <> [].
  Hypothesis Hg : no_subst_inf mx (cv r c).

  Let out := o_disp (to_disp mx B nr nc disps invalid cv conf mask) r c.

  Lemma wta_char_all :
    (no_computable (cv r c) /\ out = invalid)
    \/ (exists k e, (k < length (cv r c))%nat /\ computable (cv r c) k e
          /\ out = Some (nth k disps 0%Q)
          /\ (forall j e', computable (cv r c) j e' -> le_dir mx e e' = true)
          /\ (forall j e', computable (cv r c) j e' -> le_dir mx e' e = true -> (k <= j)%nat)).
  Proof.
    unfold out. rewrite wta_eq_spec_all by assumption. apply wta_pixel_char.
  Qed.

  Lemma wta_invalid_all : no_computable (cv r c) -> out = invalid.
  Proof.
    intros Hn. destruct wta_char_all as [[_ H] | (k & e & _ & Hk & _)]; [exact H | exfalso; eapply Hn; eassumption].
  Qed.

  Lemma wta_winner_all : forall j0 e0, computable (cv r c) j0 e0 ->
    exists k e, (k < length (cv r c))%nat /\ computable (cv r c) k e
          /\ out = Some (nth k disps 0%Q)
          /\ (forall j e', computable (cv r c) j e' -> le_dir mx e e' = true)
          /\ (forall j e', computable (cv r c) j e' -> le_dir mx e' e = true -> (k <= j)%nat).
  Proof.
    intros j0 e0 H0. destruct wta_char_all as [[Hn _] | H]; [exfalso; eapply Hn; eassumption | exact H].
  Qed.

  Lemma wta_is_sample_all : forall j0 e0, computable (cv r c) j0 e0 ->
    length disps = length (cv r c) ->
    exists d, In d disps /\ out = Some d.
  Proof.
    intros j0 e0 H0 Hlen. destruct (wta_winner_all j0 e0 H0) as (k & e & Hk & _ & Ho & _).
    exists (nth k disps 0%Q). split; [apply nth_In; lia | exact Ho].
  Qed.

  (* "inside the pixel's requested interval": costs outside [lo, hi] are NaN (C02 masking) *)
  Lemma wta_within_interval_all : forall (lo hi : Q),
    (forall k, (k < length (cv r c))%nat -> ~ (lo <= nth k disps 0 /\ nth k disps 0 <= hi)%Q ->
               nth_error (cv r c) k = Some None) ->
    forall j0 e0, computable (cv r c) j0 e0 ->
    exists d, out = Some d /\ (lo <= d)%Q /\ (d <= hi)%Q.
  Proof.
    intros lo hi Hmask j0 e0 H0. destruct (wta_winner_all j0 e0 H0) as (k & e & Hk & Hke & Ho & _).
    exists (nth k disps 0%Q). split; [exact Ho|].
    destruct (Qlt_le_dec (nth k disps 0%Q) lo) as [H1 | H1].
    - exfalso. unfold computable in Hke. rewrite Hmask in Hke; [discriminate | assumption |].
      intros [H _]. apply (Qlt_not_le _ _ H1 H).
    - destruct (Qlt_le_dec hi (nth k disps 0%Q)) as [H2 | H2]; [|auto].
      exfalso. unfold computable in Hke. rewrite Hmask in Hke; [discriminate | assumption |].
      intros [_ H]. apply (Qlt_not_le _ _ H2 H).
  Qed.
End Clauses.

(* without the guard the equation fails: costs [NaN; +inf] of a min-type measure.  to_disp
   answers disparity 0 (whose cost is NaN), the Spec answers disparity 1 *)
Lemma subst_inf_witness :
  let cv := fun (_ _ : Z) => [None; Some PInf] in
  o_disp (to_disp false 100 1 1 [0%Q; 1%Q] None cv (fun _ _ => []) (fun _ _ => 0%Z)) 0%Z 0%Z = Some 0%Q
  /\ wta_pixel false [0%Q; 1%Q] None (cv 0%Z 0%Z) = Some 1%Q.
Proof. vm_compute. split; reflexivity. Qed.
