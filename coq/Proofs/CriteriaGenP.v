(* C04, T-gen -- the functions of pandora/criteria.py translated statement by statement into Gen/CriteriaFns.v
   (numpy combinators of Lib/NpCrit.v) compute, on EVERY input, element by element, what the hand-written model
   Model/Criteria.v computes, and never raise (err = false):

     g_binary_dilation_msk                       = dil
     g_allocate_left_mask                        = alloc_left
     g_allocate_right_mask (the loop over dsp)   = alloc_right (fold of arm_step)
     g_validity_mask                             = validity_mask_px
     g_mask_invalid_variable_disparity_range     = mivdr
     g_mask_border                               = mask_border_px

   for every layout (image size, window, global interval, masks and their conventions) and every origin
   (r0, c0) of the row / col coordinates of the datasets (ROI: the code compares col COORDINATES, the model
   positions; they agree because the coordinates are consecutive).  The flag writes of the model are read in
   the regenerated site list (Gen/Flags.v): these lemmas are re-checked against BOTH regenerated files at every run. *)
From Coq Require Import ZArith List Bool Lia ZifyBool.
From Pandora Require Import Lib.NpCrit Model.Criteria Proofs.NpCritP Gen.Flags Gen.CriteriaFns.
Import ListNotations.
Open Scope Z_scope.

Definition Eg : env := mkEnv consts flag_sites.

(* ------------------------------------------------------------------ the inputs *)
(* consecutive coordinates starting at lo *)
Definition coords (lo n : Z) : vec Z := mkV false n (fun j => lo + j).
Definition mat_of (n m : Z) (f : Z -> Z -> Z) : imat := mkM false n m f.
Definition img_of (has : bool) (n m r0 c0 : Z) (f : Z -> Z -> Z) (ndv vlv : Z) : imgrec :=
  mkImg has (mat_of n m f) (coords r0 n) (coords c0 m) ndv vlv.
(* the cost-volume dataset of a layout: coordinates starting at (r0, c0), disp from dmin to dmax, window 2*off+1 *)
Definition cv_of (L : layout) (r0 c0 : Z) (Q : cube) : cvrec :=
  mkCv (coords r0 (nr L)) (coords c0 (nc L)) (dmin L) (dmax L) (off L) (2 * off L + 1) Q.
Definition imgl_of (L : layout) (r0 c0 : Z) : imgrec := img_of (lhas L) (nr L) (nc L) r0 c0 (lm L) (l_nd L) (l_vl L).
Definition imgr_of (L : layout) (r0 c0 : Z) : imgrec := img_of (rhas L) (nr L) (nc L) r0 c0 (rm L) (r_nd L) (r_vl L).

(* a well-formed array of the layout's shape *)
Definition okm (L : layout) (X : imat) : Prop := m_err X = false /\ m_nr X = nr L /\ m_nc X = nc L.

(* ------------------------------------------------------------------ the flag writes of the regenerated site list *)
Lemma fire_Eg :
  (forall m, fire Eg R_vm_init m true = 0)
  /\ (forall m, fire Eg R_vm_b2neg m true = m + consts K_RIGHT_INCOMPLETE_DISPARITY_RANGE)
  /\ (forall m, fire Eg R_vm_b2pos m true = m + consts K_RIGHT_INCOMPLETE_DISPARITY_RANGE)
  /\ (forall m, fire Eg R_vm_b2zero m true = m + consts K_RIGHT_INCOMPLETE_DISPARITY_RANGE)
  /\ (forall m, fire Eg R_vm_b1 m true = m + consts K_RIGHT_NODATA_OR_DISPARITY_RANGE_MISSING)
  /\ (forall m b, fire Eg R_l_nodata m b = m + (if b then 1 else 0) mod 65536 * consts K_LEFT_NODATA_OR_BORDER)
  /\ (forall m b, fire Eg R_l_invalid m b = m + (if b then consts K_IN_VALIDITY_MASK_LEFT else 0) mod 65536)
  /\ (forall m, fire Eg R_r_b27 m true = m + consts K_IN_VALIDITY_MASK_RIGHT)
  /\ (forall m, fire Eg R_r_nodata m true = m + consts K_RIGHT_NODATA_OR_DISPARITY_RANGE_MISSING)
  /\ (forall m, fire Eg R_mivdr m true = m + consts K_RIGHT_NODATA_OR_DISPARITY_RANGE_MISSING)
  /\ (forall m, fire Eg R_bord_top m true = consts K_LEFT_NODATA_OR_BORDER)
  /\ (forall m, fire Eg R_bord_bot m true = consts K_LEFT_NODATA_OR_BORDER)
  /\ (forall m, fire Eg R_bord_left m true = consts K_LEFT_NODATA_OR_BORDER)
  /\ (forall m, fire Eg R_bord_right m true = consts K_LEFT_NODATA_OR_BORDER).
Proof.
  repeat split; intros; try (destruct b); try reflexivity;
    unfold fire; cbn; try reflexivity; lia.
Qed.

(* ------------------------------------------------------------------ ranges of the model = ranges of the library *)
Lemma upto__zseq : forall n lo, upto_ lo n = zseq lo n.
Proof. induction n; intros; cbn; [reflexivity | now rewrite IHn]. Qed.

Lemma irange_zrange : forall lo hi, irange lo hi = zrange lo hi.
Proof. intros. unfold irange, zrange. apply upto__zseq. Qed.

Lemma py_range_zrange : forall lo hi, py_range lo (hi + 1) = zrange lo hi.
Proof. intros. unfold py_range, zrange. rewrite upto__zseq. f_equal. lia. Qed.

(* ------------------------------------------------------------------ binary_dilation_msk *)
Section Fns.
  Variables (L : layout) (r0 c0 : Z) (Q : cube).
  Hypothesis Hoff : 0 <= off L.
  Hypothesis Hnr : 0 <= nr L.
  Hypothesis Hnc : 0 < nc L.
  Hypothesis Hd : dmin L <= dmax L.
  Let cv := cv_of L r0 c0 Q.

  Lemma gen_dilation : forall has f ndv vlv,
    let D := g_binary_dilation_msk consts (img_of has (nr L) (nc L) r0 c0 f ndv vlv) (cv_window_size cv) in
    b_err D = false /\ b_nr D = nr L /\ b_nc D = nc L /\ forall r c, b_at D r c = dil L f ndv r c.
  Proof.
    intros has f ndv vlv. cbv zeta. unfold g_binary_dilation_msk, scipy_binary_dilation_ones, np_eq_ms, cv, cv_of, img_of, mat_of.
    cbn [b_err b_nr b_nc b_at m_err m_nr m_nc m_at i_msk i_no_data_mask cv_window_size].
    assert (Hw : (2 * off L + 1 - 1) / 2 = off L) by (replace (2 * off L + 1 - 1) with (off L * 2) by lia; apply Z.div_mul; lia).
    rewrite Hw. split; [|split; [reflexivity | split; [reflexivity|]]].
    - replace (Z.odd (2 * off L + 1)) with true by (symmetry; rewrite Z.add_comm, Z.odd_add_mul_2; reflexivity).
      cbn [orb negb]. lia.
    - intros r c. unfold dil. rewrite !irange_zrange. reflexivity.
  Qed.

  (* ---------------------------------------------------------------- allocate_left_mask *)
  Lemma align_same : forall has f ndv vlv,
    xr_align_snd cv (img_of has (nr L) (nc L) r0 c0 f ndv vlv) = mat_of (nr L) (nc L) f.
  Proof.
    intros. unfold xr_align_snd, cv, cv_of, img_of, mat_of. cbn [i_msk i_row i_col cv_row cv_col m_err m_nr m_nc m_at].
    assert (Hv : forall lo n, veqb (coords lo n) (coords lo n) = true).
    { intros lo n. unfold veqb, coords. cbn [v_err v_len v_at]. rewrite Z.eqb_refl. cbn.
      apply forallb_forall. intros k _. apply Z.eqb_refl. }
    rewrite !Hv. unfold coords. cbn [v_len]. rewrite !Z.eqb_refl. reflexivity.
  Qed.

  Lemma gen_left : forall X, okm L X ->
    let Y := g_allocate_left_mask consts cv X (imgl_of L r0 c0) in
    okm L Y /\ forall r c, m_at Y r c = alloc_left Eg L (m_at X r c) r c.
  Proof.
    intros X (Xe & Xr & Xc). cbv zeta. unfold g_allocate_left_mask, imgl_of. cbv zeta. rewrite align_same.
    destruct (gen_dilation (lhas L) (lm L) (l_nd L) (l_vl L)) as (De & Dr & Dc & Da). cbv zeta in De, Dr, Dc, Da.
    set (D := g_binary_dilation_msk consts _ _) in *.
    unfold np_iadd_mm, np_mul_ms, np_astype_u16, np_b2i, np_where_mss, np_and_mm, np_ne_ms, same_shape_mm, same_shape_bb, okm, mat_of, img_of.
    cbn [m_err m_nr m_nc m_at b_err b_nr b_nc b_at i_no_data_mask i_valid_pixels].
    rewrite Xe, De, Xr, Xc, Dr, Dc, !Z.eqb_refl. cbn [orb andb negb]. repeat split; try assumption.
    intros r c. rewrite Da. unfold alloc_left, isinv.
    destruct fire_Eg as (_ & _ & _ & _ & _ & F1 & F2 & _). rewrite F1, F2. reflexivity.
  Qed.

  (* ---------------------------------------------------------------- mask_border *)
  Lemma gen_border : forall X, okm L X ->
    let Y := g_mask_border consts cv X in
    okm L Y /\ forall r c, 0 <= r < nr L -> 0 <= c < nc L -> m_at Y r c = mask_border_px Eg L r c (m_at X r c).
  Proof.
    intros X (Xe & Xr & Xc). cbv zeta. unfold g_mask_border, np_setslice2_c, okm. cbv zeta.
    cbn [m_err m_nr m_nc m_at cv cv_of cv_offset]. repeat split; try assumption.
    intros r c Hr Hc. unfold mask_border_px. cbv zeta.
    destruct fire_Eg as (_ & _ & _ & _ & _ & _ & _ & _ & _ & _ & F1 & F2 & F3 & F4). rewrite F1, F2, F3, F4.
    unfold in_slice, sl_bound, in_sl, py_idx. rewrite Xr, Xc.
    destruct (off L <? 0) eqn:?; [lia|]. destruct (- off L <? 0) eqn:?.
    all: repeat match goal with |- context [if ?b then _ else _] =>
      lazymatch b with context [if _ then _ else _] => fail | _ => destruct b eqn:? end end;
      try reflexivity; lia.
  Qed.

  (* ---------------------------------------------------------------- mask_invalid_variable_disparity_range *)
  (* every cost of the pixel is NaN, as np.min(np.isnan(cost_volume), axis=2) computes it *)
  Definition allnan_of (r c : Z) : bool := forallb (q_nan Q r c) (upto (q_nd Q)).

  Lemma gen_mivdr : forall X, okm L X -> q_err Q = false -> q_nr Q = nr L -> q_nc Q = nc L -> 0 < q_nd Q ->
    let Y := g_mask_invalid_variable_disparity_range consts cv X in
    okm L Y /\ forall r c, 0 <= r < nr L -> 0 <= c < nc L -> m_at Y r c = mivdr Eg (allnan_of r c) (m_at X r c).
  Proof.
    intros X (Xe & Xr & Xc) Qe Qr Qc Qd. cbv zeta. unfold g_mask_invalid_variable_disparity_range. cbv zeta.
    unfold np_isnan3. cbn [cv cv_of cv_cost_volume].
    set (M := np_min_axis2 Q). set (I := np_where2 M).
    assert (Me : b_err M = false) by (unfold M, np_min_axis2; cbn [b_err]; rewrite Qe; lia).
    assert (Ie : v_err I = false) by exact Me.
    assert (Iin : forall p, In p (v_to_list I) -> in_mat X p = true).
    { intros [r c] Hp. apply where2_In in Hp. unfold in_mat, M, np_min_axis2 in *. cbn [b_nr b_nc fst snd] in *. lia. }
    assert (Iall : forallb (in_mat X) (v_to_list I) = true) by (apply forallb_forall; exact Iin).
    assert (Ind : nodupb2 (v_to_list I) = true) by (apply nodupb2_NoDup, where2_NoDup).
    unfold np_put2, np_where_vvv, np_eq_vs, np_land_vs, np_add_vs, np_take2, v_map, okm.
    cbn [m_err m_nr m_nc m_at v_err v_len v_at].
    rewrite Xe, Ie, Iall, !Z.eqb_refl, Ind. cbn [orb negb].
    repeat split; try assumption.
    intros r c Hr Hc. unfold mivdr. cbn [Eg e_const].
    destruct fire_Eg as (_ & _ & _ & _ & _ & _ & _ & _ & _ & F & _). rewrite F.
    destruct (pos_of2_cases (r, c) I) as [(k & -> & Hk & Hat & Hin) | (-> & Hn)].
    - rewrite Hat. cbn [fst snd]. apply where2_In in Hin as (_ & _ & Hb).
      unfold allnan_of. unfold M, np_min_axis2 in Hb. cbn [b_at] in Hb. rewrite Hb. reflexivity.
    - assert (Hb : allnan_of r c = false).
      { destruct (allnan_of r c) eqn:Ha; [|reflexivity]. exfalso. apply Hn. apply where2_In.
        unfold M, np_min_axis2. cbn [b_nr b_nc b_at]. repeat split; try lia. exact Ha. }
      rewrite Hb. reflexivity.
  Qed.

  (* ---------------------------------------------------------------- allocate_right_mask *)
  Definition proj3 (S : imat * imat * imat) (r c : Z) : Z * Z * Z :=
    (m_at (fst (fst S)) r c, m_at (snd (fst S)) r c, m_at (snd S) r c).
  Definition inv3 (S : imat * imat * imat) : Prop := okm L (fst (fst S)) /\ okm L (snd (fst S)) /\ okm L (snd S).

  Lemma gen_right : forall X bit1, okm L X -> idx_cols_bad (nc L) bit1 = false ->
    (forall c, 0 <= c < nc L -> vmem c bit1 = bit1_col L c) ->
    let Y := g_allocate_right_mask consts cv X (imgr_of L r0 c0) bit1 in
    okm L Y /\ forall r c, 0 <= r < nr L -> 0 <= c < nc L -> m_at Y r c = alloc_right Eg L (m_at X r c) r c.
  Proof.
    intros X bit1 HX Hb1 Hb1c. assert (Hnc0 : 0 <= nc L) by lia. cbv zeta. unfold g_allocate_right_mask, imgr_of. cbv zeta. rewrite align_same.
    destruct (gen_dilation (rhas L) (rm L) (r_nd L) (r_vl L)) as (De & Dr & Dc & Da). cbv zeta in De, Dr, Dc, Da.
    set (D := g_binary_dilation_msk consts _ _) in *.
    set (RM := np_where_mss _ 1 0).
    assert (RMe : m_err RM = false /\ m_nr RM = nr L /\ m_nc RM = nc L
                  /\ forall r c, m_at RM r c = if isinv (rm L) (r_nd L) (r_vl L) r c then 1 else 0).
    { unfold RM, np_where_mss, np_and_mm, np_ne_ms, same_shape_bb, mat_of, img_of.
      cbn [m_err m_nr m_nc m_at b_err b_nr b_nc b_at i_no_data_mask i_valid_pixels]. rewrite !Z.eqb_refl. repeat split. }
    destruct RMe as (RMe & RMr & RMc & RMa). clearbody RM.
    cbn [cv cv_of cv_offset cv_disp_first cv_disp_last cv_size_row cv_size_col cv_row cv_col coords v_len].
    rewrite py_range_zrange.
    match goal with |- context [fold_left ?f _ _] => set (step := f) end.
    assert (Hstep : forall S dsp, inv3 S -> inv3 (step S dsp) /\
              forall r c, 0 <= r < nr L -> 0 <= c < nc L -> proj3 (step S dsp) r c = arm_step Eg L r c (proj3 S r c) dsp).
    { intros [[B N] V] dsp HS. unfold inv3, okm in HS. cbn [fst snd] in HS.
      destruct HS as ((Be & Br & Bc) & (Ne & Nr & Nc) & (Ve & Vr & Vc)). unfold step. clear step. cbv beta iota zeta.
      set (colr := np_arange (nc L)).
      set (bv := np_and_vv _ _).
      set (W := v_guard _ (np_where1 bv)).
      assert (Hbv : v_err bv = false /\ v_len bv = nc L /\
                    forall j, v_at bv j = (j + dsp >=? 0 + off L) && (j + dsp <=? last_col L - off L)).
      { unfold bv, np_and_vv, v_map2, np_ge_vs, np_le_vs, np_add_vs, v_map, np_item, colr, np_arange, py_idx1, last_col.
        cbn [v_err v_len v_at]. rewrite Z.eqb_refl. repeat split; try lia.
        intro j. replace (-1 <? 0) with true by reflexivity. replace (0 <? 0) with false by reflexivity. lia. }
      destruct Hbv as (bve & bvl & bva).
      assert (HW : is_sel W (v_at bv) (nc L)).
      { unfold W. apply guard_is_sel.
        - unfold all_ok, np_item_ok, colr, np_arange. cbn [forallb v_err v_len]. lia.
        - rewrite <- bvl. now apply where1_is_sel. }
      clearbody W.
      pose proof (take_shift_sel W (v_at bv) (nc L) dsp Hnc0 HW) as (B1e & B1l & B1a).
      fold colr in B1e, B1l, B1a. set (B1 := np_take (np_add_vs colr dsp) W) in *.
      assert (B1r : forall k, 0 <= k < v_len B1 -> (0 <=? v_at B1 k) && (v_at B1 k <? nc L) = true).
      { intros k Hk. rewrite B1l in Hk. rewrite B1a by exact Hk.
        destruct (sel_elems W _ _ k HW Hk) as [H1 H2]. rewrite bva in H2. unfold last_col in H2. clear - H1 H2 Hoff. lia. }
      (* the two counters *)
      pose proof (counter_update B W (v_at bv) (nc L) (np_astype_u16 (np_cols RM B1))
                    (fun r j => m_at RM r (j + dsp) mod 65536) bit1 Hnc0 Be Bc HW) as H7.
      pose proof (counter_update N W (v_at bv) (nc L) (np_b2i (np_colsb D B1))
                    (fun r j => if b_at D r (j + dsp) then 1 else 0) bit1 Hnc0 Ne Nc HW) as Hn.
      cbv zeta in H7, Hn. fold colr in H7, Hn.
      destruct H7 as (B3e & B3r & B3c & B3a).
      { unfold np_astype_u16, np_cols. cbn [m_err]. rewrite RMe, B1e, RMc. cbn [orb].
        rewrite (forallb_to_list _ _ B1 B1r). reflexivity. }
      { unfold np_astype_u16, np_cols. cbn [m_nr]. now rewrite RMr, Br. }
      { unfold np_astype_u16, np_cols. cbn [m_nc]. exact B1l. }
      { intros r k Hk. unfold np_astype_u16, np_cols. cbn [m_at]. rewrite B1a by exact Hk. reflexivity. }
      { exact Hb1. }
      destruct Hn as (N3e & N3r & N3c & N3a).
      { unfold np_b2i, np_colsb. cbn [m_err b_err]. rewrite De, B1e, Dc. cbn [orb].
        rewrite (forallb_to_list _ _ B1 B1r). reflexivity. }
      { unfold np_b2i, np_colsb. cbn [m_nr b_nr]. now rewrite Dr, Nr. }
      { unfold np_b2i, np_colsb. cbn [m_nc b_nc]. exact B1l. }
      { intros r k Hk. unfold np_b2i, np_colsb. cbn [m_at b_at]. rewrite B1a by exact Hk. reflexivity. }
      { exact Hb1. }
      set (B3 := np_cols_set_c _ (np_tuple_get0 bit1) 0) in *.
      set (N3 := np_cols_set_c _ (np_tuple_get0 bit1) 0) in *.
      clearbody B3 N3.
      split.
      - unfold inv3, okm, np_iadd_where, np_eq_ms, same_shape_mb. cbn [fst snd m_err m_nr m_nc b_err b_nr b_nc].
        rewrite Ve, B3e, N3e, B3r, N3r, B3c, N3c, Br, Nr, Vr, Vc, !Z.eqb_refl. cbn. repeat split; assumption.
      - intros r c Hr Hc. unfold proj3, arm_step, np_iadd_where, np_eq_ms. cbn [fst snd m_at b_at].
        rewrite B3a, N3a by exact Hc. rewrite (Hb1c c Hc), bva, RMa, Da.
        destruct fire_Eg as (_ & _ & _ & _ & _ & _ & _ & F1 & F2 & _). rewrite F1, F2.
        replace (py_len_range (dmin L) (dmax L + 1)) with (range_len L) by (unfold py_len_range, range_len; clear - Hd; lia).
        destruct (bit1_col L c); [reflexivity|].
        destruct ((c + dsp >=? 0 + off L) && (c + dsp <=? last_col L - off L)); [|reflexivity].
        destruct (isinv (rm L) (r_nd L) (r_vl L) r (c + dsp)); reflexivity. }
    assert (Hfold : forall l S, inv3 S -> inv3 (fold_left step l S) /\
              forall r c, 0 <= r < nr L -> 0 <= c < nc L ->
                proj3 (fold_left step l S) r c = fold_left (arm_step Eg L r c) l (proj3 S r c)).
    { induction l as [|d l IH]; intros S HS; cbn [fold_left]; [split; auto|].
      destruct (Hstep S d HS) as [H1 H2]. destruct (IH _ H1) as [H3 H4]. split; [exact H3|].
      intros r c Hr Hc. rewrite H4, H2 by assumption. reflexivity. }
    clearbody step.
    set (S0 := (np_full2 (nr L) (nc L) 0, np_full2 (nr L) (nc L) 0, X)).
    assert (HS0 : inv3 S0).
    { unfold inv3, S0, okm, np_full2. cbn [fst snd m_err m_nr m_nc]. repeat split; try apply HX; lia. }
    destruct (Hfold (zrange (dmin L) (dmax L)) S0 HS0) as [HI HP].
    destruct (fold_left step (zrange (dmin L) (dmax L)) S0) as [[Bf Nf] Vf].
    split; [apply HI|]. intros r c Hr Hc. specialize (HP r c Hr Hc).
    unfold proj3, S0 in HP. cbn [fst snd np_full2 m_at] in HP. unfold alloc_right. rewrite <- HP. reflexivity.
  Qed.

  (* ---------------------------------------------------------------- validity_mask *)
  (* the model's column part before the bit-1 write *)
  Definition vm_pre (c : Z) : Z :=
    let m := fire Eg R_vm_init 0 true in
    if dmax L <? 0 then
      if (c + dmax L >=? 0 + off L) && (c + dmin L <? 0 + off L) then fire Eg R_vm_b2neg m true else m
    else if dmin L >? 0 then
      if (c + dmin L <=? last_col L - off L) && (c + dmax L >? last_col L - off L) then fire Eg R_vm_b2pos m true else m
    else
      if (c + dmin L <? 0 + off L) || (c + dmax L >? last_col L - off L) then fire Eg R_vm_b2zero m true else m.

  Lemma gen_vm_tail : forall (bit1 : vec Z) (V : imat), okm L V -> idx_cols_bad (nc L) bit1 = false ->
    (forall c, 0 <= c < nc L -> vmem c bit1 = bit1_col L c) ->
    (forall r c, 0 <= c < nc L -> m_at V r c = vm_pre c) ->
    let W0 := np_cols_iadd_c V bit1 (consts K_RIGHT_NODATA_OR_DISPARITY_RANGE_MISSING) in
    let W1 := if lhas L then g_allocate_left_mask consts cv W0 (imgl_of L r0 c0) else W0 in
    let W2 := if rhas L then g_allocate_right_mask consts cv W1 (imgr_of L r0 c0) bit1 else W1 in
    okm L W2 /\ forall r c, 0 <= r < nr L -> 0 <= c < nc L -> m_at W2 r c = validity_mask_px Eg L r c.
  Proof.
    intros bit1 V (Ve & Vr & Vc) Hb Hbc HV. intros W0.
    assert (H0 : okm L W0 /\ forall r c, 0 <= c < nc L -> m_at W0 r c = vm_base Eg L c).
    { unfold W0, okm, np_cols_iadd_c. cbn [m_err m_nr m_nc m_at]. rewrite Ve, Vc, Hb. repeat split; try assumption.
      intros r c Hc. rewrite (Hbc c Hc), (HV r c Hc). unfold vm_base. fold (vm_pre c).
      destruct fire_Eg as (_ & _ & _ & _ & F & _). rewrite F. reflexivity. }
    destruct H0 as [H0 H0a]. clearbody W0. intros W1.
    assert (H1 : okm L W1 /\ forall r c, 0 <= c < nc L ->
                   m_at W1 r c = if lhas L then alloc_left Eg L (vm_base Eg L c) r c else vm_base Eg L c).
    { unfold W1. destruct (lhas L) eqn:El; [|split; [exact H0 | exact H0a]].
      destruct (gen_left W0 H0) as [G1 G2]. cbv zeta in G1, G2. split; [exact G1|].
      intros r c Hc. rewrite G2, H0a by exact Hc. reflexivity. }
    destruct H1 as [H1 H1a]. clearbody W1. intros W2. unfold validity_mask_px.
    unfold W2. destruct (rhas L) eqn:Er.
    - destruct (gen_right W1 bit1 H1 Hb Hbc) as [G1 G2]. cbv zeta in G1, G2. split; [exact G1|].
      intros r c Hr Hc. rewrite G2, H1a by assumption. reflexivity.
    - split; [exact H1|]. intros r c Hr Hc. rewrite H1a by assumption. reflexivity.
  Qed.

  (* X[:, np.where(b)] += k for a boolean vector over the columns *)
  Lemma cols_iadd_where1 : forall X (b : vec bool) k, okm L X -> v_err b = false -> v_len b = nc L ->
    okm L (np_cols_iadd_c X (np_where1 b) k)
    /\ forall r c, 0 <= c < nc L -> m_at (np_cols_iadd_c X (np_where1 b) k) r c = if v_at b c then m_at X r c + k else m_at X r c.
  Proof.
    intros X b k (Xe & Xr & Xc) be bl. pose proof (where1_is_sel b be) as HW. rewrite bl in HW.
    unfold okm, np_cols_iadd_c. cbn [m_err m_nr m_nc m_at]. rewrite Xe, Xc, (sel_cols_ok _ _ _ (nc L) HW) by lia.
    repeat split; try assumption. intros r c Hc. rewrite (sel_vmem _ _ _ c HW).
    replace ((0 <=? c) && (c <? nc L)) with true by lia. reflexivity.
  Qed.

  Lemma guarded_where1 : forall (b : vec bool) oks, v_err b = false -> v_len b = nc L -> all_ok oks = true ->
    idx_cols_bad (nc L) (v_guard oks (np_where1 b)) = false
    /\ forall c, 0 <= c < nc L -> vmem c (v_guard oks (np_where1 b)) = v_at b c.
  Proof.
    intros b oks be bl Ho. pose proof (where1_is_sel b be) as HW. rewrite bl in HW.
    pose proof (guard_is_sel oks _ _ _ Ho HW) as HG. split; [apply (sel_cols_ok _ _ _ (nc L) HG); lia|].
    intros c Hc. rewrite (sel_vmem _ _ _ c HG). replace ((0 <=? c) && (c <? nc L)) with true by lia. reflexivity.
  Qed.

  Ltac solve_vec :=
    first [ reflexivity
          | cbn [v_err v_len np_and_vv np_or_vv v_map2 np_ge_vs np_lt_vs np_le_vs np_gt_vs np_add_vs v_map coords];
            rewrite ?Z.eqb_refl; reflexivity ].

  Theorem gen_validity_mask :
    let Y := g_validity_mask consts (imgl_of L r0 c0) (imgr_of L r0 c0) cv in
    okm L Y /\ forall r c, 0 <= r < nr L -> 0 <= c < nc L -> m_at Y r c = validity_mask_px Eg L r c.
  Proof.
    cbv zeta. unfold g_validity_mask. cbv zeta.
    cbn [cv cv_of cv_offset cv_disp_first cv_disp_last cv_size_row cv_size_col cv_row cv_col v_len coords
         imgl_of imgr_of img_of i_has_msk].
    assert (Hi0 : np_item (coords c0 (nc L)) 0 = c0 + 0) by reflexivity.
    assert (Hi1 : np_item (coords c0 (nc L)) (-1) = c0 + (-1 + nc L)) by reflexivity.
    assert (Ho0 : np_item_ok (coords c0 (nc L)) 0 = true) by (unfold np_item_ok, coords; cbn [v_err v_len]; lia).
    assert (Ho1 : np_item_ok (coords c0 (nc L)) (-1) = true) by (unfold np_item_ok, coords; cbn [v_err v_len]; lia).
    assert (HF : okm L (np_full2 (nr L) (nc L) 0)) by (unfold okm, np_full2; cbn [m_err m_nr m_nc]; repeat split; lia).
    destruct fire_Eg as (F0 & Fn & Fp & Fz & _).
    assert (Hguard : forall oks X, all_ok oks = true -> okm L X -> okm L (m_guard oks X)).
    { intros oks X Ho (Xe & Xr & Xc). unfold okm, m_guard. cbn [m_err m_nr m_nc]. rewrite Xe, Ho. repeat split; assumption. }
    rewrite Hi0, Hi1, Ho0, Ho1.
    destruct (dmax L <? 0) eqn:E1; [| destruct (dmin L >? 0) eqn:E2]; cbv beta iota.
    - match goal with |- context [v_guard ?o (np_where1 ?b)] => destruct (guarded_where1 b o) as [G1 G2]; [solve_vec .. |] end.
      match goal with |- context [np_cols_iadd_c (np_full2 (nr L) (nc L) 0) (np_where1 ?b) ?k] =>
        destruct (cols_iadd_where1 (np_full2 (nr L) (nc L) 0) b k HF) as [G3 G4]; [solve_vec .. |] end.
      apply gen_vm_tail; [apply Hguard; [reflexivity | exact G3] | exact G1 | |].
      + intros c Hc. rewrite (G2 c Hc). unfold bit1_col. rewrite E1. cbn [np_lt_vs np_add_vs v_map coords v_at]. lia.
      + intros r c Hc. cbn [m_guard m_at]. rewrite (G4 r c Hc). unfold vm_pre. rewrite E1, F0, Fn.
        cbn [np_and_vv v_map2 np_ge_vs np_lt_vs np_add_vs v_map coords v_at np_full2 m_at].
        match goal with |- (if ?a then _ else _) = (if ?b then _ else _) => replace a with b by lia end. reflexivity.
    - match goal with |- context [v_guard ?o (np_where1 ?b)] => destruct (guarded_where1 b o) as [G1 G2]; [solve_vec .. |] end.
      match goal with |- context [np_cols_iadd_c (np_full2 (nr L) (nc L) 0) (np_where1 ?b) ?k] =>
        destruct (cols_iadd_where1 (np_full2 (nr L) (nc L) 0) b k HF) as [G3 G4]; [solve_vec .. |] end.
      apply gen_vm_tail; [apply Hguard; [reflexivity | exact G3] | exact G1 | |].
      + intros c Hc. rewrite (G2 c Hc). unfold bit1_col, last_col. rewrite E1, E2. cbn [np_gt_vs np_add_vs v_map coords v_at]. lia.
      + intros r c Hc. cbn [m_guard m_at]. rewrite (G4 r c Hc). unfold vm_pre, last_col. rewrite E1, E2, F0, Fp.
        cbn [np_and_vv v_map2 np_le_vs np_gt_vs np_add_vs v_map coords v_at np_full2 m_at].
        match goal with |- (if ?a then _ else _) = (if ?b then _ else _) => replace a with b by lia end. reflexivity.
    - match goal with |- context [np_cols_iadd_c (np_full2 (nr L) (nc L) 0) (np_where1 ?b) ?k] =>
        destruct (cols_iadd_where1 (np_full2 (nr L) (nc L) 0) b k HF) as [G3 G4]; [solve_vec .. |] end.
      apply gen_vm_tail; [apply Hguard; [reflexivity | exact G3] | reflexivity | |].
      + intros c Hc. unfold bit1_col. rewrite E1, E2. reflexivity.
      + intros r c Hc. cbn [m_guard m_at]. rewrite (G4 r c Hc). unfold vm_pre, last_col. rewrite E1, E2, F0, Fz.
        cbn [np_or_vv v_map2 np_lt_vs np_gt_vs np_add_vs v_map coords v_at np_full2 m_at].
        match goal with |- (if ?a then _ else _) = (if ?b then _ else _) => replace a with b by lia end. reflexivity.
  Qed.
End Fns.

(* ------------------------------------------------------------------ the calls, in the order the pipeline makes them *)
(* PandoraMachine.matching_cost_prepare: cv = validity_mask(left, right, cv); then AbstractMatchingCost.cv_masked ends with
   mask_invalid_variable_disparity_range(cv) and `if offset > 0: mask_border(cv)` (these three lines are hand-written here;
   the flag-site scan of Gen/Flags.v and the correspondence tie them to the callers) *)
Definition gen_after_mc (K : cname -> Z) (img_left img_right : imgrec) (cv : cvrec) : imat :=
  let vm := g_validity_mask K img_left img_right cv in
  let vm := g_mask_invalid_variable_disparity_range K cv vm in
  if cv_offset cv >? 0 then g_mask_border K cv vm else vm.

(* a NaN pattern of the shape of the layout, with at least one disparity sample *)
Definition cube_ok (L : layout) (Q : cube) : Prop := q_err Q = false /\ q_nr Q = nr L /\ q_nc Q = nc L /\ 0 < q_nd Q.

Theorem gen_after_mc_eq : forall L r0 c0 Q, 0 <= off L -> 0 <= nr L -> 0 < nc L -> dmin L <= dmax L -> cube_ok L Q ->
  let G := gen_after_mc consts (imgl_of L r0 c0) (imgr_of L r0 c0) (cv_of L r0 c0 Q) in
  okm L G /\ forall r c, 0 <= r < nr L -> 0 <= c < nc L -> m_at G r c = after_mc Eg L (allnan_of Q) r c.
Proof.
  intros L r0 c0 Q Hoff Hnr Hnc Hd (Qe & Qr & Qc & Qd). cbv zeta. unfold gen_after_mc. cbv zeta.
  destruct (gen_validity_mask L r0 c0 Q Hoff Hnr Hnc Hd) as [V1 V2]. cbv zeta in V1, V2.
  set (VM := g_validity_mask _ _ _ _) in *. clearbody VM.
  destruct (gen_mivdr L r0 c0 Q VM V1 Qe Qr Qc Qd) as [M1 M2]. cbv zeta in M1, M2.
  set (MV := g_mask_invalid_variable_disparity_range _ _ _) in *. clearbody MV.
  unfold after_mc. cbn [cv_of cv_offset]. destruct (off L >? 0).
  - destruct (gen_border L r0 c0 Q Hoff MV M1) as [B1 B2]. cbv zeta in B1, B2. split; [exact B1|].
    intros r c Hr Hc. rewrite B2, M2, V2 by assumption. reflexivity.
  - split; [exact M1|]. intros r c Hr Hc. rewrite M2, V2 by assumption. reflexivity.
Qed.

(* ------------------------------------------------------------------ the theorems of C04 about the matching-cost mask, restated on the generated functions *)
From Pandora Require Import Model.FlagSteps Spec.Validity Proofs.FlagEnvP Proofs.CriteriaP.

Section Restated.
  Variables (L : layout) (r0 c0 : Z) (Q : cube) (gmin gmax : Z -> Z -> Z).
  Hypothesis Hwf : wf_env Eg = true.
  Hypothesis Hoff : 0 <= off L.
  Hypothesis Hnc : 0 < nc L.
  Hypothesis Hd : dmin L <= dmax L.
  Hypothesis HQ : cube_ok L Q.
  Let S := scene_of L gmin gmax.
  Let G := gen_after_mc consts (imgl_of L r0 c0) (imgr_of L r0 c0) (cv_of L r0 c0 Q).
  Let nan_ok := nan_pattern_ok L gmin gmax (allnan_of Q).

  Lemma gen_flag_is_model : forall r c, in_img S r c -> m_at G r c = after_mc Eg L (allnan_of Q) r c.
  Proof.
    intros r c [Hr Hc]. unfold S, scene_of in Hr, Hc. cbn [s_nr s_nc] in Hr, Hc.
    assert (Hnr : 0 <= nr L) by lia.
    destruct (gen_after_mc_eq L r0 c0 Q Hoff Hnr Hnc Hd HQ) as [_ H]. cbv zeta in H. now apply H.
  Qed.

  Lemma gen_flag_expected : forall r c, in_img S r c -> nan_ok r c -> m_at G r c = expected_flag S r c.
  Proof. intros r c Hi Hn. rewrite gen_flag_is_model by exact Hi. now apply (flag_expected Eg L gmin gmax (allnan_of Q) Hwf Hoff Hd). Qed.

  Lemma gen_border_bit0_only : forall r c, border S r c -> nan_ok r c -> m_at G r c = 1.
  Proof.
    intros r c Hb Hn. rewrite gen_flag_is_model by apply Hb.
    now apply (border_bit0_only Eg L gmin gmax (allnan_of Q) Hwf Hoff Hd).
  Qed.

  Lemma gen_bit7_iff : forall r c, in_img S r c -> win_in S r c -> nan_ok r c ->
    (Z.testbit (m_at G r c) 7 = true <-> cause7 S r c).
  Proof.
    intros r c Hi Hw Hn. rewrite gen_flag_is_model by exact Hi.
    now apply (bit7_iff Eg L gmin gmax (allnan_of Q) Hwf Hoff Hd).
  Qed.

  Lemma gen_invalid_iff_nocost : forall r c, in_img S r c -> nan_ok r c ->
    (Z.land (m_at G r c) 195 <> 0 <-> no_cost S r c).
  Proof.
    intros r c Hi Hn. rewrite gen_flag_is_model by exact Hi.
    now apply (invalid_iff_nocost Eg L gmin gmax (allnan_of Q) Hwf Hoff Hd).
  Qed.
End Restated.
