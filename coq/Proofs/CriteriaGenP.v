(* C04, T-gen -- the functions of pandora/criteria.py translated statement by statement into Gen/CriteriaFns.v
   (numpy combinators of Lib/NpCrit.v) compute, on EVERY input, element by element, what the hand-written model
   Model/Criteria.v computes, and never raise (err = false):

     g_binary_dilation_msk                       = dil
     g_allocate_left_mask                        = alloc_left
     g_allocate_right_mask (the loop over dsp)   = alloc_right (fold of arm_step)
     g_validity_mask                             = validity_mask_px
     g_mask_invalid_variable_disparity_range     = mivdr
     g_mask_border                               = mask_border_px

   for every layout (image size, window, global interval, masks and their conventions) and every origin
   (r0, c0) of the row / col coordinates of the datasets (ROI: the code compares col COORDINATES, the model
   positions; they agree because the coordinates are consecutive).  The flag writes of the model are read in
   the regenerated site list (Gen/Flags.v): these lemmas are re-checked against BOTH regenerated files at every run. *)
From Coq Require Import ZArith List Bool Lia ZifyBool.
From Pandora Require Import Lib.NpCrit Model.Criteria Proofs.NpCritP Gen.Flags Gen.CriteriaFns.
Import ListNotations.
Open Scope Z_scope.

Definition Eg : env := mkEnv consts flag_sites.

(* ------------------------------------------------------------------ the inputs *)
(* consecutive coordinates starting at lo *)
Definition coords (lo n : Z) : vec Z := mkV false n (fun j => lo + j).
Definition mat_of (n m : Z) (f : Z -> Z -> Z) : imat := mkM false n m f.
Definition img_of (has : bool) (n m r0 c0 : Z) (f : Z -> Z -> Z) (ndv vlv : Z) : imgrec :=
  mkImg has (mat_of n m f) (coords r0 n) (coords c0 m) ndv vlv.
(* the cost-volume dataset of a layout: coordinates starting at (r0, c0), disp from dmin to dmax, window 2*off+1 *)
Definition cv_of (L : layout) (r0 c0 : Z) (Q : cube) : cvrec :=
  mkCv (coords r0 (nr L)) (coords c0 (nc L)) (dmin L) (dmax L) (off L) (2 * off L + 1) Q.
Definition imgl_of (L : layout) (r0 c0 : Z) : imgrec := img_of (lhas L) (nr L) (nc L) r0 c0 (lm L) (l_nd L) (l_vl L).
Definition imgr_of (L : layout) (r0 c0 : Z) : imgrec := img_of (rhas L) (nr L) (nc L) r0 c0 (rm L) (r_nd L) (r_vl L).

(* a well-formed array of the layout's shape *)
Definition okm (L : layout) (X : imat) : Prop := m_err X = false /\ m_nr X = nr L /\ m_nc X = nc L.

(* ------------------------------------------------------------------ the flag writes of the regenerated site list *)
Lemma fire_Eg :
  (forall m, fire Eg R_vm_init m true = 0)
  /\ (forall m, fire Eg R_vm_b2neg m true = m + consts K_RIGHT_INCOMPLETE_DISPARITY_RANGE)
  /\ (forall m, fire Eg R_vm_b2pos m true = m + consts K_RIGHT_INCOMPLETE_DISPARITY_RANGE)
  /\ (forall m, fire Eg R_vm_b2zero m true = m + consts K_RIGHT_INCOMPLETE_DISPARITY_RANGE)
  /\ (forall m, fire Eg R_vm_b1 m true = m + consts K_RIGHT_NODATA_OR_DISPARITY_RANGE_MISSING)
  /\ (forall m b, fire Eg R_l_nodata m b = m + (if b then 1 else 0) mod 65536 * consts K_LEFT_NODATA_OR_BORDER)
  /\ (forall m b, fire Eg R_l_invalid m b = m + (if b then consts K_IN_VALIDITY_MASK_LEFT else 0) mod 65536)
  /\ (forall m, fire Eg R_r_b27 m true = m + consts K_IN_VALIDITY_MASK_RIGHT)
  /\ (forall m, fire Eg R_r_nodata m true = m + consts K_RIGHT_NODATA_OR_DISPARITY_RANGE_MISSING)
  /\ (forall m, fire Eg R_mivdr m true = m + consts K_RIGHT_NODATA_OR_DISPARITY_RANGE_MISSING)
  /\ (forall m, fire Eg R_bord_top m true = consts K_LEFT_NODATA_OR_BORDER)
  /\ (forall m, fire Eg R_bord_bot m true = consts K_LEFT_NODATA_OR_BORDER)
  /\ (forall m, fire Eg R_bord_left m true = consts K_LEFT_NODATA_OR_BORDER)
  /\ (forall m, fire Eg R_bord_right m true = consts K_LEFT_NODATA_OR_BORDER).
Proof.
  repeat split; intros; try (destruct b); try reflexivity;
    unfold fire; cbn; try reflexivity; lia.
Qed.

(* ------------------------------------------------------------------ ranges of the model = ranges of the library *)
Lemma upto__zseq : forall n lo, upto_ lo n = zseq lo n.
Proof. induction n; intros; cbn; [reflexivity | now rewrite IHn]. Qed.

Lemma irange_zrange : forall lo hi, irange lo hi = zrange lo hi.
Proof. intros. unfold irange, zrange. apply upto__zseq. Qed.

Lemma py_range_zrange : forall lo hi, py_range lo (hi + 1) = zrange lo hi.
Proof. intros. unfold py_range, zrange. rewrite upto__zseq. f_equal. lia. Qed.

(* ------------------------------------------------------------------ binary_dilation_msk *)
Section Fns.
  Variables (L : layout) (r0 c0 : Z) (Q : cube).
  Hypothesis Hoff : 0 <= off L.
  Hypothesis Hnr : 0 <= nr L.
  Hypothesis Hnc : 0 < nc L.
  Hypothesis Hd : dmin L <= dmax L.
  Let cv := cv_of L r0 c0 Q.

  Lemma gen_dilation : forall has f ndv vlv,
    let D := g_binary_dilation_msk consts (img_of has (nr L) (nc L) r0 c0 f ndv vlv) (cv_window_size cv) in
    b_err D = false /\ b_nr D = nr L /\ b_nc D = nc L /\ forall r c, b_at D r c = dil L f ndv r c.
  Proof.
    intros has f ndv vlv. cbv zeta. unfold g_binary_dilation_msk, scipy_binary_dilation_ones, np_eq_ms, cv, cv_of, img_of, mat_of.
    cbn [b_err b_nr b_nc b_at m_err m_nr m_nc m_at i_msk i_no_data_mask cv_window_size].
    assert (Hw : (2 * off L + 1 - 1) / 2 = off L) by (replace (2 * off L + 1 - 1) with (off L * 2) by lia; apply Z.div_mul; lia).
    rewrite Hw. split; [|split; [reflexivity | split; [reflexivity|]]].
    - replace (Z.odd (2 * off L + 1)) with true by (symmetry; rewrite Z.add_comm, Z.odd_add_mul_2; reflexivity).
      cbn [orb negb]. lia.
    - intros r c. unfold dil. rewrite !irange_zrange. reflexivity.
  Qed.

  (* ---------------------------------------------------------------- allocate_left_mask *)
  Lemma align_same : forall has f ndv vlv,
    xr_align_snd cv (img_of has (nr L) (nc L) r0 c0 f ndv vlv) = mat_of (nr L) (nc L) f.
  Proof.
    intros. unfold xr_align_snd, cv, cv_of, img_of, mat_of. cbn [i_msk i_row i_col cv_row cv_col m_err m_nr m_nc m_at].
    assert (Hv : forall lo n, veqb (coords lo n) (coords lo n) = true).
    { intros lo n. unfold veqb, coords. cbn [v_err v_len v_at]. rewrite Z.eqb_refl. cbn.
      apply forallb_forall. intros k _. apply Z.eqb_refl. }
    rewrite !Hv. unfold coords. cbn [v_len]. rewrite !Z.eqb_refl. reflexivity.
  Qed.

  Lemma gen_left : forall X, okm L X ->
    let Y := g_allocate_left_mask consts cv X (imgl_of L r0 c0) in
    okm L Y /\ forall r c, m_at Y r c = alloc_left Eg L (m_at X r c) r c.
  Proof.
    intros X (Xe & Xr & Xc). cbv zeta. unfold g_allocate_left_mask, imgl_of. cbv zeta. rewrite align_same.
    destruct (gen_dilation (lhas L) (lm L) (l_nd L) (l_vl L)) as (De & Dr & Dc & Da). cbv zeta in De, Dr, Dc, Da.
    set (D := g_binary_dilation_msk consts _ _) in *.
    unfold np_iadd_mm, np_mul_ms, np_astype_u16, np_b2i, np_where_mss, np_and_mm, np_ne_ms, same_shape_mm, same_shape_bb, okm, mat_of, img_of.
    cbn [m_err m_nr m_nc m_at b_err b_nr b_nc b_at i_no_data_mask i_valid_pixels].
    rewrite Xe, De, Xr, Xc, Dr, Dc, !Z.eqb_refl. cbn [orb andb negb]. repeat split; try assumption.
    intros r c. rewrite Da. unfold alloc_left, isinv.
    destruct fire_Eg as (_ & _ & _ & _ & _ & F1 & F2 & _). rewrite F1, F2. reflexivity.
  Qed.

  (* ---------------------------------------------------------------- mask_border *)
  Lemma gen_border : forall X, okm L X ->
    let Y := g_mask_border consts cv X in
    okm L Y /\ forall r c, 0 <= r < nr L -> 0 <= c < nc L -> m_at Y r c = mask_border_px Eg L r c (m_at X r c).
  Proof.
    intros X (Xe & Xr & Xc). cbv zeta. unfold g_mask_border, np_setslice2_c, okm. cbv zeta.
    cbn [m_err m_nr m_nc m_at cv cv_of cv_offset]. repeat split; try assumption.
    intros r c Hr Hc. unfold mask_border_px. cbv zeta.
    destruct fire_Eg as (_ & _ & _ & _ & _ & _ & _ & _ & _ & _ & F1 & F2 & F3 & F4). rewrite F1, F2, F3, F4.
    unfold in_slice, sl_bound, in_sl, py_idx. rewrite Xr, Xc.
    destruct (off L <? 0) eqn:?; [lia|]. destruct (- off L <? 0) eqn:?.
    all: repeat match goal with |- context [if ?b then _ else _] =>
      lazymatch b with context [if _ then _ else _] => fail | _ => destruct b eqn:? end end;
      try reflexivity; lia.
  Qed.

  (* ---------------------------------------------------------------- mask_invalid_variable_disparity_range *)
  (* every cost of the pixel is NaN, as np.min(np.isnan(cost_volume), axis=2) computes it *)
  Definition allnan_of (r c : Z) : bool := forallb (q_nan Q r c) (upto (q_nd Q)).

  Lemma gen_mivdr : forall X, okm L X -> q_err Q = false -> q_nr Q = nr L -> q_nc Q = nc L -> 0 < q_nd Q ->
    let Y := g_mask_invalid_variable_disparity_range consts cv X in
    okm L Y /\ forall r c, 0 <= r < nr L -> 0 <= c < nc L -> m_at Y r c = mivdr Eg (allnan_of r c) (m_at X r c).
  Proof.
    intros X (Xe & Xr & Xc) Qe Qr Qc Qd. cbv zeta. unfold g_mask_invalid_variable_disparity_range. cbv zeta.
    unfold np_isnan3. cbn [cv cv_of cv_cost_volume].
    set (M := np_min_axis2 Q). set (I := np_where2 M).
    assert (Me : b_err M = false) by (unfold M, np_min_axis2; cbn [b_err]; rewrite Qe; lia).
    assert (Ie : v_err I = false) by exact Me.
    assert (Iin : forall p, In p (v_to_list I) -> in_mat X p = true).
    { intros [r c] Hp. apply where2_In in Hp. unfold in_mat, M, np_min_axis2 in *. cbn [b_nr b_nc fst snd] in *. lia. }
    assert (Iall : forallb (in_mat X) (v_to_list I) = true) by (apply forallb_forall; exact Iin).
    assert (Ind : nodupb2 (v_to_list I) = true) by (apply nodupb2_NoDup, where2_NoDup).
    unfold np_put2, np_where_vvv, np_eq_vs, np_land_vs, np_add_vs, np_take2, v_map, okm.
    cbn [m_err m_nr m_nc m_at v_err v_len v_at].
    rewrite Xe, Ie, Iall, !Z.eqb_refl, Ind. cbn [orb negb].
    repeat split; try assumption.
    intros r c Hr Hc. unfold mivdr. cbn [Eg e_const].
    destruct fire_Eg as (_ & _ & _ & _ & _ & _ & _ & _ & _ & F & _). rewrite F.
    destruct (pos_of2_cases (r, c) I) as [(k & -> & Hk & Hat & Hin) | (-> & Hn)].
    - rewrite Hat. cbn [fst snd]. apply where2_In in Hin as (_ & _ & Hb).
      unfold allnan_of. unfold M, np_min_axis2 in Hb. cbn [b_at] in Hb. rewrite Hb. reflexivity.
    - assert (Hb : allnan_of r c = false).
      { destruct (allnan_of r c) eqn:Ha; [|reflexivity]. exfalso. apply Hn. apply where2_In.
        unfold M, np_min_axis2. cbn [b_nr b_nc b_at]. repeat split; try lia. exact Ha. }
      rewrite Hb. reflexivity.
  Qed.
End Fns.
