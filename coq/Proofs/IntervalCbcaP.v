(* C09 -- cross-based aggregation of a slice is the slice of the aggregation.
   C11_plane_independent needs the plane of the other volume to be THE SAME function; the matching
   cost theorems give equality of the two planes at every pixel of the image only, so the first
   lemma here is the extensional form: the aggregated plane depends on the costs of its own input
   plane at the pixels of the image only. *)
From Coq Require Import ZArith QArith List Bool Lia.
From Pandora Require Import Model.Cbca Spec.Cbca Proofs.CbcaP.
Import ListNotations.
Open Scope Z_scope.

Lemma tabulate_ext : forall (A : Type) nr nc (f g : Z -> Z -> A),
  (forall r c, 0 <= r < nr -> 0 <= c < nc -> f r c = g r c) -> tabulate nr nc f = tabulate nr nc g.
Proof.
  intros A nr nc f g H. unfold tabulate. apply map_ext_in. intros r Hr. apply map_ext_in. intros c Hc.
  rewrite in_zrange in Hr, Hc. apply H; lia.
Qed.

Lemma fold_left_ext_in : forall (X Y : Type) (f g : Y -> X -> Y) l a,
  (forall b x, In x l -> f b x = g b x) -> fold_left f l a = fold_left g l a.
Proof.
  intros X Y f g l. induction l; intros a0 H; cbn [fold_left]; [reflexivity|].
  rewrite H by now left. apply IHl. intros; apply H; now right.
Qed.

Lemma step1_row_ext : forall nc (cv cv' : Z -> option Q),
  (forall c, 0 <= c < nc -> cv c = cv' c) -> step1_row nc cv = step1_row nc cv'.
Proof.
  intros nc cv cv' H. unfold step1_row. apply fold_left_ext_in. intros b x Hx.
  rewrite in_zrange in Hx. rewrite H by lia. reflexivity.
Qed.

Lemma plane_out_ext : forall nr nc ncR cL cR d (cv cv' : Z -> Z -> option Q),
  (forall r c, 0 <= r < nr -> 0 <= c < nc -> cv r c = cv' r c) ->
  plane_out nr nc ncR cL cR d cv = plane_out nr nc ncR cL cR d cv'.
Proof.
  intros nr nc ncR cL cR d cv cv' H. unfold plane_out. cbv zeta.
  assert (T1 : tabulate nr (nc + 1) (step1 nc cv) = tabulate nr (nc + 1) (step1 nc cv')).
  { apply tabulate_ext. intros r c Hr _. unfold step1. rewrite (step1_row_ext nc (cv r) (cv' r)); [reflexivity|].
    intros c0 Hc0. apply H; assumption. }
  rewrite T1. apply tabulate_ext. intros r c Hr Hc. rewrite H by assumption. reflexivity.
Qed.

Section Slice.
  Variable x : cbca_in.
  Hypothesis Hsub : 1 <= i_subpix x.
  Hypothesis Hoff : 0 <= i_off x.

  (* extensional plane independence *)
  Theorem cbca_plane_ext : forall disps' cv' k k' r c,
    0 <= k < n_disp x -> 0 <= k' < Z.of_nat (length disps') ->
    nth_disp x k = nth (Z.to_nat k') disps' 0%Q ->
    (forall r' c', 0 <= r' < i_nr x -> 0 <= c' < i_nc x -> i_cv x k r' c' = cv' k' r' c') ->
    0 <= r < i_nr x -> 0 <= c < i_nc x ->
    out_at x k r c = out_at (with_volume x disps' cv') k' r c.
  Proof.
    intros disps' cv' k k' r c Hk Hk' Hd Hcv Hr Hc.
    rewrite volume_at by auto.
    rewrite (volume_at (with_volume x disps' cv')) by (simpl; auto).
    unfold nth_disp in *. cbn [with_volume i_disps i_cv i_subpix i_off i_nr i_nc]. rewrite <- Hd.
    change (cnr (with_volume x disps' cv')) with (cnr x).
    change (cnc (with_volume x disps' cv')) with (cnc x).
    change (in_crop (with_volume x disps' cv') r c) with (in_crop x r c).
    destruct (in_crop x r c) eqn:E; [|apply Hcv; assumption].
    change (cross_left_table (with_volume x disps' cv')) with (cross_left_table x).
    set (d := nth (Z.to_nat k) (i_disps x) 0%Q).
    change (cncR (with_volume x disps' cv') (i_right (i_subpix x) d)) with (cncR x (i_right (i_subpix x) d)).
    change (cross_right_table (with_volume x disps' cv') (i_right (i_subpix x) d))
      with (cross_right_table x (i_right (i_subpix x) d)).
    rewrite (plane_out_ext (cnr x) (cnc x) (cncR x (i_right (i_subpix x) d))
               (lookup arms0 (cross_left_table x)) (lookup arms0 (cross_right_table x (i_right (i_subpix x) d)))
               d (crop (i_off x) (i_cv x k)) (crop (i_off x) (cv' k'))); [reflexivity|].
    intros r' c' Hr' Hc'. unfold crop, cnr, cnc in *. apply Hcv; lia.
  Qed.

  (* the slice statement: if the planes of another volume (axis disps', e.g. the axis of a smaller
     interval) are, pixel for pixel over the image, the planes sh, sh+1, ... of this volume and carry
     the same disparities, then its aggregation is the same slice of this volume's aggregation *)
  Theorem cbca_slice : forall disps' cv' sh,
    0 <= sh -> sh + Z.of_nat (length disps') <= n_disp x ->
    (forall k', 0 <= k' < Z.of_nat (length disps') ->
        nth (Z.to_nat k') disps' 0%Q = nth_disp x (k' + sh)) ->
    (forall k' r c, 0 <= k' < Z.of_nat (length disps') -> 0 <= r < i_nr x -> 0 <= c < i_nc x ->
        cv' k' r c = i_cv x (k' + sh) r c) ->
    forall k' r c, 0 <= k' < Z.of_nat (length disps') -> 0 <= r < i_nr x -> 0 <= c < i_nc x ->
    out_at (with_volume x disps' cv') k' r c = out_at x (k' + sh) r c.
  Proof.
    intros disps' cv' sh Hsh Hlen Hd Hcv k' r c Hk' Hr Hc. symmetry.
    apply cbca_plane_ext; try assumption; try lia.
    - symmetry. apply Hd. exact Hk'.
    - intros r' c' Hr' Hc'. symmetry. apply Hcv; assumption.
  Qed.
End Slice.

(* ------------------------------------------------------------------ per-pixel grids then cbca: the leak *)

(* "a volume that differs from this one by NaN at OTHER pixels aggregates to the same cost at this pixel":
   false; 3 x 3 flat images (one 9-pixel region), costs r + c, the cost of the neighbour (1, 0) masked *)
Definition cbca_grid_inside_full : Prop :=
  forall (x : cbca_in) cv' k r c,
    1 <= i_subpix x -> 0 <= i_off x ->
    0 <= k < n_disp x -> 0 <= r < i_nr x -> 0 <= c < i_nc x ->
    (forall r' c', cv' k r' c' = i_cv x k r' c' \/ cv' k r' c' = None) ->
    cv' k r c = i_cv x k r c ->
    out_at (with_volume x (i_disps x) cv') k r c = out_at x k r c.

Definition leak_in : cbca_in :=
  mkIn 3 3 0 1 2 (5 # 1) (fun _ _ => Some 10%Q) None 0 (fun _ _ _ => Some 10%Q) None 0 [0%Q]
       (fun _ r c => Some (inject_Z (r + c))).
Definition leak_cv : Z -> Z -> Z -> option Q :=
  fun _ r c => if (r =? 1) && (c =? 0) then None else Some (inject_Z (r + c)).

Lemma cbca_grid_inside_refuted : ~ cbca_grid_inside_full.
Proof.
  intros H. specialize (H leak_in leak_cv 0 1 1).
  assert (E : out_at (with_volume leak_in (i_disps leak_in) leak_cv) 0 1 1 = out_at leak_in 0 1 1).
  { apply H; try (vm_compute; intuition congruence).
    intros r' c'. unfold leak_cv, leak_in. cbn [i_cv].
    destruct ((r' =? 1) && (c' =? 0)); [now right|now left]. }
  vm_compute in E. discriminate.
Qed.

(* ------------------------------------------------------------------ composed with the matching-cost model *)
From Pandora Require Model.MatchingCost Model.Interval Proofs.MatchingCostP Proofs.IntervalP.

Section SliceOfNested.
  (* the aggregation input for the large interval [a', b'] ... *)
  Variable xJ : cbca_in.
  Hypothesis Hsub : 1 <= i_subpix xJ.
  Hypothesis Hoff : 0 <= i_off xJ.
  (* ... whose volume is the matching-cost volume of measure m on [a', b'] (costs as numbers through any
     valuation [val] of the model's cells) on the axis of [a', b'] *)
  Variables (val : Interval.cellv -> Q) (m : MatchingCost.measure) (inp : MatchingCost.mc_input).
  Variables (a b a' b' : Z).
  Let s := MatchingCost.i_s inp.
  Hypothesis Hs : 0 < s.
  Hypothesis Ha : a' <= a.
  Hypothesis Hb : b <= b'.
  Hypothesis HaxisJ : i_disps xJ = Interval.disp_axis s a' b'.
  Hypothesis HvolJ : forall k r c, 0 <= k < MatchingCost.nb_disp s a' b' -> 0 <= r < i_nr xJ -> 0 <= c < i_nc xJ ->
    i_cv xJ k r c = MatchingCost.omap val (Interval.mvolume m (Interval.scalar_grids inp a' b') a' b' r c k).
  (* the aggregation input for the small interval [a, b]: same images, masks, parameters *)
  Variable cvI : Z -> Z -> Z -> option Q.
  Hypothesis HvolI : forall k r c, 0 <= k < MatchingCost.nb_disp s a b -> 0 <= r < i_nr xJ -> 0 <= c < i_nc xJ ->
    cvI k r c = MatchingCost.omap val (Interval.mvolume m (Interval.scalar_grids inp a b) a b r c k).

  Theorem cbca_slice_of_nested_intervals : forall k r c,
    0 <= k < MatchingCost.nb_disp s a b -> 0 <= r < i_nr xJ -> 0 <= c < i_nc xJ ->
    out_at (with_volume xJ (Interval.disp_axis s a b) cvI) k r c = out_at xJ (k + (a - a') * s) r c.
  Proof.
    intros k r c Hk Hr Hc.
    assert (LI : Z.of_nat (length (Interval.disp_axis s a b)) = MatchingCost.nb_disp s a b).
    { rewrite IntervalP.disp_axis_length. lia. }
    assert (NJ : n_disp xJ = MatchingCost.nb_disp s a' b').
    { unfold n_disp. rewrite HaxisJ, IntervalP.disp_axis_length.
      destruct (IntervalP.slice_index s a b a' b' k ltac:(lia) Ha Hb Hk) as [R _]. lia. }
    apply (cbca_slice xJ Hsub Hoff (Interval.disp_axis s a b) cvI ((a - a') * s)).
    - apply Z.mul_nonneg_nonneg; lia.
    - rewrite LI, NJ.
      destruct (IntervalP.slice_index s a b a' b' (MatchingCost.nb_disp s a b - 1) ltac:(lia) Ha Hb ltac:(lia)) as [R _].
      lia.
    - intros k' Hk'. rewrite LI in Hk'.
      destruct (IntervalP.slice_index s a b a' b' k' ltac:(lia) Ha Hb Hk') as [R E].
      unfold nth_disp. rewrite HaxisJ.
      rewrite (IntervalP.disp_axis_nth s a b k' 0%Q Hk'), (IntervalP.disp_axis_nth s a' b' _ 0%Q R).
      unfold Interval.sample_q. now rewrite E.
    - intros k' r' c' Hk' Hr' Hc'. rewrite LI in Hk'.
      destruct (IntervalP.slice_index s a b a' b' k' ltac:(lia) Ha Hb Hk') as [R _].
      rewrite HvolI, HvolJ by assumption.
      now rewrite (IntervalP.cost_indep_of_interval m inp a b a' b' r' c' k' ltac:(fold s; lia) Ha Hb Hk').
    - rewrite LI. exact Hk.
    - exact Hr.
    - exact Hc.
  Qed.
End SliceOfNested.
