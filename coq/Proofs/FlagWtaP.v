(* C04 -- after winner-takes-all (model and theorems of C03): a pixel receives invalid_disparity
   iff all its costs are NaN, for every invalid_disparity that is not one of the sampled disparities
   (NaN, or any value outside the searched interval); the validity flag is carried over unchanged. *)
From Coq Require Import ZArith QArith List Bool Lia.
From Pandora Require Import Lib.Ext Lib.Blocks Model.Wta Spec.Wta Proofs.WtaP.
Import ListNotations.

Lemma allnan_no_computable : forall l : list cost, forallb is_nan l = true <-> no_computable l.
Proof.
  intro l. unfold no_computable, computable. split.
  - intros H j e Hj. rewrite forallb_forall in H. apply nth_error_In in Hj. specialize (H _ Hj). discriminate.
  - intro H. apply forallb_forall. intros x Hx. destruct x as [e|]; [|reflexivity].
    apply In_nth_error in Hx as [j Hj]. exfalso. exact (H j e Hj).
Qed.

Lemma not_allnan_computable : forall l : list cost, forallb is_nan l = false ->
  exists j e, computable l j e.
Proof.
  induction l as [|x l IH]; cbn; [discriminate|]. intro H. destruct x as [e|].
  - exists O, e. reflexivity.
  - cbn in H. destruct (IH H) as (j & e & Hj). exists (S j), e. exact Hj.
Qed.

Section WtaFlag.
  Variables (mx : bool) (B nr nc : Z) (disps : list Q) (invalid : option Q).
  Variables (cv : Z -> Z -> list cost) (conf : Z -> Z -> list (option Q)) (mask : Z -> Z -> Z).
  Let out := to_disp mx B nr nc disps invalid cv conf mask.

  Lemma allnan_iff_invalid_disp : forall r c,
    (1 <= B)%Z -> (0 <= r < nr)%Z -> (0 <= c < nc)%Z -> cv r c <> [] -> no_subst_inf mx (cv r c) ->
    length disps = length (cv r c) ->
    (forall d, In d disps -> invalid <> Some d) ->
    (forallb is_nan (cv r c) = true <-> o_disp out r c = invalid) /\ o_mask out r c = mask r c.
  Proof.
    intros r c HB Hr Hc Hne Hg Hlen Hinv. split; [|reflexivity]. split.
    - intro H. apply allnan_no_computable in H. apply wta_invalid_all; assumption.
    - intro H. destruct (forallb is_nan (cv r c)) eqn:F; [reflexivity|]. exfalso.
      destruct (not_allnan_computable _ F) as (j & e & Hj).
      destruct (wta_is_sample_all mx B nr nc disps invalid cv conf mask r c HB Hr Hc Hne Hg j e Hj Hlen)
        as (d & Hd & Ho).
      unfold out in H. rewrite Ho in H. exact (Hinv d Hd (eq_sym H)).
  Qed.
End WtaFlag.
