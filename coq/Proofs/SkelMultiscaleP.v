(* C15 -- the double block loop of Model/Multiscale.v (disparity_range) IS the skeleton that
   translator/gen_block_loops.py reads in fixed_zoom_pyramid.py, for every skeleton accepted by
   BlockSkeleton.ms_skeleton_ok (per-run obligation of Props/C15.v on Gen/BlockLoops.v). *)
From Coq Require Import ZArith QArith List Bool Lia.
From Pandora Require Import Lib.Blocks Lib.BlockSkeleton Model.Dataset Model.Multiscale.
Import ListNotations.
Open Scope Z_scope.

Lemma ms_skeleton_ok_parts : forall sk, ms_skeleton_ok sk = true ->
  skeleton_wf sk = true /\ sk_oy_expr sk = half_win_m1 /\ sk_ox_expr sk = half_win_m1
  /\ exists w1 w2, sk_writes sk = [w1; w2] /\ w_target w1 <> w_target w2
                   /\ w_kernel w1 = KNanMinMinusMarge /\ w_kernel w2 = KNanMaxPlusMarge.
Proof.
  intros sk H. unfold ms_skeleton_ok in H. repeat rewrite andb_true_iff in H.
  destruct H as (((H1 & H2) & H3) & H4).
  apply expr_eqb_eq in H2, H3.
  destruct (sk_writes sk) as [|w1 [|w2 [|]]]; try discriminate.
  destruct (sk_src sk) as [| | | |a|]; try discriminate.
  repeat rewrite andb_true_iff in H4. destruct H4 as ((H4 & H5) & H6).
  apply kernel_eqb_eq in H5, H6.
  destruct (w_target w1) as [| |v1| | |] eqn:E1; try discriminate.
  destruct (w_target w2) as [| |v2| | |] eqn:E2; try discriminate.
  apply negb_true_iff, Z.eqb_neq in H4.
  repeat split; try assumption. exists w1, w2. repeat split; try assumption.
  rewrite E1, E2. congruence.
Qed.

(* block size >= 1, both running offsets start at int((W - 1) / 2) = (W - 1) / 2 for W >= 1 *)
Theorem ms_loop_params : forall sk, ms_skeleton_ok sk = true ->
  1 <= sk_B sk /\ (forall w, 1 <= w -> sk_oy w sk = (w - 1) / 2) /\ (forall w, 1 <= w -> sk_ox w sk = (w - 1) / 2).
Proof.
  intros sk Hok. destruct (ms_skeleton_ok_parts sk Hok) as (Hwf & Hy & Hx & _).
  unfold skeleton_wf in Hwf. repeat rewrite andb_true_iff in Hwf. destruct Hwf as (((Hs & _) & _) & _).
  destruct (splits_ok_blocks sk Hs) as (HB & _).
  unfold sk_oy, sk_ox. rewrite Hy, Hx. repeat split; auto using half_win_m1_val.
Qed.

Section Ms.
  Variables (IB ws marge : Z) (D : arr (option Q)) (V : arr Z) (umin umax : Q).

  (* np.nanmin(chunk, axis=(2, 3)) - marge / np.nanmax(...) + marge at window (i, j) *)
  Definition ms_kernel (k : kernel) (i j : Z) : option Q :=
    match k with
    | KNanMinMinusMarge => fst (win_range IB ws marge D V i j)
    | KNanMaxPlusMarge => snd (win_range IB ws marge D V i j)
    | _ => None
    end.

  (* For every accepted skeleton, every coarse map at least as large as the window (W >= 1), every
     np.arange stops and initial environment: the pair of maps the model's chunked loop produces at
     the skeleton's block size is (what executing the skeleton writes into its first np.full_like
     array, what it writes into the second one). *)
  Theorem ms_loop_is_skeleton : forall sk w1 w2 sy sx env0 r c,
    ms_skeleton_ok sk = true -> sk_writes sk = [w1; w2] ->
    1 <= ws -> ws <= rows D -> ws <= cols D ->
    looped IB ws marge D V umin umax (sk_B sk) r c
    = (snd (exec ms_kernel ws (rows D - ws + 1) (cols D - ws + 1) (w_target w1) sk sy sx
                 (env0, fun _ _ => fst (fallback umin umax))) r c,
       snd (exec ms_kernel ws (rows D - ws + 1) (cols D - ws + 1) (w_target w2) sk sy sx
                 (env0, fun _ _ => snd (fallback umin umax))) r c).
  Proof.
    intros sk w1 w2 sy sx env0 r c Hok Hw Hws Hr Hc.
    destruct (ms_skeleton_ok_parts sk Hok) as (Hwf & Hy & Hx & w1' & w2' & Hw' & Hne & Hk1 & Hk2).
    rewrite Hw in Hw'. injection Hw' as <- <-.
    destruct (ms_loop_params sk Hok) as (HB & Hoy & Hox).
    rewrite (exec_wf_loop2 _ ms_kernel ws _ _ (w_target w1) sk KNanMinMinusMarge sy sx env0); try assumption; try lia.
    2:{ rewrite Hw. cbn [last_kernel]. rewrite Hk1.
        destruct (aexp_eq_dec (w_target w2) (w_target w1)) as [E|_]; [symmetry in E; contradiction|].
        destruct (aexp_eq_dec (w_target w1) (w_target w1)); [reflexivity | contradiction]. }
    rewrite (exec_wf_loop2 _ ms_kernel ws _ _ (w_target w2) sk KNanMaxPlusMarge sy sx env0); try assumption; try lia.
    2:{ rewrite Hw. cbn [last_kernel]. rewrite Hk2.
        destruct (aexp_eq_dec (w_target w2) (w_target w2)); [reflexivity | contradiction]. }
    rewrite Hoy, Hox by assumption. unfold looped, offset.
    rewrite !loop2_spec by lia. cbn [ms_kernel].
    destruct (((ws - 1) / 2 <=? r) && (r <? (ws - 1) / 2 + (rows D - ws + 1))
              && ((ws - 1) / 2 <=? c) && (c <? (ws - 1) / 2 + (cols D - ws + 1))).
    - destruct (win_range IB ws marge D V (r - (ws - 1) / 2) (c - (ws - 1) / 2)); reflexivity.
    - reflexivity.
  Qed.

  Corollary ms_loop_is_skeleton_at : forall sk sy sx env0 r c,
    ms_skeleton_ok sk = true -> 1 <= ws -> ws <= rows D -> ws <= cols D ->
    looped IB ws marge D V umin umax (sk_B sk) r c
    = (snd (exec ms_kernel ws (rows D - ws + 1) (cols D - ws + 1) (sk_target 0 sk) sk sy sx
                 (env0, fun _ _ => fst (fallback umin umax))) r c,
       snd (exec ms_kernel ws (rows D - ws + 1) (cols D - ws + 1) (sk_target 1 sk) sk sy sx
                 (env0, fun _ _ => snd (fallback umin umax))) r c).
  Proof.
    intros sk sy sx env0 r c Hok Hws Hr Hc.
    destruct (ms_skeleton_ok_parts sk Hok) as (_ & _ & _ & w1 & w2 & Hw & _).
    unfold sk_target. rewrite Hw. cbn [nth_error]. apply ms_loop_is_skeleton; assumption.
  Qed.
End Ms.
