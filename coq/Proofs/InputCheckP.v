(* C17, input section: the model of check_input_section accepts exactly the documented forms. *)
From Coq Require Import ZArith QArith List Bool String Lia Btauto.
From Pandora Require Import Model.Json Model.Checker Model.DatasetCheck Model.InputCheck
  Model.InputInst Spec.WellFormed Gen.Schemas Gen.InputFlow.
Import ListNotations.
Open Scope Z_scope.
Open Scope string_scope.

(* ---------------------------------------------------------------- json-checker on dictionaries *)

Definition skey_name (e : skey) : string := fst (fst e).
Definition skey_opt (e : skey) : bool := snd (fst e).
Definition skey_schema (e : skey) : schema := snd e.

Lemma accepts_sdict orc ks d :
  accepts orc (SDict ks) (JDict d)
  = forallb (fun e => match lookup (skey_name e) d with
                      | Some x => accepts orc (skey_schema e) x
                      | None => skey_opt e
                      end) ks
    && forallb (fun k => mem_str k (map skey_name ks)) (keys d).
Proof.
  cbn [accepts]. f_equal.
  induction ks as [|[[k o] s] r IH]; [reflexivity|].
  cbn [forallb skey_name skey_opt skey_schema fst snd]. now rewrite IH.
Qed.

Lemma is_ok_andthen a b : is_ok (andthen a b) = is_ok a && is_ok b.
Proof. destruct a as [[]|e]; reflexivity. Qed.

Lemma is_ok_bind {A B} (r : res A) (k : A -> res B) :
  is_ok (bind r k) = match r with Ok a => is_ok (k a) | Raise _ => false end.
Proof. destruct r; reflexivity. Qed.

(* ---------------------------------------------------------------- the schemas of the tree under test *)

Definition sch_img : schema := SAnd [SType TyStr; SFun (BOracle "rasterio_can_open_mandatory")].
Definition sch_nodata : schema := SOr [SType TyInt; SFun (BAnd (BIsInst TyFloat) BIsNan)].
Definition sch_opt : schema := SAnd [SOr [SType TyStr; SFun BIsNone]; SFun (BOracle "rasterio_can_open")].
Definition sch_interval : schema := SList [SType TyInt; SType TyInt].
Definition sch_none : schema := SFun BIsNone.
Definition sch_grid : schema := SAnd [SType TyStr; SFun (BOracle "rasterio_can_open")].

Definition ref_side (sd : schema) : list skey :=
  [("img", false, sch_img); ("nodata", false, sch_nodata); ("mask", false, sch_opt);
   ("classif", false, sch_opt); ("segm", false, sch_opt); ("disp", false, sd)].

Definition ref_schema (left_list right_str : bool) : schema :=
  let '(sl, sr) := if left_list then (sch_interval, sch_none)
                   else if right_str then (sch_grid, sch_grid) else (sch_grid, sch_none) in
  SDict [("input", false, SDict [("left", false, SDict (ref_side sl)); ("right", false, SDict (ref_side sr))])].

(* PER-RUN OBLIGATION: the schema check_input_section validates against, built from the
   regenerated Gen/Schemas.v exactly as the code builds it (dict.update of the base schema),
   is the one the lemmas below are about. *)
Lemma gen_schema_is_ref : forall b1 b2, chosen_schema gen_schemas b1 b2 = ref_schema b1 b2.
Proof. intros [|] [|]; vm_compute; reflexivity. Qed.

(* dict.update leaves no trace of the previous call: whatever schema an earlier call selected,
   the module-level input_configuration_schema ends up as if updated from the pristine one *)
Lemma schema_update_history_free : forall c1 c2,
  In c1 [s_int_left gen_schemas; s_gn_left gen_schemas; s_gg_left gen_schemas] ->
  In c2 [s_int_left gen_schemas; s_gn_left gen_schemas; s_gg_left gen_schemas] ->
  schema_update (schema_update (s_base_left gen_schemas) c1) c2 = schema_update (s_base_left gen_schemas) c2.
Proof.
  intros c1 c2 H1 H2. cbn [In] in H1, H2.
  destruct H1 as [<-|[<-|[<-|[]]]]; destruct H2 as [<-|[<-|[<-|[]]]]; vm_compute; reflexivity.
Qed.

Lemma schema_update_history_free_right : forall c1 c2,
  In c1 [s_int_right gen_schemas; s_gn_right gen_schemas; s_gg_right gen_schemas] ->
  In c2 [s_int_right gen_schemas; s_gn_right gen_schemas; s_gg_right gen_schemas] ->
  schema_update (schema_update (s_base_right gen_schemas) c1) c2 = schema_update (s_base_right gen_schemas) c2.
Proof.
  intros c1 c2 H1 H2. cbn [In] in H1, H2.
  destruct H1 as [<-|[<-|[<-|[]]]]; destruct H2 as [<-|[<-|[<-|[]]]]; vm_compute; reflexivity.
Qed.

Section Values.
  Variable fs : string -> option finfo.

  (* what each per-key schema accepts, for every JSON value *)
  Definition a_img (v : jv) : bool := match v with JStr p => readable fs p | _ => false end.
  Definition a_opt (v : jv) : bool :=
    match v with JNull => true | JStr p => String.eqb p "none" || readable fs p | _ => false end.
  Definition a_grid (v : jv) : bool :=
    match v with JStr p => String.eqb p "none" || readable fs p | _ => false end.
  Definition a_none (v : jv) : bool := match v with JNull => true | _ => false end.

  Ltac fin := cbn; repeat (match goal with |- context [readable ?f ?s] => destruct (readable f s) end);
              repeat (match goal with |- context [String.eqb ?a ?b] => destruct (String.eqb a b) end);
              try reflexivity.

  Lemma acc_img v : accepts (orc fs) sch_img v = a_img v.
  Proof. destruct v; fin. Qed.

  Lemma acc_nodata v : accepts (orc fs) sch_nodata v = doc_nodata v.
  Proof. destruct v; reflexivity. Qed.

  Lemma acc_opt v : accepts (orc fs) sch_opt v = a_opt v.
  Proof. destruct v; fin. Qed.

  Lemma acc_grid v : accepts (orc fs) sch_grid v = a_grid v.
  Proof. destruct v; fin. Qed.

  Lemma acc_none v : accepts (orc fs) sch_none v = a_none v.
  Proof. destruct v; reflexivity. Qed.
End Values.

(* ---------------------------------------------------------------- one side of the section *)

Definition side_vals (d : dict) : option (jv * jv * jv * jv * jv * jv) :=
  match lookup "img" d, lookup "nodata" d, lookup "mask" d, lookup "classif" d, lookup "segm" d,
        lookup "disp" d with
  | Some a1, Some a2, Some a3, Some a4, Some a5, Some a6 => Some (a1, a2, a3, a4, a5, a6)
  | _, _, _, _, _, _ => None
  end.

Definition keys_sub (d : dict) : bool := forallb (fun k => mem_str k side_keys) (keys d).

Lemma keys_exactly_side d :
  keys_exactly d side_keys = match side_vals d with Some _ => keys_sub d | None => false end.
Proof.
  unfold keys_exactly, side_vals, side_keys, keys_sub, has_key. cbn [forallb].
  destruct (lookup "img" d), (lookup "nodata" d), (lookup "mask" d), (lookup "classif" d),
    (lookup "segm" d), (lookup "disp" d); reflexivity.
Qed.

Lemma accepts_side fs sd d :
  accepts (orc fs) (SDict (ref_side sd)) (JDict d)
  = match side_vals d with
    | Some (a1, a2, a3, a4, a5, a6) =>
      keys_sub d && (a_img fs a1 && doc_nodata a2 && a_opt fs a3 && a_opt fs a4 && a_opt fs a5
                     && accepts (orc fs) sd a6)
    | None => false
    end.
Proof.
  rewrite accepts_sdict. unfold ref_side, side_vals.
  cbn [forallb skey_name skey_opt skey_schema fst snd map].
  fold side_keys. fold (keys_sub d).
  destruct (lookup "img" d), (lookup "nodata" d), (lookup "mask" d), (lookup "classif" d),
    (lookup "segm" d), (lookup "disp" d);
    rewrite ?acc_img, ?acc_nodata, ?acc_opt; try btauto;
    repeat rewrite ?andb_false_r, ?andb_false_l; reflexivity.
Qed.

(* ---------------------------------------------------------------- the checks after the schema, on values *)

Section Custom.
  Variable fs : string -> option finfo.

  Definition opt_val (f : finfo) (v : jv) : res unit :=
    match v with
    | JNull => Ok tt
    | _ => bind (rasterio_open fs v) (fun g => check_image_dimension f g)
    end.

  Lemma check_optional_val f d k :
    check_optional fs f (JDict d) k = match lookup k d with None => Ok tt | Some v => opt_val f v end.
  Proof. unfold check_optional. destruct (lookup k d) as [[]|]; reflexivity. Qed.

  Definition images_vals (a1 a3 a4 a5 b1 b3 b4 b5 : jv) : res unit :=
    bind (rasterio_open fs a1) (fun fl => bind (rasterio_open fs b1) (fun fr =>
      andthen (check_image_dimension fl fr)
      (andthen (opt_val fl a3) (andthen (opt_val fr b3)
      (andthen (opt_val fl a4) (andthen (opt_val fr b4)
      (andthen (opt_val fl a5) (andthen (opt_val fr b5) (Ok tt))))))))).

  Lemma check_images_vals di dl dr a1 a2 a3 a4 a5 a6 b1 b2 b3 b4 b5 b6 :
    lookup "left" di = Some (JDict dl) -> lookup "right" di = Some (JDict dr) ->
    side_vals dl = Some (a1, a2, a3, a4, a5, a6) -> side_vals dr = Some (b1, b2, b3, b4, b5, b6) ->
    check_images fs images_checked (JDict di) = images_vals a1 a3 a4 a5 b1 b3 b4 b5.
  Proof.
    intros El Er Sl Sr. unfold side_vals in Sl, Sr.
    destruct (lookup "img" dl) eqn:L1, (lookup "nodata" dl) eqn:L2, (lookup "mask" dl) eqn:L3,
      (lookup "classif" dl) eqn:L4, (lookup "segm" dl) eqn:L5, (lookup "disp" dl) eqn:L6; try discriminate.
    destruct (lookup "img" dr) eqn:R1, (lookup "nodata" dr) eqn:R2, (lookup "mask" dr) eqn:R3,
      (lookup "classif" dr) eqn:R4, (lookup "segm" dr) eqn:R5, (lookup "disp" dr) eqn:R6; try discriminate.
    inversion Sl; inversion Sr; subst.
    unfold check_images, images_vals, images_checked.
    cbn [subscript]. rewrite El, Er. cbn [bind subscript]. rewrite L1, R1. cbn [bind].
    destruct (rasterio_open fs a1) as [fl|]; [|reflexivity]. cbn [bind].
    destruct (rasterio_open fs b1) as [fr|]; [|reflexivity]. cbn [bind].
    rewrite !check_optional_val, L3, L4, L5, R3, R4, R5. reflexivity.
  Qed.

  (* optional rasters: schema acceptance and the size check together are the documented form *)
  Lemma optional_documented f v : a_opt fs v && is_ok (opt_val f v) = doc_optional fs f v.
  Proof.
    destruct v; try reflexivity. cbn. unfold readable.
    destruct (fs s) as [g|]; cbn.
    - rewrite orb_true_r. cbn. unfold check_image_dimension, same_size.
      rewrite (Z.eqb_sym (f_w g)), (Z.eqb_sym (f_h g)).
      destruct (f_w f =? f_w g)%Z, (f_h f =? f_h g)%Z; reflexivity.
    - now rewrite andb_false_r.
  Qed.

  (* left disparity as an interval *)
  Lemma interval_documented v img : no_bool v = true ->
    accepts (orc fs) sch_interval v && is_ok (check_disparities_from_input fs v img) = doc_interval v.
  Proof.
    intro NB. destruct v as [| | | | | | |xs|]; try reflexivity.
    destruct xs as [|x [|y [|z r]]]; try reflexivity.
    - cbn. rewrite andb_false_r. now destruct x.
    - (* two elements *)
      cbn in NB. destruct x, y; try discriminate; try reflexivity.
      cbn. rewrite Z.ltb_antisym. now destruct (z <=? z0)%Z.
    - (* three or more: the element-wise schema may accept, the length test refuses *)
      cbn [check_disparities_from_input List.length Nat.eqb negb is_ok]. cbn [doc_interval].
      rewrite andb_false_r. destruct x; try reflexivity. now destruct y.
  Qed.

  (* a disparity grid *)
  Lemma grid_documented p pimg fimg : fs pimg = Some fimg ->
    a_grid fs (JStr p) && is_ok (check_disparities_from_input fs (JStr p) (JStr pimg)) = doc_grid fs fimg (JStr p).
  Proof.
    intro E. cbn. rewrite E. cbn. unfold readable. destruct (fs p) as [g|]; cbn.
    - rewrite orb_true_r. cbn. unfold same_size.
      destruct (f_count g =? 2)%Z; cbn; [|reflexivity].
      destruct (f_w g =? f_w fimg)%Z, (f_h g =? f_h fimg)%Z; cbn; try reflexivity.
      now destruct (f_gt g).
    - now rewrite andb_false_r.
  Qed.
End Custom.

(* ---------------------------------------------------------------- the twelve values *)

Section Main.
  Variable fs : string -> option finfo.

  (* what the model computes once the twelve values are known *)
  Definition model_values (a1 a2 a3 a4 a5 a6 b1 b2 b3 b4 b5 b6 : jv) : bool :=
    let sl := if is_list a6 then sch_interval else sch_grid in
    let sr := if is_list a6 then sch_none else if is_str b6 then sch_grid else sch_none in
    (a_img fs a1 && doc_nodata a2 && a_opt fs a3 && a_opt fs a4 && a_opt fs a5 && accepts (orc fs) sl a6)
    && (a_img fs b1 && doc_nodata b2 && a_opt fs b3 && a_opt fs b4 && a_opt fs b5 && accepts (orc fs) sr b6)
    && is_ok (andthen (check_disparities_from_input fs a6 a1)
             (andthen (check_disparities_from_input fs b6 b1)
                      (images_vals fs a1 a3 a4 a5 b1 b3 b4 b5))).

  Lemma values_documented a1 a2 a3 a4 a5 a6 b1 b2 b3 b4 b5 b6 : no_bool a6 = true ->
    model_values a1 a2 a3 a4 a5 a6 b1 b2 b3 b4 b5 b6 = doc_values fs a1 a2 a3 a4 a5 a6 b1 b2 b3 b4 b5 b6.
  Proof.
    intro NB. unfold model_values, doc_values.
    destruct a1 as [| | | |pl| | | |]; try reflexivity.
    destruct b1 as [| | | |pr| | | |]; try (cbn [a_img]; btauto).
    cbn [a_img]. unfold readable.
    destruct (fs pl) as [fl|] eqn:El; [|reflexivity].
    destruct (fs pr) as [fr|] eqn:Er; [|btauto].
    rewrite !is_ok_andthen. unfold images_vals. cbn [rasterio_open]. rewrite El, Er. cbn [bind].
    rewrite !is_ok_andthen. cbn [is_ok].
    rewrite <- !optional_documented.
    assert (D : is_ok (check_image_dimension fl fr) = same_size fl fr).
    { unfold check_image_dimension, same_size. now destruct (f_w fl =? f_w fr)%Z, (f_h fl =? f_h fr)%Z. }
    rewrite D.
    destruct (is_list a6) eqn:La.
    - (* interval *)
      destruct a6 as [| | | | | | |xs|]; try discriminate.
      rewrite <- (interval_documented fs (JList xs) (JStr pl) NB).
      rewrite acc_none.
      assert (G : doc_grid fs fl (JList xs) = false) by reflexivity. rewrite G.
      destruct b6; cbn [a_none check_disparities_from_input is_ok]; btauto.
    - destruct a6 as [| | | |p| | | |]; try discriminate;
        try (cbn [accepts sch_grid doc_interval doc_grid isinstance exact_type andb]; btauto).
      rewrite acc_grid. cbn [doc_interval].
      destruct b6 as [| | | |q| | | |]; cbn [is_str]; rewrite ?acc_grid, ?acc_none;
        try (rewrite <- (grid_documented fs p pl fl El));
        try (rewrite <- (grid_documented fs q pr fr Er));
        cbn [a_none a_grid check_disparities_from_input is_ok doc_grid]; try btauto.
  Qed.
End Main.

(* ---------------------------------------------------------------- the whole completed configuration *)

Definition left_disp (cfg : jv) : option jv :=
  match jget cfg "input" with
  | Some inp => match jget inp "left" with Some l => jget l "disp" | None => None end
  | None => None
  end.

(* the interval form holds no JSON boolean (see Spec/WellFormed.v no_bool) *)
Definition interval_bool_free (cfg : jv) : bool :=
  match left_disp cfg with Some v => no_bool v | None => true end.

Lemma keys_exactly_1 d k :
  keys_exactly d [k] = has_key k d && forallb (fun x => mem_str x [k]) (keys d).
Proof. unfold keys_exactly. cbn [forallb]. now rewrite andb_true_r. Qed.

Section Completed.
  Variable fs : string -> option finfo.

  Ltac bsimp := repeat rewrite ?andb_false_r, ?andb_false_l, ?andb_true_r, ?andb_true_l.
  Ltac dead di := solve [cbn; btauto | cbn; bsimp; cbn; (btauto || reflexivity)
                        | cbn; destruct (lookup "right" di) as [[]|]; cbn; bsimp; cbn; (btauto || reflexivity)].

  Lemma side_vals_disp d t : side_vals d = Some t -> lookup "disp" d = Some (snd t).
  Proof.
    unfold side_vals.
    destruct (lookup "img" d), (lookup "nodata" d), (lookup "mask" d), (lookup "classif" d),
      (lookup "segm" d), (lookup "disp" d); try discriminate. intro H. inversion H. reflexivity.
  Qed.

  Lemma side_vals_img d t : side_vals d = Some t -> lookup "img" d = Some (fst (fst (fst (fst (fst t))))).
  Proof.
    unfold side_vals.
    destruct (lookup "img" d), (lookup "nodata" d), (lookup "mask" d), (lookup "classif" d),
      (lookup "segm" d), (lookup "disp" d); try discriminate. intro H. inversion H. reflexivity.
  Qed.

  Lemma side_vals_all d a1 a2 a3 a4 a5 a6 : side_vals d = Some (a1, a2, a3, a4, a5, a6) ->
    lookup "img" d = Some a1 /\ lookup "nodata" d = Some a2 /\ lookup "mask" d = Some a3 /\
    lookup "classif" d = Some a4 /\ lookup "segm" d = Some a5 /\ lookup "disp" d = Some a6.
  Proof.
    unfold side_vals.
    destruct (lookup "img" d), (lookup "nodata" d), (lookup "mask" d), (lookup "classif" d),
      (lookup "segm" d), (lookup "disp" d); try discriminate. intro H. inversion H. subst. repeat split.
  Qed.

  Lemma side_vals_none_disp d : side_vals d = None -> keys_exactly d side_keys = false.
  Proof. intro H. now rewrite keys_exactly_side, H. Qed.

  Theorem check_completed_iff_documented cfg : interval_bool_free cfg = true ->
    is_ok (pandora_check_completed fs cfg) = documented_b fs cfg.
  Proof.
    intro NB. unfold pandora_check_completed, check_completed.
    destruct cfg as [| | | | | | | |top]; try reflexivity.
    cbn [subscript documented_b]. rewrite keys_exactly_1. unfold has_key.
    destruct (lookup "input" top) as [inp|] eqn:Ei; [|reflexivity].
    cbn [bind]. destruct inp as [| | | | | | | |di]; try (cbn; btauto).
    cbn [subscript].
    unfold keys_exactly at 1. cbn [forallb]. unfold has_key.
    destruct (lookup "left" di) as [l|] eqn:El; [|dead di].
    cbn [bind]. destruct l as [| | | | | | | |dl]; try (dead di).
    cbn [subscript].
    destruct (side_vals dl) as [[[[[[a1 a2] a3] a4] a5] a6]|] eqn:Sl.
    2:{ (* a key of the left side is missing *)
        rewrite (side_vals_none_disp dl Sl).
        destruct (lookup "disp" dl) as [ld|] eqn:Ed; [|dead di].
        cbn [bind].
        assert (A : forall b1 b2, accepts (orc fs) (chosen_schema gen_schemas b1 b2) (JDict top) = false).
        { intros b1 b2. rewrite gen_schema_is_ref. unfold ref_schema.
          destruct (if b1 then _ else _) as [sl sr]. rewrite accepts_sdict.
          cbn [forallb skey_name skey_opt skey_schema fst snd map]. rewrite Ei.
          rewrite accepts_sdict. cbn [forallb skey_name skey_opt skey_schema fst snd map]. rewrite El.
          rewrite accepts_side, Sl. reflexivity. }
        destruct (is_list ld).
        - cbn [bind]. rewrite A. dead di.
        - destruct (lookup "right" di) as [r|]; [|dead di]. cbn [bind].
          destruct r as [| | | | | | | |dr]; try (dead di). cbn [subscript].
          destruct (lookup "disp" dr); [|dead di]. cbn [bind]. rewrite A. dead di. }
    rewrite (side_vals_disp dl _ Sl). cbn [snd bind].
    assert (NB6 : no_bool a6 = true).
    { unfold interval_bool_free, left_disp in NB. cbn [jget] in NB. rewrite Ei in NB. cbn [jget] in NB.
      rewrite El in NB. cbn [jget] in NB. now rewrite (side_vals_disp dl _ Sl) in NB. }
    rewrite keys_exactly_side, Sl.
    (* the right side *)
    destruct (lookup "right" di) as [r|] eqn:Er.
    2:{ (* no right side: KeyError, or the schema refuses *)
        destruct (is_list a6); cbn [bind subscript]; rewrite ?Er; [|dead di].
        rewrite gen_schema_is_ref. unfold ref_schema. rewrite accepts_sdict.
        cbn [forallb skey_name skey_opt skey_schema fst snd map]. rewrite Ei.
        rewrite accepts_sdict. cbn [forallb skey_name skey_opt skey_schema fst snd map]. rewrite El, Er.
        dead di. }
    destruct r as [| | | | | | | |dr].
    1-8: (destruct (is_list a6); cbn [bind subscript]; rewrite ?Er; [|dead di];
          rewrite gen_schema_is_ref; unfold ref_schema; rewrite accepts_sdict;
          cbn [forallb skey_name skey_opt skey_schema fst snd map]; rewrite Ei;
          rewrite accepts_sdict; cbn [forallb skey_name skey_opt skey_schema fst snd map]; rewrite El, Er;
          dead di).
    destruct (side_vals dr) as [[[[[[b1 b2] b3] b4] b5] b6]|] eqn:Sr.
    2:{ rewrite (side_vals_none_disp dr Sr).
        assert (A : forall b1 b2, accepts (orc fs) (chosen_schema gen_schemas b1 b2) (JDict top) = false).
        { intros b1 b2. rewrite gen_schema_is_ref. unfold ref_schema.
          destruct (if b1 then _ else _) as [sl sr]. rewrite accepts_sdict.
          cbn [forallb skey_name skey_opt skey_schema fst snd map]. rewrite Ei.
          rewrite accepts_sdict. cbn [forallb skey_name skey_opt skey_schema fst snd map]. rewrite El, Er.
          rewrite (accepts_side fs sr dr), Sr. btauto. }
        destruct (is_list a6); cbn [bind subscript]; rewrite ?Er; cbn [bind subscript].
        - rewrite A. dead di.
        - destruct (lookup "disp" dr); [|dead di]. cbn [bind]. rewrite A. dead di. }
    rewrite keys_exactly_side, Sr.
    (* both sides have their six values *)
    destruct (side_vals_all dl _ _ _ _ _ _ Sl) as (Li & L2 & L3 & L4 & L5 & Ld).
    destruct (side_vals_all dr _ _ _ _ _ _ Sr) as (Ri & R2 & R3 & R4 & R5 & Rd).
    rewrite ?Li, ?L2, ?L3, ?L4, ?L5, ?Ld, ?Ri, ?R2, ?R3, ?R4, ?R5, ?Rd. cbv beta iota.
    rewrite <- (values_documented fs a1 a2 a3 a4 a5 a6 b1 b2 b3 b4 b5 b6 NB6).
    (* the model: schema selection, validation, custom checks *)
    destruct (is_list a6) eqn:La; [|destruct (is_str b6) eqn:Sb];
      cbn [bind subscript]; rewrite ?Er; cbn [bind subscript]; rewrite ?Li, ?Ld, ?Ri, ?Rd; cbn [bind]; rewrite ?Sb;
      rewrite gen_schema_is_ref; unfold ref_schema, model_values; rewrite ?La, ?Sb; cbv beta iota zeta;
      rewrite accepts_sdict; cbn [forallb skey_name skey_opt skey_schema fst snd map]; rewrite Ei;
      rewrite accepts_sdict; cbn [forallb skey_name skey_opt skey_schema fst snd map]; rewrite El, Er;
      rewrite !accepts_side, Sl, Sr;
      rewrite (check_images_vals fs di dl dr a1 a2 a3 a4 a5 a6 b1 b2 b3 b4 b5 b6 El Er Sl Sr);
      (match goal with |- is_ok (if negb ?c then _ else ?k) = _ =>
         transitivity (c && is_ok k); [destruct c; reflexivity|] end);
      btauto.
  Qed.
End Completed.

(* ---------------------------------------------------------------- update_conf: completion *)

Definition is_dict (v : jv) : bool := match v with JDict _ => true | _ => false end.

Section JvInd.
  Variable P : jv -> Prop.
  Hypothesis Hatom : forall v, is_dict v = false -> P v.
  Hypothesis Hdict : forall d, Forall (fun kv => P (snd kv)) d -> P (JDict d).

  Fixpoint jv_dict_ind (v : jv) : P v :=
    match v with
    | JDict d =>
      Hdict d ((fix go (d : dict) : Forall (fun kv => P (snd kv)) d :=
                  match d with
                  | [] => Forall_nil _
                  | (k, x) :: r => Forall_cons (k, x) (jv_dict_ind x) (go r)
                  end) d)
    | JInt z => Hatom (JInt z) eq_refl
    | JFloat q => Hatom (JFloat q) eq_refl
    | JNan => Hatom JNan eq_refl
    | JInf b => Hatom (JInf b) eq_refl
    | JStr s => Hatom (JStr s) eq_refl
    | JBool b => Hatom (JBool b) eq_refl
    | JNull => Hatom JNull eq_refl
    | JList l => Hatom (JList l) eq_refl
    end.
End JvInd.

Lemma upd_nil dv : upd dv (JDict []) = Ok dv.
Proof. reflexivity. Qed.

Lemma upd_cons_val ad k v rest : is_dict v = false ->
  upd (JDict ad) (JDict ((k, v) :: rest)) = upd (JDict (set_key k (conv_special v) ad)) (JDict rest).
Proof. destruct v; try discriminate; reflexivity. Qed.

Lemma upd_cons_dict ad k x rest :
  upd (JDict ad) (JDict ((k, JDict x) :: rest))
  = match upd (upd_base ad k) (JDict x) with
    | Ok nv => upd (JDict (set_key k nv ad)) (JDict rest)
    | Raise e => Raise e
    end.
Proof. reflexivity. Qed.

(* the Spec's [kept], on the items of a dictionary *)
Definition kept_items (d : dict) : dict := map (fun kv => (fst kv, kept (snd kv))) d.

Lemma kept_dict d : kept (JDict d) = JDict (kept_items d).
Proof.
  cbn [kept]. f_equal. induction d as [|[k x] r IH]; [reflexivity|].
  cbn [kept_items map fst snd]. now rewrite IH.
Qed.

Lemma kept_leaf v : is_dict v = false -> kept v = conv_special v.
Proof. destruct v; try discriminate; reflexivity. Qed.

Lemma py_keys_dict d : py_keys (JDict d) <-> NoDup (keys d) /\ Forall (fun kv => py_keys (snd kv)) d.
Proof.
  cbn [py_keys].
  assert (E : (fix all (d : dict) : Prop := match d with [] => True | (_, x) :: r => py_keys x /\ all r end) d
              <-> Forall (fun kv => py_keys (snd kv)) d).
  { induction d as [|[k x] r IH]; [split; constructor|].
    split.
    - intros [H1 H2]. constructor; [exact H1 | now apply IH].
    - intro H. inversion H; subst. split; [assumption | now apply IH]. }
  now rewrite E.
Qed.

(* every user item stored in turn, each value as the Spec keeps it *)
Definition set_all (ud dd : dict) : dict :=
  fold_left (fun acc kv => set_key (fst kv) (kept (snd kv)) acc) ud dd.

Lemma lookup_set_key k k' v d :
  lookup k (set_key k' v d) = if String.eqb k k' then Some v else lookup k d.
Proof.
  induction d as [|[k0 v0] r IH]; cbn.
  - now destruct (String.eqb k k').
  - destruct (String.eqb k' k0) eqn:E0; cbn.
    + apply String.eqb_eq in E0. subst k0. now destruct (String.eqb k k').
    + destruct (String.eqb k k0) eqn:E1.
      * destruct (String.eqb k k') eqn:E2; [|reflexivity].
        apply String.eqb_eq in E1, E2. subst. now rewrite String.eqb_refl in E0.
      * exact IH.
Qed.

Lemma lookup_none_not_in k (d : dict) : ~ In k (keys d) -> lookup k d = None.
Proof.
  induction d as [|[k0 v0] r IH]; cbn; [reflexivity|]. intro H.
  destruct (String.eqb k k0) eqn:E; [apply String.eqb_eq in E; subst; tauto|]. apply IH. tauto.
Qed.

Lemma lookup_set_all ud : forall dd k, NoDup (keys ud) ->
  lookup k (set_all ud dd) = match lookup k ud with Some v => Some (kept v) | None => lookup k dd end.
Proof.
  induction ud as [|[k0 v0] rest IH]; intros dd k ND; [reflexivity|].
  cbn in ND. inversion ND as [|? ? Hnot ND']; subst.
  unfold set_all. cbn [fold_left fst snd]. fold (set_all rest (set_key k0 (kept v0) dd)).
  rewrite IH by exact ND'. cbn [lookup].
  destruct (String.eqb k k0) eqn:E.
  - apply String.eqb_eq in E. subst k0. rewrite (lookup_none_not_in k rest Hnot).
    now rewrite lookup_set_key, String.eqb_refl.
  - destruct (lookup k rest); [reflexivity|]. now rewrite lookup_set_key, E.
Qed.

Lemma set_key_notin k v (d : dict) : ~ In k (keys d) -> set_key k v d = (d ++ [(k, v)])%list.
Proof.
  induction d as [|[k0 v0] r IH]; cbn; [reflexivity|]. intro H.
  destruct (String.eqb k k0) eqn:E; [apply String.eqb_eq in E; subst; tauto|].
  rewrite IH by tauto. reflexivity.
Qed.

(* stored into a dictionary that has none of the keys: appended in order *)
Lemma set_all_fresh ud : forall acc, NoDup (keys ud) -> (forall k, In k (keys ud) -> ~ In k (keys acc)) ->
  set_all ud acc = (acc ++ kept_items ud)%list.
Proof.
  induction ud as [|[k v] rest IH]; intros acc ND F; [cbn; now rewrite app_nil_r|].
  cbn in ND. inversion ND as [|? ? Hnot ND']; subst.
  unfold set_all. cbn [fold_left fst snd]. fold (set_all rest (set_key k (kept v) acc)).
  rewrite set_key_notin by (apply F; now left).
  rewrite IH; [cbn [kept_items map fst snd]; now rewrite <- app_assoc | exact ND' |].
  intros k' Hin. unfold keys. rewrite map_app, in_app_iff. cbn [map fst In].
  intros [H|[H|[]]]; [apply (F k'); [now right | exact H] | subst k'; exact (Hnot Hin)].
Qed.

(* no dictionary is stored under the key (no value, or a scalar / list / None) *)
Definition no_dict_at (dd : dict) (k : string) : Prop :=
  match lookup k dd with Some (JDict _) => False | _ => True end.

Lemma upd_base_no_dict dd k : no_dict_at dd k -> upd_base dd k = JDict [].
Proof. unfold no_dict_at, upd_base. destruct (lookup k dd) as [[]|]; tauto || reflexivity. Qed.

Lemma no_dict_at_leaves dd : forallb (fun kv => negb (is_dict (snd kv))) dd = true -> forall k, no_dict_at dd k.
Proof.
  intros H k. unfold no_dict_at. induction dd as [|[k0 v0] r IH]; cbn; [exact I|].
  cbn in H. apply andb_prop in H as [H1 H2].
  destruct (String.eqb k k0); [destruct v0; try exact I; discriminate | exact (IH H2)].
Qed.

(* the statement proved by induction on the user's value: merged into an empty dictionary, a
   dictionary comes out as the Spec keeps it *)
Definition upd_keeps (v : jv) : Prop :=
  py_keys v -> forall d, v = JDict d -> upd (JDict []) (JDict d) = Ok (kept (JDict d)).

(* a user dictionary merged into defaults that hold no dictionary under the user's keys: every
   user item is stored, dictionaries included (nothing raises, nothing is replaced by a default) *)
Lemma upd_over_leaves ud : Forall (fun kv => upd_keeps (snd kv)) ud ->
  forall dd, NoDup (keys ud) -> Forall (fun kv => py_keys (snd kv)) ud ->
  (forall k, In k (keys ud) -> no_dict_at dd k) ->
  upd (JDict dd) (JDict ud) = Ok (JDict (set_all ud dd)).
Proof.
  induction 1 as [|[k v] rest Hv _ IH]; intros dd ND PY NA; [reflexivity|].
  cbn in ND. inversion ND as [|? ? Hnot ND']; subst. inversion PY as [|? ? Pv PY']; subst.
  assert (NA' : forall nv k', In k' (keys rest) -> no_dict_at (set_key k nv dd) k').
  { intros nv k' Hin. unfold no_dict_at. rewrite lookup_set_key.
    destruct (String.eqb k' k) eqn:E; [apply String.eqb_eq in E; subst; contradiction|].
    apply NA. now right. }
  unfold set_all. cbn [fold_left fst snd]. fold (set_all rest (set_key k (kept v) dd)).
  destruct (is_dict v) eqn:D.
  - destruct v; try discriminate. rewrite upd_cons_dict.
    rewrite upd_base_no_dict by (apply NA; now left).
    rewrite (Hv Pv d eq_refl). apply IH; auto.
  - rewrite upd_cons_val by exact D. rewrite <- (kept_leaf v D). apply IH; auto.
Qed.

Lemma upd_keeps_all : forall v, upd_keeps v.
Proof.
  induction v as [v A|d IH] using jv_dict_ind; intros PY d' E.
  - subst v. discriminate.
  - inversion E; subst d'. apply py_keys_dict in PY as [ND PY].
    rewrite (upd_over_leaves d IH [] ND PY) by (intros; exact I).
    rewrite kept_dict, set_all_fresh; [reflexivity | exact ND | intros k _ []].
Qed.

Lemma upd_dict_kept ud dd : py_keys (JDict ud) -> (forall k, In k (keys ud) -> no_dict_at dd k) ->
  upd (JDict dd) (JDict ud) = Ok (JDict (set_all ud dd)).
Proof.
  intros PY NA. apply py_keys_dict in PY as [ND PY]. apply upd_over_leaves; auto.
  apply Forall_forall. intros kv _. apply upd_keeps_all.
Qed.

(* a value of the section, by side and key *)
Definition field (cfg : jv) (side key : string) : option jv :=
  match jget cfg "input" with
  | Some inp => match jget inp side with Some s => jget s key | None => None end
  | None => None
  end.

(* the user section {"input": {"left": L, "right": R}} (either order of the two sides) is completed
   into a section that holds, for every key, the user's value ("NaN"/"inf"/"-inf" converted),
   WHATEVER that value is (dictionaries included), and otherwise the documented default *)
Lemma input_completion_lr L R (swap : bool) :
  py_keys (JDict L) -> py_keys (JDict R) ->
  let sides := if swap then [("right", JDict R); ("left", JDict L)] else [("left", JDict L); ("right", JDict R)] in
  let user := JDict [("input", JDict sides)] in
  exists cfg, upd (JDict default_short_configuration_input) user = Ok cfg /\
    forall side key, side = "left" \/ side = "right" ->
      field cfg side key = match field user side key with
                           | Some v => Some (kept v)
                           | None => documented_default side key
                           end.
Proof.
  intros PL PR sides user. subst user sides.
  pose proof (proj1 (proj1 (py_keys_dict L) PL)) as NL. pose proof (proj1 (proj1 (py_keys_dict R) PR)) as NR.
  destruct swap.
  - eexists. split.
    + rewrite upd_cons_dict. cbn [upd_base lookup default_short_configuration_input String.eqb Ascii.eqb Bool.eqb].
      rewrite upd_cons_dict. cbn [upd_base lookup String.eqb Ascii.eqb Bool.eqb].
      rewrite (upd_dict_kept R _ PR) by (intros k _; apply no_dict_at_leaves; reflexivity).
      rewrite upd_cons_dict. cbn [upd_base lookup set_key String.eqb Ascii.eqb Bool.eqb].
      rewrite (upd_dict_kept L _ PL) by (intros k _; apply no_dict_at_leaves; reflexivity).
      rewrite upd_nil. rewrite upd_nil. reflexivity.
    + intros side key [->| ->]; unfold field; cbn [jget lookup set_key String.eqb Ascii.eqb Bool.eqb];
        rewrite lookup_set_all by assumption; (destruct (lookup key L) || destruct (lookup key R)); try reflexivity;
        unfold documented_default; cbn [lookup];
        repeat (match goal with |- context [String.eqb key ?s] => destruct (String.eqb key s) eqn:? end; cbn; try reflexivity).
  - eexists. split.
    + rewrite upd_cons_dict. cbn [upd_base lookup default_short_configuration_input String.eqb Ascii.eqb Bool.eqb].
      rewrite upd_cons_dict. cbn [upd_base lookup String.eqb Ascii.eqb Bool.eqb].
      rewrite (upd_dict_kept L _ PL) by (intros k _; apply no_dict_at_leaves; reflexivity).
      rewrite upd_cons_dict. cbn [upd_base lookup set_key String.eqb Ascii.eqb Bool.eqb].
      rewrite (upd_dict_kept R _ PR) by (intros k _; apply no_dict_at_leaves; reflexivity).
      rewrite upd_nil. rewrite upd_nil. reflexivity.
    + intros side key [->| ->]; unfold field; cbn [jget lookup set_key String.eqb Ascii.eqb Bool.eqb];
        rewrite lookup_set_all by assumption; (destruct (lookup key L) || destruct (lookup key R)); try reflexivity;
        unfold documented_default; cbn [lookup];
        repeat (match goal with |- context [String.eqb key ?s] => destruct (String.eqb key s) eqn:? end; cbn; try reflexivity).
Qed.

(* ---------------------------------------------------------------- update_conf: every user value is kept, any outline *)

Lemma lookup_in k (d : dict) v : lookup k d = Some v -> In (k, v) d.
Proof.
  induction d as [|[k0 v0] r IH]; cbn; [discriminate|].
  destruct (String.eqb k k0) eqn:E.
  - apply String.eqb_eq in E. subst. intro H. inversion H. now left.
  - intro H. right. now apply IH.
Qed.

Lemma py_keys_lookup d k v : py_keys (JDict d) -> lookup k d = Some v -> py_keys v.
Proof.
  intros P L. apply py_keys_dict in P as [_ P]. rewrite Forall_forall in P.
  exact (P (k, v) (lookup_in _ _ _ L)).
Qed.

Lemma upd_base_set_key_other dd k k0 nv : String.eqb k k0 = false -> upd_base (set_key k0 nv dd) k = upd_base dd k.
Proof. intro E. unfold upd_base. now rewrite lookup_set_key, E. Qed.

(* one level of update_conf, for ANY default dictionary and ANY user dictionary with each key once:
   the keys the user does not give keep their value; a key the user gives holds the user's value
   converted, or -- for a dictionary -- the merge of that dictionary into what was there *)
Lemma upd_level ud : forall dd cfg, NoDup (keys ud) -> upd (JDict dd) (JDict ud) = Ok cfg ->
  exists cd, cfg = JDict cd /\
    (forall k, ~ In k (keys ud) -> lookup k cd = lookup k dd) /\
    (forall k v, lookup k ud = Some v ->
       if is_dict v then exists nv, upd (upd_base dd k) v = Ok nv /\ lookup k cd = Some nv
       else lookup k cd = Some (conv_special v)).
Proof.
  induction ud as [|[k0 v0] rest IH]; intros dd cfg ND U.
  - rewrite upd_nil in U. inversion U; subst. exists dd. split; [reflexivity|]. split; [reflexivity|]. discriminate.
  - cbn in ND. inversion ND as [|? ? Hnot ND']; subst.
    assert (STEP : exists nv0, upd (JDict (set_key k0 nv0 dd)) (JDict rest) = Ok cfg /\
                     (if is_dict v0 then upd (upd_base dd k0) v0 = Ok nv0 else nv0 = conv_special v0)).
    { destruct (is_dict v0) eqn:D.
      - destruct v0; try discriminate. rewrite upd_cons_dict in U.
        destruct (upd (upd_base dd k0) (JDict d)) as [nv|e]; [|discriminate]. exists nv. auto.
      - rewrite upd_cons_val in U by exact D. eauto. }
    destruct STEP as (nv0 & U' & S0).
    destruct (IH _ _ ND' U') as (cd & -> & Keep & Given). exists cd. split; [reflexivity|]. split.
    + intros k Hk. cbn in Hk. rewrite Keep by tauto. rewrite lookup_set_key.
      destruct (String.eqb k k0) eqn:E; [apply String.eqb_eq in E; subst; tauto | reflexivity].
    + intros k v L. cbn [lookup] in L. destruct (String.eqb k k0) eqn:E.
      * apply String.eqb_eq in E. subst k0. inversion L; subst v0.
        rewrite (Keep k Hnot), lookup_set_key, String.eqb_refl.
        destruct (is_dict v); [eauto | now rewrite S0].
      * specialize (Given k v L). now rewrite upd_base_set_key_other in Given by exact E.
Qed.

(* EVERY USER VALUE IS KEPT, whatever the outline of the user's configuration (other keys at any
   level, sides in any order, a side missing, ...): if update_conf returns at all, the value the
   user gave for a key of the left / right section is in the result *)
Lemma user_values_kept user cfg side key v :
  py_keys user -> upd (JDict default_short_configuration_input) user = Ok cfg ->
  side = "left" \/ side = "right" ->
  field user side key = Some v -> field cfg side key = Some (kept v).
Proof.
  intros PY U S F. unfold field in F.
  destruct user as [| | | | | | | |top]; try discriminate. cbn [jget] in F.
  destruct (lookup "input" top) as [[| | | | | | | |inp]|] eqn:L1; try discriminate. cbn [jget] in F.
  destruct (lookup side inp) as [[| | | | | | | |sd]|] eqn:L2; try discriminate. cbn [jget] in F.
  pose proof (py_keys_lookup _ _ _ PY L1) as P1. pose proof (py_keys_lookup _ _ _ P1 L2) as P2.
  pose proof (py_keys_lookup _ _ _ P2 F) as P3.
  destruct (upd_level top _ _ (proj1 (proj1 (py_keys_dict top) PY)) U) as (c0 & -> & _ & G0).
  specialize (G0 _ _ L1). cbn [is_dict] in G0. destruct G0 as (n1 & U1 & C1).
  cbn [upd_base lookup default_short_configuration_input String.eqb Ascii.eqb Bool.eqb] in U1.
  destruct (upd_level inp _ _ (proj1 (proj1 (py_keys_dict inp) P1)) U1) as (c1 & -> & _ & G1).
  specialize (G1 _ _ L2). cbn [is_dict] in G1. destruct G1 as (n2 & U2 & C2).
  assert (E : exists ds, upd_base [("left", JDict [("nodata", JInt (-9999)); ("mask", JNull); ("classif", JNull); ("segm", JNull)]);
                                   ("right", JDict [("nodata", JInt (-9999)); ("mask", JNull); ("classif", JNull); ("segm", JNull); ("disp", JNull)])]
                                  side = JDict ds /\ forallb (fun kv => negb (is_dict (snd kv))) ds = true).
  { destruct S as [-> | ->]; eexists; split; reflexivity. }
  destruct E as (ds & Eb & Lv). rewrite Eb in U2.
  destruct (upd_level sd _ _ (proj1 (proj1 (py_keys_dict sd) P2)) U2) as (c2 & -> & _ & G2).
  specialize (G2 _ _ F).
  unfold field. cbn [jget]. rewrite C1. cbn [jget]. rewrite C2. cbn [jget].
  destruct (is_dict v) eqn:D.
  - destruct G2 as (n3 & U3 & C3). rewrite C3. f_equal.
    rewrite (upd_base_no_dict ds key (no_dict_at_leaves ds Lv key)) in U3.
    destruct v; try discriminate. rewrite (upd_keeps_all (JDict d) P3 d eq_refl) in U3. now inversion U3.
  - rewrite G2. now rewrite kept_leaf.
Qed.

(* ---------------------------------------------------------------- a documented form holds no dictionary value *)

Lemma lookup_in_keys k (d : dict) v : lookup k d = Some v -> In k (keys d).
Proof.
  induction d as [|[k0 v0] r IH]; cbn; [discriminate|].
  destruct (String.eqb k k0) eqn:E; [apply String.eqb_eq in E; subst; now left | intro H; right; now apply IH].
Qed.

Lemma is_dict_kept v : is_dict (kept v) = is_dict v.
Proof.
  destruct v; try reflexivity. cbn [kept conv_special].
  destruct (String.eqb s "NaN"); [reflexivity|]. destruct (String.eqb s "inf"); [reflexivity|].
  destruct (String.eqb s "-inf"); reflexivity.
Qed.

Lemma documented_no_dict fs cfg side key v :
  documented_b fs cfg = true -> side = "left" \/ side = "right" ->
  field cfg side key = Some v -> is_dict v = false.
Proof.
  intros D S F. unfold field in F.
  destruct cfg as [| | | | | | | |top]; try discriminate. cbn [documented_b jget] in *.
  apply andb_prop in D as [_ D].
  destruct (lookup "input" top) as [[| | | | | | | |inp]|]; try discriminate. cbn [jget] in F.
  apply andb_prop in D as [_ D].
  destruct (lookup "left" inp) as [[| | | | | | | |l]|] eqn:El; try discriminate.
  destruct (lookup "right" inp) as [[| | | | | | | |r]|] eqn:Er; try discriminate.
  apply andb_prop in D as [K D]. apply andb_prop in K as [Kl Kr].
  destruct (lookup "img" l) as [a1|] eqn:L1; [|discriminate]. destruct (lookup "nodata" l) as [a2|] eqn:L2; [|discriminate].
  destruct (lookup "mask" l) as [a3|] eqn:L3; [|discriminate]. destruct (lookup "classif" l) as [a4|] eqn:L4; [|discriminate].
  destruct (lookup "segm" l) as [a5|] eqn:L5; [|discriminate]. destruct (lookup "disp" l) as [a6|] eqn:L6; [|discriminate].
  destruct (lookup "img" r) as [b1|] eqn:R1; [|discriminate]. destruct (lookup "nodata" r) as [b2|] eqn:R2; [|discriminate].
  destruct (lookup "mask" r) as [b3|] eqn:R3; [|discriminate]. destruct (lookup "classif" r) as [b4|] eqn:R4; [|discriminate].
  destruct (lookup "segm" r) as [b5|] eqn:R5; [|discriminate]. destruct (lookup "disp" r) as [b6|] eqn:R6; [|discriminate].
  unfold doc_values in D.
  destruct a1 as [| | | |pl| | | |]; try discriminate. destruct b1 as [| | | |pr| | | |]; try discriminate.
  destruct (fs pl) as [fl|]; [|discriminate]. destruct (fs pr) as [fr|]; [|discriminate].
  repeat (match goal with H : _ && _ = true |- _ => apply andb_prop in H as [? ?] end).
  assert (Dl : is_dict a6 = false).
  { destruct a6; try reflexivity. cbn in *. discriminate. }
  assert (Dr : is_dict b6 = false).
  { destruct b6; try reflexivity. cbn in *.
    match goal with H : _ || _ = true |- _ => rewrite !andb_false_r in H; discriminate end. }
  assert (M : forall d, keys_exactly d side_keys = true -> lookup key d = Some v ->
              key = "img" \/ key = "nodata" \/ key = "mask" \/ key = "classif" \/ key = "segm" \/ key = "disp").
  { intros d Kd Ld. unfold keys_exactly in Kd. apply andb_prop in Kd as [_ Kd].
    rewrite forallb_forall in Kd. specialize (Kd key (lookup_in_keys _ _ _ Ld)).
    unfold side_keys in Kd. cbn [mem_str] in Kd.
    repeat (match goal with H : String.eqb key ?s || _ = true |- _ =>
              destruct (String.eqb key s) eqn:E; [apply String.eqb_eq in E; tauto | clear E; cbn [orb] in H] end).
    discriminate. }
  destruct S as [-> | ->].
  - rewrite El in F. cbn [jget] in F.
    destruct (M l Kl F) as [-> | [-> | [-> | [-> | [-> | ->]]]]];
      [rewrite L1 in F | rewrite L2 in F | rewrite L3 in F | rewrite L4 in F | rewrite L5 in F | rewrite L6 in F];
      inversion F; subst; try exact Dl; try reflexivity; destruct v; try reflexivity; cbn in *; discriminate.
  - rewrite Er in F. cbn [jget] in F.
    destruct (M r Kr F) as [-> | [-> | [-> | [-> | [-> | ->]]]]];
      [rewrite R1 in F | rewrite R2 in F | rewrite R3 in F | rewrite R4 in F | rewrite R5 in F | rewrite R6 in F];
      inversion F; subst; try exact Dr; try reflexivity; destruct v; try reflexivity; cbn in *; discriminate.
Qed.

(* ---------------------------------------------------------------- no accepted section holds a dictionary value *)

(* when the part of check_input_section after update_conf returns, the json-checker validation
   against one of the four schemas has accepted the configuration *)
Lemma completed_accepts fs cfg : is_ok (pandora_check_completed fs cfg) = true ->
  exists b1 b2, accepts (orc fs) (chosen_schema gen_schemas b1 b2) cfg = true.
Proof.
  unfold pandora_check_completed, check_completed. intro H.
  destruct (subscript cfg "input") as [inp|]; [|discriminate]. cbn [bind] in H.
  destruct (subscript inp "left") as [l|]; [|discriminate]. cbn [bind] in H.
  destruct (subscript l "disp") as [ld|]; [|discriminate]. cbn [bind] in H.
  destruct (if is_list ld then Ok false
            else bind (subscript inp "right") (fun r => bind (subscript r "disp") (fun rd => Ok (is_str rd)))) as [rstr|];
    [|discriminate]. cbn [bind] in H.
  exists (is_list ld), rstr.
  destruct (accepts (orc fs) (chosen_schema gen_schemas (is_list ld) rstr) cfg); [reflexivity | discriminate].
Qed.

Lemma keys_sub_lookup d key v : keys_sub d = true -> lookup key d = Some v ->
  key = "img" \/ key = "nodata" \/ key = "mask" \/ key = "classif" \/ key = "segm" \/ key = "disp".
Proof.
  intros K L. unfold keys_sub in K. rewrite forallb_forall in K. specialize (K key (lookup_in_keys _ _ _ L)).
  unfold side_keys in K. cbn [mem_str] in K.
  repeat (match goal with H : String.eqb key ?s || _ = true |- _ =>
            destruct (String.eqb key s) eqn:E; [apply String.eqb_eq in E; tauto | clear E; cbn [orb] in H] end).
  discriminate.
Qed.

(* one side accepted by the schema: none of its values is a dictionary *)
Lemma accepted_side_no_dict fs sd d key v :
  In sd [sch_interval; sch_grid; sch_none] ->
  accepts (orc fs) (SDict (ref_side sd)) (JDict d) = true -> lookup key d = Some v -> is_dict v = false.
Proof.
  intros Isd A L. rewrite accepts_side in A.
  destruct (side_vals d) as [[[[[[a1 a2] a3] a4] a5] a6]|] eqn:Sv; [|discriminate].
  destruct (side_vals_all d _ _ _ _ _ _ Sv) as (L1 & L2 & L3 & L4 & L5 & L6).
  apply andb_prop in A as [K A]. repeat (match goal with H : _ && _ = true |- _ => apply andb_prop in H as [? ?] end).
  destruct (keys_sub_lookup d key v K L) as [-> | [-> | [-> | [-> | [-> | ->]]]]];
    [rewrite L1 in L | rewrite L2 in L | rewrite L3 in L | rewrite L4 in L | rewrite L5 in L | rewrite L6 in L];
    inversion L; subst; destruct v; try reflexivity; try (cbn in *; discriminate).
  cbn [In] in Isd. destruct Isd as [<- | [<- | [<- | []]]]; cbn in *; discriminate.
Qed.

Lemma completed_no_dict fs cfg side key v :
  is_ok (pandora_check_completed fs cfg) = true -> side = "left" \/ side = "right" ->
  field cfg side key = Some v -> is_dict v = false.
Proof.
  intros H S F. destruct (completed_accepts fs cfg H) as (b1 & b2 & A).
  rewrite gen_schema_is_ref in A. unfold field in F.
  destruct cfg as [| | | | | | | |top]; try discriminate. cbn [jget] in F.
  destruct (lookup "input" top) as [[| | | | | | | |inp]|] eqn:L1; try discriminate. cbn [jget] in F.
  destruct (lookup side inp) as [[| | | | | | | |sd]|] eqn:L2; try discriminate. cbn [jget] in F.
  assert (E : exists sl sr, In sl [sch_interval; sch_grid; sch_none] /\ In sr [sch_interval; sch_grid; sch_none] /\
              ref_schema b1 b2 = SDict [("input", false, SDict [("left", false, SDict (ref_side sl));
                                                               ("right", false, SDict (ref_side sr))])]).
  { destruct b1; [|destruct b2]; do 2 eexists; (split; [|split; [|reflexivity]]); cbn [In]; tauto. }
  destruct E as (sl & sr & Il & Ir & E). rewrite E in A. clear E.
  rewrite accepts_sdict in A. cbn [forallb skey_name skey_opt skey_schema fst snd map] in A. rewrite L1 in A.
  apply andb_prop in A as [A _]. apply andb_prop in A as [A _].
  rewrite accepts_sdict in A. cbn [forallb skey_name skey_opt skey_schema fst snd map] in A.
  apply andb_prop in A as [A _]. apply andb_prop in A as [Al Ar]. apply andb_prop in Ar as [Ar _].
  destruct S as [-> | ->]; rewrite L2 in *.
  - exact (accepted_side_no_dict fs sl sd key v Il Al F).
  - exact (accepted_side_no_dict fs sr sd key v Ir Ar F).
Qed.

(* ---------------------------------------------------------------- the whole function *)

Lemma check_input_section_spec fs user cfg :
  pandora_check_input_section fs user = Ok cfg <->
  upd (JDict default_short_configuration_input) user = Ok cfg /\ is_ok (pandora_check_completed fs cfg) = true.
Proof.
  unfold pandora_check_input_section, check_input_section, pandora_check_completed.
  destruct (upd (JDict default_short_configuration_input) user) as [c|e]; cbn [bind].
  - split.
    + intro H. destruct (check_completed fs gen_schemas images_checked c) as [[]|e] eqn:E; cbn [bind] in H; [|discriminate].
      inversion H; subst. split; [reflexivity|]. now rewrite E.
    + intros [H1 H2]. inversion H1; subst.
      destruct (check_completed fs gen_schemas images_checked cfg) as [[]|e]; [reflexivity | discriminate].
  - split; [discriminate | intros [H _]; discriminate].
Qed.

(* ---------------------------------------------------------------- refusal comes first *)

Lemma started_stops raises : forall calls c x i j,
  index_str c calls = Some i -> index_str x calls = Some j -> (i < j)%nat -> raises c = true ->
  ~ In x (started raises calls).
Proof.
  induction calls as [|y rest IH]; intros c x i j Hc Hx Hij Hr; [discriminate|].
  cbn [index_str] in Hc, Hx. cbn [started].
  destruct (String.eqb x y) eqn:Exy.
  { inversion Hx; subst. lia. }
  apply String.eqb_neq in Exy.
  destruct (String.eqb c y) eqn:Ecy.
  - apply String.eqb_eq in Ecy. subst y. rewrite Hr. intros [H|[]]. congruence.
  - destruct (index_str c rest) as [i'|] eqn:Ei; [|discriminate].
    destruct (index_str x rest) as [j'|] eqn:Ej; [|discriminate].
    inversion Hc; inversion Hx; subst.
    intros [H|H]; [congruence|].
    destruct (raises y); [destruct H|].
    apply (IH c x i' j' Ei Ej) in H; [exact H | lia | exact Hr].
Qed.
